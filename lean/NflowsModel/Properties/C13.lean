import NflowsModel.Core.Store
import NflowsModel.Lemmas.StoreTrace
import NflowsModel.Generated.C13
/-!
# C13 — evaluation is free of side effects on arguments and on the model   (partial: see DESIGN §8 item 3)

THESE ARE THIN THEOREMS ABOUT A SMALL MACHINE.  The machine (`Thin.Store`, Core/Thin.lean + Core/Store.lean) has
storages identified by a number; a trace is the list of storage-relevant events of one call
(`alloc`/`view`/`read`/`write`); `owned` = storages of the caller's tensors and of every parameter and buffer at
call entry; `wl` = the whitelist (documented statistics of the normalisation layers, training mode only; `[]` in
evaluation mode).  `traceSafe owned wl tr` is a decidable check of the trace *skeleton*.  The theorems say: if the
check passes then, for EVERY store (all tensor values, all versions) and whatever the writes compute, every owned
non-whitelisted storage is left exactly as it was; this is closed under concatenation, so it holds for every
finite history of safe calls, and a repeated call starts from the same owned state.

The premises `traceSafe … = true` are NOT proved here for "the code": they are established per run, by `decide`,
for the traces the translator extracts from the running implementation
(`NflowsModel/Generated/C13.lean`, theorems `Properties.C13.trace_<k>_safe`, regenerated before every build by
`harness/props/c13.py`), and executed by the driver (`Core/Ops/C13.lean`) for every correspondence case.  A code path
that the generator never executes is not covered; the evidence lists the skeletons seen.
-/
open Thin Thin.Store

namespace Properties.C13

/-- **Soundness of the checker (version machine).**  A safe trace leaves every owned, non-whitelisted storage at
    its initial version — for all stores. -/
theorem traceSafe_sound (owned wl : List Nat) (tr : List Ev) (h : traceSafe owned wl tr = true)
    (σ : St) (t : Nat) (ht : owned.contains t = true) (hw : wl.contains t = false) : run σ tr t = σ t :=
  Store.traceSafe_sound owned wl tr h σ t ht hw

/-- **Soundness, value level.**  Every storage holds an arbitrary value (the bytes of the tensor memory) and each
    write stores an arbitrary function of the whole store.  If the skeleton passes the check, an owned
    non-whitelisted storage keeps its content.  The conclusion does not depend on the values: this is what lifts a
    finite set of skeletons to all inputs. -/
theorem values_unchanged {V : Type} (owned wl : List Nat) (tr : List (EvV V))
    (h : traceSafe owned wl (skeleton tr) = true) (σ : StV V) (t : Nat)
    (ht : owned.contains t = true) (hw : wl.contains t = false) : runV σ tr t = σ t :=
  Store.runV_owned_unchanged owned wl tr h σ t ht hw

/-- **Evaluation mode**: with an empty whitelist a safe call leaves *every* owned storage (caller tensors, all
    parameters, all buffers) unchanged. -/
theorem eval_mode_state_unchanged {V : Type} (owned : List Nat) (tr : List (EvV V))
    (h : traceSafe owned [] (skeleton tr) = true) (σ : StV V) (t : Nat) (ht : owned.contains t = true) :
    runV σ tr t = σ t :=
  Store.runV_owned_unchanged owned [] tr h σ t ht (by simp)

/-- **Closure under concatenation**: a call sequence is safe iff each part is. -/
theorem traceSafe_append (owned wl : List Nat) (t1 t2 : List Ev) :
    traceSafe owned wl (t1 ++ t2) = (traceSafe owned wl t1 && traceSafe owned wl t2) :=
  Store.traceSafe_append owned wl t1 t2

/-- **Smaller owned sets**: a trace that is safe for an owned set is safe for every subset of it.  The generated
    theorems `trace_<k>_safe` are stated for `List.range n` with `n` the largest owned set among the cases that
    share the skeleton; this lemma transfers them to each case. -/
theorem traceSafe_mono_owned (owned owned' wl : List Nat) (tr : List Ev)
    (hsub : ∀ s, owned.contains s = true → owned'.contains s = true)
    (h : traceSafe owned' wl tr = true) : traceSafe owned wl tr = true :=
  Store.traceSafe_mono_owned owned owned' wl tr hsub h

/-- **Histories**: any finite sequence of calls is safe iff every call in it is. -/
theorem traceSafe_history (owned wl : List Nat) (calls : List (List Ev)) :
    traceSafe owned wl calls.flatten = calls.all (traceSafe owned wl) :=
  Store.traceSafe_flatten owned wl calls

/-- **Histories, soundness**: after any finite sequence of safe calls (in any order, any length) every owned
    non-whitelisted storage is at its initial version. -/
theorem history_sound (owned wl : List Nat) (calls : List (List Ev))
    (h : ∀ c ∈ calls, traceSafe owned wl c = true) (σ : St) (t : Nat)
    (ht : owned.contains t = true) (hw : wl.contains t = false) : run σ calls.flatten t = σ t := by
  apply Store.traceSafe_sound owned wl _ _ σ t ht hw
  rw [Store.traceSafe_flatten, List.all_eq_true]
  exact h

/-- **Histories, value level.** -/
theorem history_values_unchanged {V : Type} (owned wl : List Nat) (calls : List (List (EvV V)))
    (h : ∀ c ∈ calls, traceSafe owned wl (skeleton c) = true) (σ : StV V) (t : Nat)
    (ht : owned.contains t = true) (hw : wl.contains t = false) : runV σ calls.flatten t = σ t := by
  apply Store.runV_owned_unchanged owned wl _ _ σ t ht hw
  have : skeleton calls.flatten = (calls.map skeleton).flatten := by
    unfold skeleton
    rw [List.map_flatten]
  rw [this, Store.traceSafe_flatten, List.all_eq_true]
  intro c hc
  obtain ⟨c', hc', rfl⟩ := List.mem_map.mp hc
  exact h c' hc'

/-- **Repeating a call**: running a safe trace twice leaves the owned state where running it once (and where not
    running it at all) leaves it — the second call starts from the same owned state as the first. -/
theorem repeat_deterministic (owned wl : List Nat) (tr : List Ev) (h : traceSafe owned wl tr = true)
    (σ : St) (t : Nat) (ht : owned.contains t = true) (hw : wl.contains t = false) :
    run σ (tr ++ tr) t = run σ tr t ∧ run σ tr t = σ t := by
  have h1 := Store.traceSafe_sound owned wl tr h σ t ht hw
  have h2 : traceSafe owned wl (tr ++ tr) = true := by rw [Store.traceSafe_append, h]; rfl
  exact ⟨(Store.traceSafe_sound owned wl _ h2 σ t ht hw).trans h1.symm, h1⟩

/-- **Repeated calls give the same result** (evaluation mode).  The result of a call is some function `out` of the
    store that reads only owned storages (the caller's tensors, parameters and buffers; sampling randomness is an
    explicit extra argument of `out` in the harness: the RNG is re-seeded).  After any safe call the same function
    returns the same value. -/
theorem repeat_same_output {V R : Type} (owned : List Nat) (tr : List (EvV V))
    (h : traceSafe owned [] (skeleton tr) = true) (out : StV V → R)
    (hout : ∀ σ σ' : StV V, (∀ t, owned.contains t = true → σ t = σ' t) → out σ = out σ') (σ : StV V) :
    out (runV σ tr) = out σ :=
  hout _ _ (fun t ht => Store.runV_owned_unchanged owned [] tr h σ t ht (by simp))

/-- **What the driver reports is the machine of the theorems**: the version after a trace is the initial version
    plus the number of writes to that storage (`writeCount`, compared with the `_version` delta of the real
    tensors). -/
theorem run_eq_add_writeCount (σ : St) (tr : List Ev) (t : Nat) : run σ tr t = σ t + writeCount t tr :=
  Store.run_eq_add_writeCount σ tr t

/-- the list of offending storages the driver reports is empty exactly when the check passes -/
theorem offending_nil_iff (owned wl : List Nat) (tr : List Ev) :
    offending owned wl tr = [] ↔ traceSafe owned wl tr = true :=
  Store.offending_nil_iff owned wl tr

/-- **The checker is exact for the version machine** (it rejects nothing that is harmless there): if the check
    fails, some owned non-whitelisted storage ends at a strictly larger version, for every initial store. -/
theorem traceSafe_complete (owned wl : List Nat) (tr : List Ev) (h : traceSafe owned wl tr = false) (σ : St) :
    ∃ t, owned.contains t = true ∧ wl.contains t = false ∧ σ t < run σ tr t := by
  have hne : offending owned wl tr ≠ [] := by
    intro hnil
    rw [(Store.offending_nil_iff owned wl tr).mp hnil] at h
    exact Bool.noConfusion h
  obtain ⟨s, hs⟩ := List.exists_mem_of_ne_nil _ hne
  obtain ⟨ho, hw, hc⟩ := (Store.mem_offending owned wl tr s).mp hs
  refine ⟨s, ho, hw, ?_⟩
  rw [Store.run_eq_add_writeCount]
  omega

/-- the wire format decodes to the events it encodes (sanity of the driver's decoder) -/
theorem decode_example :
    decodeEvs [0, 7, 1, 7, 2, 0, 3, 7] = [Ev.alloc 7, Ev.view 7, Ev.read 0, Ev.write 7] := by decide

/-! ### non-vacuity: the hypotheses are satisfiable by, and the check discriminates on, non-trivial data -/

/-- the piecewise-coupling pattern (coupling.py:407-409): the conditioner output is a fresh allocation (storage 5),
    sliced into views, divided in place; caller input 0, context 1, parameters 2,3 are only read → safe -/
example : traceSafe [0, 1, 2, 3] [] [.read 0, .read 1, .read 2, .read 3, .alloc 5, .view 5, .write 5, .view 5, .write 5,
    .alloc 6, .write 6] = true := by decide

/-- the same pattern with the in-place division landing on the caller's tensor is rejected -/
example : traceSafe [0, 1, 2, 3] [] [.read 0, .view 0, .write 0] = false := by decide

/-- BatchNorm in training mode (normalization.py:104-109): running statistics 4,5 are whitelisted -/
example : traceSafe [0, 2, 3, 4, 5] [4, 5] [.read 0, .write 4, .write 4, .write 5, .write 5, .alloc 9, .write 9] = true := by
  decide

/-- the same writes with the evaluation-mode whitelist are rejected -/
example : traceSafe [0, 2, 3, 4, 5] [] [.read 0, .write 4, .write 4, .write 5, .write 5] = false := by decide

/-- the conclusion of `values_unchanged` on a concrete valued trace that does change a non-owned storage -/
example : runV (fun _ => (0 : Nat)) [(.alloc 5, fun _ => 0), (.write 5, fun σ => σ 0 + 41), (.write 5, fun σ => σ 5 + 1)] 5 = 42 ∧
    runV (fun _ => (0 : Nat)) [(.alloc 5, fun _ => 0), (.write 5, fun σ => σ 0 + 41), (.write 5, fun σ => σ 5 + 1)] 0 = 0 := by
  decide

end Properties.C13
