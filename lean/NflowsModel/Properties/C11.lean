import NflowsModel.Real.LinearBridge
/-!
# C11 — linear-family accessors all describe one and the same affine map

Property theorems only (helpers: `Lemmas/{LU,Householder,LinearFamily,LFIndex,LFTriSolve}`, `Real/LinearBridge`).
Every statement is for an arbitrary feature count, an arbitrary number of Householder reflections and arbitrary
parameter values.  Two layers:

* **matrix level** (Mathlib `Matrix`): what `weight()`, `weight_inverse()`, `logabsdet()`, `matrix()`, `forward`,
  `inverse` compute, written as the code writes them (row-vector Householder application in the code's order, the
  transposes of `qr.py` / `svd.py`), is one affine map `x ↦ W x + b` with `W⁻¹ W = 1`, `log|det W|`, `QᵀQ = 1`;
* **executed level** (`…_executed`, `lu_assembly`, `triSolve_correct`, `householder_init_rows`): the Mathlib-free
  list programs of `Core/LinearFamily` that the driver runs against `/repo`, evaluated at `realOps`, are those
  matrix expressions (`ofMat A` = list-of-rows form of `A`).

`NaiveLinear` stores `W` itself; `torch.inverse` / `slogdet` / `lu_solve` enter by specification (`naive_roundtrip`
takes `Winv * W = 1` as hypothesis); the executable Gauss–Jordan elimination the correspondence runs is verified in
`Properties/C11G.lean` (it returns `W⁻¹` and `log |det W|` for every non-singular `W`, and the error exactly for singular ones).

History (not about the current tree): before the `fix:` commit 5855eed the constructor rows were
`tile(eye(num // 2, features))`, for which `householder_init_rows` is false — `(features, num) = (2, 6)` gives a
zero row (`2 / 0`), `(2, 5)` and `(1, 3)` index out of range (findings F5a–c, now replayed as fixed entries).
-/
open Matrix NF.LF DualSound LinearBridge

namespace Properties.C11

/-! ## LU (matrix level) -/

/-- `det (L U) = ∏ upper_diag` -/
theorem lu_det {n : ℕ} (lo up : Fin n → Fin n → ℝ) (d : Fin n → ℝ) :
    (LU.mkLower lo * LU.mkUpper up d).det = ∏ i, d i := LU.lu_det lo up d

/-- `logabsdet() = Σ log upper_diag` is `log |det W|` for a positive diagonal (lu.py:123-131) -/
theorem lu_logabsdet {n : ℕ} (lo up : Fin n → Fin n → ℝ) (d : Fin n → ℝ) (hd : ∀ i, 0 < d i) :
    ∑ i, Real.log (d i) = Real.log |(LU.mkLower lo * LU.mkUpper up d).det| := LU.lu_logabsdet lo up d hd

/-- `F.linear(F.linear(x, U), L, b)` is `x ↦ (L U) x + b` (lu.py:56-68) -/
theorem lu_forward {n : ℕ} (L U : Matrix (Fin n) (Fin n) ℝ) (b x : Fin n → ℝ) :
    L.mulVec (U.mulVec x) + b = (L * U).mulVec x + b := LU.lu_forward L U b x

theorem lu_isUnit {n : ℕ} (lo up : Fin n → Fin n → ℝ) (d : Fin n → ℝ) (hd : ∀ i, 0 < d i) :
    IsUnit (LU.mkLower lo * LU.mkUpper up d).det := LU.lu_isUnit lo up d hd

/-- `weight_inverse()` = `U⁻¹ L⁻¹` obtained by the two triangular solves is a two-sided inverse of `W = L U` -/
theorem lu_weight_inverse {m : ℕ} (lo up : Fin m → Fin m → ℝ) (d : Fin m → ℝ) (hd : ∀ i, 0 < d i)
    (Linv Uinv : Matrix (Fin m) (Fin m) ℝ) (hL : LU.mkLower lo * Linv = 1) (hU : LU.mkUpper up d * Uinv = 1) :
    (Uinv * Linv) * (LU.mkLower lo * LU.mkUpper up d) = 1 ∧ (LU.mkLower lo * LU.mkUpper up d) * (Uinv * Linv) = 1 :=
  LinearFamily.lu_weight_inverse lo up d hd Linv Uinv hL hU

theorem lu_inverse_unique {m : ℕ} (lo up : Fin m → Fin m → ℝ) (d : Fin m → ℝ) (hd : ∀ i, 0 < d i)
    (A : Matrix (Fin m) (Fin m) ℝ) (hA : (LU.mkLower lo * LU.mkUpper up d) * A = 1) :
    A = (LU.mkLower lo * LU.mkUpper up d)⁻¹ := LinearFamily.lu_inverse_unique lo up d hd A hA

/-! ## Householder sequences (matrix level; `n` any finite index type) -/
section hh
variable {n : Type} [Fintype n] [DecidableEq n]

theorem hhApply_involutive (v x : n → ℝ) (hv : v ⬝ᵥ v ≠ 0) :
    Householder.hhApply v (Householder.hhApply v x) = x := Householder.hhApply_involutive v x hv

theorem hhApply_norm (v x : n → ℝ) (hv : v ⬝ᵥ v ≠ 0) :
    Householder.hhApply v x ⬝ᵥ Householder.hhApply v x = x ⬝ᵥ x := Householder.hhApply_norm v x hv

/-- `inverse` (reversed order) undoes `forward` (orthogonal.py:91-98) -/
theorem hhSeq_inverse (vs : List (n → ℝ)) (hv : ∀ v ∈ vs, v ⬝ᵥ v ≠ 0) (x : n → ℝ) :
    Householder.hhSeq vs.reverse (Householder.hhSeq vs x) = x := Householder.hhSeq_inverse vs hv x

/-- the code's step `x - (x·v)(2/|v|²) v` is right multiplication by `H_v = 1 - (2/|v|²) v vᵀ` -/
theorem hhApply_eq_vecMul (v x : n → ℝ) : Householder.hhApply v x = x ᵥ* LinearFamily.hhMat v :=
  LinearFamily.hhApply_eq_vecMul v x

/-- **a Householder map with `v ≠ 0` is orthogonal**: `Hᵀ H = 1` -/
theorem householder_orthogonal (v : n → ℝ) (hv : v ⬝ᵥ v ≠ 0) :
    (LinearFamily.hhMat v)ᵀ * LinearFamily.hhMat v = 1 := LinearFamily.householder_orthogonal v hv

theorem householder_det_abs (v : n → ℝ) (hv : v ⬝ᵥ v ≠ 0) : |(LinearFamily.hhMat v).det| = 1 :=
  LinearFamily.hhMat_det_abs v hv

/-- `forward(x) = Q x` with `Q = H_K ⋯ H_1` (column convention) -/
theorem householderSeq_forward (vs : List (n → ℝ)) (x : n → ℝ) :
    Householder.hhSeq vs x = LinearFamily.Q vs *ᵥ x := LinearFamily.forward_eq_mulVec vs x

theorem householderSeq_inverse (vs : List (n → ℝ)) (x : n → ℝ) :
    Householder.hhSeq vs.reverse x = (LinearFamily.Q vs)ᵀ *ᵥ x := LinearFamily.inverse_eq_mulVec vs x

/-- **a Householder sequence is orthogonal**: `Qᵀ Q = Q Qᵀ = 1` whenever no q-vector is zero -/
theorem householderSeq_orthogonal (vs : List (n → ℝ)) (hv : ∀ v ∈ vs, v ⬝ᵥ v ≠ 0) :
    (LinearFamily.Q vs)ᵀ * LinearFamily.Q vs = 1 ∧ LinearFamily.Q vs * (LinearFamily.Q vs)ᵀ = 1 :=
  LinearFamily.Q_orthogonal vs hv

theorem householderSeq_det_abs (vs : List (n → ℝ)) (hv : ∀ v ∈ vs, v ⬝ᵥ v ≠ 0) : |(LinearFamily.Q vs).det| = 1 :=
  LinearFamily.Q_det_abs vs hv

/-- **`matrix()`** (= rows of `inverse(identity)`, orthogonal.py:100-120) **is the matrix of `forward`** -/
theorem matrix_eq (vs : List (n → ℝ)) :
    Matrix.of (fun i => Householder.hhSeq vs.reverse ((1 : Matrix n n ℝ) i)) = LinearFamily.Q vs :=
  LinearFamily.matrix_eq vs

/-! ## QR (qr.py): `W = Q R`, `Q = H_K ⋯ H_1`, `diag R = exp(log_upper_diag)` -/

/-- `forward = orthogonal(F.linear(x, R)) + b` is `x ↦ (Q R) x + b` (qr.py:45-63) -/
theorem qr_forward (vs : List (n → ℝ)) (R : Matrix n n ℝ) (b x : n → ℝ) :
    Householder.hhSeq vs (R *ᵥ x) + b = (LinearFamily.Q vs * R) *ᵥ x + b := LinearFamily.qr_forward vs R b x

/-- `weight() = orthogonal(R.t())[0].t()` is `Q R` (qr.py:87-96) -/
theorem qr_weight (vs : List (n → ℝ)) (R : Matrix n n ℝ) :
    (Matrix.of (fun i => Householder.hhSeq vs (Rᵀ i)))ᵀ = LinearFamily.Q vs * R := LinearFamily.qr_weight vs R

/-- `weight_inverse() = orthogonal(R⁻¹)` is the inverse of `Q R` (qr.py:98-110) -/
theorem qr_weight_inverse (vs : List (n → ℝ)) (hv : ∀ v ∈ vs, v ⬝ᵥ v ≠ 0) (R Rinv : Matrix n n ℝ) (h : Rinv * R = 1) :
    Matrix.of (fun i => Householder.hhSeq vs (Rinv i)) * (LinearFamily.Q vs * R) = 1 :=
  LinearFamily.qr_weight_inverse vs hv R Rinv h

/-- the inverse pass undoes the forward pass (qr.py:65-85) -/
theorem qr_inverse_pass (vs : List (n → ℝ)) (hv : ∀ v ∈ vs, v ⬝ᵥ v ≠ 0) (R Rinv : Matrix n n ℝ) (h : Rinv * R = 1)
    (b x : n → ℝ) : Rinv *ᵥ (Householder.hhSeq vs.reverse ((Householder.hhSeq vs (R *ᵥ x) + b) - b)) = x :=
  LinearFamily.qr_inverse_pass vs hv R Rinv h b x

/-! ## SVD (svd.py): `W = Q₁ D Q₂` -/

/-- `forward = orthogonal_1(orthogonal_2(x) * d) + b` is `x ↦ (Q₁ D Q₂) x + b` (svd.py:57-75) -/
theorem svd_forward (vs1 vs2 : List (n → ℝ)) (d b x : n → ℝ) :
    Householder.hhSeq vs1 (fun i => Householder.hhSeq vs2 x i * d i) + b
      = (LinearFamily.Q vs1 * Matrix.diagonal d * LinearFamily.Q vs2) *ᵥ x + b := LinearFamily.svd_forward vs1 vs2 d b x

/-- `weight()` (svd.py:100-110) is `Q₁ D Q₂` -/
theorem svd_weight (vs1 vs2 : List (n → ℝ)) (d : n → ℝ) :
    (Matrix.of (fun i => Householder.hhSeq vs1
        ((Matrix.of (fun k => Householder.hhSeq vs2.reverse (Matrix.diagonal d k)))ᵀ i)))ᵀ
      = LinearFamily.Q vs1 * Matrix.diagonal d * LinearFamily.Q vs2 := LinearFamily.svd_weight vs1 vs2 d

/-- `weight_inverse()` (svd.py:112-123) is the inverse of `Q₁ D Q₂` -/
theorem svd_weight_inverse (vs1 vs2 : List (n → ℝ)) (hv1 : ∀ v ∈ vs1, v ⬝ᵥ v ≠ 0) (hv2 : ∀ v ∈ vs2, v ⬝ᵥ v ≠ 0)
    (d : n → ℝ) (hd : ∀ i, d i ≠ 0) :
    (Matrix.of (fun i => Householder.hhSeq vs2.reverse
        ((Matrix.of (fun k => Householder.hhSeq vs1 (Matrix.diagonal (fun j => (d j)⁻¹) k)))ᵀ i)))ᵀ
      * (LinearFamily.Q vs1 * Matrix.diagonal d * LinearFamily.Q vs2) = 1 :=
  LinearFamily.svd_weight_inverse vs1 vs2 hv1 hv2 d hd

theorem svd_inverse_pass (vs1 vs2 : List (n → ℝ)) (hv1 : ∀ v ∈ vs1, v ⬝ᵥ v ≠ 0) (hv2 : ∀ v ∈ vs2, v ⬝ᵥ v ≠ 0)
    (d b x : n → ℝ) (hd : ∀ i, d i ≠ 0) :
    Householder.hhSeq vs2.reverse (fun i => Householder.hhSeq vs1.reverse
      ((Householder.hhSeq vs1 (fun i => Householder.hhSeq vs2 x i * d i) + b) - b) i / d i) = x :=
  LinearFamily.svd_inverse_pass vs1 vs2 hv1 hv2 d b x hd

/-- `logabsdet() = Σ log diagonal` is `log |det (Q₁ D Q₂)|` (svd.py:125-131) -/
theorem svd_logabsdet (vs1 vs2 : List (n → ℝ)) (hv1 : ∀ v ∈ vs1, v ⬝ᵥ v ≠ 0) (hv2 : ∀ v ∈ vs2, v ⬝ᵥ v ≠ 0)
    (d : n → ℝ) (hd : ∀ i, 0 < d i) :
    ∑ i, Real.log (d i) = Real.log |(LinearFamily.Q vs1 * Matrix.diagonal d * LinearFamily.Q vs2).det| :=
  LinearFamily.svd_logabsdet vs1 vs2 hv1 hv2 d hd

/-- NaiveLinear at specification level: any left inverse of `W` undoes `x ↦ W x + b` -/
theorem naive_roundtrip (W Winv : Matrix n n ℝ) (h : Winv * W = 1) (b x : n → ℝ) :
    Winv *ᵥ ((W *ᵥ x + b) - b) = x := LinearFamily.naive_roundtrip W Winv h b x

end hh

/-- `logabsdet() = Σ log_upper_diag` is `log |det (Q R)|` for the exp-parameterised diagonal (qr.py:112-121) -/
theorem qr_logabsdet {m : ℕ} (vs : List (Fin m → ℝ)) (hv : ∀ v ∈ vs, v ⬝ᵥ v ≠ 0) (up : Fin m → Fin m → ℝ) (ld : Fin m → ℝ) :
    ∑ i, ld i = Real.log |(LinearFamily.Q vs * LU.mkUpper up (fun i => Real.exp (ld i))).det| :=
  LinearFamily.qr_logabsdet vs hv up ld

theorem qr_isUnit {m : ℕ} (vs : List (Fin m → ℝ)) (hv : ∀ v ∈ vs, v ⬝ᵥ v ≠ 0) (up : Fin m → Fin m → ℝ) (ld : Fin m → ℝ) :
    IsUnit (LinearFamily.Q vs * LU.mkUpper up (fun i => Real.exp (ld i))).det := LinearFamily.qr_isUnit vs hv up ld

/-! ## executed level: index order and assembly (any scalar semantics `o : Ops α`) -/

/-- **`np.tril_indices(n, -1)` / `np.triu_indices(n, 1)` as executed**: exactly the strictly-lower (upper)
    positions, each once, in row-major order, `n (n - 1) / 2` of them (these four facts determine the lists). -/
theorem tri_indices_spec (n : ℕ) :
    (∀ i j, (i, j) ∈ trilIndices n ↔ j < i ∧ i < n) ∧ (∀ i j, (i, j) ∈ triuIndices n ↔ i < j ∧ j < n) ∧
    (trilIndices n).Pairwise (fun p q => p.1 < q.1 ∨ (p.1 = q.1 ∧ p.2 < q.2)) ∧
    (triuIndices n).Pairwise (fun p q => p.1 < q.1 ∨ (p.1 = q.1 ∧ p.2 < q.2)) ∧
    (trilIndices n).Nodup ∧ (triuIndices n).Nodup ∧
    (trilIndices n).length = n * (n - 1) / 2 ∧ (triuIndices n).length = n * (n - 1) / 2 :=
  ⟨fun _ _ => LFIndex.mem_trilIndices, fun _ _ => LFIndex.mem_triuIndices, LFIndex.trilIndices_sorted n,
   LFIndex.triuIndices_sorted n, LFIndex.trilIndices_nodup n, LFIndex.triuIndices_nodup n,
   LFIndex.trilIndices_length n, LFIndex.triuIndices_length n⟩

/-- **LU assembly as executed** (lu.py:44-54): entry `k` of `lower_entries` lands at the `k`-th strictly-lower
    position, the diagonal of `L` is one, its upper part zero; entry `k` of `upper_entries` lands at the `k`-th
    strictly-upper position, the diagonal of `U` is the given diagonal, its lower part zero. -/
theorem lu_assembly {α : Type} (o : Ops α) (n : ℕ) (lo up d : List α) :
    (∀ k (hk : k < (trilIndices n).length) (hv : k < lo.length),
        entry o (luLower o n lo) ((trilIndices n)[k]).1 ((trilIndices n)[k]).2 = lo[k]) ∧
    (∀ i, i < n → entry o (luLower o n lo) i i = one o) ∧
    (∀ i j, i < j → j < n → entry o (luLower o n lo) i j = zero o) ∧
    (∀ k (hk : k < (triuIndices n).length) (hv : k < up.length),
        entry o (mkUpper o n up d) ((triuIndices n)[k]).1 ((triuIndices n)[k]).2 = up[k]) ∧
    (∀ i, i < n → entry o (mkUpper o n up d) i i = d.getD i (zero o)) ∧
    (∀ i j, j < i → i < n → entry o (mkUpper o n up d) i j = zero o) :=
  ⟨fun k hk hv => LFIndex.luLower_entry o n lo k hk hv, fun _ hi => LFIndex.luLower_diag o n lo hi,
   fun _ _ hij hj => LFIndex.luLower_upper_zero o n lo hij hj, fun k hk hv => LFIndex.mkUpper_entry o n up d k hk hv,
   fun _ hi => LFIndex.mkUpper_diag o n up d hi, fun _ _ hji hi => LFIndex.mkUpper_lower_zero o n up d hji hi⟩

/-- the assembled factors, at `realOps`, are `LU.mkLower` / `LU.mkUpper` of the scattered entries -/
theorem lu_assembly_real (n : ℕ) (lo up d : List ℝ) :
    luLower realOps n lo = ofMat (LU.mkLower (loFn n lo)) ∧
    mkUpper realOps n up d = ofMat (LU.mkUpper (upFn n up) (vecFn n d)) :=
  ⟨luLower_executed n lo, mkUpper_executed n up d⟩

/-- **`upper_diag = softplus(u) + eps > 0`** as executed (lu.py:120-121, svd.py:40-42), for any `eps ≥ 0` -/
theorem upper_diag_pos (eps : ℝ) (heps : 0 ≤ eps) (u : List ℝ) : ∀ d ∈ posDiag realOps eps u, 0 < d :=
  LFIndex.posDiag_pos eps heps u

/-- `identity_init`: the constant `log(exp(1 - eps) - 1)` makes the diagonal exactly one (lu.py:36, svd.py:52) -/
theorem identity_init_diag (eps : ℝ) (heps0 : 0 ≤ eps) (heps : eps < 1) :
    softplus realOps (Real.log (Real.exp (1 - eps) - 1)) + eps = 1 := LFIndex.identity_init_diag eps heps0 heps

/-! ## executed level: triangular solves -/

/-- **forward / back substitution as executed** (`torch.linalg.solve_triangular`): for well-shaped inputs the result
    `xs` has the right length and satisfies row by row `Σ_{j<i} L i j xs j + xs i = b i` (unit lower triangular; the
    diagonal and the upper part of `L` are never read), resp. `Σ_{i≤j<n} U i j xs j = b i` (upper triangular with
    non-zero diagonal; the strictly-lower part of `U` is never read). -/
theorem triSolve_correct (n : ℕ) (T : List (List ℝ)) (b : List ℝ) (hT : T.length = n) (hrow : ∀ r ∈ T, r.length = n)
    (hb : b.length = n) :
    (let xs := solveLowerUnit realOps T b
     xs.length = n ∧ ∀ i < n, (∑ j ∈ Finset.range i, entry realOps T i j * xs.getD j 0) + xs.getD i 0 = b.getD i 0) ∧
    ((∀ i < n, entry realOps T i i ≠ 0) →
     let xs := solveUpper realOps T b
     xs.length = n ∧ ∀ i < n, ∑ j ∈ Finset.Ico i n, entry realOps T i j * xs.getD j 0 = b.getD i 0) :=
  ⟨LFTriSolve.solveLowerUnit_correct n T b hT hrow hb, fun hd => LFTriSolve.solveUpper_correct n T b hT hrow hb hd⟩

/-- the same on matrices: the executed solves return the solutions of `L x = b` and `U x = b` -/
theorem triSolve_matrix {n : ℕ} (lo : Fin n → Fin n → ℝ) (U : Matrix (Fin n) (Fin n) ℝ)
    (hU : ∀ i j : Fin n, j < i → U i j = 0) (hd : ∀ i, U i i ≠ 0) (b : Fin n → ℝ) :
    (∃ x : Fin n → ℝ, solveLowerUnit realOps (ofMat (LU.mkLower lo)) (List.ofFn b) = List.ofFn x ∧ LU.mkLower lo *ᵥ x = b) ∧
    (∃ x : Fin n → ℝ, solveUpper realOps (ofMat U) (List.ofFn b) = List.ofFn x ∧ U *ᵥ x = b) :=
  ⟨solveLowerUnit_ofMat lo b, solveUpper_ofMat U hU hd b⟩

/-! ## executed level: Householder -/

/-- **one reflection as executed** (orthogonal.py:83-86) is `Householder.hhApply` -/
theorem hhApply_executed {n : ℕ} (v x : Fin n → ℝ) :
    hhApply realOps (List.ofFn v) (List.ofFn x) = List.ofFn (Householder.hhApply v x) := LinearBridge.hhApply_executed v x

/-- **`_apply_transforms` as executed** (orthogonal.py:81-86) is `Householder.hhSeq` -/
theorem hhSeq_executed {n : ℕ} (vs : List (Fin n → ℝ)) (x : Fin n → ℝ) :
    hhSeq realOps (vs.map List.ofFn) (List.ofFn x) = List.ofFn (Householder.hhSeq vs x) := LinearBridge.hhSeq_executed vs x

/-- **`matrix()` as executed is `Q`, and it is orthogonal with `|det| = 1`** when no q-vector is zero -/
theorem hhMatrix_executed {n : ℕ} (vs : List (Fin n → ℝ)) (hv : ∀ v ∈ vs, v ⬝ᵥ v ≠ 0) :
    hhMatrix realOps n (vs.map List.ofFn) = ofMat (LinearFamily.Q vs) ∧
    (LinearFamily.Q vs)ᵀ * LinearFamily.Q vs = 1 ∧ |(LinearFamily.Q vs).det| = 1 :=
  ⟨LinearBridge.hhMatrix_executed vs, (LinearFamily.Q_orthogonal vs hv).1, LinearFamily.Q_det_abs vs hv⟩

/-- `forward` / `inverse` as executed on one row: `Q x` and `Qᵀ x`, and `inverse ∘ forward = id` -/
theorem hh_passes_executed {n : ℕ} (vs : List (Fin n → ℝ)) (hv : ∀ v ∈ vs, v ⬝ᵥ v ≠ 0) (x : Fin n → ℝ) :
    hhForward realOps (vs.map List.ofFn) [List.ofFn x] = [List.ofFn (LinearFamily.Q vs *ᵥ x)] ∧
    hhInverse realOps (vs.map List.ofFn) [List.ofFn x] = [List.ofFn ((LinearFamily.Q vs)ᵀ *ᵥ x)] ∧
    hhInverse realOps (vs.map List.ofFn) (hhForward realOps (vs.map List.ofFn) [List.ofFn x]) = [List.ofFn x] := by
  refine ⟨?_, ?_, ?_⟩
  · rw [hhForward_single, LinearFamily.forward_eq_mulVec]
  · rw [hhInverse_single, LinearFamily.inverse_eq_mulVec]
  · rw [hhForward_single, hhInverse_single, Householder.hhSeq_inverse vs hv]

/-! ## executed level: the constructor's initial q-vectors (orthogonal.py:26-29, 40-63) -/

/-- **every constructor-accepted size yields unit basis rows**: for ALL `features ≥ 1`, `num ≥ 1` the constructor
    succeeds, returns `num` rows, and row `r` is the unit basis vector `e_{(r / 2) mod features}` (the last row of an
    odd count is `e_{(num / 2) mod features}`): length `features`, a one at that position, zeros elsewhere. -/
theorem householder_init_rows {α : Type} (o : Ops α) (features num : ℕ) (hf : 1 ≤ features) (hn : 1 ≤ num) :
    hhConstruct o (features : ℤ) (num : ℤ) = .ok (hhInitQ o features num) ∧
    (hhInitQ o features num).length = num ∧
    ∀ r < num,
      (hhInitQ o features num).getD r [] = basisRow o features (r / 2) ∧
      (basisRow o features (r / 2)).length = features ∧
      (r / 2) % features < features ∧
      (basisRow o features (r / 2)).getD ((r / 2) % features) (zero o) = one o ∧
      ∀ j < features, j ≠ (r / 2) % features → (basisRow o features (r / 2)).getD j (zero o) = zero o := by
  refine ⟨?_, hhInitQ_length o features num, ?_⟩
  · have h1 : features ≠ 0 := by omega
    have h2 : num ≠ 0 := by omega
    simp [hhConstruct, h1, h2]
  · intro r hr
    have hlt : (r / 2) % features < features := Nat.mod_lt _ hf
    refine ⟨hhInitQ_row o features num r hr, basisRow_length o features (r / 2), hlt, ?_, ?_⟩
    · rw [basisRow_getD o features (r / 2) _ hlt]; simp
    · intro j hj hne
      rw [basisRow_getD o features (r / 2) j hj]; simp [hne]

/-- non-positive sizes are refused with `TypeError` -/
theorem householder_ctor_rejects {α : Type} (o : Ops α) (features num : ℤ) (h : features ≤ 0 ∨ num ≤ 0) :
    hhConstruct o features num = .error .typeError := by
  unfold hhConstruct
  rcases h with h | h
  · simp [h]
  · by_cases hf : features ≤ 0 <;> simp [hf, h]

/-- over the reals every initial q-vector has squared norm one — non-zero, `2 / |q|²` finite — and the fresh
    transform's `matrix()` is orthogonal with `|det| = 1`: **usable for every accepted size** -/
theorem householder_init_usable (features num : ℕ) (hf : 1 ≤ features) :
    (∀ r < num, dot realOps ((hhInitQ realOps features num).getD r []) ((hhInitQ realOps features num).getD r []) = 1) ∧
    ∃ vs : List (Fin features → ℝ), hhInitQ realOps features num = vs.map List.ofFn ∧ (∀ v ∈ vs, v ⬝ᵥ v ≠ 0) ∧
      hhMatrix realOps features (hhInitQ realOps features num) = ofMat (LinearFamily.Q vs) ∧
      (LinearFamily.Q vs)ᵀ * LinearFamily.Q vs = 1 ∧ |(LinearFamily.Q vs).det| = 1 := by
  have hv : ∀ v ∈ initVs features num hf, v ⬝ᵥ v ≠ 0 := fun v h => by rw [initVs_unit features num hf v h]; exact one_ne_zero
  refine ⟨fun r hr => ?_, initVs features num hf, hhInitQ_real features num hf, hv, ?_,
    (LinearFamily.Q_orthogonal _ hv).1, LinearFamily.Q_det_abs _ hv⟩
  · rw [hhInitQ_row realOps features num r hr]; exact basisRow_real_sqnorm features (r / 2) hf
  · rw [hhInitQ_real features num hf]; exact LinearBridge.hhMatrix_executed _

/-! ## executed level: the five accessors of LU / QR / SVD describe one affine map -/

/-- **LULinear as executed** (`udiag` of length `n`, `eps ≥ 0`, bias of length `n`): `weight()` is `W = L U`,
    `logabsdet()` is `log |det W|`, `forward` is `x ↦ W x + b`, `weight_inverse()` is a two-sided inverse of `W`,
    and `inverse ∘ forward = id`. -/
theorem lu_executed (p : LUParams ℝ) (hlen : p.udiag.length = p.n) (heps : 0 ≤ p.eps) (hb : p.bias.length = p.n) :
    luWeight realOps p = ofMat (luW p) ∧
    luLogabsdet realOps p = Real.log |(luW p).det| ∧
    (∀ x : Fin p.n → ℝ, luForward realOps p [List.ofFn x] = [List.ofFn (luW p *ᵥ x + vecFn p.n p.bias)]) ∧
    (∃ Winv : Matrix (Fin p.n) (Fin p.n) ℝ, luWeightInverse realOps p = ofMat Winv ∧ Winv * luW p = 1 ∧ luW p * Winv = 1) ∧
    (∀ x : Fin p.n → ℝ, luInverse realOps p (luForward realOps p [List.ofFn x]) = [List.ofFn x]) :=
  ⟨luWeight_executed p, luLogabsdet_executed p hlen heps, luForward_executed p hb, luWeightInverse_executed p hlen heps,
   luInverse_executed p hlen heps hb⟩

/-- **QRLinear as executed** (q-vectors `vs`, none zero; `log_upper_diag`, bias of length `n`) -/
theorem qr_executed (p : QRParams ℝ) (vs : List (Fin p.n → ℝ)) (hq : p.qs = vs.map List.ofFn) (hv : ∀ v ∈ vs, v ⬝ᵥ v ≠ 0)
    (hl : p.logDiag.length = p.n) (hb : p.bias.length = p.n) :
    qrWeight realOps p = ofMat (qrW p vs) ∧
    qrLogabsdet realOps p = Real.log |(qrW p vs).det| ∧
    (∀ x : Fin p.n → ℝ, qrForward realOps p [List.ofFn x] = [List.ofFn (qrW p vs *ᵥ x + vecFn p.n p.bias)]) ∧
    (∃ Winv : Matrix (Fin p.n) (Fin p.n) ℝ, qrWeightInverse realOps p = ofMat Winv ∧ Winv * qrW p vs = 1 ∧ qrW p vs * Winv = 1) ∧
    (∀ x : Fin p.n → ℝ, qrInverse realOps p (qrForward realOps p [List.ofFn x]) = [List.ofFn x]) :=
  ⟨qrWeight_executed p vs hq hl, qrLogabsdet_executed p vs hv hl, qrForward_executed p vs hq hl hb,
   qrWeightInverse_executed p vs hq hv hl, qrInverse_executed p vs hq hv hl hb⟩

/-- **SVDLinear as executed** (q-vectors `vs1`, `vs2`, none zero; `eps ≥ 0`) -/
theorem svd_executed (p : SVDParams ℝ) (vs1 vs2 : List (Fin p.n → ℝ)) (h1 : p.qs1 = vs1.map List.ofFn)
    (h2 : p.qs2 = vs2.map List.ofFn) (hv1 : ∀ v ∈ vs1, v ⬝ᵥ v ≠ 0) (hv2 : ∀ v ∈ vs2, v ⬝ᵥ v ≠ 0)
    (hl : p.udiag.length = p.n) (heps : 0 ≤ p.eps) (hb : p.bias.length = p.n) :
    svdWeight realOps p = ofMat (svdW p vs1 vs2) ∧
    svdLogabsdet realOps p = Real.log |(svdW p vs1 vs2).det| ∧
    (∀ x : Fin p.n → ℝ, svdForward realOps p [List.ofFn x] = [List.ofFn (svdW p vs1 vs2 *ᵥ x + vecFn p.n p.bias)]) ∧
    (∃ Winv : Matrix (Fin p.n) (Fin p.n) ℝ, svdWeightInverse realOps p = ofMat Winv ∧ Winv * svdW p vs1 vs2 = 1 ∧
      svdW p vs1 vs2 * Winv = 1) ∧
    (∀ x : Fin p.n → ℝ, svdInverse realOps p (svdForward realOps p [List.ofFn x]) = [List.ofFn x]) :=
  ⟨svdWeight_executed p vs1 vs2 h1 h2 hl, svdLogabsdet_executed p vs1 vs2 hv1 hv2 hl heps,
   svdForward_executed p vs1 vs2 h1 h2 hl hb, svdWeightInverse_executed p vs1 vs2 h1 h2 hv1 hv2 hl heps,
   svdInverse_executed p vs1 vs2 h1 h2 hv1 hv2 hl heps hb⟩

/-! ## non-vacuity: the hypotheses are satisfiable by non-trivial data -/

example : (![1, 2] : Fin 2 → ℝ) ⬝ᵥ ![1, 2] ≠ 0 := by simp [dotProduct, Fin.sum_univ_two]; norm_num
example : ∀ v ∈ ([![1, 2], ![0, 3]] : List (Fin 2 → ℝ)), v ⬝ᵥ v ≠ 0 := by
  intro v hv
  simp only [List.mem_cons, List.not_mem_nil, or_false] at hv
  rcases hv with rfl | rfl <;> (simp [dotProduct, Fin.sum_univ_two]; try norm_num)
/-- a non-trivial LU parameter set satisfying the hypotheses of `lu_executed` -/
example : ∃ p : LUParams ℝ, p.n = 2 ∧ p.udiag.length = p.n ∧ 0 ≤ p.eps ∧ p.bias.length = p.n ∧ p.lower = [3] :=
  ⟨{ n := 2, lower := [3], upper := [5], udiag := [0, 1], bias := [1, -1], eps := 1 / 1000 }, rfl, rfl, by norm_num, rfl, rfl⟩
/-- a non-trivial QR parameter set satisfying the hypotheses of `qr_executed` -/
example : ∃ (p : QRParams ℝ) (vs : List (Fin p.n → ℝ)), p.qs = vs.map List.ofFn ∧ vs.length = 2 ∧ p.logDiag.length = p.n ∧
    p.bias.length = p.n :=
  ⟨{ n := 2, upper := [5], logDiag := [0, 1], qs := [List.ofFn (![1, 2] : Fin 2 → ℝ), List.ofFn (![0, 3] : Fin 2 → ℝ)],
     bias := [1, -1] }, [![1, 2], ![0, 3]], rfl, rfl, rfl, rfl⟩
/-- sizes beyond `2 * features` and odd counts are covered by `householder_init_rows` -/
example : (1 : ℕ) ≤ 2 ∧ (1 : ℕ) ≤ 7 ∧ ((6 / 2) % 2 : ℕ) < 2 := by decide

end Properties.C11
