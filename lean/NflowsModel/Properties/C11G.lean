import NflowsModel.Properties.C11
import NflowsModel.Lemmas.NaiveGauss
/-!
# C11 (continued) — the executed Gauss–Jordan elimination of `NaiveLinear`, verified

Closes the gap declared in the `Properties/C11.lean` header ("the executable Gauss–Jordan elimination with pivoting is not verified";
`naive_roundtrip` and `Properties.C10V.naive_combined_routine_agrees` held BY SPECIFICATION of one elimination).  `Lemmas/NaiveGauss.lean`
proves, for every `n` and every real `n×n` matrix `W` with `det W ≠ 0`, about the functions the driver runs (`argmaxCol`, `gaussStep`,
`naiveWinv`, `naiveLogabsdet`, `gaussInverse`, `naiveCombinedInv` at `realOps`): the matrix read off the elimination IS `W⁻¹`, the
returned log-abs-det IS `log |det W|`, the pivot chosen at every column is non-zero (no division by zero), `|∏ pivots| = |det W|`;
`gaussInverse` returns the error exactly when `det W = 0`.  Invariant: every augmented row `[a | b]` satisfies `a = b ᵥ* W`, the left
block has unit columns `< c` on the finished rows and zeros below, `|det(left block)| · |∏ pivots| = |det W|`.
`det W ≠ 0` is forced for the VALUE statements at the reals (`x / 0 = 0`, `log 0 = 0` in Lean's total arithmetic): the singular case is
the error branch of `gaussInverse`, where the library raises / returns `-inf`.
-/
set_option linter.all false
namespace Properties.C11

theorem naive_inverse_is_inverse :
    ∀ {n : ℕ} (W : Matrix (Fin n) (Fin n) ℝ),
      W.det ≠ 0 → LinearJacobian.naiveWinv DualSound.realOps n (LinearBridge.ofMat W) = LinearBridge.ofMat W⁻¹ :=
  @NaiveGauss.naive_inverse_is_inverse

theorem naive_logabsdet_is_log_abs_det :
    ∀ {n : ℕ} (W : Matrix (Fin n) (Fin n) ℝ),
      W.det ≠ 0 → NF.LF.naiveLogabsdet DualSound.realOps n (LinearBridge.ofMat W) = Real.log |W.det| :=
  @NaiveGauss.naive_logabsdet_is_log_abs_det

theorem naive_pivot_ne_zero :
    ∀ {n : ℕ} (W : Matrix (Fin n) (Fin n) ℝ),
      W.det ≠ 0 → ∀ c < n, NaiveGauss.pivot c (NaiveGauss.run W c).2.1 ≠ 0 :=
  @NaiveGauss.naive_pivot_ne_zero

theorem naive_pivots_prod :
    ∀ {n : ℕ} (W : Matrix (Fin n) (Fin n) ℝ),
      W.det ≠ 0 → |(NF.CachePaths.naivePivots DualSound.realOps n (LinearBridge.ofMat W)).prod| = |W.det| :=
  @NaiveGauss.naive_pivots_prod

theorem gaussInverse_ok :
    ∀ {n : ℕ} (W : Matrix (Fin n) (Fin n) ℝ),
      W.det ≠ 0 →
        NF.LF.gaussInverse DualSound.realOps n (LinearBridge.ofMat W) =
          Except.ok (LinearBridge.ofMat W⁻¹, NF.CachePaths.naivePivots DualSound.realOps n (LinearBridge.ofMat W)) :=
  @NaiveGauss.gaussInverse_ok

theorem gaussInverse_singular :
    ∀ {n : ℕ} (W : Matrix (Fin n) (Fin n) ℝ),
      W.det = 0 → NF.LF.gaussInverse DualSound.realOps n (LinearBridge.ofMat W) = Except.error Err.runtime :=
  @NaiveGauss.gaussInverse_singular

theorem gaussInverse_error_iff :
    ∀ {n : ℕ} (W : Matrix (Fin n) (Fin n) ℝ),
      NF.LF.gaussInverse DualSound.realOps n (LinearBridge.ofMat W) = Except.error Err.runtime ↔ W.det = 0 :=
  @NaiveGauss.gaussInverse_error_iff

theorem naive_roundtrip_executed :
    ∀ {n : ℕ} (W : Matrix (Fin n) (Fin n) ℝ),
      W.det ≠ 0 →
        ∀ (b : List ℝ),
          b.length = n →
            ∀ (x : Fin n → ℝ),
              NF.LF.naiveInverse DualSound.realOps n (LinearBridge.ofMat W) b
                  (NF.LF.naiveForward DualSound.realOps (LinearBridge.ofMat W) b [List.ofFn x]) =
                [List.ofFn x] :=
  @NaiveGauss.naive_roundtrip_executed

theorem naive_combined_executed :
    ∀ {n : ℕ} (W : Matrix (Fin n) (Fin n) ℝ),
      W.det ≠ 0 →
        NF.CachePaths.naiveCombinedInv DualSound.realOps n (LinearBridge.ofMat W) =
          Except.ok (LinearBridge.ofMat W⁻¹, Real.log |W.det|) :=
  @NaiveGauss.naive_combined_executed

end Properties.C11
