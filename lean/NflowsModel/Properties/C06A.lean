import NflowsModel.Properties.C06
import NflowsModel.Lemmas.ARInverseStage
/-!
# C06 (continued) — "their inverse is exact after one pass per feature", stated outright and shown sharp

`Lemmas/ARInverseStage.lean`: for every autoregressive conditioner (every MADE `Made.build` accepts: `made_ar_inverse_exact_after_F_passes`)
and invertible elements, for every `XOps α`: after `F` passes of the executed inverse loop the result `r` has `forward r = y` exactly, the
first `k` features are final after pass `k`, the last pass raises nothing, and the returned log-det is minus the forward one at `r`; for
ANY `y` on which the loop did not raise, `forward (loop y) = y` (reals).  `ar_one_pass_not_enough`: with two features one pass gives a
wrong second feature (`1/21` instead of `0`) — one pass per feature is sharp.
-/
set_option linter.all false
namespace Properties.C06

theorem ar_inverse_exact_after_F_passes :
    ∀ {α : Type} (o : XOps α) (c : NF.ElCfg) (B F : ℕ)
      (net : Array α → Array α) (x : Array α),
      NF.ARWhole.AutoregNet B F (NF.ARWhole.pw c) net →
        NF.ARWhole.ArElInvertible o c F (net x) B →
          (NF.ARWhole.arForward o c B F net x).err = Option.none →
            x.size = B * F →
              have y := (NF.ARWhole.arForward o c B F net x).out;
              have r := NF.ARWhole.arInverse o c B F net y;
              r.out = x ∧
                (NF.ARWhole.arForward o c B F net r.out).out = y ∧
                  (NF.ARWhole.arForward o c B F net r.out).err = Option.none ∧
                    (∀ (k : ℕ), NF.ARWhole.AgreeBelow B F k (NF.ARWhole.arIter o c B F net y k).out x) ∧
                      (NF.arApply o c B F y (net (NF.ARWhole.arIter o c B F net y (F - 1)).out) Bool.true).err =
                          Option.none ∧
                        (0 < F →
                          ∀ b < B,
                            (NF.ARWhole.arForward o c B F net r.out).ld[b]? =
                                Option.some
                                  (List.foldl
                                    (fun (acc : α) (i : ℕ) =>
                                      o.add acc (NF.ldOf o (NF.arEl o c F r.out (net r.out) Bool.false b i)))
                                    o.zero (List.range F)) ∧
                              r.ld[b]? =
                                Option.some
                                  (List.foldl
                                    (fun (acc : α) (i : ℕ) =>
                                      o.add acc (o.neg (NF.ldOf o (NF.arEl o c F r.out (net r.out) Bool.false b i))))
                                    o.zero (List.range F))) :=
  @NF.ARInverseStage.ar_inverse_exact_after_F_passes

theorem ar_inverse_exact_after_F_passes_real :
    ∀ (e : Float → ℝ) (c : NF.ElCfg) (B F : ℕ)
      (net : Array ℝ → Array ℝ) (x : Array ℝ),
      NF.ARWhole.AutoregNet B F (NF.ARWhole.pw c) net →
        NF.ARWhole.ArElInvertible (NF.realX e) c F (net x) B →
          (NF.ARWhole.arForward (NF.realX e) c B F net x).err = Option.none →
            x.size = B * F →
              have y := (NF.ARWhole.arForward (NF.realX e) c B F net x).out;
              have r := NF.ARWhole.arInverse (NF.realX e) c B F net y;
              r.out = x ∧
                (NF.ARWhole.arForward (NF.realX e) c B F net r.out).out = y ∧
                  (NF.ARWhole.arForward (NF.realX e) c B F net r.out).err = Option.none ∧
                    (∀ (k : ℕ), NF.ARWhole.AgreeBelow B F k (NF.ARWhole.arIter (NF.realX e) c B F net y k).out x) ∧
                      (0 < F →
                        ∀ b < B,
                          r.ld[b]? =
                            Option.map (fun (l : ℝ) => -l) (NF.ARWhole.arForward (NF.realX e) c B F net r.out).ld[b]?) :=
  @NF.ARInverseStage.ar_inverse_exact_after_F_passes_real

theorem ar_inverse_exact_any_input_real :
    ∀ (e : Float → ℝ) (c : NF.ElCfg) (B F : ℕ) (net : Array ℝ → Array ℝ)
      (y : Array ℝ),
      NF.ARWhole.AutoregNet B F (NF.ARWhole.pw c) net →
        y.size = B * F →
          (NF.ARWhole.arInverse (NF.realX e) c B F net y).err = Option.none →
            NF.ARWhole.ArElInvertibleRev (NF.realX e) c F (net (NF.ARWhole.arInverse (NF.realX e) c B F net y).out) B →
              have r := NF.ARWhole.arInverse (NF.realX e) c B F net y;
              (NF.ARWhole.arForward (NF.realX e) c B F net r.out).out = y ∧
                (NF.ARWhole.arForward (NF.realX e) c B F net r.out).err = Option.none ∧
                  (0 < F →
                    ∀ b < B,
                      r.ld[b]? = Option.map (fun (l : ℝ) => -l) (NF.ARWhole.arForward (NF.realX e) c B F net r.out).ld[b]?) :=
  @NF.ARInverseStage.ar_inverse_exact_any_input_real

theorem made_ar_inverse_exact_after_F_passes :
    ∀ (e : Float → ℝ) (c : NF.ElCfg) (a : NF.Made.Arch)
      (n : NF.Made.Net),
      NF.Made.build a = Except.ok n →
        a.mult = NF.ARWhole.pw c →
          ∀ (W : ℕ → ℕ → ℕ → ℝ) (bias : ℕ → ℕ → ℝ) (B : ℕ) (ctxv : ℕ → ℕ → Fin B → ℝ)
            (g : ℕ → NF.Made.Slot → ℕ → (Fin B → ℝ) → Fin B → ℝ) (x : Array ℝ),
            x.size = B * a.F →
              NF.ARWhole.ArElInvertible (NF.realX e) c a.F (NF.ARWhole.madeNet n W bias B ctxv g x) B →
                (NF.ARWhole.arForward (NF.realX e) c B a.F (NF.ARWhole.madeNet n W bias B ctxv g) x).err = Option.none →
                  have net := NF.ARWhole.madeNet n W bias B ctxv g;
                  have y := (NF.ARWhole.arForward (NF.realX e) c B a.F net x).out;
                  have r := NF.ARWhole.arInverse (NF.realX e) c B a.F net y;
                  r.out = x ∧
                    (NF.ARWhole.arForward (NF.realX e) c B a.F net r.out).out = y ∧
                      (NF.ARWhole.arForward (NF.realX e) c B a.F net r.out).err = Option.none ∧
                        (∀ (k : ℕ), NF.ARWhole.AgreeBelow B a.F k (NF.ARWhole.arIter (NF.realX e) c B a.F net y k).out x) ∧
                          ∀ b < B,
                            r.ld[b]? =
                              Option.map (fun (l : ℝ) => -l) (NF.ARWhole.arForward (NF.realX e) c B a.F net r.out).ld[b]? :=
  @NF.ARInverseStage.made_ar_inverse_exact_after_F_passes

theorem ar_one_pass_not_enough :
    NF.ARWhole.AutoregNet 1 2 (NF.ARWhole.pw NF.ARInverseStage.cA)
        NF.ARInverseStage.sharpNet ∧
      (NF.ARWhole.arForward (NF.realX NF.ARInverseStage.e0) NF.ARInverseStage.cA 1 2 NF.ARInverseStage.sharpNet
              #[1, 0]).out =
          #[21, 1] ∧
        (NF.ARWhole.arIter (NF.realX NF.ARInverseStage.e0) NF.ARInverseStage.cA 1 2 NF.ARInverseStage.sharpNet #[21, 1]
                  1).out[0]? =
            Option.some 1 ∧
          (NF.ARWhole.arIter (NF.realX NF.ARInverseStage.e0) NF.ARInverseStage.cA 1 2 NF.ARInverseStage.sharpNet #[21, 1]
                    1).out[1]? =
              Option.some (1 / 21) ∧
            (NF.ARWhole.arIter (NF.realX NF.ARInverseStage.e0) NF.ARInverseStage.cA 1 2 NF.ARInverseStage.sharpNet #[21, 1]
                    1).out ≠
                #[1, 0] ∧
              (NF.ARWhole.arInverse (NF.realX NF.ARInverseStage.e0) NF.ARInverseStage.cA 1 2 NF.ARInverseStage.sharpNet
                    #[21, 1]).out =
                #[1, 0] :=
  @NF.ARInverseStage.ar_one_pass_not_enough

end Properties.C06
