import NflowsModel.Properties.C17
import NflowsModel.Lemmas.LogdetExec
import NflowsModel.Lemmas.NonlinExec
import NflowsModel.Lemmas.NonlinExecLT
/-!
# C17 (continued) — exact domains of the executed element-wise transformers, permutations and squeeze

`… = .error .outsideDomain ↔ …` for the executed inverses (Exp: `y ≤ 0`; Tanh: `|y| ≥ 1`; Sigmoid and Cauchy accept the CLOSED
`[0,1]`), `LogTanh` total in both directions, a whole element-wise layer reports an error iff some element does.
-/
set_option linter.all false
namespace Properties.C17

theorem exp_inverse_rejects_iff_executed :
    ∀ (e : Float → ℝ) (y : ℝ),
      NF.expT (NF.realX e) Bool.true y = Except.error Err.outsideDomain ↔ y ≤ 0 :=
  @NonlinExec.expT_inv_error_iff

theorem tanh_inverse_rejects_iff_executed :
    ∀ (e : Float → ℝ) (y : ℝ),
      NF.tanhT (NF.realX e) Bool.true y = Except.error Err.outsideDomain ↔ y ≤ -1 ∨ 1 ≤ y :=
  @NonlinExec.tanhT_inv_error_iff

theorem sigmoid_inverse_rejects_iff_executed :
    ∀ (e : Float → ℝ) (T : ℝ) (eps : Float) (y : ℝ),
      NF.sigmoidT (NF.realX e) T eps Bool.true y = Except.error Err.outsideDomain ↔ y < 0 ∨ 1 < y :=
  @NonlinExec.sigmoidT_inv_error_iff

theorem cauchy_inverse_rejects_iff_executed :
    ∀ (e : Float → ℝ) (x : ℝ),
      NF.cauchyT (NF.realX e) Bool.true x = Except.error Err.outsideDomain ↔ x < 0 ∨ 1 < x :=
  @NonlinExec.cauchyT_inv_error_iff

theorem logTanh_total :
    ∀ (e : Float → ℝ) (cut invCut alpha beta : Float) (inverse : Bool) (x : ℝ),
      ∃ (p : ℝ × ℝ), NF.logTanhT (NF.realX e) cut invCut alpha beta inverse x = Except.ok p :=
  @NonlinExec.logTanhT_total

theorem nonlin_layer_err_none_iff :
    ∀ (e : Float → ℝ) (kind : String) (ds : Array Float) (ps : List ℝ) (B : ℕ)
      (x : Array ℝ) (inv : Bool),
      (NF.nonlinApply (NF.realX e) kind ds ps B x inv).err = Option.none ↔
        ∀ xi ∈ x.toList, ∃ (r : ℝ × ℝ), NF.nonlinEl (NF.realX e) kind ds ps inv xi = Except.ok r :=
  @NonlinExec.nonlinApply_err_none_iff

theorem permutation_rejects_iff :
    ∀ {α : Type} (shape : List ℕ) (dim : ℕ) (perm : List ℕ) (x : Array α) (d : α)
      (e : Err),
      NF.permuteDim shape dim perm x d = Except.error e ↔
        e = Err.valueError ∧ (shape.length ≤ dim ∨ shape.getD dim 0 ≠ perm.length) :=
  @LogdetExec.permuteDim_error_iff

theorem squeeze_rejects_iff :
    ∀ {α : Type} (f B C H W : ℕ) (x : Array α) (d : α) (e : Err),
      NF.squeezeFwd f B C H W x d = Except.error e ↔ e = Err.valueError ∧ ¬(f ∣ H ∧ f ∣ W) :=
  @LogdetExec.squeezeFwd_error_iff

theorem squeeze_inverse_rejects_iff :
    ∀ {α : Type} (f B C H W : ℕ) (y : Array α) (d : α) (e : Err),
      NF.squeezeInv f B C H W y d = Except.error e ↔ e = Err.valueError ∧ (C < f * f ∨ ¬f * f ∣ C) :=
  @LogdetExec.squeezeInv_error_iff

end Properties.C17
