import NflowsModel.Properties.C02
import NflowsModel.Lemmas.LogdetExec
import NflowsModel.Lemmas.NonlinExec
import NflowsModel.Lemmas.NonlinExecLT
/-!
# C02 (continued) — executed round trips of the element-wise transformers, 1×1 convolution, normalisation layers, permutations

`NonlinExec.RoundTrip fwd inv x`: `fwd x = .ok (y, ld)` and the executed inverse RUN ON THAT OUTPUT returns `.ok (x, -ld)`.
Declared approximations are theorems: Sigmoid / Logit round-trip exactly iff `eps ≤ σ(Tx) ≤ 1 − eps` (outside, the inverse returns
the logit of the clamp bound); Tanh's inverse log-det is the negated forward one only for `x ≥ −10` (thresholded softplus, gap
`≤ 2e^{2x}`).
-/
set_option linter.all false
namespace Properties.C02

theorem exp_executed_roundtrip :
    ∀ (e : Float → ℝ) (x : ℝ),
      NonlinExec.RoundTrip (NF.expT (NF.realX e) Bool.false) (NF.expT (NF.realX e) Bool.true) x :=
  @NonlinExec.expT_roundtrip

theorem exp_executed_roundtrip' :
    ∀ (e : Float → ℝ) {y : ℝ},
      0 < y → NonlinExec.RoundTrip (NF.expT (NF.realX e) Bool.true) (NF.expT (NF.realX e) Bool.false) y :=
  @NonlinExec.expT_roundtrip'

theorem affine_executed_roundtrip :
    ∀ (e : Float → ℝ) (scale shift x : ℝ),
      scale ≠ 0 →
        NonlinExec.RoundTrip (NF.affineT (NF.realX e) scale shift Bool.false)
          (NF.affineT (NF.realX e) scale shift Bool.true) x :=
  @NonlinExec.affineT_roundtrip

theorem glu_executed_roundtrip :
    ∀ (e : Float → ℝ) (ctx x : ℝ),
      NonlinExec.RoundTrip (NF.gluT (NF.realX e) ctx Bool.false) (NF.gluT (NF.realX e) ctx Bool.true) x :=
  @NonlinExec.gluT_roundtrip

theorem leakyRelu_executed_roundtrip :
    ∀ {e : Float → ℝ} {slope : Float} {ls : ℝ},
      NonlinExec.LeakyConsts e slope ls →
        ∀ (x : ℝ),
          NonlinExec.RoundTrip (NF.leakyReluT (NF.realX e) slope ls Bool.false)
            (NF.leakyReluT (NF.realX e) slope ls Bool.true) x :=
  @NonlinExec.leakyReluT_roundtrip

theorem leakyRelu_executed_roundtrip' :
    ∀ {e : Float → ℝ} {slope : Float} {ls : ℝ},
      NonlinExec.LeakyConsts e slope ls →
        ∀ (y : ℝ),
          NonlinExec.RoundTrip (NF.leakyReluT (NF.realX e) slope ls Bool.true)
            (NF.leakyReluT (NF.realX e) slope ls Bool.false) y :=
  @NonlinExec.leakyReluT_roundtrip'

theorem tanh_executed_roundtrip :
    ∀ (e : Float → ℝ),
      NonlinExec.TanhConsts e →
        ∀ {x : ℝ}, -10 ≤ x → NonlinExec.RoundTrip (NF.tanhT (NF.realX e) Bool.false) (NF.tanhT (NF.realX e) Bool.true) x :=
  @NonlinExec.tanhT_roundtrip

theorem tanh_roundtrip_threshold_counterexample :
    ∀ (e : Float → ℝ),
      NonlinExec.TanhConsts e →
        ∀ {x : ℝ},
          x < -10 →
            (∃ (ld : ℝ) (ld' : ℝ),
                NF.tanhT (NF.realX e) Bool.false x = Except.ok (Real.tanh x, ld) ∧
                  NF.tanhT (NF.realX e) Bool.true (Real.tanh x) = Except.ok (x, ld') ∧ ld' ≠ -ld) ∧
              ¬NonlinExec.RoundTrip (NF.tanhT (NF.realX e) Bool.false) (NF.tanhT (NF.realX e) Bool.true) x :=
  @NonlinExec.tanhT_roundtrip_logdet_false_below_threshold

theorem sigmoid_executed_roundtrip_iff :
    ∀ {e : Float → ℝ} {T : ℝ} {eps : Float},
      NonlinExec.SigmoidClamp e eps →
        ∀ {x : ℝ},
          T ≠ 0 →
            (NonlinExec.RoundTrip (NF.sigmoidT (NF.realX e) T eps Bool.false) (NF.sigmoidT (NF.realX e) T eps Bool.true) x ↔
              e eps ≤ NonlinExec.gate (T * x) ∧ NonlinExec.gate (T * x) ≤ e (1 - eps)) :=
  @NonlinExec.sigmoidT_roundtrip_iff

theorem logit_executed_roundtrip :
    ∀ {e : Float → ℝ} {T : ℝ} {eps : Float},
      NonlinExec.SigmoidClamp e eps →
        ∀ {y : ℝ},
          T ≠ 0 →
            e eps ≤ y →
              y ≤ e (1 - eps) →
                NonlinExec.RoundTrip (NF.sigmoidT (NF.realX e) T eps Bool.true) (NF.sigmoidT (NF.realX e) T eps Bool.false)
                  y :=
  @NonlinExec.sigmoidT_roundtrip'

theorem sigmoid_inverse_clamped_low :
    ∀ {e : Float → ℝ} {T : ℝ} {eps : Float},
      NonlinExec.SigmoidClamp e eps →
        ∀ {y : ℝ},
          0 ≤ y →
            y ≤ e eps →
              NF.sigmoidT (NF.realX e) T eps Bool.true y =
                Except.ok (1 / T * NonlinExec.logit (e eps), -NonlinExec.sigLd T (T * (1 / T * NonlinExec.logit (e eps)))) :=
  @NonlinExec.sigmoidT_inv_clamped_lo

theorem cauchy_executed_roundtrip :
    ∀ {e : Float → ℝ},
      NonlinExec.CauchyConsts e →
        ∀ (x y ld : ℝ),
          NF.cauchyT (NF.realX e) Bool.false x = Except.ok (y, ld) →
            NF.cauchyT (NF.realX e) Bool.true y = Except.ok (x, -ld) :=
  @NonlinExec.cauchyT_inv_fwd

theorem cauchy_executed_roundtrip' :
    ∀ {e : Float → ℝ},
      NonlinExec.CauchyConsts e →
        ∀ (y x ld : ℝ),
          0 < y →
            y < 1 →
              NF.cauchyT (NF.realX e) Bool.true y = Except.ok (x, ld) →
                NF.cauchyT (NF.realX e) Bool.false x = Except.ok (y, -ld) :=
  @NonlinExec.cauchyT_fwd_inv

theorem logTanh_executed_roundtrip :
    ∀ {e : Float → ℝ} {cut invCut alpha beta : Float} {c a b : ℝ},
      NonlinExec.LogTanhConsts e cut invCut alpha beta c a b →
        ∀ (x y ld : ℝ),
          NF.logTanhT (NF.realX e) cut invCut alpha beta Bool.false x = Except.ok (y, ld) →
            NF.logTanhT (NF.realX e) cut invCut alpha beta Bool.true y = Except.ok (x, -ld) :=
  @NonlinExec.logTanhT_inv_fwd

theorem logTanh_executed_roundtrip' :
    ∀ {e : Float → ℝ} {cut invCut alpha beta : Float} {c a b : ℝ},
      NonlinExec.LogTanhConsts e cut invCut alpha beta c a b →
        ∀ (y x ld : ℝ),
          NF.logTanhT (NF.realX e) cut invCut alpha beta Bool.true y = Except.ok (x, ld) →
            NF.logTanhT (NF.realX e) cut invCut alpha beta Bool.false x = Except.ok (y, -ld) :=
  @NonlinExec.logTanhT_fwd_inv

theorem conv1x1_executed_roundtrip :
    ∀ (p : NF.LF.LUParams ℝ),
      p.udiag.length = p.n →
        0 ≤ p.eps →
          p.bias.length = p.n →
            ∀ (σ : Equiv.Perm (Fin p.n)) (B H W : ℕ) (xs : List ℝ),
              xs.length = B * p.n * H * W →
                (NF.LF.convInverse DualSound.realOps p (LogdetExec.permList σ) B H W
                      (NF.LF.convForward DualSound.realOps p (LogdetExec.permList σ) B H W xs).1).1 =
                  xs :=
  @LogdetExec.conv_roundtrip

theorem conv1x1_inverse_logdet_negated :
    ∀ (p : NF.LF.LUParams ℝ) (perm perm' : List ℕ) (B H W : ℕ) (xs ys : List ℝ),
      ∀ b < B,
        ∃ (v : ℝ),
          (NF.LF.convForward DualSound.realOps p perm B H W xs).2[b]? = Option.some v ∧
            (NF.LF.convInverse DualSound.realOps p perm' B H W ys).2[b]? = Option.some (-v) :=
  @LogdetExec.conv_logdet_inverse_neg

theorem actnorm_executed_roundtrip :
    ∀ (e : Float → ℝ) (F : ℕ) (ls sh : List ℝ) (b : NF.Norm.Batch ℝ),
      LogdetExec.WellShaped F b → NF.Norm.actUnapply (NF.realX e) F ls sh (NF.Norm.actApply (NF.realX e) F ls sh b) = b :=
  @LogdetExec.actUnapply_actApply

theorem actnorm_executed_roundtrip' :
    ∀ (e : Float → ℝ) (F : ℕ) (ls sh : List ℝ) (b : NF.Norm.Batch ℝ),
      LogdetExec.WellShaped F b → NF.Norm.actApply (NF.realX e) F ls sh (NF.Norm.actUnapply (NF.realX e) F ls sh b) = b :=
  @LogdetExec.actApply_actUnapply

theorem batchnorm_eval_executed_roundtrip :
    ∀ (e : Float → ℝ) (cfg : NF.Norm.BNCfg ℝ) (F : ℕ) (mean var uw bias : List ℝ),
      (∀ j < F, NF.Norm.bnWeight (NF.realX e) cfg uw j ≠ 0) →
        (∀ j < F, 0 < var.getD j 0 + cfg.eps) →
          ∀ (rows : List (List ℝ)),
            (∀ r ∈ rows, r.length = F) →
              NF.Norm.bnDenormalise (NF.realX e) cfg F mean var uw bias
                  (NF.Norm.bnNormalise (NF.realX e) cfg F mean var uw bias rows) =
                rows :=
  @LogdetExec.bnDenormalise_bnNormalise

theorem permutation_executed_roundtrip :
    ∀ {α : Type} (B n : ℕ) (pre suf perm : List ℕ),
      LogdetExec.IsPerm n perm →
        ∀ (x : Array α) (d : α),
          x.size = B * (LogdetExec.fprod pre * n * LogdetExec.fprod suf) →
            ∃ (y : Array α),
              NF.permuteDim (B :: (pre ++ n :: suf)) (pre.length + 1) perm x d = Except.ok y ∧
                NF.permuteDim (B :: (pre ++ n :: suf)) (pre.length + 1) (NF.inversePerm perm) y d = Except.ok x :=
  @LogdetExec.permuteDim_roundtrip

theorem squeeze_executed_roundtrip :
    ∀ {α : Type} (f B C Ho Wo : ℕ),
      0 < f →
        0 < C →
          ∀ (x : Array α) (d : α),
            x.size = B * C * (Ho * f) * (Wo * f) →
              ∃ (y : Array α),
                NF.squeezeFwd f B C (Ho * f) (Wo * f) x d = Except.ok y ∧
                  y.size = B * (C * f * f) * Ho * Wo ∧ NF.squeezeInv f B (C * f * f) Ho Wo y d = Except.ok x :=
  @LogdetExec.squeeze_roundtrip

end Properties.C02
