import NflowsModel.Core.Thin
import NflowsModel.Core.XOps
/-!
# C19 — single precision agrees with double precision and stays finite  (PARTIAL: weakest claim)

What a theorem carries here is only the **dtype clause**: torch's promotion lattice restricted to what the
library uses, and "if every dimensioned leaf of an op DAG has float dtype `d` and every other leaf is weak
(0-dim tensor / Python scalar) the result has dtype `d`".  A fresh float32 constant meeting float64 data is
exactly how the clause is violated (the repaired `LeakyReLU` mask and `linspace` were instances).

The numeric clause ("float32 agrees with float64 to single-precision accuracy scaled by conditioning, finite")
is NOT a theorem: Lean's `Float32` is opaque to the kernel, and no verified rounding analysis of torch's kernels is
attempted.  It is carried by executing the model in `Float32` and `Float` against the implementation in both
precisions (correspondence), and what both precisions approximate is fixed by the real-arithmetic theorems of
C01/C02/C09.
-/
namespace Properties.C19
open Thin.Dtype

theorem promote_comm (a b : DT) : promote a b = promote b a := Thin.Dtype.promote_comm a b
theorem promote_assoc (a b c : DT) : promote (promote a b) c = promote a (promote b c) := Thin.Dtype.promote_assoc a b c
theorem promote_idem (a : DT) : promote a a = a := Thin.Dtype.promote_idem a

/-- **dtype clause**: results carry the dtype of the (dimensioned, floating) inputs whatever weak leaves take part -/
theorem result_dtype_eq_input (d : DT) (hd : isFloat d = true) (ls : List Leaf)
    (hs : ∀ l ∈ ls, ∀ e, l = .strong e → e = d) (hex : ∃ l ∈ ls, l = .strong d) : result ls = d :=
  Thin.Dtype.result_dtype_eq_input d hd ls hs hex

/-- how the clause breaks: one fresh dimensioned float32 constant among float64 data promotes to float64 (fine),
    but a result built only from fresh float32 constants stays float32 although the inputs were float64 -/
theorem fresh_constant_counterexample :
    result [.strong .f32, .weak .f32] = .f32 ∧ result [.strong .f64, .strong .f32] = .f64 := by decide

/-- the executable `Float32` semantics rounds Python-side double constants on entry (`ofFloat`), as torch does when a
    Python scalar meets a float32 tensor -/
theorem float32_constant_entry (x : Float) : float32X.ofFloat x = x.toFloat32 := rfl

example : isFloat DT.f32 = true ∧ (∃ l ∈ [Leaf.strong DT.f32, Leaf.weak DT.f64], l = Leaf.strong DT.f32) := by
  refine ⟨rfl, _, ?_, rfl⟩; simp

end Properties.C19
