import NflowsModel.Properties.C01
import NflowsModel.Lemmas.LayerDerivMore
import NflowsModel.Lemmas.LinearJacobian
/-!
# C01 (continued) — the linear family as Jacobians; quadratic / cubic / linear spline elements inside layers

Narrows two exclusions of the `Properties/C01.lean` header.
(1) `Lemmas/LinearJacobian.lean`: for the EXECUTED LU / QR / SVD / Householder passes at the reals, under the hypotheses of
`Properties.C11.{lu,qr,svd}_executed` (plus the forced `bias.length = n`): the pass is row-wise, its row map is `x ↦ W x + b`
(inverse: `y ↦ W⁻¹ (y − b)`) with `W` the matrix C11 names, that map has the non-singular Fréchet derivative `jac W` at every point,
and every entry of the returned log-abs-det vector is `log |det|` of that derivative (`PassIs`, read through `linear_pass_entry`).
NaiveLinear: value and derivative only (its Gauss–Jordan log-det is still covered by the correspondence only).
(2) `Lemmas/LayerDerivMore.lean`: the per-element derivative law is discharged for the executed piecewise-quadratic, -cubic and
-linear spline elements (bounded, and with linear tails), and the coupling / autoregressive layer theorems are instantiated for
them: the returned log-abs-det of row `b` is `log |det L|` for the Fréchet derivative `L` of the executed row map (`hL` stays a
hypothesis, as for RQ).  Restrictions kept explicit: strictly inside a bin for quadratic and linear (knots excluded), off `±B`
with tails; inverse pass only for the bounded linear spline.
-/
set_option linter.all false
namespace Properties.C01

theorem lu_logdet_is_log_abs_det_fderiv :
    ∀ (p : NF.LF.LUParams ℝ),
      p.udiag.length = p.n →
        0 ≤ p.eps →
          p.bias.length = p.n →
            LinearJacobian.PassIs p.n (LinearFresh.luForwardLd DualSound.realOps p) (LogdetExec.luRow DualSound.realOps p)
              (LinearJacobian.affine (LinearBridge.luW p) (LinearBridge.vecFn p.n p.bias)) (LinearBridge.luW p) :=
  @LinearJacobian.lu_logdet_is_log_abs_det_fderiv

theorem lu_logdet_is_log_abs_det_fderiv_inverse :
    ∀ (p : NF.LF.LUParams ℝ),
      p.udiag.length = p.n →
        0 ≤ p.eps →
          p.bias.length = p.n →
            LinearJacobian.PassIs p.n (LinearFresh.luInverseLd DualSound.realOps p)
                (LogdetExec.luInvRow DualSound.realOps p)
                (LinearJacobian.invAffine (LinearBridge.luW p) (LinearBridge.vecFn p.n p.bias)) (LinearBridge.luW p)⁻¹ ∧
              Real.log |(LinearJacobian.jac (LinearBridge.luW p)⁻¹).det| =
                -Real.log |(LinearJacobian.jac (LinearBridge.luW p)).det| :=
  @LinearJacobian.lu_logdet_is_log_abs_det_fderiv_inverse

theorem qr_logdet_is_log_abs_det_fderiv :
    ∀ (p : NF.LF.QRParams ℝ) (vs : List (Fin p.n → ℝ)),
      p.qs = List.map List.ofFn vs →
        (∀ v ∈ vs, v ⬝ᵥ v ≠ 0) →
          p.logDiag.length = p.n →
            p.bias.length = p.n →
              LinearJacobian.PassIs p.n (LinearFresh.qrForwardLd DualSound.realOps p)
                (LinearJacobian.qrRow DualSound.realOps p)
                (LinearJacobian.affine (LinearBridge.qrW p vs) (LinearBridge.vecFn p.n p.bias)) (LinearBridge.qrW p vs) :=
  @LinearJacobian.qr_logdet_is_log_abs_det_fderiv

theorem qr_logdet_is_log_abs_det_fderiv_inverse :
    ∀ (p : NF.LF.QRParams ℝ) (vs : List (Fin p.n → ℝ)),
      p.qs = List.map List.ofFn vs →
        (∀ v ∈ vs, v ⬝ᵥ v ≠ 0) →
          p.logDiag.length = p.n →
            p.bias.length = p.n →
              LinearJacobian.PassIs p.n (LinearFresh.qrInverseLd DualSound.realOps p)
                  (LinearJacobian.qrInvRow DualSound.realOps p)
                  (LinearJacobian.invAffine (LinearBridge.qrW p vs) (LinearBridge.vecFn p.n p.bias))
                  (LinearBridge.qrW p vs)⁻¹ ∧
                Real.log |(LinearJacobian.jac (LinearBridge.qrW p vs)⁻¹).det| =
                  -Real.log |(LinearJacobian.jac (LinearBridge.qrW p vs)).det| :=
  @LinearJacobian.qr_logdet_is_log_abs_det_fderiv_inverse

theorem svd_logdet_is_log_abs_det_fderiv :
    ∀ (p : NF.LF.SVDParams ℝ) (vs1 vs2 : List (Fin p.n → ℝ)),
      p.qs1 = List.map List.ofFn vs1 →
        p.qs2 = List.map List.ofFn vs2 →
          (∀ v ∈ vs1, v ⬝ᵥ v ≠ 0) →
            (∀ v ∈ vs2, v ⬝ᵥ v ≠ 0) →
              p.udiag.length = p.n →
                0 ≤ p.eps →
                  p.bias.length = p.n →
                    LinearJacobian.PassIs p.n (LinearFresh.svdForwardLd DualSound.realOps p)
                      (LinearJacobian.svdRow DualSound.realOps p)
                      (LinearJacobian.affine (LinearBridge.svdW p vs1 vs2) (LinearBridge.vecFn p.n p.bias))
                      (LinearBridge.svdW p vs1 vs2) :=
  @LinearJacobian.svd_logdet_is_log_abs_det_fderiv

theorem svd_logdet_is_log_abs_det_fderiv_inverse :
    ∀ (p : NF.LF.SVDParams ℝ) (vs1 vs2 : List (Fin p.n → ℝ)),
      p.qs1 = List.map List.ofFn vs1 →
        p.qs2 = List.map List.ofFn vs2 →
          (∀ v ∈ vs1, v ⬝ᵥ v ≠ 0) →
            (∀ v ∈ vs2, v ⬝ᵥ v ≠ 0) →
              p.udiag.length = p.n →
                0 ≤ p.eps →
                  p.bias.length = p.n →
                    LinearJacobian.PassIs p.n (LinearFresh.svdInverseLd DualSound.realOps p)
                        (LinearJacobian.svdInvRow DualSound.realOps p)
                        (LinearJacobian.invAffine (LinearBridge.svdW p vs1 vs2) (LinearBridge.vecFn p.n p.bias))
                        (LinearBridge.svdW p vs1 vs2)⁻¹ ∧
                      Real.log |(LinearJacobian.jac (LinearBridge.svdW p vs1 vs2)⁻¹).det| =
                        -Real.log |(LinearJacobian.jac (LinearBridge.svdW p vs1 vs2)).det| :=
  @LinearJacobian.svd_logdet_is_log_abs_det_fderiv_inverse

theorem hh_logdet_is_log_abs_det_fderiv :
    ∀ {n : ℕ} (vs : List (Fin n → ℝ)),
      (∀ v ∈ vs, v ⬝ᵥ v ≠ 0) →
        LinearJacobian.PassIs n (LinearFresh.hhForwardLd DualSound.realOps (List.map List.ofFn vs))
          (NF.LF.hhSeq DualSound.realOps (List.map List.ofFn vs)) (LinearJacobian.affine (LinearFamily.Q vs) 0)
          (LinearFamily.Q vs) :=
  @LinearJacobian.hh_logdet_is_log_abs_det_fderiv

theorem hh_logdet_is_log_abs_det_fderiv_inverse :
    ∀ {n : ℕ} (vs : List (Fin n → ℝ)),
      (∀ v ∈ vs, v ⬝ᵥ v ≠ 0) →
        LinearJacobian.PassIs n (LinearFresh.hhInverseLd DualSound.realOps (List.map List.ofFn vs))
            (NF.LF.hhSeq DualSound.realOps (List.map List.ofFn vs).reverse)
            (LinearJacobian.affine (LinearFamily.Q vs).transpose 0) (LinearFamily.Q vs).transpose ∧
          (LinearFamily.Q vs).transpose = (LinearFamily.Q vs)⁻¹ ∧
            LinearJacobian.affine (LinearFamily.Q vs).transpose 0 = LinearJacobian.invAffine (LinearFamily.Q vs) 0 :=
  @LinearJacobian.hh_logdet_is_log_abs_det_fderiv_inverse

theorem naive_forward_is_affine_fderiv :
    ∀ {n : ℕ} (W : Matrix (Fin n) (Fin n) ℝ) (b : List ℝ),
      b.length = n →
        (∀ (X : List (List ℝ)),
            NF.LF.naiveForward DualSound.realOps (LinearBridge.ofMat W) b X =
              List.map (LinearJacobian.naiveRow DualSound.realOps (LinearBridge.ofMat W) b) X) ∧
          (∀ (v : Fin n → ℝ),
              LinearJacobian.naiveRow DualSound.realOps (LinearBridge.ofMat W) b (List.ofFn v) =
                List.ofFn (LinearJacobian.affine W (LinearBridge.vecFn n b) v)) ∧
            (∀ (x0 : Fin n → ℝ), HasFDerivAt (LinearJacobian.affine W (LinearBridge.vecFn n b)) (LinearJacobian.jac W) x0) ∧
              (LinearJacobian.jac W).det = W.det ∧
                ∀ (X : List (List ℝ)) (i : ℕ) (hi : i < X.length),
                  X[i].length = n →
                    (NF.LF.naiveForward DualSound.realOps (LinearBridge.ofMat W) b X)[i]? =
                      Option.some (List.ofFn (LinearJacobian.affine W (LinearBridge.vecFn n b) (LinearBridge.vecFn n X[i]))) :=
  @LinearJacobian.naive_forward_is_affine_fderiv

theorem linear_pass_entry :
    ∀ {n : ℕ} {F : List (List ℝ) → List (List ℝ) × List ℝ} {g : List ℝ → List ℝ}
      {φ : (Fin n → ℝ) → Fin n → ℝ} {M : Matrix (Fin n) (Fin n) ℝ},
      LinearJacobian.PassIs n F g φ M →
        ∀ (X : List (List ℝ)) (i : ℕ) (hi : i < X.length),
          X[i].length = n →
            (F X).1[i]? = Option.some (List.ofFn (φ (LinearBridge.vecFn n X[i]))) ∧
              (F X).2[i]? = Option.some (Real.log |(fderiv ℝ φ (LinearBridge.vecFn n X[i])).det|) ∧
                (F X).2[i]? = Option.some (Real.log |M.det|) :=
  @LinearJacobian.PassIs.entry

theorem coupling_quadratic_logdet_is_jacobian :
    ∀ (e : Float → ℝ) (c : NF.ElCfg) (mask : List ℝ) (B : ℕ)
      (net : Array ℝ → Array ℝ) (x : Array ℝ),
      c.kind = "quad" →
        c.tails = Bool.false →
          e (NF.boxLog (NF.StructureExec.quadCfgOf c).box) =
              Real.log
                ((e (NF.StructureExec.quadCfgOf c).box.top - e (NF.StructureExec.quadCfgOf c).box.bottom) /
                  (e (NF.StructureExec.quadCfgOf c).box.right - e (NF.StructureExec.quadCfgOf c).box.left)) →
            x.size = B * mask.length →
              ∀ {b : ℕ},
                b < B →
                  NF.StructureExec.QuadParamsValid e c (NF.CouplingJacobian.nT e mask) 1
                      (NF.LayerDerivMore.cParams e mask B net x) B →
                    (∀ (i : Fin mask.length),
                        NF.StructureExec.isT (NF.realX e) mask i = Bool.true →
                          ∃
                            k <
                              (NF.StructureExec.quadW (NF.realX e) c
                                  (NF.LayerDerivMore.chanSlice e c mask (NF.LayerDerivMore.cParams e mask B net x) b
                                    i)).length,
                            QuadWhole.xk e (NF.StructureExec.quadCfgOf c)
                                  (NF.StructureExec.quadW (NF.realX e) c
                                    (NF.LayerDerivMore.chanSlice e c mask (NF.LayerDerivMore.cParams e mask B net x) b i))
                                  k <
                                NF.StructureExec.rowOf (NF.realX e) mask.length b x i ∧
                              NF.StructureExec.rowOf (NF.realX e) mask.length b x i <
                                QuadWhole.xk e (NF.StructureExec.quadCfgOf c)
                                  (NF.StructureExec.quadW (NF.realX e) c
                                    (NF.LayerDerivMore.chanSlice e c mask (NF.LayerDerivMore.cParams e mask B net x) b i))
                                  (k + 1)) →
                      ∀ {L : (Fin mask.length → ℝ) →L[ℝ] Fin mask.length → ℝ},
                        HasFDerivAt (NF.CouplingJacobian.couplingRowMap e c mask B net Bool.false x b) L
                            (NF.StructureExec.rowOf (NF.realX e) mask.length b x) →
                          (NF.CouplingJacobian.couplingRun (NF.realX e) c mask B net Bool.false x).ld[b]? =
                            Option.some
                              (Real.log
                                |(LinearMap.det : ((Fin mask.length → ℝ) →ₗ[ℝ] Fin mask.length → ℝ) → ℝ)
                                    (↑L : (Fin mask.length → ℝ) →ₗ[ℝ] Fin mask.length → ℝ)|) :=
  @NF.LayerDerivMore.coupling_quadratic_logdet_is_jacobian

theorem coupling_cubic_logdet_is_jacobian :
    ∀ (e : Float → ℝ) (c : NF.ElCfg) (mask : List ℝ) (B : ℕ)
      (net : Array ℝ → Array ℝ) (x : Array ℝ),
      c.kind = "cubic" →
        c.tails = Bool.false →
          0 < c.K →
            CubicWhole.CubicValid e (CubicLayers.cubicCfgOf c) (List.replicate c.K 0) (List.replicate c.K 0) →
              e (NF.boxLog (CubicLayers.cubicCfgOf c).box) =
                  Real.log
                    ((e (CubicLayers.cubicCfgOf c).box.top - e (CubicLayers.cubicCfgOf c).box.bottom) /
                      (e (CubicLayers.cubicCfgOf c).box.right - e (CubicLayers.cubicCfgOf c).box.left)) →
                x.size = B * mask.length →
                  ∀ {b : ℕ},
                    b < B →
                      (∀ (i : Fin mask.length),
                          NF.StructureExec.isT (NF.realX e) mask i = Bool.true →
                            e (CubicLayers.cubicCfgOf c).box.left < NF.StructureExec.rowOf (NF.realX e) mask.length b x i ∧
                              NF.StructureExec.rowOf (NF.realX e) mask.length b x i <
                                e (CubicLayers.cubicCfgOf c).box.right) →
                        ∀ {L : (Fin mask.length → ℝ) →L[ℝ] Fin mask.length → ℝ},
                          HasFDerivAt (NF.CouplingJacobian.couplingRowMap e c mask B net Bool.false x b) L
                              (NF.StructureExec.rowOf (NF.realX e) mask.length b x) →
                            (NF.CouplingJacobian.couplingRun (NF.realX e) c mask B net Bool.false x).ld[b]? =
                              Option.some
                                (Real.log
                                  |(LinearMap.det : ((Fin mask.length → ℝ) →ₗ[ℝ] Fin mask.length → ℝ) → ℝ)
                                      (↑L : (Fin mask.length → ℝ) →ₗ[ℝ] Fin mask.length → ℝ)|) :=
  @NF.LayerDerivMore.coupling_cubic_logdet_is_jacobian

theorem coupling_linear_logdet_is_jacobian :
    ∀ (e : Float → ℝ) (c : NF.ElCfg) (mask : List ℝ) (B : ℕ)
      (net : Array ℝ → Array ℝ) (x : Array ℝ),
      c.kind = "lin" →
        c.tails = Bool.false →
          e (NF.boxLog (NF.LayerDerivMore.linBoxOf c)) =
              Real.log
                ((e (NF.LayerDerivMore.linBoxOf c).top - e (NF.LayerDerivMore.linBoxOf c).bottom) /
                  (e (NF.LayerDerivMore.linBoxOf c).right - e (NF.LayerDerivMore.linBoxOf c).left)) →
            x.size = B * mask.length →
              ∀ {b : ℕ},
                b < B →
                  LinTails.LinParamsValid e c (NF.CouplingJacobian.nT e mask) 1 (NF.LayerDerivMore.cParams e mask B net x)
                      B →
                    (∀ (i : Fin mask.length),
                        NF.StructureExec.isT (NF.realX e) mask i = Bool.true →
                          ∃ k < c.K,
                            LinWhole.xk e (NF.LayerDerivMore.linBoxOf c) c.K k <
                                NF.StructureExec.rowOf (NF.realX e) mask.length b x i ∧
                              NF.StructureExec.rowOf (NF.realX e) mask.length b x i <
                                LinWhole.xk e (NF.LayerDerivMore.linBoxOf c) c.K (k + 1)) →
                      ∀ {L : (Fin mask.length → ℝ) →L[ℝ] Fin mask.length → ℝ},
                        HasFDerivAt (NF.CouplingJacobian.couplingRowMap e c mask B net Bool.false x b) L
                            (NF.StructureExec.rowOf (NF.realX e) mask.length b x) →
                          (NF.CouplingJacobian.couplingRun (NF.realX e) c mask B net Bool.false x).ld[b]? =
                            Option.some
                              (Real.log
                                |(LinearMap.det : ((Fin mask.length → ℝ) →ₗ[ℝ] Fin mask.length → ℝ) → ℝ)
                                    (↑L : (Fin mask.length → ℝ) →ₗ[ℝ] Fin mask.length → ℝ)|) :=
  @NF.LayerDerivMore.coupling_linear_logdet_is_jacobian

theorem ar_quadratic_logdet_is_jacobian :
    ∀ (e : Float → ℝ) (c : NF.ElCfg) (B F : ℕ) (net : Array ℝ → Array ℝ)
      (x : Array ℝ),
      c.kind = "quad" →
        c.tails = Bool.false →
          e (NF.boxLog (NF.StructureExec.quadCfgOf c).box) =
              Real.log
                ((e (NF.StructureExec.quadCfgOf c).box.top - e (NF.StructureExec.quadCfgOf c).box.bottom) /
                  (e (NF.StructureExec.quadCfgOf c).box.right - e (NF.StructureExec.quadCfgOf c).box.left)) →
            NF.ARWhole.AutoregNet B F (2 * c.K + 1) net →
              x.size = B * F →
                ∀ {b : ℕ},
                  b < B →
                    (∀ (i : Fin F),
                        QuadWhole.QuadValid e (NF.StructureExec.quadCfgOf c)
                          (NF.StructureExec.quadW (NF.realX e) c (NF.ARWhole.arSlice (NF.realX e) c F (net x) b (↑i : ℕ)))
                          (NF.StructureExec.quadH (NF.realX e) c
                            (NF.ARWhole.arSlice (NF.realX e) c F (net x) b (↑i : ℕ)))) →
                      (∀ (i : Fin F),
                          ∃
                            k <
                              (NF.StructureExec.quadW (NF.realX e) c
                                  (NF.ARWhole.arSlice (NF.realX e) c F (net x) b (↑i : ℕ))).length,
                            QuadWhole.xk e (NF.StructureExec.quadCfgOf c)
                                  (NF.StructureExec.quadW (NF.realX e) c
                                    (NF.ARWhole.arSlice (NF.realX e) c F (net x) b (↑i : ℕ)))
                                  k <
                                x.getD (b * F + (↑i : ℕ)) 0 ∧
                              x.getD (b * F + (↑i : ℕ)) 0 <
                                QuadWhole.xk e (NF.StructureExec.quadCfgOf c)
                                  (NF.StructureExec.quadW (NF.realX e) c
                                    (NF.ARWhole.arSlice (NF.realX e) c F (net x) b (↑i : ℕ)))
                                  (k + 1)) →
                        ∀ {L : (Fin F → ℝ) →L[ℝ] Fin F → ℝ},
                          (HasFDerivAt (NF.ARWhole.rowMap e c B F net x b) L fun (i : Fin F) =>
                              x.getD (b * F + (↑i : ℕ)) 0) →
                            (NF.ARWhole.arForward (NF.realX e) c B F net x).ld[b]? =
                              Option.some
                                (Real.log
                                  |(LinearMap.det : ((Fin F → ℝ) →ₗ[ℝ] Fin F → ℝ) → ℝ) (↑L : (Fin F → ℝ) →ₗ[ℝ] Fin F → ℝ)|) :=
  @NF.LayerDerivMore.ar_quadratic_logdet_is_jacobian

theorem ar_cubic_logdet_is_jacobian :
    ∀ (e : Float → ℝ) (c : NF.ElCfg) (B F : ℕ) (net : Array ℝ → Array ℝ)
      (x : Array ℝ),
      c.kind = "cubic" →
        c.tails = Bool.false →
          0 < c.K →
            CubicWhole.CubicValid e (CubicLayers.cubicCfgOf c) (List.replicate c.K 0) (List.replicate c.K 0) →
              e (NF.boxLog (CubicLayers.cubicCfgOf c).box) =
                  Real.log
                    ((e (CubicLayers.cubicCfgOf c).box.top - e (CubicLayers.cubicCfgOf c).box.bottom) /
                      (e (CubicLayers.cubicCfgOf c).box.right - e (CubicLayers.cubicCfgOf c).box.left)) →
                NF.ARWhole.AutoregNet B F (2 * c.K + 2) net →
                  x.size = B * F →
                    ∀ {b : ℕ},
                      b < B →
                        (∀ (i : Fin F),
                            e (CubicLayers.cubicCfgOf c).box.left < x.getD (b * F + (↑i : ℕ)) 0 ∧
                              x.getD (b * F + (↑i : ℕ)) 0 < e (CubicLayers.cubicCfgOf c).box.right) →
                          ∀ {L : (Fin F → ℝ) →L[ℝ] Fin F → ℝ},
                            (HasFDerivAt (NF.ARWhole.rowMap e c B F net x b) L fun (i : Fin F) =>
                                x.getD (b * F + (↑i : ℕ)) 0) →
                              (NF.ARWhole.arForward (NF.realX e) c B F net x).ld[b]? =
                                Option.some
                                  (Real.log
                                    |(LinearMap.det : ((Fin F → ℝ) →ₗ[ℝ] Fin F → ℝ) → ℝ)
                                        (↑L : (Fin F → ℝ) →ₗ[ℝ] Fin F → ℝ)|) :=
  @NF.LayerDerivMore.ar_cubic_logdet_is_jacobian

theorem ar_linear_logdet_is_jacobian :
    ∀ (e : Float → ℝ) (c : NF.ElCfg) (B F : ℕ) (net : Array ℝ → Array ℝ)
      (x : Array ℝ),
      c.kind = "lin" →
        c.tails = Bool.false →
          0 < c.K →
            LinWhole.LinValid e (NF.LayerDerivMore.linBoxOf c) 1e-6 (List.replicate c.K 0) →
              e (1.0 / c.K.toFloat).log = Real.log (1 / (↑c.K : ℝ)) →
                e (NF.boxLog (NF.LayerDerivMore.linBoxOf c)) =
                    Real.log
                      ((e (NF.LayerDerivMore.linBoxOf c).top - e (NF.LayerDerivMore.linBoxOf c).bottom) /
                        (e (NF.LayerDerivMore.linBoxOf c).right - e (NF.LayerDerivMore.linBoxOf c).left)) →
                  NF.ARWhole.AutoregNet B F c.K net →
                    x.size = B * F →
                      ∀ {b : ℕ},
                        b < B →
                          (∀ (i : Fin F),
                              ∃ k < c.K,
                                LinWhole.xk e (NF.LayerDerivMore.linBoxOf c) c.K k < x.getD (b * F + (↑i : ℕ)) 0 ∧
                                  x.getD (b * F + (↑i : ℕ)) 0 < LinWhole.xk e (NF.LayerDerivMore.linBoxOf c) c.K (k + 1)) →
                            ∀ {L : (Fin F → ℝ) →L[ℝ] Fin F → ℝ},
                              (HasFDerivAt (NF.ARWhole.rowMap e c B F net x b) L fun (i : Fin F) =>
                                  x.getD (b * F + (↑i : ℕ)) 0) →
                                (NF.ARWhole.arForward (NF.realX e) c B F net x).ld[b]? =
                                  Option.some
                                    (Real.log
                                      |(LinearMap.det : ((Fin F → ℝ) →ₗ[ℝ] Fin F → ℝ) → ℝ)
                                          (↑L : (Fin F → ℝ) →ₗ[ℝ] Fin F → ℝ)|) :=
  @NF.LayerDerivMore.ar_linear_logdet_is_jacobian

theorem coupling_quadratic_tails_logdet_is_jacobian :
    ∀ (e : Float → ℝ) (c : NF.ElCfg) (mask : List ℝ) (B : ℕ)
      (net : Array ℝ → Array ℝ) (x : Array ℝ),
      c.kind = "quad" →
        c.tails = Bool.true →
          e (-c.ds.getD 0 0.0) = -e (c.ds.getD 0 0.0) →
            e (NF.boxLog (TailsWhole.tbox (c.ds.getD 0 0.0))) = 0 →
              x.size = B * mask.length →
                ∀ {b : ℕ},
                  b < B →
                    NF.StructureExec.QuadTailsParamsValid e c (NF.CouplingJacobian.nT e mask) 1
                        (NF.LayerDerivMore.cParams e mask B net x) B →
                      (∀ (i : Fin mask.length),
                          NF.StructureExec.isT (NF.realX e) mask i = Bool.true →
                            NF.LayerDerivMore.QuadTailsPos e c
                              (NF.StructureExec.quadW (NF.realX e) c
                                (NF.LayerDerivMore.chanSlice e c mask (NF.LayerDerivMore.cParams e mask B net x) b i))
                              (NF.StructureExec.rowOf (NF.realX e) mask.length b x i)) →
                        ∀ {L : (Fin mask.length → ℝ) →L[ℝ] Fin mask.length → ℝ},
                          HasFDerivAt (NF.CouplingJacobian.couplingRowMap e c mask B net Bool.false x b) L
                              (NF.StructureExec.rowOf (NF.realX e) mask.length b x) →
                            (NF.CouplingJacobian.couplingRun (NF.realX e) c mask B net Bool.false x).ld[b]? =
                              Option.some
                                (Real.log
                                  |(LinearMap.det : ((Fin mask.length → ℝ) →ₗ[ℝ] Fin mask.length → ℝ) → ℝ)
                                      (↑L : (Fin mask.length → ℝ) →ₗ[ℝ] Fin mask.length → ℝ)|) :=
  @NF.LayerDerivMore.coupling_quadratic_tails_logdet_is_jacobian

theorem coupling_cubic_tails_logdet_is_jacobian :
    ∀ (e : Float → ℝ) (c : NF.ElCfg) (mask : List ℝ) (B : ℕ)
      (net : Array ℝ → Array ℝ) (x : Array ℝ),
      c.kind = "cubic" →
        c.tails = Bool.true →
          0 < c.K →
            CubicWhole.CubicValid e (CubicLayers.cubicCfgOfT c) (List.replicate c.K 0) (List.replicate c.K 0) →
              e (-c.ds.getD 0 0.0) = -e (c.ds.getD 0 0.0) →
                e (NF.boxLog (TailsWhole.tbox (c.ds.getD 0 0.0))) = 0 →
                  x.size = B * mask.length →
                    ∀ {b : ℕ},
                      b < B →
                        (∀ (i : Fin mask.length),
                            NF.StructureExec.isT (NF.realX e) mask i = Bool.true →
                              NF.StructureExec.rowOf (NF.realX e) mask.length b x i ≠ -e (c.ds.getD 0 0.0) ∧
                                NF.StructureExec.rowOf (NF.realX e) mask.length b x i ≠ e (c.ds.getD 0 0.0)) →
                          ∀ {L : (Fin mask.length → ℝ) →L[ℝ] Fin mask.length → ℝ},
                            HasFDerivAt (NF.CouplingJacobian.couplingRowMap e c mask B net Bool.false x b) L
                                (NF.StructureExec.rowOf (NF.realX e) mask.length b x) →
                              (NF.CouplingJacobian.couplingRun (NF.realX e) c mask B net Bool.false x).ld[b]? =
                                Option.some
                                  (Real.log
                                    |(LinearMap.det : ((Fin mask.length → ℝ) →ₗ[ℝ] Fin mask.length → ℝ) → ℝ)
                                        (↑L : (Fin mask.length → ℝ) →ₗ[ℝ] Fin mask.length → ℝ)|) :=
  @NF.LayerDerivMore.coupling_cubic_tails_logdet_is_jacobian

theorem coupling_linear_tails_logdet_is_jacobian :
    ∀ (e : Float → ℝ) (c : NF.ElCfg) (mask : List ℝ) (B : ℕ)
      (net : Array ℝ → Array ℝ) (x : Array ℝ),
      c.kind = "lin" →
        c.tails = Bool.true →
          e (-c.ds.getD 0 0.0) = -e (c.ds.getD 0 0.0) →
            e (NF.boxLog (TailsWhole.tbox (c.ds.getD 0 0.0))) = 0 →
              x.size = B * mask.length →
                ∀ {b : ℕ},
                  b < B →
                    LinTails.LinTailsParamsValid e c (NF.CouplingJacobian.nT e mask) 1
                        (NF.LayerDerivMore.cParams e mask B net x) B →
                      (∀ (i : Fin mask.length),
                          NF.StructureExec.isT (NF.realX e) mask i = Bool.true →
                            NF.LayerDerivMore.LinTailsPos e c c.K (NF.StructureExec.rowOf (NF.realX e) mask.length b x i)) →
                        ∀ {L : (Fin mask.length → ℝ) →L[ℝ] Fin mask.length → ℝ},
                          HasFDerivAt (NF.CouplingJacobian.couplingRowMap e c mask B net Bool.false x b) L
                              (NF.StructureExec.rowOf (NF.realX e) mask.length b x) →
                            (NF.CouplingJacobian.couplingRun (NF.realX e) c mask B net Bool.false x).ld[b]? =
                              Option.some
                                (Real.log
                                  |(LinearMap.det : ((Fin mask.length → ℝ) →ₗ[ℝ] Fin mask.length → ℝ) → ℝ)
                                      (↑L : (Fin mask.length → ℝ) →ₗ[ℝ] Fin mask.length → ℝ)|) :=
  @NF.LayerDerivMore.coupling_linear_tails_logdet_is_jacobian

theorem ar_quadratic_tails_logdet_is_jacobian :
    ∀ (e : Float → ℝ) (c : NF.ElCfg) (B F : ℕ)
      (net : Array ℝ → Array ℝ) (x : Array ℝ),
      c.kind = "quad" →
        c.tails = Bool.true →
          e (-c.ds.getD 0 0.0) = -e (c.ds.getD 0 0.0) →
            e (NF.boxLog (TailsWhole.tbox (c.ds.getD 0 0.0))) = 0 →
              NF.ARWhole.AutoregNet B F (2 * c.K - 1) net →
                x.size = B * F →
                  ∀ {b : ℕ},
                    b < B →
                      (∀ (i : Fin F),
                          QuadWhole.QuadValidT e (NF.StructureExec.quadCfgOfT c)
                            (NF.StructureExec.quadW (NF.realX e) c (NF.ARWhole.arSlice (NF.realX e) c F (net x) b (↑i : ℕ)))
                            (NF.StructureExec.quadH (NF.realX e) c
                              (NF.ARWhole.arSlice (NF.realX e) c F (net x) b (↑i : ℕ)))) →
                        (∀ (i : Fin F),
                            NF.LayerDerivMore.QuadTailsPos e c
                              (NF.StructureExec.quadW (NF.realX e) c
                                (NF.ARWhole.arSlice (NF.realX e) c F (net x) b (↑i : ℕ)))
                              (x.getD (b * F + (↑i : ℕ)) 0)) →
                          ∀ {L : (Fin F → ℝ) →L[ℝ] Fin F → ℝ},
                            (HasFDerivAt (NF.ARWhole.rowMap e c B F net x b) L fun (i : Fin F) =>
                                x.getD (b * F + (↑i : ℕ)) 0) →
                              (NF.ARWhole.arForward (NF.realX e) c B F net x).ld[b]? =
                                Option.some
                                  (Real.log
                                    |(LinearMap.det : ((Fin F → ℝ) →ₗ[ℝ] Fin F → ℝ) → ℝ)
                                        (↑L : (Fin F → ℝ) →ₗ[ℝ] Fin F → ℝ)|) :=
  @NF.LayerDerivMore.ar_quadratic_tails_logdet_is_jacobian

theorem ar_cubic_tails_logdet_is_jacobian :
    ∀ (e : Float → ℝ) (c : NF.ElCfg) (B F : ℕ)
      (net : Array ℝ → Array ℝ) (x : Array ℝ),
      c.kind = "cubic" →
        c.tails = Bool.true →
          0 < c.K →
            CubicWhole.CubicValid e (CubicLayers.cubicCfgOfT c) (List.replicate c.K 0) (List.replicate c.K 0) →
              e (-c.ds.getD 0 0.0) = -e (c.ds.getD 0 0.0) →
                e (NF.boxLog (TailsWhole.tbox (c.ds.getD 0 0.0))) = 0 →
                  NF.ARWhole.AutoregNet B F (2 * c.K + 2) net →
                    x.size = B * F →
                      ∀ {b : ℕ},
                        b < B →
                          (∀ (i : Fin F),
                              x.getD (b * F + (↑i : ℕ)) 0 ≠ -e (c.ds.getD 0 0.0) ∧
                                x.getD (b * F + (↑i : ℕ)) 0 ≠ e (c.ds.getD 0 0.0)) →
                            ∀ {L : (Fin F → ℝ) →L[ℝ] Fin F → ℝ},
                              (HasFDerivAt (NF.ARWhole.rowMap e c B F net x b) L fun (i : Fin F) =>
                                  x.getD (b * F + (↑i : ℕ)) 0) →
                                (NF.ARWhole.arForward (NF.realX e) c B F net x).ld[b]? =
                                  Option.some
                                    (Real.log
                                      |(LinearMap.det : ((Fin F → ℝ) →ₗ[ℝ] Fin F → ℝ) → ℝ)
                                          (↑L : (Fin F → ℝ) →ₗ[ℝ] Fin F → ℝ)|) :=
  @NF.LayerDerivMore.ar_cubic_tails_logdet_is_jacobian

theorem ar_linear_tails_logdet_is_jacobian :
    ∀ (e : Float → ℝ) (c : NF.ElCfg) (B F : ℕ)
      (net : Array ℝ → Array ℝ) (x : Array ℝ),
      c.kind = "lin" →
        c.tails = Bool.true →
          0 < c.K →
            LinWhole.LinValid e (TailsWhole.tbox (c.ds.getD 0 0.0)) 1e-6 (List.replicate c.K 0) →
              e (1.0 / c.K.toFloat).log = Real.log (1 / (↑c.K : ℝ)) →
                e (-c.ds.getD 0 0.0) = -e (c.ds.getD 0 0.0) →
                  e (NF.boxLog (TailsWhole.tbox (c.ds.getD 0 0.0))) = 0 →
                    NF.ARWhole.AutoregNet B F c.K net →
                      x.size = B * F →
                        ∀ {b : ℕ},
                          b < B →
                            (∀ (i : Fin F), NF.LayerDerivMore.LinTailsPos e c c.K (x.getD (b * F + (↑i : ℕ)) 0)) →
                              ∀ {L : (Fin F → ℝ) →L[ℝ] Fin F → ℝ},
                                (HasFDerivAt (NF.ARWhole.rowMap e c B F net x b) L fun (i : Fin F) =>
                                    x.getD (b * F + (↑i : ℕ)) 0) →
                                  (NF.ARWhole.arForward (NF.realX e) c B F net x).ld[b]? =
                                    Option.some
                                      (Real.log
                                        |(LinearMap.det : ((Fin F → ℝ) →ₗ[ℝ] Fin F → ℝ) → ℝ)
                                            (↑L : (Fin F → ℝ) →ₗ[ℝ] Fin F → ℝ)|) :=
  @NF.LayerDerivMore.ar_linear_tails_logdet_is_jacobian

theorem coupling_linear_inverse_logdet_is_jacobian :
    ∀ (e : Float → ℝ) (c : NF.ElCfg) (mask : List ℝ) (B : ℕ)
      (net : Array ℝ → Array ℝ) (x : Array ℝ),
      c.kind = "lin" →
        c.tails = Bool.false →
          e (NF.boxLog (NF.LayerDerivMore.linBoxOf c)) =
              Real.log
                ((e (NF.LayerDerivMore.linBoxOf c).top - e (NF.LayerDerivMore.linBoxOf c).bottom) /
                  (e (NF.LayerDerivMore.linBoxOf c).right - e (NF.LayerDerivMore.linBoxOf c).left)) →
            x.size = B * mask.length →
              ∀ {b : ℕ},
                b < B →
                  LinTails.LinParamsValid e c (NF.CouplingJacobian.nT e mask) 1 (NF.LayerDerivMore.cParams e mask B net x)
                      B →
                    (∀ (i : Fin mask.length),
                        NF.StructureExec.isT (NF.realX e) mask i = Bool.true →
                          ∃ k < c.K,
                            LinWhole.yk e (NF.LayerDerivMore.linBoxOf c)
                                  (NF.LayerDerivMore.chanSlice e c mask (NF.LayerDerivMore.cParams e mask B net x) b i) k <
                                NF.StructureExec.rowOf (NF.realX e) mask.length b x i ∧
                              NF.StructureExec.rowOf (NF.realX e) mask.length b x i <
                                LinWhole.yk e (NF.LayerDerivMore.linBoxOf c)
                                  (NF.LayerDerivMore.chanSlice e c mask (NF.LayerDerivMore.cParams e mask B net x) b i)
                                  (k + 1)) →
                      ∀ {L : (Fin mask.length → ℝ) →L[ℝ] Fin mask.length → ℝ},
                        HasFDerivAt (NF.CouplingJacobian.couplingRowMap e c mask B net Bool.true x b) L
                            (NF.StructureExec.rowOf (NF.realX e) mask.length b x) →
                          (NF.CouplingJacobian.couplingRun (NF.realX e) c mask B net Bool.true x).ld[b]? =
                            Option.some
                              (Real.log
                                |(LinearMap.det : ((Fin mask.length → ℝ) →ₗ[ℝ] Fin mask.length → ℝ) → ℝ)
                                    (↑L : (Fin mask.length → ℝ) →ₗ[ℝ] Fin mask.length → ℝ)|) :=
  @NF.LayerDerivMore.coupling_linear_inverse_logdet_is_jacobian

end Properties.C01
