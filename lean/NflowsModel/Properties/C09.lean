import NflowsModel.Real.Bridge
import NflowsModel.Lemmas.Knots
import NflowsModel.Lemmas.Glue
import NflowsModel.Lemmas.SplineAssembly
import NflowsModel.Lemmas.SplineExec
import NflowsModel.Lemmas.RQBin
import NflowsModel.Lemmas.RQWhole
import NflowsModel.Lemmas.RQInverseWhole
import NflowsModel.Lemmas.CubicWhole
import NflowsModel.Lemmas.QuadWhole
import NflowsModel.Lemmas.TailsWhole
import NflowsModel.Lemmas.QuadInverseWhole
import NflowsModel.Lemmas.CubicInverseWhole
import NflowsModel.Lemmas.LinWhole
import NflowsModel.Lemmas.RQDefaultWitness
/-!
# C09 — spline transformers are increasing bijections of their box, identity in the tails

Property theorems only (helper lemmas live in `Lemmas/`).  All statements are for an arbitrary bin count `K`,
arbitrary unnormalised parameters and an arbitrary box.
-/
open DualSound NF

namespace Properties.C09

/-- **Knots are valid**: for any unnormalised widths `u`, floor `0 ≤ m`, `m*K ≤ 1` and box `left < right`, the
    knots computed as in the code start at `left`, end at `right` and strictly increase. -/
theorem knots_valid {K : ℕ} (u : Fin K → ℝ) (m left right : ℝ) (hK : 0 < K) (hm0 : 0 ≤ m) (hmK : m * K ≤ 1)
    (hlr : left < right) :
    Knots.knot left right (Knots.widths m u) 0 = left ∧
    Knots.knot left right (Knots.widths m u) K = right ∧
    ∀ k < K, Knots.knot left right (Knots.widths m u) k < Knots.knot left right (Knots.widths m u) (k+1) :=
  ⟨Knots.knot_zero _ _ _, Knots.knot_last _ _ _ (Knots.widths_sum u hK),
   fun k hk => Knots.knot_strict _ _ _ hlr (Knots.widths_pos u hm0 hmK) k hk⟩

/-- **Knots are valid — on the executable stage-A code itself** (`flooredSoftmax` then `rqKnots`, the list functions the
    driver runs, instantiated at the reals): for EVERY non-empty unnormalised vector `u`, floor `0 ≤ m`, `m·K ≤ 1` and
    `lo < hi` the executed knot list has `K+1` entries, starts at `lo`, ends at `hi` and strictly increases.
    (`e` interprets the Python-side double constants; the hypotheses say it does so consistently.) -/
theorem exec_knots_valid (e : Float → ℝ) (m lo hi : Float) (u : List ℝ) (hu : u ≠ [])
    (hm0 : 0 ≤ e m) (hc : e (1 - m * u.length.toFloat) = 1 - e m * u.length) (hmK : e m * u.length ≤ 1)
    (hlt : e lo < e hi) (hd : e (hi - lo) = e hi - e lo) :
    let kn := (rqKnots (NF.realX e) lo hi (flooredSoftmax (NF.realX e) m u)).1
    kn.length = u.length + 1 ∧ kn.head? = some (e lo) ∧ kn.getLast? = some (e hi) ∧ kn.Pairwise (· < ·) := by
  have hv := SplineExec.flooredSoftmax_valid e m u hu hm0 hc hmK
  have hne : flooredSoftmax (NF.realX e) m u ≠ [] := by
    intro h
    have := hv.2; rw [h] at this; simp at this
  have hlen : (flooredSoftmax (NF.realX e) m u).length = u.length := by
    simp [SplineExec.flooredSoftmax_eq, SplineExec.softmaxG_length]
  have := SplineExec.rqKnots_valid e lo hi (flooredSoftmax (NF.realX e) m u) hne hv.1 hv.2 hlt hd
  simpa [hlen] using this

/-- **Linear spline cdf knots, on the executable code**: `pdf = softmax(u)`, `cdf = 0 :: setLast (cumsum pdf) 1` — for
    every non-empty unnormalised vector the executed knots start at 0, end at 1 and strictly increase (so every bin has
    positive mass and the piecewise-linear cdf is strictly increasing). -/
theorem exec_linear_cdf_valid (e : Float → ℝ) (u : List ℝ) (hu : u ≠ []) :
    let kn := (0 : ℝ) :: setLast (cumsumG (NF.realX e) (softmaxG (NF.realX e) u)) 1
    kn.length = u.length + 1 ∧ kn.head? = some 0 ∧ kn.getLast? = some 1 ∧ kn.Pairwise (· < ·) := by
  have hne : softmaxG (NF.realX e) u ≠ [] := by
    intro h; have := SplineExec.softmaxG_length e u; rw [h] at this
    exact hu (List.length_eq_zero_iff.mp this.symm)
  have := SplineExec.unitKnots_valid e (softmaxG (NF.realX e) u) hne (SplineExec.softmaxG_pos e u) (SplineExec.softmaxG_sum e u hu)
  simpa [SplineExec.softmaxG_length] using this

/-- **Quadratic / cubic spline location knots, on the executable code**: `widths = flooredSoftmax`, `locs = 0 :: setLast
    (cumsum widths) 1` are valid for every unnormalised vector when `0 ≤ m`, `m·K ≤ 1`. -/
theorem exec_unit_locs_valid (e : Float → ℝ) (m : Float) (u : List ℝ) (hu : u ≠ [])
    (hm0 : 0 ≤ e m) (hc : e (1 - m * u.length.toFloat) = 1 - e m * u.length) (hmK : e m * u.length ≤ 1) :
    let kn := (0 : ℝ) :: setLast (cumsumG (NF.realX e) (flooredSoftmax (NF.realX e) m u)) 1
    kn.length = u.length + 1 ∧ kn.head? = some 0 ∧ kn.getLast? = some 1 ∧ kn.Pairwise (· < ·) := by
  have hv := SplineExec.flooredSoftmax_valid e m u hu hm0 hc hmK
  have hne : flooredSoftmax (NF.realX e) m u ≠ [] := by
    intro h; have := hv.2; rw [h] at this; simp at this
  have hlen : (flooredSoftmax (NF.realX e) m u).length = u.length := by
    simp [SplineExec.flooredSoftmax_eq, SplineExec.softmaxG_length]
  have := SplineExec.unitKnots_valid e (flooredSoftmax (NF.realX e) m u) hne hv.1 hv.2
  simpa [hlen] using this

/-- executed softmax: positive entries summing to one, for every non-empty input -/
theorem exec_softmax_valid (e : Float → ℝ) (u : List ℝ) (hu : u ≠ []) :
    (∀ y ∈ softmaxG (NF.realX e) u, 0 < y) ∧ (softmaxG (NF.realX e) u).sum = 1 :=
  ⟨SplineExec.softmaxG_pos e u, SplineExec.softmaxG_sum e u hu⟩

/-- **Bin search**: `sum(x ≥ knots) - 1` with the last knot moved up by any `eps > 0` returns, for
    `x ∈ [x₀, x_K]`, an index `< K` whose half-open bin contains `x` (the last bin is closed). -/
theorem binSearch_spec (xs : ℕ → ℝ) (K : ℕ) (eps x : ℝ) (hK : 0 < K) (heps : 0 < eps)
    (hx : ∀ k < K, xs k < xs (k+1)) (hlo : xs 0 ≤ x) (hhi : x ≤ xs K) :
    let i := Glue.binIdx xs K eps x
    i < K ∧ xs i ≤ x ∧ (x < xs (i+1) ∨ (i + 1 = K ∧ x = xs K)) :=
  Glue.binSearch_spec xs K eps x hK heps hx hlo hhi

/-- **RQ bin, as executed**: the `Expr` term the driver evaluates is strictly increasing on its bin. -/
theorem rq_executed_strictMonoOn {xk w yk h d0 d1 : ℝ} (hw : 0 < w) (hh : 0 < h) (h0 : 0 < d0) (h1 : 0 < d1) :
    StrictMonoOn (fun x => evalR (Bridge.rqEnv x xk w yk h d0 d1) rqFwdE) (Set.Icc xk (xk + w)) :=
  RQBin.rq_executed_strictMonoOn hw hh h0 h1

/-- **RQ bin end-points, as executed**: left knot ↦ `yk`, right knot ↦ `yk + h`. -/
theorem rq_executed_endpoints {xk w yk h d0 d1 : ℝ} (hw : 0 < w) (hh : 0 < h) :
    evalR (Bridge.rqEnv xk xk w yk h d0 d1) rqFwdE = yk ∧
    evalR (Bridge.rqEnv (xk + w) xk w yk h d0 d1) rqFwdE = yk + h :=
  RQBin.rq_executed_endpoints hw hh

/-- **Cubic bin**: with knot derivatives in the Fritsch–Carlson region the Hermite derivative is positive
    on the whole bin, and the code's interior knot derivatives lie in that region. -/
theorem cubic_deriv_pos {s d0 d1 t : ℝ} (hs : 0 < s) (h0 : 0 < d0) (h0' : d0 < 3*s) (h1 : 0 < d1) (h1' : d1 < 3*s)
    (ht0 : 0 ≤ t) (ht1 : t ≤ 1) : 0 < Cubic.dpoly s d0 d1 t :=
  Cubic.dpoly_pos hs h0 h0' h1 h1' ht0 ht1

theorem cubic_knot_deriv_range {s0 s1 w0 w1 : ℝ} (hs0 : 0 < s0) (hs1 : 0 < s1) (hw0 : 0 < w0) (hw1 : 0 < w1) :
    let d := 2 * min (min s0 s1) (0.5 * (w1 * s0 + w0 * s1) / (w0 + w1))
    0 < d ∧ d < 3 * s0 ∧ d < 3 * s1 :=
  Cubic.knot_deriv_range hs0 hs1 hw0 hw1

/-- cubic bin end-points (as executed): the polynomial is 0 at the left knot and `s*w` at the right one. -/
theorem cubic_endpoints {s d0 d1 w : ℝ} (hw : 0 < w) :
    Cubic.poly s d0 d1 w 0 = 0 ∧ Cubic.poly s d0 d1 w w = s * w :=
  ⟨Cubic.poly_left, Cubic.poly_right hw⟩

/-- **Quadratic bin**: the density (derivative of the executed cdf term) is positive on the bin. -/
theorem quad_pdf_pos {hl hr α : ℝ} (h0 : 0 < hl) (h1 : 0 < hr) (a0 : 0 ≤ α) (a1 : α ≤ 1) : 0 < Quad.pdf hl hr α :=
  Quad.pdf_pos h0 h1 a0 a1

/-- **Whole spline, any family, any `K`**: bin search + per-bin formula is strictly increasing on the box and
    pins both end-points. -/
theorem spline_strictMonoOn {K : ℕ} (P : SplineAssembly.Pieces K) (eps : ℝ) (hK : 0 < K) (heps : 0 < eps) :
    StrictMonoOn (SplineAssembly.spline P eps) (Set.Icc (P.xs 0) (P.xs K)) :=
  SplineAssembly.spline_strictMonoOn P eps hK heps

theorem spline_maps_endpoints {K : ℕ} (P : SplineAssembly.Pieces K) (eps : ℝ) (hK : 0 < K) (heps : 0 < eps) :
    SplineAssembly.spline P eps (P.xs 0) = P.ys 0 ∧ SplineAssembly.spline P eps (P.xs K) = P.ys K :=
  ⟨SplineAssembly.spline_left P eps hK heps, SplineAssembly.spline_right P eps hK heps⟩

/-- never leaves the output interval (monotone + end-points) -/
theorem spline_mapsTo_box {K : ℕ} (P : SplineAssembly.Pieces K) (eps : ℝ) (hK : 0 < K) (heps : 0 < eps)
    (x : ℝ) (hx : x ∈ Set.Icc (P.xs 0) (P.xs K)) :
    SplineAssembly.spline P eps x ∈ Set.Icc (P.ys 0) (P.ys K) := by
  have hm := (spline_strictMonoOn P eps hK heps).monotoneOn
  have hl := SplineAssembly.spline_left P eps hK heps
  have hr := SplineAssembly.spline_right P eps hK heps
  have h0 : P.xs 0 ∈ Set.Icc (P.xs 0) (P.xs K) := ⟨le_rfl, le_trans hx.1 hx.2⟩
  have hKm : P.xs K ∈ Set.Icc (P.xs 0) (P.xs K) := ⟨le_trans hx.1 hx.2, le_rfl⟩
  exact ⟨hl ▸ hm h0 hx hx.1, hr ▸ hm hx hKm hx.2⟩

/-! ## the executed rational-quadratic program as a whole (list program `rqSpline` instantiated at ℝ) -/

/-- **End to end, RQ forward**: for every accepted configuration (`RQWhole.RQValid`: `K ≥ 1`, parameter vectors of the
    right lengths, `0 ≤ min_bin_* `, `min_bin_* · K ≤ 1`, `left < right`, `bottom < top`, `eps > 0`, `0 ≤ min_derivative`,
    `β > 0`) and EVERY unnormalised parameter vectors, the value the executed program `rqSpline … false` returns is
    strictly increasing on the whole of `[left, right]` — across all bins, including the knots where the searched bin
    changes. -/
theorem rq_program_strictMonoOn (e : Float → ℝ) (c : RQCfg) (uw uh ud : List ℝ) (hv : RQWhole.RQValid e c uw uh ud) :
    StrictMonoOn (RQWhole.val e c uw uh ud) (Set.Icc (e c.box.left) (e c.box.right)) :=
  RQWhole.val_strictMonoOn hv

/-- … it sends the corners of the box to each other … -/
theorem rq_program_endpoints (e : Float → ℝ) (c : RQCfg) (uw uh ud : List ℝ) (hv : RQWhole.RQValid e c uw uh ud) :
    RQWhole.val e c uw uh ud (e c.box.left) = e c.box.bottom ∧ RQWhole.val e c uw uh ud (e c.box.right) = e c.box.top :=
  RQWhole.val_endpoints hv

/-- … and maps `[left, right]` into `[bottom, top]`. -/
theorem rq_program_mapsTo (e : Float → ℝ) (c : RQCfg) (uw uh ud : List ℝ) (hv : RQWhole.RQValid e c uw uh ud) :
    Set.MapsTo (RQWhole.val e c uw uh ud) (Set.Icc (e c.box.left) (e c.box.right)) (Set.Icc (e c.box.bottom) (e c.box.top)) :=
  RQWhole.val_mapsTo hv

/-- non-vacuity: the hypotheses of the three theorems above are met by a concrete configuration -/
example : RQWhole.RQValid RQWhole.eNV RQWhole.cNV [0] [0] [0, 0] := RQWhole.valid_example

/-- … and by the LIBRARY-DEFAULT configuration (3 bins on `[-3, 3]²`, minima `1e-3`, non-zero parameters, every constant read as its
    decimal value): the executed RQ program is there a strictly increasing map of `[-3, 3]` pinning `-3 ↦ -3`, `3 ↦ 3` -/
theorem rq_program_default_configuration :
    RQWhole.RQValid RQWhole.eH RQWhole.cH [0.3, -1.2, 2] [1, 0, -0.5] [0.1, 0.2, -3, 4] ∧
    StrictMonoOn (RQWhole.val RQWhole.eH RQWhole.cH [0.3, -1.2, 2] [1, 0, -0.5] [0.1, 0.2, -3, 4])
      (Set.Icc (RQWhole.eH RQWhole.cH.box.left) (RQWhole.eH RQWhole.cH.box.right)) ∧
    RQWhole.val RQWhole.eH RQWhole.cH [0.3, -1.2, 2] [1, 0, -0.5] [0.1, 0.2, -3, 4] (RQWhole.eH RQWhole.cH.box.left)
      = RQWhole.eH RQWhole.cH.box.bottom :=
  ⟨RQWhole.valid_default, RQWhole.val_strictMonoOn RQWhole.valid_default, (RQWhole.val_endpoints RQWhole.valid_default).1⟩

/-- `RQWhole.val` IS the program's first output wherever the program succeeds (it is not a re-statement of the spline) -/
theorem rq_program_val_is_output (e : Float → ℝ) (c : RQCfg) (uw uh ud : List ℝ) (x : ℝ) (r : ℝ × ℝ)
    (h : rqSpline (NF.realX e) c uw uh ud false x = .ok r) :
    RQWhole.val e c uw uh ud x = r.1 ∧ RQWhole.ld e c uw uh ud x = r.2 := by
  simp [RQWhole.val, RQWhole.ld, h]

/-- **Tails (executable model, any scalar semantics)**: outside `[-B, B]` the unconstrained wrappers return the
    input and a zero log-abs-det, whatever the inner spline is. -/
theorem tails_identity {α : Type} (o : XOps α) (B : Float) (x : α) (inner : Box → Except Err (α × α))
    (hout : (o.ge x (o.neg (o.ofFloat B)) && o.le x (o.ofFloat B)) = false) :
    tailsWrap o B x inner = .ok (x, o.zero) := by
  simp [tailsWrap, hout]

theorem rq_tails_identity {α : Type} (o : XOps α) (B minW minH minD beta : Float) (uw uh ud : List α) (inv : Bool) (x : α)
    (hout : (o.ge x (o.neg (o.ofFloat B)) && o.le x (o.ofFloat B)) = false) :
    rqSplineTails o B minW minH minD beta uw uh ud inv x = .ok (x, o.zero) := by
  simp [rqSplineTails, hout]

/-- the padded boundary derivative constant gives slope exactly one at the tail junction:
    `min_d + softplus(log(exp(1 - min_d) - 1)) = 1` for `min_d < 1` -/
theorem boundary_derivative_one (m : ℝ) (hm : m < 1) :
    m + Real.log (1 + Real.exp (Real.log (Real.exp (1 - m) - 1))) = 1 := by
  have h1 : 0 < Real.exp (1 - m) - 1 := by
    have : Real.exp 0 < Real.exp (1 - m) := Real.exp_lt_exp.mpr (by linarith)
    simpa using this
  rw [Real.exp_log h1]
  have : (1:ℝ) + (Real.exp (1 - m) - 1) = Real.exp (1 - m) := by ring
  rw [this, Real.log_exp]; ring

/-! non-vacuity: the hypotheses are satisfiable by concrete non-trivial data -/
example : (0:ℝ) ≤ 1/1000 ∧ (1/1000 : ℝ) * (10:ℕ) ≤ 1 ∧ (-3:ℝ) < 3 := by norm_num
example : ∃ P : SplineAssembly.Pieces 1, P.xs 0 < P.xs 1 :=
  ⟨{ xs := fun k => k, ys := fun k => 2 * k, g := fun _ θ => 2 * θ,
     hx := by intro k _; simp,
     g0 := by intro k _; simp,
     g1 := by intro k _; push_cast; ring,
     gmono := by intro k _ a _ b _ hab; simpa using hab }, by simp⟩

/-- **End to end, RQ inverse**: the inverse program is a strictly increasing map of `[bottom, top]` ONTO `[left, right]`
    that pins the corners — with `rq_program_strictMonoOn/endpoints/mapsTo` the executed pair is an increasing bijection
    of the box. -/
theorem rq_program_inverse_bijection (e : Float → ℝ) (c : RQCfg) (uw uh ud : List ℝ) (hv : RQWhole.RQValid e c uw uh ud) :
    StrictMonoOn (RQInverseWhole.inv e c uw uh ud) (Set.Icc (e c.box.bottom) (e c.box.top)) ∧
    RQInverseWhole.inv e c uw uh ud '' Set.Icc (e c.box.bottom) (e c.box.top) = Set.Icc (e c.box.left) (e c.box.right) ∧
    RQInverseWhole.inv e c uw uh ud (e c.box.bottom) = e c.box.left ∧
    RQInverseWhole.inv e c uw uh ud (e c.box.top) = e c.box.right :=
  ⟨RQInverseWhole.inv_strictMonoOn hv, RQInverseWhole.inv_image hv, (RQInverseWhole.inv_endpoints hv).1, (RQInverseWhole.inv_endpoints hv).2⟩

/-- knots go to knots, in both directions, for every knot index -/
theorem rq_program_knots (e : Float → ℝ) (c : RQCfg) (uw uh ud : List ℝ) (hv : RQWhole.RQValid e c uw uh ud)
    (j : ℕ) (hj : j ≤ uw.length) :
    RQWhole.val e c uw uh ud (RQWhole.xs e c uw j) = RQWhole.ys e c uh j ∧
    RQInverseWhole.inv e c uw uh ud (RQWhole.ys e c uh j) = RQWhole.xs e c uw j :=
  ⟨RQInverseWhole.val_knot hv j hj, RQInverseWhole.inv_knot hv j hj⟩

/-! ## the executed cubic and quadratic programs as wholes -/

/-- **End to end, cubic forward**: the value the executed program `cubicSpline … false` returns is a strictly increasing
    BIJECTION of `[left, right]` onto `[bottom, top]` pinning the corners — every `K ≥ 1`, every unnormalised parameters,
    every box; knot derivatives are shown to lie in the monotone (Fritsch–Carlson) region, the final clamp is inactive. -/
theorem cubic_program_bijection (e : Float → ℝ) (c : CCfg) (uw uh : List ℝ) (udl udr : ℝ) (hv : CubicWhole.CubicValid e c uw uh) :
    StrictMonoOn (CubicWhole.val e c uw uh udl udr) (Set.Icc (e c.box.left) (e c.box.right)) ∧
    Set.BijOn (CubicWhole.val e c uw uh udl udr) (Set.Icc (e c.box.left) (e c.box.right)) (Set.Icc (e c.box.bottom) (e c.box.top)) ∧
    CubicWhole.val e c uw uh udl udr (e c.box.left) = e c.box.bottom ∧
    CubicWhole.val e c uw uh udl udr (e c.box.right) = e c.box.top :=
  ⟨CubicWhole.val_strictMonoOn hv, CubicWhole.val_bijOn hv, (CubicWhole.val_endpoints hv).1, (CubicWhole.val_endpoints hv).2⟩

example : CubicWhole.CubicValid CubicWhole.eNV CubicWhole.cNV [0, 0] [0, 0] := CubicWhole.valid_example

/-- **End to end, quadratic forward, bounded shape** (`|uh| = K + 1`) -/
theorem quad_program_bijection (e : Float → ℝ) (c : QCfg) (uw uh : List ℝ) (hv : QuadWhole.QuadValid e c uw uh) :
    StrictMonoOn (QuadWhole.val e c uw uh) (Set.Icc (e c.box.left) (e c.box.right)) ∧
    Set.BijOn (QuadWhole.val e c uw uh) (Set.Icc (e c.box.left) (e c.box.right)) (Set.Icc (e c.box.bottom) (e c.box.top)) ∧
    QuadWhole.val e c uw uh (e c.box.left) = e c.box.bottom ∧ QuadWhole.val e c uw uh (e c.box.right) = e c.box.top :=
  ⟨QuadWhole.val_strictMonoOn hv, QuadWhole.val_bijOn hv, (QuadWhole.val_endpoints hv).1, (QuadWhole.val_endpoints hv).2⟩

/-- **End to end, quadratic forward, tails shape** (`|uh| = K − 1`, `K ≥ 2`: the padding constant is computed by the program) -/
theorem quad_tails_program_bijection (e : Float → ℝ) (c : QCfg) (uw uh : List ℝ) (hv : QuadWhole.QuadValidT e c uw uh) :
    StrictMonoOn (QuadWhole.val e c uw uh) (Set.Icc (e c.box.left) (e c.box.right)) ∧
    Set.BijOn (QuadWhole.val e c uw uh) (Set.Icc (e c.box.left) (e c.box.right)) (Set.Icc (e c.box.bottom) (e c.box.top)) ∧
    QuadWhole.val e c uw uh (e c.box.left) = e c.box.bottom ∧ QuadWhole.val e c uw uh (e c.box.right) = e c.box.top :=
  ⟨QuadWhole.val_strictMonoOn_T hv, QuadWhole.val_bijOn_T hv, (QuadWhole.val_endpoints_T hv).1, (QuadWhole.val_endpoints_T hv).2⟩

/-- the normalisation the quadratic code relies on holds exactly over ℝ: heights positive, total area 1, so both
    `[..., -1] = 1` pins change nothing -/
theorem quad_program_normalised (e : Float → ℝ) (c : QCfg) (uw uh : List ℝ) (hv : QuadWhole.QuadValid e c uw uh) :
    (∀ h ∈ QuadWhole.hts e c (QuadWhole.Wq e c uw) (QuadWhole.Uq e uh), 0 < h) ∧
    (QuadWhole.ars e c (QuadWhole.Wq e c uw) (QuadWhole.Uq e uh)).sum = 1 :=
  ⟨(QuadWhole.normalisation hv).1, (QuadWhole.normalisation hv).2.1⟩

example : QuadWhole.QuadValid QuadWhole.eNV QuadWhole.cNV [0] [0, 0] := QuadWhole.valid_example
example : QuadWhole.QuadValidT QuadWhole.eT QuadWhole.cNV [0, 0] [0] := QuadWhole.valid_example_T

/-! ## the UNCONSTRAINED (linear tails) programs on the whole real line -/

/-- **End to end, RQ with linear tails, forward, on all of ℝ**: the executed `rqSplineTails … false` never fails, is the
    identity with zero log-det outside `[-B, B]`, is continuous at the junctions, strictly increasing on ℝ, a bijection of ℝ onto
    ℝ that maps `[-B, B]` onto itself. -/
theorem rq_tails_program_whole_line (e : Float → ℝ) (tb minW minH minD beta : Float) (uw uh ud : List ℝ)
    (hv : TailsWhole.RQTailsValid e tb minW minH minD beta uw uh ud) :
    (∀ x, rqSplineTails (NF.realX e) tb minW minH minD beta uw uh ud false x
        = .ok (TailsWhole.valT e tb minW minH minD beta uw uh ud x, TailsWhole.ldT e tb minW minH minD beta uw uh ud x)) ∧
    (∀ x, x < -e tb ∨ e tb < x →
        TailsWhole.valT e tb minW minH minD beta uw uh ud x = x ∧ TailsWhole.ldT e tb minW minH minD beta uw uh ud x = 0) ∧
    StrictMono (TailsWhole.valT e tb minW minH minD beta uw uh ud) ∧
    Continuous (TailsWhole.valT e tb minW minH minD beta uw uh ud) ∧
    Function.Bijective (TailsWhole.valT e tb minW minH minD beta uw uh ud) ∧
    Set.BijOn (TailsWhole.valT e tb minW minH minD beta uw uh ud) (Set.Icc (-e tb) (e tb)) (Set.Icc (-e tb) (e tb)) :=
  ⟨TailsWhole.tails_total hv, fun x h => TailsWhole.valT_outside x h, TailsWhole.valT_strictMono hv, TailsWhole.valT_continuous hv,
   TailsWhole.valT_bijective hv, TailsWhole.valT_bijOn_box hv⟩

example : TailsWhole.RQTailsValid TailsWhole.eW 1.0 0.0 0.0 0.0 1.0 [0] [0] [] := TailsWhole.rq_valid_example

/-- the same for the quadratic family in its tails shape (`K ≥ 2`) through the generic `tailsWrap` (continuity only at the
    junction: the padding constant does not give derivative 1 there, `TailsWhole.quad_tails_not_differentiable_left`) … -/
theorem quad_tails_program_whole_line (e : Float → ℝ) (tb minW minH : Float) (uw uh : List ℝ)
    (hv : QuadWhole.QuadValidT e (TailsWhole.qcfgT tb minW minH) uw uh) (hneg : e (-tb) = - e tb) :
    (∀ x, tailsWrap (NF.realX e) tb x (fun b => TailsWhole.quadP e minW minH uw uh b x)
        = .ok (TailsWhole.wrapVal e tb (TailsWhole.quadP e minW minH uw uh) x, TailsWhole.wrapLd e tb (TailsWhole.quadP e minW minH uw uh) x)) ∧
    StrictMono (TailsWhole.wrapVal e tb (TailsWhole.quadP e minW minH uw uh)) ∧
    Continuous (TailsWhole.wrapVal e tb (TailsWhole.quadP e minW minH uw uh)) ∧
    Function.Bijective (TailsWhole.wrapVal e tb (TailsWhole.quadP e minW minH uw uh)) ∧
    Set.BijOn (TailsWhole.wrapVal e tb (TailsWhole.quadP e minW minH uw uh)) (Set.Icc (-e tb) (e tb)) (Set.Icc (-e tb) (e tb)) ∧
    TailsWhole.wrapVal e tb (TailsWhole.quadP e minW minH uw uh) (-e tb) = -e tb ∧
    TailsWhole.wrapVal e tb (TailsWhole.quadP e minW minH uw uh) (e tb) = e tb ∧
    (∀ x, x < -e tb ∨ e tb < x → TailsWhole.wrapVal e tb (TailsWhole.quadP e minW minH uw uh) x = x ∧
        TailsWhole.wrapLd e tb (TailsWhole.quadP e minW minH uw uh) x = 0) :=
  TailsWhole.quad_tails_whole hv hneg

/-- … and for the cubic family -/
theorem cubic_tails_program_whole_line (e : Float → ℝ) (tb minW minH eps thr : Float) (uw uh : List ℝ) (udl udr : ℝ)
    (hv : CubicWhole.CubicValid e (TailsWhole.ccfgT tb minW minH eps thr) uw uh) (hneg : e (-tb) = - e tb) :
    TailsWhole.cubicValT e tb minW minH eps thr uw uh udl udr (-e tb) = -e tb ∧
    TailsWhole.cubicValT e tb minW minH eps thr uw uh udl udr (e tb) = e tb ∧
    StrictMono (TailsWhole.cubicValT e tb minW minH eps thr uw uh udl udr) ∧
    Continuous (TailsWhole.cubicValT e tb minW minH eps thr uw uh udl udr) ∧
    Function.Bijective (TailsWhole.cubicValT e tb minW minH eps thr uw uh udl udr) ∧
    Set.BijOn (TailsWhole.cubicValT e tb minW minH eps thr uw uh udl udr) (Set.Icc (-e tb) (e tb)) (Set.Icc (-e tb) (e tb)) :=
  TailsWhole.cubic_tails_whole hv hneg

/-- **End to end, quadratic inverse** (both shapes of `uh`): a strictly increasing bijection of `[bottom, top]` onto `[left, right]` -/
theorem quad_program_inverse_bijection (e : Float → ℝ) (c : QCfg) (uw uh : List ℝ)
    (hv : QuadWhole.QuadValid e c uw uh ∨ QuadWhole.QuadValidT e c uw uh) :
    StrictMonoOn (QuadInverseWhole.inv e c uw uh) (Set.Icc (e c.box.bottom) (e c.box.top)) ∧
    Set.BijOn (QuadInverseWhole.inv e c uw uh) (Set.Icc (e c.box.bottom) (e c.box.top)) (Set.Icc (e c.box.left) (e c.box.right)) := by
  rcases hv with hv | hv
  · exact ⟨QuadInverseWhole.inv_strictMonoOn hv, QuadInverseWhole.inv_bijOn hv⟩
  · exact ⟨QuadInverseWhole.inv_strictMonoOn_T hv, QuadInverseWhole.inv_bijOn_T hv⟩

/-- **End to end, cubic inverse** (every bin exact): a strictly increasing bijection of `[bottom, top]` onto `[left, right]` -/
theorem cubic_program_inverse_bijection (e : Float → ℝ) (c : CCfg) (uw uh : List ℝ) (udl udr : ℝ)
    (hv : CubicWhole.CubicValid e c uw uh) (hc : CubicInverseWhole.InvConsts e c)
    (hall : CubicInverseWhole.AllExact e c uw uh udl udr) :
    StrictMonoOn (CubicInverseWhole.inv e c uw uh udl udr) (Set.Icc (e c.box.bottom) (e c.box.top)) ∧
    Set.BijOn (CubicInverseWhole.inv e c uw uh udl udr) (Set.Icc (e c.box.bottom) (e c.box.top)) (Set.Icc (e c.box.left) (e c.box.right)) :=
  ⟨CubicInverseWhole.inv_strictMonoOn hv hc hall, CubicInverseWhole.inv_bijOn hv hc hall⟩

/-- **End to end, linear spline, both directions** (the forward bin index `min(⌊x'K⌋, K−1)` is computed with the new `XOps.floorInt`,
    faithful at `Float`, `Float32` and ℝ): for EVERY non-empty parameter vector the forward program is a strictly increasing
    bijection of `[left, right]` onto `[bottom, top]` pinning the corners, and the inverse program one of `[bottom, top]` onto
    `[left, right]`. -/
theorem linear_program_bijection (e : Float → ℝ) (box : Box) (eps : Float) (up : List ℝ) (hv : LinWhole.LinValid e box eps up) :
    StrictMonoOn (LinWhole.val e box eps up) (Set.Icc (e box.left) (e box.right)) ∧
    Set.BijOn (LinWhole.val e box eps up) (Set.Icc (e box.left) (e box.right)) (Set.Icc (e box.bottom) (e box.top)) ∧
    LinWhole.val e box eps up (e box.left) = e box.bottom ∧ LinWhole.val e box eps up (e box.right) = e box.top ∧
    Set.BijOn (LinWhole.inv e box eps up) (Set.Icc (e box.bottom) (e box.top)) (Set.Icc (e box.left) (e box.right)) :=
  ⟨LinWhole.val_strictMonoOn hv, LinWhole.val_bijOn hv, (LinWhole.val_endpoints hv).1, (LinWhole.val_endpoints hv).2, LinWhole.inv_bijOn hv⟩

end Properties.C09
