import NflowsModel.Properties.C04
import NflowsModel.Lemmas.ARInverseStage
/-!
# C04 (continued) — the pairing theorem for masked autoregressive flows, no round-trip hypothesis left

`Lemmas/ARInverseStage.lean`: `RoundTripEq` between the forward autoregressive stage and the `F`-pass inverse loop (affine, RQ bounded,
RQ with tails elements), hence `flowSalpExec_consistent_ar_*`: for a masked autoregressive flow the value returned with sample `[i, j]`
is `log_prob` of that sample alone under context row `i`.
-/
set_option linter.all false
namespace Properties.C04

theorem roundTrip_arStage :
    ∀ (e : Float → ℝ) (c : NF.ElCfg) (F : ℕ) (net : ℕ → Array ℝ → Array ℝ → Array ℝ),
      0 < F →
        (∀ (ctx : Array ℝ), NF.ARWhole.AutoregNet 1 F (NF.ARWhole.pw c) fun (z : Array ℝ) => net 1 z ctx) →
          (∀ (params : Array ℝ), NF.ARWhole.ArElInvertibleRev (NF.realX e) c F params 1) →
            NF.StageMore.RoundTripEq (NF.realX e) (fun (z : Array ℝ) => z.size = F) (fun (s : Array ℝ) => s.size = F)
              (NF.FlowRowsExec.arStage (NF.realX e) c F Bool.false net) (NF.ARInverseStage.arInvStage (NF.realX e) c F net) :=
  @NF.ARInverseStage.roundTrip_arStage

theorem roundTrip_arStage_affine :
    ∀ (e : Float → ℝ) (c : NF.ElCfg) (F : ℕ)
      (net : ℕ → Array ℝ → Array ℝ → Array ℝ),
      c.kind = "araffine" →
        0 ≤ e (c.ds.getD 0 0.0) →
          0 < F →
            (∀ (ctx : Array ℝ), NF.ARWhole.AutoregNet 1 F 2 fun (z : Array ℝ) => net 1 z ctx) →
              NF.StageMore.RoundTripEq (NF.realX e) (fun (z : Array ℝ) => z.size = F) (fun (s : Array ℝ) => s.size = F)
                (NF.FlowRowsExec.arStage (NF.realX e) c F Bool.false net)
                (NF.ARInverseStage.arInvStage (NF.realX e) c F net) :=
  @NF.ARInverseStage.roundTrip_arStage_affine

theorem roundTrip_arStage_rq :
    ∀ (e : Float → ℝ) (c : NF.ElCfg) (F : ℕ)
      (net : ℕ → Array ℝ → Array ℝ → Array ℝ),
      NF.ARWhole.RQCfgValid e c →
        0 < F →
          (∀ (ctx : Array ℝ), NF.ARWhole.AutoregNet 1 F (3 * c.K + 1) fun (z : Array ℝ) => net 1 z ctx) →
            NF.StageMore.RoundTripEq (NF.realX e) (fun (z : Array ℝ) => z.size = F) (fun (s : Array ℝ) => s.size = F)
              (NF.FlowRowsExec.arStage (NF.realX e) c F Bool.false net) (NF.ARInverseStage.arInvStage (NF.realX e) c F net) :=
  @NF.ARInverseStage.roundTrip_arStage_rq

theorem roundTrip_arStage_rqTails :
    ∀ (e : Float → ℝ) (c : NF.ElCfg) (F : ℕ)
      (net : ℕ → Array ℝ → Array ℝ → Array ℝ),
      NF.StructureExec.RQTailsCfgValid e c →
        0 < F →
          (∀ (ctx : Array ℝ), NF.ARWhole.AutoregNet 1 F (NF.ARWhole.pw c) fun (z : Array ℝ) => net 1 z ctx) →
            NF.StageMore.RoundTripEq (NF.realX e) (fun (z : Array ℝ) => z.size = F) (fun (s : Array ℝ) => s.size = F)
              (NF.FlowRowsExec.arStage (NF.realX e) c F Bool.false net) (NF.ARInverseStage.arInvStage (NF.realX e) c F net) :=
  @NF.ARInverseStage.roundTrip_arStage_rqTails

theorem flowSalpExec_consistent_ar :
    ∀ (e : Float → ℝ) (c : NF.ElCfg) (F : ℕ)
      (net : ℕ → Array ℝ → Array ℝ → Array ℝ) {rcw cw R n : ℕ} {emb : ℕ → Array ℝ → Array ℝ}
      {base : NF.FlowRowsExec.BaseD ℝ} {noise ctx : Array ℝ},
      0 < F →
        (∀ (ctx : Array ℝ), NF.ARWhole.AutoregNet 1 F (NF.ARWhole.pw c) fun (z : Array ℝ) => net 1 z ctx) →
          (∀ (params : Array ℝ), NF.ARWhole.ArElInvertibleRev (NF.realX e) c F params 1) →
            NF.FlowRowsExec.NetRowWise F cw (F * NF.FlowRowsExec.arMult c) net →
              NF.FlowRowsExec.RowIndepBase cw base →
                NF.FlowRowsExec.EmbRowWise rcw cw emb →
                  R * cw ≤ (emb R ctx).size →
                    ∀ {s : Array ℝ} {lps : List ℝ},
                      NF.FlowRowsExec.flowSalpExec (NF.realX e) F cw R n emb
                            (NF.ARInverseStage.arInvStage (NF.realX e) c F net) base noise ctx =
                          Except.ok (s, lps) →
                        ∀ {i j : ℕ},
                          i < R →
                            j < n →
                              ∀ (zr cr : Array ℝ),
                                zr.size = F →
                                  NF.FlowRowsExec.RowEq F (i * n + j) 0 noise zr →
                                    NF.FlowRowsExec.RowEq rcw i 0 ctx cr →
                                      ∃ (si : Array ℝ) (lp : ℝ),
                                        NF.FlowRowsExec.RowEq F (i * n + j) 0 s si ∧
                                          lps[i * n + j]? = Option.some lp ∧
                                            NF.FlowRowsExec.flowLogProbExec (NF.realX e) F emb
                                                (NF.FlowRowsExec.arStage (NF.realX e) c F Bool.false net) base 1 si cr =
                                              Except.ok [lp] :=
  @NF.ARInverseStage.flowSalpExec_consistent_ar

theorem flowSalpExec_consistent_ar_affine :
    ∀ (e : Float → ℝ) (c : NF.ElCfg) (F : ℕ)
      (net : ℕ → Array ℝ → Array ℝ → Array ℝ) {rcw cw R n : ℕ} {emb : ℕ → Array ℝ → Array ℝ}
      {base : NF.FlowRowsExec.BaseD ℝ} {noise ctx : Array ℝ},
      c.kind = "araffine" →
        0 ≤ e (c.ds.getD 0 0.0) →
          0 < F →
            (∀ (ctx : Array ℝ), NF.ARWhole.AutoregNet 1 F 2 fun (z : Array ℝ) => net 1 z ctx) →
              NF.FlowRowsExec.NetRowWise F cw (F * 2) net →
                NF.FlowRowsExec.RowIndepBase cw base →
                  NF.FlowRowsExec.EmbRowWise rcw cw emb →
                    R * cw ≤ (emb R ctx).size →
                      ∀ {s : Array ℝ} {lps : List ℝ},
                        NF.FlowRowsExec.flowSalpExec (NF.realX e) F cw R n emb
                              (NF.ARInverseStage.arInvStage (NF.realX e) c F net) base noise ctx =
                            Except.ok (s, lps) →
                          ∀ {i j : ℕ},
                            i < R →
                              j < n →
                                ∀ (zr cr : Array ℝ),
                                  zr.size = F →
                                    NF.FlowRowsExec.RowEq F (i * n + j) 0 noise zr →
                                      NF.FlowRowsExec.RowEq rcw i 0 ctx cr →
                                        ∃ (si : Array ℝ) (lp : ℝ),
                                          NF.FlowRowsExec.RowEq F (i * n + j) 0 s si ∧
                                            lps[i * n + j]? = Option.some lp ∧
                                              NF.FlowRowsExec.flowLogProbExec (NF.realX e) F emb
                                                  (NF.FlowRowsExec.arStage (NF.realX e) c F Bool.false net) base 1 si cr =
                                                Except.ok [lp] :=
  @NF.ARInverseStage.flowSalpExec_consistent_ar_affine

theorem flowSalpExec_consistent_ar_rq :
    ∀ (e : Float → ℝ) (c : NF.ElCfg) (F : ℕ)
      (net : ℕ → Array ℝ → Array ℝ → Array ℝ) {rcw cw R n : ℕ} {emb : ℕ → Array ℝ → Array ℝ}
      {base : NF.FlowRowsExec.BaseD ℝ} {noise ctx : Array ℝ},
      NF.ARWhole.RQCfgValid e c →
        0 < F →
          (∀ (ctx : Array ℝ), NF.ARWhole.AutoregNet 1 F (3 * c.K + 1) fun (z : Array ℝ) => net 1 z ctx) →
            NF.FlowRowsExec.NetRowWise F cw (F * NF.FlowRowsExec.arMult c) net →
              NF.FlowRowsExec.RowIndepBase cw base →
                NF.FlowRowsExec.EmbRowWise rcw cw emb →
                  R * cw ≤ (emb R ctx).size →
                    ∀ {s : Array ℝ} {lps : List ℝ},
                      NF.FlowRowsExec.flowSalpExec (NF.realX e) F cw R n emb
                            (NF.ARInverseStage.arInvStage (NF.realX e) c F net) base noise ctx =
                          Except.ok (s, lps) →
                        ∀ {i j : ℕ},
                          i < R →
                            j < n →
                              ∀ (zr cr : Array ℝ),
                                zr.size = F →
                                  NF.FlowRowsExec.RowEq F (i * n + j) 0 noise zr →
                                    NF.FlowRowsExec.RowEq rcw i 0 ctx cr →
                                      ∃ (si : Array ℝ) (lp : ℝ),
                                        NF.FlowRowsExec.RowEq F (i * n + j) 0 s si ∧
                                          lps[i * n + j]? = Option.some lp ∧
                                            NF.FlowRowsExec.flowLogProbExec (NF.realX e) F emb
                                                (NF.FlowRowsExec.arStage (NF.realX e) c F Bool.false net) base 1 si cr =
                                              Except.ok [lp] :=
  @NF.ARInverseStage.flowSalpExec_consistent_ar_rq

theorem flowSalpExec_consistent_ar_rqTails :
    ∀ (e : Float → ℝ) (c : NF.ElCfg) (F : ℕ)
      (net : ℕ → Array ℝ → Array ℝ → Array ℝ) {rcw cw R n : ℕ} {emb : ℕ → Array ℝ → Array ℝ}
      {base : NF.FlowRowsExec.BaseD ℝ} {noise ctx : Array ℝ},
      NF.StructureExec.RQTailsCfgValid e c →
        0 < F →
          (∀ (ctx : Array ℝ), NF.ARWhole.AutoregNet 1 F (NF.ARWhole.pw c) fun (z : Array ℝ) => net 1 z ctx) →
            NF.FlowRowsExec.NetRowWise F cw (F * NF.FlowRowsExec.arMult c) net →
              NF.FlowRowsExec.RowIndepBase cw base →
                NF.FlowRowsExec.EmbRowWise rcw cw emb →
                  R * cw ≤ (emb R ctx).size →
                    ∀ {s : Array ℝ} {lps : List ℝ},
                      NF.FlowRowsExec.flowSalpExec (NF.realX e) F cw R n emb
                            (NF.ARInverseStage.arInvStage (NF.realX e) c F net) base noise ctx =
                          Except.ok (s, lps) →
                        ∀ {i j : ℕ},
                          i < R →
                            j < n →
                              ∀ (zr cr : Array ℝ),
                                zr.size = F →
                                  NF.FlowRowsExec.RowEq F (i * n + j) 0 noise zr →
                                    NF.FlowRowsExec.RowEq rcw i 0 ctx cr →
                                      ∃ (si : Array ℝ) (lp : ℝ),
                                        NF.FlowRowsExec.RowEq F (i * n + j) 0 s si ∧
                                          lps[i * n + j]? = Option.some lp ∧
                                            NF.FlowRowsExec.flowLogProbExec (NF.realX e) F emb
                                                (NF.FlowRowsExec.arStage (NF.realX e) c F Bool.false net) base 1 si cr =
                                              Except.ok [lp] :=
  @NF.ARInverseStage.flowSalpExec_consistent_ar_rqTails

end Properties.C04
