import NflowsModel.Properties.C01
import NflowsModel.Lemmas.LogdetExec
import NflowsModel.Lemmas.NonlinExec
import NflowsModel.Lemmas.NonlinExecLT
/-!
# C01 (continued) — the EXECUTED element-wise transformers and the layers with a size factor

Re-statements (explicit types, proofs in `Lemmas/NonlinExec*.lean`, `Lemmas/LogdetExec*.lean`) answering the external audit: the scalar
laws of `Properties/C01.lean` are closed-form facts; here every statement is about the program the driver runs at `NF.realX e`.
`NonlinExec.LogDetAt F x`: `F x = .ok (y, ld)`, the program's value has a derivative `d` at `x` and `|d| = exp ld`
(`IncLogDetAt`: `d = exp ld`).  Counterexample theorems mark the forced side conditions: the thresholded softplus makes the Sigmoid
log-det inexact by `log(1 + e^{-|Tx|}) ≤ e^{-20}` beyond `|T x| = 20` (as in PyTorch), LeakyReLU is not differentiable at `0`,
`LogTanh` with the constructor's constants has a kink at the cut, a zero scale / a non-permutation are accepted by the element
functions (the constructors reject the former, nobody the latter).  Layers: 1×1 convolution (`H·W·log|det W|` = `log|det|` of the
block-diagonal Fréchet derivative of the executed item map), ActNorm 2-D / 4-D (`(h·w)·Σ log_scale`), BatchNorm in evaluation mode,
permutations / squeeze (coordinate re-indexings, `|det| = 1`).
-/
set_option linter.all false
namespace Properties.C01

theorem exp_executed_logdet :
    ∀ (e : Float → ℝ) (x : ℝ), NonlinExec.IncLogDetAt (NF.expT (NF.realX e) Bool.false) x :=
  @NonlinExec.expT_fwd_logdet

theorem exp_inverse_executed_logdet :
    ∀ (e : Float → ℝ) {y : ℝ},
      0 < y → NonlinExec.IncLogDetAt (NF.expT (NF.realX e) Bool.true) y :=
  @NonlinExec.expT_inv_logdet

theorem affine_executed_logdet :
    ∀ (e : Float → ℝ) (scale shift x : ℝ),
      scale ≠ 0 → NonlinExec.LogDetAt (NF.affineT (NF.realX e) scale shift Bool.false) x :=
  @NonlinExec.affineT_fwd_logdet

theorem affine_zero_scale_counterexample :
    ∀ (e : Float → ℝ) (shift x : ℝ),
      NF.affineT (NF.realX e) 0 shift Bool.false x = Except.ok (shift, 0) ∧
        HasDerivAt (fun (s : ℝ) => DualX.outY (NF.affineT (NF.realX e) 0 shift Bool.false s)) 0 x ∧ |0| ≠ Real.exp 0 :=
  @NonlinExec.affineT_zero_scale_counterexample

theorem glu_executed_logdet :
    ∀ (e : Float → ℝ) (ctx x : ℝ),
      NonlinExec.IncLogDetAt (NF.gluT (NF.realX e) ctx Bool.false) x :=
  @NonlinExec.gluT_fwd_logdet

theorem glu_executed_row_logdet :
    ∀ (e : Float → ℝ) (ctx : ℝ) (xs : List ℝ),
      (List.map (fun (x : ℝ) => DualX.outL (NF.gluT (NF.realX e) ctx Bool.false x)) xs).sum =
        (↑xs.length : ℝ) * Real.log (NonlinExec.gate ctx) :=
  @NonlinExec.gluT_row_logdet

theorem leakyRelu_executed_logdet :
    ∀ {e : Float → ℝ} {slope : Float} {ls : ℝ},
      NonlinExec.LeakyConsts e slope ls →
        ∀ {x : ℝ}, x ≠ 0 → NonlinExec.IncLogDetAt (NF.leakyReluT (NF.realX e) slope ls Bool.false) x :=
  @NonlinExec.leakyReluT_fwd_logdet

theorem leakyRelu_kink_counterexample :
    ∀ {e : Float → ℝ} (slope : Float) (ls : ℝ),
      e slope ≠ 1 →
        NF.leakyReluT (NF.realX e) slope ls Bool.false 0 = Except.ok (0, 0) ∧
          ¬DifferentiableAt ℝ (fun (s : ℝ) => DualX.outY (NF.leakyReluT (NF.realX e) slope ls Bool.false s)) 0 :=
  @NonlinExec.leakyReluT_not_differentiable_at_zero

theorem sigmoid_executed_logdet :
    ∀ (e : Float → ℝ) {T : ℝ} (eps : Float) {x : ℝ},
      0 < T → |T * x| ≤ 20 → NonlinExec.IncLogDetAt (NF.sigmoidT (NF.realX e) T eps Bool.false) x :=
  @NonlinExec.sigmoidT_fwd_logdet

theorem sigmoid_threshold_counterexample :
    ∀ (e : Float → ℝ) {T : ℝ} (eps : Float) {x : ℝ},
      0 < T → 20 < |T * x| → ¬NonlinExec.LogDetAt (NF.sigmoidT (NF.realX e) T eps Bool.false) x :=
  @NonlinExec.sigmoidT_fwd_logdet_false_beyond_threshold

theorem sigmoid_threshold_gap :
    ∀ (e : Float → ℝ) {T : ℝ} (eps : Float) {x : ℝ},
      0 < T →
        20 < |T * x| →
          ∃ (ld : ℝ),
            NF.sigmoidT (NF.realX e) T eps Bool.false x = Except.ok (NonlinExec.gate (T * x), ld) ∧
              HasDerivAt (fun (s : ℝ) => DualX.outY (NF.sigmoidT (NF.realX e) T eps Bool.false s))
                  (Real.exp (NonlinExec.sigLdIdeal T (T * x))) x ∧
                ld = NonlinExec.sigLdIdeal T (T * x) + Real.log (1 + Real.exp (-|T * x|)) ∧
                  0 < ld - NonlinExec.sigLdIdeal T (T * x) ∧ ld - NonlinExec.sigLdIdeal T (T * x) ≤ Real.exp (-20) :=
  @NonlinExec.sigmoidT_fwd_threshold_gap

theorem logit_executed_logdet :
    ∀ {e : Float → ℝ} {T : ℝ} {eps : Float},
      NonlinExec.SigmoidClamp e eps →
        ∀ {y : ℝ},
          0 < T →
            e eps < y →
              y < e (1 - eps) →
                |NonlinExec.logit y| ≤ 20 → NonlinExec.IncLogDetAt (NF.sigmoidT (NF.realX e) T eps Bool.true) y :=
  @NonlinExec.sigmoidT_inv_logdet

theorem tanh_inverse_executed_logdet :
    ∀ (e : Float → ℝ),
      e 0.5 = 1 / 2 → ∀ {y : ℝ}, -1 < y → y < 1 → NonlinExec.IncLogDetAt (NF.tanhT (NF.realX e) Bool.true) y :=
  @NonlinExec.tanhT_inv_logdet

theorem cauchy_executed_logdet :
    ∀ {e : Float → ℝ},
      NonlinExec.CauchyConsts e →
        ∀ (x : ℝ),
          HasDerivAt (fun (s : ℝ) => DualX.outY (NF.cauchyT (NF.realX e) Bool.false s))
            (Real.exp (DualX.outL (NF.cauchyT (NF.realX e) Bool.false x))) x :=
  @NonlinExec.cauchyT_fwd_hasDerivAt

theorem logTanh_executed_logdet_mid :
    ∀ {e : Float → ℝ} {cut invCut alpha beta : Float} {c a b : ℝ},
      NonlinExec.LogTanhConsts e cut invCut alpha beta c a b →
        ∀ (x : ℝ),
          -c < x →
            x < c →
              HasDerivAt (fun (s : ℝ) => DualX.outY (NF.logTanhT (NF.realX e) cut invCut alpha beta Bool.false s))
                (Real.exp (DualX.outL (NF.logTanhT (NF.realX e) cut invCut alpha beta Bool.false x))) x :=
  @NonlinExec.logTanhT_fwd_mid_hasDerivAt

theorem logTanh_executed_logdet_hi :
    ∀ {e : Float → ℝ} {cut invCut alpha beta : Float} {c a b : ℝ},
      NonlinExec.LogTanhConsts e cut invCut alpha beta c a b →
        ∀ (x : ℝ),
          c < x →
            HasDerivAt (fun (s : ℝ) => DualX.outY (NF.logTanhT (NF.realX e) cut invCut alpha beta Bool.false s))
              (Real.exp (DualX.outL (NF.logTanhT (NF.realX e) cut invCut alpha beta Bool.false x))) x :=
  @NonlinExec.logTanhT_fwd_hi_hasDerivAt

theorem logTanh_kink_at_cut :
    ∀ {e : Float → ℝ} {cut invCut alpha beta : Float},
      NonlinExec.LogTanhConsts e cut invCut alpha beta 1 (NonlinExec.aLib 1) (NonlinExec.bLib 1) →
        ¬DifferentiableAt ℝ (fun (s : ℝ) => DualX.outY (NF.logTanhT (NF.realX e) cut invCut alpha beta Bool.false s)) 1 :=
  @NonlinExec.logTanhT_lib_kink_one

theorem nonlin_layer_row_logdet :
    ∀ (e : Float → ℝ) (kind : String) (ds : Array Float) (ps : List ℝ) (B n : ℕ)
      (x : Array ℝ) (inv : Bool),
      x.size = B * n →
        ∀ {b : ℕ},
          b < B →
            (NF.nonlinApply (NF.realX e) kind ds ps B x inv).ld[b]? =
              Option.some
                (∑ k ∈ Finset.range n, DualX.outL (NF.nonlinEl (NF.realX e) kind ds ps inv (x.getD (b * n + k) 0))) :=
  @NonlinExec.nonlinApply_ld_row

theorem conv1x1_executed_logdet :
    ∀ (p : NF.LF.LUParams ℝ),
      p.udiag.length = p.n →
        0 ≤ p.eps →
          p.bias.length = p.n →
            ∀ (σ : Equiv.Perm (Fin p.n)) (B H W : ℕ) (xs : List ℝ) (b : Fin B),
              ∃ (D : (Fin p.n × Fin H × Fin W → ℝ) →L[ℝ] Fin p.n × Fin H × Fin W → ℝ),
                LogdetExec.itemOf p.n H W (NF.LF.convForward DualSound.realOps p (LogdetExec.permList σ) B H W xs).1
                      (↑b : ℕ) =
                    LogdetExec.convItemMap (LinearBridge.luW p) (LinearBridge.vecFn p.n p.bias) σ (Fin H × Fin W)
                      (LogdetExec.itemOf p.n H W xs (↑b : ℕ)) ∧
                  (∀ (x0 : Fin p.n × Fin H × Fin W → ℝ),
                      HasFDerivAt
                        (LogdetExec.convItemMap (LinearBridge.luW p) (LinearBridge.vecFn p.n p.bias) σ (Fin H × Fin W)) D
                        x0) ∧
                    D.det ≠ 0 ∧
                      (NF.LF.convForward DualSound.realOps p (LogdetExec.permList σ) B H W xs).2[(↑b : ℕ)]? =
                          Option.some (Real.log |D.det|) ∧
                        (NF.LF.convForward DualSound.realOps p (LogdetExec.permList σ) B H W xs).2.length = B :=
  @LogdetExec.conv_logdet_is_log_abs_det_fderiv

theorem conv1x1_logdet_entry :
    ∀ (p : NF.LF.LUParams ℝ) (B H W b : ℕ),
      b < B →
        (NF.LF.convLogabsdet DualSound.realOps p B H W id)[b]? =
          Option.some ((↑(H * W) : ℝ) * NF.LF.luLogabsdet DualSound.realOps p) :=
  @LogdetExec.convLogabsdet_entry

theorem actnorm_executed_logdet :
    ∀ (e : Float → ℝ) {F : ℕ} (ls sh : List ℝ),
      ls.length = F →
        ∀ (xs : List (Fin F → ℝ)),
          NF.Norm.actApply (NF.realX e) F ls sh (NF.Norm.Batch.d2 (List.map LogdetExec.encRow xs)) =
              NF.Norm.Batch.d2 (List.map (fun (x : Fin F → ℝ) => LogdetExec.encRow (LogdetExec.actRowMap ls sh x)) xs) ∧
            ∀ (i : ℕ) (hi : i < xs.length),
              ∃ (J : (Fin F → ℝ) →L[ℝ] Fin F → ℝ),
                HasFDerivAt (LogdetExec.actRowMap ls sh) J xs[i] ∧
                  (NF.Norm.actLogdet (NF.realX e) ls (NF.Norm.Batch.d2 (List.map LogdetExec.encRow xs)) Bool.false)[i]? =
                    Option.some (Real.log |J.det|) :=
  @LogdetExec.actnorm_d2_logdet_is_log_abs_det

theorem actnorm_image_executed_logdet :
    ∀ (e : Float → ℝ) {F : ℕ} (ls sh : List ℝ),
      ls.length = F →
        ∀ (h w : ℕ) (xs : List (Fin F × Fin (h * w) → ℝ)),
          NF.Norm.actApply (NF.realX e) F ls sh (NF.Norm.Batch.d4 h w (List.map LogdetExec.encImg xs)) =
              NF.Norm.Batch.d4 h w
                (List.map (fun (x : Fin F × Fin (h * w) → ℝ) => LogdetExec.encImg (LogdetExec.actImgMap ls sh x)) xs) ∧
            ∀ (i : ℕ) (hi : i < xs.length),
              ∃ (J : (Fin F × Fin (h * w) → ℝ) →L[ℝ] Fin F × Fin (h * w) → ℝ),
                HasFDerivAt (LogdetExec.actImgMap ls sh) J xs[i] ∧
                  (NF.Norm.actLogdet (NF.realX e) ls (NF.Norm.Batch.d4 h w (List.map LogdetExec.encImg xs))
                        Bool.false)[i]? =
                    Option.some (Real.log |J.det|) :=
  @LogdetExec.actnorm_d4_logdet_is_log_abs_det

theorem batchnorm_eval_executed_logdet :
    ∀ (e : Float → ℝ) {F : ℕ} (cfg : NF.Norm.BNCfg ℝ),
      0 ≤ cfg.eps →
        ∀ (mean var uw bias : List ℝ),
          (∀ j < F, 0 < var.getD j 0 + cfg.eps) →
            ∀ (xs : List (Fin F → ℝ)) (i : ℕ) (hi : i < xs.length),
              ∃ (J : (Fin F → ℝ) →L[ℝ] Fin F → ℝ),
                HasFDerivAt (LogdetExec.bnRowMap e cfg mean var uw bias) J xs[i] ∧
                  (NF.Norm.bnLogdet (NF.realX e) cfg F var uw (List.map LogdetExec.encRow xs).length Bool.false)[i]? =
                    Option.some (Real.log |J.det|) :=
  @LogdetExec.batchnorm_logdet_is_log_abs_det_of_eps

theorem permutation_executed_is_reindex :
    ∀ (B : ℕ) (rest : List ℕ) (dim : ℕ),
      1 ≤ dim →
        dim < (B :: rest).length →
          ∀ (perm : List ℕ),
            LogdetExec.IsPerm ((B :: rest).getD dim 0) perm →
              ∀ (x : Array ℝ),
                ∃ (y : Array ℝ) (σ : Equiv.Perm (Fin (LogdetExec.fprod rest))),
                  NF.permuteDim (B :: rest) dim perm x 0 = Except.ok y ∧
                    y.size = List.foldl (fun (x1 x2 : ℕ) => x1 * x2) 1 (B :: rest) ∧
                      LogdetExec.ItemReindex B (LogdetExec.fprod rest) x y σ :=
  @LogdetExec.permuteDim_item_is_reindex_general

theorem reindex_logdet_zero :
    ∀ {N : ℕ} (σ : Equiv.Perm (Fin N)),
      (∀ (x : Fin N → ℝ),
          HasFDerivAt (fun (v : Fin N → ℝ) (k : Fin N) => v ((σ : Fin N → Fin N) k))
            (FlowWholeND.matCLM (Equiv.Perm.permMatrix ℝ σ)) x) ∧
        (Function.Bijective fun (v : Fin N → ℝ) (k : Fin N) => v ((σ : Fin N → Fin N) k)) ∧
          (∀ (v : Fin N → ℝ),
              (FlowWholeND.matCLM (Equiv.Perm.permMatrix ℝ σ) : (Fin N → ℝ) → Fin N → ℝ) v = fun (k : Fin N) =>
                v ((σ : Fin N → Fin N) k)) ∧
            |(FlowWholeND.matCLM (Equiv.Perm.permMatrix ℝ σ)).det| = 1 ∧
              Real.log |(FlowWholeND.matCLM (Equiv.Perm.permMatrix ℝ σ)).det| = 0 :=
  @LogdetExec.reindex_abs_det

theorem squeeze_executed_is_reindex :
    ∀ (f B C H W : ℕ),
      0 < f →
        f ∣ H →
          f ∣ W →
            ∀ (x : Array ℝ),
              ∃ (y : Array ℝ) (σ : Equiv.Perm (Fin (C * H * W))),
                NF.squeezeFwd f B C H W x 0 = Except.ok y ∧
                  y.size = B * (C * f * f) * (H / f) * (W / f) ∧
                    y.size = B * C * H * W ∧ LogdetExec.ItemReindex B (C * H * W) x y σ :=
  @LogdetExec.squeezeFwd_item_is_reindex_dvd

theorem non_permutation_counterexample :
    (!![1, 0; 1, 0] : Matrix (Fin 2) (Fin 2) ℝ).det = 0 ∧ |(!![1, 0; 1, 0] : Matrix (Fin 2) (Fin 2) ℝ).det| ≠ Real.exp 0 :=
  @LogdetExec.non_permutation_det_zero

end Properties.C01
