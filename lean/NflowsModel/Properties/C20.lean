import NflowsModel.Lemmas.TorchUtils
import NflowsModel.Lemmas.Utils
import NflowsModel.Lemmas.Glue
import NflowsModel.Real.UtilsReal
import Mathlib.LinearAlgebra.Matrix.Notation
/-!
# C20 — tensor and mask utilities obey their algebraic specifications

Property theorems only.  They are about the executable definitions of `Core/TorchUtils` (what the driver runs against
`nflows/utils/torchutils.py` and `typechecks.py`), for every shape, size, count and value — no bounds.  A tensor is
`(shape, flat row-major data)`; `x.WF` says the data has as many entries as the shape announces.

Where the full-strength statement is false of the code it is kept in a comment, a `…_partial` version carries the forced
hypothesis and a `…_counterexample` proves the negation at a concrete witness (only `split_leading_dim` with an inferred
`-1` on 0-element tensors is left in that state; `sum_except_batch`, `merge_leading_dims`, `repeat_rows` hold in full
since the `fix:` commits a69477f and 8b73dff).
-/
open NF NF.TU

namespace Properties.C20
variable {α : Type}

/-! ## tile -/

/-- `tile(x, n)` succeeds for every positive int `n` and is the reshape/repeat/transpose pipeline on the flat data -/
theorem tile_ok (x : T α) (n : ℕ) (hn : 0 < n) :
    tile x (.int n) = .ok ⟨[x.data.length * n], tileL x.data n⟩ := by
  have : isPositiveInt (.int (n : Int)) = true := by simp [isPositiveInt, asInt]; omega
  simp [tile, this]

/-- **tile places copies consecutively**: entry `i*n + r` of `tile(x, n)` is flat entry `i` of `x` (all shapes, all `n`) -/
theorem tile_spec (d : List α) (n i r : ℕ) (hi : i < d.length) (hr : r < n) :
    (tileL d n)[i * n + r]? = d[i]? := by
  rw [tileL_eq_repeatRows]; exact Pairing.repeatRows_get d n i r hi hr

theorem tile_length (d : List α) (n : ℕ) : (tileL d n).length = d.length * n := by
  rw [tileL_eq_repeatRows]; exact Pairing.repeatRows_length d n

/-- the pipeline reshape(-1)·repeat(n)·reshape(n,-1)·transpose(1,0)·reshape(-1) IS "each entry n times" -/
theorem tile_eq_repeatRows (d : List α) (n : ℕ) : tileL d n = Pairing.repeatRows d n := tileL_eq_repeatRows d n

/-- error contract: anything but a positive `int` is a `TypeError` (also `True`: torch rejects a bool repeat count) -/
theorem tile_typeError (x : T α) (v : PyVal) (h : isPositiveInt v = false ∨ isBool v = true) :
    tile x v = .error .typeError := by
  rcases h with h | h
  · simp [tile, h]
  · cases v <;> simp_all [tile, isBool]

/-! ## repeat_rows -/

/-- `repeat_rows(x, n)` on ANY tensor `[s0] ++ rest` (also with empty rows): shape `[s0*n] ++ rest`, rows repeated consecutively -/
theorem repeat_rows_ok (x : T α) (s0 : ℕ) (rest : List ℕ) (n : ℕ) (hx : x.shape = s0 :: rest) (hn : 0 < n) :
    repeatRows x (.int n) = .ok ⟨(s0 * n) :: rest, (Pairing.repeatRows (rowsOf s0 rest x.data) n).flatten⟩ := by
  have h1 : isPositiveInt (.int (n : Int)) = true := by simp [isPositiveInt, asInt]; omega
  have h2 : isPositiveInt (.int 2) = true := by decide
  have h3 : natOf (.int 2) = 2 := by decide
  have hn' : natOf (.int (n : Int)) = n := by simp [natOf, asInt]
  simp only [repeatRows, h1, hx, hn', mergeLeading, h2, h3, Bool.not_true, Bool.false_eq_true, if_false, List.length_cons]
  have hlen : ¬ (2 > rest.length + 1 + 1) := by omega
  have hnum : s0 * (n * (prodL rest)) = prodL ((s0 * (n * 1)) :: rest) := by simp [prodL, Nat.mul_assoc]
  simp only [hlen, if_false, List.drop_succ_cons, List.drop_zero, List.take_succ_cons, List.take_zero, reshape, T.numel, prodL]
  rw [hnum, inferSize_exact]
  simp [Pairing.repeatRows, List.flatMap_def]

/-- **repeat_rows index law** (row level): row `i*n + j` of the result is row `i` of `x` -/
theorem repeat_rows_rows (d : List α) (s0 : ℕ) (rest : List ℕ) (n i j : ℕ) (hi : i < s0) (hj : j < n) :
    (Pairing.repeatRows (rowsOf s0 rest d) n)[i * n + j]? = (rowsOf s0 rest d)[i]? :=
  Pairing.repeatRows_get _ n i j (by simpa [rowsOf, chunkRows_length] using hi) hj

/-- **repeat_rows index law** (element level, well-formed `x`): with `p = prod rest`, flat entry `(i*n + j)*p + c` of the
    result is flat entry `i*p + c` of `x` -/
theorem repeat_rows_spec (x : T α) (s0 : ℕ) (rest : List ℕ) (n i j c : ℕ) (hx : x.shape = s0 :: rest) (hwf : x.WF)
    (hi : i < s0) (hj : j < n) (hc : c < prodL rest) :
    ((Pairing.repeatRows (rowsOf s0 rest x.data) n).flatten)[(i * n + j) * prodL rest + c]? = x.data[i * prodL rest + c]? := by
  have hd : x.data.length = s0 * prodL rest := by simpa [T.WF, hx, prodL] using hwf
  have hrows : ∀ row ∈ rowsOf s0 rest x.data, row.length = prodL rest := chunkRows_row_length s0 (prodL rest) x.data hd
  have hrep : ∀ row ∈ Pairing.repeatRows (rowsOf s0 rest x.data) n, row.length = prodL rest := by
    intro row hrow
    simp only [Pairing.repeatRows, List.mem_flatMap, List.mem_replicate] at hrow
    obtain ⟨a, ha, _, rfl⟩ := hrow
    exact hrows _ ha
  have hlen : i * n + j < (Pairing.repeatRows (rowsOf s0 rest x.data) n).length := by
    rw [Pairing.repeatRows_length]; simp only [rowsOf, chunkRows_length]
    have : (i + 1) * n ≤ s0 * n := Nat.mul_le_mul_right n hi
    have : (i + 1) * n = i * n + n := by ring
    omega
  have := Pairing.mergeLeading_get (Pairing.repeatRows (rowsOf s0 rest x.data) n) (prodL rest) (i * n + j) c hrep hlen hc
  simp only [Pairing.mergeLeading] at this
  rw [this, repeat_rows_rows x.data s0 rest n i j hi hj]
  exact chunkRows_entry s0 (prodL rest) x.data i c hi hc

theorem repeat_rows_typeError (x : T α) (v : PyVal) (h : isPositiveInt v = false) : repeatRows x v = .error .typeError := by
  simp [repeatRows, h]

/-! ## merge_leading_dims / split_leading_dim -/

/-- `merge_leading_dims(x, k)` succeeds for EVERY `1 ≤ k ≤ ndim` (also when a trailing dimension is 0): shape
    `[prod (shape[:k])] ++ shape[k:]`, same row-major data -/
theorem merge_ok (x : T α) (k : ℕ) (hk1 : 0 < k) (hk : k ≤ x.shape.length) :
    mergeLeading x (.int k) = .ok ⟨prodL (x.shape.take k) :: x.shape.drop k, x.data⟩ := by
  have h1 : isPositiveInt (.int (k : Int)) = true := by simp [isPositiveInt, asInt]; omega
  have hk' : natOf (.int (k : Int)) = k := by simp [natOf, asInt]
  have hnot : ¬ (k > x.shape.length) := by omega
  have hnum : x.numel = prodL (prodL (x.shape.take k) :: x.shape.drop k) := by
    simp only [T.numel, prodL]; exact (prodL_take_drop x.shape k).symm
  simp only [mergeLeading, h1, hk', hnot, Bool.not_true, Bool.false_eq_true, if_false, reshape]
  rw [hnum, inferSize_exact]

/-- **merge then split is the identity**, all shapes: splitting the merged leading dimension back into `shape[:k]`
    returns `x` itself. -/
theorem merge_split_id (x : T α) (k : ℕ) (hk1 : 0 < k) (hk : k ≤ x.shape.length) :
    ∃ m, mergeLeading x (.int k) = .ok m ∧ m.shape = prodL (x.shape.take k) :: x.shape.drop k ∧ m.data = x.data ∧
      splitLeading m ((x.shape.take k).map Int.ofNat) = .ok x := by
  refine ⟨_, merge_ok x k hk1 hk, rfl, rfl, ?_⟩
  simp only [splitLeading, reshape, T.numel, List.drop_succ_cons, List.drop_zero, prodL]
  rw [← List.map_append, List.take_append_drop, prodL_take_drop, inferSize_exact]

/-- **split then merge is the identity**, all shapes, for an explicit split `s` of the leading dimension
    (`prod s = shape[0]`, `s` non-empty): the split succeeds with shape `s ++ shape[1:]` and the same data, and merging
    its `len(s)` leading dimensions returns `x` itself. -/
theorem split_merge_id (x : T α) (s0 : ℕ) (tail s : List ℕ) (hx : x.shape = s0 :: tail) (hs : prodL s = s0) (hne : s ≠ []) :
    splitLeading x (s.map Int.ofNat) = .ok ⟨s ++ tail, x.data⟩ ∧
    mergeLeading ⟨s ++ tail, x.data⟩ (.int s.length) = .ok x := by
  constructor
  · have hnum : x.numel = prodL (s ++ tail) := by simp [T.numel, hx, prodL, prodL_append, hs]
    simp only [splitLeading, reshape, hx, List.drop_succ_cons, List.drop_zero]
    rw [← List.map_append, hnum, inferSize_exact]
  · have hlen : 0 < s.length := List.length_pos_of_ne_nil hne
    have := merge_ok (⟨s ++ tail, x.data⟩ : T α) s.length hlen (by simp)
    rw [this]
    simp only [List.take_left', List.drop_left', hs]
    cases x; simp_all

/- Full-strength statement for a split shape with an inferred `-1` (FALSE of the code on 0-element tensors):
   `split_leading_dim(x, sh)` succeeds whenever `sh` with its `-1` filled in multiplies to `shape[0]`, and
   merging gives `x` back.  `torch.reshape` cannot infer a `-1` for a 0-element tensor (RuntimeError) and cannot check an explicit shape
   against `shape[0]` when the trailing block is empty; hence `0 < prod (shape[1:])` below. -/

/-- split (possibly with one `-1`) then merge, non-empty trailing block: whenever the split succeeds it keeps the data,
    produces `s ++ shape[1:]` with `prod s = shape[0]`, and merging the `len(sh)` leading dimensions returns `x` itself. -/
theorem split_merge_id_infer_partial (x y : T α) (s0 : ℕ) (tail : List ℕ) (sh : List Int) (hx : x.shape = s0 :: tail)
    (hp : 0 < prodL tail) (hsh : sh ≠ []) (h : splitLeading x sh = .ok y) :
    y.data = x.data ∧ (∃ s : List ℕ, s.length = sh.length ∧ y.shape = s ++ tail ∧ prodL s = s0) ∧
      mergeLeading y (.int sh.length) = .ok x := by
  simp only [splitLeading, reshape, hx, List.drop_succ_cons, List.drop_zero] at h
  cases hinf : inferSize (T.numel x) (sh ++ tail.map Int.ofNat) with
  | error e => rw [hinf] at h; simp at h
  | ok s' =>
    rw [hinf] at h
    have hy : y = ⟨s', x.data⟩ := by injection h with h; exact h.symm
    obtain ⟨q, hs', hprod⟩ := inferSize_ok hinf
    rw [List.map_append, map_fillDim_ofNat] at hs'
    have hnum : x.numel = s0 * prodL tail := by simp [T.numel, hx, prodL]
    have hps : prodL (sh.map (fillDim q)) = s0 := by
      have : prodL (sh.map (fillDim q)) * prodL tail = s0 * prodL tail := by
        rw [← prodL_append, ← hs', hprod, hnum]
      exact Nat.eq_of_mul_eq_mul_right hp this
    have hlen : 0 < sh.length := List.length_pos_of_ne_nil hsh
    refine ⟨by rw [hy], ⟨sh.map (fillDim q), by simp, by rw [hy]; exact hs', hps⟩, ?_⟩
    have hm := merge_ok (⟨s', x.data⟩ : T α) sh.length hlen (by rw [hs']; simp)
    rw [hy, hm]
    have htake : s'.take sh.length = sh.map (fillDim q) := by rw [hs']; exact List.take_left' (by simp)
    have hdrop : s'.drop sh.length = tail := by rw [hs']; exact List.drop_left' (by simp)
    simp only [htake, hdrop, hps]
    cases x; simp_all

/-- witnesses for the forced hypothesis: on a `[6, 0]` tensor an inferred `-1` raises, and a wrong explicit split is accepted -/
theorem split_infer_empty_counterexample :
    splitLeading (⟨[6, 0], []⟩ : T Int) [-1, 3] = .error .runtime ∧
    splitLeading (⟨[6, 0], []⟩ : T Int) [2, 2] = .ok ⟨[2, 2, 0], []⟩ := by decide

/-- regression witnesses of the fixed finding G3: a `[2, 0]` tensor can be merged and have its rows repeated -/
theorem empty_trailing_ok :
    mergeLeading (⟨[2, 0], []⟩ : T Int) (.int 1) = .ok ⟨[2, 0], []⟩ ∧
    repeatRows (⟨[2, 0], []⟩ : T Int) (.int 3) = .ok ⟨[6, 0], []⟩ := by decide

/-- **what merging means for positions**: the element at multi-index `a ++ b` of a tensor of shape `s ++ t` is the element
    at multi-index `[flatIdx s a] ++ b` of the merged tensor of shape `[prod s] ++ t` (same row-major offset, and the data
    list is unchanged by `merge_split_id`). -/
theorem merged_index (s t a b : List ℕ) (h : a.length = s.length) :
    flatIdx (s ++ t) (a ++ b) = flatIdx (prodL s :: t) (flatIdx s a :: b) := by
  rw [flatIdx_append s t a b h]; simp [flatIdx]

theorem merge_error_contract (x : T α) (v : PyVal) :
    (isPositiveInt v = false → mergeLeading x v = .error .typeError) ∧
    (isPositiveInt v = true → natOf v > x.shape.length → mergeLeading x v = .error .valueError) := by
  constructor
  · intro h; simp [mergeLeading, h]
  · intro h h2; simp [mergeLeading, h, h2]

/-! ## sum_except_batch — "summing all but the batch dimensions preserves the batch", every `k ≥ 0` -/

/-- values for `k < ndim`: the first `k` dimensions are kept, entry `i` is the sum of block `i` -/
theorem sum_except_batch_reduce (x : T Int) (k : ℕ) (hk : k < x.shape.length) :
    sumExceptBatch x (.int k) =
      .ok ⟨x.shape.take k, (chunkRows (prodL (x.shape.take k)) (prodL (x.shape.drop k)) x.data).map List.sum⟩ := by
  have h1 : isNonnegInt (.int (k : Int)) = true := by simp [isNonnegInt, asInt]
  have hk' : natOf (.int (k : Int)) = k := by simp [natOf, asInt]
  have hne : (List.range' k (x.shape.length - k)).isEmpty = false := by
    cases hm : x.shape.length - k with
    | zero => omega
    | succ m => simp [List.range'_succ]
  simp [sumExceptBatch, h1, hk', hne]

/-- with `k ≥ ndim` every dimension is a batch dimension and `x` itself is returned (fixed finding G1) -/
theorem sum_except_batch_all_batch (x : T Int) (k : ℕ) (hk : x.shape.length ≤ k) :
    sumExceptBatch x (.int k) = .ok x := by
  have h1 : isNonnegInt (.int (k : Int)) = true := by simp [isNonnegInt, asInt]
  have hk' : natOf (.int (k : Int)) = k := by simp [natOf, asInt]
  have : x.shape.length - k = 0 := by omega
  simp [sumExceptBatch, h1, hk', this]

/-- **the batch is preserved, every `k`**: the result always has shape `shape[:k]` -/
theorem sum_except_batch_shape (x : T Int) (k : ℕ) :
    ∃ y, sumExceptBatch x (.int k) = .ok y ∧ y.shape = x.shape.take k := by
  by_cases hk : k < x.shape.length
  · exact ⟨_, sum_except_batch_reduce x k hk, rfl⟩
  · exact ⟨x, sum_except_batch_all_batch x k (by omega), (List.take_of_length_le (by omega)).symm⟩

/-- **values, every `k`**: batch entry `i` is the sum of its block (for `k ≥ ndim` the block is the entry itself) -/
theorem sum_except_batch_value (x : T Int) (k i : ℕ) (hi : i < prodL (x.shape.take k)) :
    ∃ y, sumExceptBatch x (.int k) = .ok y ∧
      (k < x.shape.length →
        y.data[i]? = some (((x.data.drop (i * prodL (x.shape.drop k))).take (prodL (x.shape.drop k))).sum)) ∧
      (x.shape.length ≤ k → y = x) := by
  by_cases hk : k < x.shape.length
  · refine ⟨_, sum_except_batch_reduce x k hk, fun _ => ?_, fun h => by omega⟩
    simp [List.getElem?_map, chunkRows_getElem? _ _ _ i hi]
  · exact ⟨x, sum_except_batch_all_batch x k (by omega), fun h => absurd h hk, fun _ => rfl⟩

/-- regression witness of the fixed finding G1: `sum_except_batch(tensor([0,1,2]), 1)` is `[0,1,2]`, not the scalar `3` -/
theorem sum_except_batch_keeps_batch_example :
    sumExceptBatch ⟨[3], [0, 1, 2]⟩ (.int 1) = .ok ⟨[3], [0, 1, 2]⟩ := by decide

theorem sum_except_batch_typeError (x : T Int) (v : PyVal) (h : isNonnegInt v = false) :
    sumExceptBatch x v = .error .typeError := by simp [sumExceptBatch, h]

/-! ## searchsorted -/

/-- the two-buffer program returns exactly the executable `searchsortedG` used by the spline models -/
theorem searchsorted_result_eq (o : XOps α) (eps : Float) (locs : List α) (x : α) :
    (searchsorted o eps locs x).result = searchsortedG o eps locs x := rfl

/-- **bin search**, for the executable `searchsortedG` at any linearly ordered scalar semantics: on strictly increasing
    knots `init ++ [l]` (`K = |init| > 0` bins), if the value written to the last edge exceeds `l`, then for
    `x ∈ [first, l]` the result is an index `i < K` with `knot i ≤ x` and (`x < knot (i+1)`, or `i` is the last bin and
    `x` is the closed right end). -/
theorem searchsorted_spec [LinearOrder α] (o : XOps α) (ho : OrderedX o) (eps : Float) (init : List α) (l x : α)
    (hs : (init ++ [l]).Pairwise (· < ·)) (hb : l < bumpedLast o eps l)
    (first : α) (hfirst : init.head? = some first) (hlo : first ≤ x) (hhi : x ≤ l) :
    ∃ i : ℕ, searchsortedG o eps (init ++ [l]) x = (i : Int) ∧ i < init.length ∧
      ∃ lo hi, (init ++ [l])[i]? = some lo ∧ (init ++ [l])[i + 1]? = some hi ∧ lo ≤ x ∧
        (x < hi ∨ (i + 1 = init.length ∧ x = l)) := by
  have hsi : init.Pairwise (· < ·) := (List.pairwise_append.mp hs).1
  obtain ⟨p1, p2⟩ := sorted_filter_prefix init hsi x
  set c := (init.filter (fun t => decide (t ≤ x))).length with hc
  have hcK : c ≤ init.length := List.length_filter_le _ _
  have hne : init ≠ [] := by intro h; simp [h] at hfirst
  have hc1 : 1 ≤ c := by
    by_contra hcon
    have h0 : c = 0 := by omega
    have h00 : init[0]? = some first := by
      cases init with
      | nil => simp at hfirst
      | cons a t => simpa using hfirst
    exact absurd (p2 0 first (by omega) h00) (not_lt.mpr hlo)
  -- the count computed by the code
  have hcount : searchsortedG o eps (init ++ [l]) x = (c : Int) - 1 := by
    have hxb : ¬ bumpedLast o eps l ≤ x := not_le.mpr (lt_of_le_of_lt hhi hb)
    simp only [searchsortedG, List.reverse_append, List.reverse_cons, List.reverse_nil, List.nil_append, List.singleton_append,
      List.reverse_reverse, XOps.ge, ho.le_iff, List.filter_append, List.length_append]
    have : bumpedLast o eps l = o.maxA (o.add l (o.ofFloat eps)) (o.nextUp l) := rfl
    rw [← this]
    simp [hxb, hc]
  refine ⟨c - 1, by rw [hcount]; omega, by omega, ?_⟩
  obtain ⟨lo, hlo1, hlo2⟩ := p1 (c - 1) (by omega)
  have hidx : c - 1 + 1 = c := by omega
  rw [hidx]
  by_cases hcl : c < init.length
  · obtain ⟨hi, hhi1⟩ : ∃ hi, init[c]? = some hi := ⟨init[c], by simp [hcl]⟩
    refine ⟨lo, hi, ?_, ?_, hlo2, Or.inl (p2 c hi le_rfl hhi1)⟩
    · rw [List.getElem?_append_left (by omega)]; exact hlo1
    · rw [List.getElem?_append_left hcl]; exact hhi1
  · have hceq : c = init.length := by omega
    refine ⟨lo, l, ?_, ?_, hlo2, ?_⟩
    · rw [List.getElem?_append_left (by omega)]; exact hlo1
    · rw [hceq]; simp
    · rcases lt_or_eq_of_le hhi with h | h
      · exact Or.inl h
      · exact Or.inr ⟨hceq, h⟩

theorem realX_ordered (emb : Float → ℝ) : OrderedX (realX emb) := ⟨fun _ _ => rfl, fun _ _ => rfl⟩

/-- over the reals the written last edge is `l + eps` (the `nextafter` branch never wins) -/
theorem bumpedLast_real (emb : Float → ℝ) (eps : Float) (heps : 0 < emb eps) (l : ℝ) :
    bumpedLast (realX emb) eps l = l + emb eps := by
  simp only [bumpedLast, RealX.maxA_eq, RealX.add_eq, RealX.ofFloat_eq, RealX.nextUp_eq]
  exact max_eq_left (by linarith)

/-- **bin search over ℝ** (the real twin of what the driver runs at `Float`/`Float32`): any `eps` with positive real value -/
theorem searchsorted_spec_real (emb : Float → ℝ) (eps : Float) (heps : 0 < emb eps) (init : List ℝ) (l x first : ℝ)
    (hs : (init ++ [l]).Pairwise (· < ·)) (hfirst : init.head? = some first) (hlo : first ≤ x) (hhi : x ≤ l) :
    ∃ i : ℕ, searchsortedG (realX emb) eps (init ++ [l]) x = (i : Int) ∧ i < init.length ∧
      ∃ lo hi, (init ++ [l])[i]? = some lo ∧ (init ++ [l])[i + 1]? = some hi ∧ lo ≤ x ∧
        (x < hi ∨ (i + 1 = init.length ∧ x = l)) :=
  searchsorted_spec (realX emb) (realX_ordered emb) eps init l x hs
    (by rw [bumpedLast_real emb eps heps]; linarith) first hfirst hlo hhi

/-- the `Finset` form of the same statement (used by the spline assembly of C09) -/
theorem binSearch_spec (xs : ℕ → ℝ) (K : ℕ) (eps x : ℝ) (hK : 0 < K) (heps : 0 < eps)
    (hx : ∀ k < K, xs k < xs (k+1)) (hlo : xs 0 ≤ x) (hhi : x ≤ xs K) :
    let i := Glue.binIdx xs K eps x
    i < K ∧ xs i ≤ x ∧ (x < xs (i+1) ∨ (i + 1 = K ∧ x = xs K)) :=
  Glue.binSearch_spec xs K eps x hK heps hx hlo hhi

/-- **searchsorted does not modify its argument**: in the two-buffer program of the current code (with `clone()`), the
    caller's `bin_locations` after the call is what it was before, for every input. -/
theorem searchsorted_pure (o : XOps α) (eps : Float) (locs : List α) (x : α) :
    (searchsorted o eps locs x).callerAfter = locs := rfl

/-- without the `clone()` (the code before commit 6ce8c16, finding F12) the caller's buffer IS changed whenever the written
    edge differs from the old one -/
theorem searchsorted_noclone_mutates (o : XOps α) (eps : Float) (init : List α) (l x : α) (h : bumpedLast o eps l ≠ l) :
    (searchsortedM o false eps (init ++ [l]) x).callerAfter ≠ init ++ [l] := by
  simp only [searchsortedM, List.reverse_append, List.reverse_cons, List.reverse_nil, List.nil_append, List.singleton_append,
    List.reverse_reverse, Bool.false_eq_true, if_false]
  intro hcon
  have := List.append_cancel_left hcon
  simp at this
  exact h this

theorem searchsorted_noclone_mutates_counterexample (emb : Float → ℝ) (eps : Float) (heps : 0 < emb eps) :
    (searchsortedM (realX emb) false eps [0, 1] 0).callerAfter ≠ [0, 1] := by
  have := searchsorted_noclone_mutates (realX emb) eps [0] 1 0 (by rw [bumpedLast_real emb eps heps]; linarith)
  simpa using this

/-! ## cbrt -/

/-- the executed formula `sign(x) * exp(log(abs(x)) / 3.0)` at the real semantics is `Utils.cbrt` -/
theorem cbrt_executed_eq (emb : Float → ℝ) (x : ℝ) : cbrtG (realX emb) x = Utils.cbrt x := by
  simp [cbrtG, Utils.cbrt, RealX.sign_eq]

/-- **cube root, all signs including 0** -/
theorem cbrt_cube (emb : Float → ℝ) (x : ℝ) : (cbrtG (realX emb) x) ^ 3 = x := by
  rw [cbrt_executed_eq]; exact Utils.cbrt_cube x

theorem cbrt_neg (emb : Float → ℝ) (x : ℝ) : cbrtG (realX emb) (-x) = - cbrtG (realX emb) x := by
  simp only [cbrt_executed_eq, Utils.cbrt, abs_neg, Left.sign_neg]
  push_cast
  ring

theorem cbrt_zero (emb : Float → ℝ) : cbrtG (realX emb) 0 = 0 := by
  simp [cbrt_executed_eq, Utils.cbrt]

/-! ## logabsdet (`slogdet` by specification) -/

/-- for every sign of the determinant, `exp (logabsdet M) = |det M|` (non-singular `M`) and negating a row/the matrix
    does not change it -/
theorem logabsdet_spec {n : ℕ} (M : Matrix (Fin n) (Fin n) ℝ) (h : M.det ≠ 0) :
    Real.exp (logabsdetR M) = |M.det| ∧ logabsdetR (-M) = logabsdetR M := by
  constructor
  · exact Real.exp_log (abs_pos.mpr h)
  · simp [logabsdetR, Matrix.det_neg, abs_mul, abs_pow]

/-- the exact integer determinant the driver computes (Laplace expansion) is `Matrix.det` for 1×1, 2×2 and 3×3 -/
theorem detL_small (a b c d e f g h i : Int) :
    detL 1 [[a]] = Matrix.det !![a] ∧
    detL 2 [[a, b], [c, d]] = Matrix.det !![a, b; c, d] ∧
    detL 3 [[a, b, c], [d, e, f], [g, h, i]] = Matrix.det !![a, b, c; d, e, f; g, h, i] := by
  refine ⟨?_, ?_, ?_⟩
  · simp [detL]
  · rw [Matrix.det_fin_two_of]; simp [detL, removeAt, List.range_succ]; ring
  · rw [Matrix.det_fin_three]; simp [detL, removeAt, List.range_succ]; ring

/-! ## masks -/

/-- **alternating mask, pattern**: entry `i` is 1 exactly on even positions (`even = True`) / odd positions (`False`) -/
theorem alternating_mask_spec (n : ℕ) (even : Bool) (i : ℕ) (hi : i < n) :
    (alternatingMask n even)[i]? = some (if (i % 2 == 0) == even then 1 else 0) := by
  simp only [alternatingMask, List.getElem?_map, List.getElem?_range hi, Option.map_some, Option.some.injEq]
  cases even
  · by_cases h : i % 2 = 0
    · have h2 : ¬ (1 ≤ i ∧ (i - 1) % 2 = 0) := by omega
      simp [h, h2]
    · have h2 : 1 ≤ i ∧ (i - 1) % 2 = 0 := by omega
      simp [h, h2]
  · by_cases h : i % 2 = 0 <;> simp [h]

theorem alternating_mask_length (n : ℕ) (even : Bool) : (alternatingMask n even).length = n := by simp [alternatingMask]

/-- **alternating mask, count**: `⌈n/2⌉` ones for `even = True`, `⌊n/2⌋` for `even = False` -/
theorem alternating_mask_count (n : ℕ) (even : Bool) :
    (alternatingMask n even).count 1 = if even then (n + 1) / 2 else n / 2 := by
  rw [List.count_eq_countP, alternatingMask, List.countP_map]
  cases even
  · have : (List.range n).countP ((fun b => b == 1) ∘ fun i => if (if false = true then 0 else 1) ≤ i && (i - (if false = true then 0 else 1)) % 2 == 0 then 1 else 0)
        = (List.range n).countP (fun i => decide (i % 2 = 1)) := by
      apply List.countP_congr; intro i _
      by_cases h : i % 2 = 1
      · have h2 : 1 ≤ i ∧ (i - 1) % 2 = 0 := by omega
        simp [h, h2]
      · have h2 : ¬ (1 ≤ i ∧ (i - 1) % 2 = 0) := by omega
        simp [h, h2]
    rw [this, countP_range_mod2 n 1 (by omega)]; simp
  · have : (List.range n).countP ((fun b => b == 1) ∘ fun i => if (if true = true then 0 else 1) ≤ i && (i - (if true = true then 0 else 1)) % 2 == 0 then 1 else 0)
        = (List.range n).countP (fun i => decide (i % 2 = 0)) := by
      apply List.countP_congr; intro i _
      by_cases h : i % 2 = 0 <;> simp [h]
    rw [this, countP_range_mod2 n 0 (by omega)]; simp

/-- **mid-split mask, pattern**: exactly the first `⌈n/2⌉` entries are 1 -/
theorem mid_split_spec (n i : ℕ) (hi : i < n) :
    (midSplitMask n)[i]? = some (if i < (n + 1) / 2 then 1 else 0) := by
  simp [midSplitMask, List.getElem?_map, List.getElem?_range hi, midpoint_eq]

theorem mid_split_count (n : ℕ) : (midSplitMask n).count 1 = (n + 1) / 2 := by
  rw [List.count_eq_countP, midSplitMask, List.countP_map, midpoint_eq]
  have : (List.range n).countP ((fun b => b == 1) ∘ fun i => if i < (n + 1) / 2 then 1 else 0)
      = (List.range n).countP (fun i => decide (i < (n + 1) / 2)) := by
    apply List.countP_congr; intro i _
    by_cases h : i < (n + 1) / 2 <;> simp [h]
  rw [this, countP_range_lt]; omega

/-- the Bool-list model of the design appendix has the same count -/
theorem mid_split_count_bool (n : ℕ) : (Utils.midSplitMask n).count true = (n + 1) / 2 := Utils.midSplit_count n

/-- **random mask, every draw**: if the drawn indices are distinct and in range (what `torch.multinomial(…,
    replacement=False)` returns) and there are `⌈n/2⌉` of them (`num_samples`, :126), the mask has entries in `{0,1}`
    and exactly `⌈n/2⌉` ones. -/
theorem random_mask_count (n : ℕ) (idxs : List ℕ) (hnd : idxs.Nodup) (hrange : ∀ i ∈ idxs, i < n)
    (hlen : idxs.length = midpoint n) :
    (randomMaskOf n idxs).count 1 = (n + 1) / 2 ∧ (randomMaskOf n idxs).length = n ∧
      ∀ v ∈ randomMaskOf n idxs, v = 0 ∨ v = 1 := by
  refine ⟨?_, by simp [randomMaskOf], ?_⟩
  · rw [← midpoint_eq, ← hlen, List.count_eq_countP, randomMaskOf, List.countP_map]
    have hcongr : (List.range n).countP ((fun b => b == 1) ∘ fun i => if idxs.contains i then 1 else 0)
        = (List.range n).countP (fun i => decide (i ∈ idxs)) := by
      apply List.countP_congr; intro i _
      by_cases h : i ∈ idxs <;> simp [h]
    rw [hcongr, List.countP_eq_length_filter]
    apply List.Perm.length_eq
    rw [List.perm_ext_iff_of_nodup (List.Nodup.filter _ List.nodup_range) hnd]
    intro a
    simp only [List.mem_filter, List.mem_range, decide_eq_true_eq]
    exact ⟨fun h => h.2, fun h => ⟨hrange a h, h⟩⟩
  · intro v hv
    simp only [randomMaskOf, List.mem_map] at hv
    obtain ⟨i, _, rfl⟩ := hv
    split <;> simp

/-! ## get_temperature -/

/-- **temperature**: for `0 < bound < 1`, `max_value ≠ 0` the executed formula gives `t` with `σ(t·max_value) = bound`;
    the builtin `min(t, 1)` returns the tensor `t` when `t ≤ 1` and the int `1` when `1 < t`. -/
theorem temperature_spec (emb : Float → ℝ) (m b : ℝ) (hm : m ≠ 0) (hb0 : 0 < b) (hb1 : b < 1) :
    let r := getTemperature (realX emb) m b
    let t := -(1 / m) * (Real.log (1 - b) - Real.log b)
    (realX emb).sigmoid (t * m) = b ∧
    (t ≤ 1 → r = (true, t)) ∧ (1 < t → r = (false, 1)) := by
  intro r t
  have hlog1p : (realX emb).log1p (-b) = Real.log (1 - b) := by rw [RealX.log1p_eq]; ring_nf
  have hr : r = if 1 < t then (false, 1) else (true, t) := by
    simp only [r, t, getTemperature, hlog1p, RealX.mul_eq, RealX.neg_eq, RealX.div_eq, RealX.one_eq, RealX.sub_eq, RealX.log_eq,
      RealX.lt_eq, decide_eq_true_eq]
  refine ⟨?_, ?_, ?_⟩
  · rw [RealX.sigmoid_eq]
    have htm : t * m = Real.log b - Real.log (1 - b) := by simp only [t]; field_simp; ring
    have h1b : 0 < 1 - b := by linarith
    rw [htm, neg_sub, Real.exp_sub, Real.exp_log h1b, Real.exp_log hb0]
    field_simp; ring
  · intro h; rw [hr, if_neg (not_lt.mpr h)]
  · intro h; rw [hr, if_pos h]

/-! ## type predicates on Python values -/

/-- **`is_power_of_two`, all ints** (not a table): `not n & (n - 1)` on positive ints is "n is a power of two" -/
theorem is_power_of_two_iff (n : Int) : isPowerOfTwo (.int n) = true ↔ ∃ k : ℕ, n = 2 ^ k := by
  simp only [isPowerOfTwo, asInt]
  by_cases hn : 0 < n
  · have hne : n.toNat ≠ 0 := by omega
    simp only [hn, if_true, beq_iff_eq]
    rw [Nat.and_sub_one_eq_zero_iff_isPowerOfTwo hne]
    constructor
    · rintro ⟨k, hk⟩
      refine ⟨k, ?_⟩
      have : (n.toNat : Int) = n := Int.toNat_of_nonneg hn.le
      rw [← this, hk]; push_cast; rfl
    · rintro ⟨k, hk⟩
      exact ⟨k, by rw [hk]; exact Int.toNat_pow_of_nonneg (by norm_num) k |>.trans (by simp)⟩
  · simp only [hn, if_false, Bool.false_eq_true, false_iff, not_exists]
    intro k hk
    have : (0 : Int) < 2 ^ k := by positivity
    omega

/-- **truth tables** of the predicates on every kind of Python value: `bool ⊂ int` (`True` is the positive int 1 and a
    power of two, `False` is the non-negative int 0), floats / `None` / strings / other objects are never ints, sign cases -/
theorem predicates_table (n : Int) (b : Bool) :
    (isBool (.bool b) = true ∧ isBool (.int n) = false ∧ isBool .float = false ∧ isBool .none = false ∧ isBool .str = false) ∧
    (isInt (.int n) = true ∧ isInt (.bool b) = true ∧ isInt .float = false ∧ isInt .none = false ∧ isInt .str = false ∧ isInt .other = false) ∧
    (isPositiveInt (.int n) = decide (0 < n) ∧ isPositiveInt (.bool b) = b ∧ isPositiveInt .float = false ∧
      isPositiveInt .none = false ∧ isPositiveInt .str = false ∧ isPositiveInt .other = false) ∧
    (isNonnegInt (.int n) = decide (0 ≤ n) ∧ isNonnegInt (.bool b) = true ∧ isNonnegInt .float = false ∧
      isNonnegInt .none = false ∧ isNonnegInt .str = false ∧ isNonnegInt .other = false) ∧
    (isPowerOfTwo (.bool b) = b ∧ isPowerOfTwo (.int 0) = false ∧ (n < 0 → isPowerOfTwo (.int n) = false) ∧
      isPowerOfTwo .float = false ∧ isPowerOfTwo .none = false ∧ isPowerOfTwo .str = false ∧ isPowerOfTwo .other = false) := by
  refine ⟨⟨rfl, rfl, rfl, rfl, rfl⟩, ⟨rfl, rfl, rfl, rfl, rfl, rfl⟩, ⟨rfl, ?_, rfl, rfl, rfl, rfl⟩, ⟨rfl, ?_, rfl, rfl, rfl, rfl⟩,
    ⟨?_, rfl, ?_, rfl, rfl, rfl, rfl⟩⟩
  · cases b <;> simp [isPositiveInt, asInt]
  · cases b <;> simp [isNonnegInt, asInt]
  · cases b <;> simp [isPowerOfTwo, asInt]
  · intro h; simp [isPowerOfTwo, asInt, not_lt.mpr h.le]

/-- consistency of the predicates with each other, every value -/
theorem predicates_consistent (v : PyVal) :
    (isBool v = true → isInt v = true) ∧ (isPositiveInt v = true → isNonnegInt v = true ∧ isInt v = true) ∧
    (isPowerOfTwo v = true → isPositiveInt v = true) := by
  cases v <;> simp [isBool, isInt, isPositiveInt, isNonnegInt, isPowerOfTwo, asInt] <;> try omega

/-! ## non-vacuity: the hypotheses are satisfiable by non-trivial data, and the executable definitions compute -/

example : tile ⟨[2, 3], [0, 1, 2, 3, 4, 5]⟩ (.int 2) = .ok ⟨[12], [0, 0, 1, 1, 2, 2, 3, 3, 4, 4, 5, 5]⟩ := by decide
example : repeatRows ⟨[2, 3], [0, 1, 2, 3, 4, 5]⟩ (.int 2) = .ok ⟨[4, 3], [0, 1, 2, 0, 1, 2, 3, 4, 5, 3, 4, 5]⟩ := by decide
example : mergeLeading ⟨[2, 3, 2], List.range 12⟩ (.int 2) = .ok ⟨[6, 2], List.range 12⟩ := by decide
example : splitLeading ⟨[6, 2], List.range 12⟩ [-1, 3] = .ok ⟨[2, 3, 2], List.range 12⟩ := by decide
example : sumExceptBatch ⟨[2, 3], [0, 1, 2, 3, 4, 5]⟩ (.int 1) = .ok ⟨[2], [3, 12]⟩ := by decide
example : ([0, 1, 3] ++ [(7 : ℝ)]).Pairwise (· < ·) := by simp; norm_num
example : alternatingMask 5 true = [1, 0, 1, 0, 1] ∧ midSplitMask 5 = [1, 1, 1, 0, 0] ∧ randomMaskOf 5 [4, 0, 2] = [1, 0, 1, 0, 1] := by decide
example : [4, 0, 2].Nodup ∧ (∀ i ∈ [4, 0, 2], i < 5) ∧ [4, 0, 2].length = midpoint 5 := by decide
example : ∃ m b : ℝ, m ≠ 0 ∧ 0 < b ∧ b < 1 := ⟨100, 0.999, by norm_num, by norm_num, by norm_num⟩

end Properties.C20
