import NflowsModel.Real.NormReal
import NflowsModel.Core.ActNormMachine
/-!
# C14 — normalisation layers follow their documented life-cycle over every history

Property theorems only.  `actStep` / `bnStep` (`Core/Norm.lean`) are the *code* machines the driver executes at IEEE
binary64 (`floatX`); every theorem below that is stated for an arbitrary `o : XOps α` therefore holds, in
particular, of exactly what is run against the implementation.  Theorems that need real arithmetic are stated at
`NormReal.realX`, the same definitions evaluated over ℝ.  Histories are arbitrary lists over
`{train, eval, fwd batch, inv batch, saveLoadFresh}`: no bound on their length, on batch sizes or feature counts.
-/
open NF NF.Norm NormReal

namespace Properties.C14
variable {α : Type}

/-! ## ActNorm -/

/-- **Refinement, every history.**  From any not-yet-initialised state (any mode, any parameter values) the code
    machine returns, step by step, exactly what the documented-behaviour machine returns (outputs, log-abs-dets,
    error kinds), and ends in the corresponding state: same mode, `initialized` ⇔ the spec has recorded its one
    initialising batch, parameters = those derived from that batch, ghost counter = 0 or 1 accordingly. -/
theorem actnorm_refines (o : XOps α) (F : Nat) (s : ActSt α) (hi : s.initialized = false) (h0 : s.initCount = 0)
    (hist : List (NOp α)) :
    (runM (actStep o F) s hist).2 = (runM (actSpecStep o F) s.toSpec hist).2 ∧
    (runM (actStep o F) s hist).1.training = (runM (actSpecStep o F) s.toSpec hist).1.training ∧
    (runM (actStep o F) s hist).1.initialized = (runM (actSpecStep o F) s.toSpec hist).1.init.isSome ∧
    (runM (actStep o F) s hist).1.logScale = ((runM (actSpecStep o F) s.toSpec hist).1.params o F).1 ∧
    (runM (actStep o F) s hist).1.shift = ((runM (actSpecStep o F) s.toSpec hist).1.params o F).2 ∧
    (runM (actStep o F) s hist).1.initCount = (if (runM (actSpecStep o F) s.toSpec hist).1.init.isSome then 1 else 0) := by
  have hr : actRel o F s s.toSpec := ⟨rfl, by simp [ActSt.toSpec, hi], rfl, rfl, by simp [ActSt.toSpec, h0]⟩
  obtain ⟨⟨a, b, c, d, e⟩, f⟩ := runM_refines (actStep o F) (actSpecStep o F) (actRel o F) (actRel_step o F) hist s s.toSpec hr
  exact ⟨f, a, b, c, d, e⟩

/-- the spec machine never overwrites its initialising batch: once recorded it stays, over every history -/
theorem spec_init_never_overwritten (o : XOps α) (F : Nat) (sp : ActSpec α) (b : Batch α) (hb : sp.init = some b)
    (hist : List (NOp α)) : (runM (actSpecStep o F) sp hist).1.init = some b := by
  induction hist generalizing sp with
  | nil => exact hb
  | cons op ops ih =>
    apply ih
    cases op with
    | train => exact hb
    | eval => exact hb
    | saveLoadFresh => exact hb
    | inv b' => simp only [actSpecStep]; split <;> exact hb
    | fwd b' =>
      simp only [actSpecStep]
      split
      · exact hb
      · simp only [hb]

/-- **Everything is decided by the first accepted training-mode forward batch.**  If the history contains none,
    the layer is still uninitialised with its original parameters; otherwise it is initialised, its parameters are
    `_initialize` of exactly that batch, and the initialisation ran exactly once — whatever mode switches, evaluation
    calls, inverses, rejected calls and save/reloads surround it. -/
theorem state_determined_by_first_training_fwd (o : XOps α) (F : Nat) (s : ActSt α) (hi : s.initialized = false)
    (hist : List (NOp α)) :
    match firstTrainFwd s.training hist with
    | none => (runM (actStep o F) s hist).1.initialized = false ∧ (runM (actStep o F) s hist).1.logScale = s.logScale ∧
        (runM (actStep o F) s hist).1.shift = s.shift ∧ (runM (actStep o F) s hist).1.initCount = s.initCount
    | some b => (runM (actStep o F) s hist).1.initialized = true ∧ (runM (actStep o F) s hist).1.logScale = (actInit o F b).1 ∧
        (runM (actStep o F) s hist).1.shift = (actInit o F b).2 ∧ (runM (actStep o F) s hist).1.initCount = s.initCount + 1 :=
  actRun_firstTrainFwd o F hist s hi

/-- **At most once**, over every history of the executable code machine. -/
theorem init_at_most_once (o : XOps α) (F : Nat) (s : ActSt α) (hi : s.initialized = false) (h0 : s.initCount = 0)
    (hist : List (NOp α)) : (runM (actStep o F) s hist).1.initCount ≤ 1 := by
  have h := actRun_firstTrainFwd o F hist s hi
  cases hf : firstTrainFwd s.training hist with
  | none => rw [hf] at h; rw [h.2.2.2, h0]; exact Nat.zero_le 1
  | some b => rw [hf] at h; rw [h.2.2.2, h0]

/-- the same fact for the abstract machine of `Core/ActNormMachine` (any `Batch`/`Params`/`init` function) -/
theorem init_at_most_once_abstract {Batch Params : Type} (initF : Batch → Params) (p0 : Params)
    (ops : List (ActNormMachine.Op Batch)) :
    (ops.foldl (ActNormMachine.stepCode initF) ⟨true, false, p0, 0⟩).initCount ≤ 1 :=
  ActNormMachine.init_at_most_once initF p0 ops

/-- **The executable machine is an instance of the abstract life-cycle machine** of `Core/ActNormMachine`
    (`Params := (log_scale, shift)`, `init := _initialize`): forgetting outputs, every step of the code machine is a
    step of `ActNormMachine.stepCode` (a rejected forward acts on the state like an inverse: not at all); hence the
    abstract refinement `ActNormMachine.refine_run` and `init_at_most_once_abstract` apply to what the driver runs. -/
theorem code_machine_abstracts (o : XOps α) (F : Nat) (s : ActSt α) (hist : List (NOp α)) :
    absSt (runM (actStep o F) s hist).1 = (hist.map absOp).foldl (ActNormMachine.stepCode (actInit o F)) (absSt s) := by
  induction hist generalizing s with
  | nil => rfl
  | cons op ops ih => simp only [runM, List.map_cons, List.foldl_cons, ih, actStep_abstracts]

/-- the abstract code machine refines the abstract spec machine over every history (`Core/ActNormMachine`) -/
theorem abstract_refines {Batch Params : Type} (initF : Batch → Params) (ops : List (ActNormMachine.Op Batch))
    (c : ActNormMachine.St Params) (s : ActNormMachine.Spec Params) (h : ActNormMachine.rel c s) :
    ActNormMachine.rel (ops.foldl (ActNormMachine.stepCode initF) c) (ops.foldl (ActNormMachine.stepSpec initF) s) :=
  ActNormMachine.refine_run initF ops c s h

/-- **Exactly at the first training-mode forward pass.**  Split any history as `pre ++ fwd b :: post` where `pre`
    contains no accepted training-mode forward, the layer is in training mode after `pre`, and `b` is 2-D or 4-D:
    before the call nothing has been initialised; after it — and after ANY continuation `post` — the layer is
    initialised with the parameters computed from `b`, and the initialisation has run exactly once. -/
theorem init_exactly_at_first_training_fwd (o : XOps α) (F : Nat) (s : ActSt α) (hi : s.initialized = false)
    (pre post : List (NOp α)) (b : Batch α) (hpre : firstTrainFwd s.training pre = none)
    (hmode : (runM (actStep o F) s pre).1.training = true) (hb : b.valid24 = true) :
    (runM (actStep o F) s pre).1.initialized = false ∧
    (runM (actStep o F) s pre).1.initCount = s.initCount ∧
    (runM (actStep o F) s (pre ++ .fwd b :: post)).1.initialized = true ∧
    (runM (actStep o F) s (pre ++ .fwd b :: post)).1.logScale = (actInit o F b).1 ∧
    (runM (actStep o F) s (pre ++ .fwd b :: post)).1.shift = (actInit o F b).2 ∧
    (runM (actStep o F) s (pre ++ .fwd b :: post)).1.initCount = s.initCount + 1 := by
  have h := actRun_firstTrainFwd o F pre s hi
  rw [hpre] at h
  obtain ⟨h1, _, _, h4⟩ := h
  refine ⟨h1, h4, ?_⟩
  rw [runM_append]
  generalize (runM (actStep o F) s pre).1 = q at hmode h1 h4
  have hs : (actStep o F q (.fwd b)).1 =
      { q with initialized := true, logScale := (actInit o F b).1, shift := (actInit o F b).2,
               initCount := q.initCount + 1 } := by
    simp [actStep, hb, hmode, h1]
  simp only [runM, hs]
  have hf := actRun_frozen o F post
    { q with initialized := true, logScale := (actInit o F b).1, shift := (actInit o F b).2,
             initCount := q.initCount + 1 } rfl
  exact ⟨hf.1, hf.2.1, hf.2.2.1, by rw [hf.2.2.2, h4]⟩

/-- **Never in evaluation mode**: an evaluation-mode forward pass leaves the whole state (flag, parameters, counter)
    unchanged, initialised or not. -/
theorem no_init_in_eval (o : XOps α) (F : Nat) (s : ActSt α) (b : Batch α) (he : s.training = false) :
    (actStep o F s (.fwd b)).1 = s := by
  simp only [actStep]
  split
  · rfl
  · simp [he]

/-- **Never by `inverse`**, in either mode. -/
theorem no_init_by_inverse (o : XOps α) (F : Nat) (s : ActSt α) (b : Batch α) : (actStep o F s (.inv b)).1 = s := by
  simp only [actStep]; split <;> rfl

/-- **Save + load into a fresh instance carries flag and parameters** (the fresh instance is in training mode). -/
theorem reload_carries_state (o : XOps α) (F : Nat) (s : ActSt α) :
    (actStep o F s .saveLoadFresh).1 = { s with training := true } := rfl

/-- **Never again after a reload** (or after anything else): once initialised, reload into a fresh — training-mode —
    instance followed by ANY history leaves flag, parameters and the initialisation counter as they were. -/
theorem no_reinit_after_reload (o : XOps α) (F : Nat) (s : ActSt α) (hi : s.initialized = true) (hist : List (NOp α)) :
    (runM (actStep o F) s (.saveLoadFresh :: hist)).1.initialized = true ∧
    (runM (actStep o F) s (.saveLoadFresh :: hist)).1.logScale = s.logScale ∧
    (runM (actStep o F) s (.saveLoadFresh :: hist)).1.shift = s.shift ∧
    (runM (actStep o F) s (.saveLoadFresh :: hist)).1.initCount = s.initCount :=
  actRun_frozen o F (.saveLoadFresh :: hist) s hi

/-- **The data-dependent initialisation normalises** (real arithmetic, `Finset` form, any batch size `B ≥ 2`):
    with `log_scale = -log std`, `shift = -mean(x/std)` (unbiased `std`), the output `exp(log_scale)·x + shift` of a
    non-constant feature has mean 0 and unbiased variance 1. -/
theorem actnorm_init_normalises {B : ℕ} (x : Fin B → ℝ) (hB : 2 ≤ B) (hv : 0 < ActNormInit.varU x) :
    ActNormInit.mean (ActNormInit.actnormInitOut x) = 0 ∧ ActNormInit.varU (ActNormInit.actnormInitOut x) = 1 :=
  ActNormInit.actnorm_init_normalises x hB hv

/-- **… as executed.**  For the code machine over ℝ: a forward pass in training mode on a not-yet-initialised layer,
    with a 2-D or 4-D batch, returns outputs whose feature / channel `j` (4-D: over `B·H·W`) has mean 0 and unbiased
    variance 1, for every `j < features` whose input values are at least two and not all equal (`0 < var`).
    (For `B·H·W = 1` or a constant feature the statement is false of the code: `std` is NaN / 0.) -/
theorem actnorm_first_training_fwd_normalises (F : ℕ) (s : ActSt ℝ) (b : Batch ℝ) (ht : s.training = true)
    (hi : s.initialized = false) (hb : b.valid24 = true) (j : ℕ) (hj : j < F)
    (hB : 2 ≤ (b.col realX j).length) (hv : 0 < varUL realX (b.col realX j)) :
    ∃ out ld, (actStep realX F s (.fwd b)).2 = some (.ok (out, ld)) ∧
      (actStep realX F s (.fwd b)).1.initialized = true ∧
      meanL realX (out.col realX j) = 0 ∧ varUL realX (out.col realX j) = 1 := by
  refine ⟨actApply realX F (actInit realX F b).1 (actInit realX F b).2 b, actLogdet realX (actInit realX F b).1 b false, ?_, ?_, ?_⟩
  · simp [actStep, hb, ht, hi]
  · simp [actStep, hb, ht, hi]
  · have hc : (actApply realX F (actInit realX F b).1 (actInit realX F b).2 b).col realX j =
        (b.col realX j).map (fun x => realX.add (realX.mul (realX.exp (actInitCol realX (b.col realX j)).1) x)
          (actInitCol realX (b.col realX j)).2) := by
      rw [actApply, col_mapCh realX F _ b hj]
      simp only [actInit, getD_map_range _ _ hj]
    rw [hc]
    exact actInitCol_normalises (b.col realX j) hB hv

/-! ## BatchNorm -/

/-- **Refinement, every history.**  The code machine returns step by step what the documented-behaviour machine
    returns, and its running statistics are the spec's — i.e. the momentum rule folded over the list of batches the
    spec has recorded as training-mode forward batches. -/
theorem batchnorm_refines (o : XOps α) (cfg : BNCfg α) (F : Nat) (s : BNSt α) (h0 : s.updates = 0) (hist : List (NOp α)) :
    (runM (bnStep o cfg F) s hist).2 = (runM (bnSpecStep o cfg F) s.toSpec hist).2 ∧
    (runM (bnStep o cfg F) s hist).1.training = (runM (bnSpecStep o cfg F) s.toSpec hist).1.training ∧
    (runM (bnStep o cfg F) s hist).1.runMean = (runM (bnSpecStep o cfg F) s.toSpec hist).1.runMean o cfg F ∧
    (runM (bnStep o cfg F) s hist).1.runVar = (runM (bnSpecStep o cfg F) s.toSpec hist).1.runVar o cfg F ∧
    (runM (bnStep o cfg F) s hist).1.uweight = (runM (bnSpecStep o cfg F) s.toSpec hist).1.uweight ∧
    (runM (bnStep o cfg F) s hist).1.bias = (runM (bnSpecStep o cfg F) s.toSpec hist).1.bias ∧
    (runM (bnStep o cfg F) s hist).1.updates = (runM (bnSpecStep o cfg F) s.toSpec hist).1.seen.length := by
  have hr : bnRel o cfg F s s.toSpec := ⟨rfl, rfl, rfl, rfl, rfl, by simp [BNSt.toSpec, h0]⟩
  obtain ⟨⟨a, b, c, d, e, f⟩, g⟩ :=
    runM_refines (bnStep o cfg F) (bnSpecStep o cfg F) (bnRel o cfg F) (bnRel_step o cfg F) hist s s.toSpec hr
  exact ⟨g, a, b, c, d, e, f⟩

/-- **Running statistics = the momentum rule over exactly the training-mode forward batches, in order** (any scalar
    semantics, so also bit-for-bit in binary64): nothing else in a history — evaluation-mode forwards, inverses,
    rejected calls, mode switches, reloads — contributes. -/
theorem running_is_fold (o : XOps α) (cfg : BNCfg α) (F : Nat) (s : BNSt α) (hist : List (NOp α)) :
    (runM (bnStep o cfg F) s hist).1.runMean =
      (trainBatches s.training hist).foldl (fun r rows => emaVec o cfg.momentum F r (colMeans o F rows)) s.runMean ∧
    (runM (bnStep o cfg F) s hist).1.runVar =
      (trainBatches s.training hist).foldl (fun r rows => emaVec o cfg.momentum F r (colVars o F rows)) s.runVar ∧
    (runM (bnStep o cfg F) s hist).1.updates = s.updates + (trainBatches s.training hist).length :=
  bnRun_fold o cfg F hist s

/-- **Closed form** `r_N = (1-m)^N r_0 + Σ_{i<N} m (1-m)^{N-1-i} s_i` where `s_0 … s_{N-1}` are the batch means
    (resp. unbiased batch variances) of exactly the training-mode forward batches of the history, in order. -/
theorem running_closed_form (cfg : BNCfg ℝ) (F : ℕ) (s : BNSt ℝ) (hist : List (NOp ℝ)) (j : ℕ) (hj : j < F) :
    let tb := trainBatches s.training hist
    let m := cfg.momentum
    (runM (bnStep realX cfg F) s hist).1.runMean.getD j 0 =
      (1 - m) ^ tb.length * s.runMean.getD j 0 +
        ∑ i ∈ Finset.range tb.length, m * (1 - m) ^ (tb.length - 1 - i) * meanL realX ((Batch.d2 (tb.getD i [])).col realX j) ∧
    (runM (bnStep realX cfg F) s hist).1.runVar.getD j 0 =
      (1 - m) ^ tb.length * s.runVar.getD j 0 +
        ∑ i ∈ Finset.range tb.length, m * (1 - m) ^ (tb.length - 1 - i) * varUL realX ((Batch.d2 (tb.getD i [])).col realX j) := by
  intro tb m
  obtain ⟨h1, h2, _⟩ := bnRun_fold realX cfg F hist s
  constructor
  · rw [h1, foldl_emaVec_closed m F (colMeans realX F) _ _ hj]
    congr 1
    apply Finset.sum_congr rfl
    intro i _
    have := colMeans_getD realX F (tb.getD i []) hj
    simp only [realX_zero] at this
    rw [this]
  · rw [h2, foldl_emaVec_closed m F (colVars realX F) _ _ hj]
    congr 1
    apply Finset.sum_congr rfl
    intro i _
    have := colVars_getD realX F (tb.getD i []) hj
    simp only [realX_zero] at this
    rw [this]

/-- **Evaluation mode uses the running statistics** (outputs and log-abs-det), and leaves the state alone. -/
theorem eval_uses_running (o : XOps α) (cfg : BNCfg α) (F : Nat) (s : BNSt α) (rows : List (List α))
    (he : s.training = false) :
    bnStep o cfg F s (.fwd (.d2 rows)) =
      (s, some (.ok (.d2 (bnNormalise o cfg F s.runMean s.runVar s.uweight s.bias rows),
                     bnLogdet o cfg F s.runVar s.uweight rows.length false))) := by
  simp [bnStep, he]

/-- **Training mode uses the batch statistics** — batch mean and, as coded, the UNBIASED batch variance — and moves
    both running statistics by one application of the momentum rule. -/
theorem train_uses_batch_stats (o : XOps α) (cfg : BNCfg α) (F : Nat) (s : BNSt α) (rows : List (List α))
    (ht : s.training = true) :
    bnStep o cfg F s (.fwd (.d2 rows)) =
      ({ s with runMean := emaVec o cfg.momentum F s.runMean (colMeans o F rows),
                runVar := emaVec o cfg.momentum F s.runVar (colVars o F rows),
                updates := s.updates + 1 },
       some (.ok (.d2 (bnNormalise o cfg F (colMeans o F rows) (colVars o F rows) s.uweight s.bias rows),
                  bnLogdet o cfg F (colVars o F rows) s.uweight rows.length false))) := by
  simp [bnStep, ht]

/-- one application of the momentum rule over ℝ: `r ← (1 - m) r + m s`, per feature -/
theorem momentum_rule (m : ℝ) (F : ℕ) (r st : List ℝ) (j : ℕ) (hj : j < F) :
    (emaVec realX m F r st).getD j 0 = (1 - m) * r.getD j 0 + m * st.getD j 0 := by
  have := emaVec_getD realX m F r st hj
  simp only [realX_zero] at this
  rw [this, ema_real]; ring

/-- **Evaluation-mode forward and every inverse leave the state untouched** (running statistics, parameters, mode);
    so does every rejected call. -/
theorem eval_and_inverse_leave_state (o : XOps α) (cfg : BNCfg α) (F : Nat) (s : BNSt α) (b : Batch α) :
    (s.training = false → (bnStep o cfg F s (.fwd b)).1 = s) ∧ (bnStep o cfg F s (.inv b)).1 = s := by
  constructor
  · intro he
    cases b <;> simp [bnStep, he]
  · simp only [bnStep]
    split
    · rfl
    · split <;> rfl

/-- **The inverse is refused in training mode** (before the input is even looked at), and is available in
    evaluation mode for every 2-D input. -/
theorem inverse_refused_in_training (o : XOps α) (cfg : BNCfg α) (F : Nat) (s : BNSt α) (b : Batch α) :
    (s.training = true → bnStep o cfg F s (.inv b) = (s, some (.error .inverseNotAvailable))) ∧
    (s.training = false → ∀ rows, b = .d2 rows →
      bnStep o cfg F s (.inv b) =
        (s, some (.ok (.d2 (bnDenormalise o cfg F s.runMean s.runVar s.uweight s.bias rows),
                       bnLogdet o cfg F s.runVar s.uweight rows.length true)))) := by
  constructor
  · intro ht; simp [bnStep, ht]
  · intro he rows hb; subst hb; simp [bnStep, he]

/-- only 2-D inputs are accepted by `forward` (any mode), with the state unchanged -/
theorem forward_rejects_non_2d (o : XOps α) (cfg : BNCfg α) (F : Nat) (s : BNSt α) (b : Batch α) (hb : b.isD2 = false) :
    bnStep o cfg F s (.fwd b) = (s, some (.error .valueError)) := by
  cases b with
  | d2 rows => simp [Batch.isD2] at hb
  | d4 h w imgs => rfl
  | bad d => rfl

/-! ## non-vacuity: the hypotheses are satisfiable by concrete, non-trivial data -/

/-- a history in which the first accepted training-mode forward is its fifth operation -/
example : firstTrainFwd (α := ℝ) true
    [.eval, .fwd (.d2 [[1], [3]]), .inv (.d2 [[0]]), .train, .fwd (.bad 3), .fwd (.d2 [[2], [5]]), .fwd (.d2 [[7], [7]])]
    = some (.d2 [[2], [5]]) := rfl

/-- a batch column satisfying the hypotheses of `actnorm_first_training_fwd_normalises` (two values, variance 2) -/
example : 2 ≤ ((Batch.d2 [[1], [3]]).col realX 0).length ∧ 0 < varUL realX ((Batch.d2 [[(1:ℝ)], [3]]).col realX 0) := by
  constructor
  · simp [Batch.col]
  · simp only [Batch.col, List.map, List.getD_cons_zero, varUL_real]
    norm_num

/-- the training-mode batches of a mixed history are exactly the two forwarded in training mode -/
example : trainBatches (α := ℝ) true
    [.fwd (.d2 [[1], [3]]), .eval, .fwd (.d2 [[9], [9]]), .inv (.d2 [[0]]), .saveLoadFresh, .fwd (.d4 1 1 []), .fwd (.d2 [[2], [4]])]
    = [[[1], [3]], [[2], [4]]] := rfl

end Properties.C14
