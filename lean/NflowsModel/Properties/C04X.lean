import NflowsModel.Properties.C04
import NflowsModel.Lemmas.FlowRowsExec
/-!
# C04 (continued) — the pairing theorem on the executed passes

`Lemmas/FlowRowsExec.lean`: `flowSalpExec` models flows/base.py:77-106 on the merged `[R·n, w]` noise with the executed row-wise inverse
pass: sample `[i, j]` is the inverse pass run alone on noise row `[i, j]` under the embedded context row `i`, its returned log-prob is
`base(noise[i, j] | context i) − logabsdet`, and under the round-trip law of the stage (`RoundTripStage`, a hypothesis that
`Properties/C02*` provides at the reals) that value IS `flowLogProbExec` of the sample alone under context row `i`.
-/
set_option linter.all false
namespace Properties.C04

theorem flowSalpExec_pairing :
    ∀ {α : Type} (o : XOps α) {w rcw cw R n : ℕ} {emb : ℕ → Array α → Array α}
      {Tinv : NF.FlowRowsExec.BStage α} {base : NF.FlowRowsExec.BaseD α} {noise ctx : Array α},
      NF.FlowRowsExec.RowWiseStage w cw Tinv →
        NF.FlowRowsExec.RowIndepBase cw base →
          NF.FlowRowsExec.EmbRowWise rcw cw emb →
            R * cw ≤ (emb R ctx).size →
              ∀ {s : Array α} {lps : List α},
                NF.FlowRowsExec.flowSalpExec o w cw R n emb Tinv base noise ctx = Except.ok (s, lps) →
                  ∀ {i j : ℕ},
                    i < R →
                      j < n →
                        ∀ (zr cr : Array α),
                          NF.FlowRowsExec.RowEq w (i * n + j) 0 noise zr →
                            NF.FlowRowsExec.RowEq rcw i 0 ctx cr →
                              ∃ (si : Array α) (d : α) (l : α),
                                Tinv 1 zr (emb 1 cr) = Except.ok (si, [d]) ∧
                                  NF.FlowRowsExec.RowEq w (i * n + j) 0 s si ∧
                                    base 1 (NF.Density.rowsOf w 1 zr.toList) (emb 1 cr) = Except.ok [l] ∧
                                      lps[i * n + j]? = Option.some (o.sub l d) :=
  @NF.FlowRowsExec.flowSalpExec_pairing

theorem flowSalpExec_consistent :
    ∀ {α : Type} (o : XOps α) {w rcw cw R n : ℕ} {emb : ℕ → Array α → Array α}
      {T Tinv : NF.FlowRowsExec.BStage α} {base : NF.FlowRowsExec.BaseD α} {noise ctx : Array α},
      NF.FlowRowsExec.RowWiseStage w cw Tinv →
        NF.FlowRowsExec.RowIndepBase cw base →
          NF.FlowRowsExec.EmbRowWise rcw cw emb →
            R * cw ≤ (emb R ctx).size →
              NF.FlowRowsExec.RoundTripStage o w T Tinv →
                (∀ (a b : α), o.sub a b = o.add a (o.neg b)) →
                  ∀ {s : Array α} {lps : List α},
                    NF.FlowRowsExec.flowSalpExec o w cw R n emb Tinv base noise ctx = Except.ok (s, lps) →
                      ∀ {i j : ℕ},
                        i < R →
                          j < n →
                            ∀ (zr cr : Array α),
                              NF.FlowRowsExec.RowEq w (i * n + j) 0 noise zr →
                                NF.FlowRowsExec.RowEq rcw i 0 ctx cr →
                                  ∃ (si : Array α) (lp : α),
                                    NF.FlowRowsExec.RowEq w (i * n + j) 0 s si ∧
                                      lps[i * n + j]? = Option.some lp ∧
                                        NF.FlowRowsExec.flowLogProbExec o w emb T base 1 si cr = Except.ok [lp] :=
  @NF.FlowRowsExec.flowSalpExec_consistent

end Properties.C04
