import NflowsModel.Lemmas.ChangeOfVar
import NflowsModel.Lemmas.Gaussian
import NflowsModel.Lemmas.TailsWhole
import NflowsModel.Properties.C05
import Mathlib.Analysis.Calculus.Deriv.Comp
import Mathlib.Analysis.Calculus.FDeriv.Comp
import Mathlib.LinearAlgebra.Determinant
import Mathlib.Analysis.Calculus.Deriv.Add
import Mathlib.Analysis.SpecialFunctions.Trigonometric.DerivHyp
/-!
# C03 — a flow's `log_prob` is a normalised probability density

`log_prob x = base.log_prob (T x) + logabsdet x` (flows/base.py:42-49).  If `T` is a bijection of the data space onto
the support of the base, differentiable with `|det T'| = exp(logabsdet)` (C01) and the base is normalised (C05),
then `exp ∘ log_prob` integrates to one.  Programs (compositions) of such transforms are again such transforms, by
structural induction — so the statement holds for every nesting, not only those that fit a quadrature grid.
Differentiability of neural conditioners is a hypothesis (ReLU kinks are a null set; DESIGN §8.4).

**Limits of what is proved** (external audit): the everywhere-differentiability hypothesis on the row map through a conditioner
(`ARRowHyp.hdiff`, `CouplingRowHyp.hdiff` in `Properties/C03ND.lean`) is satisfied by smooth conditioners only and is discharged
in this tree for constant / affine conditioners and (`C03ND`: `maf_layer_differentiable`, `executed_pipeline_with_maf_is_normalised`) for
the masked affine autoregressive layer with a smooth-activation MADE and for additive / affine coupling with a smooth perceptron — NOT
for the library's default ReLU networks, for which an almost-everywhere
(cell-wise) change of variables would be needed and is not proved; the conditioner-free layers (CDF transforms, permutations,
LU / QR / SVD) and the 1-D flows have no such hypothesis.  All normalisation theorems are for bijections of the whole line / ℝⁿ
with a Gaussian base; flows on a box (the executed bounded RQ / quadratic / cubic / linear splines with a uniform or any normalised
base) are in `Properties/C03B.lean`; `Sigmoid` onto `(0,1)` / `Logit`, a `MADEMoG` (or any normalised) base and embedding networks are in `Properties/C03M.lean`.  `flow_normalised_prog(N)` quantify over
abstract diffeomorphisms; the executed statements are the `ExecLayer` ones of `C03ND`.
-/
open MeasureTheory

namespace Properties.C03

/-- 1-D: bijection + derivative `exp(ld)` + normalised base ⇒ normalised flow density -/
theorem flow_normalised_1d (f ld p : ℝ → ℝ) (hbij : Function.Bijective f)
    (hd : ∀ x, HasDerivAt f (Real.exp (ld x)) x) (hp : ∫ z, p z = 1) :
    ∫ x, p (f x) * Real.exp (ld x) = 1 :=
  ChangeOfVar.flow_normalised_1d f ld p hbij hd hp

/-- the same in the form the code computes: `exp (base_logp (f x) + ld x)` -/
theorem flow_logprob_normalised_1d (f ld logp : ℝ → ℝ) (hbij : Function.Bijective f)
    (hd : ∀ x, HasDerivAt f (Real.exp (ld x)) x) (hp : ∫ z, Real.exp (logp z) = 1) :
    ∫ x, Real.exp (logp (f x) + ld x) = 1 :=
  ChangeOfVar.flow_logprob_normalised_1d f ld logp hbij hd hp

/-- n-D: bijection + Fréchet derivative with `|det| = exp(ld)` + normalised base ⇒ normalised flow density -/
theorem flow_normalised_nd {n : ℕ} (T : (Fin n → ℝ) → (Fin n → ℝ))
    (T' : (Fin n → ℝ) → ((Fin n → ℝ) →L[ℝ] (Fin n → ℝ))) (ld : (Fin n → ℝ) → ℝ) (p : (Fin n → ℝ) → ℝ)
    (hbij : Function.Bijective T) (hd : ∀ x, HasFDerivAt T (T' x) x)
    (hld : ∀ x, |(T' x).det| = Real.exp (ld x)) (hp : ∫ z, p z = 1) :
    ∫ x, p (T x) * Real.exp (ld x) = 1 :=
  ChangeOfVar.flow_normalised_nd T T' ld p hbij hd hld hp

/-- a library transform on the real line as the theorem needs it: a bijection whose derivative is `exp` of the
    log-abs-det it returns -/
structure Diffeo1 where
  f : ℝ → ℝ
  ld : ℝ → ℝ
  bij : Function.Bijective f
  deriv : ∀ x, HasDerivAt f (Real.exp (ld x)) x

/-- `CompositeTransform` of two parts: apply `a` then `b`, log-abs-dets add (base.py:45-60) -/
def Diffeo1.comp (a b : Diffeo1) : Diffeo1 where
  f := b.f ∘ a.f
  ld := fun x => a.ld x + b.ld (a.f x)
  bij := b.bij.comp a.bij
  deriv := by
    intro x
    have h := HasDerivAt.comp x (b.deriv (a.f x)) (a.deriv x)
    refine h.congr_deriv ?_
    rw [Real.exp_add]; ring

def Diffeo1.id : Diffeo1 where
  f := fun x => x
  ld := fun _ => 0
  bij := Function.bijective_id
  deriv := by intro x; simpa using hasDerivAt_id' x

/-- a program: the parts in the order given (`_cascade`) -/
def prog : List Diffeo1 → Diffeo1
  | [] => Diffeo1.id
  | a :: rest => a.comp (prog rest)

/-- **Every composition of 1-D library transforms with a normalised base is a normalised density** -/
theorem flow_normalised_prog (parts : List Diffeo1) (logp : ℝ → ℝ) (hp : ∫ z, Real.exp (logp z) = 1) :
    ∫ x, Real.exp (logp ((prog parts).f x) + (prog parts).ld x) = 1 :=
  flow_logprob_normalised_1d _ _ logp (prog parts).bij (prog parts).deriv hp

/-- the log-abs-det of a program is the sum over the parts along the trajectory (two parts shown; induction gives all) -/
theorem prog_ld_cons (a : Diffeo1) (rest : List Diffeo1) (x : ℝ) :
    (prog (a :: rest)).ld x = a.ld x + (prog rest).ld (a.f x) ∧ (prog (a :: rest)).f x = (prog rest).f (a.f x) := ⟨rfl, rfl⟩

/-- base: the diagonal normal (standard normal = μ 0, log σ 0) is normalised for every dimension -/
theorem base_normalised {D : ℕ} (μ ls : Fin D → ℝ) : ∫ x : Fin D → ℝ, Real.exp (Gaussian.diagNormalLogp μ ls x) = 1 :=
  Gaussian.diagNormal_normalised μ ls

/-- a library transform on ℝⁿ as the theorem needs it: a bijection with Fréchet derivative whose |det| is `exp` of the
    log-abs-det it returns (coupling, autoregressive, linear, permutation, element-wise layers: C01) -/
structure DiffeoN (n : ℕ) where
  T : (Fin n → ℝ) → (Fin n → ℝ)
  T' : (Fin n → ℝ) → ((Fin n → ℝ) →L[ℝ] (Fin n → ℝ))
  ld : (Fin n → ℝ) → ℝ
  bij : Function.Bijective T
  deriv : ∀ x, HasFDerivAt T (T' x) x
  ld_eq : ∀ x, |(T' x).det| = Real.exp (ld x)

/-- `CompositeTransform` in n dimensions: chain rule, multiplicativity of the determinant, log-abs-dets add -/
def DiffeoN.comp {n : ℕ} (a b : DiffeoN n) : DiffeoN n where
  T := b.T ∘ a.T
  T' := fun x => (b.T' (a.T x)).comp (a.T' x)
  ld := fun x => a.ld x + b.ld (a.T x)
  bij := b.bij.comp a.bij
  deriv := fun x => (b.deriv (a.T x)).comp x (a.deriv x)
  ld_eq := by
    intro x
    have h : ((b.T' (a.T x)).comp (a.T' x)).det = (b.T' (a.T x)).det * (a.T' x).det := by
      simp only [ContinuousLinearMap.det]
      have : ((b.T' (a.T x)).comp (a.T' x) : (Fin n → ℝ) →ₗ[ℝ] (Fin n → ℝ))
          = (b.T' (a.T x) : (Fin n → ℝ) →ₗ[ℝ] (Fin n → ℝ)).comp (a.T' x : (Fin n → ℝ) →ₗ[ℝ] (Fin n → ℝ)) := rfl
      rw [this, LinearMap.det_comp]
    rw [h, abs_mul, a.ld_eq x, b.ld_eq (a.T x), ← Real.exp_add, add_comm]

def DiffeoN.id (n : ℕ) : DiffeoN n where
  T := fun x => x
  T' := fun _ => ContinuousLinearMap.id ℝ _
  ld := fun _ => 0
  bij := Function.bijective_id
  deriv := fun x => hasFDerivAt_id x
  ld_eq := by intro x; simp [ContinuousLinearMap.det]

/-- a program of n-dimensional parts, in the order given -/
def progN {n : ℕ} : List (DiffeoN n) → DiffeoN n
  | [] => DiffeoN.id n
  | a :: rest => a.comp (progN rest)

/-- **Every composition of n-D library transforms with a normalised base is a normalised density** (any nesting depth,
    any number of parts — not only those that fit a quadrature grid) -/
theorem flow_normalised_progN {n : ℕ} (parts : List (DiffeoN n)) (p : (Fin n → ℝ) → ℝ) (hp : ∫ z, p z = 1) :
    ∫ x, p ((progN parts).T x) * Real.exp ((progN parts).ld x) = 1 :=
  flow_normalised_nd _ _ _ p (progN parts).bij (progN parts).deriv (progN parts).ld_eq hp

/-! ## instantiation with EXECUTED programs: the abstract `Diffeo1` parts above are inhabited by what the driver runs -/

/-- the executed `StandardNormal([1]).log_prob` row (the list program of `Core/Density.lean` at ℝ) is a normalised density on ℝ -/
theorem stdNormal1_exec_normalised (e : Float → ℝ) :
    ∫ z : ℝ, Real.exp (NF.Density.stdNormalRow (NF.realX e) 1 [z]) = 1 := by
  have h : ∀ z : ℝ, Real.exp (NF.Density.stdNormalRow (NF.realX e) 1 [z]) = ProbabilityTheory.gaussianPDFReal 0 1 z := by
    intro z
    have := Properties.C05.stdNormal_logp_eq e (D := 1) (fun _ => z)
    simpa using this
  simp_rw [h]
  exact ProbabilityTheory.integral_gaussianPDFReal_eq_one 0 (by norm_num)

/-- the executed rational-quadratic spline with linear tails (`rqSplineTails … false`, the element of the library's neural
    spline flows) IS a `Diffeo1`: a bijection of ℝ whose derivative at every real point is `exp` of the log-abs-det it returns -/
noncomputable def rqTailsDiffeo (e : Float → ℝ) (tb minW minH minD beta : Float) (uw uh ud : List ℝ)
    (hv : TailsWhole.RQTailsValid e tb minW minH minD beta uw uh ud) (hp : TailsWhole.PadExact e minD beta) : Diffeo1 where
  f := TailsWhole.valT e tb minW minH minD beta uw uh ud
  ld := TailsWhole.ldT e tb minW minH minD beta uw uh ud
  bij := TailsWhole.valT_bijective hv
  deriv := TailsWhole.valT_hasDerivAt_all hv hp

/-- **End to end, one dimension**: `Flow(unconstrained RQ spline, StandardNormal).log_prob`, assembled from the two EXECUTED
    programs exactly as flows/base.py:42-49 does (`base.log_prob(transform(x)) + logabsdet`), is a normalised probability density
    — for every number of bins, every unnormalised parameter vector and every tail bound. -/
theorem executed_rq_tails_flow_normalised (e : Float → ℝ) (tb minW minH minD beta : Float) (uw uh ud : List ℝ)
    (hv : TailsWhole.RQTailsValid e tb minW minH minD beta uw uh ud) (hp : TailsWhole.PadExact e minD beta) :
    ∫ x : ℝ, Real.exp (NF.Density.stdNormalRow (NF.realX e) 1 [TailsWhole.valT e tb minW minH minD beta uw uh ud x]
        + TailsWhole.ldT e tb minW minH minD beta uw uh ud x) = 1 :=
  flow_logprob_normalised_1d _ _ (fun z => NF.Density.stdNormalRow (NF.realX e) 1 [z])
    (TailsWhole.valT_bijective hv) (TailsWhole.valT_hasDerivAt_all hv hp) (stdNormal1_exec_normalised e)

/-- … and so is every composite of such executed elements (any number of spline layers with their own parameters, in any order),
    over the executed standard-normal base -/
theorem executed_composite_flow_normalised (e : Float → ℝ) (parts : List Diffeo1) :
    ∫ x : ℝ, Real.exp (NF.Density.stdNormalRow (NF.realX e) 1 [(prog parts).f x] + (prog parts).ld x) = 1 :=
  flow_normalised_prog parts (fun z => NF.Density.stdNormalRow (NF.realX e) 1 [z]) (stdNormal1_exec_normalised e)

example (e : Float → ℝ) (tb minW minH minD beta : Float) (uw uh ud uw' uh' ud' : List ℝ)
    (hv : TailsWhole.RQTailsValid e tb minW minH minD beta uw uh ud) (hv' : TailsWhole.RQTailsValid e tb minW minH minD beta uw' uh' ud')
    (hp : TailsWhole.PadExact e minD beta) :
    ∫ x : ℝ, Real.exp (NF.Density.stdNormalRow (NF.realX e) 1
        [(prog [rqTailsDiffeo e tb minW minH minD beta uw uh ud hv hp, rqTailsDiffeo e tb minW minH minD beta uw' uh' ud' hv' hp]).f x]
        + (prog [rqTailsDiffeo e tb minW minH minD beta uw uh ud hv hp, rqTailsDiffeo e tb minW minH minD beta uw' uh' ud' hv' hp]).ld x) = 1 :=
  executed_composite_flow_normalised e _

/-- `LogTanh`: with the constructor's `beta = exp((tanh c - alpha log c) / alpha)` the logarithmic tail
    `alpha * log(beta * x)` joins the `tanh` part continuously at the cut point `c` (so the transform is a bijection of
    the line onto the line; nonlinearities.py:66-90) — for every cut point `c > 0` and every `alpha ≠ 0`. -/
theorem logtanh_tail_joins (c alpha : ℝ) (hc : 0 < c) (ha : alpha ≠ 0) :
    alpha * Real.log (Real.exp ((Real.tanh c - alpha * Real.log c) / alpha) * c) = Real.tanh c := by
  rw [Real.log_mul (Real.exp_pos _).ne' hc.ne', Real.log_exp]
  field_simp
  ring

/-! non-vacuity: the affine map x ↦ 2x+1 is a `Diffeo1` with ld = log 2 -/
example : ∃ d : Diffeo1, d.f 1 = 3 := by
  refine ⟨{ f := fun x => 2 * x + 1, ld := fun _ => Real.log 2,
            bij := ?_, deriv := ?_ }, by norm_num⟩
  · constructor
    · intro a b h; simpa using h
    · intro y; exact ⟨(y - 1) / 2, by ring⟩
  · intro x
    rw [Real.exp_log (by norm_num)]
    simpa using ((hasDerivAt_id x).const_mul (2:ℝ)).add_const (1:ℝ)

end Properties.C03
