import NflowsModel.Core.Structure
import NflowsModel.Lemmas.Coupling
import NflowsModel.Lemmas.ViewLayout
import Mathlib.Tactic
import NflowsModel.Lemmas.StructureExec
/-!
# C07 — coupling layers leave identity features untouched and condition only on them

Generic in the element type `α` (so "unchanged" is an equality in `α`: bit-for-bit for floats), in the
element-wise family `f` and in the conditioner `cond` (an arbitrary function).

**Limits** (external audit): in the abstract theorems "the conditioner sees only the identity split" holds by construction of the
model (`condIn` is the recorded field) — what can falsify it is the correspondence, which compares the recorded conditioner input
of the real layer bit for bit; the executed statement is `exec_conditioner_input`.  "Bit-for-bit at `Float`" of the executed
pass-through needs `MaskDisjoint`, proved at the real instance.  The consequences named in the property text (monotone in each
transformed feature, triangular Jacobian) and a pass-through statement for every `XOps α` without `MaskDisjoint` are in
`Properties/C07C.lean`, about the executed `couplingApply`.
-/
open NF

namespace Properties.C07

/-- identity features pass through unchanged (any mask, any conditioner, any element-wise family) -/
theorem identity_passthrough {α P C : Type} {n : ℕ} (isT : Fin n → Bool) (blank : α)
    (cond : (Fin n → α) → C → Fin n → P) (f : P → α → α) (x : Fin n → α) (c : C) (i : Fin n) (hi : isT i = false) :
    Coupling.Coupling.forward isT blank cond f x c i = x i :=
  Coupling.Coupling.identity_passthrough isT blank cond f x c i hi

/-- both directions: the inverse also returns identity features unchanged -/
theorem identity_passthrough_inverse {α P C : Type} {n : ℕ} (isT : Fin n → Bool) (blank : α)
    (cond : (Fin n → α) → C → Fin n → P) (finv : P → α → α) (y : Fin n → α) (c : C) (i : Fin n) (hi : isT i = false) :
    Coupling.Coupling.inverse isT blank cond finv y c i = y i := by
  simp [Coupling.Coupling.inverse, hi]

/-- the conditioner is only ever applied to the identity part (transformed features blanked), and that part is the
    same before and after the layer: parameters depend only on identity features and context -/
theorem cond_sees_only_identity {α P C : Type} {n : ℕ} (isT : Fin n → Bool) (blank : α)
    (cond : (Fin n → α) → C → Fin n → P) (f : P → α → α) (x : Fin n → α) (c : C) :
    Coupling.Coupling.idPart isT blank (Coupling.Coupling.forward isT blank cond f x c) = Coupling.Coupling.idPart isT blank x :=
  Coupling.Coupling.idPart_forward isT blank cond f x c

/-- each transformed feature is a function of its own input, the identity features and the context only
    (so the Jacobian is triangular up to the mask's permutation — feeds C01) -/
theorem transformed_depends_on {α P C : Type} {n : ℕ} (isT : Fin n → Bool) (blank : α)
    (cond : (Fin n → α) → C → Fin n → P) (f : P → α → α) (x x' : Fin n → α) (c : C) (t : Fin n)
    (hid : ∀ i, isT i = false → x i = x' i) (ht : x t = x' t) :
    Coupling.Coupling.forward isT blank cond f x c t = Coupling.Coupling.forward isT blank cond f x' c t :=
  Coupling.Coupling.transformed_depends_on isT blank cond f x x' c t hid ht

/-- **Index partition of the executable model** (coupling.py:41-52): for any numeric mask whose entries compare
    totally with zero (`m > 0 ↔ ¬ m ≤ 0`, true of every non-NaN float and of the reals) every feature index lies in
    exactly one of `identityIdx` / `transformIdx` — so the `empty_like` output buffer is fully written. -/
theorem idx_partition {α : Type} (o : XOps α) (mask : List α)
    (htot : ∀ m ∈ mask, o.gt m o.zero = !(o.le m o.zero)) (i : Nat) (hi : i < mask.length) :
    (i ∈ identityIdx o mask ∧ i ∉ transformIdx o mask) ∨ (i ∉ identityIdx o mask ∧ i ∈ transformIdx o mask) := by
  have hg : mask.getD i o.zero = mask[i] := by simp [List.getD, hi]
  have hm : mask[i] ∈ mask := List.getElem_mem hi
  have ht := htot _ hm
  simp only [identityIdx, transformIdx, List.mem_filter, List.mem_range, hg]
  cases hle : o.le mask[i] o.zero <;> simp [hle, hi] at ht ⊢ <;> simp [ht]

/-- both index lists are strictly increasing (features keep their order inside each split) -/
theorem idx_sorted {α : Type} (o : XOps α) (mask : List α) :
    (identityIdx o mask).Pairwise (· < ·) ∧ (transformIdx o mask).Pairwise (· < ·) := by
  constructor <;>
  · simp only [identityIdx, transformIdx]
    exact List.Pairwise.filter _ (List.pairwise_lt_range)

/-- image inputs: `reshape(b, c, -1, h, w).permute(0,1,3,4,2)` gives feature `c`, pixel `(i,j)` the parameter block
    `[c·M, (c+1)·M)` at that pixel of batch item `b` (coupling.py:262-268) -/
theorem param_layout_img {α : Type} [Inhabited α] (P : Array α) (B C M H W b c i j k : Nat) :
    (((View.ofArray P [B, C*M, H, W]).reshape [B, C, M, H, W]).permute [0,1,3,4,2]).get [b,c,i,j,k]
      = (View.ofArray P [B, C*M, H, W]).get [b, c*M + k, i, j] :=
  View.param_layout_img P B C M H W b c i j k

/-! non-vacuity: a concrete numeric mask with real-valued entries -/
example : identityIdx floatX [-2.5, 0.0, 0.1, 3.0] = [0, 1] ∧ transformIdx floatX [-2.5, 0.0, 0.1, 3.0] = [2, 3] := by
  constructor <;> decide +kernel

/-! ## the EXECUTED coupling layer (`couplingApply`, the function the driver runs), any `B`, `S`, mask, parameters -/

/-- **identity features pass through the executed layer unchanged**, both directions, also when some element raised:
    at every flat position of an identity channel the output array holds the input (an equality in `α`: bit-for-bit at
    `Float`).  `MaskDisjoint` (no channel is in both index lists) holds for every NaN-free mask, and over ℝ. -/
theorem exec_identity_passthrough {α : Type} (o : XOps α) (c : ElCfg) (mask : List α) (B S : Nat) (x params uparams : Array α)
    (inverse : Bool) (hd : NF.StructureExec.MaskDisjoint o mask) {b ch s : Nat} (hch : ch ∈ identityIdx o mask) (hs : s < S) :
    (couplingApply o c mask B S x params inverse none uparams).out[flatIdx mask.length S b ch s]?
      = x[flatIdx mask.length S b ch s]? :=
  NF.StructureExec.coupling_identity_passthrough' o c mask B S x params inverse uparams hd hch hs

/-- **the conditioner of the executed layer is given exactly the identity split**: the gather of the identity channels
    of the input (forward, with or without an unconditional transform), which — identity features being untouched — is
    also the gather of the identity channels of the OUTPUT (both directions) -/
theorem exec_conditioner_input {α : Type} (o : XOps α) (c : ElCfg) (mask : List α) (B S : Nat) (x params uparams : Array α)
    (uc : Option ElCfg) (inverse : Bool) (hd : NF.StructureExec.MaskDisjoint o mask) :
    (couplingApply o c mask B S x params false uc uparams).condIn = gatherCh x B mask.length S (identityIdx o mask) o.zero ∧
    (couplingApply o c mask B S x params inverse none uparams).condIn
      = gatherCh (couplingApply o c mask B S x params inverse none uparams).out B mask.length S (identityIdx o mask) o.zero :=
  ⟨NF.StructureExec.coupling_condIn_forward o c mask B S x params uc uparams,
   NF.StructureExec.coupling_condIn_eq_gather_out o c mask B S x params inverse uparams hd⟩

/-- with an unconditional transform the INVERSE feeds the conditioner the already un-transformed identity features
    (coupling.py:121-125) -/
theorem exec_conditioner_input_unconditional_inverse {α : Type} (o : XOps α) (c ucfg : ElCfg) (mask : List α) (B S : Nat)
    (x params uparams : Array α) :
    (couplingApply o c mask B S x params true (some ucfg) uparams).condIn
      = gatherCh (couplingUncond o mask B S x true (some ucfg) uparams) B mask.length S (identityIdx o mask) o.zero :=
  NF.StructureExec.coupling_condIn_inverse_uc o c mask B S x params uparams ucfg

/-- **refinement**: one row of the executed layer (2-D inputs, no unconditional transform) IS the abstract coupling of the
    theorems above, for the `isT` derived from the numeric mask — here in the form "identity channels of the row are
    unchanged", obtained THROUGH the abstract `identity_passthrough` -/
theorem exec_refines_abstract_identity {α : Type} (o : XOps α) (c : ElCfg) (mask : List α) (B : Nat)
    (x params uparams : Array α) {b : Nat} (hb : b < B) (hsz : B * mask.length ≤ x.size) (i : Fin mask.length)
    (hi : NF.StructureExec.isT o mask i = false) :
    NF.StructureExec.rowOf o mask.length b (couplingApply o c mask B 1 x params false none uparams).out i
      = NF.StructureExec.rowOf o mask.length b x i :=
  NF.StructureExec.executed_identity_passthrough o c mask B x params uparams hb hsz i hi

/-- over the reals every mask has disjoint index lists -/
example (e : Float → ℝ) (mask : List ℝ) : NF.StructureExec.MaskDisjoint (NF.realX e) mask := NF.StructureExec.maskDisjoint_real e mask

end Properties.C07
