import NflowsModel.Properties.C12
import NflowsModel.Lemmas.LinearJacobian
import NflowsModel.Lemmas.RowIndependenceMore
/-!
# C12 (continued) — row independence of the linear family, normalisation layers, distributions, flows, 1×1 convolution

Closes most of "Not covered by a theorem" in the `Properties/C12.lean` header.  For EVERY `Ops α` / `XOps α` (so also for the Float
and Float32 runs of the driver): the executed LU / QR / SVD / Householder / naive passes are `List.map` of a row function, in both
components of the `(outputs, logabsdets)` pair; BatchNorm in EVALUATION mode and an initialised ActNorm give, on `[row i]`, exactly
`([out i], [ld i])` of the batch run; the executed `log_prob` of the standard / diagonal / conditional-diagonal normal, Bernoulli and
MADE-MoG batch programs returns on one row the singleton of the batch entry and raises iff the batch raises; a flow over row-wise
parts is row-wise; item `b` of the 1×1 convolution depends on item `b` only.  The CONTRAST the property text draws is proved too:
BatchNorm in training mode (every state with `eps > 0`) and ActNorm's initialising call are NOT row independent (`bn_training_…`,
`act_init_…`, at the reals).  Forced hypotheses are listed in `Lemmas/RowIndependenceMore.lean` (conditional normal `pShape ≠ []`;
convolution `perm` entries in range — the flat NCHW `getD` would read the next item where torch raises).
-/
set_option linter.all false
namespace Properties.C12

theorem luForward_rowwise :
    ∀ {α : Type} (o : Ops α) (p : NF.LF.LUParams α),
      LinearJacobian.RowWise (NF.LF.luForward o p) (LogdetExec.luRow o p) :=
  @LinearJacobian.luForward_rowwise

theorem luInverse_rowwise :
    ∀ {α : Type} (o : Ops α) (p : NF.LF.LUParams α),
      LinearJacobian.RowWise (NF.LF.luInverse o p) (LogdetExec.luInvRow o p) :=
  @LinearJacobian.luInverse_rowwise

theorem qrForward_rowwise :
    ∀ {α : Type} (o : Ops α) (p : NF.LF.QRParams α),
      LinearJacobian.RowWise (NF.LF.qrForward o p) (LinearJacobian.qrRow o p) :=
  @LinearJacobian.qrForward_rowwise

theorem qrInverse_rowwise :
    ∀ {α : Type} (o : Ops α) (p : NF.LF.QRParams α),
      LinearJacobian.RowWise (NF.LF.qrInverse o p) (LinearJacobian.qrInvRow o p) :=
  @LinearJacobian.qrInverse_rowwise

theorem svdForward_rowwise :
    ∀ {α : Type} (o : Ops α) (p : NF.LF.SVDParams α),
      LinearJacobian.RowWise (NF.LF.svdForward o p) (LinearJacobian.svdRow o p) :=
  @LinearJacobian.svdForward_rowwise

theorem svdInverse_rowwise :
    ∀ {α : Type} (o : Ops α) (p : NF.LF.SVDParams α),
      LinearJacobian.RowWise (NF.LF.svdInverse o p) (LinearJacobian.svdInvRow o p) :=
  @LinearJacobian.svdInverse_rowwise

theorem hhForward_rowwise :
    ∀ {α : Type} (o : Ops α) (qs : List (List α)),
      LinearJacobian.RowWise (NF.LF.hhForward o qs) (NF.LF.hhSeq o qs) :=
  @LinearJacobian.hhForward_rowwise

theorem hhInverse_rowwise :
    ∀ {α : Type} (o : Ops α) (qs : List (List α)),
      LinearJacobian.RowWise (NF.LF.hhInverse o qs) (NF.LF.hhSeq o qs.reverse) :=
  @LinearJacobian.hhInverse_rowwise

theorem naiveForward_rowwise :
    ∀ {α : Type} (o : Ops α) (W : List (List α)) (b : List α),
      LinearJacobian.RowWise (NF.LF.naiveForward o W b) (LinearJacobian.naiveRow o W b) :=
  @LinearJacobian.naiveForward_rowwise

theorem naiveInverse_rowwise :
    ∀ {α : Type} (o : Ops α) (n : ℕ) (W : List (List α)) (b : List α),
      LinearJacobian.RowWise (NF.LF.naiveInverse o n W b) (LinearJacobian.naiveInvRow o n W b) :=
  @LinearJacobian.naiveInverse_rowwise

theorem luForwardLd_pair :
    ∀ {α : Type} (o : Ops α) (p : NF.LF.LUParams α),
      LinearJacobian.PairRowWise (LinearFresh.luForwardLd o p) (LogdetExec.luRow o p)
        (o.mul (NF.LF.luLogabsdet o p) (NF.LF.one o)) :=
  @LinearJacobian.luForwardLd_pair

theorem luInverseLd_pair :
    ∀ {α : Type} (o : Ops α) (p : NF.LF.LUParams α),
      LinearJacobian.PairRowWise (LinearFresh.luInverseLd o p) (LogdetExec.luInvRow o p)
        (o.mul (o.neg (NF.LF.luLogabsdet o p)) (NF.LF.one o)) :=
  @LinearJacobian.luInverseLd_pair

theorem qrForwardLd_pair :
    ∀ {α : Type} (o : Ops α) (p : NF.LF.QRParams α),
      LinearJacobian.PairRowWise (LinearFresh.qrForwardLd o p) (LinearJacobian.qrRow o p)
        (o.mul (NF.LF.qrLogabsdet o p) (NF.LF.one o)) :=
  @LinearJacobian.qrForwardLd_pair

theorem qrInverseLd_pair :
    ∀ {α : Type} (o : Ops α) (p : NF.LF.QRParams α),
      LinearJacobian.PairRowWise (LinearFresh.qrInverseLd o p) (LinearJacobian.qrInvRow o p)
        (o.mul (o.neg (NF.LF.qrLogabsdet o p)) (NF.LF.one o)) :=
  @LinearJacobian.qrInverseLd_pair

theorem svdForwardLd_pair :
    ∀ {α : Type} (o : Ops α) (p : NF.LF.SVDParams α),
      LinearJacobian.PairRowWise (LinearFresh.svdForwardLd o p) (LinearJacobian.svdRow o p)
        (o.mul (NF.LF.svdLogabsdet o p) (NF.LF.one o)) :=
  @LinearJacobian.svdForwardLd_pair

theorem svdInverseLd_pair :
    ∀ {α : Type} (o : Ops α) (p : NF.LF.SVDParams α),
      LinearJacobian.PairRowWise (LinearFresh.svdInverseLd o p) (LinearJacobian.svdInvRow o p)
        (o.mul (o.neg (NF.LF.svdLogabsdet o p)) (NF.LF.one o)) :=
  @LinearJacobian.svdInverseLd_pair

theorem hhForwardLd_pair :
    ∀ {α : Type} (o : Ops α) (qs : List (List α)),
      LinearJacobian.PairRowWise (LinearFresh.hhForwardLd o qs) (NF.LF.hhSeq o qs) (NF.LF.zero o) :=
  @LinearJacobian.hhForwardLd_pair

theorem hhInverseLd_pair :
    ∀ {α : Type} (o : Ops α) (qs : List (List α)),
      LinearJacobian.PairRowWise (LinearFresh.hhInverseLd o qs) (NF.LF.hhSeq o qs.reverse) (NF.LF.zero o) :=
  @LinearJacobian.hhInverseLd_pair

theorem rowwise_perm :
    ∀ {Row Out : Type} {f : List Row → List Out} {g : Row → Out},
      LinearJacobian.RowWise f g → ∀ {X Y : List Row}, X.Perm Y → (f X).Perm (f Y) :=
  @LinearJacobian.RowWise.perm

theorem pair_rowwise_row_alone :
    ∀ {Row Out A : Type} {F : List Row → List Out × List A} {g : Row → Out} {c : A},
      LinearJacobian.PairRowWise F g c →
        ∀ (X : List Row) (i : ℕ) (hi : i < X.length),
          (F X).1[i]? = Option.some (g X[i]) ∧ (F X).2[i]? = Option.some c ∧ F [X[i]] = ([g X[i]], [c]) :=
  @LinearJacobian.PairRowWise.row_alone

theorem bn_eval_forward_row_independent :
    ∀ {α : Type} (o : XOps α) (cfg : NF.Norm.BNCfg α) (F : ℕ)
      (s : NF.Norm.BNSt α),
      s.training = Bool.false →
        ∀ (rows : List (List α)),
          ∃ (outs : List (List α)) (lds : List α),
            NF.Norm.bnStep o cfg F s (NF.Norm.NOp.fwd (NF.Norm.Batch.d2 rows)) =
                (s, Option.some (Except.ok (NF.Norm.Batch.d2 outs, lds))) ∧
              outs.length = rows.length ∧
                lds.length = rows.length ∧
                  ∀ (i : ℕ) (r : List α),
                    rows[i]? = Option.some r →
                      ∃ (y : List α) (l : α),
                        outs[i]? = Option.some y ∧
                          lds[i]? = Option.some l ∧
                            NF.Norm.bnStep o cfg F s (NF.Norm.NOp.fwd (NF.Norm.Batch.d2 [r])) =
                              (s, Option.some (Except.ok (NF.Norm.Batch.d2 [y], [l]))) :=
  @NF.RowIndependenceMore.bn_eval_forward_row_independent

theorem bn_eval_inverse_row_independent :
    ∀ {α : Type} (o : XOps α) (cfg : NF.Norm.BNCfg α) (F : ℕ)
      (s : NF.Norm.BNSt α),
      s.training = Bool.false →
        ∀ (rows : List (List α)),
          ∃ (outs : List (List α)) (lds : List α),
            NF.Norm.bnStep o cfg F s (NF.Norm.NOp.inv (NF.Norm.Batch.d2 rows)) =
                (s, Option.some (Except.ok (NF.Norm.Batch.d2 outs, lds))) ∧
              outs.length = rows.length ∧
                lds.length = rows.length ∧
                  ∀ (i : ℕ) (r : List α),
                    rows[i]? = Option.some r →
                      ∃ (y : List α) (l : α),
                        outs[i]? = Option.some y ∧
                          lds[i]? = Option.some l ∧
                            NF.Norm.bnStep o cfg F s (NF.Norm.NOp.inv (NF.Norm.Batch.d2 [r])) =
                              (s, Option.some (Except.ok (NF.Norm.Batch.d2 [y], [l]))) :=
  @NF.RowIndependenceMore.bn_eval_inverse_row_independent

theorem act_forward_row_independent :
    ∀ {α : Type} (o : XOps α) (F : ℕ) (s : NF.Norm.ActSt α),
      s.initialized = Bool.true ∨ s.training = Bool.false →
        ∀ (b : NF.Norm.Batch α),
          b.valid24 = Bool.true →
            ∃ (out : NF.Norm.Batch α) (lds : List α),
              NF.Norm.actStep o F s (NF.Norm.NOp.fwd b) = (s, Option.some (Except.ok (out, lds))) ∧
                out.size = b.size ∧
                  lds.length = b.size ∧
                    ∀ (i : ℕ) (bi : NF.Norm.Batch α),
                      NF.RowIndependenceMore.item? b i = Option.some bi →
                        ∃ (yi : NF.Norm.Batch α) (l : α),
                          NF.RowIndependenceMore.item? out i = Option.some yi ∧
                            lds[i]? = Option.some l ∧
                              NF.Norm.actStep o F s (NF.Norm.NOp.fwd bi) = (s, Option.some (Except.ok (yi, [l]))) :=
  @NF.RowIndependenceMore.act_forward_row_independent

theorem act_inverse_row_independent :
    ∀ {α : Type} (o : XOps α) (F : ℕ) (s : NF.Norm.ActSt α)
      (b : NF.Norm.Batch α),
      b.valid24 = Bool.true →
        ∃ (out : NF.Norm.Batch α) (lds : List α),
          NF.Norm.actStep o F s (NF.Norm.NOp.inv b) = (s, Option.some (Except.ok (out, lds))) ∧
            out.size = b.size ∧
              lds.length = b.size ∧
                ∀ (i : ℕ) (bi : NF.Norm.Batch α),
                  NF.RowIndependenceMore.item? b i = Option.some bi →
                    ∃ (yi : NF.Norm.Batch α) (l : α),
                      NF.RowIndependenceMore.item? out i = Option.some yi ∧
                        lds[i]? = Option.some l ∧
                          NF.Norm.actStep o F s (NF.Norm.NOp.inv bi) = (s, Option.some (Except.ok (yi, [l]))) :=
  @NF.RowIndependenceMore.act_inverse_row_independent

theorem bn_training_not_row_independent :
    ∀ (e : Float → ℝ) (cfg : NF.Norm.BNCfg ℝ),
      0 < cfg.eps →
        ∀ (s : NF.Norm.BNSt ℝ),
          s.training = Bool.true →
            ∃ (rows : List (List ℝ)) (outs : List (List ℝ)) (lds : List ℝ),
              (NF.Norm.bnStep (NF.realX e) cfg 1 s (NF.Norm.NOp.fwd (NF.Norm.Batch.d2 rows))).2 =
                  Option.some (Except.ok (NF.Norm.Batch.d2 outs, lds)) ∧
                ∃ (i : ℕ) (r : List ℝ) (y : List ℝ),
                  rows[i]? = Option.some r ∧
                    outs[i]? = Option.some y ∧
                      ∀ (l : List ℝ),
                        (NF.Norm.bnStep (NF.realX e) cfg 1 s (NF.Norm.NOp.fwd (NF.Norm.Batch.d2 [r]))).2 ≠
                          Option.some (Except.ok (NF.Norm.Batch.d2 [y], l)) :=
  @NF.RowIndependenceMore.bn_training_not_row_independent

theorem act_init_not_row_independent :
    ∀ (e : Float → ℝ) (s : NF.Norm.ActSt ℝ),
      s.training = Bool.true →
        s.initialized = Bool.false →
          ∃ (rows : List (List ℝ)) (outs : List (List ℝ)) (lds : List ℝ),
            (NF.Norm.actStep (NF.realX e) 1 s (NF.Norm.NOp.fwd (NF.Norm.Batch.d2 rows))).2 =
                Option.some (Except.ok (NF.Norm.Batch.d2 outs, lds)) ∧
              ∃ (i : ℕ) (r : List ℝ) (y : List ℝ),
                rows[i]? = Option.some r ∧
                  outs[i]? = Option.some y ∧
                    ∀ (l : List ℝ),
                      (NF.Norm.actStep (NF.realX e) 1 s (NF.Norm.NOp.fwd (NF.Norm.Batch.d2 [r]))).2 ≠
                        Option.some (Except.ok (NF.Norm.Batch.d2 [y], l)) :=
  @NF.RowIndependenceMore.act_init_not_row_independent

theorem RowIndep_ok_iff :
    ∀ {α : Type} {batch : Except NF.Density.DErr (List α)} {n : ℕ}
      {single : ℕ → Except NF.Density.DErr (List α)},
      NF.RowIndependenceMore.RowIndep batch n single →
        0 < n → ((∃ (lps : List α), batch = Except.ok lps) ↔ ∀ i < n, ∃ (l : α), single i = Except.ok [l]) :=
  @NF.RowIndependenceMore.RowIndep.ok_iff

theorem stdNormal_logProb_row_independent :
    ∀ {α : Type} (o : XOps α) (shape inShape : List ℕ)
      (c : Bool) (rows : List (List α)),
      NF.RowIndependenceMore.RowIndep
        (NF.Density.stdNormalLogProb o shape inShape (NF.RowIndependenceMore.ctxOf c rows.length) rows) rows.length
        fun (i : ℕ) => NF.Density.stdNormalLogProb o shape inShape (NF.RowIndependenceMore.ctxOf c 1) [rows.getD i []] :=
  @NF.RowIndependenceMore.stdNormal_logProb_row_independent

theorem diagNormal_logProb_row_independent :
    ∀ {α : Type} (o : XOps α) (shape inShape : List ℕ)
      (c : Bool) (mean logStd : List α) (rows : List (List α)),
      NF.RowIndependenceMore.RowIndep
        (NF.Density.diagNormalLogProb o shape inShape (NF.RowIndependenceMore.ctxOf c rows.length) mean logStd rows)
        rows.length fun (i : ℕ) =>
        NF.Density.diagNormalLogProb o shape inShape (NF.RowIndependenceMore.ctxOf c 1) mean logStd [rows.getD i []] :=
  @NF.RowIndependenceMore.diagNormal_logProb_row_independent

theorem condNormal_logProb_row_independent :
    ∀ {α : Type} (o : XOps α) (shape inShape pShape : List ℕ),
      pShape ≠ [] →
        ∀ (params rows : List (List α)),
          params.length = rows.length →
            NF.RowIndependenceMore.RowIndep
              (NF.Density.condNormalLogProb o shape inShape (Option.some rows.length) rows.length pShape params rows)
              rows.length fun (i : ℕ) =>
              NF.Density.condNormalLogProb o shape inShape (Option.some 1) 1 pShape [params.getD i []] [rows.getD i []] :=
  @NF.RowIndependenceMore.condNormal_logProb_row_independent

theorem bern_logProb_row_independent :
    ∀ {α : Type} (o : XOps α) (shape inShape pShape : List ℕ)
      (params rows : List (List α)),
      NF.RowIndependenceMore.RowIndep
        (NF.Density.bernLogProb o shape inShape (Option.some rows.length) rows.length pShape params rows) rows.length
        fun (i : ℕ) => NF.Density.bernLogProb o shape inShape (Option.some 1) 1 pShape [params.getD i []] [rows.getD i []] :=
  @NF.RowIndependenceMore.bern_logProb_row_independent

theorem mog_logProb_row_independent :
    ∀ {α : Type} (o : XOps α) (eps : α) (F M : ℕ) (c : Bool)
      (outs rows : List (List α)),
      NF.RowIndependenceMore.RowIndep
        (NF.Density.mogLogProb o eps F M (NF.RowIndependenceMore.ctxOf c rows.length) outs rows) rows.length fun (i : ℕ) =>
        NF.Density.mogLogProb o eps F M (NF.RowIndependenceMore.ctxOf c 1) [outs.getD i []] [rows.getD i []] :=
  @NF.RowIndependenceMore.mog_logProb_row_independent

theorem flow_logProb_row_independent :
    ∀ {Z X C E V : Type} (f : NF.FlowPairing.FlowFns Z X C E V)
      (emb : List C → List E) (T : List X → List E → List Z × List V) (blp : List Z → List E → List V),
      NF.RowIndependenceMore.RowWise f emb T blp →
        ∀ (xs : List X) (ctx : List C),
          xs.length = ctx.length →
            NF.RowIndependenceMore.flowLogProbBatch emb T blp f.add xs ctx = NF.FlowPairing.flowLogProb f xs ctx ∧
              (NF.RowIndependenceMore.flowLogProbBatch emb T blp f.add xs ctx).length = xs.length ∧
                ∀ (i : ℕ) (x : X) (c : C),
                  xs[i]? = Option.some x →
                    ctx[i]? = Option.some c →
                      (NF.RowIndependenceMore.flowLogProbBatch emb T blp f.add xs ctx)[i]? =
                          Option.some (NF.FlowPairing.flowLogProb1 f x c) ∧
                        NF.RowIndependenceMore.flowLogProbBatch emb T blp f.add [x] [c] =
                          [NF.FlowPairing.flowLogProb1 f x c] :=
  @NF.RowIndependenceMore.flow_logProb_row_independent

theorem rowWise_stdNormal_base :
    ∀ {C E α : Type} (o : XOps α) (D : ℕ) (embRow : C → E)
      (tfwd : List α → E → List α) (ld : List α → E → α),
      NF.RowIndependenceMore.RowWise
        { emb := embRow, tinv := fun (z : List α) (x : E) => z, ldInv := fun (x : List α) (x_1 : E) => o.zero, tfwd := tfwd,
          ld := ld, blp := fun (z : List α) (x : E) => NF.Density.stdNormalRow o D z, add := o.add, sub := o.sub }
        (fun (ctx : List C) => List.map embRow ctx)
        (fun (xs : List (List α)) (es : List E) => (List.zipWith tfwd xs es, List.zipWith ld xs es))
        fun (zs : List (List α)) (x : List E) => List.map (NF.Density.stdNormalRow o D) zs :=
  @NF.RowIndependenceMore.rowWise_stdNormal_base

theorem conv_forward_item_independent :
    ∀ {α : Type} (o : Ops α) (p : NF.LF.LUParams α) (perm : List ℕ),
      (∀ c < p.n, perm.getD c 0 < p.n) →
        ∀ {B B' b b' : ℕ} (H W : ℕ) (xs xs' : List α),
          b < B →
            b' < B' →
              NF.RowIndependenceMore.ItemAgree o p.n H W b b' xs xs' →
                NF.RowIndependenceMore.ItemAgree o p.n H W b b' (NF.LF.convForward o p perm B H W xs).1
                    (NF.LF.convForward o p perm B' H W xs').1 ∧
                  (NF.LF.convForward o p perm B H W xs).2[b]? = (NF.LF.convForward o p perm B' H W xs').2[b']? :=
  @NF.RowIndependenceMore.conv_forward_item_independent

theorem conv_inverse_item_independent :
    ∀ {α : Type} (o : Ops α) (p : NF.LF.LUParams α) (perm : List ℕ),
      (∀ c < p.n, List.idxOf c perm < p.n) →
        ∀ {B B' b b' : ℕ} (H W : ℕ) (xs xs' : List α),
          b < B →
            b' < B' →
              NF.RowIndependenceMore.ItemAgree o p.n H W b b' xs xs' →
                NF.RowIndependenceMore.ItemAgree o p.n H W b b' (NF.LF.convInverse o p perm B H W xs).1
                    (NF.LF.convInverse o p perm B' H W xs').1 ∧
                  (NF.LF.convInverse o p perm B H W xs).2[b]? = (NF.LF.convInverse o p perm B' H W xs').2[b']? :=
  @NF.RowIndependenceMore.conv_inverse_item_independent

end Properties.C12
