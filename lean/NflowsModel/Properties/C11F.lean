import NflowsModel.Properties.C11
import NflowsModel.Lemmas.LinearFresh
/-!
# C11 (continued) — fresh layers are usable; what the passes return

External audit, C11 findings 2 and 4 (proofs in `Lemmas/LinearFresh.lean`): the constructors are model functions (with the code's
error order, incl. SVD's `assert num_householder % 2 == 0`); the parameters they produce satisfy the hypotheses of `lu_executed` /
`qr_executed` / `svd_executed` for ALL accepted sizes, in both initialisation modes — a fresh layer has an invertible weight, a
two-sided `weight_inverse()`, `inverse ∘ forward = id` on every row of every batch and `logabsdet() = log|det W|`; with
`identity_init=True` and `0 ≤ eps < 1` the fresh weight IS the identity (for SVD the constructor's reflections cancel in pairs),
and `eps < 1` is forced (theorem; no constructor validates `eps`).  The log-abs-dets the PASSES return (`c·ones(B)`, `−c·ones(B)`,
zeros for Householder sequences) are `log|det W|`, `log|det W⁻¹|`, `log|det Q| = 0` of the matrices the accessors describe.
-/
set_option linter.all false
namespace Properties.C11

theorem lu_fresh_usable :
    ∀ (n : ℕ) (eps : ℝ),
      0 ≤ eps →
        ∀ (lo up ud : List ℝ),
          ud.length = n →
            LinearFresh.Usable n (NF.LF.luWeight DualSound.realOps (LinearFresh.luInit DualSound.realOps n eps lo up ud))
              (NF.LF.luWeightInverse DualSound.realOps (LinearFresh.luInit DualSound.realOps n eps lo up ud))
              (NF.LF.luLogabsdet DualSound.realOps (LinearFresh.luInit DualSound.realOps n eps lo up ud))
              (NF.LF.luForward DualSound.realOps (LinearFresh.luInit DualSound.realOps n eps lo up ud))
              (NF.LF.luInverse DualSound.realOps (LinearFresh.luInit DualSound.realOps n eps lo up ud)) 0 :=
  @LinearFresh.lu_fresh_usable

theorem lu_fresh_identity_usable :
    ∀ (n : ℕ) (eps : ℝ),
      0 ≤ eps →
        LinearFresh.Usable n (NF.LF.luWeight DualSound.realOps (LinearFresh.luIdInit DualSound.realOps n eps))
          (NF.LF.luWeightInverse DualSound.realOps (LinearFresh.luIdInit DualSound.realOps n eps))
          (NF.LF.luLogabsdet DualSound.realOps (LinearFresh.luIdInit DualSound.realOps n eps))
          (NF.LF.luForward DualSound.realOps (LinearFresh.luIdInit DualSound.realOps n eps))
          (NF.LF.luInverse DualSound.realOps (LinearFresh.luIdInit DualSound.realOps n eps)) 0 :=
  @LinearFresh.lu_fresh_id_usable

theorem qr_fresh_usable :
    ∀ (n num : ℕ),
      1 ≤ n →
        ∀ (up ld : List ℝ),
          ld.length = n →
            LinearFresh.Usable n (NF.LF.qrWeight DualSound.realOps (LinearFresh.qrInit DualSound.realOps n num up ld))
              (NF.LF.qrWeightInverse DualSound.realOps (LinearFresh.qrInit DualSound.realOps n num up ld))
              (NF.LF.qrLogabsdet DualSound.realOps (LinearFresh.qrInit DualSound.realOps n num up ld))
              (NF.LF.qrForward DualSound.realOps (LinearFresh.qrInit DualSound.realOps n num up ld))
              (NF.LF.qrInverse DualSound.realOps (LinearFresh.qrInit DualSound.realOps n num up ld)) 0 :=
  @LinearFresh.qr_fresh_usable

theorem svd_fresh_usable :
    ∀ (n num : ℕ),
      1 ≤ n →
        ∀ (eps : ℝ),
          0 ≤ eps →
            ∀ (ud : List ℝ),
              ud.length = n →
                LinearFresh.Usable n
                  (NF.LF.svdWeight DualSound.realOps (LinearFresh.svdInit DualSound.realOps n num eps ud))
                  (NF.LF.svdWeightInverse DualSound.realOps (LinearFresh.svdInit DualSound.realOps n num eps ud))
                  (NF.LF.svdLogabsdet DualSound.realOps (LinearFresh.svdInit DualSound.realOps n num eps ud))
                  (NF.LF.svdForward DualSound.realOps (LinearFresh.svdInit DualSound.realOps n num eps ud))
                  (NF.LF.svdInverse DualSound.realOps (LinearFresh.svdInit DualSound.realOps n num eps ud)) 0 :=
  @LinearFresh.svd_fresh_usable

theorem svd_odd_count_rejected :
    ∀ {α : Type} (o : Ops α) (features num : ℤ),
      1 ≤ features →
        num % 2 = 1 →
          ∀ (eps : α) (ds : Option (List α)), LinearFresh.svdConstruct o features num eps ds = Except.error Err.assertion :=
  @LinearFresh.svd_odd_rejected

theorem lu_identity_init_is_identity :
    ∀ (n : ℕ) (eps : ℝ),
      0 ≤ eps →
        eps < 1 →
          LinearBridge.luW (LinearFresh.luIdInit DualSound.realOps n eps) = 1 ∧
            NF.LF.luWeight DualSound.realOps (LinearFresh.luIdInit DualSound.realOps n eps) =
                NF.LF.eye DualSound.realOps n ∧
              NF.LF.luLogabsdet DualSound.realOps (LinearFresh.luIdInit DualSound.realOps n eps) = 0 ∧
                ∀ (xs : List (Fin n → ℝ)),
                  NF.LF.luForward DualSound.realOps (LinearFresh.luIdInit DualSound.realOps n eps) (List.map List.ofFn xs) =
                    List.map List.ofFn xs :=
  @LinearFresh.lu_identity_init

theorem svd_identity_init_is_identity :
    ∀ (n k : ℕ),
      1 ≤ n →
        ∀ (eps : ℝ),
          0 ≤ eps →
            eps < 1 →
              NF.LF.svdWeight DualSound.realOps (LinearFresh.svdIdInit DualSound.realOps n (2 * k) eps) =
                  NF.LF.eye DualSound.realOps n ∧
                NF.LF.svdLogabsdet DualSound.realOps (LinearFresh.svdIdInit DualSound.realOps n (2 * k) eps) = 0 ∧
                  ∀ (xs : List (Fin n → ℝ)),
                    NF.LF.svdForward DualSound.realOps (LinearFresh.svdIdInit DualSound.realOps n (2 * k) eps)
                        (List.map List.ofFn xs) =
                      List.map List.ofFn xs :=
  @LinearFresh.svd_identity_init

theorem identity_init_needs_eps_lt_one :
    ∀ (eps c : ℝ), 1 ≤ eps → NF.LF.softplus DualSound.realOps c + eps ≠ 1 :=
  @LinearFresh.identity_init_needs_eps_lt_one

theorem lu_passes_return_logabsdet :
    ∀ (p : NF.LF.LUParams ℝ),
      p.udiag.length = p.n →
        0 ≤ p.eps →
          p.bias.length = p.n →
            LinearFresh.PassesAgree p.n (NF.LF.luWeight DualSound.realOps p) (NF.LF.luWeightInverse DualSound.realOps p)
              (LinearFresh.luForwardLd DualSound.realOps p) (LinearFresh.luInverseLd DualSound.realOps p)
              (LinearBridge.vecFn p.n p.bias) :=
  @LinearFresh.lu_passes

theorem qr_passes_return_logabsdet :
    ∀ (p : NF.LF.QRParams ℝ) (vs : List (Fin p.n → ℝ)),
      p.qs = List.map List.ofFn vs →
        (∀ v ∈ vs, v ⬝ᵥ v ≠ 0) →
          p.logDiag.length = p.n →
            p.bias.length = p.n →
              LinearFresh.PassesAgree p.n (NF.LF.qrWeight DualSound.realOps p) (NF.LF.qrWeightInverse DualSound.realOps p)
                (LinearFresh.qrForwardLd DualSound.realOps p) (LinearFresh.qrInverseLd DualSound.realOps p)
                (LinearBridge.vecFn p.n p.bias) :=
  @LinearFresh.qr_passes

theorem svd_passes_return_logabsdet :
    ∀ (p : NF.LF.SVDParams ℝ) (vs1 vs2 : List (Fin p.n → ℝ)),
      p.qs1 = List.map List.ofFn vs1 →
        p.qs2 = List.map List.ofFn vs2 →
          (∀ v ∈ vs1, v ⬝ᵥ v ≠ 0) →
            (∀ v ∈ vs2, v ⬝ᵥ v ≠ 0) →
              p.udiag.length = p.n →
                0 ≤ p.eps →
                  p.bias.length = p.n →
                    LinearFresh.PassesAgree p.n (NF.LF.svdWeight DualSound.realOps p)
                      (NF.LF.svdWeightInverse DualSound.realOps p) (LinearFresh.svdForwardLd DualSound.realOps p)
                      (LinearFresh.svdInverseLd DualSound.realOps p) (LinearBridge.vecFn p.n p.bias) :=
  @LinearFresh.svd_passes

theorem householder_passes_return_zero :
    ∀ {n : ℕ} (vs : List (Fin n → ℝ)),
      (∀ v ∈ vs, v ⬝ᵥ v ≠ 0) →
        NF.LF.hhMatrix DualSound.realOps n (List.map List.ofFn vs) = LinearBridge.ofMat (LinearFamily.Q vs) ∧
          Real.log |(LinearFamily.Q vs).det| = 0 ∧
            Real.log |(LinearFamily.Q vs).transpose.det| = 0 ∧
              ∀ (xs : List (Fin n → ℝ)),
                LinearFresh.hhForwardLd DualSound.realOps (List.map List.ofFn vs) (List.map List.ofFn xs) =
                    (List.map (fun (x : Fin n → ℝ) => List.ofFn ((LinearFamily.Q vs).mulVec x)) xs,
                      List.replicate xs.length (Real.log |(LinearFamily.Q vs).det|)) ∧
                  LinearFresh.hhInverseLd DualSound.realOps (List.map List.ofFn vs) (List.map List.ofFn xs) =
                      (List.map (fun (x : Fin n → ℝ) => List.ofFn ((LinearFamily.Q vs).transpose.mulVec x)) xs,
                        List.replicate xs.length (Real.log |(LinearFamily.Q vs).transpose.det|)) ∧
                    (LinearFresh.hhInverseLd DualSound.realOps (List.map List.ofFn vs)
                          (LinearFresh.hhForwardLd DualSound.realOps (List.map List.ofFn vs) (List.map List.ofFn xs)).1).1 =
                      List.map List.ofFn xs :=
  @LinearFresh.hh_passes

end Properties.C11
