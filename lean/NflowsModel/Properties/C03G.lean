import NflowsModel.Properties.C03
import NflowsModel.Lemmas.FlowGlowNormalised
/-!
# C03 (continued) — Glow-style flows are normalised

`Lemmas/FlowGlowNormalised.lean`.  The C03ND pipeline consumed closed inductive layer types without ActNorm, BatchNorm (evaluation),
Householder or NaiveLinear; `GlowLayer` adds them (every layer: bijective, Fréchet differentiable everywhere, `|det J| = exp` of the
RETURNED log-det — `GlowLayer_is_diffeo`; the batch run is the row run row by row — `ExecLinear_batch_row`, `actStep_batch`,
`bnStep_batch`).  `glow_flow_is_normalised`: any number of blocks [ActNorm, any of LU / QR / SVD / Householder / naive, coupling] in any
dimension over the executed standard normal — and over any normalised base — has `∫ exp(log_prob) = 1`;
`glow_flow_smooth_conditioner_is_normalised`: with additive or default-activation affine coupling whose conditioner depends on the context
arbitrarily and is differentiable (e.g. a tanh perceptron of identity features and context), for every context value, every `k`, with
no remaining hypothesis.  Not covered: ActNorm's data-dependent initialisation and training-mode BatchNorm (not row maps), images /
1×1 convolutions / multiscale, ReLU conditioners.
-/
set_option linter.all false
namespace Properties.C03

theorem execLinear_spec :
    ∀ {n : ℕ} (L : FlowGlowNormalised.ExecLinear n),
      Function.Bijective (LinearJacobian.affine L.M L.b) ∧
        (∀ (x : Fin n → ℝ), HasFDerivAt (LinearJacobian.affine L.M L.b) (LinearJacobian.jac L.M) x) ∧
          ∀ (v : Fin n → ℝ),
            (L.run v).1 = LinearJacobian.affine L.M L.b v ∧ |(LinearJacobian.jac L.M).det| = Real.exp (L.run v).2 :=
  @FlowGlowNormalised.execLinear_spec

theorem ExecLinear_batch_row :
    ∀ {n : ℕ} (L : FlowGlowNormalised.ExecLinear n) (X : List (List ℝ)) (i : ℕ)
      (hi : i < X.length),
      X[i].length = n →
        (L.F X).1[i]? = Option.some (List.ofFn (L.run (LinearBridge.vecFn n X[i])).1) ∧
          (L.F X).2[i]? = Option.some (L.run (LinearBridge.vecFn n X[i])).2 :=
  @FlowGlowNormalised.ExecLinear.batch_row

theorem actStep_batch :
    ∀ (e : Float → ℝ) {n : ℕ} (s : NF.Norm.ActSt ℝ),
      s.initialized = Bool.true →
        s.logScale.length = n →
          ∀ (xs : List (Fin n → ℝ)),
            NF.Norm.actStep (NF.realX e) n s (NF.Norm.NOp.fwd (NF.Norm.Batch.d2 (List.map List.ofFn xs))) =
              (s,
                Option.some
                  (Except.ok
                    (NF.Norm.Batch.d2 (List.map (fun (x : Fin n → ℝ) => List.ofFn (FlowGlowNormalised.actRun e s x).1) xs),
                      List.map (fun (x : Fin n → ℝ) => (FlowGlowNormalised.actRun e s x).2) xs))) :=
  @FlowGlowNormalised.actStep_batch

theorem bnStep_batch :
    ∀ (e : Float → ℝ) {n : ℕ} (cfg : NF.Norm.BNCfg ℝ),
      0 ≤ cfg.eps →
        ∀ (s : NF.Norm.BNSt ℝ),
          s.training = Bool.false →
            (∀ j < n, 0 < s.runVar.getD j 0 + cfg.eps) →
              ∀ (xs : List (Fin n → ℝ)),
                NF.Norm.bnStep (NF.realX e) cfg n s (NF.Norm.NOp.fwd (NF.Norm.Batch.d2 (List.map List.ofFn xs))) =
                  (s,
                    Option.some
                      (Except.ok
                        (NF.Norm.Batch.d2
                            (List.map (fun (x : Fin n → ℝ) => List.ofFn (FlowGlowNormalised.bnRun e cfg s x).1) xs),
                          List.map (fun (x : Fin n → ℝ) => (FlowGlowNormalised.bnRun e cfg s x).2) xs))) :=
  @FlowGlowNormalised.bnStep_batch

theorem GlowLayer_is_diffeo :
    ∀ {e : Float → ℝ} {n : ℕ} (L : FlowGlowNormalised.GlowLayer e n),
      (Function.Bijective fun (v : Fin n → ℝ) => (L.run v).1) ∧
        ∀ (v : Fin n → ℝ),
          HasFDerivAt (fun (v : Fin n → ℝ) => (L.run v).1) (L.part.T' v) v ∧ |(L.part.T' v).det| = Real.exp (L.run v).2 :=
  @FlowGlowNormalised.GlowLayer.is_diffeo

theorem glow_flow_is_normalised :
    ∀ {e : Float → ℝ} {n : ℕ} (bs : List (FlowGlowNormalised.GlowBlock e n)),
      ∫ (x : Fin n → ℝ),
          Real.exp
            (NF.Density.stdNormalRow (NF.realX e) n
                (List.ofFn (FlowGlowNormalised.runAllG (FlowGlowNormalised.glowLayers bs) x).1) +
              (FlowGlowNormalised.runAllG (FlowGlowNormalised.glowLayers bs) x).2) =
        1 :=
  @FlowGlowNormalised.glow_flow_is_normalised

theorem glow_flow_is_normalised_any_base :
    ∀ {e : Float → ℝ} {n : ℕ}
      (bs : List (FlowGlowNormalised.GlowBlock e n)) (blp : (Fin n → ℝ) → ℝ),
      ∫ (z : Fin n → ℝ), Real.exp (blp z) = 1 →
        ∫ (x : Fin n → ℝ),
            Real.exp
              (blp (FlowGlowNormalised.runAllG (FlowGlowNormalised.glowLayers bs) x).1 +
                (FlowGlowNormalised.runAllG (FlowGlowNormalised.glowLayers bs) x).2) =
          1 :=
  @FlowGlowNormalised.glow_flow_is_normalised_any_base

theorem glow_flow_is_normalised_flowLogProb0 :
    ∀ {e : Float → ℝ} {n : ℕ}
      (bs : List (FlowGlowNormalised.GlowBlock e n)) (blp : (Fin n → ℝ) → ℝ),
      ∫ (z : Fin n → ℝ), Real.exp (blp z) = 1 →
        ∫ (x : Fin n → ℝ),
            Real.exp
              (NF.FlowPairing.flowLogProb0
                (FlowMore.progFlow (List.map FlowGlowNormalised.GlowLayer.part (FlowGlowNormalised.glowLayers bs)) blp) x) =
          1 :=
  @FlowGlowNormalised.glow_flow_is_normalised_flowLogProb0

theorem glow_flow_smooth_conditioner_is_normalised :
    ∀ {e : Float → ℝ} {n : ℕ} {Ctx : Type}
      (sps : List (FlowGlowNormalised.GlowSpec e n Ctx)) (ctx : Ctx) (blp : Ctx → (Fin n → ℝ) → ℝ),
      (∀ (ctx : Ctx), ∫ (z : Fin n → ℝ), Real.exp (blp ctx z) = 1) →
        ∫ (x : Fin n → ℝ),
              Real.exp
                (NF.Density.stdNormalRow (NF.realX e) n
                    (List.ofFn
                      (FlowGlowNormalised.runAllG
                          (FlowGlowNormalised.glowLayers
                            (List.map (fun (sp : FlowGlowNormalised.GlowSpec e n Ctx) => sp.block ctx) sps))
                          x).1) +
                  (FlowGlowNormalised.runAllG
                      (FlowGlowNormalised.glowLayers
                        (List.map (fun (sp : FlowGlowNormalised.GlowSpec e n Ctx) => sp.block ctx) sps))
                      x).2) =
            1 ∧
          ∫ (x : Fin n → ℝ),
              Real.exp
                (blp ctx
                    (FlowGlowNormalised.runAllG
                        (FlowGlowNormalised.glowLayers
                          (List.map (fun (sp : FlowGlowNormalised.GlowSpec e n Ctx) => sp.block ctx) sps))
                        x).1 +
                  (FlowGlowNormalised.runAllG
                      (FlowGlowNormalised.glowLayers
                        (List.map (fun (sp : FlowGlowNormalised.GlowSpec e n Ctx) => sp.block ctx) sps))
                      x).2) =
            1 :=
  @FlowGlowNormalised.glow_flow_smooth_conditioner_is_normalised

theorem executed_pipelineG_normalised :
    ∀ {e : Float → ℝ} {n : ℕ}
      (Ls : List (FlowGlowNormalised.GlowLayer e n)),
      ∫ (x : Fin n → ℝ),
          Real.exp
            (NF.Density.stdNormalRow (NF.realX e) n (List.ofFn (FlowGlowNormalised.runAllG Ls x).1) +
              (FlowGlowNormalised.runAllG Ls x).2) =
        1 :=
  @FlowGlowNormalised.executed_pipelineG_normalised

theorem executed_pipelineG_normalised_any_base :
    ∀ {e : Float → ℝ} {n : ℕ}
      (Ls : List (FlowGlowNormalised.GlowLayer e n)) (blp : (Fin n → ℝ) → ℝ),
      ∫ (z : Fin n → ℝ), Real.exp (blp z) = 1 →
        ∫ (x : Fin n → ℝ), Real.exp (blp (FlowGlowNormalised.runAllG Ls x).1 + (FlowGlowNormalised.runAllG Ls x).2) = 1 :=
  @FlowGlowNormalised.executed_pipelineG_normalised_any_base

end Properties.C03
