import NflowsModel.Properties.C04
import NflowsModel.Lemmas.StageMore
/-!
# C04 (continued) — the pairing theorem with the round-trip law discharged

`Lemmas/StageMore.lean`.  `Properties.C04.flowSalpExec_consistent` took the stage's round-trip law as a hypothesis.  FINDING about the
statement itself: `RoundTripStage` as first defined is FALSE for element-wise stages on arrays shorter than the stage width (missing
entries read as zero; `roundTripStage_cdf_short_false`) — restated with an explicit size predicate (`RoundTripEq`, `RoundTripOn`,
`flowSalpExec_consistent_on`).  Proved at the reals for the executed coupling stage with an additive, affine or RQ-with-tails element and
ANY conditioner (the identity features feed the conditioner in both directions), for `Exp`, affine, LeakyReLU, Tanh (`−10 ≤ artanh y`:
the softplus threshold) and the RQ CDF stage, and closed under composition (inverse = reversed list).  Corollaries
`flowSalpExec_consistent_coupling_{affine,additive,rqTails}`: the value returned with sample `[i, j]` IS `log_prob` of that sample alone
under context row `i`, with no round-trip hypothesis left (networks row-wise, base row-independent remain hypotheses).
-/
set_option linter.all false
namespace Properties.C04

theorem roundTripStage_cdf_short_false :
    ∀ {α : Type} (o : XOps α) (c : NF.ElCfg) (n : ℕ) (params : Array α),
      0 < n →
        (∃ (s : Array α) (d : α), NF.FlowRowsExec.cdfStage o c n Bool.true params 1 #[] #[] = Except.ok (s, [d])) →
          ¬NF.FlowRowsExec.RoundTripStage o n (NF.FlowRowsExec.cdfStage o c n Bool.false params)
              (NF.FlowRowsExec.cdfStage o c n Bool.true params) :=
  @NF.StageMore.roundTripStage_cdf_short_false

theorem roundTrip_couplingStage :
    ∀ (e : Float → ℝ) (c : NF.ElCfg) (mask : List ℝ) (S : ℕ) (up up' : Array ℝ)
      (net : ℕ → Array ℝ → Array ℝ → Array ℝ),
      (∀ (params : Array ℝ),
          NF.StructureExec.ElInvertibleRev (NF.realX e) c (NF.transformIdx (NF.realX e) mask).length S params 1) →
        NF.StageMore.RoundTripEq (NF.realX e) (fun (z : Array ℝ) => mask.length * S ≤ z.size)
          (fun (s : Array ℝ) => mask.length * S ≤ s.size)
          (NF.FlowRowsExec.couplingStage (NF.realX e) c mask S Bool.false Option.none up' net)
          (NF.FlowRowsExec.couplingStage (NF.realX e) c mask S Bool.true Option.none up net) :=
  @NF.StageMore.roundTrip_couplingStage

theorem roundTrip_couplingStage_affine :
    ∀ (e : Float → ℝ) (c : NF.ElCfg) (mask : List ℝ) (S : ℕ)
      (up up' : Array ℝ) (net : ℕ → Array ℝ → Array ℝ → Array ℝ),
      0 ≤ e 1e-3 →
        c.kind = "affine" →
          NF.StageMore.RoundTripEq (NF.realX e) (fun (z : Array ℝ) => mask.length * S ≤ z.size)
            (fun (s : Array ℝ) => mask.length * S ≤ s.size)
            (NF.FlowRowsExec.couplingStage (NF.realX e) c mask S Bool.false Option.none up' net)
            (NF.FlowRowsExec.couplingStage (NF.realX e) c mask S Bool.true Option.none up net) :=
  @NF.StageMore.roundTrip_couplingStage_affine

theorem roundTrip_couplingStage_additive :
    ∀ (e : Float → ℝ) (c : NF.ElCfg) (mask : List ℝ) (S : ℕ)
      (up up' : Array ℝ) (net : ℕ → Array ℝ → Array ℝ → Array ℝ),
      c.kind = "additive" →
        NF.StageMore.RoundTripEq (NF.realX e) (fun (z : Array ℝ) => mask.length * S ≤ z.size)
          (fun (s : Array ℝ) => mask.length * S ≤ s.size)
          (NF.FlowRowsExec.couplingStage (NF.realX e) c mask S Bool.false Option.none up' net)
          (NF.FlowRowsExec.couplingStage (NF.realX e) c mask S Bool.true Option.none up net) :=
  @NF.StageMore.roundTrip_couplingStage_additive

theorem roundTrip_couplingStage_rqTails :
    ∀ (e : Float → ℝ) (c : NF.ElCfg) (mask : List ℝ) (S : ℕ)
      (up up' : Array ℝ) (net : ℕ → Array ℝ → Array ℝ → Array ℝ),
      NF.StructureExec.RQTailsCfgValid e c →
        NF.StageMore.RoundTripEq (NF.realX e) (fun (z : Array ℝ) => mask.length * S ≤ z.size)
          (fun (s : Array ℝ) => mask.length * S ≤ s.size)
          (NF.FlowRowsExec.couplingStage (NF.realX e) c mask S Bool.false Option.none up' net)
          (NF.FlowRowsExec.couplingStage (NF.realX e) c mask S Bool.true Option.none up net) :=
  @NF.StageMore.roundTrip_couplingStage_rqTails

theorem roundTrip_compStage :
    ∀ (e : Float → ℝ) (P : Array ℝ → Prop)
      (ps : List (NF.FlowRowsExec.BStage ℝ × NF.FlowRowsExec.BStage ℝ)),
      (∀ p ∈ ps, NF.StageMore.RoundTripEq (NF.realX e) P P p.1 p.2) →
        NF.StageMore.RoundTripEq (NF.realX e) P P (NF.FlowRowsExec.compStage (NF.realX e) (List.map Prod.fst ps))
          (NF.FlowRowsExec.compStage (NF.realX e) (List.map Prod.snd ps.reverse)) :=
  @NF.StageMore.roundTrip_compStage

theorem roundTrip_nonlinStage_exp :
    ∀ (e : Float → ℝ) (ds : Array Float) (ps : List ℝ) (n : ℕ),
      NF.StageMore.RoundTripEq (NF.realX e) (fun (z : Array ℝ) => z.size = n ∧ ∀ y ∈ z.toList, True)
        (fun (s : Array ℝ) => s.size = n) (NF.StageMore.nonlinStage (NF.realX e) "Exp" ds ps Bool.false)
        (NF.StageMore.nonlinStage (NF.realX e) "Exp" ds ps Bool.true) :=
  @NF.StageMore.roundTrip_nonlinStage_exp

theorem roundTrip_nonlinStage_affine :
    ∀ (e : Float → ℝ) (ds : Array Float) (ps : List ℝ),
      ps.getD 0 0 ≠ 0 →
        ∀ (n : ℕ),
          NF.StageMore.RoundTripEq (NF.realX e) (fun (z : Array ℝ) => z.size = n ∧ ∀ y ∈ z.toList, True)
            (fun (s : Array ℝ) => s.size = n) (NF.StageMore.nonlinStage (NF.realX e) "Affine" ds ps Bool.false)
            (NF.StageMore.nonlinStage (NF.realX e) "Affine" ds ps Bool.true) :=
  @NF.StageMore.roundTrip_nonlinStage_affine

theorem roundTrip_nonlinStage_leakyRelu :
    ∀ (e : Float → ℝ) (ds : Array Float) (ps : List ℝ),
      NonlinExec.LeakyConsts e (ds.getD 0 0.0) (ps.getD 0 0) →
        ∀ (n : ℕ),
          NF.StageMore.RoundTripEq (NF.realX e) (fun (z : Array ℝ) => z.size = n ∧ ∀ y ∈ z.toList, True)
            (fun (s : Array ℝ) => s.size = n) (NF.StageMore.nonlinStage (NF.realX e) "LeakyReLU" ds ps Bool.false)
            (NF.StageMore.nonlinStage (NF.realX e) "LeakyReLU" ds ps Bool.true) :=
  @NF.StageMore.roundTrip_nonlinStage_leakyRelu

theorem roundTrip_nonlinStage_tanh :
    ∀ (e : Float → ℝ) (ds : Array Float) (ps : List ℝ),
      NonlinExec.TanhConsts e →
        ∀ (n : ℕ),
          NF.StageMore.RoundTripEq (NF.realX e)
            (fun (z : Array ℝ) => z.size = n ∧ ∀ y ∈ z.toList, -10 ≤ NonlinExec.artanh y) (fun (s : Array ℝ) => s.size = n)
            (NF.StageMore.nonlinStage (NF.realX e) "Tanh" ds ps Bool.false)
            (NF.StageMore.nonlinStage (NF.realX e) "Tanh" ds ps Bool.true) :=
  @NF.StageMore.roundTrip_nonlinStage_tanh

theorem roundTrip_cdfStage_rqTails :
    ∀ (e : Float → ℝ) (c : NF.ElCfg) (n : ℕ) (params : Array ℝ),
      NF.StructureExec.RQTailsCfgValid e c →
        NF.StageMore.RoundTripEq (NF.realX e) (fun (z : Array ℝ) => z.size = n) (fun (s : Array ℝ) => s.size = n)
          (NF.FlowRowsExec.cdfStage (NF.realX e) c n Bool.false params)
          (NF.FlowRowsExec.cdfStage (NF.realX e) c n Bool.true params) :=
  @NF.StageMore.roundTrip_cdfStage_rqTails

theorem flowSalpExec_consistent_on :
    ∀ {α : Type} (o : XOps α) {P : Array α → Prop} {w rcw cw R n : ℕ}
      {emb : ℕ → Array α → Array α} {T Tinv : NF.FlowRowsExec.BStage α} {base : NF.FlowRowsExec.BaseD α}
      {noise ctx : Array α},
      NF.FlowRowsExec.RowWiseStage w cw Tinv →
        NF.FlowRowsExec.RowIndepBase cw base →
          NF.FlowRowsExec.EmbRowWise rcw cw emb →
            R * cw ≤ (emb R ctx).size →
              NF.StageMore.RoundTripOn o P w T Tinv →
                (∀ (a b : α), o.sub a b = o.add a (o.neg b)) →
                  ∀ {s : Array α} {lps : List α},
                    NF.FlowRowsExec.flowSalpExec o w cw R n emb Tinv base noise ctx = Except.ok (s, lps) →
                      ∀ {i j : ℕ},
                        i < R →
                          j < n →
                            ∀ (zr cr : Array α),
                              P zr →
                                NF.FlowRowsExec.RowEq w (i * n + j) 0 noise zr →
                                  NF.FlowRowsExec.RowEq rcw i 0 ctx cr →
                                    ∃ (si : Array α) (lp : α),
                                      NF.FlowRowsExec.RowEq w (i * n + j) 0 s si ∧
                                        lps[i * n + j]? = Option.some lp ∧
                                          NF.FlowRowsExec.flowLogProbExec o w emb T base 1 si cr = Except.ok [lp] :=
  @NF.StageMore.flowSalpExec_consistent_on

theorem flowSalpExec_consistent_coupling :
    ∀ (e : Float → ℝ) (c : NF.ElCfg) (mask : List ℝ) (S : ℕ)
      (up up' : Array ℝ) (net : ℕ → Array ℝ → Array ℝ → Array ℝ) {rcw cw R n : ℕ} {emb : ℕ → Array ℝ → Array ℝ}
      {base : NF.FlowRowsExec.BaseD ℝ} {noise ctx : Array ℝ},
      (∀ (params : Array ℝ),
          NF.StructureExec.ElInvertibleRev (NF.realX e) c (NF.transformIdx (NF.realX e) mask).length S params 1) →
        NF.FlowRowsExec.NetRowWise ((NF.identityIdx (NF.realX e) mask).length * S) cw
            (NF.StructureExec.paramWidth c (NF.transformIdx (NF.realX e) mask).length * S) net →
          NF.FlowRowsExec.RowIndepBase cw base →
            NF.FlowRowsExec.EmbRowWise rcw cw emb →
              R * cw ≤ (emb R ctx).size →
                ∀ {s : Array ℝ} {lps : List ℝ},
                  NF.FlowRowsExec.flowSalpExec (NF.realX e) (mask.length * S) cw R n emb
                        (NF.FlowRowsExec.couplingStage (NF.realX e) c mask S Bool.true Option.none up net) base noise ctx =
                      Except.ok (s, lps) →
                    ∀ {i j : ℕ},
                      i < R →
                        j < n →
                          ∀ (zr cr : Array ℝ),
                            mask.length * S ≤ zr.size →
                              NF.FlowRowsExec.RowEq (mask.length * S) (i * n + j) 0 noise zr →
                                NF.FlowRowsExec.RowEq rcw i 0 ctx cr →
                                  ∃ (si : Array ℝ) (lp : ℝ),
                                    NF.FlowRowsExec.RowEq (mask.length * S) (i * n + j) 0 s si ∧
                                      lps[i * n + j]? = Option.some lp ∧
                                        NF.FlowRowsExec.flowLogProbExec (NF.realX e) (mask.length * S) emb
                                            (NF.FlowRowsExec.couplingStage (NF.realX e) c mask S Bool.false Option.none up'
                                              net)
                                            base 1 si cr =
                                          Except.ok [lp] :=
  @NF.StageMore.flowSalpExec_consistent_coupling

theorem flowSalpExec_consistent_coupling_affine :
    ∀ (e : Float → ℝ) (c : NF.ElCfg) (mask : List ℝ) (S : ℕ)
      (up up' : Array ℝ) (net : ℕ → Array ℝ → Array ℝ → Array ℝ) {rcw cw R n : ℕ} {emb : ℕ → Array ℝ → Array ℝ}
      {base : NF.FlowRowsExec.BaseD ℝ} {noise ctx : Array ℝ},
      0 ≤ e 1e-3 →
        c.kind = "affine" →
          NF.FlowRowsExec.NetRowWise ((NF.identityIdx (NF.realX e) mask).length * S) cw
              (NF.StructureExec.paramWidth c (NF.transformIdx (NF.realX e) mask).length * S) net →
            NF.FlowRowsExec.RowIndepBase cw base →
              NF.FlowRowsExec.EmbRowWise rcw cw emb →
                R * cw ≤ (emb R ctx).size →
                  ∀ {s : Array ℝ} {lps : List ℝ},
                    NF.FlowRowsExec.flowSalpExec (NF.realX e) (mask.length * S) cw R n emb
                          (NF.FlowRowsExec.couplingStage (NF.realX e) c mask S Bool.true Option.none up net) base noise
                          ctx =
                        Except.ok (s, lps) →
                      ∀ {i j : ℕ},
                        i < R →
                          j < n →
                            ∀ (zr cr : Array ℝ),
                              mask.length * S ≤ zr.size →
                                NF.FlowRowsExec.RowEq (mask.length * S) (i * n + j) 0 noise zr →
                                  NF.FlowRowsExec.RowEq rcw i 0 ctx cr →
                                    ∃ (si : Array ℝ) (lp : ℝ),
                                      NF.FlowRowsExec.RowEq (mask.length * S) (i * n + j) 0 s si ∧
                                        lps[i * n + j]? = Option.some lp ∧
                                          NF.FlowRowsExec.flowLogProbExec (NF.realX e) (mask.length * S) emb
                                              (NF.FlowRowsExec.couplingStage (NF.realX e) c mask S Bool.false Option.none
                                                up' net)
                                              base 1 si cr =
                                            Except.ok [lp] :=
  @NF.StageMore.flowSalpExec_consistent_coupling_affine

theorem flowSalpExec_consistent_coupling_additive :
    ∀ (e : Float → ℝ) (c : NF.ElCfg) (mask : List ℝ) (S : ℕ)
      (up up' : Array ℝ) (net : ℕ → Array ℝ → Array ℝ → Array ℝ) {rcw cw R n : ℕ} {emb : ℕ → Array ℝ → Array ℝ}
      {base : NF.FlowRowsExec.BaseD ℝ} {noise ctx : Array ℝ},
      c.kind = "additive" →
        NF.FlowRowsExec.NetRowWise ((NF.identityIdx (NF.realX e) mask).length * S) cw
            (NF.StructureExec.paramWidth c (NF.transformIdx (NF.realX e) mask).length * S) net →
          NF.FlowRowsExec.RowIndepBase cw base →
            NF.FlowRowsExec.EmbRowWise rcw cw emb →
              R * cw ≤ (emb R ctx).size →
                ∀ {s : Array ℝ} {lps : List ℝ},
                  NF.FlowRowsExec.flowSalpExec (NF.realX e) (mask.length * S) cw R n emb
                        (NF.FlowRowsExec.couplingStage (NF.realX e) c mask S Bool.true Option.none up net) base noise ctx =
                      Except.ok (s, lps) →
                    ∀ {i j : ℕ},
                      i < R →
                        j < n →
                          ∀ (zr cr : Array ℝ),
                            mask.length * S ≤ zr.size →
                              NF.FlowRowsExec.RowEq (mask.length * S) (i * n + j) 0 noise zr →
                                NF.FlowRowsExec.RowEq rcw i 0 ctx cr →
                                  ∃ (si : Array ℝ) (lp : ℝ),
                                    NF.FlowRowsExec.RowEq (mask.length * S) (i * n + j) 0 s si ∧
                                      lps[i * n + j]? = Option.some lp ∧
                                        NF.FlowRowsExec.flowLogProbExec (NF.realX e) (mask.length * S) emb
                                            (NF.FlowRowsExec.couplingStage (NF.realX e) c mask S Bool.false Option.none up'
                                              net)
                                            base 1 si cr =
                                          Except.ok [lp] :=
  @NF.StageMore.flowSalpExec_consistent_coupling_additive

theorem flowSalpExec_consistent_coupling_rqTails :
    ∀ (e : Float → ℝ) (c : NF.ElCfg) (mask : List ℝ) (S : ℕ)
      (up up' : Array ℝ) (net : ℕ → Array ℝ → Array ℝ → Array ℝ) {rcw cw R n : ℕ} {emb : ℕ → Array ℝ → Array ℝ}
      {base : NF.FlowRowsExec.BaseD ℝ} {noise ctx : Array ℝ},
      NF.StructureExec.RQTailsCfgValid e c →
        NF.FlowRowsExec.NetRowWise ((NF.identityIdx (NF.realX e) mask).length * S) cw
            (NF.StructureExec.paramWidth c (NF.transformIdx (NF.realX e) mask).length * S) net →
          NF.FlowRowsExec.RowIndepBase cw base →
            NF.FlowRowsExec.EmbRowWise rcw cw emb →
              R * cw ≤ (emb R ctx).size →
                ∀ {s : Array ℝ} {lps : List ℝ},
                  NF.FlowRowsExec.flowSalpExec (NF.realX e) (mask.length * S) cw R n emb
                        (NF.FlowRowsExec.couplingStage (NF.realX e) c mask S Bool.true Option.none up net) base noise ctx =
                      Except.ok (s, lps) →
                    ∀ {i j : ℕ},
                      i < R →
                        j < n →
                          ∀ (zr cr : Array ℝ),
                            mask.length * S ≤ zr.size →
                              NF.FlowRowsExec.RowEq (mask.length * S) (i * n + j) 0 noise zr →
                                NF.FlowRowsExec.RowEq rcw i 0 ctx cr →
                                  ∃ (si : Array ℝ) (lp : ℝ),
                                    NF.FlowRowsExec.RowEq (mask.length * S) (i * n + j) 0 s si ∧
                                      lps[i * n + j]? = Option.some lp ∧
                                        NF.FlowRowsExec.flowLogProbExec (NF.realX e) (mask.length * S) emb
                                            (NF.FlowRowsExec.couplingStage (NF.realX e) c mask S Bool.false Option.none up'
                                              net)
                                            base 1 si cr =
                                          Except.ok [lp] :=
  @NF.StageMore.flowSalpExec_consistent_coupling_rqTails

end Properties.C04
