import NflowsModel.Properties.C03
import NflowsModel.Lemmas.FlowBounded
/-!
# C03 (continued) — flows on a box are normalised

The theorems of `C03` / `C03ND` are for bijections of the whole line / ℝⁿ with a Gaussian base.  Here (external audit, finding C03-3;
proofs in `Lemmas/FlowBounded.lean`): a transform that is a bijection of `[a,b]` onto `[c,d]`, differentiable off a countable set
with `|T'| = exp ld`, followed by ANY base density integrating to one on `[c,d]` (in particular the uniform one, also the executed
`BoxUniform` row), gives `∫ x in [a,b], exp(log_prob x) = 1`; discharged for the EXECUTED bounded RQ, quadratic, cubic and linear
spline programs (knots are a finite, hence null, exception set), with a hypothesis-free example at the library defaults.
-/
set_option linter.all false
namespace Properties.C03

theorem box_flow_normalised :
    ∀ {T ld : ℝ → ℝ} {a b c d : ℝ} {K : Set ℝ},
      FlowBounded.BoxFlow T ld a b c d K →
        ∀ (g : ℝ → ℝ), ∫ (z : ℝ) in Set.Icc c d, g z = 1 → ∫ (x : ℝ) in Set.Icc a b, g (T x) * Real.exp (ld x) = 1 :=
  @FlowBounded.box_flow_normalised

theorem rq_uniform_flow_normalised :
    ∀ {e : Float → ℝ} {cfg : NF.RQCfg} {uw uh ud : List ℝ},
      RQWhole.RQValid e cfg uw uh ud →
        ∫ (x : ℝ) in Set.Icc (e cfg.box.left) (e cfg.box.right),
            Real.exp (-Real.log (e cfg.box.top - e cfg.box.bottom) + RQWhole.ld e cfg uw uh ud x) =
          1 :=
  @FlowBounded.rq_uniform_flow_normalised

theorem rq_executed_uniform_flow_normalised :
    ∀ {e : Float → ℝ} {cfg : NF.RQCfg} {uw uh ud : List ℝ},
      RQWhole.RQValid e cfg uw uh ud →
        (∫ (x : ℝ) in Set.Icc (e cfg.box.left) (e cfg.box.right),
            if
                NF.Density.insideBox (NF.realX e) [e cfg.box.bottom] [e cfg.box.top] [RQWhole.val e cfg uw uh ud x] =
                  Bool.true then
              Real.exp
                (NF.Density.boxUniformRow (NF.realX e) [e cfg.box.bottom] [e cfg.box.top] [RQWhole.val e cfg uw uh ud x] +
                  RQWhole.ld e cfg uw uh ud x)
            else 0) =
          1 :=
  @FlowBounded.rq_executed_uniform_flow_normalised

theorem quad_uniform_flow_normalised :
    ∀ {e : Float → ℝ} {cfg : NF.QCfg} {uw uh : List ℝ},
      QuadWhole.QuadValid e cfg uw uh →
        e (NF.boxLog cfg.box) = Real.log ((e cfg.box.top - e cfg.box.bottom) / (e cfg.box.right - e cfg.box.left)) →
          ∫ (x : ℝ) in Set.Icc (e cfg.box.left) (e cfg.box.right),
              Real.exp (-Real.log (e cfg.box.top - e cfg.box.bottom) + QuadWhole.ld e cfg uw uh x) =
            1 :=
  @FlowBounded.quad_uniform_flow_normalised

theorem cubic_uniform_flow_normalised :
    ∀ {e : Float → ℝ} {cfg : NF.CCfg} {uw uh : List ℝ} {udl udr : ℝ},
      CubicWhole.CubicValid e cfg uw uh →
        e (NF.boxLog cfg.box) = Real.log ((e cfg.box.top - e cfg.box.bottom) / (e cfg.box.right - e cfg.box.left)) →
          ∫ (x : ℝ) in Set.Icc (e cfg.box.left) (e cfg.box.right),
              Real.exp (-Real.log (e cfg.box.top - e cfg.box.bottom) + CubicWhole.ld e cfg uw uh udl udr x) =
            1 :=
  @FlowBounded.cubic_uniform_flow_normalised

theorem lin_uniform_flow_normalised :
    ∀ {e : Float → ℝ} {box : NF.Box} {eps : Float} {up : List ℝ},
      LinWhole.LinValid e box eps up →
        e (1.0 / up.length.toFloat).log = Real.log (1 / (↑up.length : ℝ)) →
          e (NF.boxLog box) = Real.log ((e box.top - e box.bottom) / (e box.right - e box.left)) →
            ∫ (x : ℝ) in Set.Icc (e box.left) (e box.right),
                Real.exp (-Real.log (e box.top - e box.bottom) + LinWhole.ld e box eps up x) =
              1 :=
  @FlowBounded.lin_uniform_flow_normalised

theorem rq_default_bounded_flow_example :
    ∫ (x : ℝ) in
        Set.Icc (RQWhole.eH RQWhole.cH.box.left) (RQWhole.eH RQWhole.cH.box.right),
        Real.exp
          (-Real.log (RQWhole.eH RQWhole.cH.box.top - RQWhole.eH RQWhole.cH.box.bottom) +
            RQWhole.ld RQWhole.eH RQWhole.cH [0.3, -1.2, 2] [1, 0, -0.5] [0.1, 0.2, -3, 4] x) =
      1 :=
  @FlowBounded.rq_default_example

end Properties.C03
