import NflowsModel.Properties.C05
import NflowsModel.Lemmas.DensityGaps
/-!
# C05 (continued) — closing gaps named by the external audit

The executed sigmoid IS `1/(1+e^{-l})`, and with it the Bernoulli sampling law is stated about executed terms: the Lebesgue measure of
the noise in `[0,1)^D` that the executed sampling map sends to an outcome `x` is `exp` of the executed `log_prob(x)` (|logits| ≤ 20),
and these sum to one.  `kdeStd` with the hypothesis `0 < N` it needs (at `N = 0` the model returns 1 where Python raises: counterexample).
MG1Uniform: `∫ density = 1` and the law of the executed `_to_parameters` map applied to box-uniform noise (a determinant-one linear
map preserves Lebesgue measure) — formerly prose.  The `D`-dimensional normal: the law of `μ + exp(ls) ⊙ ε`, `ε` a product of standard
Gaussians, is `volume.withDensity exp(diagNormalRow …)`.  And an artefact made explicit: over ℝ torch's per-coordinate
`Uniform.log_prob` is `−log(high − low)` for EVERY x (`Real.log 0 = 0`), the support being carried by the executed range check.
-/
set_option linter.all false
namespace Properties.C05

theorem sigmoid_executed_closed_form :
    ∀ (e : Float → ℝ) (l : ℝ), (NF.realX e).sigmoid l = 1 / (1 + Real.exp (-l)) :=
  @DensityGaps.sigmoid_exec

theorem bernoulli_sample_law_executed :
    ∀ (e : Float → ℝ) {D : ℕ} (l : Fin D → ℝ),
      (∀ (i : Fin D), |l i| ≤ 20) →
        ∀ (x : Fin D → Bool),
          (MeasureTheory.MeasureSpace.volume : Set (Fin D → ℝ) → ENNReal)
              {u : Fin D → ℝ |
                (∀ (i : Fin D), 0 ≤ u i ∧ u i < 1) ∧
                  NF.Density.bernSampleMap (NF.realX e) [List.ofFn l] 1 [List.ofFn u] =
                    [List.ofFn fun (i : Fin D) => Bernoulli.ind (x i)]} =
            ENNReal.ofReal
              (Real.exp (NF.Density.bernRow (NF.realX e) (List.ofFn l) (List.ofFn fun (i : Fin D) => Bernoulli.ind (x i)))) :=
  @DensityGaps.bernoulli_sample_law_exec

theorem bernoulli_sample_law_total :
    ∀ (e : Float → ℝ) {D : ℕ} (l : Fin D → ℝ),
      (∀ (i : Fin D), |l i| ≤ 20) →
        ∑ x : Fin D → Bool,
            Real.exp (NF.Density.bernRow (NF.realX e) (List.ofFn l) (List.ofFn fun (i : Fin D) => Bernoulli.ind (x i))) =
          1 :=
  @DensityGaps.bernoulli_sample_law_total

theorem kdeStd_executed_pos :
    ∀ (e : Float → ℝ) (N D : ℕ),
      0 < N →
        NF.Density.kdeStd (NF.realX e) N D = (↑N : ℝ) ^ (-(1 / (↑(D + 4) : ℝ))) ∧
          0 < NF.Density.kdeStd (NF.realX e) N D ∧ NF.Density.kdeStd (NF.realX e) N D ≤ 1 :=
  @DensityGaps.kdeStd_exec_pos

theorem kdeStd_zero_counterexample :
    ∀ (e : Float → ℝ) (D : ℕ),
      NF.Density.kdeStd (NF.realX e) 0 D = 1 ∧ NF.Density.kdeStd (NF.realX e) 0 D ≠ (((0 : ℕ) : ℝ)) ^ (-(1 / (↑(D + 4) : ℝ))) :=
  @DensityGaps.kdeStd_zero_counterexample

theorem mg1_normalised :
    ∀ (e : Float → ℝ) (low high : Fin 3 → ℝ),
      (∀ (i : Fin 3), low i < high i) → ∫ (p : Fin 3 → ℝ), DensityGaps.mg1Density e low high p = 1 :=
  @DensityGaps.mg1_normalised

theorem mg1_sample_law :
    ∀ (e : Float → ℝ) (low high : Fin 3 → ℝ),
      (∀ (i : Fin 3), low i < high i) →
        MeasureTheory.Measure.map (fun (v : Fin 3 → ℝ) => Matrix.vecMul v DistReal.mg1Ainv)
            (MeasureTheory.MeasureSpace.volume.withDensity fun (v : Fin 3 → ℝ) =>
              ENNReal.ofReal (DensityGaps.boxDens low high v)) =
          MeasureTheory.MeasureSpace.volume.withDensity fun (p : Fin 3 → ℝ) =>
            ENNReal.ofReal (DensityGaps.mg1Density e low high p) :=
  @DensityGaps.mg1_sample_law

theorem normal_sample_law_nd :
    ∀ (e : Float → ℝ) {D : ℕ} (μ ls : Fin D → ℝ),
      MeasureTheory.Measure.map (fun (ε : Fin D → ℝ) (i : Fin D) => μ i + Real.exp (ls i) * ε i)
          (MeasureTheory.Measure.pi fun (x : Fin D) => ProbabilityTheory.gaussianReal 0 1) =
        MeasureTheory.MeasureSpace.volume.withDensity fun (x : Fin D → ℝ) =>
          ENNReal.ofReal (Real.exp (NF.Density.diagNormalRow (NF.realX e) D (List.ofFn μ) (List.ofFn ls) (List.ofFn x))) :=
  @DensityGaps.normal_sample_law_pi

theorem uniform_coordinate_total_over_reals :
    ∀ (e : Float → ℝ) (l h x : ℝ),
      NF.Density.uniformCoord (NF.realX e) l h x = -Real.log (h - l) :=
  @DensityGaps.uniformCoord_total

end Properties.C05
