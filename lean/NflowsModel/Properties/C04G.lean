import NflowsModel.Properties.C04
import NflowsModel.Lemmas.StageRoundTrips
/-!
# C04 (continued) — the pairing theorem for Glow-style blocks, and the remaining stage round trips

`Lemmas/StageRoundTrips.lean` (reals, invariant `z.size = w`): round trips between the executed forward and inverse stages for feature
permutations (injectivity of `perm` is forced: `[0, 0]` fails), initialised ActNorm, BatchNorm in evaluation mode, LU / QR / SVD /
Householder / naive (`det W ≠ 0`, through the verified Gauss–Jordan inverse), Sigmoid / Logit inside the clamp, Cauchy, LogTanh; and
`flowSalpExec_consistent_glow`: for `k` blocks [ActNorm, LULinear, additive or affine coupling with ANY conditioner] the value returned
with sample `[i, j]` is `log_prob` of that sample alone under context row `i`, no round-trip hypothesis left.
-/
set_option linter.all false
namespace Properties.C04

theorem roundTrip_permStage :
    ∀ (e : Float → ℝ) (w : ℕ) (perm : List ℕ),
      LogdetExec.IsPerm w perm →
        NF.StageMore.RoundTripEq (NF.realX e) (fun (z : Array ℝ) => z.size = w) (fun (s : Array ℝ) => s.size = w)
          (NF.StageMore.permStage (NF.realX e) w perm) (NF.StageMore.permInvStage (NF.realX e) w perm) :=
  @NF.StageMore.roundTrip_permStage

theorem roundTrip_actStage :
    ∀ (e : Float → ℝ) (F : ℕ) (s : NF.Norm.ActSt ℝ),
      s.initialized = Bool.true ∨ s.training = Bool.false →
        NF.StageMore.RoundTripEq (NF.realX e) (fun (z : Array ℝ) => z.size = F) (fun (z : Array ℝ) => z.size = F)
          (NF.StageMore.actStage (NF.realX e) F s) (NF.StageMore.actInvStage (NF.realX e) F s) :=
  @NF.StageMore.roundTrip_actStage

theorem roundTrip_bnEvalStage :
    ∀ (e : Float → ℝ) (cfg : NF.Norm.BNCfg ℝ) (F : ℕ) (s : NF.Norm.BNSt ℝ),
      s.training = Bool.false →
        (∀ j < F, 0 < s.runVar.getD j 0 + cfg.eps) →
          (∀ j < F, NF.Norm.bnWeight (NF.realX e) cfg s.uweight j ≠ 0) →
            NF.StageMore.RoundTripEq (NF.realX e) (fun (z : Array ℝ) => z.size = F) (fun (z : Array ℝ) => z.size = F)
              (NF.StageMore.bnEvalStage (NF.realX e) cfg F s) (NF.StageMore.bnEvalInvStage (NF.realX e) cfg F s) :=
  @NF.StageMore.roundTrip_bnEvalStage

theorem roundTrip_bnEvalStage_of_eps_pos :
    ∀ (e : Float → ℝ) (cfg : NF.Norm.BNCfg ℝ) (F : ℕ) (s : NF.Norm.BNSt ℝ),
      s.training = Bool.false →
        0 < cfg.eps →
          (∀ j < F, 0 ≤ s.runVar.getD j 0) →
            NF.StageMore.RoundTripEq (NF.realX e) (fun (z : Array ℝ) => z.size = F) (fun (z : Array ℝ) => z.size = F)
              (NF.StageMore.bnEvalStage (NF.realX e) cfg F s) (NF.StageMore.bnEvalInvStage (NF.realX e) cfg F s) :=
  @NF.StageMore.roundTrip_bnEvalStage_of_eps_pos

theorem roundTrip_luStage :
    ∀ (e : Float → ℝ) (p : NF.LF.LUParams ℝ),
      p.udiag.length = p.n →
        0 ≤ p.eps →
          p.bias.length = p.n →
            NF.StageMore.RoundTripEq (NF.realX e) (fun (z : Array ℝ) => z.size = p.n) (fun (s : Array ℝ) => s.size = p.n)
              (NF.StageMore.luStage (NF.realX e) p.n p) (NF.StageMore.luInvStage (NF.realX e) p.n p) :=
  @NF.StageMore.roundTrip_luStage

theorem roundTrip_qrStage :
    ∀ (e : Float → ℝ) (p : NF.LF.QRParams ℝ) (vs : List (Fin p.n → ℝ)),
      p.qs = List.map List.ofFn vs →
        (∀ v ∈ vs, v ⬝ᵥ v ≠ 0) →
          p.logDiag.length = p.n →
            p.bias.length = p.n →
              NF.StageMore.RoundTripEq (NF.realX e) (fun (z : Array ℝ) => z.size = p.n) (fun (s : Array ℝ) => s.size = p.n)
                (NF.StageMore.qrStage (NF.realX e) p.n p) (NF.StageMore.qrInvStage (NF.realX e) p.n p) :=
  @NF.StageMore.roundTrip_qrStage

theorem roundTrip_svdStage :
    ∀ (e : Float → ℝ) (p : NF.LF.SVDParams ℝ) (vs1 vs2 : List (Fin p.n → ℝ)),
      p.qs1 = List.map List.ofFn vs1 →
        p.qs2 = List.map List.ofFn vs2 →
          (∀ v ∈ vs1, v ⬝ᵥ v ≠ 0) →
            (∀ v ∈ vs2, v ⬝ᵥ v ≠ 0) →
              p.udiag.length = p.n →
                0 ≤ p.eps →
                  p.bias.length = p.n →
                    NF.StageMore.RoundTripEq (NF.realX e) (fun (z : Array ℝ) => z.size = p.n)
                      (fun (s : Array ℝ) => s.size = p.n) (NF.StageMore.svdStage (NF.realX e) p.n p)
                      (NF.StageMore.svdInvStage (NF.realX e) p.n p) :=
  @NF.StageMore.roundTrip_svdStage

theorem roundTrip_hhStage :
    ∀ (e : Float → ℝ) {n : ℕ} (vs : List (Fin n → ℝ)),
      (∀ v ∈ vs, v ⬝ᵥ v ≠ 0) →
        NF.StageMore.RoundTripEq (NF.realX e) (fun (z : Array ℝ) => z.size = n) (fun (s : Array ℝ) => s.size = n)
          (NF.StageMore.hhStage (NF.realX e) n (List.map List.ofFn vs))
          (NF.StageMore.hhInvStage (NF.realX e) n (List.map List.ofFn vs)) :=
  @NF.StageMore.roundTrip_hhStage

theorem roundTrip_naiveStage :
    ∀ (e : Float → ℝ) {n : ℕ} (W : Matrix (Fin n) (Fin n) ℝ),
      W.det ≠ 0 →
        ∀ (b : List ℝ),
          b.length = n →
            NF.StageMore.RoundTripEq (NF.realX e) (fun (z : Array ℝ) => z.size = n) (fun (s : Array ℝ) => s.size = n)
              (NF.StageMore.naiveStage (NF.realX e) n n (LinearBridge.ofMat W) b)
              (NF.StageMore.naiveInvStage (NF.realX e) n n (LinearBridge.ofMat W) b) :=
  @NF.StageMore.roundTrip_naiveStage

theorem roundTrip_nonlinStage_sigmoid :
    ∀ (e : Float → ℝ) (ds : Array Float) (ps : List ℝ),
      NonlinExec.SigmoidClamp e (ds.getD 0 0.0) →
        ps.getD 0 0 ≠ 0 →
          ∀ (n : ℕ),
            NF.StageMore.RoundTripEq (NF.realX e)
              (fun (z : Array ℝ) => z.size = n ∧ ∀ y ∈ z.toList, e (ds.getD 0 0.0) ≤ y ∧ y ≤ e (1 - ds.getD 0 0.0))
              (fun (s : Array ℝ) => s.size = n) (NF.StageMore.nonlinStage (NF.realX e) "Sigmoid" ds ps Bool.false)
              (NF.StageMore.nonlinStage (NF.realX e) "Sigmoid" ds ps Bool.true) :=
  @NF.StageMore.roundTrip_nonlinStage_sigmoid

theorem roundTrip_nonlinStage_logit :
    ∀ (e : Float → ℝ) (ds : Array Float) (ps : List ℝ),
      ps.getD 0 0 ≠ 0 →
        ∀ (n : ℕ),
          NF.StageMore.RoundTripEq (NF.realX e)
            (fun (z : Array ℝ) =>
              z.size = n ∧
                ∀ y ∈ z.toList,
                  e (ds.getD 0 0.0) ≤ NonlinExec.gate (ps.getD 0 0 * y) ∧
                    NonlinExec.gate (ps.getD 0 0 * y) ≤ e (1 - ds.getD 0 0.0))
            (fun (s : Array ℝ) => s.size = n) (NF.StageMore.nonlinStage (NF.realX e) "Logit" ds ps Bool.false)
            (NF.StageMore.nonlinStage (NF.realX e) "Logit" ds ps Bool.true) :=
  @NF.StageMore.roundTrip_nonlinStage_logit

theorem roundTrip_nonlinStage_cauchy :
    ∀ (e : Float → ℝ) (ds : Array Float) (ps : List ℝ),
      NonlinExec.CauchyConsts e →
        ∀ (n : ℕ),
          NF.StageMore.RoundTripEq (NF.realX e) (fun (z : Array ℝ) => z.size = n ∧ ∀ y ∈ z.toList, 0 < y ∧ y < 1)
            (fun (s : Array ℝ) => s.size = n) (NF.StageMore.nonlinStage (NF.realX e) "CauchyCDF" ds ps Bool.false)
            (NF.StageMore.nonlinStage (NF.realX e) "CauchyCDF" ds ps Bool.true) :=
  @NF.StageMore.roundTrip_nonlinStage_cauchy

theorem roundTrip_nonlinStage_cauchyInverse :
    ∀ (e : Float → ℝ) (ds : Array Float) (ps : List ℝ),
      NonlinExec.CauchyConsts e →
        ∀ (n : ℕ),
          NF.StageMore.RoundTripEq (NF.realX e) (fun (z : Array ℝ) => z.size = n ∧ ∀ y ∈ z.toList, True)
            (fun (s : Array ℝ) => s.size = n) (NF.StageMore.nonlinStage (NF.realX e) "CauchyCDFInverse" ds ps Bool.false)
            (NF.StageMore.nonlinStage (NF.realX e) "CauchyCDFInverse" ds ps Bool.true) :=
  @NF.StageMore.roundTrip_nonlinStage_cauchyInverse

theorem roundTrip_nonlinStage_logTanh :
    ∀ (e : Float → ℝ) (ds : Array Float) (ps : List ℝ) {c a b : ℝ},
      NonlinExec.LogTanhConsts e (ds.getD 0 0.0) (NF.logTanhConsts (ds.getD 0 0.0)).1 (NF.logTanhConsts (ds.getD 0 0.0)).2.1
          (NF.logTanhConsts (ds.getD 0 0.0)).2.2 c a b →
        ∀ (n : ℕ),
          NF.StageMore.RoundTripEq (NF.realX e) (fun (z : Array ℝ) => z.size = n ∧ ∀ y ∈ z.toList, True)
            (fun (s : Array ℝ) => s.size = n) (NF.StageMore.nonlinStage (NF.realX e) "LogTanh" ds ps Bool.false)
            (NF.StageMore.nonlinStage (NF.realX e) "LogTanh" ds ps Bool.true) :=
  @NF.StageMore.roundTrip_nonlinStage_logTanh

theorem roundTrip_glow :
    ∀ {e : Float → ℝ} {w cw : ℕ} {blocks : List NF.StageMore.GlowBlock},
      (∀ b ∈ blocks, NF.StageMore.GlowBlock.Valid e w cw b) →
        NF.StageMore.RoundTripEq (NF.realX e) (fun (z : Array ℝ) => z.size = w) (fun (z : Array ℝ) => z.size = w)
          (NF.StageMore.glowFwd e w blocks) (NF.StageMore.glowInv e w blocks) :=
  @NF.StageMore.roundTrip_glow

theorem rowWise_glowFwd :
    ∀ {e : Float → ℝ} {w cw : ℕ} {blocks : List NF.StageMore.GlowBlock},
      (∀ b ∈ blocks, NF.StageMore.GlowBlock.Valid e w cw b) →
        NF.FlowRowsExec.RowWiseStage w cw (NF.StageMore.glowFwd e w blocks) :=
  @NF.StageMore.rowWise_glowFwd

theorem rowWise_glowInv :
    ∀ {e : Float → ℝ} {w cw : ℕ} {blocks : List NF.StageMore.GlowBlock},
      (∀ b ∈ blocks, NF.StageMore.GlowBlock.Valid e w cw b) →
        NF.FlowRowsExec.RowWiseStage w cw (NF.StageMore.glowInv e w blocks) :=
  @NF.StageMore.rowWise_glowInv

theorem flowSalpExec_consistent_glow :
    ∀ {e : Float → ℝ} {rcw cw R n : ℕ} {emb : ℕ → Array ℝ → Array ℝ}
      {base : NF.FlowRowsExec.BaseD ℝ} {noise ctx : Array ℝ} {w : ℕ} {blocks : List NF.StageMore.GlowBlock},
      (∀ b ∈ blocks, NF.StageMore.GlowBlock.Valid e w cw b) →
        NF.FlowRowsExec.RowIndepBase cw base →
          NF.FlowRowsExec.EmbRowWise rcw cw emb →
            R * cw ≤ (emb R ctx).size →
              ∀ {s : Array ℝ} {lps : List ℝ},
                NF.FlowRowsExec.flowSalpExec (NF.realX e) w cw R n emb (NF.StageMore.glowInv e w blocks) base noise ctx =
                    Except.ok (s, lps) →
                  ∀ {i j : ℕ},
                    i < R →
                      j < n →
                        ∀ (zr cr : Array ℝ),
                          zr.size = w →
                            NF.FlowRowsExec.RowEq w (i * n + j) 0 noise zr →
                              NF.FlowRowsExec.RowEq rcw i 0 ctx cr →
                                ∃ (si : Array ℝ) (lp : ℝ),
                                  NF.FlowRowsExec.RowEq w (i * n + j) 0 s si ∧
                                    lps[i * n + j]? = Option.some lp ∧
                                      NF.FlowRowsExec.flowLogProbExec (NF.realX e) w emb (NF.StageMore.glowFwd e w blocks)
                                          base 1 si cr =
                                        Except.ok [lp] :=
  @NF.StageMore.flowSalpExec_consistent_glow

theorem flowSalpExec_consistent_glow_block :
    ∀ {e : Float → ℝ} {rcw cw R n : ℕ} {emb : ℕ → Array ℝ → Array ℝ}
      {base : NF.FlowRowsExec.BaseD ℝ} {noise ctx : Array ℝ} {w : ℕ} {b : NF.StageMore.GlowBlock},
      NF.StageMore.GlowBlock.Valid e w cw b →
        NF.FlowRowsExec.RowIndepBase cw base →
          NF.FlowRowsExec.EmbRowWise rcw cw emb →
            R * cw ≤ (emb R ctx).size →
              ∀ {s : Array ℝ} {lps : List ℝ},
                NF.FlowRowsExec.flowSalpExec (NF.realX e) w cw R n emb
                      (NF.FlowRowsExec.compStage (NF.realX e)
                        [NF.FlowRowsExec.couplingStage (NF.realX e) b.cfg b.mask b.S Bool.true Option.none b.up b.net,
                          NF.StageMore.luInvStage (NF.realX e) w b.lu, NF.StageMore.actInvStage (NF.realX e) w b.act])
                      base noise ctx =
                    Except.ok (s, lps) →
                  ∀ {i j : ℕ},
                    i < R →
                      j < n →
                        ∀ (zr cr : Array ℝ),
                          zr.size = w →
                            NF.FlowRowsExec.RowEq w (i * n + j) 0 noise zr →
                              NF.FlowRowsExec.RowEq rcw i 0 ctx cr →
                                ∃ (si : Array ℝ) (lp : ℝ),
                                  NF.FlowRowsExec.RowEq w (i * n + j) 0 s si ∧
                                    lps[i * n + j]? = Option.some lp ∧
                                      NF.FlowRowsExec.flowLogProbExec (NF.realX e) w emb
                                          (NF.FlowRowsExec.compStage (NF.realX e)
                                            [NF.StageMore.actStage (NF.realX e) w b.act,
                                              NF.StageMore.luStage (NF.realX e) w b.lu,
                                              NF.FlowRowsExec.couplingStage (NF.realX e) b.cfg b.mask b.S Bool.false
                                                Option.none b.up' b.net])
                                          base 1 si cr =
                                        Except.ok [lp] :=
  @NF.StageMore.flowSalpExec_consistent_glow_block

end Properties.C04
