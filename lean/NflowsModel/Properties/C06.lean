import NflowsModel.Core.Made
import NflowsModel.Lemmas.Made
import NflowsModel.Lemmas.MadeNet
import NflowsModel.Lemmas.ARWhole
/-!
# C06 — MADE conditioners are strictly autoregressive for every architecture and weight

Property theorems only (helpers: `Lemmas/Made.lean`, `Lemmas/MadeNet.lean`; executable model: `Core/Made.lean`).

The executable model has ONE forward pass, `NF.Made.forward`, generic in the scalars `S` (weights) and the values `M`
of a unit.  The driver runs it at `M = List ℕ` (integer path counts, compared exactly with autograd Jacobians of both
copies of the implementation); the headline theorem `made_autoregressive` is about the same function at
`M = (β → ℕ → ℝ) → β → ℝ` (the value of a unit for every row of a batch, as a function of the whole input batch), so
batch norm in training mode (which couples rows) is covered.

Everything is universally quantified: feature count, every layer width, number and type of blocks, multiplier,
hidden degrees (ANY naturals — the sequential ones the code computes and any random draw are special cases; only the
residual-block check `Net.valid` is needed), weights, biases, context contributions, and the per-unit maps
(activation / dropout mask / batch norm), which may differ per site, per unit, and may couple the rows of the batch.

**Over the reals.**  A masked-out weight contributes exactly `0`.  In IEEE arithmetic `0 * inf = NaN`: an infinite or
NaN input is *not* shielded by the mask (the implementation then returns NaN in every block that has a masked
connection to that input).  The theorems below are statements about finite values computed exactly.
The `activation` is assumed to act unit by unit (an activation mixing units, e.g. a softmax over the layer, would
break the property and is outside the model).
-/
open NF.Made

namespace Properties.C06

/-! ## Re-statement of the proved lemma module (`Lemmas/Made.lean`, function-style model) -/

/-- a masked linear layer with the `≥` rule maps "unit `j` depends on inputs of degree `≤ dIn j`" to the same for `dOut`,
    for any weight matrix and bias -/
theorem maskedLinear_resp {F nin : ℕ} {W : ℕ → ℕ → ℝ} {b : ℕ → ℝ} {dIn dOut : ℕ → ℕ} {h : (ℕ → ℝ) → ℕ → ℝ}
    (hh : Made.Resp F dIn h) : Made.Resp F dOut (Made.maskedLinear nin W b dIn dOut h) :=
  Made.maskedLinear_resp hh

theorem elementwise_resp {F : ℕ} {degs : ℕ → ℕ} {h : (ℕ → ℝ) → ℕ → ℝ} (act : ℕ → ℝ → ℝ) (hh : Made.Resp F degs h) :
    Made.Resp F degs (fun x k => act k (h x k)) :=
  Made.elementwise_resp act hh

/-- the residual connection preserves the invariant exactly when degrees do not decrease (the `RuntimeError` check) -/
theorem residual_resp {F : ℕ} {dIn dOut : ℕ → ℕ} {h g : (ℕ → ℝ) → ℕ → ℝ} (hle : ∀ k, dIn k ≤ dOut k)
    (hh : Made.Resp F dIn h) (hg : Made.Resp F dOut g) : Made.Resp F dOut (fun x k => h x k + g x k) :=
  Made.residual_resp hle hh hg

theorem made_output_autoregressive {F nin m : ℕ} (hm : 0 < m) {W : ℕ → ℕ → ℝ} {b : ℕ → ℝ} {dIn : ℕ → ℕ}
    {h : (ℕ → ℝ) → ℕ → ℝ} (hh : Made.Resp F dIn h) (i r : ℕ) (hr : r < m) (x x' : ℕ → ℝ)
    (hag : ∀ j < i, x j = x' j) :
    Made.maskedLinearOut nin W b dIn (Made.outDeg m) h x (i * m + r)
      = Made.maskedLinearOut nin W b dIn (Made.outDeg m) h x' (i * m + r) :=
  Made.made_output_autoregressive hm hh i r hr x x' hag

/-! ## The executable model: degrees and masks -/

/-- the two mask rules -/
theorem maskEntry_spec (dOut dIn : ℕ) :
    (maskEntry true dOut dIn = true ↔ dOut > dIn) ∧ (maskEntry false dOut dIn = true ↔ dOut ≥ dIn) := by
  simp [maskEntry]

/-- the `mask` buffer printed by the driver is `maskEntry` of the two degree lists, row = output unit -/
theorem mask_getElem (strict : Bool) (dIn dOut : List ℕ) (k i : ℕ) (hk : k < dOut.length) (hi : i < dIn.length) :
    ((mask strict dIn dOut)[k]'(by simpa [mask] using hk))[i]'(by simpa [mask] using hi)
      = maskEntry strict dOut[k] dIn[i] := by
  simp [mask]

/-- output units are ordered feature-major, multiplier-minor: unit `i*m + r` has degree `i + 1` -/
theorem outputDegrees_getElem (F m i r : ℕ) (hi : i < F) (hr : r < m) :
    (outputDegrees F m)[i * m + r]? = some (i + 1) := by
  have hm : 0 < m := by omega
  have hu : i * m + r < F * m := by
    calc i * m + r < i * m + m := by omega
      _ = (i + 1) * m := by ring
      _ ≤ F * m := Nat.mul_le_mul_right m hi
  rw [outputDegrees_getElem? F m hm _ hu]
  have : (i * m + r) / m = i := by
    rw [Nat.mul_comm, Nat.mul_add_div hm, Nat.div_eq_of_lt hr, Nat.add_zero]
  rw [this]

/-- the sequential hidden degrees lie in the same range `[min(1,F-1), F-1]` from which random degrees are drawn -/
theorem seqDegrees_range (F H : ℕ) (hF : 0 < F) : ∀ d ∈ seqDegrees F H, min 1 (F - 1) ≤ d ∧ d ≤ F - 1 := by
  intro d hd
  simp only [seqDegrees, List.mem_map, List.mem_range] at hd
  obtain ⟨k, _, rfl⟩ := hd
  rcases Nat.lt_or_ge F 2 with h | h
  · have : F = 1 := by omega
    subst this
    simp [Nat.mod_one]
  · have h1 : max 1 (F - 1) = F - 1 := by omega
    have h2 : min 1 (F - 1) = 1 := by omega
    have := Nat.mod_lt k (show 0 < F - 1 by omega)
    rw [h1, h2]; omega

/-- blocks built by `MADE.__init__` from sequential degrees always pass the residual check -/
theorem seqDegrees_residual_ok (F H : ℕ) :
    degreesNonDecreasing (seqDegrees F H) (seqDegrees F (seqDegrees F (seqDegrees F H).length).length) = true :=
  NF.Made.seqDegrees_residual_ok F H

/-- whatever `build` (the model of both constructors, compared with them exception by exception) returns without an
    error is a valid net with `F ≥ 1` features and multiplier `≥ 1` — for sequential AND for any admissible random
    degrees, feed-forward and residual blocks, any width and depth -/
theorem build_valid {a : Arch} {n : Net} (h : build a = .ok n) :
    n.valid = true ∧ 0 < n.F ∧ 0 < n.m ∧ n.F = a.F ∧ n.m = a.mult :=
  NF.Made.build_valid h

/-! ## The executable model: the forward pass -/

/-- **Generic form** (any scalars, any values with a dependence system `D`, any parameters that are constants /
    `Dep`-preserving, any valid net of any size): output unit `u` of the forward pass that the driver executes
    satisfies `Dep (u / m)`, i.e. depends only on inputs of degree `≤ u / m`, i.e. on inputs `j < u / m`. -/
theorem forward_respects_degrees {S M : Type} {o : MOps S M} {D : DepSys o} {P : Params S M} (hP : P.Good D)
    (n : Net) (hv : n.valid = true) (hm : 0 < n.m) (x : List M) (hx : StOk D ((inputDegrees n.F).zip x))
    (u : ℕ) (hu : u < (outputs o P n x).length) : D.Dep (u / n.m) (outputs o P n x)[u] :=
  outputs_dep hP n hv hm x hx u hu

/-- **MADE is autoregressive** — for every valid net (any `F`, any widths, any number of feed-forward or residual
    blocks, any hidden degrees, context on or off, batch norm on or off, either copy of `forward`), every multiplier
    `m ≥ 1`, all weights `W`, biases, context contributions `ctxv` (any function of the row), all per-unit maps `g`
    (activation, dropout mask, batch norm — each may couple the rows of the batch `β`), every batch type `β`:
    the output `i*m + r` (block of feature `i`), for every row `b`, is the same for two input batches that agree
    on the features `j < i`.  It does not depend on inputs `i, i+1, …`, of ANY row. -/
theorem made_autoregressive {β : Type} (n : Net) (hv : n.valid = true) (hm : 0 < n.m)
    (W : ℕ → ℕ → ℕ → ℝ) (bias : ℕ → ℕ → ℝ) (ctxv : ℕ → ℕ → β → ℝ) (g : ℕ → Slot → ℕ → (β → ℝ) → β → ℝ)
    (i r : ℕ) (hr : r < n.m) (X X' : β → ℕ → ℝ) (hag : ∀ j, j < i → ∀ b, X b j = X' b j) (b : β) :
    madeReal n W bias ctxv g X b (i * n.m + r) = madeReal n W bias ctxv g X' b (i * n.m + r) := by
  apply madeReal_autoregressive n hv hm
  have : (i * n.m + r) / n.m = i := by
    rw [Nat.mul_comm, Nat.mul_add_div hm, Nat.div_eq_of_lt hr, Nat.add_zero]
  rw [this]; exact hag

/-- the same for everything the (modelled) constructor can build: no hypothesis besides `build a = .ok n` -/
theorem made_autoregressive_of_build {β : Type} (a : Arch) (n : Net) (hb : build a = .ok n)
    (W : ℕ → ℕ → ℕ → ℝ) (bias : ℕ → ℕ → ℝ) (ctxv : ℕ → ℕ → β → ℝ) (g : ℕ → Slot → ℕ → (β → ℝ) → β → ℝ)
    (i r : ℕ) (hr : r < a.mult) (X X' : β → ℕ → ℝ) (hag : ∀ j, j < i → ∀ b, X b j = X' b j) (b : β) :
    madeReal n W bias ctxv g X b (i * a.mult + r) = madeReal n W bias ctxv g X' b (i * a.mult + r) := by
  obtain ⟨hv, _, hm, _, hmm⟩ := NF.Made.build_valid hb
  rw [← hmm] at hr ⊢
  exact made_autoregressive n hv hm W bias ctxv g i r hr X X' hag b

/-- **the printed path-count matrix is strictly lower block-triangular**, for every valid net, every context width
    and activation multiplier: there is no mask-permitted path from input `j` to an output of block `u / m ≤ j` -/
theorem pathCount_zero (n : Net) (hv : n.valid = true) (hm : 0 < n.m) (C actMul u j : ℕ)
    (hj : j < n.F) (hu : u / n.m ≤ j) : ((pathCount n C actMul).getD u [])[j]?.getD 0 = 0 :=
  NF.Made.pathCount_zero n hv hm C actMul u j hj hu

theorem pathCount_rows (n : Net) (C actMul : ℕ) : (pathCount n C actMul).length = n.F * n.m :=
  pathCount_length n C actMul

/-! ## Non-vacuity: the hypotheses are met by concrete, non-trivial nets -/

/-- `F = 1` (a single feature: the output is a constant), residual blocks, context -/
example : (match build { F := 1, H := 1, nBlocks := 2, mult := 3, residual := true, random := false, nde := false,
                          ctx := 1, bn := true } with
           | .ok n => n.valid && (n.m == 3) && (n.d0 == [0]) | .error _ => false) = true := by decide

/-- hidden width smaller than the feature count, zero blocks -/
example : (match build { F := 4, H := 2, nBlocks := 0, mult := 2, residual := false, random := false, nde := true,
                          ctx := 0, bn := false } with
           | .ok n => n.valid && (n.d0 == [1, 2]) && (n.blocks == []) | .error _ => false) = true := by decide

/-- random degrees (read back from the module), feed-forward blocks -/
example : (match build { F := 3, H := 3, nBlocks := 1, mult := 1, residual := false, random := true, nde := true,
                          ctx := 0, bn := false, degs := [[2, 1, 2], [1, 1, 2]] } with
           | .ok n => n.valid && (n.blocks == [.ff [1, 1, 2]]) | .error _ => false) = true := by decide

/-- the dependence that IS allowed is really there: path counts of a residual net with `F = 3`, `H = 4`, `m = 2`
    (rows = outputs, feature-major; columns = inputs): zero on and above the block diagonal, non-zero below -/
example : pathCount { F := 3, m := 2, d0 := seqDegrees 3 4, blocks := [.res (seqDegrees 3 4) (seqDegrees 3 4)],
                      residual := true, nde := false, hasCtx := false, bn := false } 0 1
    = [[0, 0, 0], [0, 0, 0], [10, 0, 0], [10, 0, 0], [36, 10, 0], [36, 10, 0]] := by decide

/-- a residual block fed with decreasing degrees is rejected (`RuntimeError`), a `Net` containing one is not valid -/
example : buildResBlock 3 false [2, 2, 1] = .error .runtime := by decide
example : Net.valid { F := 3, m := 1, d0 := [2, 2, 1], blocks := [.res [1, 2, 1] [1, 2, 1]], residual := true,
                      nde := false, hasCtx := false, bn := false } = false := by decide

/-- **the MADE model, used as the conditioner of the executed autoregressive transform, is autoregressive in the sense the
    transform needs**: the parameter block of feature `i` of every batch row is unchanged by any change of the features `≥ i` of
    any row — for every valid net, all weights, any context, and per-unit maps that may couple batch rows (batch norm). -/
theorem made_is_autoreg_conditioner (n : NF.Made.Net) (hv : n.valid = true) (hm : 0 < n.m) (W : ℕ → ℕ → ℕ → ℝ) (bias : ℕ → ℕ → ℝ)
    (B : Nat) (ctxv : ℕ → ℕ → Fin B → ℝ) (g : ℕ → NF.Made.Slot → ℕ → (Fin B → ℝ) → Fin B → ℝ) :
    NF.ARWhole.AutoregNet B n.F n.m (NF.ARWhole.madeNet n W bias B ctxv g) :=
  NF.ARWhole.madeNet_autoreg n hv hm W bias B ctxv g

end Properties.C06
