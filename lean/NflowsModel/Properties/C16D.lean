import NflowsModel.Properties.C16
import NflowsModel.Lemmas.DualXSpline2
/-!
# C16 (continued) — the EXECUTED spline programs run on dual numbers return their own derivatives

`Properties/C16.lean` has the forward rational-quadratic program in the input direction.  Here: the RQ **inverse**
program (through the square root of the discriminant), the **quadratic** (both parameter shapes) and **linear** forward
programs, and the RQ forward program in EVERY **parameter direction** (unnormalised widths / heights / derivatives carry
arbitrary tangents through softmax, floor, cumulative sum, knot pinning, bin search and the closed form): the tangent
the dual run returns IS the derivative of the real program along the line `s ↦ (params + s·dir, x + s·x')`.
This is the content of "gradients w.r.t. inputs and parameters are correct" for what the model executes; torch's autograd
is tied to the dual run by the correspondence (directional derivatives compared).  Points exactly on a knot are excluded
(autograd returns a one-sided derivative there; for the linear spline `DualXLin.linSpline_dual_right`).
-/
open DualSound NF

namespace Properties.C16

/-- executed RQ inverse on `(y, 1)`: value, its derivative `exp (returned log-det)`, and the log-det with its derivative -/
theorem rqSpline_inverse_dual {e : Float → ℝ} {c : RQCfg} {uw uh ud : List ℝ} (hv : RQWhole.RQValid e c uw uh ud)
    (k : ℕ) (hk : k < uw.length) (y : ℝ) (h0 : RQWhole.ys e c uh k < y) (h1 : y < RQWhole.ys e c uh (k+1)) :
    ∃ l' : ℝ, rqSpline (NF.dualX (NF.realX e)) c (uw.map DualX.ι) (uh.map DualX.ι) (ud.map DualX.ι) true (y, 1)
        = .ok ((RQInverseWhole.inv e c uw uh ud y, Real.exp (RQInverseWhole.invLd e c uw uh ud y)),
               (RQInverseWhole.invLd e c uw uh ud y, l')) ∧
      HasDerivAt (RQInverseWhole.inv e c uw uh ud) (Real.exp (RQInverseWhole.invLd e c uw uh ud y)) y ∧
      HasDerivAt (RQInverseWhole.invLd e c uw uh ud) l' y :=
  DualX.rqSpline_dual_inv hv k hk y h0 h1

/-- … and that tangent is the reciprocal of the forward derivative at the pre-image -/
theorem rqSpline_inverse_tangent {e : Float → ℝ} {c : RQCfg} {uw uh ud : List ℝ} (hv : RQWhole.RQValid e c uw uh ud)
    (y : ℝ) (hy0 : e c.box.bottom ≤ y) (hy1 : y ≤ e c.box.top) :
    Real.exp (RQInverseWhole.invLd e c uw uh ud y)
      = 1 / Real.exp (RQWhole.ld e c uw uh ud (RQInverseWhole.inv e c uw uh ud y)) :=
  DualX.rqSpline_dual_inv_tangent hv y hy0 hy1

/-- executed RQ forward, every parameter direction and input direction at once -/
theorem rqSpline_param_dual {e : Float → ℝ} {c : RQCfg} {uw uh ud : List ℝ} (hv : RQWhole.RQValid e c uw uh ud)
    (uw' uh' ud' : List ℝ) (hlw : uw.length = uw'.length) (hlh : uh.length = uh'.length) (hld : ud.length = ud'.length)
    (hthr : ∀ k < ud.length, e c.beta * ud.getD k 0 ≠ 20)
    (k : ℕ) (hk : k < uw.length) (x x' : ℝ) (h0 : RQWhole.xs e c uw k < x) (h1 : x < RQWhole.xs e c uw (k+1)) :
    ∃ v' l' : ℝ, rqSpline (NF.dualX (NF.realX e)) c (List.zip uw uw') (List.zip uh uh') (List.zip ud ud') false (x, x')
        = .ok ((RQWhole.val e c uw uh ud x, v'), (RQWhole.ld e c uw uh ud x, l')) ∧
      HasDerivAt (fun s => RQWhole.val e c (DualXParam.lineL uw uw' s) (DualXParam.lineL uh uh' s)
        (DualXParam.lineL ud ud' s) (x + s * x')) v' 0 ∧
      HasDerivAt (fun s => RQWhole.ld e c (DualXParam.lineL uw uw' s) (DualXParam.lineL uh uh' s)
        (DualXParam.lineL ud ud' s) (x + s * x')) l' 0 :=
  DualX.rqSpline_dual_param hv uw' uh' ud' hlw hlh hld hthr k hk x x' h0 h1

/-- executed quadratic spline forward (unnormalised heights of length `K+1`) -/
theorem quadSpline_dual {e : Float → ℝ} {c : QCfg} {uw uh : List ℝ} (hv : QuadWhole.QuadValid e c uw uh)
    (hbl : e (boxLog c.box) = Real.log ((e c.box.top - e c.box.bottom) / (e c.box.right - e c.box.left)))
    (k : ℕ) (hk : k < uw.length) (x : ℝ) (h0 : QuadWhole.xk e c uw k < x) (h1 : x < QuadWhole.xk e c uw (k+1)) :
    ∃ l' : ℝ, quadSpline (NF.dualX (NF.realX e)) c (uw.map DualX.ι) (uh.map DualX.ι) false (x, 1)
        = .ok ((QuadWhole.val e c uw uh x, Real.exp (QuadWhole.ld e c uw uh x)), (QuadWhole.ld e c uw uh x, l')) ∧
      HasDerivAt (QuadWhole.val e c uw uh) (Real.exp (QuadWhole.ld e c uw uh x)) x ∧
      HasDerivAt (QuadWhole.ld e c uw uh) l' x :=
  DualXQuad.quadSpline_dual hv hbl k hk x h0 h1

/-- … and the tails shape (`K-1` heights, padded) -/
theorem quadSpline_dual_tails_shape {e : Float → ℝ} {c : QCfg} {uw uh : List ℝ} (hv : QuadWhole.QuadValidT e c uw uh)
    (hbl : e (boxLog c.box) = Real.log ((e c.box.top - e c.box.bottom) / (e c.box.right - e c.box.left)))
    (k : ℕ) (hk : k < uw.length) (x : ℝ) (h0 : QuadWhole.xk e c uw k < x) (h1 : x < QuadWhole.xk e c uw (k+1)) :
    ∃ l' : ℝ, quadSpline (NF.dualX (NF.realX e)) c (uw.map DualX.ι) (uh.map DualX.ι) false (x, 1)
        = .ok ((QuadWhole.val e c uw uh x, Real.exp (QuadWhole.ld e c uw uh x)), (QuadWhole.ld e c uw uh x, l')) ∧
      HasDerivAt (QuadWhole.val e c uw uh) (Real.exp (QuadWhole.ld e c uw uh x)) x ∧
      HasDerivAt (QuadWhole.ld e c uw uh) l' x :=
  DualXQuad.quadSpline_dual_T hv hbl k hk x h0 h1

/-- executed linear spline forward: the value tangent is the bin's slope, the log-det tangent is `0` -/
theorem linSpline_dual {e : Float → ℝ} {box : Box} {eps : Float} {up : List ℝ} (hv : LinWhole.LinValid e box eps up)
    (k : ℕ) (hk : k < up.length) (x : ℝ)
    (h0 : LinWhole.kn up.length k < LinWhole.nx e box x) (h1 : LinWhole.nx e box x < LinWhole.kn up.length (k+1)) :
    linSpline (NF.dualX (NF.realX e)) box eps (up.map DualX.ι) false (x, 1)
        = .ok ((LinWhole.val e box eps up x, DualXLin.slope e box up k), (LinWhole.ld e box eps up x, 0)) ∧
      HasDerivAt (LinWhole.val e box eps up) (DualXLin.slope e box up k) x ∧
      HasDerivAt (LinWhole.ld e box eps up) 0 x :=
  DualXLin.linSpline_dual_slope hv k hk x h0 h1

/-- non-vacuity: every direction at the accepted configuration `RQWhole.valid_example` -/
example (a b p q x x' : ℝ) (h0 : 0 < x) (h1 : x < 1) :
    ∃ v' l' : ℝ, rqSpline (NF.dualX (NF.realX RQWhole.eNV)) RQWhole.cNV [(0, a)] [(0, b)] [(0, p), (0, q)] false (x, x')
        = .ok ((RQWhole.val RQWhole.eNV RQWhole.cNV [0] [0] [0, 0] x, v'), (RQWhole.ld RQWhole.eNV RQWhole.cNV [0] [0] [0, 0] x, l')) := by
  obtain ⟨v', l', h, -, -⟩ := DualX.rqSpline_dual_param_example a b p q x x' h0 h1
  exact ⟨v', l', h⟩

end Properties.C16
