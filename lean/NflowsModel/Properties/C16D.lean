import NflowsModel.Properties.C16
import NflowsModel.Lemmas.DualXSpline2
import NflowsModel.Lemmas.DualXParam2
/-!
# C16 (continued) — the EXECUTED spline programs run on dual numbers return their own derivatives

`Properties/C16.lean` has the forward rational-quadratic program in the input direction.  Here: the RQ **inverse**
program (through the square root of the discriminant), the **quadratic** (both parameter shapes) and **linear** forward
programs, and the RQ forward program in EVERY **parameter direction** (unnormalised widths / heights / derivatives carry
arbitrary tangents through softmax, floor, cumulative sum, knot pinning, bin search and the closed form): the tangent
the dual run returns IS the derivative of the real program along the line `s ↦ (params + s·dir, x + s·x')`.
This is the content of "gradients w.r.t. inputs and parameters are correct" for what the model executes; torch's autograd
is tied to the dual run by the correspondence (directional derivatives compared).  Points exactly on a knot are excluded
(autograd returns a one-sided derivative there; for the linear spline `DualXLin.linSpline_dual_right`).
-/
open DualSound NF

namespace Properties.C16

/-- executed RQ inverse on `(y, 1)`: value, its derivative `exp (returned log-det)`, and the log-det with its derivative -/
theorem rqSpline_inverse_dual {e : Float → ℝ} {c : RQCfg} {uw uh ud : List ℝ} (hv : RQWhole.RQValid e c uw uh ud)
    (k : ℕ) (hk : k < uw.length) (y : ℝ) (h0 : RQWhole.ys e c uh k < y) (h1 : y < RQWhole.ys e c uh (k+1)) :
    ∃ l' : ℝ, rqSpline (NF.dualX (NF.realX e)) c (uw.map DualX.ι) (uh.map DualX.ι) (ud.map DualX.ι) true (y, 1)
        = .ok ((RQInverseWhole.inv e c uw uh ud y, Real.exp (RQInverseWhole.invLd e c uw uh ud y)),
               (RQInverseWhole.invLd e c uw uh ud y, l')) ∧
      HasDerivAt (RQInverseWhole.inv e c uw uh ud) (Real.exp (RQInverseWhole.invLd e c uw uh ud y)) y ∧
      HasDerivAt (RQInverseWhole.invLd e c uw uh ud) l' y :=
  DualX.rqSpline_dual_inv hv k hk y h0 h1

/-- … and that tangent is the reciprocal of the forward derivative at the pre-image -/
theorem rqSpline_inverse_tangent {e : Float → ℝ} {c : RQCfg} {uw uh ud : List ℝ} (hv : RQWhole.RQValid e c uw uh ud)
    (y : ℝ) (hy0 : e c.box.bottom ≤ y) (hy1 : y ≤ e c.box.top) :
    Real.exp (RQInverseWhole.invLd e c uw uh ud y)
      = 1 / Real.exp (RQWhole.ld e c uw uh ud (RQInverseWhole.inv e c uw uh ud y)) :=
  DualX.rqSpline_dual_inv_tangent hv y hy0 hy1

/-- executed RQ forward, every parameter direction and input direction at once -/
theorem rqSpline_param_dual {e : Float → ℝ} {c : RQCfg} {uw uh ud : List ℝ} (hv : RQWhole.RQValid e c uw uh ud)
    (uw' uh' ud' : List ℝ) (hlw : uw.length = uw'.length) (hlh : uh.length = uh'.length) (hld : ud.length = ud'.length)
    (hthr : ∀ k < ud.length, e c.beta * ud.getD k 0 ≠ 20)
    (k : ℕ) (hk : k < uw.length) (x x' : ℝ) (h0 : RQWhole.xs e c uw k < x) (h1 : x < RQWhole.xs e c uw (k+1)) :
    ∃ v' l' : ℝ, rqSpline (NF.dualX (NF.realX e)) c (List.zip uw uw') (List.zip uh uh') (List.zip ud ud') false (x, x')
        = .ok ((RQWhole.val e c uw uh ud x, v'), (RQWhole.ld e c uw uh ud x, l')) ∧
      HasDerivAt (fun s => RQWhole.val e c (DualXParam.lineL uw uw' s) (DualXParam.lineL uh uh' s)
        (DualXParam.lineL ud ud' s) (x + s * x')) v' 0 ∧
      HasDerivAt (fun s => RQWhole.ld e c (DualXParam.lineL uw uw' s) (DualXParam.lineL uh uh' s)
        (DualXParam.lineL ud ud' s) (x + s * x')) l' 0 :=
  DualX.rqSpline_dual_param hv uw' uh' ud' hlw hlh hld hthr k hk x x' h0 h1

/-- executed quadratic spline forward (unnormalised heights of length `K+1`) -/
theorem quadSpline_dual {e : Float → ℝ} {c : QCfg} {uw uh : List ℝ} (hv : QuadWhole.QuadValid e c uw uh)
    (hbl : e (boxLog c.box) = Real.log ((e c.box.top - e c.box.bottom) / (e c.box.right - e c.box.left)))
    (k : ℕ) (hk : k < uw.length) (x : ℝ) (h0 : QuadWhole.xk e c uw k < x) (h1 : x < QuadWhole.xk e c uw (k+1)) :
    ∃ l' : ℝ, quadSpline (NF.dualX (NF.realX e)) c (uw.map DualX.ι) (uh.map DualX.ι) false (x, 1)
        = .ok ((QuadWhole.val e c uw uh x, Real.exp (QuadWhole.ld e c uw uh x)), (QuadWhole.ld e c uw uh x, l')) ∧
      HasDerivAt (QuadWhole.val e c uw uh) (Real.exp (QuadWhole.ld e c uw uh x)) x ∧
      HasDerivAt (QuadWhole.ld e c uw uh) l' x :=
  DualXQuad.quadSpline_dual hv hbl k hk x h0 h1

/-- … and the tails shape (`K-1` heights, padded) -/
theorem quadSpline_dual_tails_shape {e : Float → ℝ} {c : QCfg} {uw uh : List ℝ} (hv : QuadWhole.QuadValidT e c uw uh)
    (hbl : e (boxLog c.box) = Real.log ((e c.box.top - e c.box.bottom) / (e c.box.right - e c.box.left)))
    (k : ℕ) (hk : k < uw.length) (x : ℝ) (h0 : QuadWhole.xk e c uw k < x) (h1 : x < QuadWhole.xk e c uw (k+1)) :
    ∃ l' : ℝ, quadSpline (NF.dualX (NF.realX e)) c (uw.map DualX.ι) (uh.map DualX.ι) false (x, 1)
        = .ok ((QuadWhole.val e c uw uh x, Real.exp (QuadWhole.ld e c uw uh x)), (QuadWhole.ld e c uw uh x, l')) ∧
      HasDerivAt (QuadWhole.val e c uw uh) (Real.exp (QuadWhole.ld e c uw uh x)) x ∧
      HasDerivAt (QuadWhole.ld e c uw uh) l' x :=
  DualXQuad.quadSpline_dual_T hv hbl k hk x h0 h1

/-- executed linear spline forward: the value tangent is the bin's slope, the log-det tangent is `0` -/
theorem linSpline_dual {e : Float → ℝ} {box : Box} {eps : Float} {up : List ℝ} (hv : LinWhole.LinValid e box eps up)
    (k : ℕ) (hk : k < up.length) (x : ℝ)
    (h0 : LinWhole.kn up.length k < LinWhole.nx e box x) (h1 : LinWhole.nx e box x < LinWhole.kn up.length (k+1)) :
    linSpline (NF.dualX (NF.realX e)) box eps (up.map DualX.ι) false (x, 1)
        = .ok ((LinWhole.val e box eps up x, DualXLin.slope e box up k), (LinWhole.ld e box eps up x, 0)) ∧
      HasDerivAt (LinWhole.val e box eps up) (DualXLin.slope e box up k) x ∧
      HasDerivAt (LinWhole.ld e box eps up) 0 x :=
  DualXLin.linSpline_dual_slope hv k hk x h0 h1

/-- non-vacuity: every direction at the accepted configuration `RQWhole.valid_example` -/
example (a b p q x x' : ℝ) (h0 : 0 < x) (h1 : x < 1) :
    ∃ v' l' : ℝ, rqSpline (NF.dualX (NF.realX RQWhole.eNV)) RQWhole.cNV [(0, a)] [(0, b)] [(0, p), (0, q)] false (x, x')
        = .ok ((RQWhole.val RQWhole.eNV RQWhole.cNV [0] [0] [0, 0] x, v'), (RQWhole.ld RQWhole.eNV RQWhole.cNV [0] [0] [0, 0] x, l')) := by
  obtain ⟨v', l', h, -, -⟩ := DualX.rqSpline_dual_param_example a b p q x x' h0 h1
  exact ⟨v', l', h⟩

/-! ## parameter directions of the other programs, and the chain rule through the executed coupling layer -/

/-- executed RQ INVERSE program, every parameter direction and the input direction at once -/
theorem rqSpline_inverse_param_dual {e : Float → ℝ} {c : RQCfg} {uw uh ud : List ℝ} (hv : RQWhole.RQValid e c uw uh ud)
    (uw' uh' ud' : List ℝ) (hlw : uw.length = uw'.length) (hlh : uh.length = uh'.length) (hld : ud.length = ud'.length)
    (hthr : ∀ k < ud.length, e c.beta * ud.getD k 0 ≠ 20)
    (k : ℕ) (hk : k < uw.length) (y y' : ℝ) (h0 : RQWhole.ys e c uh k < y) (h1 : y < RQWhole.ys e c uh (k+1)) :
    ∃ v' l' : ℝ, rqSpline (NF.dualX (NF.realX e)) c (List.zip uw uw') (List.zip uh uh') (List.zip ud ud') true (y, y')
        = .ok ((RQInverseWhole.inv e c uw uh ud y, v'), (RQInverseWhole.invLd e c uw uh ud y, l')) ∧
      HasDerivAt (fun s => RQInverseWhole.inv e c (DualXParam.lineL uw uw' s) (DualXParam.lineL uh uh' s)
        (DualXParam.lineL ud ud' s) (y + s * y')) v' 0 ∧
      HasDerivAt (fun s => RQInverseWhole.invLd e c (DualXParam.lineL uw uw' s) (DualXParam.lineL uh uh' s)
        (DualXParam.lineL ud ud' s) (y + s * y')) l' 0 :=
  DualX.rqSpline_dual_inv_param hv uw' uh' ud' hlw hlh hld hthr k hk y y' h0 h1

/-- executed linear spline forward, parameter and input direction (no side condition on the parameters: softmax ties included) -/
theorem linSpline_param_dual {e : Float → ℝ} {box : Box} {eps : Float} {up : List ℝ} (hv : LinWhole.LinValid e box eps up)
    (up' : List ℝ) (hl : up.length = up'.length) (k : ℕ) (hk : k < up.length) (x x' : ℝ)
    (h0 : LinWhole.kn up.length k < LinWhole.nx e box x) (h1 : LinWhole.nx e box x < LinWhole.kn up.length (k+1)) :
    ∃ v' l' : ℝ, linSpline (NF.dualX (NF.realX e)) box eps (List.zip up up') false (x, x')
        = .ok ((LinWhole.val e box eps up x, v'), (LinWhole.ld e box eps up x, l')) ∧
      HasDerivAt (fun s => LinWhole.val e box eps (DualXParam.lineL up up' s) (x + s * x')) v' 0 ∧
      HasDerivAt (fun s => LinWhole.ld e box eps (DualXParam.lineL up up' s) (x + s * x')) l' 0 :=
  DualXLin.linSpline_dual_param hv up' hl k hk x x' h0 h1

/-- executed quadratic spline forward (`K+1` heights), parameter and input direction -/
theorem quadSpline_param_dual {e : Float → ℝ} {c : QCfg} {uw uh : List ℝ} (hv : QuadWhole.QuadValid e c uw uh)
    (uw' uh' : List ℝ) (hlw : uw.length = uw'.length) (hlh : uh.length = uh'.length)
    (hthr : ∀ j < uh.length, uh.getD j 0 ≠ 20)
    (k : ℕ) (hk : k < uw.length) (x x' : ℝ) (h0 : QuadWhole.xk e c uw k < x) (h1 : x < QuadWhole.xk e c uw (k+1)) :
    ∃ v' l' : ℝ, quadSpline (NF.dualX (NF.realX e)) c (List.zip uw uw') (List.zip uh uh') false (x, x')
        = .ok ((QuadWhole.val e c uw uh x, v'), (QuadWhole.ld e c uw uh x, l')) ∧
      HasDerivAt (fun s => QuadWhole.val e c (DualXParam.lineL uw uw' s) (DualXParam.lineL uh uh' s) (x + s * x')) v' 0 ∧
      HasDerivAt (fun s => QuadWhole.ld e c (DualXParam.lineL uw uw' s) (DualXParam.lineL uh uh' s) (x + s * x')) l' 0 :=
  DualXQuadParam.quadSpline_dual_param hv uw' uh' hlw hlh hthr k hk x x' h0 h1

/-- … and the tails shape (`K-1` heights) -/
theorem quadSpline_param_dual_tails_shape {e : Float → ℝ} {c : QCfg} {uw uh : List ℝ} (hv : QuadWhole.QuadValidT e c uw uh)
    (uw' uh' : List ℝ) (hlw : uw.length = uw'.length) (hlh : uh.length = uh'.length)
    (hthr : ∀ j < uh.length, uh.getD j 0 ≠ 20)
    (k : ℕ) (hk : k < uw.length) (x x' : ℝ) (h0 : QuadWhole.xk e c uw k < x) (h1 : x < QuadWhole.xk e c uw (k+1)) :
    ∃ v' l' : ℝ, quadSpline (NF.dualX (NF.realX e)) c (List.zip uw uw') (List.zip uh uh') false (x, x')
        = .ok ((QuadWhole.val e c uw uh x, v'), (QuadWhole.ld e c uw uh x, l')) ∧
      HasDerivAt (fun s => QuadWhole.val e c (DualXParam.lineL uw uw' s) (DualXParam.lineL uh uh' s) (x + s * x')) v' 0 ∧
      HasDerivAt (fun s => QuadWhole.ld e c (DualXParam.lineL uw uw' s) (DualXParam.lineL uh uh' s) (x + s * x')) l' 0 :=
  DualXQuadParam.quadSpline_dual_param_T hv uw' uh' hlw hlh hthr k hk x x' h0 h1

/-- **chain rule through the EXECUTED coupling layer** (bounded RQ elements, both directions): the inputs `X` and the
    conditioner's output array `P` move along ANY differentiable curves (`IsDualA`: the dual arrays carry their derivatives at `t`
    — for `P` that is the derivative of whatever differentiable conditioner produced it); every output entry and every row
    log-det of the dual run is the (value, total derivative) of the same entry of the real executed layer, identity features pass
    through with their tangents, and the dual layer reports no error.  `LayerInterior`: every transformed element lies strictly
    inside a bin and off the softplus threshold (the genuine non-differentiabilities of the executed program). -/
theorem coupling_layer_dual {e : Float → ℝ} {t : ℝ} {X P : ℝ → Array ℝ} {dX dP : Array (ℝ × ℝ)} {c : NF.ElCfg}
    (hk : c.kind = "rq") (ht : c.tails = false) (dmask : List (ℝ × ℝ)) (B S : ℕ)
    (hX : DualXCoupling.IsDualA X t dX) (hP : DualXCoupling.IsDualA P t dP) (hsz : B * dmask.length * S ≤ dX.size)
    (hin : DualXCoupling.LayerInterior e c (dmask.map Prod.fst) B S (X t) (P t)) :
    (NF.couplingApply (NF.dualX (NF.realX e)) c dmask B S dX dP false).err = none ∧
    (∀ {b ch s : ℕ}, b < B → ch < dmask.length → s < S →
      DualX.IsDual (fun r => (NF.couplingApply (NF.realX e) c (dmask.map Prod.fst) B S (X r) (P r) false).out.getD
          (NF.flatIdx dmask.length S b ch s) 0) t
        ((NF.couplingApply (NF.dualX (NF.realX e)) c dmask B S dX dP false).out.getD (NF.flatIdx dmask.length S b ch s) 0)) ∧
    (∀ {b : ℕ}, b < B →
      DualX.IsDual (fun r => (NF.couplingApply (NF.realX e) c (dmask.map Prod.fst) B S (X r) (P r) false).ld.getD b 0) t
        ((NF.couplingApply (NF.dualX (NF.realX e)) c dmask B S dX dP false).ld.getD b 0)) :=
  ⟨DualXCoupling.coupling_rq_dual_err_none hk ht dmask B S hX hP hin,
   fun hb hch hs => DualXCoupling.coupling_rq_dual_out hk ht dmask B S hX hP hsz hin hb hch hs,
   fun hb => DualXCoupling.coupling_rq_dual_ld hk ht dmask B S hX hP hin hb⟩

theorem coupling_layer_inverse_dual {e : Float → ℝ} {t : ℝ} {X P : ℝ → Array ℝ} {dX dP : Array (ℝ × ℝ)} {c : NF.ElCfg}
    (hk : c.kind = "rq") (ht : c.tails = false) (dmask : List (ℝ × ℝ)) (B S : ℕ)
    (hX : DualXCoupling.IsDualA X t dX) (hP : DualXCoupling.IsDualA P t dP) (hsz : B * dmask.length * S ≤ dX.size)
    (hin : DualXCoupling.LayerInteriorI e c (dmask.map Prod.fst) B S (X t) (P t)) :
    (∀ {b ch s : ℕ}, b < B → ch < dmask.length → s < S →
      DualX.IsDual (fun r => (NF.couplingApply (NF.realX e) c (dmask.map Prod.fst) B S (X r) (P r) true).out.getD
          (NF.flatIdx dmask.length S b ch s) 0) t
        ((NF.couplingApply (NF.dualX (NF.realX e)) c dmask B S dX dP true).out.getD (NF.flatIdx dmask.length S b ch s) 0)) ∧
    (∀ {b : ℕ}, b < B →
      DualX.IsDual (fun r => (NF.couplingApply (NF.realX e) c (dmask.map Prod.fst) B S (X r) (P r) true).ld.getD b 0) t
        ((NF.couplingApply (NF.dualX (NF.realX e)) c dmask B S dX dP true).ld.getD b 0)) :=
  ⟨fun hb hch hs => DualXCoupling.coupling_rq_dual_out_inv hk ht dmask B S hX hP hsz hin hb hch hs,
   fun hb => DualXCoupling.coupling_rq_dual_ld_inv hk ht dmask B S hX hP hin hb⟩

/-- non-vacuity: a two-feature layer whose conditioner is an ARBITRARY pair of differentiable functions `g1, g2` of the identity
    feature — the dual run returns the total derivative (through the conditioner) of the transformed feature and of the log-det -/
example (g1 g2 : ℝ → ℝ) (g1' g2' z z' x x' : ℝ) (h1 : HasDerivAt g1 g1' z) (h2 : HasDerivAt g2 g2' z) (hx0 : 0 < x) (hx1 : x < 1) :
    DualX.IsDual
      (fun r => (NF.couplingApply (NF.realX RQWhole.eNV) DualXCoupling.cS [0, 1] 1 1 #[z + r * z', x + r * x']
        #[g1 (z + r * z'), g2 (z + r * z'), 0, 0] false).out.getD 1 0) 0
      ((NF.couplingApply (NF.dualX (NF.realX RQWhole.eNV)) DualXCoupling.cS [(0, 0), (1, 0)] 1 1 #[(z, z'), (x, x')]
        #[(g1 z, g1' * z'), (g2 z, g2' * z'), (0, 0), (0, 0)] false).out.getD 1 0) :=
  (DualXCoupling.coupling_rq_dual_example g1 g2 g1' g2' z z' x x' h1 h2 hx0 hx1).2.1

end Properties.C16
