import NflowsModel.Properties.C17
import NflowsModel.Lemmas.BatchErr
import NflowsModel.Lemmas.WellDefined
/-!
# C17 (continued) — "never fail" as well-definedness, batch-level rejection, tails for every family

Over ℝ `.ok` only says that no explicit error branch is taken (`Real.log 0 = 0`, `x/0 = 0`).  `…_well_defined` (external audit, C17
finding 2): on the closed in-domain box every logarithm argument the executed program forms is `> 0`, every divisor `≠ 0`, every
square-root argument `≥ 0` — RQ, quadratic, linear in both directions, cubic forward.  For the cubic INVERSE the full statement is
FALSE, and two theorems say where, with accepted configurations: linear bins divide by the zero cubic coefficient (rescued by the
quadratic fallback; recorded findings F24/F25), and the Cardano branch forms `log|0|` inside `cbrt` whenever `delta1 = 0` — on a one-bin
configuration for EVERY in-domain input; replayed on the code: values correct, every gradient NaN (listed under F25).
Batch level (finding 4): a layer reports error `e` iff some element's program returns it and everything before it ran; for the
linear family `err = some outsideDomain ↔ ∃ element outside`.  Tails (finding 5): quadratic / cubic / linear with linear tails are
total at the element level and their coupling layers never raise (quadratic needs `2 ≤ K`: finding F27).
-/
set_option linter.all false
namespace Properties.C17

theorem rq_forward_well_defined :
    ∀ {e : Float → ℝ} {c : NF.RQCfg} {uw uh ud : List ℝ},
      RQWhole.RQValid e c uw uh ud →
        ∀ (x : ℝ), e c.box.left ≤ x → x ≤ e c.box.right → NF.WellDefined.RQ.RQFwdWellDefined e c uw uh ud x :=
  @NF.WellDefined.rq_forward_well_defined

theorem rq_inverse_well_defined :
    ∀ {e : Float → ℝ} {c : NF.RQCfg} {uw uh ud : List ℝ},
      RQWhole.RQValid e c uw uh ud →
        ∀ (y : ℝ), e c.box.bottom ≤ y → y ≤ e c.box.top → NF.WellDefined.RQ.RQInvWellDefined e c uw uh ud y :=
  @NF.WellDefined.rq_inverse_well_defined

theorem quad_forward_well_defined :
    ∀ {e : Float → ℝ} {c : NF.QCfg} {uw uh : List ℝ},
      QuadWhole.QuadValid e c uw uh →
        ∀ (x : ℝ), e c.box.left ≤ x → x ≤ e c.box.right → WellDefinedQuad.QuadFwdWellDefined e c uw uh x :=
  @NF.WellDefined.quad_forward_well_defined

theorem quad_inverse_well_defined :
    ∀ {e : Float → ℝ} {c : NF.QCfg} {uw uh : List ℝ},
      QuadWhole.QuadValid e c uw uh →
        ∀ (y : ℝ), e c.box.bottom ≤ y → y ≤ e c.box.top → WellDefinedQuad.QuadInvWellDefined e c uw uh y :=
  @NF.WellDefined.quad_inverse_well_defined

theorem lin_forward_well_defined :
    ∀ {e : Float → ℝ} {box : NF.Box} {eps : Float} {up : List ℝ},
      LinWhole.LinValid e box eps up →
        ∀ (x : ℝ), e box.left ≤ x → x ≤ e box.right → NF.WellDefined.Lin.LinFwdWellDefined e box eps up x :=
  @NF.WellDefined.lin_forward_well_defined

theorem lin_inverse_well_defined :
    ∀ {e : Float → ℝ} {box : NF.Box} {eps : Float} {up : List ℝ},
      LinWhole.LinValid e box eps up →
        ∀ (y : ℝ), e box.bottom ≤ y → y ≤ e box.top → NF.WellDefined.Lin.LinInvWellDefined e box eps up y :=
  @NF.WellDefined.lin_inverse_well_defined

theorem cubic_forward_well_defined :
    ∀ {e : Float → ℝ} {c : NF.CCfg} {uw uh : List ℝ},
      CubicWhole.CubicValid e c uw uh →
        ∀ (udl udr x : ℝ),
          e c.box.left ≤ x → x ≤ e c.box.right → NF.WellDefined.Cubic.CubicFwdWellDefined e c uw uh udl udr x :=
  @NF.WellDefined.cubic_forward_well_defined

theorem cubic_inverse_well_defined_partial :
    ∀ {e : Float → ℝ} {c : NF.CCfg} {uw uh : List ℝ},
      CubicWhole.CubicValid e c uw uh →
        ∀ (udl udr y : ℝ),
          e c.box.bottom ≤ y → y ≤ e c.box.top → NF.WellDefined.Cubic.CubicInvWellDefinedPartial e c uw uh udl udr y :=
  @NF.WellDefined.cubic_inverse_well_defined_partial

theorem cubic_inverse_divides_by_zero :
    ∀ (y : ℝ),
      0 ≤ y →
        y ≤ 1 →
          CubicWhole.aK CubicInverseWhole.eI CubicWhole.cNV [0, 0] [0, 0] (-Real.log 2) (-Real.log 2)
              (CubicInverseWhole.idxH CubicInverseWhole.eI CubicWhole.cNV [0, 0]
                (CubicInverseWhole.yn CubicInverseWhole.eI CubicWhole.cNV y)) =
            0 :=
  @NF.WellDefined.cubic_inverse_divides_by_zero

theorem cubic_inverse_cardano_log_zero :
    ∀ (y : ℝ),
      0 ≤ y →
        y ≤ 1 →
          have i :=
            CubicInverseWhole.idxH CubicInverseWhole.eI CubicWhole.cNV [0]
              (CubicInverseWhole.yn CubicInverseWhole.eI CubicWhole.cNV y);
          have ia := CubicWhole.aK CubicInverseWhole.eI CubicWhole.cNV [0] [0] (-Real.log 6) (Real.log (4 / 3)) i;
          have ib := CubicWhole.bK CubicInverseWhole.eI CubicWhole.cNV [0] [0] (-Real.log 6) (Real.log (4 / 3)) i;
          have ic := CubicWhole.dv CubicInverseWhole.eI CubicWhole.cNV [0] [0] (-Real.log 6) (Real.log (4 / 3)) i;
          have id := CubicWhole.chs CubicInverseWhole.eI CubicWhole.cNV [0] i;
          CubicInverseWhole.fallback (NF.realX CubicInverseWhole.eI) CubicWhole.cNV ia
                (CubicWhole.cws CubicInverseWhole.eI CubicWhole.cNV [0] i)
                (CubicWhole.cws CubicInverseWhole.eI CubicWhole.cNV [0] (i + 1))
                (CubicWhole.hv CubicInverseWhole.eI CubicWhole.cNV [0] i) =
              Bool.false ∧
            CubicRoots.disc (ib / ia / 3) (ic / ia / 3)
                  ((id - CubicInverseWhole.yn CubicInverseWhole.eI CubicWhole.cNV y) / ia) <
                0 ∧
              ((-CubicRoots.dep1 (ib / ia / 3) (ic / ia / 3)
                          ((id - CubicInverseWhole.yn CubicInverseWhole.eI CubicWhole.cNV y) / ia) +
                      √(-CubicRoots.disc (ib / ia / 3) (ic / ia / 3)
                            ((id - CubicInverseWhole.yn CubicInverseWhole.eI CubicWhole.cNV y) / ia))) /
                    2 =
                  0 ∨
                (-CubicRoots.dep1 (ib / ia / 3) (ic / ia / 3)
                          ((id - CubicInverseWhole.yn CubicInverseWhole.eI CubicWhole.cNV y) / ia) -
                      √(-CubicRoots.disc (ib / ia / 3) (ic / ia / 3)
                            ((id - CubicInverseWhole.yn CubicInverseWhole.eI CubicWhole.cNV y) / ia))) /
                    2 =
                  0) :=
  @NF.WellDefined.cubic_inverse_cardano_log_zero

theorem cdf_layer_err_some_iff :
    ∀ {α : Type} (o : XOps α) (c : NF.ElCfg) (B n : ℕ) (x params : Array α) (inv : Bool)
      (e : Err),
      (NF.cdfApply o c B n x params inv).err = Option.some e ↔
        ∃ (b : ℕ) (i : ℕ),
          b < B ∧
            i < n ∧
              NF.cdfEl o c n x params inv b i = Except.error e ∧
                ∀ (b' i' : ℕ),
                  b' < B →
                    i' < n →
                      NF.BatchErr.Lex2 b' i' b i → ∃ (v : α × α × List α), NF.cdfEl o c n x params inv b' i' = Except.ok v :=
  @NF.BatchErr.cdf_err_some_iff

theorem ar_layer_err_some_iff :
    ∀ {α : Type} (o : XOps α) (c : NF.ElCfg) (B F : ℕ) (x params : Array α) (inv : Bool)
      (e : Err),
      (NF.arApply o c B F x params inv).err = Option.some e ↔
        ∃ (b : ℕ) (i : ℕ),
          b < B ∧
            i < F ∧
              NF.arEl o c F x params inv b i = Except.error e ∧
                ∀ (b' i' : ℕ),
                  b' < B →
                    i' < F →
                      NF.BatchErr.Lex2 b' i' b i → ∃ (v : α × α × List α), NF.arEl o c F x params inv b' i' = Except.ok v :=
  @NF.BatchErr.ar_err_some_iff

theorem coupling_layer_err_some_iff :
    ∀ {α : Type} (o : XOps α) (c : NF.ElCfg) (mask : List α) (B S : ℕ)
      (x params : Array α) (inverse : Bool) (uparams : Array α) (e : Err),
      (NF.couplingApply o c mask B S x params inverse Option.none uparams).err = Option.some e ↔
        ∃ (b : ℕ) (t : ℕ) (s : ℕ),
          b < B ∧
            t < (NF.transformIdx o mask).length ∧
              s < S ∧
                NF.BatchErr.condElAt o c mask S x params inverse b t s = Except.error e ∧
                  ∀ (b' t' s' : ℕ),
                    b' < B →
                      t' < (NF.transformIdx o mask).length →
                        s' < S →
                          NF.BatchErr.Lex3 b' t' s' b t s →
                            ∃ (v : α × α × List α), NF.BatchErr.condElAt o c mask S x params inverse b' t' s' = Except.ok v :=
  @NF.BatchErr.coupling_err_some_iff_el

theorem coupling_lin_layer_rejects_iff :
    ∀ {e : Float → ℝ} {c : NF.ElCfg},
      NF.BatchErr.LinCfgValid e c →
        ∀ (mask : List ℝ) (B S : ℕ) (x params uparams : Array ℝ) (inv : Bool),
          ((NF.couplingApply (NF.realX e) c mask B S x params inv Option.none uparams).err = Option.some Err.outsideDomain ↔
              ∃ (b : ℕ) (t : ℕ) (s : ℕ),
                b < B ∧
                  t < (NF.transformIdx (NF.realX e) mask).length ∧
                    s < S ∧
                      (NF.BatchErr.condIn (NF.realX e) mask S x b t s < e (NF.BatchErr.loF c inv) ∨
                        e (NF.BatchErr.hiF c inv) < NF.BatchErr.condIn (NF.realX e) mask S x b t s)) ∧
            ((NF.couplingApply (NF.realX e) c mask B S x params inv Option.none uparams).err = Option.none ↔
                ∀ (b t s : ℕ),
                  b < B →
                    t < (NF.transformIdx (NF.realX e) mask).length →
                      s < S →
                        e (NF.BatchErr.loF c inv) ≤ NF.BatchErr.condIn (NF.realX e) mask S x b t s ∧
                          NF.BatchErr.condIn (NF.realX e) mask S x b t s ≤ e (NF.BatchErr.hiF c inv)) ∧
              ∀ (er : Err),
                (NF.couplingApply (NF.realX e) c mask B S x params inv Option.none uparams).err = Option.some er →
                  er = Err.outsideDomain :=
  @NF.BatchErr.coupling_lin_err_iff

theorem cdf_lin_layer_rejects_iff :
    ∀ {e : Float → ℝ} {c : NF.ElCfg},
      NF.BatchErr.LinCfgValid e c →
        ∀ (B n : ℕ) (x params : Array ℝ) (inv : Bool),
          ((NF.cdfApply (NF.realX e) c B n x params inv).err = Option.some Err.outsideDomain ↔
              ∃ (b : ℕ) (i : ℕ),
                b < B ∧
                  i < n ∧
                    (x.getD (b * n + i) 0 < e (NF.BatchErr.loF c inv) ∨ e (NF.BatchErr.hiF c inv) < x.getD (b * n + i) 0)) ∧
            ((NF.cdfApply (NF.realX e) c B n x params inv).err = Option.none ↔
                ∀ (b i : ℕ),
                  b < B →
                    i < n →
                      e (NF.BatchErr.loF c inv) ≤ x.getD (b * n + i) 0 ∧ x.getD (b * n + i) 0 ≤ e (NF.BatchErr.hiF c inv)) ∧
              ∀ (er : Err), (NF.cdfApply (NF.realX e) c B n x params inv).err = Option.some er → er = Err.outsideDomain :=
  @NF.BatchErr.cdf_lin_err_iff

theorem quad_tails_total :
    ∀ {e : Float → ℝ} (tb mW mH : Float) (uw uh : List ℝ),
      QuadWhole.QuadValidT e (TailsWhole.qcfgT tb mW mH) uw uh →
        e (-tb) = -e tb →
          ∀ (x : ℝ),
            (∃ (r : ℝ × ℝ),
                (NF.tailsWrap (NF.realX e) tb x fun (box : NF.Box) =>
                    NF.quadSpline (NF.realX e) { box := box, minW := mW, minH := mH } uw uh Bool.false x) =
                  Except.ok r) ∧
              ∃ (r : ℝ × ℝ),
                (NF.tailsWrap (NF.realX e) tb x fun (box : NF.Box) =>
                    NF.quadSpline (NF.realX e) { box := box, minW := mW, minH := mH } uw uh Bool.true x) =
                  Except.ok r :=
  @NF.BatchErr.quad_tails_total

theorem lin_tails_total :
    ∀ {e : Float → ℝ} (tb eps : Float) (up : List ℝ),
      LinWhole.LinValid e (TailsWhole.tbox tb) eps up →
        e (-tb) = -e tb →
          ∀ (x : ℝ),
            (∃ (r : ℝ × ℝ),
                (NF.tailsWrap (NF.realX e) tb x fun (box : NF.Box) => NF.linSpline (NF.realX e) box eps up Bool.false x) =
                  Except.ok r) ∧
              ∃ (r : ℝ × ℝ),
                (NF.tailsWrap (NF.realX e) tb x fun (box : NF.Box) => NF.linSpline (NF.realX e) box eps up Bool.true x) =
                  Except.ok r :=
  @NF.BatchErr.lin_tails_total

theorem cubic_tails_total :
    ∀ {e : Float → ℝ} (tb mW mH eps thr : Float) (uw uh : List ℝ) (udl udr : ℝ),
      CubicWhole.CubicValid e (TailsWhole.ccfgT tb mW mH eps thr) uw uh →
        e (-tb) = -e tb →
          ∀ (inverse : Bool) (x : ℝ),
            ∃ (r : ℝ × ℝ × List ℝ),
              TailsWhole.cubicTails (NF.realX e) tb mW mH eps thr uw uh udl udr inverse x = Except.ok r :=
  @NF.BatchErr.cubic_tails_total

theorem quad_tails_coupling_never_raises :
    ∀ {e : Float → ℝ} {c : NF.ElCfg},
      NF.BatchErr.QuadTailsCfgValid e c →
        ∀ (mask : List ℝ) (B S : ℕ) (x params uparams : Array ℝ) (inverse : Bool),
          (NF.couplingApply (NF.realX e) c mask B S x params inverse Option.none uparams).err = Option.none :=
  @NF.BatchErr.coupling_quad_tails_err_none

theorem lin_tails_coupling_never_raises :
    ∀ {e : Float → ℝ} {c : NF.ElCfg},
      NF.BatchErr.LinTailsCfgValid e c →
        ∀ (mask : List ℝ) (B S : ℕ) (x params uparams : Array ℝ) (inverse : Bool),
          (NF.couplingApply (NF.realX e) c mask B S x params inverse Option.none uparams).err = Option.none :=
  @NF.BatchErr.coupling_lin_tails_err_none

end Properties.C17
