import NflowsModel.Core.Dist
import NflowsModel.Lemmas.DistContract
/-!
# C18 — the distribution interface keeps its documented shape and argument contract

All statements are about the executable shape model `Core/Dist.lean` that the driver runs against `/repo`
(op `c18`).  They hold for every event shape with positive dimensions, every `n > 0`, every batch size `b > 0`
(dividing `n` or not), every number `R` of context rows, and every class whose two hooks `_sample` / `_log_prob`
meet the hook contract (`SampleSpec`, `LogProbSpec`) — which is then proved for each class of the library and
shown to be inherited by `Flow` from its base distribution.

Notation: `Accepts okRow ctx` — the context argument is `None` (if the class works unconditionally) or a tensor
`[R] ++ rest` of an accepted row shape; `ctxRows ctx` — `none` / `some R`;
`contractSample event none n = n :: event`, `contractSample event (some R) n = R :: n :: event`.

The full-strength reading "for EVERY distribution `sample(n)` returns `n` draws" is false of the code for two
classes — `MADEMoG.sample` without a context (AttributeError, finding F15) and `DiagonalNormal.sample`
(NotImplementedError) — see `sample_noctx_counterexample_madeMoG`, `diagNormal_sample_notImplemented`; the theorems
carry the forced hypothesis as `Accepts okRow ctx`.  A `bool` count (`True`) passes `is_positive_int`; with a
context it counts as 1, without one `torch.randn(True, …)` raises TypeError (`stdNormal_bool_*`).
-/
open NF.Dist

namespace Properties.C18

/-! ## argument validation -/

/-- `is_positive_int`: `True` counts as an int, `0`, negatives, floats, strings and `None` do not pass -/
theorem isPositiveInt_table :
    isPositiveInt (.int 1) = true ∧ isPositiveInt (.int 7) = true ∧ isPositiveInt (.bool true) = true ∧
    isPositiveInt (.int 0) = false ∧ isPositiveInt (.int (-1)) = false ∧ isPositiveInt (.bool false) = false ∧
    isPositiveInt .float = false ∧ isPositiveInt .str = false ∧ isPositiveInt .none = false := by decide

theorem isPositiveInt_int_iff (k : Int) : isPositiveInt (.int k) = true ↔ 0 < k := by simp [isPositiveInt]

/-- ANY class, any context, any batch size: a `num_samples` that is not a positive int is a TypeError -/
theorem sample_rejects_of_not_positive_int (h : Hooks) (num : PyVal) (ctx : Option Shape) (batch : PyVal)
    (hnum : isPositiveInt num = false) : h.sample num ctx batch = .error .typeError :=
  sample_typeError_of_not_posInt h num ctx batch hnum

/-- ANY class: a `batch_size` that is neither `None` nor a positive int is a TypeError -/
theorem sample_rejects_of_bad_batch_size (h : Hooks) (num : PyVal) (ctx : Option Shape) (batch : PyVal)
    (hb : isPositiveInt batch = false) (hb' : batch ≠ .none) : h.sample num ctx batch = .error .typeError :=
  sample_typeError_of_bad_batch h num ctx batch hb hb'

/-- `sample` raises TypeError **iff** `num_samples` is not a positive int (class meeting the hook contract,
    accepted context, documented batch size, `num_samples` not a `bool`) -/
theorem sample_rejects_iff {h : Hooks} {event : Shape} {okRow : Option Shape → Prop}
    (S : SampleSpec h event okRow) (ctx : Option Shape) (hctx : Accepts okRow ctx)
    (batch : PyVal) (hb : GoodBatch batch) (num : PyVal) (hnb : num.isBool = false) :
    h.sample num ctx batch = .error .typeError ↔ isPositiveInt num = false := by
  constructor
  · intro herr
    by_contra hpos
    have hpos' : isPositiveInt num = true := by simpa using hpos
    cases num with
    | int k =>
      have hk : 0 < k := (isPositiveInt_int_iff k).1 hpos'
      obtain ⟨n, rfl⟩ : ∃ n : Nat, k = (n : Int) := ⟨k.toNat, by omega⟩
      rw [sample_ok S ctx hctx n (by exact_mod_cast hk) batch hb] at herr
      cases herr
    | bool b => simp [PyVal.isBool] at hnb
    | float => simp [isPositiveInt] at hpos'
    | none => simp [isPositiveInt] at hpos'
    | str => simp [isPositiveInt] at hpos'
  · exact fun hnum => sample_typeError_of_not_posInt h num ctx batch hnum

/-- with a valid `num_samples`, `sample` raises TypeError **iff** `batch_size` is given and is not a positive int -/
theorem batch_size_rejects_iff {h : Hooks} {event : Shape} {okRow : Option Shape → Prop}
    (S : SampleSpec h event okRow) (ctx : Option Shape) (hctx : Accepts okRow ctx)
    (n : Nat) (hn : 0 < n) (batch : PyVal) (hnb : batch.isBool = false) :
    h.sample (.int n) ctx batch = .error .typeError ↔ (batch ≠ .none ∧ isPositiveInt batch = false) := by
  constructor
  · intro herr
    by_contra hcon
    have hgood : GoodBatch batch := by
      cases batch with
      | none => trivial
      | int b =>
        have : isPositiveInt (.int b) = true := by
          by_contra h0
          exact hcon ⟨by simp, by simpa using h0⟩
        exact (isPositiveInt_int_iff b).1 this
      | bool b => simp [PyVal.isBool] at hnb
      | float => exact absurd ⟨by simp, rfl⟩ hcon
      | str => exact absurd ⟨by simp, rfl⟩ hcon
    rw [sample_ok S ctx hctx n hn batch hgood] at herr
    cases herr
  · rintro ⟨h1, h2⟩
    exact sample_typeError_of_bad_batch h _ ctx batch h2 h1

/-! ## shapes -/

/-- `sample(n)` is `[n] ++ event`; `sample(n, context)` is `[R, n] ++ event` (one call, no batching) -/
theorem sample_shape {h : Hooks} {event : Shape} {okRow : Option Shape → Prop} (S : SampleSpec h event okRow)
    (ctx : Option Shape) (hctx : Accepts okRow ctx) (n : Nat) (hn : 0 < n) :
    h.sample (.int n) ctx .none = .ok (contractSample event (ctxRows ctx) n) :=
  sample_ok S ctx hctx n hn .none trivial

/-- **batched generation**: for every `n > 0` and every batch size `b > 0` — dividing `n` or not, larger than `n` or
    not — `n / b` full batches plus the remainder, joined along the draw dimension (0 without context, 1 with
    `R` context rows), give exactly the unbatched shape: `[n] ++ event`, resp. `[R, n] ++ event`. -/
theorem batched_sample_shape {h : Hooks} {event : Shape} {okRow : Option Shape → Prop} (S : SampleSpec h event okRow)
    (ctx : Option Shape) (hctx : Accepts okRow ctx) (n b : Nat) (hn : 0 < n) (hb : 0 < b) :
    h.sample (.int n) ctx (.int b) = .ok (contractSample event (ctxRows ctx) n) :=
  sample_ok S ctx hctx n hn (.int b) (show (0:Int) < (b:Int) by exact_mod_cast hb)

/-- the two cases written out -/
theorem batched_sample_shape_ctx {h : Hooks} {event : Shape} {okRow : Option Shape → Prop}
    (S : SampleSpec h event okRow) (R : Nat) (rest : Shape) (hok : okRow (some rest)) (hrest : Pos rest)
    (n b : Nat) (hn : 0 < n) (hb : 0 < b) :
    h.sample (.int n) (some (R :: rest)) (.int b) = .ok (R :: n :: event) :=
  sample_batched_ctx S R rest hok hrest n b hn hb

theorem batched_sample_shape_noctx {h : Hooks} {event : Shape} {okRow : Option Shape → Prop}
    (S : SampleSpec h event okRow) (hok : okRow none) (n b : Nat) (hn : 0 < n) (hb : 0 < b) :
    h.sample (.int n) none (.int b) = .ok (n :: event) :=
  sample_batched_noctx S hok n b hn hb

/-- batching changes nothing about the shape -/
theorem batched_eq_unbatched {h : Hooks} {event : Shape} {okRow : Option Shape → Prop} (S : SampleSpec h event okRow)
    (ctx : Option Shape) (hctx : Accepts okRow ctx) (n b : Nat) (hn : 0 < n) (hb : 0 < b) :
    h.sample (.int n) ctx (.int b) = h.sample (.int n) ctx .none := by
  rw [batched_sample_shape S ctx hctx n b hn hb, sample_shape S ctx hctx n hn]

/-- value level: the result has `n` draws and draw `k` is draw `k mod b` of batch `k div b` (for every context
    row) — the pieces are laid side by side along the draw axis, nothing is interleaved or dropped -/
theorem batchLayout_spec (n b : Nat) (hb : 0 < b) :
    (batchLayout n b).length = n ∧ ∀ k, k < n → (batchLayout n b)[k]? = some (k / b, k % b) :=
  NF.Dist.batchLayout_spec n b hb

/-- `log_prob` returns one value per input row -/
theorem logprob_shape {h : Hooks} {event : Shape} {okRow : Option Shape → Prop} (L : LogProbSpec h event okRow)
    (rows : Nat) (ctx : Option Shape) (hctx : Accepts okRow ctx) (hrows : ∀ r, ctxRows ctx = some r → r = rows) :
    h.logProb (rows :: event) ctx = .ok [rows] :=
  logProb_ok L rows ctx hctx hrows

/-- ANY class: a context whose row count differs from the inputs' is a ValueError -/
theorem logprob_rejects_of_row_mismatch (h : Hooks) (rows r : Nat) (inTail ctxTail : Shape) (hne : rows ≠ r) :
    h.logProb (rows :: inTail) (some (r :: ctxTail)) = .error .valueError :=
  logProb_valueError_of_rows_ne h rows r inTail ctxTail hne

/-- `log_prob` raises ValueError **iff** the context's row count differs from the inputs' -/
theorem logprob_rejects_iff {h : Hooks} {event : Shape} {okRow : Option Shape → Prop} (L : LogProbSpec h event okRow)
    (rows r : Nat) (rest : Shape) (hok : okRow (some rest)) (hrest : Pos rest) :
    h.logProb (rows :: event) (some (r :: rest)) = .error .valueError ↔ rows ≠ r := by
  constructor
  · intro herr heq
    subst heq
    rw [logProb_ctx_ok L rows rest hok hrest] at herr
    cases herr
  · exact fun hne => logProb_valueError_of_rows_ne h rows r event rest hne

/-- `sample_and_log_prob` returns samples `[n] ++ event` / `[R, n] ++ event` and log-probabilities `[n]` / `[R, n]`,
    for every distribution object meeting the contract (default implementation or `Flow`'s override) -/
theorem sample_and_log_prob_shapes_match {d : Dist} {event : Shape} {okRow : Option Shape → Prop}
    (D : DistSpec d event okRow) (ctx : Option Shape) (hctx : Accepts okRow ctx) (n : Nat) (hn : 0 < n) :
    d.sampleAndLogProb (.int n) ctx = .ok (contractSample event (ctxRows ctx) n, contractLogProb (ctxRows ctx) n) :=
  salp_ok D ctx hctx n hn

/-- the samples returned by `sample_and_log_prob` have the shape `sample` returns, and the log-probabilities have
    that shape without the event dimensions -/
theorem sample_and_log_prob_agrees_with_sample {d : Dist} {event : Shape} {okRow : Option Shape → Prop}
    (D : DistSpec d event okRow) (ctx : Option Shape) (hctx : Accepts okRow ctx) (n : Nat) (hn : 0 < n) :
    ∃ s l, d.sampleAndLogProb (.int n) ctx = .ok (s, l) ∧ d.sample (.int n) ctx .none = .ok s ∧ s = l ++ event := by
  refine ⟨_, _, salp_ok D ctx hctx n hn, sample_ok D.sample ctx hctx n hn .none trivial, ?_⟩
  cases h : ctxRows ctx <;> simp [contractSample, contractLogProb]

/-- the default `Distribution.sample_and_log_prob` (base.py:88-122), any class meeting the hook contract -/
theorem default_sample_and_log_prob_shapes_match {h : Hooks} {event : Shape} {okRow : Option Shape → Prop}
    (S : SampleSpec h event okRow) (L : LogProbSpec h event okRow) (hev : Pos event)
    (ctx : Option Shape) (hctx : Accepts okRow ctx) (n : Nat) (hn : 0 < n) :
    h.sampleAndLogProb (.int n) ctx = .ok (contractSample event (ctxRows ctx) n, contractLogProb (ctxRows ctx) n) :=
  salp_ok (toDist_spec S L hev) ctx hctx n hn

/-- an invalid count is a TypeError from `sample_and_log_prob` too -/
theorem sample_and_log_prob_rejects (h : Hooks) (num : PyVal) (ctx : Option Shape) (hnum : isPositiveInt num = false) :
    h.sampleAndLogProb num ctx = .error .typeError :=
  salp_default_typeError h num ctx hnum

/-! ## every class of the library meets the contract -/

/-- `StandardNormal`: any event shape, with or without a context of any row shape -/
theorem stdNormal_meets_contract (event : Shape) (hev : Pos event) :
    DistSpec (stdNormal event).toDist event (fun _ => True) :=
  toDist_spec (stdNormal_sampleSpec event) (stdNormal_logProbSpec event) hev

/-- `ConditionalDiagonalNormal` (identity encoder): contexts `[R, 2·|event|]` -/
theorem condDiagNormal_meets_contract (event : Shape) (hev : Pos event) :
    DistSpec (condDiagNormal event).toDist event (fun r => r = some [2 * numel event]) :=
  toDist_spec (condDiagNormal_sampleSpec event hev) (condDiagNormal_logProbSpec event) hev

/-- `ConditionalIndependentBernoulli` (identity encoder): contexts `[R, |event|]` -/
theorem condBernoulli_meets_contract (event : Shape) (hev : Pos event) :
    DistSpec (condBernoulli event).toDist event (fun r => r = some [numel event]) :=
  toDist_spec (condBernoulli_sampleSpec event hev) (condBernoulli_logProbSpec event) hev

/-- `MADEMoG(features = D, context_features = C)`: contexts `[R, C]` -/
theorem madeMoG_meets_contract (D C : Nat) (hD : 0 < D) (hC : 0 < C) :
    DistSpec (madeMoG D C).toDist [D] (fun r => r = some [C]) :=
  toDist_spec (madeMoG_sampleSpec D C hD hC)
    ((madeMoG_logProbSpec D C).mono (fun _ h => Or.inr h))
    (fun d hd => by simp at hd; subst hd; exact hD)

/-- `MADEMoG.log_prob` also works without a context -/
theorem madeMoG_logprob_noctx (D C rows : Nat) : (madeMoG D C).logProb [rows, D] none = .ok [rows] :=
  logProb_noctx_ok (madeMoG_logProbSpec D C) rows (Or.inl rfl)

/-- `DiagonalNormal`: `log_prob` meets the contract (any event shape, context ignored) -/
theorem diagNormal_logprob_contract (event : Shape) : LogProbSpec (diagNormal event) event (fun _ => True) :=
  diagNormal_logProbSpec event

/-- **`Flow` inherits the whole contract from its base distribution**: no context needs the identity embedding;
    a context row of width `w` must embed to the width the transform was built for, which the base must accept -/
theorem flow_meets_contract {tr : Tr} {event : Shape} {base : Dist} {emb : Emb} {okB : Option Shape → Prop}
    (B : DistSpec base event okB) (hev : Pos event) :
    DistSpec (flow tr event base emb) event (okFlow tr emb okB) :=
  flow_spec B hev

/-- `Flow.sample_and_log_prob` (the override, flows/base.py:77-106) returns matching shapes -/
theorem flow_sample_and_log_prob_shapes_match {tr : Tr} {event : Shape} {base : Dist} {emb : Emb}
    {okB : Option Shape → Prop} (B : DistSpec base event okB) (hev : Pos event)
    (ctx : Option Shape) (hctx : Accepts (okFlow tr emb okB) ctx) (n : Nat) (hn : 0 < n) :
    flowSalp tr event base emb (.int n) ctx
      = .ok (contractSample event (ctxRows ctx) n, contractLogProb (ctxRows ctx) n) :=
  salp_ok (flow_spec (tr := tr) (emb := emb) B hev) ctx hctx n hn

/-- batched sampling from a conditional flow with an embedding net, written out:
    `Flow(transform(context_features = C), StandardNormal(event), Linear(cin → C)).sample(n, context[R, cin], b)` -/
theorem flow_batched_sample_shape (event : Shape) (hev : Pos event) (C cin : Nat) (hC : 0 < C) (hcin : 0 < cin)
    (R n b : Nat) (hn : 0 < n) (hb : 0 < b) :
    (flow (.ctxAware C) event (stdNormal event).toDist (.linear cin C)).sample (.int n) (some [R, cin]) (.int b)
      = .ok (R :: n :: event) := by
  have D := flow_spec (tr := .ctxAware C) (emb := .linear cin C) (stdNormal_meets_contract event hev) hev
  have hok : okFlow (.ctxAware C) (.linear cin C) (fun _ => True) (some [cin]) :=
    ⟨cin, C, rfl, by simp [embWidth], hC, rfl, trivial⟩
  exact sample_batched_ctx D.sample R [cin] hok (fun d hd => by simp at hd; subst hd; exact hcin) n b hn hb

/-- `SimpleRealNVP` / `MaskedAutoregressiveFlow` (transform built without context features, `StandardNormal` base,
    no embedding net) meet the contract as unconditional flows -/
theorem unconditional_flow_meets_contract (e : DErr) (D : Nat) (hD : 0 < D) :
    DistSpec (flow (.noCtx e) [D] (stdNormal [D]).toDist .identity) [D]
      (okFlow (.noCtx e) .identity (fun _ => True)) :=
  flow_spec (stdNormal_meets_contract [D] (fun d hd => by simp at hd; subst hd; exact hD))
    (fun d hd => by simp at hd; subst hd; exact hD)

theorem unconditional_flow_accepts_none (e : DErr) : Accepts (okFlow (.noCtx e) .identity (fun _ => True)) none :=
  ⟨rfl, trivial⟩

/-! ## where the code departs from the full-strength reading (mirrored, not hidden) -/

/-- F15: `MADEMoG.sample(n)` without a context raises AttributeError instead of returning `n` draws -/
theorem sample_noctx_counterexample_madeMoG (D C : Nat) (n : Nat) (hn : 0 < n) :
    (madeMoG D C).sample (.int n) none .none = .error .attributeError := by
  simp [Hooks.sample, isPositiveInt, hn, madeMoG]

/-- `DiagonalNormal._sample` is not implemented (after validation of the arguments) -/
theorem diagNormal_sample_notImplemented (event : Shape) (n : Nat) (hn : 0 < n) (ctx : Option Shape) :
    (diagNormal event).sample (.int n) ctx .none = .error .notImplemented := by
  simp [Hooks.sample, isPositiveInt, hn, diagNormal]

/-- `True` as `num_samples`: with a context it counts as 1 … -/
theorem stdNormal_bool_ctx_counts_as_one (event : Shape) (R : Nat) (rest : Shape) :
    (stdNormal event).sample (.bool true) (some (R :: rest)) .none = .ok (R :: 1 :: event) := by
  simp [Hooks.sample, isPositiveInt, stdNormal, PyVal.toNat, splitLeadingDim2, reshapeTo, numel]

/-- … without one, `torch.randn(True, …)` raises TypeError (the documented kind for a non-integer count) -/
theorem stdNormal_bool_noctx_typeError (event : Shape) :
    (stdNormal event).sample (.bool true) none .none = .error .typeError := by
  simp [Hooks.sample, isPositiveInt, stdNormal, PyVal.isBool]

/-! ## non-vacuity: the hypotheses are met by concrete non-trivial data, and the model computes -/

example : Pos [2, 2] := by simp [Pos]
example : Accepts (fun r => r = some [2 * numel [2, 2]]) (some [3, 8]) := ⟨rfl, by simp [Pos]⟩
example : Accepts (okFlow (.ctxAware 2) (.linear 4 2) (fun _ => True)) (some [3, 4]) :=
  ⟨⟨4, 2, rfl, by simp [embWidth], by decide, rfl, trivial⟩, by simp [Pos]⟩
example : (condDiagNormal [2, 2]).sample (.int 5) (some [3, 8]) (.int 2) = .ok [3, 5, 2, 2] := by decide
example : (flow (.ctxAware 2) [3] (stdNormal [3]).toDist (.linear 4 2)).sample (.int 7) (some [3, 4]) (.int 3)
    = .ok [3, 7, 3] := by decide
example : (flow (.ctxAware 2) [3] (stdNormal [3]).toDist (.linear 4 2)).sampleAndLogProb (.int 5) (some [3, 4])
    = .ok ([3, 5, 3], [3, 5]) := by decide
example : (stdNormal [3]).logProb [4, 3] (some [3, 2]) = .error .valueError := by decide
example : batchLayout 5 2 = [(0, 0), (0, 1), (1, 0), (1, 1), (2, 0)] := by decide

end Properties.C18
