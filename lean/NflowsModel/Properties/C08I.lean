import NflowsModel.Properties.C08
import NflowsModel.Lemmas.MultiscaleIndex
/-!
# C08 (continued) — index-level routing of the executed multiscale transform, for ANY log-det accumulator

External audit, C08 findings 1, 3 and 5 (proofs in `Lemmas/MultiscaleIndex.lean`): the routing closed form `routeSegs` shares
`splitBlocks` with the executed `chunk2`; here the executed functions are characterised by INDICES — `chunk2` emits slices
`0 … ⌈n/2⌉−1` along the split dimension and passes the rest on; the element with split index `j` is emitted at stage
`stageOf n k j` (the first stage whose emitted first half contains it, or the last stage) and lands at the explicit flat position
`flatPos`; with element-wise stages the entry there is the input entry mapped through stages `1 … stageOf+1` in order and through no
later stage.  These statements need NO law of the log-det accumulator, so they hold for the non-associative `Float` accumulator the
driver runs.  Objects built through `MS.new` / `add_transform` have `0 < split_dim`; the error contracts are restated on such objects.
-/
set_option linter.all false
namespace Properties.C08

theorem chunk_emits_first_half :
    ∀ {α : Type} (pre suf : List ℕ) (n : ℕ),
      n ≠ 1 →
        ∀ (data : List α),
          data.length = NF.Wrap.prod (pre ++ n :: suf) →
            ∃ (a : NF.Wrap.Item α) (b : NF.Wrap.Item α),
              NF.Wrap.chunk2 pre.length { shape := pre ++ n :: suf, data := data } = Except.ok (a, b) ∧
                a.shape = pre ++ (n + 1) / 2 :: suf ∧
                  b.shape = pre ++ n / 2 :: suf ∧
                    (∀ (o j i : ℕ),
                        o < NF.Wrap.prod pre →
                          j < (n + 1) / 2 →
                            i < NF.Wrap.prod suf →
                              a.data[(o * ((n + 1) / 2) + j) * NF.Wrap.prod suf + i]? =
                                data[(o * n + j) * NF.Wrap.prod suf + i]?) ∧
                      ∀ (o j i : ℕ),
                        o < NF.Wrap.prod pre →
                          j < n / 2 →
                            i < NF.Wrap.prod suf →
                              b.data[(o * (n / 2) + j) * NF.Wrap.prod suf + i]? =
                                data[(o * n + (n + 1) / 2 + j) * NF.Wrap.prod suf + i]? :=
  @NF.Wrap.chunk2_index

theorem multiscale_forward_index_1d :
    ∀ {α C L : Type} (A : NF.Wrap.LD L) (n : ℕ) (ts : List (NF.Wrap.Tr (NF.Wrap.Item α) C L)),
      (∀ t ∈ ts, NF.Wrap.IsPointwise t fun (x : C) => id) →
        ts ≠ [] →
          ∀ (m : NF.Wrap.MS α C L),
            NF.Wrap.MS.build (↑ts.length : ℤ) (NF.Wrap.PyArg.int 1) ts [n] = Except.ok m →
              ∀ (data : List α),
                data.length = n →
                  ∀ (c : C),
                    (∃ (l : L),
                        NF.Wrap.MS.forward A m { shape := [n], data := data } c =
                          Except.ok ({ shape := [n], data := data }, l)) ∧
                      (NF.Wrap.routeSegs 1 1 ts.length n data).flatten = data ∧
                        NF.Wrap.routeSegs 1 1 ts.length n data =
                            List.map (NF.Wrap.segOf ts.length n data) (List.range ts.length) ∧
                          ∀ j < n,
                            NF.Wrap.stageOf ts.length n j < ts.length ∧
                              NF.Wrap.moff n (NF.Wrap.stageOf ts.length n j) ≤ j ∧
                                (NF.Wrap.stageOf ts.length n j + 1 < ts.length →
                                    j < NF.Wrap.moff n (NF.Wrap.stageOf ts.length n j + 1)) ∧
                                  (NF.Wrap.routeSegs 1 1 ts.length n data)[NF.Wrap.stageOf ts.length n j]? =
                                      Option.some (NF.Wrap.segOf ts.length n data (NF.Wrap.stageOf ts.length n j)) ∧
                                    (NF.Wrap.segOf ts.length n data
                                          (NF.Wrap.stageOf ts.length n
                                            j))[j - NF.Wrap.moff n (NF.Wrap.stageOf ts.length n j)]? =
                                      data[j]? :=
  @NF.Wrap.forward_1d

theorem multiscale_forward_index :
    ∀ {α C L : Type} (A : NF.Wrap.LD L) (pre suf : List ℕ) (n : ℕ)
      (ts : List (NF.Wrap.Tr (NF.Wrap.Item α) C L)),
      (∀ t ∈ ts, NF.Wrap.IsPointwise t fun (x : C) => id) →
        ts ≠ [] →
          ∀ (m : NF.Wrap.MS α C L),
            NF.Wrap.MS.build (↑ts.length : ℤ) (NF.Wrap.PyArg.int ((↑pre.length : ℤ) + 1)) ts (pre ++ n :: suf) =
                Except.ok m →
              ∀ (data : List α),
                data.length = NF.Wrap.prod (pre ++ n :: suf) →
                  ∀ (c : C),
                    ∃ (flat : List α) (l : L),
                      NF.Wrap.MS.forward A m { shape := pre ++ n :: suf, data := data } c =
                          Except.ok ({ shape := [NF.Wrap.prod (pre ++ n :: suf)], data := flat }, l) ∧
                        flat = (NF.Wrap.routeSegs (NF.Wrap.prod pre) (NF.Wrap.prod suf) ts.length n data).flatten ∧
                          ∀ (o j i : ℕ),
                            o < NF.Wrap.prod pre →
                              j < n →
                                i < NF.Wrap.prod suf →
                                  flat[NF.Wrap.flatPos (NF.Wrap.prod pre) (NF.Wrap.prod suf) ts.length n o j i]? =
                                    data[(o * n + j) * NF.Wrap.prod suf + i]? :=
  @NF.Wrap.forward_index

theorem multiscale_forward_pointwise_index :
    ∀ {α C L : Type} (A : NF.Wrap.LD L) (pre suf : List ℕ) (n : ℕ)
      (ts : List (NF.Wrap.Tr (NF.Wrap.Item α) C L)) (gs : List (C → α → α)),
      List.Forall₂ NF.Wrap.IsPointwise ts gs →
        ts ≠ [] →
          ∀ (m : NF.Wrap.MS α C L),
            NF.Wrap.MS.build (↑ts.length : ℤ) (NF.Wrap.PyArg.int ((↑pre.length : ℤ) + 1)) ts (pre ++ n :: suf) =
                Except.ok m →
              ∀ (data : List α),
                data.length = NF.Wrap.prod (pre ++ n :: suf) →
                  ∀ (c : C),
                    ∃ (flat : List α) (l : L),
                      NF.Wrap.MS.forward A m { shape := pre ++ n :: suf, data := data } c =
                          Except.ok ({ shape := [flat.length], data := flat }, l) ∧
                        ∀ (o j i : ℕ),
                          o < NF.Wrap.prod pre →
                            j < n →
                              i < NF.Wrap.prod suf →
                                flat[NF.Wrap.flatPos (NF.Wrap.prod pre) (NF.Wrap.prod suf) ts.length n o j i]? =
                                  Option.map
                                    (List.foldl (fun (f g : α → α) => g ∘ f) id
                                      (List.take (NF.Wrap.stageOf ts.length n j + 1)
                                        (List.map (fun (g : C → α → α) => g c) gs)))
                                    data[(o * n + j) * NF.Wrap.prod suf + i]? :=
  @NF.Wrap.forward_pointwise_index

theorem multiscale_forward_identity_any_accumulator :
    ∀ {α C L : Type} (A : NF.Wrap.LD L) (pre suf : List ℕ) (n : ℕ)
      (ts : List (NF.Wrap.Tr (NF.Wrap.Item α) C L)),
      (∀ t ∈ ts, NF.Wrap.IsPointwise t fun (x : C) => id) →
        ts ≠ [] →
          ∀ (m : NF.Wrap.MS α C L),
            NF.Wrap.MS.build (↑ts.length : ℤ) (NF.Wrap.PyArg.int ((↑pre.length : ℤ) + 1)) ts (pre ++ n :: suf) =
                Except.ok m →
              ∀ (data : List α) (c : C),
                ∃ (l : L),
                  NF.Wrap.MS.forward A m { shape := pre ++ n :: suf, data := data } c =
                    Except.ok
                      ({
                          shape :=
                            [(NF.Wrap.routeSegs (NF.Wrap.prod pre) (NF.Wrap.prod suf) ts.length n data).flatten.length],
                          data := (NF.Wrap.routeSegs (NF.Wrap.prod pre) (NF.Wrap.prod suf) ts.length n data).flatten },
                        l) :=
  @NF.Wrap.forward_id

theorem built_objects_have_positive_split_dim :
    ∀ {α C L : Type} {numT : ℤ} {sd : NF.Wrap.PyArg}
      {ts : List (NF.Wrap.Tr (NF.Wrap.Item α) C L)} {shape : List ℕ} {m : NF.Wrap.MS α C L},
      NF.Wrap.MS.build numT sd ts shape = Except.ok m → 0 < m.splitDim :=
  @NF.Wrap.build_splitDim_pos

theorem addTransform_errors_reachable :
    ∀ {α C L : Type} (m : NF.Wrap.MS α C L) (d : ℕ),
      m.splitDim = d + 1 →
        ∀ (t : NF.Wrap.Tr (NF.Wrap.Item α) C L) (shape : List ℕ),
          (m.numTransforms < (↑m.transforms.length : ℤ) → m.addTransform t shape = Except.error Err.assertion) ∧
            (m.numTransforms = (↑m.transforms.length : ℤ) → m.addTransform t shape = Except.error Err.runtime) ∧
              ((↑m.transforms.length : ℤ) < m.numTransforms →
                  shape.length ≤ d → m.addTransform t shape = Except.error Err.valueError) ∧
                ((↑m.transforms.length : ℤ) < m.numTransforms →
                  ∀ (v : ℕ), shape[d]? = Option.some v → v < 2 → m.addTransform t shape = Except.error Err.valueError) :=
  @NF.Wrap.addTransform_errors_pos

theorem call_errors_reachable :
    ∀ {α C L : Type} (A : NF.Wrap.LD L) (m : NF.Wrap.MS α C L) (d : ℕ),
      m.splitDim = d + 1 →
        ∀ (x : NF.Wrap.Item α) (c : C),
          (x.shape.length ≤ d → NF.Wrap.MS.forward A m x c = Except.error Err.valueError) ∧
            (d < x.shape.length →
                m.numTransforms ≠ (↑m.transforms.length : ℤ) → NF.Wrap.MS.forward A m x c = Except.error Err.runtime) ∧
              (x.shape.length + 1 ≠ 2 → NF.Wrap.MS.inverse A m x c = Except.error Err.valueError) ∧
                (x.shape.length + 1 = 2 →
                  m.numTransforms ≠ (↑m.transforms.length : ℤ) → NF.Wrap.MS.inverse A m x c = Except.error Err.runtime) :=
  @NF.Wrap.call_errors_pos

end Properties.C08
