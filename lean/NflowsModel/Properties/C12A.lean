import NflowsModel.Properties.C12
import NflowsModel.Lemmas.ARInverseStage
/-!
# C12 (continued) — the whole `F`-pass autoregressive inverse is a row-wise stage

`Lemmas/ARInverseStage.lean`: `arInvStage` (the loop, not one pass) is a `RowWiseStage`: rows independent, accepted iff every row alone
is accepted in every pass, one log-det per row.  `0 < F` is forced (`arInvStage_zero_features_ld`: with no feature the Python code
returns `logabsdet = None`).
-/
set_option linter.all false
namespace Properties.C12

theorem rowWise_arInvStage :
    ∀ {α : Type} (o : XOps α) (c : NF.ElCfg) (F : ℕ),
      0 < F →
        ∀ (cw : ℕ) (net : ℕ → Array α → Array α → Array α),
          NF.FlowRowsExec.NetRowWise F cw (F * NF.FlowRowsExec.arMult c) net →
            NF.FlowRowsExec.RowWiseStage F cw (NF.ARInverseStage.arInvStage o c F net) :=
  @NF.ARInverseStage.rowWise_arInvStage

theorem arInvStage_zero_features_ld :
    ∀ {α : Type} (o : XOps α) (c : NF.ElCfg)
      (net : ℕ → Array α → Array α → Array α) (B : ℕ) (y ctx : Array α),
      NF.ARInverseStage.arInvStage o c 0 net B y ctx = Except.ok (Array.replicate y.size o.zero, []) :=
  @NF.ARInverseStage.arInvStage_zero_features_ld

end Properties.C12
