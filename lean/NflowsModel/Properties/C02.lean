import NflowsModel.Real.Bridge
import NflowsModel.Lemmas.StableRoot
import NflowsModel.Lemmas.Nonlin
import NflowsModel.Lemmas.Coupling
import NflowsModel.Lemmas.AutoregInverse
import NflowsModel.Lemmas.Householder
import NflowsModel.Lemmas.Multiscale
import NflowsModel.Lemmas.Quad
import NflowsModel.Lemmas.SqueezeIndex
import NflowsModel.Lemmas.SqueezeLayout
import NflowsModel.Lemmas.RQInverseWhole
import NflowsModel.Lemmas.StructureExec
import NflowsModel.Lemmas.StructureExecRQ
import NflowsModel.Lemmas.ARWhole
import NflowsModel.Lemmas.TailsWhole
import NflowsModel.Lemmas.QuadInverseWhole
import NflowsModel.Lemmas.StructureExecQuad
import NflowsModel.Lemmas.StructureExecRQTails
import NflowsModel.Lemmas.CubicInverseWhole
import NflowsModel.Lemmas.LinWhole
import NflowsModel.Lemmas.CubicLayers
import NflowsModel.Lemmas.CouplingJacobian
/-!
# C02 — inverse undoes forward (both orders) and returns the negated log-abs-det

Scalar round trips with the declared constants explicit, then structural round trips generic in the scalar
bijections (coupling for any mask, autoregressive in `n` passes, composite in reversed order, multiscale,
Householder sequences).  Finiteness in floating point is NOT a theorem (DESIGN §8): it is carried by executing
the same definitions in `Float` against the code.

**Closed-form vs executed** (external audit): the scalar round trips in THIS file are closed-form facts; the executed ones
(`expT`, `affineT`, `gluT`, `leakyReluT`, `tanhT`, `sigmoidT` / Logit with the exact region where the clamp is inactive, `cauchyT`,
`logTanhT`, 1×1 convolution, ActNorm, BatchNorm in evaluation mode, permutations, squeeze) are in `Properties/C02E.lean`.
**What no theorem in this namespace covers**: the linear family's round trips are in C11, multiscale in C08; `Good` (abstract
composite) has one order only; UMNN.  The `…ParamsValid` witnesses use an empty parameter array (every read defaults to 0) and
the one-bin configuration; a default-configuration witness of `RQValid` is `Properties.C09.rq_program_default_configuration`.
-/
open DualSound NF

namespace Properties.C02

/-! ## scalar -/

theorem exp_roundtrip (x : ℝ) {y : ℝ} (hy : 0 < y) : Real.log (Real.exp x) = x ∧ Real.exp (Real.log y) = y :=
  ⟨Nonlin.exp_inv_fwd x, Nonlin.exp_fwd_inv hy⟩

/-- `Tanh.inverse` is coded as `0.5·log((1+y)/(1-y))` -/
theorem tanh_roundtrip (x : ℝ) : Nonlin.artanhCode (Real.tanh x) = x := Nonlin.tanh_inv_fwd x

theorem leakyRelu_roundtrip {s : ℝ} (hs : 0 < s) (x : ℝ) : Nonlin.lrelu (1/s) (Nonlin.lrelu s x) = x :=
  Nonlin.lrelu_inv hs x

/-- **The stable root** `2c/(-b-√(b²-4ac))` of a quadratic with `q(0) ≤ 0 ≤ q(1)` lies in `[0,1]`, has a
    non-negative discriminant, a non-vanishing denominator, and is a root — also when `a = 0`.  This is the form the
    RQ inverse uses and, after the repairs, the quadratic spline inverse and the cubic's near-quadratic fallback. -/
theorem stable_root {a b c : ℝ} (h0 : c ≤ 0) (h1 : 0 ≤ a + b + c) (hb : c = 0 → 0 < b) :
    let D := Real.sqrt (b^2 - 4*a*c)
    let θ := 2*c / (-b - D)
    0 ≤ b^2 - 4*a*c ∧ 0 < b + D ∧ 0 ≤ θ ∧ θ ≤ 1 ∧ a*θ^2 + b*θ + c = 0 :=
  StableRoot.stable_root h0 h1 hb

/-- **RQ inverse, as executed**: for `y` in the bin's output range the executed root term lies in `[0,1]`,
    its discriminant is non-negative, and the executed forward term maps `xk + root·w` back to `y`. -/
theorem rq_executed_forward_inverse {y xk w yk h d0 d1 : ℝ} (hw : 0 < w) (hh : 0 < h) (h0 : 0 < d0) (h1 : 0 < d1)
    (hy0 : yk ≤ y) (hy1 : y ≤ yk + h) :
    let root := evalR (Bridge.rqEnv y xk w yk h d0 d1) rqRootE
    0 ≤ root ∧ root ≤ 1 ∧ evalR (Bridge.rqEnv (xk + root * w) xk w yk h d0 d1) rqFwdE = y := by
  intro root
  have hs : 0 < h / w := div_pos hh hw
  have hroot : root = (let a := RQ.qa (h / w) d0 d1 h (y - yk); let b := RQ.qb (h / w) d0 d1 h (y - yk); let c := RQ.qc (h / w) (y - yk)
       2 * c / (-b - Real.sqrt (b ^ 2 - 4 * a * c))) := Bridge.rqRootE_eq y xk w yk h d0 d1
  obtain ⟨_, hr0, hr1, hg⟩ := RQ.inverse_correct (s := h / w) (Δ := y - yk) hs h0 h1 hh (by linarith) (by linarith)
  rw [← hroot] at hr0 hr1 hg
  refine ⟨hr0, hr1, ?_⟩
  rw [Bridge.rqFwdE_eq]
  have : (xk + root * w - xk) / w = root := by rw [add_sub_cancel_left]; exact mul_div_cancel_right₀ root hw.ne'
  rw [this, hg]; ring

/-- **RQ inverse ∘ forward, as executed**: the executed root term applied to the executed forward value of a
    point of the bin returns the point's relative position. -/
theorem rq_executed_inverse_forward {x xk w yk h d0 d1 : ℝ} (hw : 0 < w) (hh : 0 < h) (h0 : 0 < d0) (h1 : 0 < d1)
    (hx0 : xk ≤ x) (hx1 : x ≤ xk + w) :
    evalR (Bridge.rqEnv (evalR (Bridge.rqEnv x xk w yk h d0 d1) rqFwdE) xk w yk h d0 d1) rqRootE = (x - xk) / w := by
  have hs : 0 < h / w := div_pos hh hw
  have ht0 : 0 ≤ (x - xk) / w := div_nonneg (by linarith) hw.le
  have ht1 : (x - xk) / w ≤ 1 := by rw [div_le_one hw]; linarith
  rw [Bridge.rqRootE_eq, Bridge.rqFwdE_eq]
  have := RQ.inverse_forward (s := h / w) (θ₀ := (x - xk) / w) hs h0 h1 hh ht0 ht1
  simpa using this

/-- **Quadratic-spline inverse, as executed** (after the repair: stable root): for positive edge heights and a
    target `y` in the bin's cdf range `[c, c + ½(hl+hr)w]` the executed root lies in `[0,1]` and the executed cdf of the
    bin maps it back to `y` — including the case of equal edge heights (`a = 0`) that used to give NaN. -/
theorem quad_executed_forward_inverse {y loc w c hl hr : ℝ} (hw : 0 < w) (h0 : 0 < hl) (h1 : 0 < hr)
    (hy0 : c ≤ y) (hy1 : y ≤ c + (1/2) * (hl + hr) * w) :
    let α := evalR (Bridge.qEnv y loc w c hl hr) quadInvAlphaE
    0 ≤ α ∧ α ≤ 1 ∧ Quad.cdf hl hr w c α = y := by
  intro α
  have hα : α = (let a := (1/2 : ℝ) * (hr - hl) * w; let b := hl * w; let c' := c - y
       2 * c' / (-b - Real.sqrt (b ^ 2 - 4 * a * c'))) := Bridge.quadInvAlphaE_eq y loc w c hl hr
  have hc : c - y ≤ 0 := by linarith
  have hsum : 0 ≤ (1/2 : ℝ) * (hr - hl) * w + hl * w + (c - y) := by nlinarith
  have hb : c - y = 0 → 0 < hl * w := fun _ => mul_pos h0 hw
  obtain ⟨_, _, ha0, ha1, hroot⟩ := StableRoot.stable_root hc hsum hb
  rw [← hα] at ha0 ha1 hroot
  refine ⟨ha0, ha1, ?_⟩
  unfold Quad.cdf
  have : (0.5 : ℝ) = 1/2 := by norm_num
  rw [this]; linarith

/-- **Linear spline bin round trip** (linear.py after fix c321ed1): in bin `k` of `K` with mass `p ≠ 0` the forward map is
    `x ↦ c + (xK − k)·p`; the inverse uses the slope `p·K` and the line anchored at the right knot `((k+1)/K, c + p)`:
    `y ↦ (k+1)/K + (y − (c + p))/(p·K)`.  It undoes the forward map exactly, and `−log(pK)` is the negated forward log-det
    `log p − log(1/K)`. -/
theorem linear_bin_roundtrip (c p x : ℝ) (K k : ℕ) (hK : 0 < K) (hp : 0 < p) :
    ((k : ℝ) + 1) / K + ((c + (x * K - k) * p) - (c + p)) / (p * K) = x ∧
    -Real.log (p * K) = -(Real.log p - Real.log (1 / (K : ℝ))) := by
  have hK' : (K : ℝ) ≠ 0 := by exact_mod_cast hK.ne'
  constructor
  · field_simp
    ring
  · rw [Real.log_mul hp.ne' hK', one_div, Real.log_inv]; ring

/-! ## structural -/

/-- coupling layer, any mask: inverse ∘ forward = id whenever the element-wise maps invert -/
theorem coupling_inverse_forward {α P C : Type} {n : ℕ} (isT : Fin n → Bool) (blank : α)
    (cond : (Fin n → α) → C → Fin n → P) (f finv : P → α → α)
    (hinv : ∀ p a, finv p (f p a) = a) (x : Fin n → α) (c : C) :
    Coupling.Coupling.inverse isT blank cond finv (Coupling.Coupling.forward isT blank cond f x c) c = x :=
  Coupling.Coupling.inverse_forward isT blank cond f finv hinv x c

/-- autoregressive inverse (the loop of `n` passes in autoregressive.py:43-52) is exact for a strictly
    autoregressive conditioner (C06), from any starting point -/
theorem autoregressive_inverse_exact {n : ℕ} {X P : Type} (g : (Fin n → X) → Fin n → P) (f finv : P → X → X)
    (hg : AutoregInverse.StrictAR g) (hinv : ∀ p x, finv p (f p x) = x) (x z0 : Fin n → X) :
    AutoregInverse.arIter g finv (AutoregInverse.arForward g f x) z0 n = x :=
  AutoregInverse.autoregressive_inverse_exact g f finv hg hinv x z0

/-- the parameters used in the last pass are those of the forward pass, so the log-abs-det of the last pass is the
    negated forward one whenever the element-wise inverse negates it -/
theorem autoregressive_last_pass_params {n : ℕ} {X P : Type} (g : (Fin n → X) → Fin n → P) (f finv : P → X → X)
    (hg : AutoregInverse.StrictAR g) (hinv : ∀ p x, finv p (f p x) = x) (x z0 : Fin n → X) (hn : 0 < n) :
    g (AutoregInverse.arIter g finv (AutoregInverse.arForward g f x) z0 (n-1)) = g x :=
  AutoregInverse.last_pass_params g f finv hg hinv x z0 hn

/-- composite: if every part inverts and negates its log-det, so does the composite (inverse in reversed order) -/
theorem composite_good {α C : Type} (ts : List (Coupling.Wrappers.Tr α C)) (h : ∀ t ∈ ts, Coupling.Wrappers.Good t) :
    Coupling.Wrappers.Good (Coupling.Wrappers.composite ts) :=
  Coupling.Wrappers.composite_good ts h

/-- Householder sequence: applying the reflections in reversed order undoes the sequence -/
theorem householder_seq_inverse {n : Type} [Fintype n] [DecidableEq n] (vs : List (n → ℝ)) (hv : ∀ v ∈ vs, v ⬝ᵥ v ≠ 0)
    (x : n → ℝ) : Householder.hhSeq vs.reverse (Householder.hhSeq vs x) = x :=
  Householder.hhSeq_inverse vs hv x

/-- **Squeeze, every factor**: the coordinate maps the executable `squeezeFwd` / `squeezeInv` use are mutually inverse
    for EVERY factor `f ≥ 1`, every channel and pixel (the pinned code hard-coded `c % 4`, i.e. `f = 2`, in the inverse's
    validation; repaired) -/
theorem squeeze_coords_inverse (f : Nat) (hf : 0 < f) :
    (∀ c h w, (let s := sqCoord f c h w; unsqCoord f s.1 s.2.1 s.2.2) = (c, h, w)) ∧
    (∀ oc i j, (let u := unsqCoord f oc i j; sqCoord f u.1 u.2.1 u.2.2) = (oc, i, j)) :=
  ⟨fun c h w => unsq_sq f c h w hf, fun oc i j => sq_unsq f oc i j hf⟩

/-- the coordinate map IS what the code's `view(b,c,h/f,f,w/f,f).permute(0,1,3,5,2,4)` reads (strided views, all sizes
    symbolic): entry `[b, c, fi, fj, i, j]` of the permuted view is input pixel `(i·f + fi, j·f + fj)` of channel `c` -/
theorem squeeze_forward_layout {α : Type} [Inhabited α] (X : Array α) (B C Ho Wo f b c fi fj i j : Nat) :
    (((View.ofArray X [B, C, Ho * f, Wo * f]).reshape [B, C, Ho, f, Wo, f]).permute [0, 1, 3, 5, 2, 4]).get [b, c, fi, fj, i, j]
      = (View.ofArray X [B, C, Ho * f, Wo * f]).get [b, c, i * f + fi, j * f + fj] :=
  View.squeeze_forward_layout X B C Ho Wo f b c fi fj i j

/-- and the inverse's `view(b,c,f,f,h,w).permute(0,1,4,2,5,3)` reads squeezed channel `(c·f + fi)·f + fj` -/
theorem squeeze_inverse_layout {α : Type} [Inhabited α] (Y : Array α) (B C Ho Wo f b c fi fj i j : Nat) :
    (((View.ofArray Y [B, C * f * f, Ho, Wo]).reshape [B, C, f, f, Ho, Wo]).permute [0, 1, 4, 2, 5, 3]).get [b, c, i, fi, j, fj]
      = (View.ofArray Y [B, C * f * f, Ho, Wo]).get [b, (c * f + fi) * f + fj, i, j] :=
  View.squeeze_inverse_layout Y B C Ho Wo f b c fi fj i j

/-! non-vacuity -/
example : ((-1:ℝ) ≤ 0) ∧ ((0:ℝ) ≤ 1 + 1 + -1) ∧ ((-1:ℝ) = 0 → (0:ℝ) < 1) := by norm_num

/-! ## the executed rational-quadratic programs, both directions, end to end -/

/-- **End to end (RQ): `forward ∘ inverse = id` on `[bottom, top]` and `inverse ∘ forward = id` on `[left, right]`**, for
    the two list programs `rqSpline … false` / `rqSpline … true` themselves (softmax, floors, cumsum, pinned knots, the two
    searches over different knot lists, gathers, discriminant assertion, root, closed forms), every accepted configuration,
    every unnormalised parameter vectors — knots and end-points included. -/
theorem rq_program_roundtrip (e : Float → ℝ) (c : RQCfg) (uw uh ud : List ℝ) (hv : RQWhole.RQValid e c uw uh ud) :
    (∀ y, e c.box.bottom ≤ y → y ≤ e c.box.top →
        RQWhole.val e c uw uh ud (RQInverseWhole.inv e c uw uh ud y) = y) ∧
    (∀ x, e c.box.left ≤ x → x ≤ e c.box.right →
        RQInverseWhole.inv e c uw uh ud (RQWhole.val e c uw uh ud x) = x) :=
  ⟨fun y h0 h1 => RQInverseWhole.val_inv hv y h0 h1, fun x h0 h1 => RQInverseWhole.inv_val hv x h0 h1⟩

/-- **End to end (RQ): the inverse program returns the negated log-abs-det of the forward program at the point it returns**,
    for every `y` of the closed box (the two searches select the same bin, also at the knots) — and read from the other side. -/
theorem rq_program_logdet_negates (e : Float → ℝ) (c : RQCfg) (uw uh ud : List ℝ) (hv : RQWhole.RQValid e c uw uh ud) :
    (∀ y, e c.box.bottom ≤ y → y ≤ e c.box.top →
        RQInverseWhole.invLd e c uw uh ud y = - RQWhole.ld e c uw uh ud (RQInverseWhole.inv e c uw uh ud y)) ∧
    (∀ x, e c.box.left ≤ x → x ≤ e c.box.right →
        RQWhole.ld e c uw uh ud x = - RQInverseWhole.invLd e c uw uh ud (RQWhole.val e c uw uh ud x)) :=
  ⟨fun y h0 h1 => RQInverseWhole.invLd_eq_neg_ld hv y h0 h1, fun x h0 h1 => RQInverseWhole.ld_eq_neg_invLd hv x h0 h1⟩

/-- `RQInverseWhole.inv` / `invLd` ARE the inverse program's outputs wherever it succeeds -/
theorem rq_program_inv_is_output (e : Float → ℝ) (c : RQCfg) (uw uh ud : List ℝ) (y : ℝ) (r : ℝ × ℝ)
    (h : rqSpline (NF.realX e) c uw uh ud true y = .ok r) :
    RQInverseWhole.inv e c uw uh ud y = r.1 ∧ RQInverseWhole.invLd e c uw uh ud y = r.2 := by
  simp [RQInverseWhole.inv, RQInverseWhole.invLd, h]

/-- non-vacuity: the round trip on the concrete one-bin configuration -/
example (y : ℝ) (hy0 : 0 ≤ y) (hy1 : y ≤ 1) := RQInverseWhole.example_roundtrip y hy0 hy1

/-! ## the EXECUTED coupling layer: inverse ∘ forward on whole arrays -/

/-- **executed coupling layer over the reals, any family with invertible elements**: if every transformed element inverts
    (`ElInvertible`: the inverse element map on the forward output returns the input and the negated log-det) and the forward
    pass reported no error, then the inverse pass on the forward OUTPUT ARRAY with the same conditioner output returns the
    input array, reports no error, is fed the same conditioner input (so "same parameters" is justified), and returns the
    negated row log-dets — any mask, any `B`, `S` (2-D and image layouts). -/
theorem exec_coupling_inverse_forward (e : Float → ℝ) (c : ElCfg) (mask : List ℝ) (B S : Nat) (x params uparams uparams' : Array ℝ)
    (hinv : NF.StructureExec.ElInvertible (NF.realX e) c (transformIdx (NF.realX e) mask).length S params B)
    (herr : (couplingApply (NF.realX e) c mask B S x params false none uparams).err = none)
    (hsz : B * mask.length * S ≤ x.size) :
    let fwd := couplingApply (NF.realX e) c mask B S x params false none uparams
    let inv := couplingApply (NF.realX e) c mask B S fwd.out params true none uparams'
    inv.out = x ∧ inv.err = none ∧ inv.condIn = fwd.condIn ∧ ∀ b, b < B → inv.ld[b]? = (fwd.ld[b]?).map (fun l => -l) :=
  NF.StructureExec.coupling_inverse_forward_real e c mask B S x params uparams uparams' hinv herr hsz

/-- **… with the hypothesis discharged for the bounded rational-quadratic family** by the whole-program spline theorems:
    it is enough that every parameter slice is an accepted configuration (`RQParamsValid`) -/
theorem exec_rq_coupling_roundtrip (e : Float → ℝ) (c : ElCfg) (hk : c.kind = "rq") (ht : c.tails = false)
    (mask : List ℝ) (B S : Nat) (x params uparams uparams' : Array ℝ)
    (hv : NF.StructureExec.RQParamsValid e c (transformIdx (NF.realX e) mask).length S params B)
    (herr : (couplingApply (NF.realX e) c mask B S x params false none uparams).err = none)
    (hsz : B * mask.length * S ≤ x.size) :
    let fwd := couplingApply (NF.realX e) c mask B S x params false none uparams
    let inv := couplingApply (NF.realX e) c mask B S fwd.out params true none uparams'
    inv.out = x ∧ inv.err = none ∧ inv.condIn = fwd.condIn ∧ ∀ b, b < B → inv.ld[b]? = (fwd.ld[b]?).map (fun l => -l) :=
  NF.StructureExec.coupling_rq_roundtrip_real e c hk ht mask B S x params uparams uparams' hv herr hsz

/-- non-vacuity: parameter arrays meeting `RQParamsValid` exist for every layout -/
example (Ft S B : Nat) := NF.StructureExec.rqParamsValid_example Ft S B

/-! ## the EXECUTED autoregressive transform: `forward`, and the `F`-pass inverse loop of autoregressive.py:43-53 -/

/-- **executed autoregressive transform, any conditioner**: if the conditioner is autoregressive (`AutoregNet`: the parameter
    block of feature `i` depends on features `< i` only — it may couple batch rows) and the elements invert, then the
    `F`-pass loop `outputs = zeros; repeat F times: outputs = elementwise_inverse(inputs, net(outputs))` applied to the forward
    output returns the input array — for every batch size and feature count; after pass `k` the features `< k` are already
    right (the loop invariant); the last pass raises nothing; the returned log-det is the negated forward one. -/
theorem exec_autoregressive_inverse_forward (e : Float → ℝ) (c : ElCfg) (B F : Nat) (net : Array ℝ → Array ℝ) (x : Array ℝ)
    (hnet : NF.ARWhole.AutoregNet B F (NF.ARWhole.pw c) net) (hinv : NF.ARWhole.ArElInvertible (NF.realX e) c F (net x) B)
    (herr : (NF.ARWhole.arForward (NF.realX e) c B F net x).err = none) (hx : x.size = B * F) :
    let fwd := NF.ARWhole.arForward (NF.realX e) c B F net x
    let inv := NF.ARWhole.arInverse (NF.realX e) c B F net fwd.out
    inv.out = x
      ∧ (∀ k, NF.ARWhole.AgreeBelow B F k (NF.ARWhole.arIter (NF.realX e) c B F net fwd.out k).out x)
      ∧ (arApply (NF.realX e) c B F fwd.out (net (NF.ARWhole.arIter (NF.realX e) c B F net fwd.out (F - 1)).out) true).err = none
      ∧ (0 < F → ∀ b, b < B → inv.ld[b]? = (fwd.ld[b]?).map (fun l => -l)) :=
  NF.ARWhole.ar_inverse_forward_real e c B F net x hnet hinv herr hx

/-- **masked autoregressive transform with the MADE model as its conditioner, rational-quadratic elements — nothing assumed
    about the network or the elements**: for every architecture accepted by `Made.build`, every weight / bias assignment, every
    context, every batch size, both orders of the round trip hold on the box and the log-dets negate. -/
theorem exec_made_rq_roundtrip (e : Float → ℝ) (c : ElCfg) (hc : NF.ARWhole.RQCfgValid e c) (a : NF.Made.Arch) (n : NF.Made.Net)
    (hbuild : NF.Made.build a = .ok n) (hmult : a.mult = 3 * c.K + 1) (W : ℕ → ℕ → ℕ → ℝ) (bias : ℕ → ℕ → ℝ) (B : Nat)
    (ctxv : ℕ → ℕ → Fin B → ℝ) (g : ℕ → NF.Made.Slot → ℕ → (Fin B → ℝ) → Fin B → ℝ) :
    let net := NF.ARWhole.madeNet n W bias B ctxv g
    (∀ x : Array ℝ, x.size = B * a.F →
      NF.ARWhole.InBox (e (NF.StructureExec.rqCfgOf c).box.left) (e (NF.StructureExec.rqCfgOf c).box.right) B a.F x →
      let fwd := NF.ARWhole.arForward (NF.realX e) c B a.F net x
      let inv := NF.ARWhole.arInverse (NF.realX e) c B a.F net fwd.out
      fwd.err = none ∧ inv.err = none ∧ inv.out = x
        ∧ (∀ k, NF.ARWhole.AgreeBelow B a.F k (NF.ARWhole.arIter (NF.realX e) c B a.F net fwd.out k).out x)
        ∧ (∀ b, b < B → inv.ld[b]? = (fwd.ld[b]?).map (fun l => -l)))
    ∧ (∀ y : Array ℝ, y.size = B * a.F →
      NF.ARWhole.InBox (e (NF.StructureExec.rqCfgOf c).box.bottom) (e (NF.StructureExec.rqCfgOf c).box.top) B a.F y →
      let inv := NF.ARWhole.arInverse (NF.realX e) c B a.F net y
      let fwd := NF.ARWhole.arForward (NF.realX e) c B a.F net inv.out
      inv.err = none ∧ fwd.err = none ∧ fwd.out = y
        ∧ (∀ b, b < B → fwd.ld[b]? = (inv.ld[b]?).map (fun l => -l))) :=
  NF.ARWhole.made_rq_roundtrip_real e c hc a n hbuild hmult W bias B ctxv g

/-- the same for the affine elements of `MaskedAffineAutoregressiveTransform` (needs only `0 ≤ e eps`) -/
theorem exec_made_affine_roundtrip (e : Float → ℝ) (c : ElCfg) (hk : c.kind = "araffine")
    (he : 0 ≤ e (c.ds.getD 0 0.0)) (a : NF.Made.Arch) (n : NF.Made.Net) (hbuild : NF.Made.build a = .ok n) (hmult : a.mult = 2)
    (W : ℕ → ℕ → ℕ → ℝ) (bias : ℕ → ℕ → ℝ) (B : Nat) (ctxv : ℕ → ℕ → Fin B → ℝ)
    (g : ℕ → NF.Made.Slot → ℕ → (Fin B → ℝ) → Fin B → ℝ) (x : Array ℝ) (hx : x.size = B * a.F) :
    let net := NF.ARWhole.madeNet n W bias B ctxv g
    (let fwd := NF.ARWhole.arForward (NF.realX e) c B a.F net x
     let inv := NF.ARWhole.arInverse (NF.realX e) c B a.F net fwd.out
     fwd.err = none ∧ inv.err = none ∧ inv.out = x
      ∧ (∀ k, NF.ARWhole.AgreeBelow B a.F k (NF.ARWhole.arIter (NF.realX e) c B a.F net fwd.out k).out x)
      ∧ (∀ b, b < B → inv.ld[b]? = (fwd.ld[b]?).map (fun l => -l)))
    ∧ (let inv := NF.ARWhole.arInverse (NF.realX e) c B a.F net x
       let fwd := NF.ARWhole.arForward (NF.realX e) c B a.F net inv.out
       inv.err = none ∧ fwd.err = none ∧ fwd.out = x
        ∧ (∀ b, b < B → fwd.ld[b]? = (inv.ld[b]?).map (fun l => -l))) :=
  NF.ARWhole.made_affine_roundtrip_real e c hk he a n hbuild hmult W bias B ctxv g x hx

/-! ## more whole programs: RQ with tails on all of ℝ, the quadratic pair, quadratic coupling layers -/

/-- **End to end, RQ with linear tails: both round trips and the log-det law for EVERY real input** -/
theorem rq_tails_program_roundtrip (e : Float → ℝ) (tb minW minH minD beta : Float) (uw uh ud : List ℝ)
    (hv : TailsWhole.RQTailsValid e tb minW minH minD beta uw uh ud) :
    (∀ x, TailsWhole.invT e tb minW minH minD beta uw uh ud (TailsWhole.valT e tb minW minH minD beta uw uh ud x) = x) ∧
    (∀ y, TailsWhole.valT e tb minW minH minD beta uw uh ud (TailsWhole.invT e tb minW minH minD beta uw uh ud y) = y) ∧
    (∀ y, TailsWhole.invLdT e tb minW minH minD beta uw uh ud y
        = - TailsWhole.ldT e tb minW minH minD beta uw uh ud (TailsWhole.invT e tb minW minH minD beta uw uh ud y)) :=
  ⟨TailsWhole.invT_valT hv, TailsWhole.valT_invT hv, TailsWhole.invLdT_eq_neg_ldT hv⟩

/-- **End to end, quadratic spline, both shapes of `uh`**: both round trips on the closed boxes (knots and flat bins — the
    `hl = hr`, `a = 0` case of finding F2 — included) and the negated log-det, with no hypothesis on `boxLog` -/
theorem quad_program_roundtrip (e : Float → ℝ) (c : QCfg) (uw uh : List ℝ)
    (hv : QuadWhole.QuadValid e c uw uh ∨ QuadWhole.QuadValidT e c uw uh) :
    (∀ y, e c.box.bottom ≤ y → y ≤ e c.box.top → QuadWhole.val e c uw uh (QuadInverseWhole.inv e c uw uh y) = y) ∧
    (∀ x, e c.box.left ≤ x → x ≤ e c.box.right → QuadInverseWhole.inv e c uw uh (QuadWhole.val e c uw uh x) = x) ∧
    (∀ y, e c.box.bottom ≤ y → y ≤ e c.box.top →
        QuadInverseWhole.invLd e c uw uh y = - QuadWhole.ld e c uw uh (QuadInverseWhole.inv e c uw uh y)) := by
  rcases hv with hv | hv
  · exact ⟨QuadInverseWhole.val_inv hv, QuadInverseWhole.inv_val hv, QuadInverseWhole.invLd_eq_neg_ld hv⟩
  · exact ⟨QuadInverseWhole.val_inv_T hv, QuadInverseWhole.inv_val_T hv, QuadInverseWhole.invLd_eq_neg_ld_T hv⟩

/-- executed coupling layers with quadratic elements, bounded and with tails: the per-element hypothesis is discharged -/
theorem exec_quad_coupling_roundtrip (e : Float → ℝ) (c : ElCfg) (hk : c.kind = "quad") (ht : c.tails = false)
    (mask : List ℝ) (B S : Nat) (x params uparams uparams' : Array ℝ)
    (hv : NF.StructureExec.QuadParamsValid e c (transformIdx (NF.realX e) mask).length S params B)
    (herr : (couplingApply (NF.realX e) c mask B S x params false none uparams).err = none)
    (hsz : B * mask.length * S ≤ x.size) :
    let fwd := couplingApply (NF.realX e) c mask B S x params false none uparams
    let inv := couplingApply (NF.realX e) c mask B S fwd.out params true none uparams'
    inv.out = x ∧ inv.err = none ∧ inv.condIn = fwd.condIn ∧ ∀ b, b < B → inv.ld[b]? = (fwd.ld[b]?).map (fun l => -l) :=
  NF.StructureExec.coupling_quad_roundtrip_real e c hk ht mask B S x params uparams uparams' hv herr hsz

theorem exec_quad_tails_coupling_roundtrip (e : Float → ℝ) (c : ElCfg) (hk : c.kind = "quad") (ht : c.tails = true)
    (hneg : e (-(c.ds.getD 0 0.0)) = - e (c.ds.getD 0 0.0))
    (mask : List ℝ) (B S : Nat) (x params uparams uparams' : Array ℝ)
    (hv : NF.StructureExec.QuadTailsParamsValid e c (transformIdx (NF.realX e) mask).length S params B)
    (herr : (couplingApply (NF.realX e) c mask B S x params false none uparams).err = none)
    (hsz : B * mask.length * S ≤ x.size) :
    let fwd := couplingApply (NF.realX e) c mask B S x params false none uparams
    let inv := couplingApply (NF.realX e) c mask B S fwd.out params true none uparams'
    inv.out = x ∧ inv.err = none ∧ inv.condIn = fwd.condIn ∧ ∀ b, b < B → inv.ld[b]? = (fwd.ld[b]?).map (fun l => -l) :=
  NF.StructureExec.coupling_quad_tails_roundtrip_real e c hk ht hneg mask B S x params uparams uparams' hv herr hsz

/-! ## the library's flagship layers: rational-quadratic elements WITH LINEAR TAILS inside coupling and autoregressive layers -/

/-- **executed RQ coupling layer with linear tails**: for ANY mask, `B`, `S`, conditioner output and ANY real input array
    (no domain hypothesis: the tails accept every real) the forward pass raises nothing and the inverse pass on its output returns
    the input array, raises nothing, is fed the same conditioner input and returns the negated row log-dets.  The only
    hypothesis is on the configuration (`RQTailsCfgValid`: validity depends on the constants and on the parameter-vector LENGTH
    only, so every vector a conditioner returns is accepted). -/
theorem exec_rq_tails_coupling_roundtrip (e : Float → ℝ) (c : ElCfg) (hc : NF.StructureExec.RQTailsCfgValid e c)
    (mask : List ℝ) (B S : Nat) (x params uparams uparams' : Array ℝ) (hsz : B * mask.length * S ≤ x.size) :
    let fwd := couplingApply (NF.realX e) c mask B S x params false none uparams
    let inv := couplingApply (NF.realX e) c mask B S fwd.out params true none uparams'
    fwd.err = none ∧ inv.out = x ∧ inv.err = none ∧ inv.condIn = fwd.condIn
      ∧ ∀ b, b < B → inv.ld[b]? = (fwd.ld[b]?).map (fun l => -l) :=
  NF.StructureExec.coupling_rq_tails_roundtrip_real e c hc mask B S x params uparams uparams' hsz

/-- **the masked autoregressive RQ layer with linear tails is exactly invertible on all of ℝ^F**: every architecture
    `Made.build` accepts (multiplier `3K − 1`), every weight, bias, context, batch size and every real `[B, F]` array, both
    orders, with the loop invariant and negated log-dets; no pass of the `F`-pass inverse loop raises. -/
theorem exec_made_rq_tails_roundtrip (e : Float → ℝ) (c : ElCfg) (hc : NF.StructureExec.RQTailsCfgValid e c)
    (a : NF.Made.Arch) (n : NF.Made.Net) (hbuild : NF.Made.build a = .ok n) (hmult : a.mult = 3 * c.K - 1)
    (W : ℕ → ℕ → ℕ → ℝ) (bias : ℕ → ℕ → ℝ) (B : Nat) (ctxv : ℕ → ℕ → Fin B → ℝ)
    (g : ℕ → NF.Made.Slot → ℕ → (Fin B → ℝ) → Fin B → ℝ) :
    let net := NF.ARWhole.madeNet n W bias B ctxv g
    (∀ x : Array ℝ, x.size = B * a.F →
      let fwd := NF.ARWhole.arForward (NF.realX e) c B a.F net x
      let inv := NF.ARWhole.arInverse (NF.realX e) c B a.F net fwd.out
      fwd.err = none ∧ inv.err = none ∧ inv.out = x
        ∧ (∀ k, NF.ARWhole.AgreeBelow B a.F k (NF.ARWhole.arIter (NF.realX e) c B a.F net fwd.out k).out x)
        ∧ (∀ b, b < B → inv.ld[b]? = (fwd.ld[b]?).map (fun l => -l)))
    ∧ (∀ y : Array ℝ, y.size = B * a.F →
      let inv := NF.ARWhole.arInverse (NF.realX e) c B a.F net y
      let fwd := NF.ARWhole.arForward (NF.realX e) c B a.F net inv.out
      inv.err = none ∧ fwd.err = none ∧ fwd.out = y
        ∧ (∀ b, b < B → fwd.ld[b]? = (inv.ld[b]?).map (fun l => -l))) :=
  NF.ARWhole.made_rq_tails_roundtrip_real e c hc a n hbuild hmult W bias B ctxv g

/-! ## the executed cubic inverse (Cardano / trigonometric roots, closest-root selection, quadratic fallback, clamps) -/

/-- **End to end, cubic spline**: where the quadratic fallback is not taken at the searched bin or that bin is exactly quadratic
    (`ExactBin`) both round trips are exact; the log-det law `ld_inv(y) = −ld_fwd(inv y)` holds on the WHOLE box with no such
    hypothesis; and in every case `|val(inv y) − y| < quadratic_threshold · (top − bottom)` — the approximation constant the
    implementation declares, shown to be forced (`CubicInverseWhole.round_trip_counterexample`: a fallback bin with `a ≠ 0`
    where the round trip is NOT exact over ℝ). -/
theorem cubic_program_roundtrip (e : Float → ℝ) (c : CCfg) (uw uh : List ℝ) (udl udr : ℝ)
    (hv : CubicWhole.CubicValid e c uw uh) (hc : CubicInverseWhole.InvConsts e c) :
    (∀ y, e c.box.bottom ≤ y → y ≤ e c.box.top →
        CubicInverseWhole.ExactBin e c uw uh udl udr (CubicInverseWhole.idxH e c uh (CubicInverseWhole.yn e c y)) →
        CubicWhole.val e c uw uh udl udr (CubicInverseWhole.inv e c uw uh udl udr y) = y) ∧
    (∀ y, e c.box.bottom ≤ y → y ≤ e c.box.top →
        CubicInverseWhole.invLd e c uw uh udl udr y = - CubicWhole.ld e c uw uh udl udr (CubicInverseWhole.inv e c uw uh udl udr y)) ∧
    (∀ y, e c.box.bottom ≤ y → y ≤ e c.box.top →
        |CubicWhole.val e c uw uh udl udr (CubicInverseWhole.inv e c uw uh udl udr y) - y| < e c.thr * (e c.box.top - e c.box.bottom)) :=
  ⟨fun y h0 h1 hex => CubicInverseWhole.val_inv hv hc y h0 h1 hex,
   fun y h0 h1 => CubicInverseWhole.invLd_eq_neg_ld_always hv y h0 h1,
   fun y h0 h1 => (CubicInverseWhole.val_inv_approx hv hc y h0 h1).2⟩

/-- … and with every bin exact (`AllExact`, e.g. `quadratic_threshold` below every `|a_k| w_k³ / h_k`) the inverse program is the
    inverse function on the closed boxes, both orders -/
theorem cubic_program_roundtrip_exact (e : Float → ℝ) (c : CCfg) (uw uh : List ℝ) (udl udr : ℝ)
    (hv : CubicWhole.CubicValid e c uw uh) (hc : CubicInverseWhole.InvConsts e c)
    (hall : CubicInverseWhole.AllExact e c uw uh udl udr) :
    (∀ y, e c.box.bottom ≤ y → y ≤ e c.box.top →
        CubicWhole.val e c uw uh udl udr (CubicInverseWhole.inv e c uw uh udl udr y) = y) ∧
    (∀ x, e c.box.left ≤ x → x ≤ e c.box.right →
        CubicInverseWhole.inv e c uw uh udl udr (CubicWhole.val e c uw uh udl udr x) = x) :=
  ⟨fun y h0 h1 => CubicInverseWhole.val_inv_all hv hc hall y h0 h1, fun x h0 h1 => CubicInverseWhole.inv_val_all hv hc hall x h0 h1⟩

example : CubicInverseWhole.InvConsts CubicInverseWhole.eI CubicWhole.cNV := CubicInverseWhole.consts_example

/-- **End to end, linear spline**: both round trips on the closed boxes (knots included) need no hypothesis beyond `LinValid`;
    the log-det law needs the Python double `np.log(1/K)` that the forward program subtracts to be read as the real `log(1/K)`
    (the inverse program computes `log(pdf·K)` in-tensor) -/
theorem linear_program_roundtrip (e : Float → ℝ) (box : Box) (eps : Float) (up : List ℝ) (hv : LinWhole.LinValid e box eps up) :
    (∀ y, e box.bottom ≤ y → y ≤ e box.top → LinWhole.val e box eps up (LinWhole.inv e box eps up y) = y) ∧
    (∀ x, e box.left ≤ x → x ≤ e box.right → LinWhole.inv e box eps up (LinWhole.val e box eps up x) = x) ∧
    (e (Float.log (1.0 / up.length.toFloat)) = Real.log (1 / (up.length : ℝ)) →
      ∀ y, e box.bottom ≤ y → y ≤ e box.top →
        LinWhole.invLd e box eps up y = - LinWhole.ld e box eps up (LinWhole.inv e box eps up y)) :=
  ⟨LinWhole.val_inv hv, LinWhole.inv_val hv, fun hl y h0 h1 => LinWhole.invLd_eq_neg_ld hv hl y h0 h1⟩

/-! ## cubic elements inside layers -/

/-- **executed coupling layer with cubic elements**: exact round trip on whole arrays when every parameter slice is a valid
    configuration whose bins are all exact (`CubicParamsExact`: the quadratic fallback is not taken, or the bin is exactly
    quadratic); without that hypothesis `CubicLayers.coupling_cubic_rev_approx_real` gives exact log-det negation and an element-wise
    error below `quadratic_threshold · (top − bottom)`, and `cubic_el_round_trip_counterexample` shows the hypothesis is forced -/
theorem exec_cubic_coupling_roundtrip (e : Float → ℝ) (c : ElCfg) (hk : c.kind = "cubic") (ht : c.tails = false)
    (hc : CubicInverseWhole.InvConsts e (CubicLayers.cubicCfgOf c))
    (mask : List ℝ) (B S : Nat) (x params uparams uparams' : Array ℝ)
    (hv : CubicLayers.CubicParamsExact e c (transformIdx (NF.realX e) mask).length S params B)
    (herr : (couplingApply (NF.realX e) c mask B S x params false none uparams).err = none)
    (hsz : B * mask.length * S ≤ x.size) :
    let fwd := couplingApply (NF.realX e) c mask B S x params false none uparams
    let inv := couplingApply (NF.realX e) c mask B S fwd.out params true none uparams'
    inv.out = x ∧ inv.err = none ∧ inv.condIn = fwd.condIn ∧ ∀ b, b < B → inv.ld[b]? = (fwd.ld[b]?).map (fun l => -l) :=
  CubicLayers.coupling_cubic_roundtrip_real hk ht hc mask B S x params uparams uparams' hv herr hsz

/-- **executed coupling layer, conditioner in the loop, RQ with tails**: the inverse pass RE-RUNS the conditioner on its own
    input (as coupling.py does) and still undoes the forward pass, both orders, any conditioner function -/
theorem exec_coupling_with_conditioner_roundtrip (e : Float → ℝ) (c : ElCfg) (hc : NF.StructureExec.RQTailsCfgValid e c)
    (hp : TailsWhole.PadExact e (NF.StructureExec.tMD c) (NF.StructureExec.tBe c)) (mask : List ℝ) (B : Nat)
    (net : Array ℝ → Array ℝ) (x : Array ℝ) (hsz : B * mask.length ≤ x.size) :
    (let fwd := CouplingJacobian.couplingForward (NF.realX e) c mask B net x
     let inv := CouplingJacobian.couplingInverse (NF.realX e) c mask B net fwd.out
     fwd.err = none ∧ inv.err = none ∧ inv.out = x ∧ ∀ b, b < B → inv.ld[b]? = (fwd.ld[b]?).map (fun l => -l))
    ∧ (let inv := CouplingJacobian.couplingInverse (NF.realX e) c mask B net x
       let fwd := CouplingJacobian.couplingForward (NF.realX e) c mask B net inv.out
       inv.err = none ∧ fwd.err = none ∧ fwd.out = x ∧ ∀ b, b < B → fwd.ld[b]? = (inv.ld[b]?).map (fun l => -l)) :=
  CouplingJacobian.coupling_net_rq_tails_roundtrip e c hc hp mask B net x hsz

end Properties.C02
