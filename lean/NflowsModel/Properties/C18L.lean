import NflowsModel.Properties.C18
import NflowsModel.Lemmas.BatchLayoutLink
/-!
# C18 (continued) — the batch layout is about the object `Hooks.sample` builds

External audit, C18 finding 1 (proofs in `Lemmas/BatchLayoutLink.lean`): `batchLayout_spec` was a combinatorial fact about separately
defined functions.  Now: the list `Hooks.sample` hands to `catShapes` is `samplePieces` and has, along the concatenation dimension,
exactly the sizes `batchSizes n b`; a value-level twin `sampleValues` threads abstract draws `draw piece row pos` through the SAME
control flow (same validation, same `mapM` over the full batches, same remainder test) — its shape projection IS `Hooks.sample` for
every hook pair and every argument, error paths included, and under the hook contract draw `k` of context row `r` is
`draw (k / b) r (k % b)`, i.e. `batchLayout n b` in every row: nothing dropped, repeated or interleaved, and the batched call equals
the unbatched one fed the re-indexed draws.  Randomness itself is not modelled ("independent draws laid side by side are distributed
as one call" stays with the correspondence).
-/
set_option linter.all false
namespace Properties.C18

theorem sample_is_cat_of_pieces :
    ∀ (h : NF.Dist.Hooks) (num : NF.Dist.PyVal) (ctx : Option NF.Dist.Shape)
      (b : NF.Dist.PyVal),
      NF.Dist.isPositiveInt num = Bool.true →
        NF.Dist.isPositiveInt b = Bool.true →
          h.sample num ctx b = NF.Dist.samplePieces h num ctx b >>= NF.Dist.catShapes (NF.Dist.catDim ctx) :=
  @NF.Dist.sample_eq_cat_samplePieces

theorem sample_pieces_have_batch_sizes :
    ∀ {h : NF.Dist.Hooks} {event : NF.Dist.Shape} {okRow : Option NF.Dist.Shape → Prop},
      NF.Dist.SampleSpec h event okRow →
        ∀ (ctx : Option NF.Dist.Shape),
          NF.Dist.Accepts okRow ctx →
            ∀ (n b : ℕ),
              0 < n →
                0 < b →
                  ∃ (pieces : List NF.Dist.Shape),
                    NF.Dist.samplePieces h (NF.Dist.PyVal.int (↑n : ℤ)) ctx (NF.Dist.PyVal.int (↑b : ℤ)) =
                        Except.ok pieces ∧
                      h.sample (NF.Dist.PyVal.int (↑n : ℤ)) ctx (NF.Dist.PyVal.int (↑b : ℤ)) =
                          NF.Dist.catShapes (NF.Dist.catDim ctx) pieces ∧
                        List.map (fun (s : NF.Dist.Shape) => List.getD s (NF.Dist.catDim ctx) 0) pieces =
                          NF.Dist.batchSizes n b :=
  @NF.Dist.samplePieces_sizes

theorem sample_values_shape_is_sample :
    ∀ {δ : Type} (h : NF.Dist.Hooks) (draw : ℕ → ℕ → ℕ → δ) (num : NF.Dist.PyVal)
      (ctx : Option NF.Dist.Shape) (batch : NF.Dist.PyVal),
      Except.map (fun (x : NF.Dist.Piece δ) => x.shape) (NF.Dist.sampleValues h draw num ctx batch) = h.sample num ctx batch :=
  @NF.Dist.sampleValues_shape

theorem sample_values_follow_batch_layout :
    ∀ {δ : Type} {h : NF.Dist.Hooks} {event : NF.Dist.Shape}
      {okRow : Option NF.Dist.Shape → Prop},
      NF.Dist.SampleSpec h event okRow →
        ∀ (ctx : Option NF.Dist.Shape),
          NF.Dist.Accepts okRow ctx →
            ∀ (n b : ℕ),
              0 < n →
                0 < b →
                  ∀ (draw : ℕ → ℕ → ℕ → δ),
                    NF.Dist.sampleValues h draw (NF.Dist.PyVal.int (↑n : ℤ)) ctx (NF.Dist.PyVal.int (↑b : ℤ)) =
                      Except.ok
                        { shape := NF.Dist.contractSample event (NF.Dist.ctxRows ctx) n,
                          rows :=
                            List.map
                              (fun (r : ℕ) => List.map (fun (pq : ℕ × ℕ) => draw pq.1 r pq.2) (NF.Dist.batchLayout n b))
                              (List.range (NF.Dist.outerRows ctx)) } :=
  @NF.Dist.sampleValues_batched

theorem sample_values_draw_position :
    ∀ {δ : Type} {h : NF.Dist.Hooks} {event : NF.Dist.Shape}
      {okRow : Option NF.Dist.Shape → Prop},
      NF.Dist.SampleSpec h event okRow →
        ∀ (ctx : Option NF.Dist.Shape),
          NF.Dist.Accepts okRow ctx →
            ∀ (n b : ℕ),
              0 < n →
                0 < b →
                  ∀ (draw : ℕ → ℕ → ℕ → δ),
                    ∃ (P : NF.Dist.Piece δ),
                      NF.Dist.sampleValues h draw (NF.Dist.PyVal.int (↑n : ℤ)) ctx (NF.Dist.PyVal.int (↑b : ℤ)) =
                          Except.ok P ∧
                        P.shape = NF.Dist.contractSample event (NF.Dist.ctxRows ctx) n ∧
                          P.rows.length = NF.Dist.outerRows ctx ∧
                            ∀ r < NF.Dist.outerRows ctx,
                              ∃ (row : List δ),
                                P.rows[r]? = Option.some row ∧
                                  row.length = n ∧
                                    ∀ k < n,
                                      row[k]? = Option.some (draw (k / b) r (k % b)) ∧
                                        (NF.Dist.batchLayout n b)[k]? = Option.some (k / b, k % b) :=
  @NF.Dist.sampleValues_draw

theorem sample_values_batched_eq_unbatched :
    ∀ {δ : Type} {h : NF.Dist.Hooks} {event : NF.Dist.Shape}
      {okRow : Option NF.Dist.Shape → Prop},
      NF.Dist.SampleSpec h event okRow →
        ∀ (ctx : Option NF.Dist.Shape),
          NF.Dist.Accepts okRow ctx →
            ∀ (n b : ℕ),
              0 < n →
                0 < b →
                  ∀ (draw : ℕ → ℕ → ℕ → δ),
                    NF.Dist.sampleValues h draw (NF.Dist.PyVal.int (↑n : ℤ)) ctx (NF.Dist.PyVal.int (↑b : ℤ)) =
                      NF.Dist.sampleValues h (fun (x r k : ℕ) => draw (k / b) r (k % b)) (NF.Dist.PyVal.int (↑n : ℤ)) ctx
                        NF.Dist.PyVal.none :=
  @NF.Dist.sampleValues_batched_eq_unbatched

end Properties.C18
