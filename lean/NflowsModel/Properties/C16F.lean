import NflowsModel.Properties.C16
import NflowsModel.Lemmas.DualXFlow
/-!
# C16 (continued) — `Flow.log_prob` at dual numbers: the composition level

Narrows "whole flows / `log_prob`" of the `Properties/C16.lean` header (`Lemmas/DualXFlow.lean`).  About the executed batch-level programs
(`flowLogProbExec`, `compStage`, `luStage`, `actStage`, `bnEvalStage`, `qrStage`, `svdStage`, `stdNormalLogProb`, `diagNormalLogProb`):
`DualSoundStage` — for every batch size and every differentiable curve of (inputs, context) the dual call and the real calls are
accepted together with outputs and log-dets as (value, derivative), or raise the same exception — is closed under the cascade of
`CompositeTransform`, parameters of all stages moving simultaneously; the standard and diagonal normal are dual-sound bases;
`flow_logprob_dual_sound`: per batch row the dual run of `log_prob` returns (value, derivative along the line through inputs and all
parameters).  Instance with no hypothesis beyond the forced ones (ActNorm initialised, no unconstrained diagonal at the softplus threshold,
`eps ≥ 0`): [ActNorm, LULinear] over a standard normal.  Not wrapped yet: coupling / autoregressive / element-wise stages (open domains need
an "eventually near t" variant), the inverse / sampling direction.
-/
set_option linter.all false
namespace Properties.C16

theorem standard_normal_logprob_dual_sound :
    ∀ (e : Float → ℝ) {t : ℝ} (shape inShape : List ℕ) (c : Bool),
      DualXFlow.DualSoundBase t
        (fun (x : ℝ) (B : ℕ) (rows : List (List ℝ)) (x_1 : Array ℝ) =>
          NF.Density.stdNormalLogProb (NF.realX e) shape inShape (NF.RowIndependenceMore.ctxOf c B) rows)
        fun (B : ℕ) (rows : List (List (ℝ × ℝ))) (x : Array (ℝ × ℝ)) =>
        NF.Density.stdNormalLogProb (NF.dualX (NF.realX e)) shape inShape (NF.RowIndependenceMore.ctxOf c B) rows :=
  @DualXFlow.standard_normal_logprob_dual_sound

theorem diagNormal_logprob_dual_sound :
    ∀ (e : Float → ℝ) {t : ℝ} (shape inShape : List ℕ) (c : Bool)
      {m ls : ℝ → List ℝ} {dm dls : List (ℝ × ℝ)},
      DualXLU.DV t m dm →
        DualXLU.DV t ls dls →
          DualXFlow.DualSoundBase t
            (fun (s : ℝ) (B : ℕ) (rows : List (List ℝ)) (x : Array ℝ) =>
              NF.Density.diagNormalLogProb (NF.realX e) shape inShape (NF.RowIndependenceMore.ctxOf c B) (m s) (ls s) rows)
            fun (B : ℕ) (rows : List (List (ℝ × ℝ))) (x : Array (ℝ × ℝ)) =>
            NF.Density.diagNormalLogProb (NF.dualX (NF.realX e)) shape inShape (NF.RowIndependenceMore.ctxOf c B) dm dls
              rows :=
  @DualXFlow.diagNormal_logprob_dual_sound

theorem dualSound_compStage :
    ∀ (e : Float → ℝ) {t : ℝ} {Ss : List (ℝ → NF.FlowRowsExec.BStage ℝ)}
      {Ds : List (NF.FlowRowsExec.BStage (ℝ × ℝ))},
      List.Forall₂ (DualXFlow.DualSoundStage t) Ss Ds →
        DualXFlow.DualSoundStage t
          (fun (s : ℝ) =>
            NF.FlowRowsExec.compStage (NF.realX e) (List.map (fun (S : ℝ → NF.FlowRowsExec.BStage ℝ) => S s) Ss))
          (NF.FlowRowsExec.compStage (NF.dualX (NF.realX e)) Ds) :=
  @DualXFlow.dualSound_compStage

theorem dualSound_luStage :
    ∀ (e : Float → ℝ) {t : ℝ} (w : ℕ) {P : ℝ → NF.LF.LUParams ℝ}
      {dp : NF.LF.LUParams (ℝ × ℝ)},
      DualXLU.LUCurve t P dp →
        (∀ d ∈ dp.udiag, d.1 ≠ 20) →
          (∀ d ∈ dp.udiag, NF.LF.softplus (DualXLU.Rr e) d.1 + dp.eps.1 ≠ 0) →
            DualXFlow.DualSoundStage t (fun (s : ℝ) => NF.StageMore.luStage (NF.realX e) w (P s))
              (NF.StageMore.luStage (NF.dualX (NF.realX e)) w dp) :=
  @DualXFlow.dualSound_luStage

theorem dualSound_actStage :
    ∀ (e : Float → ℝ) {t : ℝ} (F : ℕ) {S : ℝ → NF.Norm.ActSt ℝ} {ds : NF.Norm.ActSt (ℝ × ℝ)},
      DualXFlow.ActCurve t S ds →
        ds.initialized = Bool.true ∨ ds.training = Bool.false →
          DualXFlow.DualSoundStage t (fun (s : ℝ) => NF.StageMore.actStage (NF.realX e) F (S s))
            (NF.StageMore.actStage (NF.dualX (NF.realX e)) F ds) :=
  @DualXFlow.dualSound_actStage

theorem dualSound_bnEvalStage :
    ∀ (e : Float → ℝ) {t : ℝ} (F : ℕ) {cfg : ℝ → NF.Norm.BNCfg ℝ} {S : ℝ → NF.Norm.BNSt ℝ}
      {dcfg : NF.Norm.BNCfg (ℝ × ℝ)} {ds : NF.Norm.BNSt (ℝ × ℝ)},
      DualXFlow.BNCurve t cfg S dcfg ds →
        ds.training = Bool.false →
          (∀ j < F, (ds.uweight.getD j (0, 0)).1 ≠ 20) →
            (∀ j < F, 0 < (ds.runVar.getD j (0, 0)).1 + dcfg.eps.1) →
              (∀ j < F, (NF.realX e).softplus (ds.uweight.getD j (0, 0)).1 + dcfg.eps.1 ≠ 0) →
                DualXFlow.DualSoundStage t (fun (s : ℝ) => NF.StageMore.bnEvalStage (NF.realX e) (cfg s) F (S s))
                  (NF.StageMore.bnEvalStage (NF.dualX (NF.realX e)) dcfg F ds) :=
  @DualXFlow.dualSound_bnEvalStage

theorem dualSound_qrStage :
    ∀ (e : Float → ℝ) {t : ℝ} (w : ℕ) {P : ℝ → NF.LF.QRParams ℝ}
      {dp : NF.LF.QRParams (ℝ × ℝ)},
      DualXOrth.QRCurve t P dp →
        (∀ dq ∈ dp.qs, (DualXOrth.sqNorm (DualXLU.Dd e) dq).1 ≠ 0) →
          DualXFlow.DualSoundStage t (fun (s : ℝ) => NF.StageMore.qrStage (NF.realX e) w (P s))
            (NF.StageMore.qrStage (NF.dualX (NF.realX e)) w dp) :=
  @DualXFlow.dualSound_qrStage

theorem dualSound_svdStage :
    ∀ (e : Float → ℝ) {t : ℝ} (w : ℕ) {P : ℝ → NF.LF.SVDParams ℝ}
      {dp : NF.LF.SVDParams (ℝ × ℝ)},
      DualXOrth.SVDCurve t P dp →
        (∀ d ∈ dp.udiag, d.1 ≠ 20) →
          (∀ dq ∈ dp.qs1, (DualXOrth.sqNorm (DualXLU.Dd e) dq).1 ≠ 0) →
            (∀ dq ∈ dp.qs2, (DualXOrth.sqNorm (DualXLU.Dd e) dq).1 ≠ 0) →
              (∀ d ∈ NF.LF.svdDiag (DualXLU.Dd e) dp, d.1 ≠ 0) →
                DualXFlow.DualSoundStage t (fun (s : ℝ) => NF.StageMore.svdStage (NF.realX e) w (P s))
                  (NF.StageMore.svdStage (NF.dualX (NF.realX e)) w dp) :=
  @DualXFlow.dualSound_svdStage

theorem flowLogProbExec_dual_curve :
    ∀ {e : Float → ℝ} {t : ℝ} (w : ℕ) {embR : ℝ → ℕ → Array ℝ → Array ℝ}
      {embD : ℕ → Array (ℝ × ℝ) → Array (ℝ × ℝ)} {S : ℝ → NF.FlowRowsExec.BStage ℝ} {D : NF.FlowRowsExec.BStage (ℝ × ℝ)}
      {bR : ℝ → NF.FlowRowsExec.BaseD ℝ} {bD : NF.FlowRowsExec.BaseD (ℝ × ℝ)},
      (∀ (B : ℕ) (c : ℝ → Array ℝ) (dc : Array (ℝ × ℝ)),
          DualXFlow.DA t c dc → DualXFlow.DA t (fun (s : ℝ) => embR s B (c s)) (embD B dc)) →
        DualXFlow.DualSoundStage t S D →
          DualXFlow.DualSoundBase t bR bD →
            ∀ (B : ℕ) {X ctx : ℝ → Array ℝ} {dX dctx : Array (ℝ × ℝ)},
              DualXFlow.DA t X dX →
                DualXFlow.DA t ctx dctx →
                  (∀ (dlps : List (ℝ × ℝ)),
                      NF.FlowRowsExec.flowLogProbExec (NF.dualX (NF.realX e)) w embD D bD B dX dctx = Except.ok dlps →
                        ∃ (lps : ℝ → List ℝ),
                          (∀ (s : ℝ),
                              NF.FlowRowsExec.flowLogProbExec (NF.realX e) w (embR s) (S s) (bR s) B (X s) (ctx s) =
                                Except.ok (lps s)) ∧
                            DualXLU.DV t lps dlps) ∧
                    ∀ (err : NF.Density.DErr),
                      NF.FlowRowsExec.flowLogProbExec (NF.dualX (NF.realX e)) w embD D bD B dX dctx = Except.error err →
                        ∀ (s : ℝ),
                          NF.FlowRowsExec.flowLogProbExec (NF.realX e) w (embR s) (S s) (bR s) B (X s) (ctx s) =
                            Except.error err :=
  @DualXFlow.flowLogProbExec_dual_curve

theorem flow_logprob_dual_sound :
    ∀ (e : Float → ℝ) (w : ℕ) {Ss : List (ℝ → NF.FlowRowsExec.BStage ℝ)}
      {Ds : List (NF.FlowRowsExec.BStage (ℝ × ℝ))},
      List.Forall₂ (DualXFlow.DualSoundStage 0) Ss Ds →
        ∀ {bR : ℝ → NF.FlowRowsExec.BaseD ℝ} {bD : NF.FlowRowsExec.BaseD (ℝ × ℝ)},
          DualXFlow.DualSoundBase 0 bR bD →
            ∀ (B : ℕ) (dX dctx : Array (ℝ × ℝ)),
              (∀ (dlps : List (ℝ × ℝ)),
                  NF.FlowRowsExec.flowLogProbExec (NF.dualX (NF.realX e)) w (fun (x : ℕ) (a : Array (ℝ × ℝ)) => a)
                        (NF.FlowRowsExec.compStage (NF.dualX (NF.realX e)) Ds) bD B dX dctx =
                      Except.ok dlps →
                    ∃ (lps : ℝ → List ℝ),
                      (∀ (s : ℝ),
                          NF.FlowRowsExec.flowLogProbExec (NF.realX e) w (fun (x : ℕ) (a : Array ℝ) => a)
                              (NF.FlowRowsExec.compStage (NF.realX e)
                                (List.map (fun (S : ℝ → NF.FlowRowsExec.BStage ℝ) => S s) Ss))
                              (bR s) B (DualXFlow.lineA s dX) (DualXFlow.lineA s dctx) =
                            Except.ok (lps s)) ∧
                        (∀ (s : ℝ), (lps s).length = dlps.length) ∧
                          ∀ (i : ℕ),
                            (dlps.getD i (0, 0)).1 = (lps 0).getD i 0 ∧
                              HasDerivAt (fun (s : ℝ) => (lps s).getD i 0) (dlps.getD i (0, 0)).2 0) ∧
                ∀ (err : NF.Density.DErr),
                  NF.FlowRowsExec.flowLogProbExec (NF.dualX (NF.realX e)) w (fun (x : ℕ) (a : Array (ℝ × ℝ)) => a)
                        (NF.FlowRowsExec.compStage (NF.dualX (NF.realX e)) Ds) bD B dX dctx =
                      Except.error err →
                    ∀ (s : ℝ),
                      NF.FlowRowsExec.flowLogProbExec (NF.realX e) w (fun (x : ℕ) (a : Array ℝ) => a)
                          (NF.FlowRowsExec.compStage (NF.realX e)
                            (List.map (fun (S : ℝ → NF.FlowRowsExec.BStage ℝ) => S s) Ss))
                          (bR s) B (DualXFlow.lineA s dX) (DualXFlow.lineA s dctx) =
                        Except.error err :=
  @DualXFlow.flow_logprob_dual_sound

theorem flow_act_lu_logprob_dual_sound :
    ∀ (e : Float → ℝ) (w : ℕ) (ds : NF.Norm.ActSt (ℝ × ℝ))
      (dp : NF.LF.LUParams (ℝ × ℝ)),
      ds.initialized = Bool.true ∨ ds.training = Bool.false →
        (∀ d ∈ dp.udiag, d.1 ≠ 20) →
          0 ≤ dp.eps.1 →
            ∀ (shape inShape : List ℕ) (c : Bool) (B : ℕ) (dX dctx : Array (ℝ × ℝ)),
              have flowD :=
                NF.FlowRowsExec.flowLogProbExec (NF.dualX (NF.realX e)) w (fun (x : ℕ) (a : Array (ℝ × ℝ)) => a)
                  (NF.FlowRowsExec.compStage (NF.dualX (NF.realX e))
                    [NF.StageMore.actStage (NF.dualX (NF.realX e)) w ds, NF.StageMore.luStage (NF.dualX (NF.realX e)) w dp])
                  (fun (B : ℕ) (rows : List (List (ℝ × ℝ))) (x : Array (ℝ × ℝ)) =>
                    NF.Density.stdNormalLogProb (NF.dualX (NF.realX e)) shape inShape (NF.RowIndependenceMore.ctxOf c B)
                      rows)
                  B dX dctx;
              have flowR := fun (s : ℝ) =>
                NF.FlowRowsExec.flowLogProbExec (NF.realX e) w (fun (x : ℕ) (a : Array ℝ) => a)
                  (NF.FlowRowsExec.compStage (NF.realX e)
                    [NF.StageMore.actStage (NF.realX e) w (DualXFlow.lineAct s ds),
                      NF.StageMore.luStage (NF.realX e) w (DualXLU.lineP s dp)])
                  (fun (B : ℕ) (rows : List (List ℝ)) (x : Array ℝ) =>
                    NF.Density.stdNormalLogProb (NF.realX e) shape inShape (NF.RowIndependenceMore.ctxOf c B) rows)
                  B (DualXFlow.lineA s dX) (DualXFlow.lineA s dctx);
              (∀ (dlps : List (ℝ × ℝ)),
                  flowD = Except.ok dlps →
                    ∃ (lps : ℝ → List ℝ),
                      (∀ (s : ℝ), flowR s = Except.ok (lps s)) ∧
                        (∀ (s : ℝ), (lps s).length = dlps.length) ∧
                          ∀ (i : ℕ),
                            (dlps.getD i (0, 0)).1 = (lps 0).getD i 0 ∧
                              HasDerivAt (fun (s : ℝ) => (lps s).getD i 0) (dlps.getD i (0, 0)).2 0) ∧
                ∀ (err : NF.Density.DErr), flowD = Except.error err → ∀ (s : ℝ), flowR s = Except.error err :=
  @DualXFlow.flow_act_lu_logprob_dual_sound

theorem flow_act_lu_accepted :
    ∀ {α : Type} (o : XOps α) (w : ℕ) (s : NF.Norm.ActSt α) (p : NF.LF.LUParams α),
      s.initialized = Bool.true ∨ s.training = Bool.false →
        ∀ (shape : List ℕ) (B : ℕ) (x ctx : Array α),
          ∃ (lps : List α),
            NF.FlowRowsExec.flowLogProbExec o w (fun (x : ℕ) (a : Array α) => a)
                (NF.FlowRowsExec.compStage o [NF.StageMore.actStage o w s, NF.StageMore.luStage o w p])
                (fun (B : ℕ) (rows : List (List α)) (x : Array α) =>
                  NF.Density.stdNormalLogProb o shape shape (NF.RowIndependenceMore.ctxOf Bool.false B) rows)
                B x ctx =
              Except.ok lps :=
  @DualXFlow.flow_act_lu_accepted

end Properties.C16
