import NflowsModel.Properties.C02
import NflowsModel.Lemmas.LayerDerivInv
/-!
# C02 (continued) — "the inverse log-det at y is minus the forward one at inverse(y)" at the LAYER level, by the chain rule

`Lemmas/LayerDerivInv.lean`: `logdet_eq_neg_of_roundtrip` (if `f ∘ g = id` near `y`, then `log|det Dg(y)| = −log|det Df(g y)|`),
`couplingRowMap_roundtrip` (the row-level round trip from the element-level one, for a conditioner that may mix rows: only identity
channels feed it), `coupling_inverse_logdet_eq_neg_forward` for any element family given the two Jacobian statements, and the RQ and
linear-spline instances, which conclude both Jacobian statements and the negation law about the executed coupling passes.
-/
set_option linter.all false
namespace Properties.C02

theorem logdet_eq_neg_of_roundtrip :
    ∀ {n : ℕ} (f g : (Fin n → ℝ) → Fin n → ℝ) (y : Fin n → ℝ)
      {Lg Lf : (Fin n → ℝ) →L[ℝ] Fin n → ℝ},
      HasFDerivAt g Lg y →
        HasFDerivAt f Lf (g y) →
          (∀ᶠ (v : Fin n → ℝ) in nhds y, f (g v) = v) →
            Real.log |(LinearMap.det : ((Fin n → ℝ) →ₗ[ℝ] Fin n → ℝ) → ℝ) (↑Lg : (Fin n → ℝ) →ₗ[ℝ] Fin n → ℝ)| =
              -Real.log |(LinearMap.det : ((Fin n → ℝ) →ₗ[ℝ] Fin n → ℝ) → ℝ) (↑Lf : (Fin n → ℝ) →ₗ[ℝ] Fin n → ℝ)| :=
  @NF.LayerDerivInv.logdet_eq_neg_of_roundtrip

theorem couplingRowMap_roundtrip :
    ∀ (e : Float → ℝ) (c : NF.ElCfg) (mask : List ℝ) (B : ℕ)
      (net : Array ℝ → Array ℝ) (y : Array ℝ),
      y.size = B * mask.length →
        ∀ {b : ℕ},
          b < B →
            ∀ (v : Fin mask.length → ℝ),
              (∀ (i : Fin mask.length),
                  NF.StructureExec.isT (NF.realX e) mask i = Bool.true →
                    NF.CouplingJacobian.couplingElMap e c mask
                        (net (NF.CouplingJacobian.idSplit (NF.realX e) mask B (NF.ARWhole.setRow B mask.length y b v)))
                        Bool.false b i
                        (NF.CouplingJacobian.couplingElMap e c mask
                          (net (NF.CouplingJacobian.idSplit (NF.realX e) mask B (NF.ARWhole.setRow B mask.length y b v)))
                          Bool.true b i (v i)) =
                      v i) →
                NF.CouplingJacobian.couplingRowMap e c mask B net Bool.false
                    (NF.CouplingJacobian.couplingRun (NF.realX e) c mask B net Bool.true y).out b
                    (NF.CouplingJacobian.couplingRowMap e c mask B net Bool.true y b v) =
                  v :=
  @NF.LayerDerivInv.couplingRowMap_roundtrip

theorem coupling_inverse_logdet_eq_neg_forward :
    ∀ (e : Float → ℝ) (c : NF.ElCfg) (mask : List ℝ) (B : ℕ)
      (net : Array ℝ → Array ℝ) (y : Array ℝ),
      y.size = B * mask.length →
        ∀ {b : ℕ},
          b < B →
            ∀ {Li Lf : (Fin mask.length → ℝ) →L[ℝ] Fin mask.length → ℝ},
              HasFDerivAt (NF.CouplingJacobian.couplingRowMap e c mask B net Bool.true y b) Li
                  (NF.StructureExec.rowOf (NF.realX e) mask.length b y) →
                HasFDerivAt
                    (NF.CouplingJacobian.couplingRowMap e c mask B net Bool.false
                      (NF.CouplingJacobian.couplingRun (NF.realX e) c mask B net Bool.true y).out b)
                    Lf
                    (NF.StructureExec.rowOf (NF.realX e) mask.length b
                      (NF.CouplingJacobian.couplingRun (NF.realX e) c mask B net Bool.true y).out) →
                  (NF.CouplingJacobian.couplingRun (NF.realX e) c mask B net Bool.true y).ld[b]? =
                      Option.some
                        (Real.log
                          |(LinearMap.det : ((Fin mask.length → ℝ) →ₗ[ℝ] Fin mask.length → ℝ) → ℝ)
                              (↑Li : (Fin mask.length → ℝ) →ₗ[ℝ] Fin mask.length → ℝ)|) →
                    (NF.CouplingJacobian.couplingRun (NF.realX e) c mask B net Bool.false
                              (NF.CouplingJacobian.couplingRun (NF.realX e) c mask B net Bool.true y).out).ld[b]? =
                        Option.some
                          (Real.log
                            |(LinearMap.det : ((Fin mask.length → ℝ) →ₗ[ℝ] Fin mask.length → ℝ) → ℝ)
                                (↑Lf : (Fin mask.length → ℝ) →ₗ[ℝ] Fin mask.length → ℝ)|) →
                      (∀ᶠ (v : Fin mask.length → ℝ) in nhds (NF.StructureExec.rowOf (NF.realX e) mask.length b y),
                          ∀ (i : Fin mask.length),
                            NF.StructureExec.isT (NF.realX e) mask i = Bool.true →
                              NF.CouplingJacobian.couplingElMap e c mask
                                  (net
                                    (NF.CouplingJacobian.idSplit (NF.realX e) mask B
                                      (NF.ARWhole.setRow B mask.length y b v)))
                                  Bool.false b i
                                  (NF.CouplingJacobian.couplingElMap e c mask
                                    (net
                                      (NF.CouplingJacobian.idSplit (NF.realX e) mask B
                                        (NF.ARWhole.setRow B mask.length y b v)))
                                    Bool.true b i (v i)) =
                                v i) →
                        (NF.CouplingJacobian.couplingRun (NF.realX e) c mask B net Bool.true y).ld[b]? =
                          Option.map (fun (l : ℝ) => -l)
                            (NF.CouplingJacobian.couplingRun (NF.realX e) c mask B net Bool.false
                                  (NF.CouplingJacobian.couplingRun (NF.realX e) c mask B net Bool.true y).out).ld[b]? :=
  @NF.LayerDerivInv.coupling_inverse_logdet_eq_neg_forward

theorem coupling_rq_inverse_logdet_eq_neg_forward :
    ∀ (e : Float → ℝ) (c : NF.ElCfg) (mask : List ℝ) (B : ℕ)
      (net : Array ℝ → Array ℝ) (y : Array ℝ),
      c.kind = "rq" →
        c.tails = Bool.false →
          y.size = B * mask.length →
            ∀ {b : ℕ},
              b < B →
                (∀ (v : Fin mask.length → ℝ),
                    NF.StructureExec.RQParamsValid e c (NF.CouplingJacobian.nT e mask) 1
                      (net (NF.CouplingJacobian.idSplit (NF.realX e) mask B (NF.ARWhole.setRow B mask.length y b v))) B) →
                  (∀ (i : Fin mask.length),
                      NF.StructureExec.isT (NF.realX e) mask i = Bool.true →
                        ∃
                          k <
                            (NF.StructureExec.rqW (NF.realX e) c
                                (NF.LayerDerivMore.chanSlice e c mask (NF.LayerDerivMore.cParams e mask B net y) b
                                  i)).length,
                          RQWhole.ys e (NF.StructureExec.rqCfgOf c)
                                (NF.StructureExec.rqH (NF.realX e) c
                                  (NF.LayerDerivMore.chanSlice e c mask (NF.LayerDerivMore.cParams e mask B net y) b i))
                                k <
                              NF.StructureExec.rowOf (NF.realX e) mask.length b y i ∧
                            NF.StructureExec.rowOf (NF.realX e) mask.length b y i <
                              RQWhole.ys e (NF.StructureExec.rqCfgOf c)
                                (NF.StructureExec.rqH (NF.realX e) c
                                  (NF.LayerDerivMore.chanSlice e c mask (NF.LayerDerivMore.cParams e mask B net y) b i))
                                (k + 1)) →
                    ∀ {Li Lf : (Fin mask.length → ℝ) →L[ℝ] Fin mask.length → ℝ},
                      HasFDerivAt (NF.CouplingJacobian.couplingRowMap e c mask B net Bool.true y b) Li
                          (NF.StructureExec.rowOf (NF.realX e) mask.length b y) →
                        HasFDerivAt
                            (NF.CouplingJacobian.couplingRowMap e c mask B net Bool.false
                              (NF.CouplingJacobian.couplingRun (NF.realX e) c mask B net Bool.true y).out b)
                            Lf
                            (NF.StructureExec.rowOf (NF.realX e) mask.length b
                              (NF.CouplingJacobian.couplingRun (NF.realX e) c mask B net Bool.true y).out) →
                          (NF.CouplingJacobian.couplingRun (NF.realX e) c mask B net Bool.true y).ld[b]? =
                              Option.some
                                (Real.log
                                  |(LinearMap.det : ((Fin mask.length → ℝ) →ₗ[ℝ] Fin mask.length → ℝ) → ℝ)
                                      (↑Li : (Fin mask.length → ℝ) →ₗ[ℝ] Fin mask.length → ℝ)|) ∧
                            (NF.CouplingJacobian.couplingRun (NF.realX e) c mask B net Bool.false
                                      (NF.CouplingJacobian.couplingRun (NF.realX e) c mask B net Bool.true y).out).ld[b]? =
                                Option.some
                                  (Real.log
                                    |(LinearMap.det : ((Fin mask.length → ℝ) →ₗ[ℝ] Fin mask.length → ℝ) → ℝ)
                                        (↑Lf : (Fin mask.length → ℝ) →ₗ[ℝ] Fin mask.length → ℝ)|) ∧
                              (NF.CouplingJacobian.couplingRun (NF.realX e) c mask B net Bool.true y).ld[b]? =
                                Option.map (fun (l : ℝ) => -l)
                                  (NF.CouplingJacobian.couplingRun (NF.realX e) c mask B net Bool.false
                                        (NF.CouplingJacobian.couplingRun (NF.realX e) c mask B net Bool.true y).out).ld[b]? :=
  @NF.LayerDerivInv.coupling_rq_inverse_logdet_eq_neg_forward

theorem coupling_linear_inverse_logdet_eq_neg_forward :
    ∀ (e : Float → ℝ) (c : NF.ElCfg) (mask : List ℝ)
      (B : ℕ) (net : Array ℝ → Array ℝ) (y : Array ℝ),
      c.kind = "lin" →
        c.tails = Bool.false →
          e (NF.boxLog (NF.LayerDerivMore.linBoxOf c)) =
              Real.log
                ((e (NF.LayerDerivMore.linBoxOf c).top - e (NF.LayerDerivMore.linBoxOf c).bottom) /
                  (e (NF.LayerDerivMore.linBoxOf c).right - e (NF.LayerDerivMore.linBoxOf c).left)) →
            y.size = B * mask.length →
              ∀ {b : ℕ},
                b < B →
                  (∀ (v : Fin mask.length → ℝ),
                      LinTails.LinParamsValid e c (NF.CouplingJacobian.nT e mask) 1
                        (net (NF.CouplingJacobian.idSplit (NF.realX e) mask B (NF.ARWhole.setRow B mask.length y b v))) B) →
                    (∀ (i : Fin mask.length),
                        NF.StructureExec.isT (NF.realX e) mask i = Bool.true →
                          ∃ k < c.K,
                            LinWhole.yk e (NF.LayerDerivMore.linBoxOf c)
                                  (NF.LayerDerivMore.chanSlice e c mask (NF.LayerDerivMore.cParams e mask B net y) b i) k <
                                NF.StructureExec.rowOf (NF.realX e) mask.length b y i ∧
                              NF.StructureExec.rowOf (NF.realX e) mask.length b y i <
                                LinWhole.yk e (NF.LayerDerivMore.linBoxOf c)
                                  (NF.LayerDerivMore.chanSlice e c mask (NF.LayerDerivMore.cParams e mask B net y) b i)
                                  (k + 1)) →
                      ∀ {Li Lf : (Fin mask.length → ℝ) →L[ℝ] Fin mask.length → ℝ},
                        HasFDerivAt (NF.CouplingJacobian.couplingRowMap e c mask B net Bool.true y b) Li
                            (NF.StructureExec.rowOf (NF.realX e) mask.length b y) →
                          HasFDerivAt
                              (NF.CouplingJacobian.couplingRowMap e c mask B net Bool.false
                                (NF.CouplingJacobian.couplingRun (NF.realX e) c mask B net Bool.true y).out b)
                              Lf
                              (NF.StructureExec.rowOf (NF.realX e) mask.length b
                                (NF.CouplingJacobian.couplingRun (NF.realX e) c mask B net Bool.true y).out) →
                            (NF.CouplingJacobian.couplingRun (NF.realX e) c mask B net Bool.true y).ld[b]? =
                                Option.some
                                  (Real.log
                                    |(LinearMap.det : ((Fin mask.length → ℝ) →ₗ[ℝ] Fin mask.length → ℝ) → ℝ)
                                        (↑Li : (Fin mask.length → ℝ) →ₗ[ℝ] Fin mask.length → ℝ)|) ∧
                              (NF.CouplingJacobian.couplingRun (NF.realX e) c mask B net Bool.false
                                        (NF.CouplingJacobian.couplingRun (NF.realX e) c mask B net Bool.true
                                            y).out).ld[b]? =
                                  Option.some
                                    (Real.log
                                      |(LinearMap.det : ((Fin mask.length → ℝ) →ₗ[ℝ] Fin mask.length → ℝ) → ℝ)
                                          (↑Lf : (Fin mask.length → ℝ) →ₗ[ℝ] Fin mask.length → ℝ)|) ∧
                                (NF.CouplingJacobian.couplingRun (NF.realX e) c mask B net Bool.true y).ld[b]? =
                                  Option.map (fun (l : ℝ) => -l)
                                    (NF.CouplingJacobian.couplingRun (NF.realX e) c mask B net Bool.false
                                          (NF.CouplingJacobian.couplingRun (NF.realX e) c mask B net Bool.true
                                              y).out).ld[b]? :=
  @NF.LayerDerivInv.coupling_linear_inverse_logdet_eq_neg_forward

end Properties.C02
