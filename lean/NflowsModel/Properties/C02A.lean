import NflowsModel.Properties.C02
import NflowsModel.Lemmas.ARInverseStage
/-!
# C02 (continued) — the log-det of the autoregressive inverse loop is `log |det|` of the inverse row map's derivative

`Lemmas/ARInverseStage.lean` (one-row batch): `ld[0]` returned by the `F`-pass loop at `y` is `log |det Lg|` for the Fréchet derivative
`Lg` of the inverse row map and equals `−log |det Lf|` at the recovered point — affine element at every `y`, bounded RQ strictly inside
bins.
-/
set_option linter.all false
namespace Properties.C02

theorem ar_inverse_logdet_is_jacobian :
    ∀ (e : Float → ℝ) (c : NF.ElCfg) (F : ℕ) (net : Array ℝ → Array ℝ),
      0 < F →
        NF.ARWhole.AutoregNet 1 F (NF.ARWhole.pw c) net →
          (∀ (params : Array ℝ), NF.ARWhole.ArElInvertibleRev (NF.realX e) c F params 1) →
            ∀ (y : Array ℝ),
              y.size = F →
                (∀ᶠ (v : Fin F → ℝ) in nhds fun (i : Fin F) => y.getD (↑i : ℕ) 0,
                    (NF.ARWhole.arInverse (NF.realX e) c 1 F net (Array.ofFn v)).err = Option.none) →
                  ∀ {Lg Lf : (Fin F → ℝ) →L[ℝ] Fin F → ℝ},
                    (HasFDerivAt (NF.ARInverseStage.invRowMap e c F net) Lg fun (i : Fin F) => y.getD (↑i : ℕ) 0) →
                      (HasFDerivAt (NF.ARWhole.rowMap e c 1 F net (NF.ARWhole.arInverse (NF.realX e) c 1 F net y).out 0) Lf
                          fun (i : Fin F) =>
                          (NF.ARWhole.arInverse (NF.realX e) c 1 F net y).out.getD (0 * F + (↑i : ℕ)) 0) →
                        (∀ (i : Fin F),
                            HasDerivAt
                              (NF.ARWhole.elMap e c F (net (NF.ARWhole.arInverse (NF.realX e) c 1 F net y).out) 0 (↑i : ℕ))
                              (Real.exp
                                (NF.ldOf (NF.realX e)
                                  (NF.arEl (NF.realX e) c F (NF.ARWhole.arInverse (NF.realX e) c 1 F net y).out
                                    (net (NF.ARWhole.arInverse (NF.realX e) c 1 F net y).out) Bool.false 0 (↑i : ℕ))))
                              ((NF.ARWhole.arInverse (NF.realX e) c 1 F net y).out.getD (0 * F + (↑i : ℕ)) 0)) →
                          (NF.ARWhole.arInverse (NF.realX e) c 1 F net y).ld[0]? =
                              Option.some
                                (Real.log
                                  |(LinearMap.det : ((Fin F → ℝ) →ₗ[ℝ] Fin F → ℝ) → ℝ)
                                      (↑Lg : (Fin F → ℝ) →ₗ[ℝ] Fin F → ℝ)|) ∧
                            Real.log
                                |(LinearMap.det : ((Fin F → ℝ) →ₗ[ℝ] Fin F → ℝ) → ℝ) (↑Lg : (Fin F → ℝ) →ₗ[ℝ] Fin F → ℝ)| =
                              -Real.log
                                  |(LinearMap.det : ((Fin F → ℝ) →ₗ[ℝ] Fin F → ℝ) → ℝ) (↑Lf : (Fin F → ℝ) →ₗ[ℝ] Fin F → ℝ)| :=
  @NF.ARInverseStage.ar_inverse_logdet_is_jacobian

theorem ar_affine_inverse_logdet_is_jacobian :
    ∀ (e : Float → ℝ) (c : NF.ElCfg) (F : ℕ)
      (net : Array ℝ → Array ℝ),
      c.kind = "araffine" →
        0 ≤ e (c.ds.getD 0 0.0) →
          0 < F →
            NF.ARWhole.AutoregNet 1 F 2 net →
              ∀ (y : Array ℝ),
                y.size = F →
                  ∀ {Lg Lf : (Fin F → ℝ) →L[ℝ] Fin F → ℝ},
                    (HasFDerivAt (NF.ARInverseStage.invRowMap e c F net) Lg fun (i : Fin F) => y.getD (↑i : ℕ) 0) →
                      (HasFDerivAt (NF.ARWhole.rowMap e c 1 F net (NF.ARWhole.arInverse (NF.realX e) c 1 F net y).out 0) Lf
                          fun (i : Fin F) =>
                          (NF.ARWhole.arInverse (NF.realX e) c 1 F net y).out.getD (0 * F + (↑i : ℕ)) 0) →
                        (NF.ARWhole.arInverse (NF.realX e) c 1 F net y).ld[0]? =
                            Option.some
                              (Real.log
                                |(LinearMap.det : ((Fin F → ℝ) →ₗ[ℝ] Fin F → ℝ) → ℝ) (↑Lg : (Fin F → ℝ) →ₗ[ℝ] Fin F → ℝ)|) ∧
                          Real.log
                              |(LinearMap.det : ((Fin F → ℝ) →ₗ[ℝ] Fin F → ℝ) → ℝ) (↑Lg : (Fin F → ℝ) →ₗ[ℝ] Fin F → ℝ)| =
                            -Real.log
                                |(LinearMap.det : ((Fin F → ℝ) →ₗ[ℝ] Fin F → ℝ) → ℝ) (↑Lf : (Fin F → ℝ) →ₗ[ℝ] Fin F → ℝ)| :=
  @NF.ARInverseStage.ar_affine_inverse_logdet_is_jacobian

theorem ar_rq_inverse_logdet_is_jacobian :
    ∀ (e : Float → ℝ) (c : NF.ElCfg) (F : ℕ) (net : Array ℝ → Array ℝ),
      NF.ARWhole.RQCfgValid e c →
        0 < F →
          NF.ARWhole.AutoregNet 1 F (3 * c.K + 1) net →
            ∀ (y : Array ℝ),
              y.size = F →
                (∀ (i : Fin F),
                    e (NF.StructureExec.rqCfgOf c).box.bottom < y.getD (↑i : ℕ) 0 ∧
                      y.getD (↑i : ℕ) 0 < e (NF.StructureExec.rqCfgOf c).box.top) →
                  (∀ (i : Fin F),
                      ∃ k < c.K,
                        RQWhole.xs e (NF.StructureExec.rqCfgOf c)
                              (NF.StructureExec.rqW (NF.realX e) c
                                (NF.ARWhole.arSlice (NF.realX e) c F
                                  (net (NF.ARWhole.arInverse (NF.realX e) c 1 F net y).out) 0 (↑i : ℕ)))
                              k <
                            (NF.ARWhole.arInverse (NF.realX e) c 1 F net y).out.getD (0 * F + (↑i : ℕ)) 0 ∧
                          (NF.ARWhole.arInverse (NF.realX e) c 1 F net y).out.getD (0 * F + (↑i : ℕ)) 0 <
                            RQWhole.xs e (NF.StructureExec.rqCfgOf c)
                              (NF.StructureExec.rqW (NF.realX e) c
                                (NF.ARWhole.arSlice (NF.realX e) c F
                                  (net (NF.ARWhole.arInverse (NF.realX e) c 1 F net y).out) 0 (↑i : ℕ)))
                              (k + 1)) →
                    ∀ {Lg Lf : (Fin F → ℝ) →L[ℝ] Fin F → ℝ},
                      (HasFDerivAt (NF.ARInverseStage.invRowMap e c F net) Lg fun (i : Fin F) => y.getD (↑i : ℕ) 0) →
                        (HasFDerivAt (NF.ARWhole.rowMap e c 1 F net (NF.ARWhole.arInverse (NF.realX e) c 1 F net y).out 0)
                            Lf fun (i : Fin F) =>
                            (NF.ARWhole.arInverse (NF.realX e) c 1 F net y).out.getD (0 * F + (↑i : ℕ)) 0) →
                          (NF.ARWhole.arInverse (NF.realX e) c 1 F net y).ld[0]? =
                              Option.some
                                (Real.log
                                  |(LinearMap.det : ((Fin F → ℝ) →ₗ[ℝ] Fin F → ℝ) → ℝ)
                                      (↑Lg : (Fin F → ℝ) →ₗ[ℝ] Fin F → ℝ)|) ∧
                            Real.log
                                |(LinearMap.det : ((Fin F → ℝ) →ₗ[ℝ] Fin F → ℝ) → ℝ) (↑Lg : (Fin F → ℝ) →ₗ[ℝ] Fin F → ℝ)| =
                              -Real.log
                                  |(LinearMap.det : ((Fin F → ℝ) →ₗ[ℝ] Fin F → ℝ) → ℝ) (↑Lf : (Fin F → ℝ) →ₗ[ℝ] Fin F → ℝ)| :=
  @NF.ARInverseStage.ar_rq_inverse_logdet_is_jacobian

end Properties.C02
