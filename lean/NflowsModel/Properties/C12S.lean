import NflowsModel.Properties.C12
import NflowsModel.Lemmas.StageMore
/-!
# C12 (continued) — more executed stages are row-wise, so `flowExec_composite` applies to realistic flows

`Lemmas/StageMoreRows.lean` (every `XOps α`): feature permutations (two forced hypotheses with counterexamples: a permutation of the wrong
length raises even on the empty batch; an index `≥ w` makes the model's flat read reach the next row, where torch raises), the LU / QR /
SVD / Householder / naive passes in both directions, BatchNorm in evaluation mode and an initialised ActNorm, wrapped as batch stages
on flat arrays (`*_flatten`: the wrappers return what the Core functions return).  `flowExec_act_lu_coupling`: `Flow.log_prob` of
[ActNorm, LULinear, coupling] is row independent, errors included.
-/
set_option linter.all false
namespace Properties.C12

theorem rowWise_permStage :
    ∀ {α : Type} (o : XOps α) (w cw : ℕ) (perm : List ℕ),
      perm.length = w → (∀ k < w, perm.getD k 0 < w) → NF.FlowRowsExec.RowWiseStage w cw (NF.StageMore.permStage o w perm) :=
  @NF.StageMore.rowWise_permStage

theorem rowWise_permInvStage :
    ∀ {α : Type} (o : XOps α) (w cw : ℕ) (perm : List ℕ),
      perm.length = w →
        (∀ k < w, (NF.inversePerm perm).getD k 0 < w) →
          NF.FlowRowsExec.RowWiseStage w cw (NF.StageMore.permInvStage o w perm) :=
  @NF.StageMore.rowWise_permInvStage

theorem rowWise_luStage :
    ∀ {α : Type} (o : XOps α) (w cw : ℕ) (p : NF.LF.LUParams α),
      NF.FlowRowsExec.RowWiseStage w cw (NF.StageMore.luStage o w p) :=
  @NF.StageMore.rowWise_luStage

theorem rowWise_qrStage :
    ∀ {α : Type} (o : XOps α) (w cw : ℕ) (p : NF.LF.QRParams α),
      NF.FlowRowsExec.RowWiseStage w cw (NF.StageMore.qrStage o w p) :=
  @NF.StageMore.rowWise_qrStage

theorem rowWise_svdStage :
    ∀ {α : Type} (o : XOps α) (w cw : ℕ) (p : NF.LF.SVDParams α),
      NF.FlowRowsExec.RowWiseStage w cw (NF.StageMore.svdStage o w p) :=
  @NF.StageMore.rowWise_svdStage

theorem rowWise_hhStage :
    ∀ {α : Type} (o : XOps α) (w cw : ℕ) (qs : List (List α)),
      NF.FlowRowsExec.RowWiseStage w cw (NF.StageMore.hhStage o w qs) :=
  @NF.StageMore.rowWise_hhStage

theorem rowWise_naiveStage :
    ∀ {α : Type} (o : XOps α) (w cw n : ℕ) (W : List (List α)) (b : List α),
      NF.FlowRowsExec.RowWiseStage w cw (NF.StageMore.naiveStage o w n W b) :=
  @NF.StageMore.rowWise_naiveStage

theorem rowWise_bnEvalStage :
    ∀ {α : Type} (o : XOps α) (cfg : NF.Norm.BNCfg α) (F cw : ℕ) (s : NF.Norm.BNSt α),
      s.training = Bool.false → NF.FlowRowsExec.RowWiseStage F cw (NF.StageMore.bnEvalStage o cfg F s) :=
  @NF.StageMore.rowWise_bnEvalStage

theorem rowWise_actStage :
    ∀ {α : Type} (o : XOps α) (F cw : ℕ) (s : NF.Norm.ActSt α),
      s.initialized = Bool.true ∨ s.training = Bool.false → NF.FlowRowsExec.RowWiseStage F cw (NF.StageMore.actStage o F s) :=
  @NF.StageMore.rowWise_actStage

theorem flowExec_act_lu_coupling :
    ∀ {α : Type} (o : XOps α) {rcw cw : ℕ} {emb : ℕ → Array α → Array α}
      {base : NF.FlowRowsExec.BaseD α} {B : ℕ} {x ctx : Array α} {xr cr : ℕ → Array α} (c : NF.ElCfg) (mask : List α)
      (S : ℕ) (uc : Option NF.ElCfg) (uparams : Array α) (net : ℕ → Array α → Array α → Array α) (s : NF.Norm.ActSt α)
      (p : NF.LF.LUParams α),
      s.initialized = Bool.true ∨ s.training = Bool.false →
        NF.FlowRowsExec.NetRowWise ((NF.identityIdx o mask).length * S) cw
            (NF.StructureExec.paramWidth c (NF.transformIdx o mask).length * S) net →
          NF.FlowRowsExec.RowIndepBase cw base →
            NF.FlowRowsExec.EmbRowWise rcw cw emb →
              (∀ b < B, NF.FlowRowsExec.RowEq (mask.length * S) b 0 x (xr b)) →
                (∀ b < B, NF.FlowRowsExec.RowEq rcw b 0 ctx (cr b)) →
                  have T :=
                    NF.FlowRowsExec.compStage o
                      [NF.StageMore.actStage o (mask.length * S) s, NF.StageMore.luStage o (mask.length * S) p,
                        NF.FlowRowsExec.couplingStage o c mask S Bool.false uc uparams net];
                  (∀ (lps : List α),
                      NF.FlowRowsExec.flowLogProbExec o (mask.length * S) emb T base B x ctx = Except.ok lps →
                        lps.length = B ∧
                          ∀ i < B,
                            ∃ (l : α),
                              lps[i]? = Option.some l ∧
                                NF.FlowRowsExec.flowLogProbExec o (mask.length * S) emb T base 1 (xr i) (cr i) =
                                  Except.ok [l]) ∧
                    (0 < B →
                      ((∃ (err : NF.Density.DErr),
                          NF.FlowRowsExec.flowLogProbExec o (mask.length * S) emb T base B x ctx = Except.error err) ↔
                        ∃ i < B,
                          ∃ (err : NF.Density.DErr),
                            NF.FlowRowsExec.flowLogProbExec o (mask.length * S) emb T base 1 (xr i) (cr i) =
                              Except.error err)) :=
  @NF.StageMore.flowExec_act_lu_coupling

end Properties.C12
