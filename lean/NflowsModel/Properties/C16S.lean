import NflowsModel.Properties.C16
import NflowsModel.Lemmas.DualXFlowStages
/-!
# C16 (continued) — more dual-sound stages: element-wise layers, coupling layers, open domains; a Glow block

`Lemmas/DualXFlowStages.lean`.  `nonlinApply_poly`: the executed element-wise loop in ANY `XOps` equals (map of values, row sums of
log-dets, first element exception) — so element-level dual soundness lifts to the stage.  `DualSoundStage` for point-wise affine
(both directions; scale ≠ 0 forced) and Exp; on the admissible set (`DualSoundStageOn`) for LeakyReLU away from its kink — forced:
`leakyStage_not_dual_sound_at_kink` —, Tanh and Sigmoid away from the softplus threshold; the executed coupling stage with an additive
or default-activation affine element and any dual-sound conditioner (`DualSoundNet`, discharged for an affine conditioner with `W`, `b`
moving), any numeric mask; `flow_glow_block_logprob_dual_sound`: `Flow.log_prob` of [ActNorm, LULinear, affine coupling] at dual numbers
returns (value, derivative) per row with EVERY parameter moving.  Open domains: `DualSoundStageNear` (sound eventually near the base
point), closed under cascade, with `Exp.inverse` as instance — forced: `expInvStage_not_dual_sound`.  Not covered: spline couplings as
stages, the inverse direction of coupling, autoregressive stages, perceptron conditioners.
-/
set_option linter.all false
namespace Properties.C16

theorem nonlinApply_poly :
    ∀ {α : Type} (o : XOps α) (kind : String) (ds : Array Float) (ps : List α) (B : ℕ)
      (x : Array α) (inv : Bool),
      NF.nonlinApply o kind ds ps B x inv =
        { out := (List.map (fun (xi : α) => DualXFlowStages.outYG o (NF.nonlinEl o kind ds ps inv xi)) x.toList).toArray,
          ld :=
            NF.sumRows o B
              (List.map (fun (xi : α) => DualXFlowStages.outLG o (NF.nonlinEl o kind ds ps inv xi)) x.toList).toArray,
          err := List.findSome? (fun (xi : α) => DualXFlowStages.errG (NF.nonlinEl o kind ds ps inv xi)) x.toList } :=
  @DualXFlowStages.nonlinApply_poly

theorem dualSound_nonlinStage_affine :
    ∀ (e : Float → ℝ) {t : ℝ} (ds : Array Float) (inv : Bool)
      {ps : ℝ → List ℝ} {dps : List (ℝ × ℝ)},
      DualXLU.DV t ps dps →
        (dps.getD 0 (0, 0)).1 ≠ 0 →
          DualXFlow.DualSoundStage t (fun (s : ℝ) => NF.StageMore.nonlinStage (NF.realX e) "Affine" ds (ps s) inv)
            (NF.StageMore.nonlinStage (NF.dualX (NF.realX e)) "Affine" ds dps inv) :=
  @DualXFlowStages.dualSound_nonlinStage_affine

theorem dualSound_nonlinStage_exp :
    ∀ (e : Float → ℝ) {t : ℝ} (ds : Array Float) (ps : ℝ → List ℝ)
      (dps : List (ℝ × ℝ)),
      DualXFlow.DualSoundStage t (fun (s : ℝ) => NF.StageMore.nonlinStage (NF.realX e) "Exp" ds (ps s) Bool.false)
        (NF.StageMore.nonlinStage (NF.dualX (NF.realX e)) "Exp" ds dps Bool.false) :=
  @DualXFlowStages.dualSound_nonlinStage_exp

theorem dualSound_nonlinStage_leakyRelu :
    ∀ (e : Float → ℝ) {t : ℝ} (ds : Array Float) (inv : Bool)
      {ps : ℝ → List ℝ} {dps : List (ℝ × ℝ)},
      DualXLU.DV t ps dps →
        DualXFlowStages.DualSoundStageOn t (fun (x : ℕ) (dX x_1 : Array (ℝ × ℝ)) => ∀ d ∈ dX.toList, d.1 ≠ 0)
          (fun (s : ℝ) => NF.StageMore.nonlinStage (NF.realX e) "LeakyReLU" ds (ps s) inv)
          (NF.StageMore.nonlinStage (NF.dualX (NF.realX e)) "LeakyReLU" ds dps inv) :=
  @DualXFlowStages.dualSound_nonlinStage_leakyRelu

theorem dualSound_nonlinStage_tanh :
    ∀ (e : Float → ℝ) {t : ℝ} (ds : Array Float) (ps : ℝ → List ℝ)
      (dps : List (ℝ × ℝ)),
      DualXFlowStages.DualSoundStageOn t (fun (x : ℕ) (dX x_1 : Array (ℝ × ℝ)) => ∀ d ∈ dX.toList, e (-2.0) * d.1 ≠ 20)
        (fun (s : ℝ) => NF.StageMore.nonlinStage (NF.realX e) "Tanh" ds (ps s) Bool.false)
        (NF.StageMore.nonlinStage (NF.dualX (NF.realX e)) "Tanh" ds dps Bool.false) :=
  @DualXFlowStages.dualSound_nonlinStage_tanh

theorem dualSound_nonlinStage_sigmoid :
    ∀ (e : Float → ℝ) {t : ℝ} (ds : Array Float) {ps : ℝ → List ℝ}
      {dps : List (ℝ × ℝ)},
      DualXLU.DV t ps dps →
        (dps.getD 0 (0, 0)).1 ≠ 0 →
          DualXFlowStages.DualSoundStageOn t
            (fun (x : ℕ) (dX x_1 : Array (ℝ × ℝ)) =>
              ∀ d ∈ dX.toList, (dps.getD 0 (0, 0)).1 * d.1 ≠ 20 ∧ (dps.getD 0 (0, 0)).1 * d.1 ≠ -20)
            (fun (s : ℝ) => NF.StageMore.nonlinStage (NF.realX e) "Sigmoid" ds (ps s) Bool.false)
            (NF.StageMore.nonlinStage (NF.dualX (NF.realX e)) "Sigmoid" ds dps Bool.false) :=
  @DualXFlowStages.dualSound_nonlinStage_sigmoid

theorem leakyStage_not_dual_sound_at_kink :
    ∀ (e : Float → ℝ) (ds : Array Float) (ls : ℝ),
      e (ds.getD 0 0.0) ≠ 1 →
        ¬DualXFlow.DualSoundStage 0 (fun (x : ℝ) => NF.StageMore.nonlinStage (NF.realX e) "LeakyReLU" ds [ls] Bool.false)
            (NF.StageMore.nonlinStage (NF.dualX (NF.realX e)) "LeakyReLU" ds [(ls, 0)] Bool.false) :=
  @DualXFlowStages.leakyStage_not_dual_sound_at_kink

theorem dualSoundOn_compStage :
    ∀ (e : Float → ℝ) {t : ℝ} {Ts : List DualXFlowStages.NearTriple},
      (∀ T ∈ Ts, DualXFlowStages.DualSoundStageOn t T.1 T.2.1 T.2.2) →
        DualXFlowStages.DualSoundStageOn t (fun (B : ℕ) (dX dc : Array (ℝ × ℝ)) => DualXFlowStages.cascadeP B dc Ts dX)
          (fun (s : ℝ) =>
            NF.FlowRowsExec.compStage (NF.realX e) (List.map (fun (T : DualXFlowStages.NearTriple) => T.2.1 s) Ts))
          (NF.FlowRowsExec.compStage (NF.dualX (NF.realX e)) (List.map (fun (T : DualXFlowStages.NearTriple) => T.2.2) Ts)) :=
  @DualXFlowStages.dualSoundOn_compStage

theorem dualSoundNet_affNet :
    ∀ (e : Float → ℝ) {t : ℝ} (win wout : ℕ) {W : ℝ → List (List ℝ)}
      {dW : List (List (ℝ × ℝ))} {b : ℝ → List ℝ} {db : List (ℝ × ℝ)},
      DualXLU.DM t W dW →
        DualXLU.DV t b db →
          DualXFlowStages.DualSoundNet t (fun (s : ℝ) => DualXFlowStages.affNet (NF.realX e) win wout (W s) (b s))
            (DualXFlowStages.affNet (NF.dualX (NF.realX e)) win wout dW db) :=
  @DualXFlowStages.dualSoundNet_affNet

theorem dualSound_couplingStage_of_el :
    ∀ (e : Float → ℝ) {t : ℝ} (c : NF.ElCfg) (dmask : List (ℝ × ℝ)) (S : ℕ),
      (∀ (Ft b tp sp : ℕ) (P : ℝ → Array ℝ) (dP : Array (ℝ × ℝ)) (fx : ℝ → ℝ) (dx : ℝ × ℝ),
          DualXFlow.DA t P dP →
            DualX.IsDual fx t dx →
              DualXFlowStages.RelEl t
                (fun (s : ℝ) => NF.couplingEl (DualXFlowStages.RX e) c Ft S (P s) Bool.false b tp sp (fx s))
                (NF.couplingEl (DualXFlowStages.DX e) c Ft S dP Bool.false b tp sp dx)) →
        ∀ {netR : ℝ → ℕ → Array ℝ → Array ℝ → Array ℝ} {netD : ℕ → Array (ℝ × ℝ) → Array (ℝ × ℝ) → Array (ℝ × ℝ)},
          DualXFlowStages.DualSoundNet t netR netD →
            DualXFlow.DualSoundStage t
              (fun (s : ℝ) =>
                NF.FlowRowsExec.couplingStage (NF.realX e) c (List.map Prod.fst dmask) S Bool.false Option.none #[]
                  (netR s))
              (NF.FlowRowsExec.couplingStage (NF.dualX (NF.realX e)) c dmask S Bool.false Option.none #[] netD) :=
  @DualXFlowStages.dualSound_couplingStage_of_el

theorem dualSound_couplingStage_affine :
    ∀ (e : Float → ℝ) {t : ℝ} {c : NF.ElCfg},
      c.kind = "affine" →
        (c.act == "general") = Bool.false →
          0 ≤ e 1e-3 →
            ∀ (dmask : List (ℝ × ℝ)) (S : ℕ) {netR : ℝ → ℕ → Array ℝ → Array ℝ → Array ℝ}
              {netD : ℕ → Array (ℝ × ℝ) → Array (ℝ × ℝ) → Array (ℝ × ℝ)},
              DualXFlowStages.DualSoundNet t netR netD →
                DualXFlow.DualSoundStage t
                  (fun (s : ℝ) =>
                    NF.FlowRowsExec.couplingStage (NF.realX e) c (List.map Prod.fst dmask) S Bool.false Option.none #[]
                      (netR s))
                  (NF.FlowRowsExec.couplingStage (NF.dualX (NF.realX e)) c dmask S Bool.false Option.none #[] netD) :=
  @DualXFlowStages.dualSound_couplingStage_affine

theorem dualSound_couplingStage_additive :
    ∀ (e : Float → ℝ) {t : ℝ} {c : NF.ElCfg},
      c.kind = "additive" →
        ∀ (dmask : List (ℝ × ℝ)) (S : ℕ) {netR : ℝ → ℕ → Array ℝ → Array ℝ → Array ℝ}
          {netD : ℕ → Array (ℝ × ℝ) → Array (ℝ × ℝ) → Array (ℝ × ℝ)},
          DualXFlowStages.DualSoundNet t netR netD →
            DualXFlow.DualSoundStage t
              (fun (s : ℝ) =>
                NF.FlowRowsExec.couplingStage (NF.realX e) c (List.map Prod.fst dmask) S Bool.false Option.none #[]
                  (netR s))
              (NF.FlowRowsExec.couplingStage (NF.dualX (NF.realX e)) c dmask S Bool.false Option.none #[] netD) :=
  @DualXFlowStages.dualSound_couplingStage_additive

theorem flow_glow_block_logprob_dual_sound :
    ∀ (e : Float → ℝ) (w : ℕ) (ds : NF.Norm.ActSt (ℝ × ℝ))
      (dp : NF.LF.LUParams (ℝ × ℝ)) {c : NF.ElCfg},
      c.kind = "affine" →
        (c.act == "general") = Bool.false →
          0 ≤ e 1e-3 →
            ∀ (dmask : List (ℝ × ℝ)) (S win wout : ℕ) (dW : List (List (ℝ × ℝ))) (db : List (ℝ × ℝ)),
              ds.initialized = Bool.true ∨ ds.training = Bool.false →
                (∀ d ∈ dp.udiag, d.1 ≠ 20) →
                  0 ≤ dp.eps.1 →
                    ∀ (shape inShape : List ℕ) (cf : Bool) (B : ℕ) (dX dctx : Array (ℝ × ℝ)),
                      have flowD :=
                        NF.FlowRowsExec.flowLogProbExec (NF.dualX (NF.realX e)) w (fun (x : ℕ) (a : Array (ℝ × ℝ)) => a)
                          (NF.FlowRowsExec.compStage (NF.dualX (NF.realX e))
                            [NF.StageMore.actStage (NF.dualX (NF.realX e)) w ds,
                              NF.StageMore.luStage (NF.dualX (NF.realX e)) w dp,
                              NF.FlowRowsExec.couplingStage (NF.dualX (NF.realX e)) c dmask S Bool.false Option.none #[]
                                (DualXFlowStages.affNet (NF.dualX (NF.realX e)) win wout dW db)])
                          (fun (B : ℕ) (rows : List (List (ℝ × ℝ))) (x : Array (ℝ × ℝ)) =>
                            NF.Density.stdNormalLogProb (NF.dualX (NF.realX e)) shape inShape
                              (NF.RowIndependenceMore.ctxOf cf B) rows)
                          B dX dctx;
                      have flowR := fun (s : ℝ) =>
                        NF.FlowRowsExec.flowLogProbExec (NF.realX e) w (fun (x : ℕ) (a : Array ℝ) => a)
                          (NF.FlowRowsExec.compStage (NF.realX e)
                            [NF.StageMore.actStage (NF.realX e) w (DualXFlow.lineAct s ds),
                              NF.StageMore.luStage (NF.realX e) w (DualXLU.lineP s dp),
                              NF.FlowRowsExec.couplingStage (NF.realX e) c (List.map Prod.fst dmask) S Bool.false
                                Option.none #[]
                                (DualXFlowStages.affNet (NF.realX e) win wout (DualXLU.lineM s dW) (DualXLU.lineV s db))])
                          (fun (B : ℕ) (rows : List (List ℝ)) (x : Array ℝ) =>
                            NF.Density.stdNormalLogProb (NF.realX e) shape inShape (NF.RowIndependenceMore.ctxOf cf B) rows)
                          B (DualXFlow.lineA s dX) (DualXFlow.lineA s dctx);
                      (∀ (dlps : List (ℝ × ℝ)),
                          flowD = Except.ok dlps →
                            ∃ (lps : ℝ → List ℝ),
                              (∀ (s : ℝ), flowR s = Except.ok (lps s)) ∧
                                (∀ (s : ℝ), (lps s).length = dlps.length) ∧
                                  ∀ (i : ℕ),
                                    (dlps.getD i (0, 0)).1 = (lps 0).getD i 0 ∧
                                      HasDerivAt (fun (s : ℝ) => (lps s).getD i 0) (dlps.getD i (0, 0)).2 0) ∧
                        ∀ (err : NF.Density.DErr), flowD = Except.error err → ∀ (s : ℝ), flowR s = Except.error err :=
  @DualXFlowStages.flow_glow_block_logprob_dual_sound

theorem flow_glow_block_accepted :
    ∀ {α : Type} (o : XOps α) (w : ℕ) (st : NF.Norm.ActSt α)
      (p : NF.LF.LUParams α) {c : NF.ElCfg},
      c.kind = "affine" →
        ∀ (mask : List α) (S : ℕ) (net : ℕ → Array α → Array α → Array α),
          st.initialized = Bool.true ∨ st.training = Bool.false →
            ∀ (shape : List ℕ) (B : ℕ) (x ctx : Array α),
              ∃ (lps : List α),
                NF.FlowRowsExec.flowLogProbExec o w (fun (x : ℕ) (a : Array α) => a)
                    (NF.FlowRowsExec.compStage o
                      [NF.StageMore.actStage o w st, NF.StageMore.luStage o w p,
                        NF.FlowRowsExec.couplingStage o c mask S Bool.false Option.none #[] net])
                    (fun (B : ℕ) (rows : List (List α)) (x : Array α) =>
                      NF.Density.stdNormalLogProb o shape shape (NF.RowIndependenceMore.ctxOf Bool.false B) rows)
                    B x ctx =
                  Except.ok lps :=
  @DualXFlowStages.flow_glow_block_accepted

theorem dualSoundNear_compStage :
    ∀ (e : Float → ℝ) {t : ℝ} {Ts : List DualXFlowStages.NearTriple},
      (∀ T ∈ Ts, DualXFlowStages.DualSoundStageNear t T.1 T.2.1 T.2.2) →
        DualXFlowStages.DualSoundStageNear t (fun (B : ℕ) (dX dc : Array (ℝ × ℝ)) => DualXFlowStages.cascadeP B dc Ts dX)
          (fun (s : ℝ) =>
            NF.FlowRowsExec.compStage (NF.realX e) (List.map (fun (T : DualXFlowStages.NearTriple) => T.2.1 s) Ts))
          (NF.FlowRowsExec.compStage (NF.dualX (NF.realX e)) (List.map (fun (T : DualXFlowStages.NearTriple) => T.2.2) Ts)) :=
  @DualXFlowStages.dualSoundNear_compStage

theorem flow_logprob_dual_sound_near :
    ∀ (e : Float → ℝ) (w : ℕ) {Ts : List DualXFlowStages.NearTriple},
      (∀ T ∈ Ts, DualXFlowStages.DualSoundStageNear 0 T.1 T.2.1 T.2.2) →
        ∀ {bR : ℝ → NF.FlowRowsExec.BaseD ℝ} {bD : NF.FlowRowsExec.BaseD (ℝ × ℝ)},
          DualXFlow.DualSoundBase 0 bR bD →
            ∀ (B : ℕ) (dX dctx : Array (ℝ × ℝ)),
              DualXFlowStages.cascadeP B dctx Ts dX →
                (∀ (dlps : List (ℝ × ℝ)),
                    NF.FlowRowsExec.flowLogProbExec (NF.dualX (NF.realX e)) w (fun (x : ℕ) (a : Array (ℝ × ℝ)) => a)
                          (NF.FlowRowsExec.compStage (NF.dualX (NF.realX e))
                            (List.map (fun (T : DualXFlowStages.NearTriple) => T.2.2) Ts))
                          bD B dX dctx =
                        Except.ok dlps →
                      ∃ (lps : ℝ → List ℝ),
                        (∀ᶠ (s : ℝ) in nhds 0,
                            NF.FlowRowsExec.flowLogProbExec (NF.realX e) w (fun (x : ℕ) (a : Array ℝ) => a)
                                (NF.FlowRowsExec.compStage (NF.realX e)
                                  (List.map (fun (T : DualXFlowStages.NearTriple) => T.2.1 s) Ts))
                                (bR s) B (DualXFlow.lineA s dX) (DualXFlow.lineA s dctx) =
                              Except.ok (lps s)) ∧
                          (∀ (s : ℝ), (lps s).length = dlps.length) ∧
                            ∀ (i : ℕ),
                              (dlps.getD i (0, 0)).1 = (lps 0).getD i 0 ∧
                                HasDerivAt (fun (s : ℝ) => (lps s).getD i 0) (dlps.getD i (0, 0)).2 0) ∧
                  ∀ (err : NF.Density.DErr),
                    NF.FlowRowsExec.flowLogProbExec (NF.dualX (NF.realX e)) w (fun (x : ℕ) (a : Array (ℝ × ℝ)) => a)
                          (NF.FlowRowsExec.compStage (NF.dualX (NF.realX e))
                            (List.map (fun (T : DualXFlowStages.NearTriple) => T.2.2) Ts))
                          bD B dX dctx =
                        Except.error err →
                      NF.FlowRowsExec.flowLogProbExec (NF.realX e) w (fun (x : ℕ) (a : Array ℝ) => a)
                          (NF.FlowRowsExec.compStage (NF.realX e)
                            (List.map (fun (T : DualXFlowStages.NearTriple) => T.2.1 0) Ts))
                          (bR 0) B (DualXFlow.lineA 0 dX) (DualXFlow.lineA 0 dctx) =
                        Except.error err :=
  @DualXFlowStages.flow_logprob_dual_sound_near

theorem dualSoundNear_nonlinStage_exp_inv :
    ∀ (e : Float → ℝ) {t : ℝ} (ds : Array Float) {ps : ℝ → List ℝ}
      {dps : List (ℝ × ℝ)},
      DualXLU.DV t ps dps →
        DualXFlowStages.DualSoundStageNear t (fun (x : ℕ) (dX x_1 : Array (ℝ × ℝ)) => ∀ d ∈ dX.toList, True)
          (fun (s : ℝ) => NF.StageMore.nonlinStage (NF.realX e) "Exp" ds (ps s) Bool.true)
          (NF.StageMore.nonlinStage (NF.dualX (NF.realX e)) "Exp" ds dps Bool.true) :=
  @DualXFlowStages.dualSoundNear_nonlinStage_exp_inv

theorem expInvStage_not_dual_sound :
    ∀ (e : Float → ℝ),
      ¬DualXFlow.DualSoundStage 0 (fun (x : ℝ) => NF.StageMore.nonlinStage (NF.realX e) "Exp" #[] [] Bool.true)
          (NF.StageMore.nonlinStage (NF.dualX (NF.realX e)) "Exp" #[] [] Bool.true) :=
  @DualXFlowStages.expInvStage_not_dual_sound

end Properties.C16
