import NflowsModel.Properties.C01
import NflowsModel.Lemmas.MultiscaleLinear
/-!
# C01 (continued) — the multiscale transform over EXECUTED linear stages

`Lemmas/MultiscaleLinear.lean`: the adapter from the batch-level `LinearJacobian.PassIs` to the item-level `MultiscaleJacobian.StageJac`
(`stageJac_of_passIs`: the executed pass on the one-row batch `[item]`), instances for LU / QR / SVD / Householder / naive stages, and
`multiscale_lu_logdet_is_jacobian`: the two-stage `MultiscaleCompositeTransform` that `MS.build` returns over two executed `LULinear`
stages returns the sum of the two LU log-dets, and that sum is `log |det|` of the Fréchet derivative of the whole item map
(`multiscale_two_pass_logdet_is_jacobian`: any two `PassIs` passes).  1-D items, forward direction.
-/
set_option linter.all false
namespace Properties.C01

theorem stageJac_of_passIs :
    ∀ {n : ℕ} {F : List (List ℝ) → List (List ℝ) × List ℝ} {g : List ℝ → List ℝ}
      {φ : (Fin n → ℝ) → Fin n → ℝ} {M : Matrix (Fin n) (Fin n) ℝ},
      LinearJacobian.PassIs n F g φ M →
        ∀ (G : List (List ℝ) → List (List ℝ) × List ℝ),
          MultiscaleJacobian.StageJac () (MultiscaleLinear.stageOfPass F G) n φ fun (x : Fin n → ℝ) => Real.log |M.det| :=
  @MultiscaleLinear.stageJac_of_passIs

theorem stageJac_lu :
    ∀ (p : NF.LF.LUParams ℝ),
      p.udiag.length = p.n →
        0 ≤ p.eps →
          p.bias.length = p.n →
            MultiscaleJacobian.StageJac () (MultiscaleLinear.luStage p) p.n
              (LinearJacobian.affine (LinearBridge.luW p) (LinearBridge.vecFn p.n p.bias)) fun (x : Fin p.n → ℝ) =>
              Real.log |(LinearBridge.luW p).det| :=
  @MultiscaleLinear.stageJac_lu

theorem stageJac_qr :
    ∀ (p : NF.LF.QRParams ℝ) (vs : List (Fin p.n → ℝ)),
      p.qs = List.map List.ofFn vs →
        (∀ v ∈ vs, v ⬝ᵥ v ≠ 0) →
          p.logDiag.length = p.n →
            p.bias.length = p.n →
              MultiscaleJacobian.StageJac () (MultiscaleLinear.qrStage p) p.n
                (LinearJacobian.affine (LinearBridge.qrW p vs) (LinearBridge.vecFn p.n p.bias)) fun (x : Fin p.n → ℝ) =>
                Real.log |(LinearBridge.qrW p vs).det| :=
  @MultiscaleLinear.stageJac_qr

theorem stageJac_svd :
    ∀ (p : NF.LF.SVDParams ℝ) (vs1 vs2 : List (Fin p.n → ℝ)),
      p.qs1 = List.map List.ofFn vs1 →
        p.qs2 = List.map List.ofFn vs2 →
          (∀ v ∈ vs1, v ⬝ᵥ v ≠ 0) →
            (∀ v ∈ vs2, v ⬝ᵥ v ≠ 0) →
              p.udiag.length = p.n →
                0 ≤ p.eps →
                  p.bias.length = p.n →
                    MultiscaleJacobian.StageJac () (MultiscaleLinear.svdStage p) p.n
                      (LinearJacobian.affine (LinearBridge.svdW p vs1 vs2) (LinearBridge.vecFn p.n p.bias))
                      fun (x : Fin p.n → ℝ) => Real.log |(LinearBridge.svdW p vs1 vs2).det| :=
  @MultiscaleLinear.stageJac_svd

theorem stageJac_hh :
    ∀ {n : ℕ} (vs : List (Fin n → ℝ)),
      (∀ v ∈ vs, v ⬝ᵥ v ≠ 0) →
        MultiscaleJacobian.StageJac () (MultiscaleLinear.hhStage (List.map List.ofFn vs)) n
          (LinearJacobian.affine (LinearFamily.Q vs) 0) fun (x : Fin n → ℝ) => Real.log |(LinearFamily.Q vs).det| :=
  @MultiscaleLinear.stageJac_hh

theorem stageJac_naive :
    ∀ {n : ℕ} (W : Matrix (Fin n) (Fin n) ℝ),
      W.det ≠ 0 →
        ∀ (b : List ℝ),
          b.length = n →
            MultiscaleJacobian.StageJac () (MultiscaleLinear.naiveStage n (LinearBridge.ofMat W) b) n
              (LinearJacobian.affine W (LinearBridge.vecFn n b)) fun (x : Fin n → ℝ) => Real.log |W.det| :=
  @MultiscaleLinear.stageJac_naive

theorem multiscale_two_pass_logdet_is_jacobian :
    ∀ (c h : ℕ),
      (c + h + 1) / 2 = c →
        4 ≤ c + h →
          ∀ {F₁ G₁ F₂ G₂ : List (List ℝ) → List (List ℝ) × List ℝ} {g₁ g₂ : List ℝ → List ℝ}
            {φ₁ : (Fin (c + h) → ℝ) → Fin (c + h) → ℝ} {φ₂ : (Fin h → ℝ) → Fin h → ℝ}
            {M₁ : Matrix (Fin (c + h)) (Fin (c + h)) ℝ} {M₂ : Matrix (Fin h) (Fin h) ℝ},
            LinearJacobian.PassIs (c + h) F₁ g₁ φ₁ M₁ →
              LinearJacobian.PassIs h F₂ g₂ φ₂ M₂ →
                ∀ (v : Fin (c + h) → ℝ),
                  ∃ (m : NF.Wrap.MS ℝ Unit ℝ),
                    NF.Wrap.MS.build 2 (NF.Wrap.PyArg.int 1)
                          [MultiscaleLinear.stageOfPass F₁ G₁, MultiscaleLinear.stageOfPass F₂ G₂] [c + h] =
                        Except.ok m ∧
                      NF.Wrap.MS.forward (NF.Wrap.LD.std ℝ) m { shape := [c + h], data := List.ofFn v } () =
                          Except.ok
                            ({ shape := [c + h],
                                data :=
                                  List.ofFn (MultiscaleJacobian.blockMap (MultiscaleJacobian.splitFin c h) φ₂ (φ₁ v)) },
                              Real.log |M₁.det| + Real.log |M₂.det|) ∧
                        ∃ (D : (Fin (c + h) → ℝ) →L[ℝ] Fin (c + h) → ℝ),
                          HasFDerivAt (MultiscaleJacobian.blockMap (MultiscaleJacobian.splitFin c h) φ₂ ∘ φ₁) D v ∧
                            D.det ≠ 0 ∧ Real.log |M₁.det| + Real.log |M₂.det| = Real.log |D.det| :=
  @MultiscaleLinear.multiscale_two_pass_logdet_is_jacobian

theorem multiscale_lu_logdet_is_jacobian :
    ∀ (c h : ℕ),
      (c + h + 1) / 2 = c →
        4 ≤ c + h →
          ∀ (q₁ q₂ : NF.LF.LUParams ℝ),
            q₁.udiag.length = c + h →
              0 ≤ q₁.eps →
                q₁.bias.length = c + h →
                  q₂.udiag.length = h →
                    0 ≤ q₂.eps →
                      q₂.bias.length = h →
                        ∀ (v : Fin (c + h) → ℝ),
                          ∃ (m : NF.Wrap.MS ℝ Unit ℝ),
                            NF.Wrap.MS.build 2 (NF.Wrap.PyArg.int 1)
                                  [MultiscaleLinear.luStage (MultiscaleLinear.luSized (c + h) q₁),
                                    MultiscaleLinear.luStage (MultiscaleLinear.luSized h q₂)]
                                  [c + h] =
                                Except.ok m ∧
                              NF.Wrap.MS.forward (NF.Wrap.LD.std ℝ) m { shape := [c + h], data := List.ofFn v } () =
                                  Except.ok
                                    ({ shape := [c + h],
                                        data :=
                                          List.ofFn
                                            (MultiscaleJacobian.blockMap (MultiscaleJacobian.splitFin c h)
                                              (LinearJacobian.affine (LinearBridge.luW (MultiscaleLinear.luSized h q₂))
                                                (LinearBridge.vecFn h q₂.bias))
                                              (LinearJacobian.affine
                                                (LinearBridge.luW (MultiscaleLinear.luSized (c + h) q₁))
                                                (LinearBridge.vecFn (c + h) q₁.bias) v)) },
                                      NF.LF.luLogabsdet DualSound.realOps (MultiscaleLinear.luSized (c + h) q₁) +
                                        NF.LF.luLogabsdet DualSound.realOps (MultiscaleLinear.luSized h q₂)) ∧
                                ∃ (D : (Fin (c + h) → ℝ) →L[ℝ] Fin (c + h) → ℝ),
                                  HasFDerivAt
                                      (MultiscaleJacobian.blockMap (MultiscaleJacobian.splitFin c h)
                                          (LinearJacobian.affine (LinearBridge.luW (MultiscaleLinear.luSized h q₂))
                                            (LinearBridge.vecFn h q₂.bias)) ∘
                                        LinearJacobian.affine (LinearBridge.luW (MultiscaleLinear.luSized (c + h) q₁))
                                          (LinearBridge.vecFn (c + h) q₁.bias))
                                      D v ∧
                                    D.det ≠ 0 ∧
                                      NF.LF.luLogabsdet DualSound.realOps (MultiscaleLinear.luSized (c + h) q₁) +
                                          NF.LF.luLogabsdet DualSound.realOps (MultiscaleLinear.luSized h q₂) =
                                        Real.log |D.det| :=
  @MultiscaleLinear.multiscale_lu_logdet_is_jacobian

theorem multiscale_lu_logdet_is_jacobian_any :
    ∀ (c h : ℕ),
      (c + h + 1) / 2 = c →
        4 ≤ c + h →
          ∀ (p₁ p₂ : NF.LF.LUParams ℝ),
            p₁.n = c + h →
              p₂.n = h →
                p₁.udiag.length = p₁.n →
                  0 ≤ p₁.eps →
                    p₁.bias.length = p₁.n →
                      p₂.udiag.length = p₂.n →
                        0 ≤ p₂.eps →
                          p₂.bias.length = p₂.n →
                            ∃ (m : NF.Wrap.MS ℝ Unit ℝ) (Φ : (Fin (c + h) → ℝ) → Fin (c + h) → ℝ),
                              NF.Wrap.MS.build 2 (NF.Wrap.PyArg.int 1)
                                    [MultiscaleLinear.luStage p₁, MultiscaleLinear.luStage p₂] [c + h] =
                                  Except.ok m ∧
                                ∀ (v : Fin (c + h) → ℝ),
                                  NF.Wrap.MS.forward (NF.Wrap.LD.std ℝ) m { shape := [c + h], data := List.ofFn v } () =
                                      Except.ok
                                        ({ shape := [c + h], data := List.ofFn (Φ v) },
                                          NF.LF.luLogabsdet DualSound.realOps p₁ + NF.LF.luLogabsdet DualSound.realOps p₂) ∧
                                    ∃ (D : (Fin (c + h) → ℝ) →L[ℝ] Fin (c + h) → ℝ),
                                      HasFDerivAt Φ D v ∧
                                        D.det ≠ 0 ∧
                                          NF.LF.luLogabsdet DualSound.realOps p₁ + NF.LF.luLogabsdet DualSound.realOps p₂ =
                                            Real.log |D.det| :=
  @MultiscaleLinear.multiscale_lu_logdet_is_jacobian'

end Properties.C01
