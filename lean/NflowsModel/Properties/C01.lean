import NflowsModel.Real.Bridge
import NflowsModel.Lemmas.RankedDet
import NflowsModel.Lemmas.Nonlin
import NflowsModel.Lemmas.LU
import NflowsModel.Lemmas.RQBin
import NflowsModel.Lemmas.RQWhole
import NflowsModel.Lemmas.RQInverseWhole
import Mathlib.Analysis.Calculus.FDeriv.Comp
import Mathlib.LinearAlgebra.Determinant
import NflowsModel.Lemmas.StructureExec
import NflowsModel.Lemmas.CubicWhole
import NflowsModel.Lemmas.QuadWhole
import NflowsModel.Lemmas.TanhStable
import NflowsModel.Lemmas.ARWhole
import NflowsModel.Lemmas.TailsWhole
import NflowsModel.Lemmas.StructureExecRQTails
import NflowsModel.Lemmas.LinWhole
/-!
# C01 — the forward log-abs-det equals log |det Jacobian| of the map actually computed

Property theorems only.  Layers:
1. scalar derivative laws `HasDerivAt f (exp (ld x)) x` for the element-wise transformers, including the
   *executed* `Expr` terms of the spline bins (via the bridge lemmas);
2. `det_of_ranked_dependency`: coupling / autoregressive / element-wise Jacobians are triangular up to a
   permutation, so `det = ∏ diagonal` (any mask, any degree order, any size);
3. linear family: `log|det (L U)| = Σ log diag U`;
4. composition: log-abs-dets add; box rescaling adds `log((top-bottom)/(right-left))`.

Later layers (same namespace): whole executed spline programs and the executed coupling / autoregressive layers
(`Properties/C01J.lean`: the returned `ld[b]` is `log|det|` of the Fréchet derivative of the executed row map).

**Closed-form vs executed** (external audit): the scalar laws in THIS file are about closed forms; their executed twins — the
element-wise transformers of `Core/Nonlin.lean` run at `NF.realX e` (`expT`, `affineT`, `gluT`, `leakyReluT`, `sigmoidT` with its
softplus threshold, `tanhT`, `cauchyT`, `logTanhT`), the element-wise layer loop, the 1×1 convolution, ActNorm 2-D / 4-D,
BatchNorm in evaluation mode, permutations and squeeze — are in `Properties/C01E.lean`, with counterexample theorems for every
forced side condition.
**What no theorem in this namespace covers** (carried by the correspondence run and the Jacobian oracle only): the log-det of
multiscale on N-D items (1-D items: `Properties/C01M.lean`; the linear family as Jacobians: `Properties/C01L.lean`, NaiveLinear: `Properties/C01N.lean`),
UMNN; image-shaped coupling inputs (`S > 1`) have the left-fold form of the log-det here and the Jacobian statement in `Properties/C01M.lean`; bounded splines are
covered strictly inside bins (cubic and RQ-with-tails also at knots), not at the end-points of the box; per-element derivative
laws inside layers are discharged for affine, additive and RQ(-tails) elements here and for quadratic / cubic / linear ones in
`Properties/C01L.lean` (forward pass; knots excluded for quadratic and linear; inverse pass of coupling layers: `Properties/C01V.lean`);
Fréchet differentiability of a row map through a conditioner is a hypothesis, discharged for constant / affine conditioners and
(`Properties/C03ND.lean`) for MADE with a smooth activation in the affine autoregressive layer — not for ReLU networks.
Arrays are read with `getD`: a conditioner output of the wrong size is read as zeros where PyTorch raises.
-/
open DualSound NF

namespace Properties.C01

/-! ## 1. scalar laws -/

/-- `Exp`: d/dx exp x = exp(x); the code returns `ld = x`. -/
theorem exp_logdet (x : ℝ) : HasDerivAt Real.exp (Real.exp x) x := Nonlin.exp_fwd_deriv x

/-- `Tanh`: the code returns `ld = log(1 - tanh² x)`. -/
theorem tanh_logdet (x : ℝ) : HasDerivAt Real.tanh (Real.exp (Real.log (1 - (Real.tanh x)^2))) x :=
  Nonlin.tanh_deriv x

/-- `Sigmoid` with temperature `T > 0`: `ld = log T - softplus(-Tx) - softplus(Tx)`. -/
theorem sigmoid_logdet {T : ℝ} (hT : 0 < T) (x : ℝ) :
    HasDerivAt (fun x => Nonlin.sigmoid (T * x))
      (Real.exp (Real.log T - Nonlin.softplus (-(T*x)) - Nonlin.softplus (T*x))) x :=
  Nonlin.sigmoid_deriv hT x

/-- `LeakyReLU` away from the kink: `ld = log(slope)·[x<0]`. -/
theorem leakyRelu_logdet {s x : ℝ} (hs : 0 < s) (hx : x ≠ 0) :
    HasDerivAt (Nonlin.lrelu s) (Real.exp (Real.log s * (if x < 0 then 1 else 0))) x := by
  rcases lt_or_gt_of_ne hx with h | h
  · simpa [h] using Nonlin.lrelu_deriv_neg hs h
  · have : ¬ x < 0 := not_lt.mpr h.le
    simpa [this] using Nonlin.lrelu_deriv_pos (s := s) h

/-- affine element `x ↦ s·x + b` with `s ≠ 0`: `ld = log|s|` (PointwiseAffineTransform, coupling/AR affine, ActNorm,
    BatchNorm in evaluation mode). -/
theorem affine_logdet {s b : ℝ} (hs : s ≠ 0) (x : ℝ) :
    HasDerivAt (fun x => x * s + b) s x ∧ Real.exp (Real.log |s|) = |s| := by
  refine ⟨?_, Real.exp_log (abs_pos.mpr hs)⟩
  simpa using ((hasDerivAt_id x).mul_const s).add_const b

/-- **RQ bin, as executed.**  On its bin the derivative of the executed forward term is `exp` of the executed
    log-abs-det term — for every width, height and pair of positive knot derivatives. -/
theorem rq_executed_logdet {xk w yk h d0 d1 x : ℝ} (hw : 0 < w) (hh : 0 < h) (h0 : 0 < d0) (h1 : 0 < d1)
    (hx0 : xk ≤ x) (hx1 : x ≤ xk + w) :
    HasDerivAt (fun x => evalR (Bridge.rqEnv x xk w yk h d0 d1) rqFwdE)
      (Real.exp (evalR (Bridge.rqEnv x xk w yk h d0 d1) rqFwdLdE)) x :=
  RQBin.rq_executed_logdet hw hh h0 h1 hx0 hx1

/-- **End to end, RQ forward**: the derivative of the value the executed program `rqSpline … false` returns, at any
    point strictly inside a bin, is `exp` of the log-abs-det the same program returns — for every accepted configuration
    and every unnormalised parameter vectors (softmax, floor, cumsum, pinned end knots, search and gather included). -/
theorem rq_program_logdet (e : Float → ℝ) (c : RQCfg) (uw uh ud : List ℝ) (hv : RQWhole.RQValid e c uw uh ud)
    (k : ℕ) (hk : k < uw.length) (x : ℝ) (h0 : RQWhole.xs e c uw k < x) (h1 : x < RQWhole.xs e c uw (k+1)) :
    HasDerivAt (RQWhole.val e c uw uh ud) (Real.exp (RQWhole.ld e c uw uh ud x)) x :=
  RQWhole.val_hasDerivAt hv k hk x h0 h1

/-- **Quadratic bin, as executed**: the derivative of the executed cdf term is `exp` of the executed log-det term
    (positive edge heights, point inside the bin). -/
theorem quad_executed_logdet {hl hr w c loc x : ℝ} (hw : 0 < w) (h0 : 0 < hl) (h1 : 0 < hr)
    (hx0 : loc ≤ x) (hx1 : x ≤ loc + w) :
    HasDerivAt (fun x => evalR (Bridge.qEnv x loc w c hl hr) quadFwdE)
      (Real.exp (evalR (Bridge.qEnv x loc w c hl hr) quadFwdLdE)) x := by
  have hfun : (fun x => evalR (Bridge.qEnv x loc w c hl hr) quadFwdE) = fun x => Quad.cdf hl hr w c ((x - loc) / w) := by
    funext z; rw [Bridge.quadFwdE_eq]
  have ha0 : 0 ≤ (x - loc) / w := div_nonneg (by linarith) hw.le
  have ha1 : (x - loc) / w ≤ 1 := by rw [div_le_one hw]; linarith
  rw [hfun, Bridge.quadFwdLdE_eq, Real.exp_log (Quad.pdf_pos h0 h1 ha0 ha1)]
  exact Quad.cdf_hasDerivAt hw

/-- **Cubic bin, as executed**: derivative of the executed Hermite polynomial is the executed derivative term
    (whose log the code returns). -/
theorem cubic_executed_deriv {x lcw s d0 d1 w d : ℝ} (hw : 0 < w) :
    HasDerivAt (fun x => evalR (Bridge.cEnv x lcw ((d0 + d1 - 2*s)/w^2) ((3*s - 2*d0 - d1)/w) d0 d) cubicFwdE)
      (evalR (Bridge.cEnv x lcw ((d0 + d1 - 2*s)/w^2) ((3*s - 2*d0 - d1)/w) d0 d) cubicDerivE) x := by
  have hfun : (fun x => evalR (Bridge.cEnv x lcw ((d0 + d1 - 2*s)/w^2) ((3*s - 2*d0 - d1)/w) d0 d) cubicFwdE)
      = fun x => Cubic.poly s d0 d1 w (x - lcw) + d := by
    funext z; exact Bridge.cubicFwdE_eq z lcw s d0 d1 w d
  rw [hfun, Bridge.cubicDerivE_eq x lcw s d0 d1 w d hw.ne']
  have hp := Cubic.poly_hasDerivAt (s := s) (d0 := d0) (d1 := d1) (u := x - lcw) hw
  have hsub : HasDerivAt (fun x : ℝ => x - lcw) 1 x := by simpa using (hasDerivAt_id x).sub_const lcw
  have := (HasDerivAt.comp x hp hsub).add_const d
  simpa using this

/-- **Linear spline bin** (linear.py:86-101): on bin `k` of `K` equal-width bins the forward map is
    `x ↦ c + (x·K − k)·p` with `p > 0` the bin's softmax mass; its derivative is `K·p`, and the code returns
    `log p − log(1/K)`. -/
theorem linear_bin_logdet (c p : ℝ) (K k : ℕ) (hK : 0 < K) (hp : 0 < p) (x : ℝ) :
    HasDerivAt (fun x : ℝ => c + (x * K - k) * p) (Real.exp (Real.log p - Real.log (1 / (K : ℝ)))) x := by
  have hKr : (0:ℝ) < K := by exact_mod_cast hK
  have hd : HasDerivAt (fun x : ℝ => c + (x * K - k) * p) ((K : ℝ) * p) x := by
    have h1 : HasDerivAt (fun x : ℝ => x * (K:ℝ) - k) (K : ℝ) x := by
      simpa using ((hasDerivAt_id x).mul_const (K:ℝ)).sub_const (k:ℝ)
    simpa using (h1.mul_const p).const_add c
  refine hd.congr_deriv ?_
  rw [Real.exp_sub, Real.exp_log hp, Real.exp_log (by positivity)]
  field_simp

/-- **Box rescaling** (linear / quadratic / cubic splines after the repair): if the normalised map `F` has
    derivative `exp ℓ` at `(x-left)/(right-left)`, the rescaled map `bottom + (top-bottom)·F((x-left)/(right-left))`
    has derivative `exp (ℓ + log((top-bottom)/(right-left)))`. -/
theorem box_scale_logdet (F : ℝ → ℝ) (ℓ left right bottom top x : ℝ) (hlr : left < right) (hbt : bottom < top)
    (hF : HasDerivAt F (Real.exp ℓ) ((x - left) / (right - left))) :
    HasDerivAt (fun x => bottom + (top - bottom) * F ((x - left) / (right - left)))
      (Real.exp (ℓ + Real.log ((top - bottom) / (right - left)))) x := by
  have hlin : HasDerivAt (fun x : ℝ => (x - left) / (right - left)) (1 / (right - left)) x := by
    simpa using ((hasDerivAt_id x).sub_const left).div_const (right - left)
  have hc := ((HasDerivAt.comp x hF hlin).const_mul (top - bottom)).const_add bottom
  have hpos : 0 < (top - bottom) / (right - left) := div_pos (by linarith) (by linarith)
  refine hc.congr_deriv ?_
  rw [Real.exp_add, Real.exp_log hpos]
  have : right - left ≠ 0 := by linarith
  field_simp

/-! ## 2. triangular Jacobians -/

/-- **Ranked dependency**: if output `i` depends only on inputs of lower rank and on input `i` itself, the
    Jacobian determinant is the product of the diagonal partial derivatives.  Instances: element-wise maps
    (`r ≡ 0`), coupling layers for ANY mask (`r = 0` on identity features, `1` on transformed ones; images flattened),
    autoregressive transforms (`r i` = MADE degree of feature `i`, by C06). -/
theorem det_of_ranked_dependency {n : ℕ} {F : (Fin n → ℝ) → (Fin n → ℝ)}
    {L : (Fin n → ℝ) →L[ℝ] (Fin n → ℝ)} {x : Fin n → ℝ} (hF : HasFDerivAt F L x)
    (r : Fin n → ℕ) (d : Fin n → ℝ)
    (hind : ∀ i j, j ≠ i → ¬ (r j < r i) → ∀ t : ℝ, F (x + t • Pi.single j 1) i = F x i)
    (hdiag : ∀ i, HasDerivAt (fun t : ℝ => F (x + t • Pi.single i 1) i) (d i) 0) :
    LinearMap.det (L : (Fin n → ℝ) →ₗ[ℝ] (Fin n → ℝ)) = ∏ i, d i :=
  RankedDet.det_of_ranked_dependency hF r d hind hdiag

/-- Corollary in the form the code uses: with diagonal derivatives `exp (ld i)` the returned log-abs-det
    `Σ ld i` is `log |det J|`. -/
theorem sum_logdet_eq_log_abs_det {n : ℕ} {F : (Fin n → ℝ) → (Fin n → ℝ)}
    {L : (Fin n → ℝ) →L[ℝ] (Fin n → ℝ)} {x : Fin n → ℝ} (hF : HasFDerivAt F L x)
    (r : Fin n → ℕ) (ld : Fin n → ℝ)
    (hind : ∀ i j, j ≠ i → ¬ (r j < r i) → ∀ t : ℝ, F (x + t • Pi.single j 1) i = F x i)
    (hdiag : ∀ i, HasDerivAt (fun t : ℝ => F (x + t • Pi.single i 1) i) (Real.exp (ld i)) 0) :
    ∑ i, ld i = Real.log |LinearMap.det (L : (Fin n → ℝ) →ₗ[ℝ] (Fin n → ℝ))| := by
  rw [det_of_ranked_dependency hF r (fun i => Real.exp (ld i)) hind hdiag, ← Real.exp_sum,
    abs_of_pos (Real.exp_pos _), Real.log_exp]

/-! ## 3. linear family -/

/-- LU parameterisation: `Σ log diag U = log |det (L U)|` for unit-lower `L`, upper `U` with positive diagonal. -/
theorem lu_logabsdet {n : ℕ} (lo up : Fin n → Fin n → ℝ) (d : Fin n → ℝ) (hd : ∀ i, 0 < d i) :
    ∑ i, Real.log (d i) = Real.log |(LU.mkLower lo * LU.mkUpper up d).det| :=
  LU.lu_logabsdet lo up d hd

/-! ## 4. composition -/

/-- **Log-abs-dets of composed transforms add** (chain rule + multiplicativity of the determinant). -/
theorem composite_logabsdet_adds {n : ℕ} {f g : (Fin n → ℝ) → (Fin n → ℝ)}
    {Lf Lg : (Fin n → ℝ) →L[ℝ] (Fin n → ℝ)} {x : Fin n → ℝ} {lf lg : ℝ}
    (hf : HasFDerivAt f Lf x) (hg : HasFDerivAt g Lg (f x))
    (hlf : lf = Real.log |LinearMap.det (Lf : (Fin n → ℝ) →ₗ[ℝ] (Fin n → ℝ))|)
    (hlg : lg = Real.log |LinearMap.det (Lg : (Fin n → ℝ) →ₗ[ℝ] (Fin n → ℝ))|)
    (hdf : LinearMap.det (Lf : (Fin n → ℝ) →ₗ[ℝ] (Fin n → ℝ)) ≠ 0)
    (hdg : LinearMap.det (Lg : (Fin n → ℝ) →ₗ[ℝ] (Fin n → ℝ)) ≠ 0) :
    HasFDerivAt (g ∘ f) (Lg.comp Lf) x ∧
    lf + lg = Real.log |LinearMap.det ((Lg.comp Lf : (Fin n → ℝ) →L[ℝ] (Fin n → ℝ)) : (Fin n → ℝ) →ₗ[ℝ] (Fin n → ℝ))| := by
  refine ⟨hg.comp x hf, ?_⟩
  have : ((Lg.comp Lf : (Fin n → ℝ) →L[ℝ] (Fin n → ℝ)) : (Fin n → ℝ) →ₗ[ℝ] (Fin n → ℝ))
      = (Lg : (Fin n → ℝ) →ₗ[ℝ] (Fin n → ℝ)).comp (Lf : (Fin n → ℝ) →ₗ[ℝ] (Fin n → ℝ)) := rfl
  rw [this, LinearMap.det_comp, abs_mul, Real.log_mul (abs_ne_zero.mpr hdg) (abs_ne_zero.mpr hdf), hlf, hlg]
  ring

/-- `GatedLinearUnit` after the repair: a gate `g > 0` shared by `D` features has log-abs-det `D · log g`
    (the code sums `log g` expanded over the features). -/
theorem glu_logdet (D : ℕ) (g : ℝ) : ∑ _i : Fin D, Real.log g = D * Real.log g := by
  simp

/-! non-vacuity -/
example : (0:ℝ) < 1 ∧ (0:ℝ) < 2 ∧ (0:ℝ) < 1/2 ∧ (0:ℝ) ≤ 0.3 ∧ (0.3:ℝ) ≤ 0 + 1 := by norm_num

/-- **End to end, RQ inverse**: inside every open y-bin the derivative of the inverse program's value is `exp` of the
    log-abs-det the inverse program returns. -/
theorem rq_program_inverse_logdet (e : Float → ℝ) (c : RQCfg) (uw uh ud : List ℝ) (hv : RQWhole.RQValid e c uw uh ud)
    (k : ℕ) (hk : k < uw.length) (y : ℝ) (h0 : RQWhole.ys e c uh k < y) (h1 : y < RQWhole.ys e c uh (k+1)) :
    HasDerivAt (RQInverseWhole.inv e c uw uh ud) (Real.exp (RQInverseWhole.invLd e c uw uh ud y)) y :=
  RQInverseWhole.inv_hasDerivAt hv k hk y h0 h1

/-! ## more executed programs -/

/-- **executed coupling layer over the reals**: entry `b` of the returned log-abs-det is the sum over the channels of the
    per-element log-derivatives of the transformed channels (0 for identity channels) — exactly the sum that
    `sum_logdet_eq_log_abs_det` turns into `log |det J|` — provided no element of the row raised. -/
theorem exec_coupling_ld_is_channel_sum (e : Float → ℝ) (c : ElCfg) (mask : List ℝ) (B : Nat) (x params uparams : Array ℝ)
    (inverse : Bool) {b : Nat} (hb : b < B)
    (hok : ∀ r ∈ NF.StructureExec.rowResults (NF.realX e) c mask 1 x params inverse none uparams b, ∃ v, r = .ok v) :
    (couplingApply (NF.realX e) c mask B 1 x params inverse none uparams).ld[b]?
      = some (∑ i : Fin mask.length,
          if NF.StructureExec.isT (NF.realX e) mask i then
            ldOf (NF.realX e) (NF.StructureExec.chanEl (NF.realX e) c mask params b i inverse
              (NF.StructureExec.rowOf (NF.realX e) mask.length b x i))
          else 0) :=
  NF.StructureExec.coupling_ld_real_channels e c mask B x params uparams inverse hb hok

/-- for ANY scalar semantics (also `Float`): the row log-det is the LEFT fold `((0 + l₁) + l₂) + …` of the row's
    per-element log-dets in the implementation's iteration order (unconditional part first) -/
theorem exec_coupling_ld_leftfold {α : Type} (o : XOps α) (c : ElCfg) (mask : List α) (B S : Nat) (x params : Array α)
    (inverse : Bool) (uc : Option ElCfg) (uparams : Array α) {b : Nat} (hb : b < B)
    (hok : ∀ r ∈ NF.StructureExec.rowResults o c mask S x params inverse uc uparams b, ∃ v, r = .ok v) :
    (couplingApply o c mask B S x params inverse uc uparams).ld[b]?
      = some (((NF.StructureExec.rowResults o c mask S x params inverse uc uparams b).map (ldOf o)).foldl o.add o.zero) :=
  NF.StructureExec.coupling_ld_leftfold o c mask B S x params inverse uc uparams hb hok

/-- **End to end, cubic forward**: at EVERY point of the open box (inside bins and at interior knots — the spline is C¹)
    the derivative of the value the executed program `cubicSpline … false` returns is `exp` of the log-abs-det it returns.
    `hbl` reads the `Float` constant `boxLog` (a `Float.log`, opaque to the kernel) as the real logarithm. -/
theorem cubic_program_logdet (e : Float → ℝ) (c : CCfg) (uw uh : List ℝ) (udl udr : ℝ) (hv : CubicWhole.CubicValid e c uw uh)
    (hbl : e (boxLog c.box) = Real.log ((e c.box.top - e c.box.bottom) / (e c.box.right - e c.box.left)))
    (x : ℝ) (hxL : e c.box.left < x) (hxR : x < e c.box.right) :
    HasDerivAt (CubicWhole.val e c uw uh udl udr) (Real.exp (CubicWhole.ld e c uw uh udl udr x)) x :=
  CubicWhole.val_hasDerivAt_all hv hbl x hxL hxR

/-- **End to end, quadratic forward** (bounded shape `|uh| = K+1`, and the tails shape `|uh| = K-1` with its padding
    constant): inside every open bin the derivative of the executed value is `exp` of the executed log-abs-det. -/
theorem quad_program_logdet (e : Float → ℝ) (c : QCfg) (uw uh : List ℝ) (hv : QuadWhole.QuadValid e c uw uh)
    (hbl : e (boxLog c.box) = Real.log ((e c.box.top - e c.box.bottom) / (e c.box.right - e c.box.left)))
    (k : ℕ) (hk : k < uw.length) (x : ℝ) (h0 : QuadWhole.xk e c uw k < x) (h1 : x < QuadWhole.xk e c uw (k+1)) :
    HasDerivAt (QuadWhole.val e c uw uh) (Real.exp (QuadWhole.ld e c uw uh x)) x :=
  QuadWhole.val_hasDerivAt_x hv hbl k hk x h0 h1

theorem quad_tails_program_logdet (e : Float → ℝ) (c : QCfg) (uw uh : List ℝ) (hv : QuadWhole.QuadValidT e c uw uh)
    (hbl : e (boxLog c.box) = Real.log ((e c.box.top - e c.box.bottom) / (e c.box.right - e c.box.left)))
    (k : ℕ) (hk : k < uw.length) (x : ℝ) (h0 : QuadWhole.xk e c uw k < x) (h1 : x < QuadWhole.xk e c uw (k+1)) :
    HasDerivAt (QuadWhole.val e c uw uh) (Real.exp (QuadWhole.ld e c uw uh x)) x :=
  QuadWhole.val_hasDerivAt_x_T hv hbl k hk x h0 h1

/-- **executed `Tanh.forward` over the reals** (the program after fix 1d63aad, which computes the log-det as
    `2 (log 2 − x − softplus(−2x))`): for `x ≥ −10` it returns `(tanh x, log (1 − tanh² x))` exactly and `exp` of that is the
    derivative of `tanh`; below `−10` the `softplus` threshold makes it `2 (log 2 + x)`, within `2 e^{2x} ≤ 2e^{−20}`. -/
theorem tanh_executed_logdet (e : Float → ℝ) (x : ℝ) (h2 : e 2.0 = 2) (hm2 : e (-2.0) = -2) (hl : e (Float.log 2.0) = Real.log 2) :
    (-10 ≤ x → tanhT (NF.realX e) false x = .ok (Real.tanh x, Real.log (1 - Real.tanh x ^ 2)) ∧
        HasDerivAt Real.tanh (Real.exp (Real.log (1 - Real.tanh x ^ 2))) x) ∧
    (x < -10 → tanhT (NF.realX e) false x = .ok (Real.tanh x, 2 * (Real.log 2 + x)) ∧
        |2 * (Real.log 2 + x) - Real.log (1 - Real.tanh x ^ 2)| ≤ 2 * Real.exp (2 * x)) :=
  ⟨TanhStable.tanhT_forward e x h2 hm2 hl, TanhStable.tanhT_forward_threshold e x h2 hm2 hl⟩

/-- **executed autoregressive transform**: entry `b` of the returned log-abs-det is `log |det|` of the derivative of the row map
    (other rows fixed) — the triangular shape comes from `AutoregNet`, the diagonal from the per-element derivative law `hdiag`
    (discharged for the affine and rational-quadratic elements in `Lemmas/ARWhole.lean`); `hL` is differentiability of the
    row map, a hypothesis because the conditioner is arbitrary. -/
theorem exec_autoregressive_row_logdet (e : Float → ℝ) (c : ElCfg) (B F : Nat) (net : Array ℝ → Array ℝ) (x : Array ℝ)
    (hnet : NF.ARWhole.AutoregNet B F (NF.ARWhole.pw c) net) (hx : x.size = B * F) {b : Nat} (hb : b < B)
    {L : (Fin F → ℝ) →L[ℝ] (Fin F → ℝ)}
    (hL : HasFDerivAt (NF.ARWhole.rowMap e c B F net x b) L (fun i => x.getD (b * F + i.1) 0))
    (hdiag : ∀ i : Fin F, HasDerivAt (NF.ARWhole.elMap e c F (net x) b i)
      (Real.exp (ldOf (NF.realX e) (NF.arEl (NF.realX e) c F x (net x) false b i))) (x.getD (b * F + i.1) 0)) :
    (NF.ARWhole.arForward (NF.realX e) c B F net x).ld[b]?
      = some (Real.log |LinearMap.det (L : (Fin F → ℝ) →ₗ[ℝ] (Fin F → ℝ))|) :=
  NF.ARWhole.ar_row_logdet e c B F net x hnet hx hb hL hdiag

/-- **End to end, RQ with linear tails: `HasDerivAt valT (exp (ldT x)) x` at EVERY real `x`** — in the tails, inside bins, at
    interior knots and at the two junctions (where both one-sided derivatives are 1), given that `e` reads the padding constant
    `log(exp(1 − min_derivative) − 1)` exactly and `β = 1` (`PadExact`; with `enable_identity_init` the inner `β` differs from
    the padding's and the junction derivative is NOT 1: `TailsWhole.valT_not_differentiableAt_of_beta_lt_one`). -/
theorem rq_tails_program_logdet (e : Float → ℝ) (tb minW minH minD beta : Float) (uw uh ud : List ℝ)
    (hv : TailsWhole.RQTailsValid e tb minW minH minD beta uw uh ud) (hp : TailsWhole.PadExact e minD beta) (x : ℝ) :
    HasDerivAt (TailsWhole.valT e tb minW minH minD beta uw uh ud)
      (Real.exp (TailsWhole.ldT e tb minW minH minD beta uw uh ud x)) x :=
  TailsWhole.valT_hasDerivAt_all hv hp x

/-- **masked autoregressive RQ layer with linear tails: `ld[b] = log |det J_b|` at EVERY real row** (tails, junctions, knots
    and open bins alike) — `hL` is differentiability of the row map through the arbitrary conditioner, `PadExact` reads the
    padding constant exactly. -/
theorem exec_made_rq_tails_row_logdet (e : Float → ℝ) (c : ElCfg) (hc : NF.StructureExec.RQTailsCfgValid e c)
    (hp : TailsWhole.PadExact e (NF.StructureExec.tMD c) (NF.StructureExec.tBe c)) (a : NF.Made.Arch) (n : NF.Made.Net)
    (hbuild : NF.Made.build a = .ok n) (hmult : a.mult = 3 * c.K - 1) (W : ℕ → ℕ → ℕ → ℝ) (bias : ℕ → ℕ → ℝ) (B : Nat)
    (ctxv : ℕ → ℕ → Fin B → ℝ) (g : ℕ → NF.Made.Slot → ℕ → (Fin B → ℝ) → Fin B → ℝ)
    (x : Array ℝ) (hx : x.size = B * a.F) {b : Nat} (hb : b < B) {L : (Fin a.F → ℝ) →L[ℝ] (Fin a.F → ℝ)}
    (hL : HasFDerivAt (NF.ARWhole.rowMap e c B a.F (NF.ARWhole.madeNet n W bias B ctxv g) x b) L (fun i => x.getD (b * a.F + i.1) 0)) :
    (NF.ARWhole.arForward (NF.realX e) c B a.F (NF.ARWhole.madeNet n W bias B ctxv g) x).ld[b]?
      = some (Real.log |LinearMap.det (L : (Fin a.F → ℝ) →ₗ[ℝ] (Fin a.F → ℝ))|) :=
  NF.ARWhole.made_rq_tails_row_logdet e c hc hp a n hbuild hmult W bias B ctxv g x hx hb hL

/-- **End to end, linear spline forward**: inside every open bin the derivative of the executed value is `exp` of the executed
    log-abs-det (hypotheses: the two `Float.log` constants are read as real logarithms) -/
theorem linear_program_logdet (e : Float → ℝ) (box : Box) (eps : Float) (up : List ℝ) (hv : LinWhole.LinValid e box eps up)
    (hlogK : e (Float.log (1.0 / up.length.toFloat)) = Real.log (1 / (up.length : ℝ)))
    (hbl : e (boxLog box) = Real.log ((e box.top - e box.bottom) / (e box.right - e box.left)))
    (k : ℕ) (hk : k < up.length) (x : ℝ) (h0 : LinWhole.xk e box up.length k < x) (h1 : x < LinWhole.xk e box up.length (k+1)) :
    HasDerivAt (LinWhole.val e box eps up) (Real.exp (LinWhole.ld e box eps up x)) x :=
  LinWhole.val_hasDerivAt_x hv hlogK hbl k hk x h0 h1

end Properties.C01
