import NflowsModel.Properties.C01
import NflowsModel.Lemmas.CouplingJacobianImg
import NflowsModel.Lemmas.MultiscaleJacobian
/-!
# C01 (continued) — image-shaped coupling inputs and the multiscale transform as Jacobians

Closes two more exclusions of the `Properties/C01.lean` header.
(1) `Lemmas/CouplingJacobianImg.lean`: for the executed coupling layer with the conditioner in the loop, ANY conditioner, any numeric
mask, any `S ≥ 1` (an item = `C·S` entries in NCHW order), either pass: given the per-entry derivative law and the Fréchet derivative
`L` of the executed item map, `ld[b] = log |det L|`, `det L = ∏ exp(ld_entry)` over the transformed entries (ranked dependency:
identity entries first), and `ld[b]` is the double sum over channels and pixels.  Instances with only `hL` left for additive, affine
(both scale activations) and RQ-with-tails elements; with NO hypothesis left for differentiable conditioners (additive, default affine),
every affine conditioner, constant conditioners (RQ tails).  The additive layer on images has `det L = 1`.
(2) `Lemmas/MultiscaleJacobian.lean` (1-D items, any number of stages): the executed `MS.forward` loop step emits `chunk ++ rest` with the
log-dets added; each step is a block map `id × g` through the splitting `chunk2` performs, `det (id × D) = det D`; by induction the
returned log-det is the sum of the stage log-dets AND `log |det|` of the Fréchet derivative of the whole item map
(`multiscale_logdet_is_sum_and_jacobian`; `two_stage_built`: the object `MS.build` returns for `n ≥ 4`).  `det ≠ 0` per stage is
required (`log 0 = 0` would break additivity).  Not covered: N-D items (where the output order is a genuine permutation), an adapter
from the batch-level `PassIs` to the item-level `StageJac`.
-/
set_option linter.all false
namespace Properties.C01

theorem det_id_prodMap :
    ∀ {A B : Type} [inst : NormedAddCommGroup A] [inst_1 : NormedSpace ℝ A]
      [inst_2 : NormedAddCommGroup B] [inst_3 : NormedSpace ℝ B] [FiniteDimensional ℝ A] [FiniteDimensional ℝ B]
      (D : B →L[ℝ] B), ((ContinuousLinearMap.id ℝ A).prodMap D).det = D.det :=
  @MultiscaleJacobian.det_id_prodMap

theorem step_logdet_returned :
    ∀ {A B : Type} [inst : NormedAddCommGroup A] [inst_1 : NormedSpace ℝ A]
      [inst_2 : NormedAddCommGroup B] [inst_3 : NormedSpace ℝ B] [FiniteDimensional ℝ A] [FiniteDimensional ℝ B] {E : Type}
      [inst_6 : NormedAddCommGroup E] [inst_7 : NormedSpace ℝ E] (S : E ≃L[ℝ] A × B) (f : E → E) (g : B → B) (x : E)
      (Df : E →L[ℝ] E) (Dg : B →L[ℝ] B) (ldf ldg : ℝ),
      HasFDerivAt f Df x →
        HasFDerivAt g Dg ((S : E → A × B) (f x)).2 →
          Df.det ≠ 0 →
            Dg.det ≠ 0 →
              ldf = Real.log |Df.det| →
                ldg = Real.log |Dg.det| →
                  ∃ (D : E →L[ℝ] E),
                    HasFDerivAt (MultiscaleJacobian.blockMap S g ∘ f) D x ∧ D.det ≠ 0 ∧ ldf + ldg = Real.log |D.det| :=
  @MultiscaleJacobian.step_logdet_returned

theorem chunk2_splitFin :
    ∀ (c h : ℕ),
      (c + h + 1) / 2 = c →
        c + h ≠ 1 →
          ∀ (w : Fin (c + h) → ℝ),
            NF.Wrap.chunk2 0 { shape := [c + h], data := List.ofFn w } =
              Except.ok
                ({ shape := [c],
                    data :=
                      List.ofFn ((MultiscaleJacobian.splitFin c h : (Fin (c + h) → ℝ) → (Fin c → ℝ) × (Fin h → ℝ)) w).1 },
                  { shape := [h],
                    data :=
                      List.ofFn ((MultiscaleJacobian.splitFin c h : (Fin (c + h) → ℝ) → (Fin c → ℝ) × (Fin h → ℝ)) w).2 }) :=
  @MultiscaleJacobian.chunk2_splitFin

theorem fwdStages_step :
    ∀ {C : Type} (c h : ℕ),
      (c + h + 1) / 2 = c →
        c + h ≠ 1 →
          ∀ (t t' : NF.Wrap.Tr (NF.Wrap.Item ℝ) C ℝ) (ts : List (NF.Wrap.Tr (NF.Wrap.Item ℝ) C ℝ)) (shs : List (List ℕ))
            (ctx : C) (x fx : Fin (c + h) → ℝ) (gy : Fin h → ℝ) (l₁ l₂ : ℝ),
            t.fwd { shape := [c + h], data := List.ofFn x } ctx =
                Except.ok ({ shape := [c + h], data := List.ofFn fx }, l₁) →
              NF.Wrap.fwdStages (NF.Wrap.LD.std ℝ) 0 (t' :: ts) shs
                    { shape := [h],
                      data :=
                        List.ofFn ((MultiscaleJacobian.splitFin c h : (Fin (c + h) → ℝ) → (Fin c → ℝ) × (Fin h → ℝ)) fx).2 }
                    [] (NF.Wrap.LD.std ℝ).zero ctx =
                  Except.ok (List.ofFn gy, l₂) →
                NF.Wrap.fwdStages (NF.Wrap.LD.std ℝ) 0 (t :: t' :: ts) ([c] :: shs)
                    { shape := [c + h], data := List.ofFn x } [] (NF.Wrap.LD.std ℝ).zero ctx =
                  Except.ok
                    (List.ofFn
                        (((MultiscaleJacobian.splitFin c h).symm : (Fin c → ℝ) × (Fin h → ℝ) → Fin (c + h) → ℝ)
                          (((MultiscaleJacobian.splitFin c h : (Fin (c + h) → ℝ) → (Fin c → ℝ) × (Fin h → ℝ)) fx).1, gy)),
                      l₁ + l₂) :=
  @MultiscaleJacobian.fwdStages_step

theorem stages_logdet_is_jacobian :
    ∀ {C : Type} (ctx : C) (ts : List (NF.Wrap.Tr (NF.Wrap.Item ℝ) C ℝ))
      (shs : List (List ℕ)) (m : ℕ) (F : (Fin m → ℝ) → Fin m → ℝ) (LDt : (Fin m → ℝ) → ℝ),
      MultiscaleJacobian.StagesJac ctx ts shs m F LDt → MultiscaleJacobian.RunJac ctx ts shs m F LDt :=
  @MultiscaleJacobian.stages_logdet_is_jacobian

theorem multiscale_logdet_is_sum_and_jacobian :
    ∀ {C : Type} (ctx : C)
      (ts : List (NF.Wrap.Tr (NF.Wrap.Item ℝ) C ℝ)) (shs : List (List ℕ)) (m : ℕ) (F : (Fin m → ℝ) → Fin m → ℝ)
      (LDt : (Fin m → ℝ) → ℝ),
      MultiscaleJacobian.StagesJac ctx ts shs m F LDt →
        ∀ (v : Fin m → ℝ),
          NF.Wrap.MS.forward (NF.Wrap.LD.std ℝ)
                { numTransforms := (↑ts.length : ℤ), splitDim := 1, transforms := ts, outputShapes := shs }
                { shape := [m], data := List.ofFn v } ctx =
              Except.ok ({ shape := [m], data := List.ofFn (F v) }, LDt v) ∧
            ∃ (D : (Fin m → ℝ) →L[ℝ] Fin m → ℝ), HasFDerivAt F D v ∧ D.det ≠ 0 ∧ LDt v = Real.log |D.det| :=
  @MultiscaleJacobian.multiscale_logdet_is_sum_and_jacobian

theorem two_stage_logdet :
    ∀ {C : Type} (ctx : C) (c h : ℕ),
      (c + h + 1) / 2 = c →
        c + h ≠ 1 →
          ∀ (t₁ t₂ : NF.Wrap.Tr (NF.Wrap.Item ℝ) C ℝ) (f₁ : (Fin (c + h) → ℝ) → Fin (c + h) → ℝ)
            (ld₁ : (Fin (c + h) → ℝ) → ℝ) (f₂ : (Fin h → ℝ) → Fin h → ℝ) (ld₂ : (Fin h → ℝ) → ℝ),
            MultiscaleJacobian.StageJac ctx t₁ (c + h) f₁ ld₁ →
              MultiscaleJacobian.StageJac ctx t₂ h f₂ ld₂ →
                ∀ (v : Fin (c + h) → ℝ),
                  NF.Wrap.MS.forward (NF.Wrap.LD.std ℝ)
                        { numTransforms := 2, splitDim := 1, transforms := [t₁, t₂], outputShapes := [[c], [h]] }
                        { shape := [c + h], data := List.ofFn v } ctx =
                      Except.ok
                        ({ shape := [c + h],
                            data :=
                              List.ofFn
                                  ((MultiscaleJacobian.splitFin c h : (Fin (c + h) → ℝ) → (Fin c → ℝ) × (Fin h → ℝ))
                                      (f₁ v)).1 ++
                                List.ofFn
                                  (f₂
                                    ((MultiscaleJacobian.splitFin c h : (Fin (c + h) → ℝ) → (Fin c → ℝ) × (Fin h → ℝ))
                                        (f₁ v)).2) },
                          ld₁ v +
                            ld₂
                              ((MultiscaleJacobian.splitFin c h : (Fin (c + h) → ℝ) → (Fin c → ℝ) × (Fin h → ℝ))
                                  (f₁ v)).2) ∧
                    ∃ (D : (Fin (c + h) → ℝ) →L[ℝ] Fin (c + h) → ℝ),
                      HasFDerivAt (MultiscaleJacobian.blockMap (MultiscaleJacobian.splitFin c h) f₂ ∘ f₁) D v ∧
                        D.det ≠ 0 ∧
                          ld₁ v +
                              ld₂
                                ((MultiscaleJacobian.splitFin c h : (Fin (c + h) → ℝ) → (Fin c → ℝ) × (Fin h → ℝ))
                                    (f₁ v)).2 =
                            Real.log |D.det| :=
  @MultiscaleJacobian.two_stage_logdet

theorem two_stage_built :
    ∀ {C : Type} (c h : ℕ),
      (c + h + 1) / 2 = c →
        4 ≤ c + h →
          ∀ (t₁ t₂ : NF.Wrap.Tr (NF.Wrap.Item ℝ) C ℝ),
            NF.Wrap.MS.build 2 (NF.Wrap.PyArg.int 1) [t₁, t₂] [c + h] =
              Except.ok { numTransforms := 2, splitDim := 1, transforms := [t₁, t₂], outputShapes := [[c], [h]] } :=
  @MultiscaleJacobian.two_stage_built

theorem coupling_item_logdet_img :
    ∀ (e : Float → ℝ) (c : NF.ElCfg) (mask : List ℝ) (S : ℕ)
      (inverse : Bool) (net : Array ℝ → Array ℝ → Array ℝ) {B : ℕ} (x ctx : Array ℝ),
      x.size = B * (mask.length * S) →
        ∀ {b : ℕ},
          b < B →
            ∀ {L : (Fin (mask.length * S) → ℝ) →L[ℝ] Fin (mask.length * S) → ℝ},
              HasFDerivAt (NF.CouplingJacobianImg.itemMap e c mask S inverse net B x ctx b) L
                  (NF.CouplingJacobianImg.itemOf e mask S b x) →
                (∀ (k : Fin (mask.length * S)),
                    NF.CouplingJacobianImg.isTk e mask S (↑k : ℕ) = Bool.true →
                      HasDerivAt
                        (NF.CouplingJacobianImg.entryElMap e c mask S
                          (NF.CouplingConsequences.paramsOf (NF.realX e) mask S inverse Option.none #[] net B x ctx) inverse
                          b (↑k : ℕ))
                        (Real.exp
                          (NF.CouplingJacobianImg.entryElLd e c mask S
                            (NF.CouplingConsequences.paramsOf (NF.realX e) mask S inverse Option.none #[] net B x ctx)
                            inverse b (↑k : ℕ) (NF.CouplingJacobianImg.itemOf e mask S b x k)))
                        (NF.CouplingJacobianImg.itemOf e mask S b x k)) →
                  (NF.CouplingConsequences.layer (NF.realX e) c mask S inverse Option.none #[] net B x ctx).ld[b]? =
                    Option.some
                      (Real.log
                        |(LinearMap.det : ((Fin (mask.length * S) → ℝ) →ₗ[ℝ] Fin (mask.length * S) → ℝ) → ℝ)
                            (↑L : (Fin (mask.length * S) → ℝ) →ₗ[ℝ] Fin (mask.length * S) → ℝ)|) :=
  @NF.CouplingJacobianImg.coupling_item_logdet_img

theorem coupling_item_abs_det_img :
    ∀ (e : Float → ℝ) (c : NF.ElCfg) (mask : List ℝ) (S : ℕ)
      (inverse : Bool) (net : Array ℝ → Array ℝ → Array ℝ) {B : ℕ} (x ctx : Array ℝ),
      x.size = B * (mask.length * S) →
        ∀ {b : ℕ},
          b < B →
            ∀ {L : (Fin (mask.length * S) → ℝ) →L[ℝ] Fin (mask.length * S) → ℝ},
              HasFDerivAt (NF.CouplingJacobianImg.itemMap e c mask S inverse net B x ctx b) L
                  (NF.CouplingJacobianImg.itemOf e mask S b x) →
                (∀ (k : Fin (mask.length * S)),
                    NF.CouplingJacobianImg.isTk e mask S (↑k : ℕ) = Bool.true →
                      HasDerivAt
                        (NF.CouplingJacobianImg.entryElMap e c mask S
                          (NF.CouplingConsequences.paramsOf (NF.realX e) mask S inverse Option.none #[] net B x ctx) inverse
                          b (↑k : ℕ))
                        (Real.exp
                          (NF.CouplingJacobianImg.entryElLd e c mask S
                            (NF.CouplingConsequences.paramsOf (NF.realX e) mask S inverse Option.none #[] net B x ctx)
                            inverse b (↑k : ℕ) (NF.CouplingJacobianImg.itemOf e mask S b x k)))
                        (NF.CouplingJacobianImg.itemOf e mask S b x k)) →
                  ∃ (l : ℝ),
                    (NF.CouplingConsequences.layer (NF.realX e) c mask S inverse Option.none #[] net B x ctx).ld[b]? =
                        Option.some l ∧
                      |L.det| = Real.exp l :=
  @NF.CouplingJacobianImg.coupling_item_abs_det_img

theorem coupling_item_det_img :
    ∀ (e : Float → ℝ) (c : NF.ElCfg) (mask : List ℝ) (S : ℕ) (inverse : Bool)
      (net : Array ℝ → Array ℝ → Array ℝ) {B : ℕ} (x ctx : Array ℝ),
      x.size = B * (mask.length * S) →
        ∀ {b : ℕ},
          b < B →
            ∀ {L : (Fin (mask.length * S) → ℝ) →L[ℝ] Fin (mask.length * S) → ℝ},
              HasFDerivAt (NF.CouplingJacobianImg.itemMap e c mask S inverse net B x ctx b) L
                  (NF.CouplingJacobianImg.itemOf e mask S b x) →
                ∀ (d : Fin (mask.length * S) → ℝ),
                  (∀ (k : Fin (mask.length * S)),
                      NF.CouplingJacobianImg.isTk e mask S (↑k : ℕ) = Bool.true →
                        HasDerivAt
                          (NF.CouplingJacobianImg.entryElMap e c mask S
                            (NF.CouplingConsequences.paramsOf (NF.realX e) mask S inverse Option.none #[] net B x ctx)
                            inverse b (↑k : ℕ))
                          (d k) (NF.CouplingJacobianImg.itemOf e mask S b x k)) →
                    (LinearMap.det : ((Fin (mask.length * S) → ℝ) →ₗ[ℝ] Fin (mask.length * S) → ℝ) → ℝ)
                        (↑L : (Fin (mask.length * S) → ℝ) →ₗ[ℝ] Fin (mask.length * S) → ℝ) =
                      ∏ k : Fin (mask.length * S),
                        if NF.CouplingJacobianImg.isTk e mask S (↑k : ℕ) = Bool.true then d k else 1 :=
  @NF.CouplingJacobianImg.coupling_item_det_img

theorem layer_ld_entries :
    ∀ (e : Float → ℝ) (c : NF.ElCfg) (mask : List ℝ) (S : ℕ) (inverse : Bool)
      (net : Array ℝ → Array ℝ → Array ℝ) {B : ℕ} (x ctx : Array ℝ) {b : ℕ},
      b < B →
        (NF.CouplingConsequences.layer (NF.realX e) c mask S inverse Option.none #[] net B x ctx).ld[b]? =
          Option.some
            (∑ k : Fin (mask.length * S),
              if NF.CouplingJacobianImg.isTk e mask S (↑k : ℕ) = Bool.true then
                NF.CouplingJacobianImg.entryElLd e c mask S
                  (NF.CouplingConsequences.paramsOf (NF.realX e) mask S inverse Option.none #[] net B x ctx) inverse b
                  (↑k : ℕ) (NF.CouplingJacobianImg.itemOf e mask S b x k)
              else 0) :=
  @NF.CouplingJacobianImg.layer_ld_entries

theorem layer_ld_channels_pixels :
    ∀ (e : Float → ℝ) (c : NF.ElCfg) (mask : List ℝ) (S : ℕ)
      (inverse : Bool) (net : Array ℝ → Array ℝ → Array ℝ) {B : ℕ} (x ctx : Array ℝ) {b : ℕ},
      b < B →
        (NF.CouplingConsequences.layer (NF.realX e) c mask S inverse Option.none #[] net B x ctx).ld[b]? =
          Option.some
            (∑ i : Fin mask.length,
              ∑ s : Fin S,
                if NF.StructureExec.isT (NF.realX e) mask i = Bool.true then
                  NF.ldOf (NF.realX e)
                    (NF.couplingEl (NF.realX e) c (NF.transformIdx (NF.realX e) mask).length S
                      (NF.CouplingConsequences.paramsOf (NF.realX e) mask S inverse Option.none #[] net B x ctx) inverse b
                      (List.idxOf (↑i : ℕ) (NF.transformIdx (NF.realX e) mask)) (↑s : ℕ)
                      (x.getD (NF.flatIdx mask.length S b (↑i : ℕ) (↑s : ℕ)) 0))
                else 0) :=
  @NF.CouplingJacobianImg.layer_ld_channels_pixels

theorem itemMap_eq :
    ∀ (e : Float → ℝ) (c : NF.ElCfg) (mask : List ℝ) (S : ℕ) (inverse : Bool)
      (net : Array ℝ → Array ℝ → Array ℝ) {B : ℕ} (x ctx : Array ℝ),
      x.size = B * (mask.length * S) →
        ∀ {b : ℕ},
          b < B →
            ∀ (v : Fin (mask.length * S) → ℝ),
              (∀ (k : Fin (mask.length * S)),
                  NF.CouplingJacobianImg.isTk e mask S (↑k : ℕ) = Bool.false →
                    v k = NF.CouplingJacobianImg.itemOf e mask S b x k) →
                ∀ (k : Fin (mask.length * S)),
                  NF.CouplingJacobianImg.itemMap e c mask S inverse net B x ctx b v k =
                    if NF.CouplingJacobianImg.isTk e mask S (↑k : ℕ) = Bool.true then
                      NF.CouplingJacobianImg.entryElMap e c mask S
                        (NF.CouplingConsequences.paramsOf (NF.realX e) mask S inverse Option.none #[] net B x ctx) inverse b
                        (↑k : ℕ) (v k)
                    else v k :=
  @NF.CouplingJacobianImg.itemMap_eq

theorem itemMap_self :
    ∀ (e : Float → ℝ) (c : NF.ElCfg) (mask : List ℝ) (S : ℕ) (inverse : Bool)
      (net : Array ℝ → Array ℝ → Array ℝ) (B : ℕ) (x ctx : Array ℝ),
      x.size = B * (mask.length * S) →
        ∀ (b : ℕ),
          NF.CouplingJacobianImg.itemMap e c mask S inverse net B x ctx b (NF.CouplingJacobianImg.itemOf e mask S b x) =
            NF.CouplingJacobianImg.itemOf e mask S b
              (NF.CouplingConsequences.layer (NF.realX e) c mask S inverse Option.none #[] net B x ctx).out :=
  @NF.CouplingJacobianImg.itemMap_self

theorem coupling_additive_item_logdet_img :
    ∀ (e : Float → ℝ) (c : NF.ElCfg),
      c.kind = "additive" →
        ∀ (mask : List ℝ) (S : ℕ) (inverse : Bool) (net : Array ℝ → Array ℝ → Array ℝ) {B : ℕ} (x ctx : Array ℝ),
          x.size = B * (mask.length * S) →
            ∀ {b : ℕ},
              b < B →
                ∀ {L : (Fin (mask.length * S) → ℝ) →L[ℝ] Fin (mask.length * S) → ℝ},
                  HasFDerivAt (NF.CouplingJacobianImg.itemMap e c mask S inverse net B x ctx b) L
                      (NF.CouplingJacobianImg.itemOf e mask S b x) →
                    (NF.CouplingConsequences.layer (NF.realX e) c mask S inverse Option.none #[] net B x ctx).ld[b]? =
                      Option.some
                        (Real.log
                          |(LinearMap.det : ((Fin (mask.length * S) → ℝ) →ₗ[ℝ] Fin (mask.length * S) → ℝ) → ℝ)
                              (↑L : (Fin (mask.length * S) → ℝ) →ₗ[ℝ] Fin (mask.length * S) → ℝ)|) :=
  @NF.CouplingJacobianImg.coupling_additive_item_logdet_img

theorem coupling_affine_item_logdet_img :
    ∀ (e : Float → ℝ),
      0 ≤ e 1e-3 →
        ∀ (c : NF.ElCfg),
          c.kind = "affine" →
            ∀ (mask : List ℝ) (S : ℕ) (inverse : Bool) (net : Array ℝ → Array ℝ → Array ℝ) {B : ℕ} (x ctx : Array ℝ),
              x.size = B * (mask.length * S) →
                ∀ {b : ℕ},
                  b < B →
                    ∀ {L : (Fin (mask.length * S) → ℝ) →L[ℝ] Fin (mask.length * S) → ℝ},
                      HasFDerivAt (NF.CouplingJacobianImg.itemMap e c mask S inverse net B x ctx b) L
                          (NF.CouplingJacobianImg.itemOf e mask S b x) →
                        (NF.CouplingConsequences.layer (NF.realX e) c mask S inverse Option.none #[] net B x ctx).ld[b]? =
                          Option.some
                            (Real.log
                              |(LinearMap.det : ((Fin (mask.length * S) → ℝ) →ₗ[ℝ] Fin (mask.length * S) → ℝ) → ℝ)
                                  (↑L : (Fin (mask.length * S) → ℝ) →ₗ[ℝ] Fin (mask.length * S) → ℝ)|) :=
  @NF.CouplingJacobianImg.coupling_affine_item_logdet_img

theorem coupling_rq_tails_item_logdet_img :
    ∀ (e : Float → ℝ) (c : NF.ElCfg),
      NF.StructureExec.RQTailsCfgValid e c →
        TailsWhole.PadExact e (NF.StructureExec.tMD c) (NF.StructureExec.tBe c) →
          ∀ (mask : List ℝ) (S : ℕ) (inverse : Bool) (net : Array ℝ → Array ℝ → Array ℝ) {B : ℕ} (x ctx : Array ℝ),
            x.size = B * (mask.length * S) →
              ∀ {b : ℕ},
                b < B →
                  ∀ {L : (Fin (mask.length * S) → ℝ) →L[ℝ] Fin (mask.length * S) → ℝ},
                    HasFDerivAt (NF.CouplingJacobianImg.itemMap e c mask S inverse net B x ctx b) L
                        (NF.CouplingJacobianImg.itemOf e mask S b x) →
                      (NF.CouplingConsequences.layer (NF.realX e) c mask S inverse Option.none #[] net B x ctx).ld[b]? =
                        Option.some
                          (Real.log
                            |(LinearMap.det : ((Fin (mask.length * S) → ℝ) →ₗ[ℝ] Fin (mask.length * S) → ℝ) → ℝ)
                                (↑L : (Fin (mask.length * S) → ℝ) →ₗ[ℝ] Fin (mask.length * S) → ℝ)|) :=
  @NF.CouplingJacobianImg.coupling_rq_tails_item_logdet_img

theorem coupling_additive_item_logdet_img_diffNet :
    ∀ (e : Float → ℝ) (c : NF.ElCfg),
      c.kind = "additive" →
        ∀ (mask : List ℝ) (S : ℕ) (inverse : Bool) (net : Array ℝ → Array ℝ → Array ℝ) {B : ℕ} (x ctx : Array ℝ),
          x.size = B * (mask.length * S) →
            ∀ {b : ℕ},
              b < B →
                NF.CouplingJacobianImg.ParamsDiff e mask S inverse net B x ctx b →
                  (NF.CouplingConsequences.layer (NF.realX e) c mask S inverse Option.none #[] net B x ctx).ld[b]? =
                    Option.some
                      (Real.log
                        |(LinearMap.det : ((Fin (mask.length * S) → ℝ) →ₗ[ℝ] Fin (mask.length * S) → ℝ) → ℝ)
                            (↑(fderiv ℝ (NF.CouplingJacobianImg.itemMap e c mask S inverse net B x ctx b)
                                  (NF.CouplingJacobianImg.itemOf e mask S b x)) :
                              (Fin (mask.length * S) → ℝ) →ₗ[ℝ] Fin (mask.length * S) → ℝ)|) :=
  @NF.CouplingJacobianImg.coupling_additive_item_logdet_img_diffNet

theorem coupling_affine_item_logdet_img_diffNet :
    ∀ (e : Float → ℝ),
      0 ≤ e 1e-3 →
        ∀ (c : NF.ElCfg),
          c.kind = "affine" →
            (c.act == "general") = Bool.false →
              ∀ (mask : List ℝ) (S : ℕ) (inverse : Bool) (net : Array ℝ → Array ℝ → Array ℝ) {B : ℕ} (x ctx : Array ℝ),
                x.size = B * (mask.length * S) →
                  ∀ {b : ℕ},
                    b < B →
                      NF.CouplingJacobianImg.ParamsDiff e mask S inverse net B x ctx b →
                        (NF.CouplingConsequences.layer (NF.realX e) c mask S inverse Option.none #[] net B x ctx).ld[b]? =
                          Option.some
                            (Real.log
                              |(LinearMap.det : ((Fin (mask.length * S) → ℝ) →ₗ[ℝ] Fin (mask.length * S) → ℝ) → ℝ)
                                  (↑(fderiv ℝ (NF.CouplingJacobianImg.itemMap e c mask S inverse net B x ctx b)
                                        (NF.CouplingJacobianImg.itemOf e mask S b x)) :
                                    (Fin (mask.length * S) → ℝ) →ₗ[ℝ] Fin (mask.length * S) → ℝ)|) :=
  @NF.CouplingJacobianImg.coupling_affine_item_logdet_img_diffNet

theorem coupling_affine_item_logdet_img_affineNet :
    ∀ (e : Float → ℝ),
      0 ≤ e 1e-3 →
        ∀ (c : NF.ElCfg),
          c.kind = "affine" →
            (c.act == "general") = Bool.false →
              ∀ (mask : List ℝ) (S : ℕ) (inverse : Bool) {n : ℕ} {net : Array ℝ → Array ℝ → Array ℝ} {B : ℕ}
                (x ctx : Array ℝ),
                x.size = B * (mask.length * S) →
                  ∀ {b : ℕ},
                    b < B →
                      NF.CouplingJacobianImg.AffineNetAt n net ctx →
                        (NF.CouplingConsequences.layer (NF.realX e) c mask S inverse Option.none #[] net B x ctx).ld[b]? =
                          Option.some
                            (Real.log
                              |(LinearMap.det : ((Fin (mask.length * S) → ℝ) →ₗ[ℝ] Fin (mask.length * S) → ℝ) → ℝ)
                                  (↑(fderiv ℝ (NF.CouplingJacobianImg.itemMap e c mask S inverse net B x ctx b)
                                        (NF.CouplingJacobianImg.itemOf e mask S b x)) :
                                    (Fin (mask.length * S) → ℝ) →ₗ[ℝ] Fin (mask.length * S) → ℝ)|) :=
  @NF.CouplingJacobianImg.coupling_affine_item_logdet_img_affineNet

theorem coupling_rq_tails_item_logdet_img_const :
    ∀ (e : Float → ℝ) (c : NF.ElCfg),
      NF.StructureExec.RQTailsCfgValid e c →
        TailsWhole.PadExact e (NF.StructureExec.tMD c) (NF.StructureExec.tBe c) →
          ∀ (mask : List ℝ) (S : ℕ) (inverse : Bool) (params : Array ℝ) {B : ℕ} (x ctx : Array ℝ),
            x.size = B * (mask.length * S) →
              ∀ {b : ℕ},
                b < B →
                  (NF.CouplingConsequences.layer (NF.realX e) c mask S inverse Option.none #[]
                          (fun (x x_1 : Array ℝ) => params) B x ctx).ld[b]? =
                    Option.some
                      (Real.log
                        |(LinearMap.det : ((Fin (mask.length * S) → ℝ) →ₗ[ℝ] Fin (mask.length * S) → ℝ) → ℝ)
                            (↑(fderiv ℝ
                                  (NF.CouplingJacobianImg.itemMap e c mask S inverse (fun (x x_1 : Array ℝ) => params) B x
                                    ctx b)
                                  (NF.CouplingJacobianImg.itemOf e mask S b x)) :
                              (Fin (mask.length * S) → ℝ) →ₗ[ℝ] Fin (mask.length * S) → ℝ)|) :=
  @NF.CouplingJacobianImg.coupling_rq_tails_item_logdet_img_const

theorem coupling_additive_item_det_one_img :
    ∀ (e : Float → ℝ) (c : NF.ElCfg),
      c.kind = "additive" →
        ∀ (mask : List ℝ) (S : ℕ) (inverse : Bool) (net : Array ℝ → Array ℝ → Array ℝ) {B : ℕ} (x ctx : Array ℝ),
          x.size = B * (mask.length * S) →
            ∀ {b : ℕ},
              b < B →
                ∀ {L : (Fin (mask.length * S) → ℝ) →L[ℝ] Fin (mask.length * S) → ℝ},
                  HasFDerivAt (NF.CouplingJacobianImg.itemMap e c mask S inverse net B x ctx b) L
                      (NF.CouplingJacobianImg.itemOf e mask S b x) →
                    (LinearMap.det : ((Fin (mask.length * S) → ℝ) →ₗ[ℝ] Fin (mask.length * S) → ℝ) → ℝ)
                        (↑L : (Fin (mask.length * S) → ℝ) →ₗ[ℝ] Fin (mask.length * S) → ℝ) =
                      1 :=
  @NF.CouplingJacobianImg.coupling_additive_item_det_one_img

end Properties.C01
