import NflowsModel.Properties.C16
import NflowsModel.Lemmas.DualXOrth
/-!
# C16 (continued) — dual-number soundness of the rest of the linear family

`Lemmas/DualXOrth.lean`, in the statement form of `Properties.C16.lu_forward_dual_sound`: HouseholderSequence (forward, inverse,
`matrix()`; direction in inputs and q-vectors), QRLinear and SVDLinear (forward, inverse, logabsdet, `weight()`, `weight_inverse()`; all
parameter directions at once), OneByOneConvolution (both passes, both outputs), LULinear accessors.  FORCED side conditions, each with
a counterexample theorem: every q-vector non-zero at the primal point (at `q = 0` the real program is `s ↦ if s = 0 then 1 else −1`),
unconstrained diagonals `≠ 20` (softplus threshold).  Still not covered: NaiveLinear (pivot search needs no-tie hypotheses), cache paths.
-/
set_option linter.all false
namespace Properties.C16

theorem hh_forward_dual_sound :
    ∀ (e : Float → ℝ) (dqs dX : List (List (ℝ × ℝ))),
      DualXOrth.QNonzero dqs →
        (∀ (s : ℝ),
            List.map List.length (NF.LF.hhForward (DualXLU.Rr e) (DualXLU.lineM s dqs) (DualXLU.lineM s dX)) =
              List.map List.length (NF.LF.hhForward (DualXLU.Dd e) dqs dX)) ∧
          ∀ (r c : ℕ),
            (((NF.LF.hhForward (DualXLU.Dd e) dqs dX).getD r []).getD c (0, 0)).1 =
                ((NF.LF.hhForward (DualXLU.Rr e) (DualXLU.lineM 0 dqs) (DualXLU.lineM 0 dX)).getD r []).getD c 0 ∧
              HasDerivAt
                (fun (s : ℝ) =>
                  ((NF.LF.hhForward (DualXLU.Rr e) (DualXLU.lineM s dqs) (DualXLU.lineM s dX)).getD r []).getD c 0)
                (((NF.LF.hhForward (DualXLU.Dd e) dqs dX).getD r []).getD c (0, 0)).2 0 :=
  @DualXOrth.hh_forward_dual_sound

theorem hh_inverse_dual_sound :
    ∀ (e : Float → ℝ) (dqs dX : List (List (ℝ × ℝ))),
      DualXOrth.QNonzero dqs →
        (∀ (s : ℝ),
            List.map List.length (NF.LF.hhInverse (DualXLU.Rr e) (DualXLU.lineM s dqs) (DualXLU.lineM s dX)) =
              List.map List.length (NF.LF.hhInverse (DualXLU.Dd e) dqs dX)) ∧
          ∀ (r c : ℕ),
            (((NF.LF.hhInverse (DualXLU.Dd e) dqs dX).getD r []).getD c (0, 0)).1 =
                ((NF.LF.hhInverse (DualXLU.Rr e) (DualXLU.lineM 0 dqs) (DualXLU.lineM 0 dX)).getD r []).getD c 0 ∧
              HasDerivAt
                (fun (s : ℝ) =>
                  ((NF.LF.hhInverse (DualXLU.Rr e) (DualXLU.lineM s dqs) (DualXLU.lineM s dX)).getD r []).getD c 0)
                (((NF.LF.hhInverse (DualXLU.Dd e) dqs dX).getD r []).getD c (0, 0)).2 0 :=
  @DualXOrth.hh_inverse_dual_sound

theorem hh_forward_not_differentiable_at_zero_q :
    ∀ (e : Float → ℝ),
      ¬∃ (d' : ℝ),
          HasDerivAt
            (fun (s : ℝ) =>
              ((NF.LF.hhForward (DualXLU.Rr e) (DualXLU.lineM s [[(0, 1)]]) (DualXLU.lineM s [[(1, 0)]])).getD 0 []).getD 0
                0)
            d' 0 :=
  @DualXOrth.hh_forward_not_differentiable_at_zero_q

theorem hh_matrix_dual_sound :
    ∀ (e : Float → ℝ) (n : ℕ) (dqs : List (List (ℝ × ℝ))),
      DualXOrth.QNonzero dqs →
        (∀ (s : ℝ),
            List.map List.length (NF.LF.hhMatrix (DualXLU.Rr e) n (DualXLU.lineM s dqs)) =
              List.map List.length (NF.LF.hhMatrix (DualXLU.Dd e) n dqs)) ∧
          ∀ (r c : ℕ),
            (((NF.LF.hhMatrix (DualXLU.Dd e) n dqs).getD r []).getD c (0, 0)).1 =
                ((NF.LF.hhMatrix (DualXLU.Rr e) n (DualXLU.lineM 0 dqs)).getD r []).getD c 0 ∧
              HasDerivAt (fun (s : ℝ) => ((NF.LF.hhMatrix (DualXLU.Rr e) n (DualXLU.lineM s dqs)).getD r []).getD c 0)
                (((NF.LF.hhMatrix (DualXLU.Dd e) n dqs).getD r []).getD c (0, 0)).2 0 :=
  @DualXOrth.hh_matrix_dual_sound

theorem qr_forward_dual_sound :
    ∀ (e : Float → ℝ) (dp : NF.LF.QRParams (ℝ × ℝ)) (dX : List (List (ℝ × ℝ))),
      DualXOrth.QNonzero dp.qs →
        (∀ (s : ℝ),
            List.map List.length (NF.LF.qrForward (DualXLU.Rr e) (DualXOrth.lineQR s dp) (DualXLU.lineM s dX)) =
              List.map List.length (NF.LF.qrForward (DualXLU.Dd e) dp dX)) ∧
          ∀ (r c : ℕ),
            (((NF.LF.qrForward (DualXLU.Dd e) dp dX).getD r []).getD c (0, 0)).1 =
                ((NF.LF.qrForward (DualXLU.Rr e) (DualXOrth.lineQR 0 dp) (DualXLU.lineM 0 dX)).getD r []).getD c 0 ∧
              HasDerivAt
                (fun (s : ℝ) =>
                  ((NF.LF.qrForward (DualXLU.Rr e) (DualXOrth.lineQR s dp) (DualXLU.lineM s dX)).getD r []).getD c 0)
                (((NF.LF.qrForward (DualXLU.Dd e) dp dX).getD r []).getD c (0, 0)).2 0 :=
  @DualXOrth.qr_forward_dual_sound

theorem qr_logabsdet_dual_sound :
    ∀ (e : Float → ℝ) (dp : NF.LF.QRParams (ℝ × ℝ)),
      (NF.LF.qrLogabsdet (DualXLU.Dd e) dp).1 = NF.LF.qrLogabsdet (DualXLU.Rr e) (DualXOrth.lineQR 0 dp) ∧
        HasDerivAt (fun (s : ℝ) => NF.LF.qrLogabsdet (DualXLU.Rr e) (DualXOrth.lineQR s dp))
          (NF.LF.qrLogabsdet (DualXLU.Dd e) dp).2 0 :=
  @DualXOrth.qr_logabsdet_dual_sound

theorem qr_inverse_dual_sound :
    ∀ (e : Float → ℝ) (dp : NF.LF.QRParams (ℝ × ℝ)) (dX : List (List (ℝ × ℝ))),
      DualXOrth.QNonzero dp.qs →
        dp.n ≤ dp.logDiag.length →
          (∀ (s : ℝ),
              List.map List.length (NF.LF.qrInverse (DualXLU.Rr e) (DualXOrth.lineQR s dp) (DualXLU.lineM s dX)) =
                List.map List.length (NF.LF.qrInverse (DualXLU.Dd e) dp dX)) ∧
            ∀ (r c : ℕ),
              (((NF.LF.qrInverse (DualXLU.Dd e) dp dX).getD r []).getD c (0, 0)).1 =
                  ((NF.LF.qrInverse (DualXLU.Rr e) (DualXOrth.lineQR 0 dp) (DualXLU.lineM 0 dX)).getD r []).getD c 0 ∧
                HasDerivAt
                  (fun (s : ℝ) =>
                    ((NF.LF.qrInverse (DualXLU.Rr e) (DualXOrth.lineQR s dp) (DualXLU.lineM s dX)).getD r []).getD c 0)
                  (((NF.LF.qrInverse (DualXLU.Dd e) dp dX).getD r []).getD c (0, 0)).2 0 :=
  @DualXOrth.qr_inverse_dual_sound

theorem qr_weight_dual_sound :
    ∀ (e : Float → ℝ) (dp : NF.LF.QRParams (ℝ × ℝ)),
      DualXOrth.QNonzero dp.qs →
        (∀ (s : ℝ),
            List.map List.length (NF.LF.qrWeight (DualXLU.Rr e) (DualXOrth.lineQR s dp)) =
              List.map List.length (NF.LF.qrWeight (DualXLU.Dd e) dp)) ∧
          ∀ (r c : ℕ),
            (((NF.LF.qrWeight (DualXLU.Dd e) dp).getD r []).getD c (0, 0)).1 =
                ((NF.LF.qrWeight (DualXLU.Rr e) (DualXOrth.lineQR 0 dp)).getD r []).getD c 0 ∧
              HasDerivAt (fun (s : ℝ) => ((NF.LF.qrWeight (DualXLU.Rr e) (DualXOrth.lineQR s dp)).getD r []).getD c 0)
                (((NF.LF.qrWeight (DualXLU.Dd e) dp).getD r []).getD c (0, 0)).2 0 :=
  @DualXOrth.qr_weight_dual_sound

theorem qr_weight_inverse_dual_sound :
    ∀ (e : Float → ℝ) (dp : NF.LF.QRParams (ℝ × ℝ)),
      DualXOrth.QNonzero dp.qs →
        dp.n ≤ dp.logDiag.length →
          (∀ (s : ℝ),
              List.map List.length (NF.LF.qrWeightInverse (DualXLU.Rr e) (DualXOrth.lineQR s dp)) =
                List.map List.length (NF.LF.qrWeightInverse (DualXLU.Dd e) dp)) ∧
            ∀ (r c : ℕ),
              (((NF.LF.qrWeightInverse (DualXLU.Dd e) dp).getD r []).getD c (0, 0)).1 =
                  ((NF.LF.qrWeightInverse (DualXLU.Rr e) (DualXOrth.lineQR 0 dp)).getD r []).getD c 0 ∧
                HasDerivAt
                  (fun (s : ℝ) => ((NF.LF.qrWeightInverse (DualXLU.Rr e) (DualXOrth.lineQR s dp)).getD r []).getD c 0)
                  (((NF.LF.qrWeightInverse (DualXLU.Dd e) dp).getD r []).getD c (0, 0)).2 0 :=
  @DualXOrth.qr_weight_inverse_dual_sound

theorem svd_forward_dual_sound :
    ∀ (e : Float → ℝ) (dp : NF.LF.SVDParams (ℝ × ℝ)) (dX : List (List (ℝ × ℝ))),
      (∀ d ∈ dp.udiag, d.1 ≠ 20) →
        DualXOrth.QNonzero dp.qs1 →
          DualXOrth.QNonzero dp.qs2 →
            (∀ (s : ℝ),
                List.map List.length (NF.LF.svdForward (DualXLU.Rr e) (DualXOrth.lineSVD s dp) (DualXLU.lineM s dX)) =
                  List.map List.length (NF.LF.svdForward (DualXLU.Dd e) dp dX)) ∧
              ∀ (r c : ℕ),
                (((NF.LF.svdForward (DualXLU.Dd e) dp dX).getD r []).getD c (0, 0)).1 =
                    ((NF.LF.svdForward (DualXLU.Rr e) (DualXOrth.lineSVD 0 dp) (DualXLU.lineM 0 dX)).getD r []).getD c 0 ∧
                  HasDerivAt
                    (fun (s : ℝ) =>
                      ((NF.LF.svdForward (DualXLU.Rr e) (DualXOrth.lineSVD s dp) (DualXLU.lineM s dX)).getD r []).getD c 0)
                    (((NF.LF.svdForward (DualXLU.Dd e) dp dX).getD r []).getD c (0, 0)).2 0 :=
  @DualXOrth.svd_forward_dual_sound

theorem svd_logabsdet_dual_sound :
    ∀ (e : Float → ℝ) (dp : NF.LF.SVDParams (ℝ × ℝ)),
      (∀ d ∈ dp.udiag, d.1 ≠ 20) →
        0 ≤ dp.eps.1 →
          (NF.LF.svdLogabsdet (DualXLU.Dd e) dp).1 = NF.LF.svdLogabsdet (DualXLU.Rr e) (DualXOrth.lineSVD 0 dp) ∧
            HasDerivAt (fun (s : ℝ) => NF.LF.svdLogabsdet (DualXLU.Rr e) (DualXOrth.lineSVD s dp))
              (NF.LF.svdLogabsdet (DualXLU.Dd e) dp).2 0 :=
  @DualXOrth.svd_logabsdet_dual_sound

theorem svd_inverse_dual_sound :
    ∀ (e : Float → ℝ) (dp : NF.LF.SVDParams (ℝ × ℝ)) (dX : List (List (ℝ × ℝ))),
      (∀ d ∈ dp.udiag, d.1 ≠ 20) →
        0 ≤ dp.eps.1 →
          DualXOrth.QNonzero dp.qs1 →
            DualXOrth.QNonzero dp.qs2 →
              (∀ (s : ℝ),
                  List.map List.length (NF.LF.svdInverse (DualXLU.Rr e) (DualXOrth.lineSVD s dp) (DualXLU.lineM s dX)) =
                    List.map List.length (NF.LF.svdInverse (DualXLU.Dd e) dp dX)) ∧
                ∀ (r c : ℕ),
                  (((NF.LF.svdInverse (DualXLU.Dd e) dp dX).getD r []).getD c (0, 0)).1 =
                      ((NF.LF.svdInverse (DualXLU.Rr e) (DualXOrth.lineSVD 0 dp) (DualXLU.lineM 0 dX)).getD r []).getD c 0 ∧
                    HasDerivAt
                      (fun (s : ℝ) =>
                        ((NF.LF.svdInverse (DualXLU.Rr e) (DualXOrth.lineSVD s dp) (DualXLU.lineM s dX)).getD r []).getD c
                          0)
                      (((NF.LF.svdInverse (DualXLU.Dd e) dp dX).getD r []).getD c (0, 0)).2 0 :=
  @DualXOrth.svd_inverse_dual_sound

theorem svd_forward_not_differentiable_at_threshold :
    ∀ (e : Float → ℝ),
      ¬∃ (d' : ℝ),
          HasDerivAt
            (fun (s : ℝ) =>
              ((NF.LF.svdForward (DualXLU.Rr e) (DualXOrth.lineSVD s DualXOrth.thrSVD) (DualXLU.lineM s [[(1, 0)]])).getD 0
                    []).getD
                0 0)
            d' 0 :=
  @DualXOrth.svd_forward_not_differentiable_at_threshold

theorem svd_weight_dual_sound :
    ∀ (e : Float → ℝ) (dp : NF.LF.SVDParams (ℝ × ℝ)),
      (∀ d ∈ dp.udiag, d.1 ≠ 20) →
        DualXOrth.QNonzero dp.qs1 →
          DualXOrth.QNonzero dp.qs2 →
            (∀ (s : ℝ),
                List.map List.length (NF.LF.svdWeight (DualXLU.Rr e) (DualXOrth.lineSVD s dp)) =
                  List.map List.length (NF.LF.svdWeight (DualXLU.Dd e) dp)) ∧
              ∀ (r c : ℕ),
                (((NF.LF.svdWeight (DualXLU.Dd e) dp).getD r []).getD c (0, 0)).1 =
                    ((NF.LF.svdWeight (DualXLU.Rr e) (DualXOrth.lineSVD 0 dp)).getD r []).getD c 0 ∧
                  HasDerivAt (fun (s : ℝ) => ((NF.LF.svdWeight (DualXLU.Rr e) (DualXOrth.lineSVD s dp)).getD r []).getD c 0)
                    (((NF.LF.svdWeight (DualXLU.Dd e) dp).getD r []).getD c (0, 0)).2 0 :=
  @DualXOrth.svd_weight_dual_sound

theorem svd_weight_inverse_dual_sound :
    ∀ (e : Float → ℝ) (dp : NF.LF.SVDParams (ℝ × ℝ)),
      (∀ d ∈ dp.udiag, d.1 ≠ 20) →
        0 ≤ dp.eps.1 →
          DualXOrth.QNonzero dp.qs1 →
            DualXOrth.QNonzero dp.qs2 →
              (∀ (s : ℝ),
                  List.map List.length (NF.LF.svdWeightInverse (DualXLU.Rr e) (DualXOrth.lineSVD s dp)) =
                    List.map List.length (NF.LF.svdWeightInverse (DualXLU.Dd e) dp)) ∧
                ∀ (r c : ℕ),
                  (((NF.LF.svdWeightInverse (DualXLU.Dd e) dp).getD r []).getD c (0, 0)).1 =
                      ((NF.LF.svdWeightInverse (DualXLU.Rr e) (DualXOrth.lineSVD 0 dp)).getD r []).getD c 0 ∧
                    HasDerivAt
                      (fun (s : ℝ) => ((NF.LF.svdWeightInverse (DualXLU.Rr e) (DualXOrth.lineSVD s dp)).getD r []).getD c 0)
                      (((NF.LF.svdWeightInverse (DualXLU.Dd e) dp).getD r []).getD c (0, 0)).2 0 :=
  @DualXOrth.svd_weight_inverse_dual_sound

theorem conv_forward_dual_sound :
    ∀ (e : Float → ℝ) (dp : NF.LF.LUParams (ℝ × ℝ)) (perm : List ℕ) (B H W : ℕ)
      (dxs : List (ℝ × ℝ)),
      (∀ d ∈ dp.udiag, d.1 ≠ 20) →
        0 ≤ dp.eps.1 →
          (∀ (s : ℝ),
              (NF.LF.convForward (DualXLU.Rr e) (DualXLU.lineP s dp) perm B H W (DualXLU.lineV s dxs)).1.length =
                  (NF.LF.convForward (DualXLU.Dd e) dp perm B H W dxs).1.length ∧
                (NF.LF.convForward (DualXLU.Rr e) (DualXLU.lineP s dp) perm B H W (DualXLU.lineV s dxs)).2.length =
                  (NF.LF.convForward (DualXLU.Dd e) dp perm B H W dxs).2.length) ∧
            (∀ (k : ℕ),
                ((NF.LF.convForward (DualXLU.Dd e) dp perm B H W dxs).1.getD k (0, 0)).1 =
                    (NF.LF.convForward (DualXLU.Rr e) (DualXLU.lineP 0 dp) perm B H W (DualXLU.lineV 0 dxs)).1.getD k 0 ∧
                  HasDerivAt
                    (fun (s : ℝ) =>
                      (NF.LF.convForward (DualXLU.Rr e) (DualXLU.lineP s dp) perm B H W (DualXLU.lineV s dxs)).1.getD k 0)
                    ((NF.LF.convForward (DualXLU.Dd e) dp perm B H W dxs).1.getD k (0, 0)).2 0) ∧
              ∀ (k : ℕ),
                ((NF.LF.convForward (DualXLU.Dd e) dp perm B H W dxs).2.getD k (0, 0)).1 =
                    (NF.LF.convForward (DualXLU.Rr e) (DualXLU.lineP 0 dp) perm B H W (DualXLU.lineV 0 dxs)).2.getD k 0 ∧
                  HasDerivAt
                    (fun (s : ℝ) =>
                      (NF.LF.convForward (DualXLU.Rr e) (DualXLU.lineP s dp) perm B H W (DualXLU.lineV s dxs)).2.getD k 0)
                    ((NF.LF.convForward (DualXLU.Dd e) dp perm B H W dxs).2.getD k (0, 0)).2 0 :=
  @DualXOrth.conv_forward_dual_sound

theorem conv_inverse_dual_sound :
    ∀ (e : Float → ℝ) (dp : NF.LF.LUParams (ℝ × ℝ)) (perm : List ℕ) (B H W : ℕ)
      (dxs : List (ℝ × ℝ)),
      (∀ d ∈ dp.udiag, d.1 ≠ 20) →
        0 ≤ dp.eps.1 →
          dp.n ≤ dp.udiag.length →
            (∀ (s : ℝ),
                (NF.LF.convInverse (DualXLU.Rr e) (DualXLU.lineP s dp) perm B H W (DualXLU.lineV s dxs)).1.length =
                    (NF.LF.convInverse (DualXLU.Dd e) dp perm B H W dxs).1.length ∧
                  (NF.LF.convInverse (DualXLU.Rr e) (DualXLU.lineP s dp) perm B H W (DualXLU.lineV s dxs)).2.length =
                    (NF.LF.convInverse (DualXLU.Dd e) dp perm B H W dxs).2.length) ∧
              (∀ (k : ℕ),
                  ((NF.LF.convInverse (DualXLU.Dd e) dp perm B H W dxs).1.getD k (0, 0)).1 =
                      (NF.LF.convInverse (DualXLU.Rr e) (DualXLU.lineP 0 dp) perm B H W (DualXLU.lineV 0 dxs)).1.getD k 0 ∧
                    HasDerivAt
                      (fun (s : ℝ) =>
                        (NF.LF.convInverse (DualXLU.Rr e) (DualXLU.lineP s dp) perm B H W (DualXLU.lineV s dxs)).1.getD k 0)
                      ((NF.LF.convInverse (DualXLU.Dd e) dp perm B H W dxs).1.getD k (0, 0)).2 0) ∧
                ∀ (k : ℕ),
                  ((NF.LF.convInverse (DualXLU.Dd e) dp perm B H W dxs).2.getD k (0, 0)).1 =
                      (NF.LF.convInverse (DualXLU.Rr e) (DualXLU.lineP 0 dp) perm B H W (DualXLU.lineV 0 dxs)).2.getD k 0 ∧
                    HasDerivAt
                      (fun (s : ℝ) =>
                        (NF.LF.convInverse (DualXLU.Rr e) (DualXLU.lineP s dp) perm B H W (DualXLU.lineV s dxs)).2.getD k 0)
                      ((NF.LF.convInverse (DualXLU.Dd e) dp perm B H W dxs).2.getD k (0, 0)).2 0 :=
  @DualXOrth.conv_inverse_dual_sound

theorem lu_weight_dual_sound :
    ∀ (e : Float → ℝ) (dp : NF.LF.LUParams (ℝ × ℝ)),
      (∀ d ∈ dp.udiag, d.1 ≠ 20) →
        (∀ (s : ℝ),
            List.map List.length (NF.LF.luWeight (DualXLU.Rr e) (DualXLU.lineP s dp)) =
              List.map List.length (NF.LF.luWeight (DualXLU.Dd e) dp)) ∧
          ∀ (r c : ℕ),
            (((NF.LF.luWeight (DualXLU.Dd e) dp).getD r []).getD c (0, 0)).1 =
                ((NF.LF.luWeight (DualXLU.Rr e) (DualXLU.lineP 0 dp)).getD r []).getD c 0 ∧
              HasDerivAt (fun (s : ℝ) => ((NF.LF.luWeight (DualXLU.Rr e) (DualXLU.lineP s dp)).getD r []).getD c 0)
                (((NF.LF.luWeight (DualXLU.Dd e) dp).getD r []).getD c (0, 0)).2 0 :=
  @DualXOrth.lu_weight_dual_sound

theorem lu_weight_inverse_dual_sound :
    ∀ (e : Float → ℝ) (dp : NF.LF.LUParams (ℝ × ℝ)),
      (∀ d ∈ dp.udiag, d.1 ≠ 20) →
        0 ≤ dp.eps.1 →
          dp.n ≤ dp.udiag.length →
            (∀ (s : ℝ),
                List.map List.length (NF.LF.luWeightInverse (DualXLU.Rr e) (DualXLU.lineP s dp)) =
                  List.map List.length (NF.LF.luWeightInverse (DualXLU.Dd e) dp)) ∧
              ∀ (r c : ℕ),
                (((NF.LF.luWeightInverse (DualXLU.Dd e) dp).getD r []).getD c (0, 0)).1 =
                    ((NF.LF.luWeightInverse (DualXLU.Rr e) (DualXLU.lineP 0 dp)).getD r []).getD c 0 ∧
                  HasDerivAt
                    (fun (s : ℝ) => ((NF.LF.luWeightInverse (DualXLU.Rr e) (DualXLU.lineP s dp)).getD r []).getD c 0)
                    (((NF.LF.luWeightInverse (DualXLU.Dd e) dp).getD r []).getD c (0, 0)).2 0 :=
  @DualXOrth.lu_weight_inverse_dual_sound

end Properties.C16
