import NflowsModel.Properties.C20
import NflowsModel.Lemmas.DetL
import NflowsModel.Lemmas.SplitInfer
/-!
# C20 (continued) — the executed determinant for every size, and the complete `split_leading_dim` contract

* `Properties.C20.detL_small` covered `n ≤ 3`; here the executed Laplace expansion `detL` (what the driver op
  `c20.logabsdet` evaluates, exactly, on integer matrices) is `Matrix.det` for EVERY `n`, with no well-shapedness
  hypothesis (missing entries read as zeros), and `log |detL|` is `logabsdetR` of the denoted real matrix — so
  `logabsdet_spec` applies to it verbatim.
* `split_merge_id_infer_partial` needed `0 < prod(shape[1:])`; here the `-1` inference is characterised completely
  (`Accepts`: exactly when `split_leading_dim` returns, every failure a RuntimeError) and the round trip is stated
  without that hypothesis: merging always succeeds and gives `x` back iff the trailing block is non-empty or the explicit
  split multiplies to `shape[0]` (torch accepts ANY reshape between 0-element shapes; `empty_witness`).
-/
namespace Properties.C20
open NF NF.TU NF.DetL NF.SplitInfer

/-- the executed integer determinant is `Matrix.det`, every size -/
theorem detL_is_det (n : ℕ) (M : Matrix (Fin n) (Fin n) ℤ) :
    detL n (List.ofFn fun i => List.ofFn fun j => M i j) = M.det := detL_eq_det n M

/-- … for any list of rows (short rows / missing rows read as zeros) -/
theorem detL_is_det_of_rows (n : ℕ) (m : List (List ℤ)) :
    detL n m = Matrix.det (Matrix.of fun i j : Fin n => (m.getD i []).getD j 0) := detL_eq_det_of n m

/-- what the driver op returns on the row-major request data `d` of an `n × n` matrix -/
theorem detL_of_request (n : ℕ) (d : List ℤ) (hd : d.length = n * n) :
    detL n (chunk20 n d) = Matrix.det (Matrix.of fun i j : Fin n => d.getD (i * n + j) 0) := detL_chunk20 n d hd

/-- `logabsdet` on the executed determinant, every size: `exp (log |detL|) = |det|` of the denoted real matrix, and the
    sign of the matrix is invisible (non-singular input; `Float.log 0 = -inf` while `Real.log 0 = 0`) -/
theorem logabsdet_executed (n : ℕ) (m : List (List ℤ)) (h : detL n m ≠ 0) :
    Real.exp (logabsdetL n m) = |((detL n m : ℤ) : ℝ)| ∧ Real.exp (logabsdetL n m) = |(toMatR n m).det| ∧
    Real.exp (Real.log |((detL n m : ℤ) : ℝ)|) = |(toMatR n m).det| ∧
    logabsdetR (-(toMatR n m)) = logabsdetL n m := logabsdetL_spec n m h

theorem logabsdet_executed_eq (n : ℕ) (m : List (List ℤ)) : logabsdetL n m = logabsdetR (toMatR n m) :=
  logabsdetL_eq n m

/-- the algebra transfers: multiplicative, transpose-invariant, product of the diagonal on triangular matrices -/
theorem detL_algebra {n : ℕ} (A B : Matrix (Fin n) (Fin n) ℤ) :
    detL n (ofMat (A * B)) = detL n (ofMat A) * detL n (ofMat B) ∧
    detL n (transposeRows (ofMat A) n) = detL n (ofMat A) ∧
    ((∀ i j, j < i → A i j = 0) → detL n (ofMat A) = ∏ i, A i i) :=
  ⟨detL_ofMat_mul A B, detL_transpose (ofMat_wellShaped A), detL_upperTriangular A⟩

variable {α : Type}

/-- `split_leading_dim(x, sh)` returns exactly on `Accepts`, and every failure is a RuntimeError -/
theorem split_returns_iff (x : T α) (s0 : ℕ) (tail : List ℕ) (sh : List Int) (hx : x.shape = s0 :: tail) :
    ((∃ y, splitLeading x sh = .ok y) ↔ Accepts s0 tail sh) ∧
    (splitLeading x sh = .error .runtime ↔ ¬ Accepts s0 tail sh) :=
  ⟨splitLeading_ok_iff x s0 tail sh hx, splitLeading_error_iff x s0 tail sh hx⟩

/-- FULL form of `split_merge_id_infer_partial` (no `0 < prod(shape[1:])`): data kept, shape `s ++ shape[1:]`, merge always
    succeeds, and returns `x` itself iff the trailing block is non-empty or the explicit entries multiply to `shape[0]` -/
theorem split_merge_id_infer (x y : T α) (s0 : ℕ) (tail : List ℕ) (sh : List Int) (hx : x.shape = s0 :: tail)
    (hsh : sh ≠ []) (h : splitLeading x sh = .ok y) :
    y.data = x.data ∧
    (∃ s : List ℕ, s.length = sh.length ∧ y.shape = s ++ tail ∧ prodL s * prodL tail = s0 * prodL tail ∧
      mergeLeading y (.int sh.length) = .ok ⟨prodL s :: tail, x.data⟩ ∧
      (mergeLeading y (.int sh.length) = .ok x ↔ prodL s = s0)) ∧
    (mergeLeading y (.int sh.length) = .ok x ↔ (0 < prodL tail ∨ explProd sh = s0)) :=
  NF.SplitInfer.split_merge_id_infer x y s0 tail sh hx hsh h

/-- the 0-element corner, evaluated: `-1` raises, a wrong explicit split is accepted and does not merge back -/
theorem split_empty_witness :
    splitLeading (⟨[6, 0], []⟩ : T Int) [-1, 3] = .error .runtime ∧
    splitLeading (⟨[6, 0], []⟩ : T Int) [2, 2] = .ok ⟨[2, 2, 0], []⟩ ∧
    mergeLeading (⟨[2, 2, 0], []⟩ : T Int) (.int 2) = .ok ⟨[4, 0], []⟩ ∧
    splitLeading (⟨[6, 0], []⟩ : T Int) [2, 3] = .ok ⟨[2, 3, 0], []⟩ ∧
    mergeLeading (⟨[2, 3, 0], []⟩ : T Int) (.int 2) = .ok ⟨[6, 0], []⟩ ∧
    splitLeading (⟨[6, 2], [1, 2, 3, 4, 5, 6, 7, 8, 9, 10, 11, 12]⟩ : T Int) [-1, 3] =
      .ok ⟨[2, 3, 2], [1, 2, 3, 4, 5, 6, 7, 8, 9, 10, 11, 12]⟩ := empty_witness

example : detL 5 [[2, 0, 1, 3, 1], [1, 1, 0, 0, -2], [0, 5, 1, 2, 0], [7, 0, 0, 2, 1], [1, -1, 3, 0, 4]] = 547 := by
  decide +kernel

end Properties.C20
