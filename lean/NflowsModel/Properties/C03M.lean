import NflowsModel.Properties.C03
import NflowsModel.Lemmas.FlowMore
/-!
# C03 (continued) — Sigmoid / Logit stages, a MADEMoG (or any normalised) base, an embedding network

Closes the three exclusions at the end of the `Properties/C03.lean` header (`Lemmas/FlowMore.lean`).
(1) A flow `x ↦ σ(T x)` from ℝ onto `(0,1)` (`T > 0`) followed by ANY base with `∫_{(0,1)} exp blp = 1` is normalised over ℝ, with the
executed `BoxUniform(0,1)` as instance; the Logit stage from `(0,1)` onto ℝ followed by any base normalised on ℝ is normalised over
`(0,1)`; coordinate-wise in n-D, and Logit followed by any `progN` program.  These are for the EXACT log-det: the executed Sigmoid
log-det uses the thresholded softplus and exceeds the exact one by `log(1+e^{-|Tx|}) ≤ e⁻²⁰` beyond `|Tx| = 20`, so the executed
density integrates to a value in `[1, exp(e⁻²⁰)]` (`sigmoid_executed_flow_almost_normalised`) and is exact on `{|Tx| ≤ 20}` — a
declared approximation of the library, not a defect; the executed Logit equals the exact one strictly inside its clamp.
(2) `flow_normalised_any_base`: for a differentiable bijection of ℝⁿ with `|det| = exp ld` and ANY base with `∫ exp blp = 1`; the
MADE mixture of Gaussians — the executed `Density.mogRow` on a flat MADE output row — is an instance.
(3) For EVERY function `emb`, the flow with an embedding network at raw context `c` IS the flow without one at context `emb c`
(unfolding of the executed `Core/FlowPairing` definitions and of `flowLogProbExec`, errors included), hence normalised for every `c`
whenever the embedding-free flow is normalised for every embedded value.
-/
set_option linter.all false
namespace Properties.C03

theorem sigmoid_flow_normalised :
    ∀ {T : ℝ},
      0 < T →
        ∀ (blp : ℝ → ℝ),
          ∫ (z : ℝ) in Set.Ioo 0 1, Real.exp (blp z) = 1 →
            ∫ (x : ℝ), Real.exp (blp (NonlinExec.gate (T * x)) + NonlinExec.sigLdIdeal T (T * x)) = 1 :=
  @FlowMore.sigmoid_flow_normalised

theorem sigmoid_uniform_flow_normalised :
    ∀ (e : Float → ℝ) {T : ℝ},
      0 < T →
        (∫ (x : ℝ),
            if NF.Density.insideBox (NF.realX e) [0] [1] [NonlinExec.gate (T * x)] = Bool.true then
              Real.exp
                (NF.Density.boxUniformRow (NF.realX e) [0] [1] [NonlinExec.gate (T * x)] + NonlinExec.sigLdIdeal T (T * x))
            else 0) =
          1 :=
  @FlowMore.sigmoid_uniform_flow_normalised

theorem sigmoid_executed_flow_almost_normalised :
    ∀ (e : Float → ℝ) {T : ℝ},
      0 < T →
        ∀ (eps : Float) (blp : ℝ → ℝ),
          ∫ (z : ℝ) in Set.Ioo 0 1, Real.exp (blp z) = 1 →
            1 ≤ ∫ (x : ℝ), Real.exp (FlowMore.sigmoidExecLogProb e T eps blp x) ∧
              ∫ (x : ℝ), Real.exp (FlowMore.sigmoidExecLogProb e T eps blp x) ≤ Real.exp (Real.exp (-20)) :=
  @FlowMore.sigmoid_executed_flow_almost_normalised

theorem sigmoid_executed_exact_region :
    ∀ (e : Float → ℝ) {T : ℝ},
      0 < T →
        ∀ (eps : Float) (blp : ℝ → ℝ),
          ∫ (x : ℝ) in {x : ℝ | |T * x| ≤ 20}, Real.exp (FlowMore.sigmoidExecLogProb e T eps blp x) =
            ∫ (z : ℝ) in Set.Icc (NonlinExec.gate (-20)) (NonlinExec.gate 20), Real.exp (blp z) :=
  @FlowMore.sigmoid_executed_exact_region

theorem logit_flow_normalised :
    ∀ {T : ℝ},
      0 < T →
        ∀ (blp : ℝ → ℝ),
          ∫ (z : ℝ), Real.exp (blp z) = 1 →
            ∫ (y : ℝ) in Set.Ioo 0 1, Real.exp (blp (1 / T * NonlinExec.logit y) + FlowMore.logitLd T y) = 1 :=
  @FlowMore.logit_flow_normalised

theorem logit_executed_eq :
    ∀ {e : Float → ℝ} {T : ℝ} {eps : Float} {y : ℝ},
      NonlinExec.SigmoidClamp e eps →
        T ≠ 0 →
          e eps ≤ y →
            y ≤ e (1 - eps) →
              |NonlinExec.logit y| ≤ 20 →
                NF.sigmoidT (NF.realX e) T eps Bool.true y = Except.ok (1 / T * NonlinExec.logit y, FlowMore.logitLd T y) :=
  @FlowMore.logit_executed_eq

theorem logit_stdNormal_flow_normalised :
    ∀ (e : Float → ℝ) {T : ℝ},
      0 < T →
        ∫ (y : ℝ) in Set.Ioo 0 1,
            Real.exp (NF.Density.stdNormalRow (NF.realX e) 1 [1 / T * NonlinExec.logit y] + FlowMore.logitLd T y) =
          1 :=
  @FlowMore.logit_stdNormal_flow_normalised

theorem sigmoid_flow_normalised_nd :
    ∀ {n : ℕ} (T : Fin n → ℝ),
      (∀ (i : Fin n), 0 < T i) →
        ∀ (blp : (Fin n → ℝ) → ℝ),
          ∫ (z : Fin n → ℝ) in Set.univ.pi fun (x : Fin n) => Set.Ioo 0 1, Real.exp (blp z) = 1 →
            ∫ (x : Fin n → ℝ),
                Real.exp
                  ((blp fun (i : Fin n) => NonlinExec.gate (T i * x i)) +
                    ∑ i : Fin n, NonlinExec.sigLdIdeal (T i) (T i * x i)) =
              1 :=
  @FlowMore.sigmoid_flow_normalised_nd

theorem logit_flow_normalised_nd :
    ∀ {n : ℕ} (T : Fin n → ℝ),
      (∀ (i : Fin n), 0 < T i) →
        ∀ (blp : (Fin n → ℝ) → ℝ),
          ∫ (z : Fin n → ℝ), Real.exp (blp z) = 1 →
            ∫ (y : Fin n → ℝ) in Set.univ.pi fun (x : Fin n) => Set.Ioo 0 1,
                Real.exp
                  ((blp fun (i : Fin n) => 1 / T i * NonlinExec.logit (y i)) + ∑ i : Fin n, FlowMore.logitLd (T i) (y i)) =
              1 :=
  @FlowMore.logit_flow_normalised_nd

theorem logit_then_prog_flow_normalised :
    ∀ {n : ℕ} (T : Fin n → ℝ),
      (∀ (i : Fin n), 0 < T i) →
        ∀ (parts : List (Properties.C03.DiffeoN n)) (blp : (Fin n → ℝ) → ℝ),
          ∫ (z : Fin n → ℝ), Real.exp (blp z) = 1 →
            ∫ (y : Fin n → ℝ) in Set.univ.pi fun (x : Fin n) => Set.Ioo 0 1,
                Real.exp
                  (blp ((Properties.C03.progN parts).T fun (i : Fin n) => 1 / T i * NonlinExec.logit (y i)) +
                    (∑ i : Fin n, FlowMore.logitLd (T i) (y i) +
                      (Properties.C03.progN parts).ld fun (i : Fin n) => 1 / T i * NonlinExec.logit (y i))) =
              1 :=
  @FlowMore.logit_then_prog_flow_normalised

theorem flow_normalised_any_base :
    ∀ {n : ℕ} (f : NF.FlowPairing.FlowFns0 (Fin n → ℝ) (Fin n → ℝ) ℝ)
      (T' : (Fin n → ℝ) → (Fin n → ℝ) →L[ℝ] Fin n → ℝ),
      FlowMore.DiffeoFlow f T' →
        ∫ (z : Fin n → ℝ), Real.exp (f.blp z) = 1 → ∫ (x : Fin n → ℝ), Real.exp (NF.FlowPairing.flowLogProb0 f x) = 1 :=
  @FlowMore.flow_normalised_any_base

theorem flow_normalised_any_base_prog :
    ∀ {n : ℕ} (parts : List (Properties.C03.DiffeoN n)) (blp : (Fin n → ℝ) → ℝ),
      ∫ (z : Fin n → ℝ), Real.exp (blp z) = 1 →
        ∫ (x : Fin n → ℝ), Real.exp (NF.FlowPairing.flowLogProb0 (FlowMore.progFlow parts blp) x) = 1 :=
  @FlowMore.flow_normalised_any_base_prog

theorem mogRow_eq_mogLogp :
    ∀ (e : Float → ℝ) (eps : ℝ) {M D : ℕ} (lg μ u : (i : ℕ) → (Fin i → ℝ) → Fin M → ℝ)
      (x : Fin D → ℝ) (out : List ℝ),
      (∀ (i : Fin D), NF.Density.mogColumn M out (↑i : ℕ) 0 0 = List.ofFn (lg (↑i : ℕ) (AutoregDensity.pre x i))) →
        (∀ (i : Fin D), NF.Density.mogColumn M out (↑i : ℕ) 1 0 = List.ofFn (μ (↑i : ℕ) (AutoregDensity.pre x i))) →
          (∀ (i : Fin D), NF.Density.mogColumn M out (↑i : ℕ) 2 0 = List.ofFn (u (↑i : ℕ) (AutoregDensity.pre x i))) →
            NF.Density.mogRow (NF.realX e) eps D M out (List.ofFn x) = FlowMore.mogLogp e eps lg μ u x :=
  @FlowMore.mogRow_eq_mogLogp

theorem mog_base_normalised :
    ∀ (e : Float → ℝ) {M : ℕ},
      0 < M →
        ∀ (eps : ℝ),
          0 < eps →
            ∀ (lg μ u : (i : ℕ) → (Fin i → ℝ) → Fin M → ℝ),
              (∀ (i : ℕ) (k : Fin M), Measurable fun (y : Fin i → ℝ) => lg i y k) →
                (∀ (i : ℕ) (k : Fin M), Measurable fun (y : Fin i → ℝ) => μ i y k) →
                  (∀ (i : ℕ) (k : Fin M), Measurable fun (y : Fin i → ℝ) => u i y k) →
                    ∀ (D : ℕ), ∫ (x : Fin D → ℝ), Real.exp (FlowMore.mogLogp e eps lg μ u x) = 1 :=
  @FlowMore.mog_base_normalised

theorem flow_normalised_mog_base :
    ∀ (e : Float → ℝ) {M : ℕ},
      0 < M →
        ∀ (eps : ℝ),
          0 < eps →
            ∀ (lg μ u : (i : ℕ) → (Fin i → ℝ) → Fin M → ℝ),
              (∀ (i : ℕ) (k : Fin M), Measurable fun (y : Fin i → ℝ) => lg i y k) →
                (∀ (i : ℕ) (k : Fin M), Measurable fun (y : Fin i → ℝ) => μ i y k) →
                  (∀ (i : ℕ) (k : Fin M), Measurable fun (y : Fin i → ℝ) => u i y k) →
                    ∀ {D : ℕ} (parts : List (Properties.C03.DiffeoN D)),
                      ∫ (x : Fin D → ℝ),
                          Real.exp
                            (NF.FlowPairing.flowLogProb0 (FlowMore.progFlow parts (FlowMore.mogLogp e eps lg μ u)) x) =
                        1 :=
  @FlowMore.flow_normalised_mog_base

theorem flow_normalised_mogRow_base :
    ∀ (e : Float → ℝ) {M : ℕ},
      0 < M →
        ∀ (eps : ℝ),
          0 < eps →
            ∀ (lg μ u : (i : ℕ) → (Fin i → ℝ) → Fin M → ℝ),
              (∀ (i : ℕ) (k : Fin M), Measurable fun (y : Fin i → ℝ) => lg i y k) →
                (∀ (i : ℕ) (k : Fin M), Measurable fun (y : Fin i → ℝ) => μ i y k) →
                  (∀ (i : ℕ) (k : Fin M), Measurable fun (y : Fin i → ℝ) => u i y k) →
                    ∀ {D : ℕ} (made : (Fin D → ℝ) → List ℝ),
                      (∀ (z : Fin D → ℝ) (i : Fin D),
                          NF.Density.mogColumn M (made z) (↑i : ℕ) 0 0 = List.ofFn (lg (↑i : ℕ) (AutoregDensity.pre z i)) ∧
                            NF.Density.mogColumn M (made z) (↑i : ℕ) 1 0 = List.ofFn (μ (↑i : ℕ) (AutoregDensity.pre z i)) ∧
                              NF.Density.mogColumn M (made z) (↑i : ℕ) 2 0 =
                                List.ofFn (u (↑i : ℕ) (AutoregDensity.pre z i))) →
                        ∀ (parts : List (Properties.C03.DiffeoN D)),
                          ∫ (x : Fin D → ℝ),
                              Real.exp
                                (NF.Density.mogRow (NF.realX e) eps D M (made ((Properties.C03.progN parts).T x))
                                    (List.ofFn ((Properties.C03.progN parts).T x)) +
                                  (Properties.C03.progN parts).ld x) =
                            1 :=
  @FlowMore.flow_normalised_mogRow_base

theorem flowLogProb_withEmb :
    ∀ {Z X C E V : Type} (g : NF.FlowPairing.FlowFns Z X E E V) (emb : C → E) (xs : List X)
      (ctx : List C),
      NF.FlowPairing.flowLogProb (FlowMore.withEmb g emb) xs ctx = NF.FlowPairing.flowLogProb g xs (List.map emb ctx) :=
  @FlowMore.flowLogProb_withEmb

theorem flowSalp_withEmb :
    ∀ {Z X C E V : Type} (g : NF.FlowPairing.FlowFns Z X E E V) (emb : C → E) (ctx : List C)
      (n : ℕ) (N : List (List Z)),
      NF.FlowPairing.flowSalp (FlowMore.withEmb g emb) ctx n N = NF.FlowPairing.flowSalp g (List.map emb ctx) n N :=
  @FlowMore.flowSalp_withEmb

theorem flowLogProbExec_embedding :
    ∀ {α : Type} (o : XOps α) (w : ℕ) (emb : ℕ → Array α → Array α)
      (T : NF.FlowRowsExec.BStage α) (base : NF.FlowRowsExec.BaseD α) (B : ℕ) (x ctx : Array α),
      NF.FlowRowsExec.flowLogProbExec o w emb T base B x ctx =
        NF.FlowRowsExec.flowLogProbExec o w (fun (x : ℕ) (a : Array α) => a) T base B x (emb B ctx) :=
  @FlowMore.flowLogProbExec_embedding

theorem flow_with_embedding_normalised :
    ∀ {X : Type} [inst : MeasureTheory.MeasureSpace X] {Z C E : Type}
      (g : NF.FlowPairing.FlowFns Z X E E ℝ) (emb : C → E) (S : E → Set X),
      (∀ (e : E), ∫ (x : X) in S e, Real.exp (NF.FlowPairing.flowLogProb1 g x e) = 1) →
        ∀ (c : C), ∫ (x : X) in S (emb c), Real.exp (NF.FlowPairing.flowLogProb1 (FlowMore.withEmb g emb) x c) = 1 :=
  @FlowMore.flow_with_embedding_normalised

theorem flow_with_embedding_normalised_nd :
    ∀ {n : ℕ} {C E : Type}
      (g : NF.FlowPairing.FlowFns (Fin n → ℝ) (Fin n → ℝ) E E ℝ),
      (∀ (e : E), g.emb e = e) →
        ∀ (T' : E → (Fin n → ℝ) → (Fin n → ℝ) →L[ℝ] Fin n → ℝ),
          (∀ (e : E), FlowMore.CondDiffeoFlow g e (T' e)) →
            ∀ (emb : C → E) (c : C),
              ∫ (x : Fin n → ℝ), Real.exp (NF.FlowPairing.flowLogProb1 (FlowMore.withEmb g emb) x c) = 1 :=
  @FlowMore.flow_with_embedding_normalised_nd

end Properties.C03
