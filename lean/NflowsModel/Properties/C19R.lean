import NflowsModel.Properties.C19
import NflowsModel.Lemmas.RoundCompose
import NflowsModel.Lemmas.RoundFlow
import NflowsModel.Lemmas.RoundNearest
/-!
# C19 (continued) — the numeric clause in the standard model of floating-point arithmetic

`Properties/C19.lean` carries the dtype clause.  This file adds what a theorem can carry of the numeric clause
("float32 agrees with float64 to single-precision accuracy **scaled by conditioning**"): the EXECUTED model programs
are run at `RoundModel.rndX r e` — the real instance `NF.realX e` with every arithmetic / transcendental primitive
followed by a rounding `r` with `|r x - x| ≤ u |x|` (Higham's standard model, unit roundoff `u`, any rounding direction,
no overflow / underflow) — and compared with the exact run and with a run in a second precision.

The model is NOT vacuous and not informal: `RoundNearest.fl p` is round-to-nearest, ties-to-even, to `p` significant bits with an
unbounded exponent range, `round_to_nearest_even_is_standard_model` proves `Rnd 2^-p (fl p)` for every real, and
`ieee_round_to_nearest_is_fl` shows that ANY function meeting IEEE-754's specification of `roundTiesToEven` (a finite number of
the format, nearest, even significand at a tie) coincides with `fl 24` / `fl 53` on the normal range of binary32 / binary64.
TRUSTED, not proved (Lean's `Float` / `Float32` are opaque to the kernel): (1) each primitive of the driver at `float32X` / `floatX`
returns `roundTiesToEven` of the exact real result (libm transcendentals are accurate to a few ulp: a `Rnd (k·u)`), (2) no
intermediate result leaves the normal range (no overflow, no subnormal result) — under (1) and (2) the driver's run is the run at
`rndX (fl 24) e` / `rndX (fl 53) e` on the values it meets.  Overflow, NaN and the "stays finite" half of C19 are outside this
model and stay with the executed correspondence.  Programs with data-dependent branches on rounded non-zero constants
(spline bin search, Sigmoid/Tanh domain checks) are NOT analysed here.
-/
namespace Properties.C19
open NF RoundModel

variable {u32 u64 : ℝ} {r32 r64 : ℝ → ℝ} (e : Float → ℝ)

/-- executed inner product (the fold of `Core/LinearFamily.dot`, first addition to zero included) in two precisions:
    the difference is bounded by the two rounding budgets times `Σ |x_i| |w_i|` — the conditioning scale of the
    property, NOT `|Σ x_i w_i|` -/
theorem dot_two_precisions (h32 : Rnd u32 r32) (h64 : Rnd u64 r64) (xs ws : List ℝ) :
    |LF.dot (rndOps r32) xs ws - LF.dot (rndOps r64) xs ws|
      ≤ (((1 + u32) ^ (min xs.length ws.length + 1) - 1) + ((1 + u64) ^ (min xs.length ws.length + 1) - 1))
          * absDot xs ws :=
  f32_f64_agree_dot h32 h64 xs ws

/-- the same bound in Higham's `γ_n = n u / (1 - n u)` form -/
theorem dot_two_precisions_gamma (h32 : Rnd u32 r32) (h64 : Rnd u64 r64) (xs ws : List ℝ) (n : ℕ)
    (hn : n = min xs.length ws.length + 1) (h1 : n * u32 < 1) (h2 : n * u64 < 1) :
    |LF.dot (rndOps r32) xs ws - LF.dot (rndOps r64) xs ws|
      ≤ (n * u32 / (1 - n * u32) + n * u64 / (1 - n * u64)) * absDot xs ws :=
  f32_f64_agree_dot_gamma h32 h64 xs ws n hn h1 h2

/-- one entry of the executed `F.linear(X, W, b)` (row `k` of the batch, output feature `i`) in two precisions -/
theorem linear_two_precisions (h32 : Rnd u32 r32) (h64 : Rnd u64 r64)
    (W : List (List ℝ)) (b : List ℝ) (X : List (List ℝ)) (k i : ℕ) (hk : k < X.length) (hi : i < W.length)
    (hb : i < b.length) :
    |((LF.linear (rndOps r32) W b X)[k]'(by simpa [LF.linear] using hk))[i]'(by
          simp [LF.linear, LF.addV, LF.matVec]; omega)
        - ((LF.linear (rndOps r64) W b X)[k]'(by simpa [LF.linear] using hk))[i]'(by
          simp [LF.linear, LF.addV, LF.matVec]; omega)|
      ≤ (((1 + u32) ^ (min (W[i]).length (X[k]).length + 2) - 1)
          + ((1 + u64) ^ (min (W[i]).length (X[k]).length + 2) - 1)) * absDot W[i] X[k]
        + (u32 + u64) * |b[i]| :=
  f32_f64_agree_linear h32 h64 W b X k i hk hi hb

/-- the executed point-wise affine element, forward, in two precisions: output and log-abs-det -/
theorem affine_two_precisions (h32 : Rnd u32 r32) (h64 : Rnd u64 r64) (s t x : ℝ) {y l y' l' : ℝ}
    (hc : affineT (rndX r32 e) s t false x = .ok (y, l)) (he : affineT (rndX r64 e) s t false x = .ok (y', l')) :
    |y - y'| ≤ ((2 * u32 + u32 ^ 2) + (2 * u64 + u64 ^ 2)) * |x * s| + (u32 + u64) * |t| ∧
    |l - l'| ≤ (u32 + u64) * |Real.log (|s|)| :=
  f32_f64_agree_affine e h32 h64 s t x hc he

/-- … and its inverse -/
theorem affine_inverse_two_precisions (h32 : Rnd u32 r32) (h64 : Rnd u64 r64) (s t x : ℝ) {y l y' l' : ℝ}
    (hc : affineT (rndX r32 e) s t true x = .ok (y, l)) (he : affineT (rndX r64 e) s t true x = .ok (y', l')) :
    |y - y'| ≤ ((2 * u32 + u32 ^ 2) + (2 * u64 + u64 ^ 2)) * |(x - t) / s| ∧
    |l - l'| ≤ (u32 + u64) * |Real.log (|s|)| :=
  f32_f64_agree_affine_inv e h32 h64 s t x hc he

/-- a chain of `n` executed affine elements (a composite of point-wise affine layers) in two precisions: the explicit
    error recursion `errB` (each stage's own rounding error plus the Lipschitz constant `|s|` times the error so far) -/
theorem affine_chain_two_precisions (h32 : Rnd u32 r32) (h64 : Rnd u64 r64) (ps : List (ℝ × ℝ)) (x : ℝ) {y y' : ℝ}
    (hc : chainT (ps.map fun p => affineT (rndX r32 e) p.1 p.2 false) x = .ok y)
    (he : chainT (ps.map fun p => affineT (rndX r64 e) p.1 p.2 false) x = .ok y') :
    |y - y'| ≤ errB (ps.map (affStage u32 r32)) x 0 + errB (ps.map (affStage u64 r64)) x 0 :=
  f32_f64_agree_chain e h32 h64 ps x hc he

/-- composition in general: computed stages within `eps_k` of exact `L_k`-Lipschitz stages — the composite is within the
    recursion `errB`, and within `E (1 + Λ + … + Λ^(n-1))` under uniform bounds -/
theorem composite_error {X : Type} [PseudoMetricSpace X] (ss : List (Stage X)) (hok : ∀ s ∈ ss, s.OK) (E Λ : ℝ)
    (hE : ∀ s ∈ ss, ∀ x, s.eps x ≤ E) (hΛ : ∀ s ∈ ss, s.L ≤ Λ) (x : X) :
    dist (runC ss x) (runE ss x) ≤ errB ss x 0 ∧
    dist (runC ss x) (runE ss x) ≤ E * (∑ k ∈ Finset.range ss.length, Λ ^ k) :=
  ⟨compose_err₀ ss hok x, compose_err_uniform ss hok E Λ hE hΛ x⟩

/-- the executed log-det sum of the LU / SVD families (`Σ log d_i`) against the exact sum -/
theorem sum_log_error {u : ℝ} {r : ℝ → ℝ} (h : Rnd u r) (d : List ℝ) :
    |LF.sumLog (rndOps r) d - LF.sumLog DualSound.realOps d| ≤ ((1 + u) ^ (d.length + 1) - 1) * absSum (d.map Real.log) :=
  sumLog_err h d

/-- element-wise nonlinearities, executed: LeakyReLU takes the same branch in both runs; Exp has relative error `u` -/
theorem leaky_relu_error {u : ℝ} {r : ℝ → ℝ} (h : Rnd u r) (slope : Float) (L x : ℝ) {y l y' l' : ℝ}
    (hc : leakyReluT (rndX r e) slope L false x = .ok (y, l))
    (he : leakyReluT (NF.realX e) slope L false x = .ok (y', l')) :
    |y - y'| ≤ (if x < 0 then (2 * u + u ^ 2) * |e slope * x| else 0) ∧
    |l - l'| ≤ (if x < 0 then (2 * u + u ^ 2) * |L| else 0) :=
  leakyReluT_fwd_err e h slope L x hc he

theorem exp_error {u : ℝ} {r : ℝ → ℝ} (h : Rnd u r) (x : ℝ) {y l y' l' : ℝ}
    (hc : expT (rndX r e) false x = .ok (y, l)) (he : expT (NF.realX e) false x = .ok (y', l')) :
    |y - y'| ≤ u * Real.exp x ∧ l = l' :=
  expT_fwd_err e h x hc he

/-- exact arithmetic is the case `u = 0` of the model, and the rounded instance then IS the real instance -/
theorem exact_is_u_zero : Rnd 0 id ∧ (∀ r, Rnd 0 r → r = id) ∧ rndX id e = NF.realX e :=
  ⟨rnd_id, fun _ h => rnd_zero_eq_id h, rfl⟩

/-- non-vacuity: two different non-identity roundings at `u = 2^-24`, `2^-53`, and the bound on a concrete inner product -/
theorem two_precisions_example :
    ∃ r32 r64 : ℝ → ℝ, Rnd ((2 : ℝ) ^ (-24 : ℤ)) r32 ∧ Rnd ((2 : ℝ) ^ (-53 : ℤ)) r64 ∧ r32 1 ≠ r64 1 ∧ r32 1 ≠ 1 ∧
      |LF.dot (rndOps r32) [1, 2, 3] [4, 5, 6] - LF.dot (rndOps r64) [1, 2, 3] [4, 5, 6]|
        ≤ (((1 + (2 : ℝ) ^ (-24 : ℤ)) ^ 4 - 1) + ((1 + (2 : ℝ) ^ (-53 : ℤ)) ^ 4 - 1)) * 32 :=
  agree_example

/-! ## whole vector layers and flows (`Lemmas/RoundLayers.lean`, `Lemmas/RoundFlow.lean`)

A `Layer` is `F.linear` / the `LULinear` forward pass with given factors / a per-feature affine layer / LeakyReLU; `Layer.fwd`
builds it from the executed programs of `Core/`, `flowFwd` chains layers with Core's own composite loop (`Wrap.cascade`), the
log-abs-det being the rounded running sum.  Distances are in the sup norm of `V n = Fin n → ℝ`. -/

/-- the forward pass of `LULinear` (executed `linear ∘ linear0`, given factors) in two precisions, entry-wise: the two rounding
    budgets times the conditioning scale `Σ_j |L_ij| Σ_k |U_jk||x_k|` of the two-stage product -/
theorem lu_two_precisions (h32 : Rnd u32 r32) (h64 : Rnd u64 r64)
    (L U : List (List ℝ)) (b : List ℝ) (X : List (List ℝ)) (m : ℕ) (k i : ℕ)
    (hk : k < X.length) (hm : ∀ row ∈ U, min row.length (X[k]).length ≤ m) (hi : i < L.length) (hb : i < b.length) :
    |((LF.linear (rndOps r32) L b (LF.linear0 (rndOps r32) U X))[k]'(by simpa [LF.linear, LF.linear0] using hk))[i]'(by
          simp [LF.linear, LF.linear0, LF.addV, LF.matVec]; omega)
        - ((LF.linear (rndOps r64) L b (LF.linear0 (rndOps r64) U X))[k]'(by
            simpa [LF.linear, LF.linear0] using hk))[i]'(by
          simp [LF.linear, LF.linear0, LF.addV, LF.matVec]; omega)|
      ≤ (((1 + u32) ^ (min (L[i]).length U.length + m + 3) - 1) + ((1 + u64) ^ (min (L[i]).length U.length + m + 3) - 1))
          * wsum L[i] (U.map fun row => absDot row X[k])
        + (u32 + u64) * |b[i]| :=
  f32_f64_agree_lu h32 h64 L U b X m k i hk hm hi hb

/-- an executed flow of such layers against the exact flow: both return vectors of the right width and differ, in the sup norm,
    by at most the explicit recursion `errB` over the flow's stages (own rounding error of each stage + Lipschitz constant
    `‖W‖∞` / `|s|` / `max 1 |σ|` times the error so far) -/
theorem flow_error {n : ℕ} {u : ℝ} {r : ℝ → ℝ} (h : Rnd u r) (ls : List Layer) (hwf : ∀ l ∈ ls, l.WF n) (x : List ℝ)
    (hx : x.length = n) {y y' : List ℝ} {l l' : ℝ}
    (hc : flowFwd (rndX r e) ls x = .ok (y, l)) (he : flowFwd (NF.realX e) ls x = .ok (y', l')) :
    y.length = n ∧ y'.length = n ∧ dist (toV n y) (toV n y') ≤ errB (stagesOf n u r e ls) (toV n x) 0 :=
  flow_err e h ls hwf x hx hc he

/-- … and the same flow in two precisions -/
theorem flow_two_precisions {n : ℕ} (h32 : Rnd u32 r32) (h64 : Rnd u64 r64)
    (ls : List Layer) (hwf : ∀ l ∈ ls, l.WF n) (x : List ℝ) (hx : x.length = n) {y y' : List ℝ} {l l' : ℝ}
    (hc : flowFwd (rndX r32 e) ls x = .ok (y, l)) (he : flowFwd (rndX r64 e) ls x = .ok (y', l')) :
    dist (toV n y) (toV n y')
      ≤ errB (stagesOf n u32 r32 e ls) (toV n x) 0 + errB (stagesOf n u64 r64 e ls) (toV n x) 0 :=
  f32_f64_agree_flow e h32 h64 ls hwf x hx hc he

/-- the flow's log-abs-det (layers with constant Jacobian): the exact total is `Σ_j ℓ_j`; the executed rounded running sum is
    within the stated budget of it, and two precisions within the sum of their budgets -/
theorem flow_logdet_two_precisions {n : ℕ} (h32 : Rnd u32 r32) (h64 : Rnd u64 r64)
    (ls : List Layer) (hconst : ∀ l ∈ ls, l.Const) (hwf : ∀ l ∈ ls, l.WF n)
    (x : List ℝ) (hx : x.length = n) {y y' : List ℝ} {l l' : ℝ}
    (hc : flowFwd (rndX r32 e) ls x = .ok (y, l)) (he : flowFwd (rndX r64 e) ls x = .ok (y', l')) :
    |l - l'| ≤ (((1 + u32) ^ ls.length - 1) * (absSum (ls.map Layer.ldExact) + (ls.map (Layer.ldEps u32)).sum)
          + (ls.map (Layer.ldEps u32)).sum)
        + (((1 + u64) ^ ls.length - 1) * (absSum (ls.map Layer.ldExact) + (ls.map (Layer.ldEps u64)).sum)
          + (ls.map (Layer.ldEps u64)).sum) :=
  f32_f64_agree_flow_ld e h32 h64 ls hconst hwf x hx hc he

/-- non-vacuity with numbers: a 2×2 LU layer followed by a LeakyReLU (`|σ| ≤ 1`) on `x = [1, −2]`, run with
    `r x = x (1 + 2^-24)` and `r x = x (1 + 2^-53)`: both runs return, and the outputs differ by at most `2^-14` -/
theorem flow_two_precisions_example (slope : Float) (Ls : ℝ) (hσ : |e slope| ≤ 1) :
    ∃ y y' : List ℝ, ∃ l l' : ℝ,
      flowFwd (rndX (fun x => x * (1 + (2 : ℝ) ^ (-24 : ℤ))) e) (exFlow slope Ls) [1, -2] = .ok (y, l) ∧
      flowFwd (rndX (fun x => x * (1 + (2 : ℝ) ^ (-53 : ℤ))) e) (exFlow slope Ls) [1, -2] = .ok (y', l') ∧
      dist (toV 2 y) (toV 2 y') ≤ (2 : ℝ) ^ (-14 : ℤ) :=
  flow_example_numeric e slope Ls hσ

/-! ## the standard model is realised by round-to-nearest-even (`Lemmas/RoundNearest.lean`) -/

/-- round-to-nearest, ties-to-even, to `p` significant bits (unbounded exponent) has relative error at most `2^-p` at EVERY real,
    is idempotent, monotone, returns a `p`-bit number and IS a nearest one -/
theorem round_to_nearest_even_is_standard_model (p : ℕ) (hp : 1 ≤ p) :
    Rnd ((2 : ℝ) ^ (-(p : ℤ))) (RoundNearest.fl p) ∧ RndIdem ((2 : ℝ) ^ (-(p : ℤ))) (RoundNearest.fl p) ∧
    Monotone (RoundNearest.fl p) ∧ (∀ x, RoundNearest.fl p x ∈ RoundNearest.F p) ∧
    (∀ x, ∀ y ∈ RoundNearest.F p, |RoundNearest.fl p x - x| ≤ |y - x|) :=
  ⟨RoundNearest.fl_rnd p, RoundNearest.fl_rndIdem hp, RoundNearest.fl_mono hp, RoundNearest.fl_mem hp,
   fun x _ hy => RoundNearest.fl_nearest hp x hy⟩

/-- IEEE-754 `roundTiesToEven` on the normal range of a bounded format `(p, emin, emax)` is `fl p`: any finite number of the format
    that is nearest to `x` and has an even normalised significand at a tie equals `fl p x` -/
theorem ieee_round_to_nearest_is_fl {p : ℕ} (hp : 2 ≤ p) (emin emax : ℤ) {x : ℝ} (hx : x ∈ RoundNearest.normalRange p emin emax)
    {y : ℝ} (hy : y ∈ RoundNearest.finiteFormat p emin emax)
    (hnear : ∀ y' ∈ RoundNearest.finiteFormat p emin emax, |y - x| ≤ |y' - x|)
    (htie : RoundNearest.IsTie p x → ∃ (m : ℕ) (k : ℤ), 2 ^ (p - 1) ≤ m ∧ m < 2 ^ p ∧ Even m ∧ |y| = (m : ℝ) * 2 ^ k) :
    y = RoundNearest.fl p x :=
  RoundNearest.ieee_rne_eq_fl_normalised hp emin emax hx hy hnear htie

/-- the two-precision inner product at the genuine binary32 / binary64 roundings -/
theorem dot_binary32_binary64 (xs ws : List ℝ) :
    |LF.dot (rndOps (RoundNearest.fl 24)) xs ws - LF.dot (rndOps (RoundNearest.fl 53)) xs ws|
      ≤ (((1 + (2 : ℝ) ^ (-24 : ℤ)) ^ (min xs.length ws.length + 1) - 1)
          + ((1 + (2 : ℝ) ^ (-53 : ℤ)) ^ (min xs.length ws.length + 1) - 1)) * absDot xs ws :=
  RoundNearest.dot_fl24_fl53 xs ws

/-- … and a whole flow at them -/
theorem flow_binary32_binary64 {n : ℕ} (ls : List Layer) (hwf : ∀ l ∈ ls, l.WF n) (x : List ℝ) (hx : x.length = n)
    {y y' : List ℝ} {l l' : ℝ}
    (hc : flowFwd (rndX (RoundNearest.fl 24) e) ls x = .ok (y, l)) (he : flowFwd (rndX (RoundNearest.fl 53) e) ls x = .ok (y', l')) :
    dist (toV n y) (toV n y')
      ≤ errB (stagesOf n ((2 : ℝ) ^ (-24 : ℤ)) (RoundNearest.fl 24) e ls) (toV n x) 0
        + errB (stagesOf n ((2 : ℝ) ^ (-53 : ℤ)) (RoundNearest.fl 53) e ls) (toV n x) 0 :=
  f32_f64_agree_flow e RoundNearest.fl24_rnd RoundNearest.fl53_rnd ls hwf x hx hc he

/-- the bound `2^-p` is attained up to the factor `1 + 2^-p`: half an ulp above `1` is a tie and rounds to the even neighbour `1` -/
theorem half_ulp_tie {p : ℕ} (hp : 2 ≤ p) : RoundNearest.fl p (1 + (2 : ℝ) ^ (-(p : ℤ))) = 1 :=
  RoundNearest.fl_one_add_half_ulp hp

end Properties.C19
