import NflowsModel.Properties.C19
import NflowsModel.Lemmas.RoundCompose
/-!
# C19 (continued) — the numeric clause in the standard model of floating-point arithmetic

`Properties/C19.lean` carries the dtype clause.  This file adds what a theorem can carry of the numeric clause
("float32 agrees with float64 to single-precision accuracy **scaled by conditioning**"): the EXECUTED model programs
are run at `RoundModel.rndX r e` — the real instance `NF.realX e` with every arithmetic / transcendental primitive
followed by a rounding `r` with `|r x - x| ≤ u |x|` (Higham's standard model, unit roundoff `u`, any rounding direction,
no overflow / underflow) — and compared with the exact run and with a run in a second precision.

TRUSTED, not proved (Lean's `Float` / `Float32` are opaque to the kernel): IEEE binary32 / binary64 round-to-nearest
satisfy `Rnd` with `u = 2^-24` / `2^-53` away from overflow and underflow, so that the driver at `float32X` / `floatX`
is `rndX r32 e` / `rndX r64 e` for such roundings.  Overflow, NaN and the "stays finite" half of C19 are outside this
model and stay with the executed correspondence.  Programs with data-dependent branches on rounded non-zero constants
(spline bin search, Sigmoid/Tanh domain checks) are NOT analysed here.
-/
namespace Properties.C19
open NF RoundModel

variable {u32 u64 : ℝ} {r32 r64 : ℝ → ℝ} (e : Float → ℝ)

/-- executed inner product (the fold of `Core/LinearFamily.dot`, first addition to zero included) in two precisions:
    the difference is bounded by the two rounding budgets times `Σ |x_i| |w_i|` — the conditioning scale of the
    property, NOT `|Σ x_i w_i|` -/
theorem dot_two_precisions (h32 : Rnd u32 r32) (h64 : Rnd u64 r64) (xs ws : List ℝ) :
    |LF.dot (rndOps r32) xs ws - LF.dot (rndOps r64) xs ws|
      ≤ (((1 + u32) ^ (min xs.length ws.length + 1) - 1) + ((1 + u64) ^ (min xs.length ws.length + 1) - 1))
          * absDot xs ws :=
  f32_f64_agree_dot h32 h64 xs ws

/-- the same bound in Higham's `γ_n = n u / (1 - n u)` form -/
theorem dot_two_precisions_gamma (h32 : Rnd u32 r32) (h64 : Rnd u64 r64) (xs ws : List ℝ) (n : ℕ)
    (hn : n = min xs.length ws.length + 1) (h1 : n * u32 < 1) (h2 : n * u64 < 1) :
    |LF.dot (rndOps r32) xs ws - LF.dot (rndOps r64) xs ws|
      ≤ (n * u32 / (1 - n * u32) + n * u64 / (1 - n * u64)) * absDot xs ws :=
  f32_f64_agree_dot_gamma h32 h64 xs ws n hn h1 h2

/-- one entry of the executed `F.linear(X, W, b)` (row `k` of the batch, output feature `i`) in two precisions -/
theorem linear_two_precisions (h32 : Rnd u32 r32) (h64 : Rnd u64 r64)
    (W : List (List ℝ)) (b : List ℝ) (X : List (List ℝ)) (k i : ℕ) (hk : k < X.length) (hi : i < W.length)
    (hb : i < b.length) :
    |((LF.linear (rndOps r32) W b X)[k]'(by simpa [LF.linear] using hk))[i]'(by
          simp [LF.linear, LF.addV, LF.matVec]; omega)
        - ((LF.linear (rndOps r64) W b X)[k]'(by simpa [LF.linear] using hk))[i]'(by
          simp [LF.linear, LF.addV, LF.matVec]; omega)|
      ≤ (((1 + u32) ^ (min (W[i]).length (X[k]).length + 2) - 1)
          + ((1 + u64) ^ (min (W[i]).length (X[k]).length + 2) - 1)) * absDot W[i] X[k]
        + (u32 + u64) * |b[i]| :=
  f32_f64_agree_linear h32 h64 W b X k i hk hi hb

/-- the executed point-wise affine element, forward, in two precisions: output and log-abs-det -/
theorem affine_two_precisions (h32 : Rnd u32 r32) (h64 : Rnd u64 r64) (s t x : ℝ) {y l y' l' : ℝ}
    (hc : affineT (rndX r32 e) s t false x = .ok (y, l)) (he : affineT (rndX r64 e) s t false x = .ok (y', l')) :
    |y - y'| ≤ ((2 * u32 + u32 ^ 2) + (2 * u64 + u64 ^ 2)) * |x * s| + (u32 + u64) * |t| ∧
    |l - l'| ≤ (u32 + u64) * |Real.log (|s|)| :=
  f32_f64_agree_affine e h32 h64 s t x hc he

/-- … and its inverse -/
theorem affine_inverse_two_precisions (h32 : Rnd u32 r32) (h64 : Rnd u64 r64) (s t x : ℝ) {y l y' l' : ℝ}
    (hc : affineT (rndX r32 e) s t true x = .ok (y, l)) (he : affineT (rndX r64 e) s t true x = .ok (y', l')) :
    |y - y'| ≤ ((2 * u32 + u32 ^ 2) + (2 * u64 + u64 ^ 2)) * |(x - t) / s| ∧
    |l - l'| ≤ (u32 + u64) * |Real.log (|s|)| :=
  f32_f64_agree_affine_inv e h32 h64 s t x hc he

/-- a chain of `n` executed affine elements (a composite of point-wise affine layers) in two precisions: the explicit
    error recursion `errB` (each stage's own rounding error plus the Lipschitz constant `|s|` times the error so far) -/
theorem affine_chain_two_precisions (h32 : Rnd u32 r32) (h64 : Rnd u64 r64) (ps : List (ℝ × ℝ)) (x : ℝ) {y y' : ℝ}
    (hc : chainT (ps.map fun p => affineT (rndX r32 e) p.1 p.2 false) x = .ok y)
    (he : chainT (ps.map fun p => affineT (rndX r64 e) p.1 p.2 false) x = .ok y') :
    |y - y'| ≤ errB (ps.map (affStage u32 r32)) x 0 + errB (ps.map (affStage u64 r64)) x 0 :=
  f32_f64_agree_chain e h32 h64 ps x hc he

/-- composition in general: computed stages within `eps_k` of exact `L_k`-Lipschitz stages — the composite is within the
    recursion `errB`, and within `E (1 + Λ + … + Λ^(n-1))` under uniform bounds -/
theorem composite_error {X : Type} [PseudoMetricSpace X] (ss : List (Stage X)) (hok : ∀ s ∈ ss, s.OK) (E Λ : ℝ)
    (hE : ∀ s ∈ ss, ∀ x, s.eps x ≤ E) (hΛ : ∀ s ∈ ss, s.L ≤ Λ) (x : X) :
    dist (runC ss x) (runE ss x) ≤ errB ss x 0 ∧
    dist (runC ss x) (runE ss x) ≤ E * (∑ k ∈ Finset.range ss.length, Λ ^ k) :=
  ⟨compose_err₀ ss hok x, compose_err_uniform ss hok E Λ hE hΛ x⟩

/-- the executed log-det sum of the LU / SVD families (`Σ log d_i`) against the exact sum -/
theorem sum_log_error {u : ℝ} {r : ℝ → ℝ} (h : Rnd u r) (d : List ℝ) :
    |LF.sumLog (rndOps r) d - LF.sumLog DualSound.realOps d| ≤ ((1 + u) ^ (d.length + 1) - 1) * absSum (d.map Real.log) :=
  sumLog_err h d

/-- element-wise nonlinearities, executed: LeakyReLU takes the same branch in both runs; Exp has relative error `u` -/
theorem leaky_relu_error {u : ℝ} {r : ℝ → ℝ} (h : Rnd u r) (slope : Float) (L x : ℝ) {y l y' l' : ℝ}
    (hc : leakyReluT (rndX r e) slope L false x = .ok (y, l))
    (he : leakyReluT (NF.realX e) slope L false x = .ok (y', l')) :
    |y - y'| ≤ (if x < 0 then (2 * u + u ^ 2) * |e slope * x| else 0) ∧
    |l - l'| ≤ (if x < 0 then (2 * u + u ^ 2) * |L| else 0) :=
  leakyReluT_fwd_err e h slope L x hc he

theorem exp_error {u : ℝ} {r : ℝ → ℝ} (h : Rnd u r) (x : ℝ) {y l y' l' : ℝ}
    (hc : expT (rndX r e) false x = .ok (y, l)) (he : expT (NF.realX e) false x = .ok (y', l')) :
    |y - y'| ≤ u * Real.exp x ∧ l = l' :=
  expT_fwd_err e h x hc he

/-- exact arithmetic is the case `u = 0` of the model, and the rounded instance then IS the real instance -/
theorem exact_is_u_zero : Rnd 0 id ∧ (∀ r, Rnd 0 r → r = id) ∧ rndX id e = NF.realX e :=
  ⟨rnd_id, fun _ h => rnd_zero_eq_id h, rfl⟩

/-- non-vacuity: two different non-identity roundings at `u = 2^-24`, `2^-53`, and the bound on a concrete inner product -/
theorem two_precisions_example :
    ∃ r32 r64 : ℝ → ℝ, Rnd ((2 : ℝ) ^ (-24 : ℤ)) r32 ∧ Rnd ((2 : ℝ) ^ (-53 : ℤ)) r64 ∧ r32 1 ≠ r64 1 ∧ r32 1 ≠ 1 ∧
      |LF.dot (rndOps r32) [1, 2, 3] [4, 5, 6] - LF.dot (rndOps r64) [1, 2, 3] [4, 5, 6]|
        ≤ (((1 + (2 : ℝ) ^ (-24 : ℤ)) ^ 4 - 1) + ((1 + (2 : ℝ) ^ (-53 : ℤ)) ^ 4 - 1)) * 32 :=
  agree_example

end Properties.C19
