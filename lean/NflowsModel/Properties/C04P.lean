import NflowsModel.Properties.C04
import NflowsModel.Lemmas.FlowBounded
import NflowsModel.Lemmas.FlowPushforward
/-!
# C04 (continued) — the push-forward theorems tied to the executed flow model

`Properties/C04.lean` states the change of variables for free functions; here (answer to the external audit, proofs in
`Lemmas/FlowPushforward.lean`, `Lemmas/FlowBounded.lean`) it is stated about `FlowFns0` / `flowLogProb0` / `flowLogProb1` /
`flowSalp` of `Core/FlowPairing.lean`: the law of `tinv(noise)` with noise distributed as `exp(blp)` has density `exp(flowLogProb0)`,
with the ABSOLUTE value of the derivative (decreasing transforms included), on sets with a countable exception set (bounded supports,
kinks at knots), in `n` dimensions, per context row — and, combined with the pairing theorem, block `i` of `flowSalp` consists of
draws of the density conditioned on context row `i` with exactly their `log_prob`.  Instantiated for the EXECUTED bounded
rational-quadratic spline, whose forward / inverse programs discharge every hypothesis (`rq_flow_salp_consistent`).
-/
set_option linter.all false
namespace Properties.C04

theorem flow_samples_follow_logprob :
    ∀ (f : NF.FlowPairing.FlowFns0 ℝ ℝ ℝ),
      (∀ (a b : ℝ), f.add a b = a + b) →
        (∀ (x : ℝ), f.tinv (f.tfwd x) = x) →
          (∀ (z : ℝ), f.tfwd (f.tinv z) = z) →
            ∀ (d : ℝ → ℝ),
              (∀ (x : ℝ), HasDerivAt f.tfwd (d x) x) →
                (∀ (x : ℝ), |d x| = Real.exp (f.ld x)) →
                  ∀ (A : Set ℝ),
                    MeasurableSet A →
                      ∫ (z : ℝ) in f.tinv ⁻¹' A, Real.exp (f.blp z) =
                        ∫ (x : ℝ) in A, Real.exp (NF.FlowPairing.flowLogProb0 f x) :=
  @FlowPushforward.flow0_samples_follow_logprob

theorem flow_samples_follow_logprob_on :
    ∀ (f : NF.FlowPairing.FlowFns0 ℝ ℝ ℝ) (S V K : Set ℝ) (T' : ℝ → ℝ),
      FlowPushforward.Flow0On f S V K T' →
        ∀ (A : Set ℝ),
          MeasurableSet A →
            ∫ (z : ℝ) in f.tinv ⁻¹' A ∩ V, Real.exp (f.blp z) =
              ∫ (x : ℝ) in A ∩ S, Real.exp (NF.FlowPairing.flowLogProb0 f x) :=
  @FlowPushforward.flow0_samples_follow_logprob_on

theorem flow_samples_follow_logprob_nd :
    ∀ {m : ℕ} (f : NF.FlowPairing.FlowFns0 (Fin m → ℝ) (Fin m → ℝ) ℝ),
      (∀ (a b : ℝ), f.add a b = a + b) →
        (∀ (x : Fin m → ℝ), f.tinv (f.tfwd x) = x) →
          (∀ (z : Fin m → ℝ), f.tfwd (f.tinv z) = z) →
            ∀ (T' : (Fin m → ℝ) → (Fin m → ℝ) →L[ℝ] Fin m → ℝ),
              (∀ (x : Fin m → ℝ), HasFDerivAt f.tfwd (T' x) x) →
                (∀ (x : Fin m → ℝ), |(T' x).det| = Real.exp (f.ld x)) →
                  ∀ (A : Set (Fin m → ℝ)),
                    MeasurableSet A →
                      ∫ (z : Fin m → ℝ) in f.tinv ⁻¹' A, Real.exp (f.blp z) =
                        ∫ (x : Fin m → ℝ) in A, Real.exp (NF.FlowPairing.flowLogProb0 f x) :=
  @FlowPushforward.flow0_samples_follow_logprob_nd

theorem conditional_flow_samples_follow_logprob :
    ∀ {C E : Type} (f : NF.FlowPairing.FlowFns ℝ ℝ C E ℝ) (c : C),
      (∀ (a b : ℝ), f.add a b = a + b) →
        (∀ (x : ℝ), f.tinv (f.tfwd x (f.emb c)) (f.emb c) = x) →
          (∀ (z : ℝ), f.tfwd (f.tinv z (f.emb c)) (f.emb c) = z) →
            ∀ (d : ℝ → ℝ),
              (∀ (x : ℝ), HasDerivAt (fun (x : ℝ) => f.tfwd x (f.emb c)) (d x) x) →
                (∀ (x : ℝ), |d x| = Real.exp (f.ld x (f.emb c))) →
                  ∀ (A : Set ℝ),
                    MeasurableSet A →
                      ∫ (z : ℝ) in (fun (z : ℝ) => f.tinv z (f.emb c)) ⁻¹' A, Real.exp (f.blp z (f.emb c)) =
                        ∫ (x : ℝ) in A, Real.exp (NF.FlowPairing.flowLogProb1 f x c) :=
  @FlowPushforward.flow1_samples_follow_logprob

theorem flow_block_follows_conditional_density :
    ∀ {C E : Type} (f : NF.FlowPairing.FlowFns ℝ ℝ C E ℝ)
      (ctx : List C) (R n : ℕ) (N : List (List ℝ)),
      NF.FlowPairing.Uniform N R n →
        ctx.length = R →
          ∀ i < R,
            ∀ (c : C),
              ctx[i]? = Option.some c →
                (∀ (a b : ℝ), f.add a b = a + b) →
                  (∀ (a b : ℝ), f.sub a b = a - b) →
                    (∀ (z : ℝ), f.ldInv z (f.emb c) = -f.ld (f.tinv z (f.emb c)) (f.emb c)) →
                      (∀ (x : ℝ), f.tinv (f.tfwd x (f.emb c)) (f.emb c) = x) →
                        (∀ (z : ℝ), f.tfwd (f.tinv z (f.emb c)) (f.emb c) = z) →
                          ∀ (d : ℝ → ℝ),
                            (∀ (x : ℝ), HasDerivAt (fun (x : ℝ) => f.tfwd x (f.emb c)) (d x) x) →
                              (∀ (x : ℝ), |d x| = Real.exp (f.ld x (f.emb c))) →
                                (∀ j < n,
                                    ∃ (z : ℝ),
                                      NF.FlowPairing.get2 N i j = Option.some z ∧
                                        NF.FlowPairing.get2 (NF.FlowPairing.flowSalp f ctx n N).1 i j =
                                            Option.some (f.tinv z (f.emb c)) ∧
                                          NF.FlowPairing.get2 (NF.FlowPairing.flowSalp f ctx n N).2 i j =
                                            Option.some (NF.FlowPairing.flowLogProb1 f (f.tinv z (f.emb c)) c)) ∧
                                  ∀ (A : Set ℝ),
                                    MeasurableSet A →
                                      ∫ (z : ℝ) in (fun (z : ℝ) => f.tinv z (f.emb c)) ⁻¹' A, Real.exp (f.blp z (f.emb c)) =
                                        ∫ (x : ℝ) in A, Real.exp (NF.FlowPairing.flowLogProb1 f x c) :=
  @FlowPushforward.flow_block_follows_conditional_density

theorem decreasing_affine_example :
    ∀ (ctx : List ℝ) (R n : ℕ) (N : List (List ℝ)),
      NF.FlowPairing.Uniform N R n →
        ctx.length = R →
          ∀ i < R,
            ∀ (c : ℝ),
              ctx[i]? = Option.some c →
                (∀ j < n,
                    ∃ (z : ℝ),
                      NF.FlowPairing.get2 N i j = Option.some z ∧
                        NF.FlowPairing.get2 (NF.FlowPairing.flowSalp FlowPushforward.decAffine ctx n N).1 i j =
                            Option.some ((2 * c - z) / 3) ∧
                          NF.FlowPairing.get2 (NF.FlowPairing.flowSalp FlowPushforward.decAffine ctx n N).2 i j =
                            Option.some (NF.FlowPairing.flowLogProb1 FlowPushforward.decAffine ((2 * c - z) / 3) c)) ∧
                  ∀ (A : Set ℝ),
                    MeasurableSet A →
                      ∫ (z : ℝ) in (fun (z : ℝ) => (2 * c - z) / 3) ⁻¹' A, Real.exp (-(z - 2 * c) ^ 2 / 2) =
                        ∫ (x : ℝ) in A, Real.exp (NF.FlowPairing.flowLogProb1 FlowPushforward.decAffine x c) :=
  @FlowPushforward.decreasing_affine_example

theorem rq_flow_samples_follow_logprob :
    ∀ {e : Float → ℝ} {cfg : NF.RQCfg} {uw uh ud : List ℝ},
      RQWhole.RQValid e cfg uw uh ud →
        ∀ (blp : ℝ → ℝ) (A : Set ℝ),
          MeasurableSet A →
            ∫ (z : ℝ) in RQInverseWhole.inv e cfg uw uh ud ⁻¹' A ∩ Set.Icc (e cfg.box.bottom) (e cfg.box.top),
                Real.exp (blp z) =
              ∫ (x : ℝ) in A ∩ Set.Icc (e cfg.box.left) (e cfg.box.right),
                Real.exp (NF.FlowPairing.flowLogProb0 (FlowBounded.rqFlow e cfg uw uh ud blp) x) :=
  @FlowBounded.rq_flow_samples_follow_logprob

theorem rq_flow_salp_consistent :
    ∀ {e : Float → ℝ} {cfg : NF.RQCfg} {uw uh ud : List ℝ},
      RQWhole.RQValid e cfg uw uh ud →
        ∀ (blp : ℝ → ℝ) (N : List ℝ) (j : ℕ) (z : ℝ),
          N[j]? = Option.some z →
            e cfg.box.bottom ≤ z →
              z ≤ e cfg.box.top →
                (NF.FlowPairing.flowSalp0 (FlowBounded.rqFlow e cfg uw uh ud blp) N).1[j]? =
                    Option.some (RQInverseWhole.inv e cfg uw uh ud z) ∧
                  (NF.FlowPairing.flowSalp0 (FlowBounded.rqFlow e cfg uw uh ud blp) N).2[j]? =
                    Option.some
                      (NF.FlowPairing.flowLogProb0 (FlowBounded.rqFlow e cfg uw uh ud blp)
                        (RQInverseWhole.inv e cfg uw uh ud z)) :=
  @FlowBounded.rq_flow_salp_consistent

end Properties.C04
