import NflowsModel.Properties.C16
import NflowsModel.Lemmas.DualXFlowSpline
/-!
# C16 (continued) — rational-quadratic coupling with linear tails as a dual-sound stage

`Lemmas/DualXFlowSpline.lean`.  The element-level theorem with MOVING parameters did not exist for the tails variant and is proved here
(`rqSplineTails_dual_param_curve`: widths, heights, derivatives and the input moving along any differentiable curve; inputs in a tail
or strictly inside a bin — not on a knot, where the log-det tangent is one-sided —, no padded derivative on the softplus threshold).
`dualSound_couplingStage_rqTails`: the executed forward coupling stage with any dual-sound conditioner is sound on that admissible
set (`DualSoundStageOn`), the real stage being accepted at every `s`; `flow_rq_coupling_logprob_dual_sound`: `Flow.log_prob` of
[ActNorm, LULinear, RQ-tails coupling] with an affine conditioner, every parameter moving; `couplingAdm_example`: the set is non-empty.
-/
set_option linter.all false
namespace Properties.C16

theorem dualSoundOn_couplingStage_of_el :
    ∀ (e : Float → ℝ) {t : ℝ} (c : NF.ElCfg) (dmask : List (ℝ × ℝ))
      (S : ℕ) (Q : ℕ → ℕ → ℕ → ℕ → Array (ℝ × ℝ) → ℝ × ℝ → Prop),
      (∀ (Ft b tp sp : ℕ) (P : ℝ → Array ℝ) (dP : Array (ℝ × ℝ)) (fx : ℝ → ℝ) (dx : ℝ × ℝ),
          DualXFlow.DA t P dP →
            DualX.IsDual fx t dx →
              Q Ft b tp sp dP dx →
                DualXFlowStages.RelEl t
                  (fun (s : ℝ) => NF.couplingEl (DualXFlowStages.RX e) c Ft S (P s) Bool.false b tp sp (fx s))
                  (NF.couplingEl (DualXFlowStages.DX e) c Ft S dP Bool.false b tp sp dx)) →
        ∀ {netR : ℝ → ℕ → Array ℝ → Array ℝ → Array ℝ} {netD : ℕ → Array (ℝ × ℝ) → Array (ℝ × ℝ) → Array (ℝ × ℝ)},
          DualXFlowStages.DualSoundNet t netR netD →
            DualXFlowStages.DualSoundStageOn t (DualXFlowSpline.CouplingAdm e dmask S netD Q)
              (fun (s : ℝ) =>
                NF.FlowRowsExec.couplingStage (NF.realX e) c (List.map Prod.fst dmask) S Bool.false Option.none #[]
                  (netR s))
              (NF.FlowRowsExec.couplingStage (NF.dualX (NF.realX e)) c dmask S Bool.false Option.none #[] netD) :=
  @DualXFlowSpline.dualSoundOn_couplingStage_of_el

theorem rqSplineTails_dual_param_curve :
    ∀ {e : Float → ℝ} {t : ℝ} {tb minW minH minD beta : Float}
      {FW FH FD : ℝ → List ℝ} {FX : ℝ → ℝ} {dW dH dD : List (ℝ × ℝ)} {dx : ℝ × ℝ},
      DualXParam.IsDualL FW t dW →
        DualXParam.IsDualL FH t dH →
          DualXParam.IsDualL FD t dD →
            DualX.IsDual FX t dx →
              TailsWhole.RQTailsValid e tb minW minH minD beta (FW t) (FH t) (FD t) →
                (∀ k < (TailsWhole.udT e minD (FD t)).length, e beta * (TailsWhole.udT e minD (FD t)).getD k 0 ≠ 20) →
                  ((FX t < -e tb ∨ e tb < FX t) ∨
                      ∃ k < (FW t).length,
                        RQWhole.xs e (TailsWhole.cfgT tb minW minH minD beta) (FW t) k < FX t ∧
                          FX t < RQWhole.xs e (TailsWhole.cfgT tb minW minH minD beta) (FW t) (k + 1)) →
                    ∃ (v' : ℝ) (l' : ℝ),
                      NF.rqSplineTails (NF.dualX (NF.realX e)) tb minW minH minD beta dW dH dD Bool.false dx =
                          Except.ok
                            ((TailsWhole.valT e tb minW minH minD beta (FW t) (FH t) (FD t) (FX t), v'),
                              TailsWhole.ldT e tb minW minH minD beta (FW t) (FH t) (FD t) (FX t), l') ∧
                        HasDerivAt (fun (s : ℝ) => TailsWhole.valT e tb minW minH minD beta (FW s) (FH s) (FD s) (FX s)) v'
                            t ∧
                          HasDerivAt (fun (s : ℝ) => TailsWhole.ldT e tb minW minH minD beta (FW s) (FH s) (FD s) (FX s)) l'
                            t :=
  @DualXFlowSpline.rqSplineTails_dual_param_curve

theorem dualSound_couplingStage_rqTails :
    ∀ (e : Float → ℝ) {t : ℝ} {c : NF.ElCfg},
      NF.StructureExec.RQTailsCfgValid e c →
        ∀ (dmask : List (ℝ × ℝ)) (S : ℕ) {netR : ℝ → ℕ → Array ℝ → Array ℝ → Array ℝ}
          {netD : ℕ → Array (ℝ × ℝ) → Array (ℝ × ℝ) → Array (ℝ × ℝ)},
          DualXFlowStages.DualSoundNet t netR netD →
            DualXFlowStages.DualSoundStageOn t (DualXFlowSpline.CouplingAdm e dmask S netD (DualXFlowSpline.TailsQ e c S))
              (fun (s : ℝ) =>
                NF.FlowRowsExec.couplingStage (NF.realX e) c (List.map Prod.fst dmask) S Bool.false Option.none #[]
                  (netR s))
              (NF.FlowRowsExec.couplingStage (NF.dualX (NF.realX e)) c dmask S Bool.false Option.none #[] netD) :=
  @DualXFlowSpline.dualSound_couplingStage_rqTails

theorem flow_logprob_dual_sound_on :
    ∀ (e : Float → ℝ) (w : ℕ) {Ts : List DualXFlowStages.NearTriple},
      (∀ T ∈ Ts, DualXFlowStages.DualSoundStageOn 0 T.1 T.2.1 T.2.2) →
        ∀ {bR : ℝ → NF.FlowRowsExec.BaseD ℝ} {bD : NF.FlowRowsExec.BaseD (ℝ × ℝ)},
          DualXFlow.DualSoundBase 0 bR bD →
            ∀ (B : ℕ) (dX dctx : Array (ℝ × ℝ)),
              DualXFlowStages.cascadeP B dctx Ts dX →
                (∀ (dlps : List (ℝ × ℝ)),
                    NF.FlowRowsExec.flowLogProbExec (NF.dualX (NF.realX e)) w (fun (x : ℕ) (a : Array (ℝ × ℝ)) => a)
                          (NF.FlowRowsExec.compStage (NF.dualX (NF.realX e))
                            (List.map (fun (T : DualXFlowStages.NearTriple) => T.2.2) Ts))
                          bD B dX dctx =
                        Except.ok dlps →
                      ∃ (lps : ℝ → List ℝ),
                        (∀ (s : ℝ),
                            NF.FlowRowsExec.flowLogProbExec (NF.realX e) w (fun (x : ℕ) (a : Array ℝ) => a)
                                (NF.FlowRowsExec.compStage (NF.realX e)
                                  (List.map (fun (T : DualXFlowStages.NearTriple) => T.2.1 s) Ts))
                                (bR s) B (DualXFlow.lineA s dX) (DualXFlow.lineA s dctx) =
                              Except.ok (lps s)) ∧
                          (∀ (s : ℝ), (lps s).length = dlps.length) ∧
                            ∀ (i : ℕ),
                              (dlps.getD i (0, 0)).1 = (lps 0).getD i 0 ∧
                                HasDerivAt (fun (s : ℝ) => (lps s).getD i 0) (dlps.getD i (0, 0)).2 0) ∧
                  ∀ (err : NF.Density.DErr),
                    NF.FlowRowsExec.flowLogProbExec (NF.dualX (NF.realX e)) w (fun (x : ℕ) (a : Array (ℝ × ℝ)) => a)
                          (NF.FlowRowsExec.compStage (NF.dualX (NF.realX e))
                            (List.map (fun (T : DualXFlowStages.NearTriple) => T.2.2) Ts))
                          bD B dX dctx =
                        Except.error err →
                      ∀ (s : ℝ),
                        NF.FlowRowsExec.flowLogProbExec (NF.realX e) w (fun (x : ℕ) (a : Array ℝ) => a)
                            (NF.FlowRowsExec.compStage (NF.realX e)
                              (List.map (fun (T : DualXFlowStages.NearTriple) => T.2.1 s) Ts))
                            (bR s) B (DualXFlow.lineA s dX) (DualXFlow.lineA s dctx) =
                          Except.error err :=
  @DualXFlowSpline.flow_logprob_dual_sound_on

theorem flow_rq_coupling_logprob_dual_sound :
    ∀ (e : Float → ℝ) (w : ℕ) (ds : NF.Norm.ActSt (ℝ × ℝ))
      (dp : NF.LF.LUParams (ℝ × ℝ)) {c : NF.ElCfg},
      NF.StructureExec.RQTailsCfgValid e c →
        ∀ (dmask : List (ℝ × ℝ)) (S win wout : ℕ) (dW : List (List (ℝ × ℝ))) (db : List (ℝ × ℝ)),
          ds.initialized = Bool.true ∨ ds.training = Bool.false →
            (∀ d ∈ dp.udiag, d.1 ≠ 20) →
              0 ≤ dp.eps.1 →
                ∀ (shape inShape : List ℕ) (cf : Bool) (B : ℕ) (dX dctx : Array (ℝ × ℝ)),
                  DualXFlowStages.cascadeP B dctx (DualXFlowSpline.rqTs e w ds dp c dmask S win wout dW db) dX →
                    have flowD :=
                      NF.FlowRowsExec.flowLogProbExec (NF.dualX (NF.realX e)) w (fun (x : ℕ) (a : Array (ℝ × ℝ)) => a)
                        (NF.FlowRowsExec.compStage (NF.dualX (NF.realX e))
                          [NF.StageMore.actStage (NF.dualX (NF.realX e)) w ds,
                            NF.StageMore.luStage (NF.dualX (NF.realX e)) w dp,
                            NF.FlowRowsExec.couplingStage (NF.dualX (NF.realX e)) c dmask S Bool.false Option.none #[]
                              (DualXFlowStages.affNet (NF.dualX (NF.realX e)) win wout dW db)])
                        (fun (B : ℕ) (rows : List (List (ℝ × ℝ))) (x : Array (ℝ × ℝ)) =>
                          NF.Density.stdNormalLogProb (NF.dualX (NF.realX e)) shape inShape
                            (NF.RowIndependenceMore.ctxOf cf B) rows)
                        B dX dctx;
                    have flowR := fun (s : ℝ) =>
                      NF.FlowRowsExec.flowLogProbExec (NF.realX e) w (fun (x : ℕ) (a : Array ℝ) => a)
                        (NF.FlowRowsExec.compStage (NF.realX e)
                          [NF.StageMore.actStage (NF.realX e) w (DualXFlow.lineAct s ds),
                            NF.StageMore.luStage (NF.realX e) w (DualXLU.lineP s dp),
                            NF.FlowRowsExec.couplingStage (NF.realX e) c (List.map Prod.fst dmask) S Bool.false Option.none
                              #[] (DualXFlowStages.affNet (NF.realX e) win wout (DualXLU.lineM s dW) (DualXLU.lineV s db))])
                        (fun (B : ℕ) (rows : List (List ℝ)) (x : Array ℝ) =>
                          NF.Density.stdNormalLogProb (NF.realX e) shape inShape (NF.RowIndependenceMore.ctxOf cf B) rows)
                        B (DualXFlow.lineA s dX) (DualXFlow.lineA s dctx);
                    (∀ (dlps : List (ℝ × ℝ)),
                        flowD = Except.ok dlps →
                          ∃ (lps : ℝ → List ℝ),
                            (∀ (s : ℝ), flowR s = Except.ok (lps s)) ∧
                              (∀ (s : ℝ), (lps s).length = dlps.length) ∧
                                ∀ (i : ℕ),
                                  (dlps.getD i (0, 0)).1 = (lps 0).getD i 0 ∧
                                    HasDerivAt (fun (s : ℝ) => (lps s).getD i 0) (dlps.getD i (0, 0)).2 0) ∧
                      ∀ (err : NF.Density.DErr), flowD = Except.error err → ∀ (s : ℝ), flowR s = Except.error err :=
  @DualXFlowSpline.flow_rq_coupling_logprob_dual_sound

theorem couplingAdm_example :
    ∀ (z z' x' a b p q r : ℝ),
      DualXFlowSpline.CouplingAdm TailsWhole.eW [(0, 0), (1, 0)] 1
        (DualXFlowStages.affNet (NF.dualX (NF.realX TailsWhole.eW)) 1 5 [[(0, a)], [(0, b)], [(0, p)], [(0, q)], [(0, r)]]
          [(0, 1), (0, 0), (0, 1), (0, 0), (0, 1)])
        (DualXFlowSpline.TailsQ TailsWhole.eW NF.StructureExec.cT2 1) 1 #[(z, z'), (2, x')] #[] :=
  @DualXFlowSpline.couplingAdm_example

end Properties.C16
