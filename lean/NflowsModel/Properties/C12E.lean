import NflowsModel.Properties.C12
import NflowsModel.Lemmas.RowErr
/-!
# C12 (continued) — the batch-level error field of the executed passes

Row independence (`Properties/C12.lean`) is about the `out` / `ld` arrays; the code rejects a whole batch when one row is out of
domain.  Here: the batch run has `err = none` iff every row run alone has, and for the autoregressive / CDF passes the batch's error
is the first error, in row order, among the rows run alone.
-/
set_option linter.all false
namespace Properties.C12

theorem exec_ar_accepted_iff_rows :
    ∀ {α : Type} (o : XOps α) (c : NF.ElCfg) (F : ℕ) (inverse : Bool) {B : ℕ}
      (x params : Array α) (xr pr : ℕ → Array α),
      (∀ b < B, ∀ i < F, x[b * F + i]? = (xr b)[0 * F + i]?) →
        (∀ b < B,
            ∀ (i k : ℕ),
              i < F →
                (k < if (c.kind == "araffine") = Bool.true then 2 else c.mult) →
                  params[((b * F + i) * if (c.kind == "araffine") = Bool.true then 2 else c.mult) + k]? =
                    (pr b)[((0 * F + i) * if (c.kind == "araffine") = Bool.true then 2 else c.mult) + k]?) →
          ((NF.arApply o c B F x params inverse).err = Option.none ↔
            ∀ b < B, (NF.arApply o c 1 F (xr b) (pr b) inverse).err = Option.none) :=
  @NF.RowErr.ar_err_none_iff_alone

theorem exec_cdf_accepted_iff_rows :
    ∀ {α : Type} (o : XOps α) (c : NF.ElCfg) (n : ℕ) (inverse : Bool) {B : ℕ}
      (x params : Array α) (xr : ℕ → Array α),
      (∀ b < B, ∀ i < n, x[b * n + i]? = (xr b)[0 * n + i]?) →
        ((NF.cdfApply o c B n x params inverse).err = Option.none ↔
          ∀ b < B, (NF.cdfApply o c 1 n (xr b) params inverse).err = Option.none) :=
  @NF.RowErr.cdf_err_none_iff_alone

theorem exec_coupling_accepted_iff_rows :
    ∀ {α : Type} (o : XOps α) (c : NF.ElCfg) (mask : List α) (S : ℕ)
      (inverse : Bool) (uc : Option NF.ElCfg) (uparams : Array α) {B : ℕ} (x params : Array α) (xr pr : ℕ → Array α),
      (∀ b < B, NF.StructureExec.RowAgree mask.length S b 0 x (xr b)) →
        (∀ b < B,
            NF.StructureExec.RowAgree (NF.StructureExec.paramWidth c (NF.transformIdx o mask).length) S b 0 params (pr b)) →
          ((NF.couplingApply o c mask B S x params inverse uc uparams).err = Option.none ↔
            ∀ b < B, (NF.couplingApply o c mask 1 S (xr b) (pr b) inverse uc uparams).err = Option.none) :=
  @NF.RowErr.coupling_err_none_iff_alone

theorem exec_ar_first_error :
    ∀ {α : Type} (o : XOps α) (c : NF.ElCfg) (F : ℕ) (inverse : Bool) {B : ℕ} (x params : Array α)
      (xr pr : ℕ → Array α),
      (∀ b < B, ∀ i < F, x[b * F + i]? = (xr b)[0 * F + i]?) →
        (∀ b < B,
            ∀ (i k : ℕ),
              i < F →
                (k < if (c.kind == "araffine") = Bool.true then 2 else c.mult) →
                  params[((b * F + i) * if (c.kind == "araffine") = Bool.true then 2 else c.mult) + k]? =
                    (pr b)[((0 * F + i) * if (c.kind == "araffine") = Bool.true then 2 else c.mult) + k]?) →
          (NF.arApply o c B F x params inverse).err =
            List.findSome? (fun (b : ℕ) => (NF.arApply o c 1 F (xr b) (pr b) inverse).err) (List.range B) :=
  @NF.RowErr.ar_err_rows

end Properties.C12
