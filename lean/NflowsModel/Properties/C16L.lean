import NflowsModel.Properties.C16
import NflowsModel.Lemmas.DualXLU
/-!
# C16 (continued) — dual-number soundness of the executed linear and normalisation programs

Narrows "Not covered by any theorem: the linear family, normalisation layers" of the `Properties/C16.lean` header
(`Lemmas/DualXLU.lean`).  The autograd correspondence compares PyTorch gradients with the model run at dual numbers; here that run is
proved to return (value, derivative along the direction) — `DualX.IsDual`, a `HasDerivAt` of the real program along the line — for
`LULinear.forward` (every output entry; direction in inputs, lower, upper, unconstrained diagonal, bias and eps simultaneously),
`logabsdet()`, `LULinear.inverse` (triangular solves; all directions), BatchNorm in evaluation mode (outputs and log-dets) and ActNorm
(2-D and 4-D).  FORCED side condition, with a counterexample theorem: unconstrained diagonal entries `≠ 20` — the executed softplus
has a jump at its threshold, so at 20 the forward output has no derivative at all (`lu_forward_not_differentiable_at_threshold`).
Not covered: QR / SVD / Householder / naive, the 1×1 convolution, BatchNorm in training mode, ActNorm's initialising pass.
-/
set_option linter.all false
namespace Properties.C16

theorem lu_forward_dual_sound :
    ∀ (e : Float → ℝ) (dp : NF.LF.LUParams (ℝ × ℝ)) (dX : List (List (ℝ × ℝ))),
      (∀ d ∈ dp.udiag, d.1 ≠ 20) →
        (∀ (s : ℝ),
            List.map List.length (NF.LF.luForward (DualXLU.Rr e) (DualXLU.lineP s dp) (DualXLU.lineM s dX)) =
              List.map List.length (NF.LF.luForward (DualXLU.Dd e) dp dX)) ∧
          ∀ (r c : ℕ),
            (((NF.LF.luForward (DualXLU.Dd e) dp dX).getD r []).getD c (0, 0)).1 =
                ((NF.LF.luForward (DualXLU.Rr e) (DualXLU.lineP 0 dp) (DualXLU.lineM 0 dX)).getD r []).getD c 0 ∧
              HasDerivAt
                (fun (s : ℝ) =>
                  ((NF.LF.luForward (DualXLU.Rr e) (DualXLU.lineP s dp) (DualXLU.lineM s dX)).getD r []).getD c 0)
                (((NF.LF.luForward (DualXLU.Dd e) dp dX).getD r []).getD c (0, 0)).2 0 :=
  @DualXLU.lu_forward_dual_sound

theorem lu_logabsdet_dual_sound :
    ∀ (e : Float → ℝ) (dp : NF.LF.LUParams (ℝ × ℝ)),
      (∀ d ∈ dp.udiag, d.1 ≠ 20) →
        0 ≤ dp.eps.1 →
          (NF.LF.luLogabsdet (DualXLU.Dd e) dp).1 = NF.LF.luLogabsdet (DualXLU.Rr e) (DualXLU.lineP 0 dp) ∧
            HasDerivAt (fun (s : ℝ) => NF.LF.luLogabsdet (DualXLU.Rr e) (DualXLU.lineP s dp))
              (NF.LF.luLogabsdet (DualXLU.Dd e) dp).2 0 :=
  @DualXLU.lu_logabsdet_dual_sound

theorem lu_logabsdet_dual_sound' :
    ∀ (e : Float → ℝ) (dp : NF.LF.LUParams (ℝ × ℝ)),
      (∀ d ∈ dp.udiag, d.1 ≠ 20) →
        (∀ d ∈ dp.udiag, NF.LF.softplus (DualXLU.Rr e) d.1 + dp.eps.1 ≠ 0) →
          (NF.LF.luLogabsdet (DualXLU.Dd e) dp).1 = NF.LF.luLogabsdet (DualXLU.Rr e) (DualXLU.lineP 0 dp) ∧
            HasDerivAt (fun (s : ℝ) => NF.LF.luLogabsdet (DualXLU.Rr e) (DualXLU.lineP s dp))
              (NF.LF.luLogabsdet (DualXLU.Dd e) dp).2 0 :=
  @DualXLU.lu_logabsdet_dual_sound'

theorem lu_forward_not_differentiable_at_threshold :
    ∀ (e : Float → ℝ),
      ¬∃ (d' : ℝ),
          HasDerivAt
            (fun (s : ℝ) =>
              ((NF.LF.luForward (DualXLU.Rr e) (DualXLU.lineP s DualXLU.thrP) (DualXLU.lineM s [[(1, 0)]])).getD 0 []).getD
                0 0)
            d' 0 :=
  @DualXLU.lu_forward_not_differentiable_at_threshold

theorem batchnorm_eval_dual_sound :
    ∀ (e : Float → ℝ) (dcfg : NF.Norm.BNCfg (ℝ × ℝ)) (F : ℕ) (st : NF.Norm.BNSt (ℝ × ℝ))
      (drows : List (List (ℝ × ℝ))),
      (∀ j < F, (st.uweight.getD j (0, 0)).1 ≠ 20) →
        (∀ j < F, 0 < (st.runVar.getD j (0, 0)).1 + dcfg.eps.1) →
          (∀ j < F, (NF.realX e).softplus (st.uweight.getD j (0, 0)).1 + dcfg.eps.1 ≠ 0) →
            (∀ (r c : ℕ),
                DualX.IsDual
                  (fun (s : ℝ) =>
                    ((NF.Norm.bnNormalise (NF.realX e) (DualXLU.lineCfg s dcfg) F (DualXLU.lineBN s st).runMean
                              (DualXLU.lineBN s st).runVar (DualXLU.lineBN s st).uweight (DualXLU.lineBN s st).bias
                              (DualXLU.lineM s drows)).getD
                          r []).getD
                      c 0)
                  0
                  (((NF.Norm.bnNormalise (NF.dualX (NF.realX e)) dcfg F st.runMean st.runVar st.uweight st.bias drows).getD
                        r []).getD
                    c (0, 0))) ∧
              ∀ (k : ℕ),
                DualX.IsDual
                  (fun (s : ℝ) =>
                    (NF.Norm.bnLogdet (NF.realX e) (DualXLU.lineCfg s dcfg) F (DualXLU.lineBN s st).runVar
                          (DualXLU.lineBN s st).uweight drows.length Bool.false).getD
                      k 0)
                  0
                  ((NF.Norm.bnLogdet (NF.dualX (NF.realX e)) dcfg F st.runVar st.uweight drows.length Bool.false).getD k
                    (0, 0)) :=
  @DualXLU.batchnorm_eval_dual_sound

theorem actnorm_dual_sound :
    ∀ (e : Float → ℝ) (F : ℕ) (dls dsh : List (ℝ × ℝ)) (db : NF.Norm.Batch (ℝ × ℝ)),
      DualXLU.DB 0
          (fun (s : ℝ) => NF.Norm.actApply (NF.realX e) F (DualXLU.lineV s dls) (DualXLU.lineV s dsh) (DualXLU.lineB s db))
          (NF.Norm.actApply (NF.dualX (NF.realX e)) F dls dsh db) ∧
        DualXLU.DV 0 (fun (s : ℝ) => NF.Norm.actLogdet (NF.realX e) (DualXLU.lineV s dls) (DualXLU.lineB s db) Bool.false)
          (NF.Norm.actLogdet (NF.dualX (NF.realX e)) dls db Bool.false) :=
  @DualXLU.actnorm_dual_sound

theorem actnorm_dual_sound_d2 :
    ∀ (e : Float → ℝ) (F : ℕ) (dls dsh : List (ℝ × ℝ)) (drows : List (List (ℝ × ℝ)))
      (r c k : ℕ),
      DualX.IsDual
          (fun (s : ℝ) =>
            ((List.map
                      (fun (row : List ℝ) =>
                        List.map
                          (fun (j : ℕ) =>
                            (NF.realX e).add
                              ((NF.realX e).mul ((NF.realX e).exp ((DualXLU.lineV s dls).getD j (NF.realX e).zero))
                                (row.getD j (NF.realX e).zero))
                              ((DualXLU.lineV s dsh).getD j (NF.realX e).zero))
                          (List.range F))
                      (DualXLU.lineM s drows)).getD
                  r []).getD
              c 0)
          0
          (((List.map
                    (fun (row : List (ℝ × ℝ)) =>
                      List.map
                        (fun (j : ℕ) =>
                          (NF.dualX (NF.realX e)).add
                            ((NF.dualX (NF.realX e)).mul
                              ((NF.dualX (NF.realX e)).exp (dls.getD j (NF.dualX (NF.realX e)).zero))
                              (row.getD j (NF.dualX (NF.realX e)).zero))
                            (dsh.getD j (NF.dualX (NF.realX e)).zero))
                        (List.range F))
                    drows).getD
                r []).getD
            c (0, 0)) ∧
        DualX.IsDual
          (fun (s : ℝ) =>
            (NF.Norm.actLogdet (NF.realX e) (DualXLU.lineV s dls) (NF.Norm.Batch.d2 (DualXLU.lineM s drows))
                  Bool.false).getD
              k 0)
          0 ((NF.Norm.actLogdet (NF.dualX (NF.realX e)) dls (NF.Norm.Batch.d2 drows) Bool.false).getD k (0, 0)) :=
  @DualXLU.actnorm_dual_sound_d2

theorem lu_inverse_dual_sound_input :
    ∀ (e : Float → ℝ) (dp : NF.LF.LUParams (ℝ × ℝ)) (dX : List (List (ℝ × ℝ))),
      (∀ d ∈ dp.udiag, d.1 ≠ 20) →
        0 ≤ dp.eps.1 →
          dp.n ≤ dp.udiag.length →
            (∀ (s : ℝ),
                List.map List.length (NF.LF.luInverse (DualXLU.Rr e) (DualXLU.lineP s dp) (DualXLU.lineM s dX)) =
                  List.map List.length (NF.LF.luInverse (DualXLU.Dd e) dp dX)) ∧
              ∀ (r c : ℕ),
                (((NF.LF.luInverse (DualXLU.Dd e) dp dX).getD r []).getD c (0, 0)).1 =
                    ((NF.LF.luInverse (DualXLU.Rr e) (DualXLU.lineP 0 dp) (DualXLU.lineM 0 dX)).getD r []).getD c 0 ∧
                  HasDerivAt
                    (fun (s : ℝ) =>
                      ((NF.LF.luInverse (DualXLU.Rr e) (DualXLU.lineP s dp) (DualXLU.lineM s dX)).getD r []).getD c 0)
                    (((NF.LF.luInverse (DualXLU.Dd e) dp dX).getD r []).getD c (0, 0)).2 0 :=
  @DualXLU.lu_inverse_dual_sound_input

end Properties.C16
