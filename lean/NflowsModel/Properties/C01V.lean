import NflowsModel.Properties.C01
import NflowsModel.Lemmas.LayerDerivInv
/-!
# C01 (continued) — the INVERSE pass of coupling layers with spline elements as a Jacobian

`Lemmas/LayerDerivInv.lean`, same conclusion form as `Properties/C01L.lean` (`ld[b]? = some (log |det L|)`, `L` the Fréchet derivative of
the executed row map): RQ bounded (forward — also missing until now — and inverse, strictly inside an output bin), RQ with linear tails
(every real row, both directions), quadratic inverse (with the `yk` end-point facts `quad_yk_facts` that were missing), cubic inverse
on the open output box under the explicit branch hypotheses of the whole-program inverse theorem (the cubic inverse is NOT well
defined everywhere: `Properties.C17.cubic_inverse_cardano_log_zero`).  Not covered: inverse with tails for quadratic / cubic /
linear, the inverse loop of the autoregressive layer.
-/
set_option linter.all false
namespace Properties.C01

theorem coupling_rq_logdet_is_jacobian :
    ∀ (e : Float → ℝ) (c : NF.ElCfg) (mask : List ℝ) (B : ℕ)
      (net : Array ℝ → Array ℝ) (x : Array ℝ),
      c.kind = "rq" →
        c.tails = Bool.false →
          x.size = B * mask.length →
            ∀ {b : ℕ},
              b < B →
                NF.StructureExec.RQParamsValid e c (NF.CouplingJacobian.nT e mask) 1
                    (NF.LayerDerivMore.cParams e mask B net x) B →
                  (∀ (i : Fin mask.length),
                      NF.StructureExec.isT (NF.realX e) mask i = Bool.true →
                        ∃
                          k <
                            (NF.StructureExec.rqW (NF.realX e) c
                                (NF.LayerDerivMore.chanSlice e c mask (NF.LayerDerivMore.cParams e mask B net x) b
                                  i)).length,
                          RQWhole.xs e (NF.StructureExec.rqCfgOf c)
                                (NF.StructureExec.rqW (NF.realX e) c
                                  (NF.LayerDerivMore.chanSlice e c mask (NF.LayerDerivMore.cParams e mask B net x) b i))
                                k <
                              NF.StructureExec.rowOf (NF.realX e) mask.length b x i ∧
                            NF.StructureExec.rowOf (NF.realX e) mask.length b x i <
                              RQWhole.xs e (NF.StructureExec.rqCfgOf c)
                                (NF.StructureExec.rqW (NF.realX e) c
                                  (NF.LayerDerivMore.chanSlice e c mask (NF.LayerDerivMore.cParams e mask B net x) b i))
                                (k + 1)) →
                    ∀ {L : (Fin mask.length → ℝ) →L[ℝ] Fin mask.length → ℝ},
                      HasFDerivAt (NF.CouplingJacobian.couplingRowMap e c mask B net Bool.false x b) L
                          (NF.StructureExec.rowOf (NF.realX e) mask.length b x) →
                        (NF.CouplingJacobian.couplingRun (NF.realX e) c mask B net Bool.false x).ld[b]? =
                          Option.some
                            (Real.log
                              |(LinearMap.det : ((Fin mask.length → ℝ) →ₗ[ℝ] Fin mask.length → ℝ) → ℝ)
                                  (↑L : (Fin mask.length → ℝ) →ₗ[ℝ] Fin mask.length → ℝ)|) :=
  @NF.LayerDerivInv.coupling_rq_logdet_is_jacobian

theorem coupling_rq_inverse_logdet_is_jacobian :
    ∀ (e : Float → ℝ) (c : NF.ElCfg) (mask : List ℝ) (B : ℕ)
      (net : Array ℝ → Array ℝ) (x : Array ℝ),
      c.kind = "rq" →
        c.tails = Bool.false →
          x.size = B * mask.length →
            ∀ {b : ℕ},
              b < B →
                NF.StructureExec.RQParamsValid e c (NF.CouplingJacobian.nT e mask) 1
                    (NF.LayerDerivMore.cParams e mask B net x) B →
                  (∀ (i : Fin mask.length),
                      NF.StructureExec.isT (NF.realX e) mask i = Bool.true →
                        ∃
                          k <
                            (NF.StructureExec.rqW (NF.realX e) c
                                (NF.LayerDerivMore.chanSlice e c mask (NF.LayerDerivMore.cParams e mask B net x) b
                                  i)).length,
                          RQWhole.ys e (NF.StructureExec.rqCfgOf c)
                                (NF.StructureExec.rqH (NF.realX e) c
                                  (NF.LayerDerivMore.chanSlice e c mask (NF.LayerDerivMore.cParams e mask B net x) b i))
                                k <
                              NF.StructureExec.rowOf (NF.realX e) mask.length b x i ∧
                            NF.StructureExec.rowOf (NF.realX e) mask.length b x i <
                              RQWhole.ys e (NF.StructureExec.rqCfgOf c)
                                (NF.StructureExec.rqH (NF.realX e) c
                                  (NF.LayerDerivMore.chanSlice e c mask (NF.LayerDerivMore.cParams e mask B net x) b i))
                                (k + 1)) →
                    ∀ {L : (Fin mask.length → ℝ) →L[ℝ] Fin mask.length → ℝ},
                      HasFDerivAt (NF.CouplingJacobian.couplingRowMap e c mask B net Bool.true x b) L
                          (NF.StructureExec.rowOf (NF.realX e) mask.length b x) →
                        (NF.CouplingJacobian.couplingRun (NF.realX e) c mask B net Bool.true x).ld[b]? =
                          Option.some
                            (Real.log
                              |(LinearMap.det : ((Fin mask.length → ℝ) →ₗ[ℝ] Fin mask.length → ℝ) → ℝ)
                                  (↑L : (Fin mask.length → ℝ) →ₗ[ℝ] Fin mask.length → ℝ)|) :=
  @NF.LayerDerivInv.coupling_rq_inverse_logdet_is_jacobian

theorem coupling_rq_tails_logdet_is_jacobian :
    ∀ (e : Float → ℝ) (c : NF.ElCfg) (mask : List ℝ) (B : ℕ)
      (net : Array ℝ → Array ℝ) (x : Array ℝ),
      NF.StructureExec.RQTailsCfgValid e c →
        TailsWhole.PadExact e (NF.StructureExec.tMD c) (NF.StructureExec.tBe c) →
          ∀ (inverse : Bool),
            x.size = B * mask.length →
              ∀ {b : ℕ},
                b < B →
                  ∀ {L : (Fin mask.length → ℝ) →L[ℝ] Fin mask.length → ℝ},
                    HasFDerivAt (NF.CouplingJacobian.couplingRowMap e c mask B net inverse x b) L
                        (NF.StructureExec.rowOf (NF.realX e) mask.length b x) →
                      (NF.CouplingJacobian.couplingRun (NF.realX e) c mask B net inverse x).ld[b]? =
                        Option.some
                          (Real.log
                            |(LinearMap.det : ((Fin mask.length → ℝ) →ₗ[ℝ] Fin mask.length → ℝ) → ℝ)
                                (↑L : (Fin mask.length → ℝ) →ₗ[ℝ] Fin mask.length → ℝ)|) :=
  @NF.LayerDerivInv.coupling_rq_tails_logdet_is_jacobian

theorem coupling_rq_tails_inverse_logdet_is_jacobian :
    ∀ (e : Float → ℝ) (c : NF.ElCfg) (mask : List ℝ) (B : ℕ)
      (net : Array ℝ → Array ℝ) (x : Array ℝ),
      NF.StructureExec.RQTailsCfgValid e c →
        TailsWhole.PadExact e (NF.StructureExec.tMD c) (NF.StructureExec.tBe c) →
          x.size = B * mask.length →
            ∀ {b : ℕ},
              b < B →
                ∀ {L : (Fin mask.length → ℝ) →L[ℝ] Fin mask.length → ℝ},
                  HasFDerivAt (NF.CouplingJacobian.couplingRowMap e c mask B net Bool.true x b) L
                      (NF.StructureExec.rowOf (NF.realX e) mask.length b x) →
                    (NF.CouplingJacobian.couplingRun (NF.realX e) c mask B net Bool.true x).ld[b]? =
                      Option.some
                        (Real.log
                          |(LinearMap.det : ((Fin mask.length → ℝ) →ₗ[ℝ] Fin mask.length → ℝ) → ℝ)
                              (↑L : (Fin mask.length → ℝ) →ₗ[ℝ] Fin mask.length → ℝ)|) :=
  @NF.LayerDerivInv.coupling_rq_tails_inverse_logdet_is_jacobian

theorem coupling_quadratic_inverse_logdet_is_jacobian :
    ∀ (e : Float → ℝ) (c : NF.ElCfg) (mask : List ℝ)
      (B : ℕ) (net : Array ℝ → Array ℝ) (x : Array ℝ),
      c.kind = "quad" →
        c.tails = Bool.false →
          e (NF.boxLog (NF.StructureExec.quadCfgOf c).box) =
              Real.log
                ((e (NF.StructureExec.quadCfgOf c).box.top - e (NF.StructureExec.quadCfgOf c).box.bottom) /
                  (e (NF.StructureExec.quadCfgOf c).box.right - e (NF.StructureExec.quadCfgOf c).box.left)) →
            x.size = B * mask.length →
              ∀ {b : ℕ},
                b < B →
                  NF.StructureExec.QuadParamsValid e c (NF.CouplingJacobian.nT e mask) 1
                      (NF.LayerDerivMore.cParams e mask B net x) B →
                    (∀ (i : Fin mask.length),
                        NF.StructureExec.isT (NF.realX e) mask i = Bool.true →
                          ∃
                            k <
                              (NF.StructureExec.quadW (NF.realX e) c
                                  (NF.LayerDerivMore.chanSlice e c mask (NF.LayerDerivMore.cParams e mask B net x) b
                                    i)).length,
                            NF.LayerDerivInv.quadYk e c
                                  (NF.LayerDerivMore.chanSlice e c mask (NF.LayerDerivMore.cParams e mask B net x) b i) k <
                                NF.StructureExec.rowOf (NF.realX e) mask.length b x i ∧
                              NF.StructureExec.rowOf (NF.realX e) mask.length b x i <
                                NF.LayerDerivInv.quadYk e c
                                  (NF.LayerDerivMore.chanSlice e c mask (NF.LayerDerivMore.cParams e mask B net x) b i)
                                  (k + 1)) →
                      ∀ {L : (Fin mask.length → ℝ) →L[ℝ] Fin mask.length → ℝ},
                        HasFDerivAt (NF.CouplingJacobian.couplingRowMap e c mask B net Bool.true x b) L
                            (NF.StructureExec.rowOf (NF.realX e) mask.length b x) →
                          (NF.CouplingJacobian.couplingRun (NF.realX e) c mask B net Bool.true x).ld[b]? =
                            Option.some
                              (Real.log
                                |(LinearMap.det : ((Fin mask.length → ℝ) →ₗ[ℝ] Fin mask.length → ℝ) → ℝ)
                                    (↑L : (Fin mask.length → ℝ) →ₗ[ℝ] Fin mask.length → ℝ)|) :=
  @NF.LayerDerivInv.coupling_quadratic_inverse_logdet_is_jacobian

theorem coupling_cubic_inverse_logdet_is_jacobian :
    ∀ (e : Float → ℝ) (c : NF.ElCfg) (mask : List ℝ) (B : ℕ)
      (net : Array ℝ → Array ℝ) (x : Array ℝ),
      c.kind = "cubic" →
        c.tails = Bool.false →
          CubicInverseWhole.InvConsts e (CubicLayers.cubicCfgOf c) →
            e (NF.boxLog (CubicLayers.cubicCfgOf c).box) =
                Real.log
                  ((e (CubicLayers.cubicCfgOf c).box.top - e (CubicLayers.cubicCfgOf c).box.bottom) /
                    (e (CubicLayers.cubicCfgOf c).box.right - e (CubicLayers.cubicCfgOf c).box.left)) →
              x.size = B * mask.length →
                ∀ {b : ℕ},
                  b < B →
                    CubicLayers.CubicParamsExact e c (NF.CouplingJacobian.nT e mask) 1
                        (NF.LayerDerivMore.cParams e mask B net x) B →
                      (∀ (i : Fin mask.length),
                          NF.StructureExec.isT (NF.realX e) mask i = Bool.true →
                            e (CubicLayers.cubicCfgOf c).box.bottom <
                                NF.StructureExec.rowOf (NF.realX e) mask.length b x i ∧
                              NF.StructureExec.rowOf (NF.realX e) mask.length b x i <
                                e (CubicLayers.cubicCfgOf c).box.top) →
                        ∀ {L : (Fin mask.length → ℝ) →L[ℝ] Fin mask.length → ℝ},
                          HasFDerivAt (NF.CouplingJacobian.couplingRowMap e c mask B net Bool.true x b) L
                              (NF.StructureExec.rowOf (NF.realX e) mask.length b x) →
                            (NF.CouplingJacobian.couplingRun (NF.realX e) c mask B net Bool.true x).ld[b]? =
                              Option.some
                                (Real.log
                                  |(LinearMap.det : ((Fin mask.length → ℝ) →ₗ[ℝ] Fin mask.length → ℝ) → ℝ)
                                      (↑L : (Fin mask.length → ℝ) →ₗ[ℝ] Fin mask.length → ℝ)|) :=
  @NF.LayerDerivInv.coupling_cubic_inverse_logdet_is_jacobian

theorem quad_yk_facts :
    ∀ {e : Float → ℝ} {c : NF.QCfg} {uw uh : List ℝ},
      QuadWhole.QuadValid e c uw uh →
        QuadInverseWhole.yk e c (QuadWhole.Wq e c uw) (QuadWhole.Uq e uh) 0 = e c.box.bottom ∧
          QuadInverseWhole.yk e c (QuadWhole.Wq e c uw) (QuadWhole.Uq e uh) uw.length = e c.box.top ∧
            ∀ k < uw.length,
              QuadInverseWhole.yk e c (QuadWhole.Wq e c uw) (QuadWhole.Uq e uh) k <
                QuadInverseWhole.yk e c (QuadWhole.Wq e c uw) (QuadWhole.Uq e uh) (k + 1) :=
  @NF.LayerDerivInv.quad_yk_facts

end Properties.C01
