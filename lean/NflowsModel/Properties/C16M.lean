import NflowsModel.Properties.C16D
import NflowsModel.Lemmas.DualXMore
/-!
# C16 (continued) — the remaining executed programs on dual numbers, and where forward-mode AD of the cubic inverse is WRONG

Input direction `(x, 1)`, zero-tangent parameters (proofs in `Lemmas/DualXCubic, DualXQuadInv, DualXLinInv, DualXTails, DualXWrap,
DualXMore, DualXCubicInv`): the executed cubic forward program on the whole OPEN box (the dual run picks one bin's polynomial; the
spline is C¹, so the value tangent is right at interior knots too); the quadratic and linear INVERSE programs (the radicand is strictly
positive on the closed bin); the rational-quadratic program WITH LINEAR TAILS at every real that is not a knot, both directions (outside
the bound `((x,1),(0,0))`), with the value tangent right at EVERY real under `PadExact`; the cubic tails wrapper.
The cubic INVERSE: `cbrt` is not differentiable at 0 (theorem) and on the one-bin witness of `Properties.C17.cubic_inverse_cardano_log_zero`
every in-domain input takes the Cardano branch with a cube-root argument exactly 0: in the INPUT direction the dual run still returns
the true derivative over ℝ, in the PARAMETER direction it is wrong over ℝ (`48/7` instead of `0` at `y = 0`) — exactly where the code's
autograd returns NaN (finding F25): the defect is in the differentiation rule of the formula, not only in floating point.
-/
set_option linter.all false
namespace Properties.C16

theorem cubicSpline_dual :
    ∀ {e : Float → ℝ} {c : NF.CCfg} {uw uh : List ℝ} {udl udr : ℝ},
      CubicWhole.CubicValid e c uw uh →
        e (NF.boxLog c.box) = Real.log ((e c.box.top - e c.box.bottom) / (e c.box.right - e c.box.left)) →
          ∀ k < uw.length,
            ∀ (x : ℝ),
              CubicWhole.xk e c uw k < x →
                x < CubicWhole.xk e c uw (k + 1) →
                  ∃ (l' : ℝ),
                    NF.cubicSpline (NF.dualX (NF.realX e)) c (List.map DualX.ι uw) (List.map DualX.ι uh) (DualX.ι udl)
                          (DualX.ι udr) Bool.false (x, 1) =
                        Except.ok
                          ((CubicWhole.val e c uw uh udl udr x, Real.exp (CubicWhole.ld e c uw uh udl udr x)),
                            (CubicWhole.ld e c uw uh udl udr x, l'), []) ∧
                      HasDerivAt (CubicWhole.val e c uw uh udl udr) (Real.exp (CubicWhole.ld e c uw uh udl udr x)) x ∧
                        HasDerivAt (CubicWhole.ld e c uw uh udl udr) l' x :=
  @DualXCubic.cubicSpline_dual

theorem cubicSpline_dual_whole_open_box :
    ∀ {e : Float → ℝ} {c : NF.CCfg} {uw uh : List ℝ} {udl udr : ℝ},
      CubicWhole.CubicValid e c uw uh →
        e (NF.boxLog c.box) = Real.log ((e c.box.top - e c.box.bottom) / (e c.box.right - e c.box.left)) →
          ∀ (x : ℝ),
            e c.box.left < x →
              x < e c.box.right →
                ∃ (l' : ℝ),
                  NF.cubicSpline (NF.dualX (NF.realX e)) c (List.map DualX.ι uw) (List.map DualX.ι uh) (DualX.ι udl)
                        (DualX.ι udr) Bool.false (x, 1) =
                      Except.ok
                        ((CubicWhole.val e c uw uh udl udr x, Real.exp (CubicWhole.ld e c uw uh udl udr x)),
                          (CubicWhole.ld e c uw uh udl udr x, l'), []) ∧
                    HasDerivAt (CubicWhole.val e c uw uh udl udr) (Real.exp (CubicWhole.ld e c uw uh udl udr x)) x :=
  @DualXCubic.cubicSpline_dual_all

theorem quadSpline_inverse_dual :
    ∀ {e : Float → ℝ} {c : NF.QCfg} {uw uh : List ℝ},
      QuadWhole.QuadValid e c uw uh →
        e (NF.boxLog c.box) = Real.log ((e c.box.top - e c.box.bottom) / (e c.box.right - e c.box.left)) →
          ∀ k < uw.length,
            ∀ (y : ℝ),
              QuadInverseWhole.yk e c (QuadWhole.Wq e c uw) (QuadWhole.Uq e uh) k < y →
                y < QuadInverseWhole.yk e c (QuadWhole.Wq e c uw) (QuadWhole.Uq e uh) (k + 1) →
                  ∃ (l' : ℝ),
                    NF.quadSpline (NF.dualX (NF.realX e)) c (List.map DualX.ι uw) (List.map DualX.ι uh) Bool.true (y, 1) =
                        Except.ok
                          ((QuadInverseWhole.inv e c uw uh y, Real.exp (QuadInverseWhole.invLd e c uw uh y)),
                            QuadInverseWhole.invLd e c uw uh y, l') ∧
                      HasDerivAt (QuadInverseWhole.inv e c uw uh) (Real.exp (QuadInverseWhole.invLd e c uw uh y)) y ∧
                        HasDerivAt (QuadInverseWhole.invLd e c uw uh) l' y :=
  @DualXQuadInv.quadSpline_dual_inv

theorem linSpline_inverse_dual :
    ∀ {e : Float → ℝ} {box : NF.Box} {eps : Float} {up : List ℝ},
      LinWhole.LinValid e box eps up →
        e (NF.boxLog box) = Real.log ((e box.top - e box.bottom) / (e box.right - e box.left)) →
          ∀ k < up.length,
            ∀ (y : ℝ),
              LinWhole.yk e box up k < y →
                y < LinWhole.yk e box up (k + 1) →
                  ∃ (l' : ℝ),
                    NF.linSpline (NF.dualX (NF.realX e)) box eps (List.map DualX.ι up) Bool.true (y, 1) =
                        Except.ok
                          ((LinWhole.inv e box eps up y, Real.exp (LinWhole.invLd e box eps up y)),
                            LinWhole.invLd e box eps up y, l') ∧
                      HasDerivAt (LinWhole.inv e box eps up) (Real.exp (LinWhole.invLd e box eps up y)) y ∧
                        HasDerivAt (LinWhole.invLd e box eps up) l' y ∧ l' = 0 :=
  @DualXLinInv.linSpline_dual_inv

theorem rqTails_dual_outside :
    ∀ {e : Float → ℝ} {tb minW minH minD beta : Float} {uw uh ud : List ℝ} (x : ℝ),
      x < -e tb ∨ e tb < x →
        NF.rqSplineTails (NF.dualX (NF.realX e)) tb minW minH minD beta (List.map DualX.ι uw) (List.map DualX.ι uh)
              (List.map DualX.ι ud) Bool.false (x, 1) =
            Except.ok ((x, 1), 0, 0) ∧
          TailsWhole.valT e tb minW minH minD beta uw uh ud x = x ∧
            TailsWhole.ldT e tb minW minH minD beta uw uh ud x = 0 ∧
              HasDerivAt (TailsWhole.valT e tb minW minH minD beta uw uh ud) 1 x ∧
                HasDerivAt (TailsWhole.ldT e tb minW minH minD beta uw uh ud) 0 x :=
  @DualXTails.rqSplineTails_dual_outside

theorem rqTails_dual_every_non_knot :
    ∀ {e : Float → ℝ} {tb minW minH minD beta : Float} {uw uh ud : List ℝ},
      TailsWhole.RQTailsValid e tb minW minH minD beta uw uh ud →
        ∀ (x : ℝ),
          (∀ j ≤ uw.length, x ≠ RQWhole.xs e (TailsWhole.cfgT tb minW minH minD beta) uw j) →
            ∃ (v' : ℝ) (l' : ℝ),
              NF.rqSplineTails (NF.dualX (NF.realX e)) tb minW minH minD beta (List.map DualX.ι uw) (List.map DualX.ι uh)
                    (List.map DualX.ι ud) Bool.false (x, 1) =
                  Except.ok
                    ((TailsWhole.valT e tb minW minH minD beta uw uh ud x, v'),
                      TailsWhole.ldT e tb minW minH minD beta uw uh ud x, l') ∧
                HasDerivAt (TailsWhole.valT e tb minW minH minD beta uw uh ud) v' x ∧
                  HasDerivAt (TailsWhole.ldT e tb minW minH minD beta uw uh ud) l' x ∧
                    v' = Real.exp (TailsWhole.ldT e tb minW minH minD beta uw uh ud x) :=
  @DualXTails.rqSplineTails_dual_all

theorem rqTails_inverse_dual_every_non_knot :
    ∀ {e : Float → ℝ} {tb minW minH minD beta : Float} {uw uh ud : List ℝ},
      TailsWhole.RQTailsValid e tb minW minH minD beta uw uh ud →
        ∀ (y : ℝ),
          (∀ j ≤ uw.length, y ≠ RQWhole.ys e (TailsWhole.cfgT tb minW minH minD beta) uh j) →
            ∃ (v' : ℝ) (l' : ℝ),
              NF.rqSplineTails (NF.dualX (NF.realX e)) tb minW minH minD beta (List.map DualX.ι uw) (List.map DualX.ι uh)
                    (List.map DualX.ι ud) Bool.true (y, 1) =
                  Except.ok
                    ((TailsWhole.invT e tb minW minH minD beta uw uh ud y, v'),
                      TailsWhole.invLdT e tb minW minH minD beta uw uh ud y, l') ∧
                HasDerivAt (TailsWhole.invT e tb minW minH minD beta uw uh ud) v' y ∧
                  HasDerivAt (TailsWhole.invLdT e tb minW minH minD beta uw uh ud) l' y ∧
                    v' = Real.exp (TailsWhole.invLdT e tb minW minH minD beta uw uh ud y) :=
  @DualXTails.rqSplineTails_dual_all_inv

theorem rqTails_dual_value_every_real :
    ∀ {e : Float → ℝ} {tb minW minH minD beta : Float} {uw uh ud : List ℝ},
      TailsWhole.RQTailsValid e tb minW minH minD beta uw uh ud →
        TailsWhole.PadExact e minD beta →
          ∀ (x : ℝ),
            ∃ (l' : ℝ),
              NF.rqSplineTails (NF.dualX (NF.realX e)) tb minW minH minD beta (List.map DualX.ι uw) (List.map DualX.ι uh)
                    (List.map DualX.ι ud) Bool.false (x, 1) =
                  Except.ok
                    ((TailsWhole.valT e tb minW minH minD beta uw uh ud x,
                        Real.exp (TailsWhole.ldT e tb minW minH minD beta uw uh ud x)),
                      TailsWhole.ldT e tb minW minH minD beta uw uh ud x, l') ∧
                HasDerivAt (TailsWhole.valT e tb minW minH minD beta uw uh ud)
                  (Real.exp (TailsWhole.ldT e tb minW minH minD beta uw uh ud x)) x :=
  @DualXTails.rqSplineTails_dual_value_all

theorem cubicTails_dual_every_non_junction :
    ∀ {e : Float → ℝ} {tb minW minH eps thr : Float} {uw uh : List ℝ} {udl udr : ℝ},
      CubicWhole.CubicValid e (TailsWhole.ccfgT tb minW minH eps thr) uw uh →
        e (-tb) = -e tb →
          e (NF.boxLog (TailsWhole.tbox tb)) = 0 →
            ∀ (x : ℝ),
              x ≠ -e tb →
                x ≠ e tb →
                  ∃ (l' : ℝ),
                    TailsWhole.cubicTails (NF.dualX (NF.realX e)) tb minW minH eps thr (List.map DualX.ι uw)
                          (List.map DualX.ι uh) (DualX.ι udl) (DualX.ι udr) Bool.false (x, 1) =
                        Except.ok
                          ((TailsWhole.cubicValT e tb minW minH eps thr uw uh udl udr x,
                              Real.exp (TailsWhole.cubicLdT e tb minW minH eps thr uw uh udl udr x)),
                            (TailsWhole.cubicLdT e tb minW minH eps thr uw uh udl udr x, l'), []) ∧
                      HasDerivAt (TailsWhole.cubicValT e tb minW minH eps thr uw uh udl udr)
                        (Real.exp (TailsWhole.cubicLdT e tb minW minH eps thr uw uh udl udr x)) x :=
  @DualXMore.cubicTails_dual_all

theorem cbrt_not_differentiable_at_zero :
    ¬DifferentiableAt ℝ CubicRoots.cbrt 0 :=
  @DualXCubicInv.cbrt_not_differentiableAt_zero

theorem cubic_inverse_dual_input_direction_witness :
    ∀ (y : ℝ),
      0 ≤ y →
        y ≤ 1 →
          ∃ (L : ℝ × ℝ),
            NF.cubicSpline (NF.dualX (NF.realX CubicInverseWhole.eI)) CubicWhole.cNV [DualX.ι 0] [DualX.ι 0]
                (DualX.ι (-Real.log 6)) (DualX.ι (Real.log (4 / 3))) Bool.true (y, 1) =
              Except.ok
                ((CubicInverseWhole.inv CubicInverseWhole.eI CubicWhole.cNV [0] [0] (-Real.log 6) (Real.log (4 / 3)) y,
                    7 * CubicRoots.cbrt (1 + 7 * y) / (3 * (1 + 7 * y))),
                  L, []) :=
  @DualXCubicInv.cubicSpline_dual_inv_witness

theorem cubic_inverse_dual_parameter_gradient_wrong :
    (∃ (L : ℝ × ℝ),
        NF.cubicSpline (NF.dualX (NF.realX CubicInverseWhole.eI)) CubicWhole.cNV [DualX.ι 0] [DualX.ι 0] (-Real.log 6, 1)
            (DualX.ι (Real.log (4 / 3))) Bool.true (DualX.ι 0) =
          Except.ok ((0, 48 / 7), L, [])) ∧
      HasDerivAt (fun (θ : ℝ) => CubicInverseWhole.inv CubicInverseWhole.eI CubicWhole.cNV [0] [0] θ (Real.log (4 / 3)) 0) 0
          (-Real.log 6) ∧
        ¬HasDerivAt
            (fun (θ : ℝ) => CubicInverseWhole.inv CubicInverseWhole.eI CubicWhole.cNV [0] [0] θ (Real.log (4 / 3)) 0)
            (48 / 7) (-Real.log 6) :=
  @DualXCubicInv.dual_param_gradient_wrong

end Properties.C16
