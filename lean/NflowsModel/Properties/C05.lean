import NflowsModel.Lemmas.DistReal
import NflowsModel.Lemmas.AutoregDensity
import Mathlib.MeasureTheory.Constructions.Pi
import Mathlib.MeasureTheory.Integral.IntervalIntegral.Basic
import Mathlib.LinearAlgebra.Matrix.Determinant.Basic
/-!
# C05 — base distributions are normalised, sample their own density, report true means

Property theorems only.  Every statement is about the definitions the driver executes (`Core/Dist.lean`, generic in
`XOps α`) instantiated at the real numbers (`realX e`, for an arbitrary interpretation `e` of Python double constants),
or about the shallow real formula a bridge lemma of `Lemmas/DistReal` identifies them with.  Tensors are flat lists:
an event of shape `s` is a list of `numel s` reals, so "any event shape" is "any `D`".  Every list of length `D` is
`List.ofFn f` for some `f : Fin D → ℝ` (`DistReal.exists_ofFn`).
-/
open MeasureTheory ProbabilityTheory DualSound NF NF.Density DistReal

namespace Properties.C05
noncomputable section
variable (e : Float → ℝ)

/-! ## Normal family -/

/-- the code's `_log_z = 0.5 * D * log(2π)` (normal.py:18-21), as executed -/
theorem logZ_exec (D : ℕ) : logZ (realX e) D = (1/2) * D * Real.log (2 * Real.pi) := logZ_real e D

/-- `StandardNormal` is the `μ = 0`, `log σ = 0` instance of the diagonal normal (executed rows agree) -/
theorem stdNormal_exec_is_diag {D : ℕ} (x : Fin D → ℝ) :
    stdNormalRow (realX e) D (List.ofFn x)
      = diagNormalRow (realX e) D (List.ofFn fun _ : Fin D => (0:ℝ)) (List.ofFn fun _ : Fin D => (0:ℝ)) (List.ofFn x) := by
  rw [stdNormalRow_real, diagNormalRow_real]
  simp [Gaussian.stdNormalLogp, Gaussian.diagNormalLogp]

/-- the executed diagonal-normal row is a product of 1-D Gaussian densities with variance `exp(2·log σ)` -/
theorem diagNormal_logp_eq {D : ℕ} (μ ls x : Fin D → ℝ) :
    Real.exp (diagNormalRow (realX e) D (List.ofFn μ) (List.ofFn ls) (List.ofFn x))
      = ∏ i, gaussianPDFReal (μ i) (Gaussian.var (ls i)) (x i) := by
  rw [diagNormalRow_real]
  simp_rw [← Gaussian.gauss_factor]
  rw [← Real.exp_sum]
  congr 1
  unfold Gaussian.diagNormalLogp
  simp only [Finset.sum_sub_distrib, Finset.mul_sum, Finset.sum_const, Finset.card_univ, Fintype.card_fin, nsmul_eq_mul]
  ring

/-- `exp(StandardNormal._log_prob x) = ∏ᵢ N(xᵢ; 0, 1)` for every event size -/
theorem stdNormal_logp_eq {D : ℕ} (x : Fin D → ℝ) :
    Real.exp (stdNormalRow (realX e) D (List.ofFn x)) = ∏ i, gaussianPDFReal 0 1 (x i) := by
  rw [stdNormal_exec_is_diag, diagNormal_logp_eq]
  have : Gaussian.var 0 = 1 := by
    apply NNReal.coe_injective; simp
  simp [this]

/-- **StandardNormal is normalised** for every event size `D` (hence every event shape, `D = numel shape`) -/
theorem stdNormal_normalised (D : ℕ) :
    ∫ x : Fin D → ℝ, Real.exp (stdNormalRow (realX e) D (List.ofFn x)) = 1 := by
  simp_rw [stdNormal_exec_is_diag, diagNormalRow_real]
  exact Gaussian.diagNormal_normalised _ _

theorem stdNormal_normalised_shape (shape : List ℕ) :
    ∫ x : Fin (numel shape) → ℝ, Real.exp (stdNormalRow (realX e) (numel shape) (List.ofFn x)) = 1 :=
  stdNormal_normalised e _

/-- what `StandardNormal.log_prob` returns when the shapes agree: one executed row per input row -/
theorem stdNormalLogProb_ok {α : Type} (o : XOps α) (shape : List ℕ) (rows : List (List α)) :
    stdNormalLogProb o shape shape none rows = .ok (rows.map (stdNormalRow o (numel shape))) := by
  simp [stdNormalLogProb, baseCheck, shapeCheck, bind, Except.bind, pure, Except.pure]

/-- **DiagonalNormal is normalised** for every mean, log-std and event size -/
theorem diagNormal_normalised {D : ℕ} (μ ls : Fin D → ℝ) :
    ∫ x : Fin D → ℝ, Real.exp (diagNormalRow (realX e) D (List.ofFn μ) (List.ofFn ls) (List.ofFn x)) = 1 := by
  simp_rw [diagNormalRow_real]
  exact Gaussian.diagNormal_normalised μ ls

theorem diagNormalLogProb_ok {α : Type} (o : XOps α) (shape : List ℕ) (mean logStd : List α) (rows : List (List α)) :
    diagNormalLogProb o shape shape none mean logStd rows = .ok (rows.map (diagNormalRow o (numel shape) mean logStd)) := by
  simp [diagNormalLogProb, baseCheck, shapeCheck, bind, Except.bind, pure, Except.pure]

/-- **ConditionalDiagonalNormal is normalised per context row**: whatever (means, log_stds) the context encoder
    produced for a row (any two lists of the event size), the executed row density integrates to one -/
theorem condNormal_row_normalised {D : ℕ} (means logStds : List ℝ) (hm : means.length = D) (hl : logStds.length = D) :
    ∫ x : Fin D → ℝ, Real.exp (diagNormalRow (realX e) D means logStds (List.ofFn x)) = 1 := by
  obtain ⟨μ, rfl⟩ := exists_ofFn means hm
  obtain ⟨ls, rfl⟩ := exists_ofFn logStds hl
  exact diagNormal_normalised e μ ls

/-- **mean**: `∫ xᵢ · p(x) dx = μᵢ`, product form, every `D`; the executed `mean()` returns exactly this `μ`
    (`diagNormalMean (List.ofFn μ) = List.ofFn μ`, `condNormalMean` = the means half of the parameters) -/
theorem diagNormal_mean {D : ℕ} (μ ls : Fin D → ℝ) (i : Fin D) :
    ∫ x : Fin D → ℝ, x i * Real.exp (diagNormalRow (realX e) D (List.ofFn μ) (List.ofFn ls) (List.ofFn x)) = μ i := by
  simp_rw [diagNormal_logp_eq]
  have h1 : ∀ x : Fin D → ℝ, x i * ∏ j, gaussianPDFReal (μ j) (Gaussian.var (ls j)) (x j)
      = ∏ j, ((if j = i then x j else 1) * gaussianPDFReal (μ j) (Gaussian.var (ls j)) (x j)) := by
    intro x
    rw [Finset.prod_mul_distrib, Finset.prod_ite_eq' Finset.univ i (fun j => x j)]
    simp
  simp_rw [h1]
  rw [integral_fintype_prod_volume_eq_prod (fun j (t : ℝ) => (if j = i then t else 1) * gaussianPDFReal (μ j) (Gaussian.var (ls j)) t)]
  have h2 : ∀ j, ∫ t : ℝ, (if j = i then t else 1) * gaussianPDFReal (μ j) (Gaussian.var (ls j)) t = if j = i then μ i else 1 := by
    intro j
    by_cases hj : j = i
    · subst hj
      simp only [if_true]
      have key : ∫ x : ℝ, gaussianPDFReal (μ j) (Gaussian.var (ls j)) x • x = μ j := by
        rw [← integral_gaussianReal_eq_integral_smul (Gaussian.var_ne_zero _)]; exact integral_id_gaussianReal
      calc ∫ t : ℝ, t * gaussianPDFReal (μ j) (Gaussian.var (ls j)) t
          = ∫ x : ℝ, gaussianPDFReal (μ j) (Gaussian.var (ls j)) x • x := by
            congr 1; funext t; simp [mul_comm]
        _ = μ j := key
    · simp only [if_neg hj, one_mul]
      exact integral_gaussianPDFReal_eq_one _ (Gaussian.var_ne_zero _)
  simp_rw [h2]
  rw [Finset.prod_ite_eq' Finset.univ i (fun _ => μ i)]
  simp

theorem diagNormalMean_exec {D : ℕ} (μ : Fin D → ℝ) : diagNormalMean (List.ofFn μ) = List.ofFn μ := rfl

/-- `StandardNormal.mean()` is the zero vector and that is the expectation -/
theorem stdNormal_mean {D : ℕ} (i : Fin D) :
    ∫ x : Fin D → ℝ, x i * Real.exp (stdNormalRow (realX e) D (List.ofFn x)) = 0 := by
  simp_rw [stdNormal_exec_is_diag]
  exact diagNormal_mean e (fun _ => 0) (fun _ => 0) i

/-- **sampling map** `μ + exp(log σ)·ε` (normal.py:119-127) pushes the standard normal to `N(μ, exp(2 log σ))` -/
theorem normal_sampling_map (μ ls : ℝ) :
    (gaussianReal 0 1).map (fun ε => μ + Real.exp ls * ε) = gaussianReal μ (Gaussian.var ls) := by
  have h : (fun ε => μ + Real.exp ls * ε) = (fun y => y + μ) ∘ (fun ε => Real.exp ls * ε) := by
    funext ε; simp [add_comm]
  rw [h, ← Measure.map_map (measurable_add_const μ) (measurable_const_mul (Real.exp ls)),
    gaussianReal_map_const_mul, gaussianReal_map_add_const]
  congr 1
  · simp
  · apply NNReal.coe_injective
    simp only [mul_one, NNReal.coe_mk, Gaussian.var_coe]
    rw [← Real.exp_nat_mul]; norm_num

/-- the executed 1-D row -/
theorem diagNormalRow_one (μ ls x : ℝ) :
    diagNormalRow (realX e) 1 [μ] [ls] [x] = -(1/2) * ((x - μ) * Real.exp (-ls))^2 - ls - (1/2) * Real.log (2 * Real.pi) := by
  have := diagNormalRow_real e (D := 1) (fun _ => μ) (fun _ => ls) (fun _ => x)
  simp only [List.ofFn_succ, List.ofFn_zero] at this
  rw [this]
  simp [Gaussian.diagNormalLogp]

/-- **samples follow the density**: the law of `μ + σ·ε`, `ε ~ N(0,1)`, has density `exp(log_prob)` (as executed) w.r.t. Lebesgue -/
theorem normal_sample_follows_density (μ ls : ℝ) :
    (gaussianReal 0 1).map (fun ε => μ + Real.exp ls * ε)
      = volume.withDensity (fun x => ENNReal.ofReal (Real.exp (diagNormalRow (realX e) 1 [μ] [ls] [x]))) := by
  rw [normal_sampling_map, gaussianReal_of_var_ne_zero _ (Gaussian.var_ne_zero ls), gaussianPDF_def]
  congr 1
  funext x
  rw [diagNormalRow_one, Gaussian.gauss_factor]

/-- product form: coordinate-wise `μᵢ + σᵢ·εᵢ` pushes the standard normal on `ℝᴰ` to the product of the `N(μᵢ, σᵢ²)` -/
theorem normal_sampling_map_pi {D : ℕ} (μ ls : Fin D → ℝ) :
    (Measure.pi fun _ : Fin D => gaussianReal 0 1).map (fun ε i => μ i + Real.exp (ls i) * ε i)
      = Measure.pi fun i => gaussianReal (μ i) (Gaussian.var (ls i)) := by
  have : ∀ i, SigmaFinite ((gaussianReal 0 1).map (fun ε => μ i + Real.exp (ls i) * ε)) := by
    intro i; rw [normal_sampling_map]; infer_instance
  rw [Measure.pi_map_pi (μ := fun _ : Fin D => gaussianReal 0 1) (f := fun i ε => μ i + Real.exp (ls i) * ε)
    (fun i => (Measurable.aemeasurable (by fun_prop)))]
  congr 1
  funext i
  exact normal_sampling_map (μ i) (ls i)

/-- the executed sampling map on one context row / one draw is exactly that coordinate-wise map -/
theorem normalSampleMap_exec {D : ℕ} (μ ls ε : Fin D → ℝ) :
    normalSampleMap (realX e) [List.ofFn μ] [List.ofFn ls] 1 [List.ofFn ε]
      = [List.ofFn fun i => μ i + Real.exp (ls i) * ε i] := by
  simp [normalSampleMap, List.map_ofFn, zipWith3_ofFn, Function.comp]


/-! ## ConditionalIndependentBernoulli -/

/-- **total probability one** by exact summation over `{0,1}ᴰ`, every `D`, every logits (ideal softplus) -/
theorem bernoulli_sum_one {D : ℕ} (logits : Fin D → ℝ) :
    ∑ x : Fin D → Bool, Real.exp (∑ i, Bernoulli.bernLogp (logits i) (x i)) = 1 :=
  Bernoulli.bernoulli_sum_one logits

/- Full-strength statement for the EXECUTED formula (`F.softplus` has `threshold=20`: above it the code returns its
   argument, not `log(1+eˣ)`):   ∀ logits, Σ_x exp(bernRow (realX e) logits x) = 1.
   It is false beyond the threshold (`bernoulli_threshold_counterexample`: the total mass at logit 21 is
   `1 + e⁻⁴²/(1+e⁻²¹)`, 6e-19 above one — below binary64 resolution); the forced hypothesis is `|lᵢ| ≤ 20`. -/
theorem bernoulli_exec_sum_one_partial {D : ℕ} (logits : Fin D → ℝ) (h : ∀ i, |logits i| ≤ 20) :
    ∑ x : Fin D → Bool, Real.exp (bernRow (realX e) (List.ofFn logits) (List.ofFn fun i => Bernoulli.ind (x i))) = 1 := by
  simp_rw [bernRow_real e logits _ h]
  exact Bernoulli.bernoulli_sum_one logits

theorem bernoulli_threshold_counterexample :
    Real.exp (bernRow (realX e) [21] [1]) + Real.exp (bernRow (realX e) [21] [0]) ≠ 1 := by
  have h1 : bernRow (realX e) [21] [1] = -Real.log (1 + Real.exp (-21)) := by
    simp [bernRow, sumG, realX_softplus]; norm_num
  have h0 : bernRow (realX e) [21] [0] = -21 := by
    simp [bernRow, sumG, realX_softplus]; norm_num
  rw [h1, h0, Real.exp_neg (Real.log _), Real.exp_log (by positivity)]
  have ha : 0 < Real.exp (-21) := Real.exp_pos _
  intro h
  have h2 : (1 + Real.exp (-21))⁻¹ + Real.exp (-21) - 1 = Real.exp (-21) ^ 2 / (1 + Real.exp (-21)) := by
    field_simp; ring
  have h3 : 0 < Real.exp (-21) ^ 2 / (1 + Real.exp (-21)) := by positivity
  linarith

/-- **mean**: `Σ_x xᵢ·p(x) = σ(lᵢ)` (ideal softplus), every `D` -/
theorem bernoulli_mean {D : ℕ} (logits : Fin D → ℝ) (i : Fin D) :
    ∑ x : Fin D → Bool, Bernoulli.ind (x i) * Real.exp (∑ j, Bernoulli.bernLogp (logits j) (x j))
      = 1 / (1 + Real.exp (-(logits i))) :=
  DistReal.bernoulli_mean logits i

/-- the executed `mean()` (`sigmoid(logits)`, discrete.py:70-72) is the expectation of the executed density -/
theorem bernoulli_exec_mean_partial {D : ℕ} (logits : Fin D → ℝ) (h : ∀ i, |logits i| ≤ 20) (i : Fin D) :
    ∑ x : Fin D → Bool, Bernoulli.ind (x i)
        * Real.exp (bernRow (realX e) (List.ofFn logits) (List.ofFn fun j => Bernoulli.ind (x j)))
      = (realX e).sigmoid (logits i) := by
  simp_rw [bernRow_real e logits _ h]
  rw [DistReal.bernoulli_mean, realX_sigmoid]

/-- **sampling map** `[u < sigmoid(l)]` (discrete.py:58-68): under `u ~ U[0,1)` the executed indicator is 1 with
    probability `sigmoid(l)` -/
theorem bernoulli_sampling_map (l : ℝ) :
    volume {u : ℝ | 0 ≤ u ∧ u < 1 ∧ (if (realX e).lt u ((realX e).sigmoid l) then (1:ℝ) else 0) = 1}
      = ENNReal.ofReal ((realX e).sigmoid l) := by
  rw [realX_sigmoid]
  have hp : 0 < 1 / (1 + Real.exp (-l)) := by positivity
  have hp1 : 1 / (1 + Real.exp (-l)) < 1 := by
    rw [div_lt_one (by positivity)]; linarith [Real.exp_pos (-l)]
  have : {u : ℝ | 0 ≤ u ∧ u < 1 ∧ (if (realX e).lt u (1 / (1 + Real.exp (-l))) then (1:ℝ) else 0) = 1}
      = Set.Ico 0 (1 / (1 + Real.exp (-l))) := by
    ext u
    simp only [Set.mem_ofPred_eq, Set.mem_Ico, realX_lt, decide_eq_true_eq]
    constructor
    · rintro ⟨h0, _, h2⟩
      refine ⟨h0, ?_⟩
      by_contra hc
      rw [if_neg hc] at h2; norm_num at h2
    · rintro ⟨h0, h1⟩
      exact ⟨h0, by linarith, by rw [if_pos h1]⟩
  rw [this, Real.volume_Ico, sub_zero]

/-- … and that probability is `exp(log_prob(x = 1))` of the (ideal) density: samples follow the density -/
theorem bernoulli_sample_follows_density (l : ℝ) :
    1 / (1 + Real.exp (-l)) = Real.exp (Bernoulli.bernLogp l true) := by
  have : Bernoulli.bernLogp l true = - Bernoulli.softplus (-l) := by
    simp [Bernoulli.bernLogp, Bernoulli.ind]
  rw [this, Bernoulli.exp_neg_softplus]

/-! ## MixtureOfGaussiansMADE -/

/-- the executed `log_softmax` gives mixture weights that sum to one (any non-empty logit list) -/
theorem logSoftmax_exec_sum_one (xs : List ℝ) (h : xs ≠ []) :
    ((logSoftmaxG (realX e) xs).map Real.exp).sum = 1 := logSoftmax_sum_one e xs h

/-- the executed `softplus(u) + ε` is positive for every `u` (including above the softplus threshold) -/
theorem mogStd_exec_pos (eps : ℝ) (heps : 0 < eps) (u : ℝ) : 0 < mogStd (realX e) eps u := mogStd_pos e eps heps u

/-- **each conditional of the mixture is normalised**: for every number of components `M ≥ 1`, every MADE output
    (logits, means, unconstrained stds) and every `ε > 0`, `∫ exp(mogFeature …) = 1` — on the executed definition -/
theorem mog_feature_exec_normalised {M : ℕ} (hM : 0 < M) (eps : ℝ) (heps : 0 < eps) (lg μ u : Fin M → ℝ) :
    ∫ x : ℝ, Real.exp (mogFeature (realX e) eps (List.ofFn lg) (List.ofFn μ) (List.ofFn u) x) = 1 := by
  simp_rw [mogFeature_real e hM]
  apply MoG.mog_feature_normalised _ _ _ (fun k => mogStd_pos e eps heps (u k))
  have hne : List.ofFn lg ≠ [] := by
    intro hnil
    have := congrArg List.length hnil
    simp at this; omega
  have := logSoftmax_sum_one e (List.ofFn lg) hne
  unfold logSoftmaxG at this
  simp only [sumG_real, List.map_ofFn, List.sum_ofFn, Function.comp, realX_sub, realX_log, realX_exp] at this
  simp only [List.sum_ofFn]
  exact this

/-- **the joint of the autoregressive mixture is normalised, every number of features `D`** (Tonelli + induction,
    `AutoregDensity.joint_lintegral`).  `lg i y`, `μ i y`, `u i y` are the MADE outputs for feature `i` as functions of
    the prefix `y = x_{<i}` only — that is the autoregressive property proved in C06 (`made_autoregressive`); their
    measurability in the prefix is the only regularity assumed of the network.  The integrand is
    `exp(Σ_i mogFeature …) = exp(mogRow …)`, the executed `MixtureOfGaussiansMADE.log_prob` (made.py:340-352). -/
theorem mog_joint_normalised {M : ℕ} (hM : 0 < M) (eps : ℝ) (heps : 0 < eps)
    (lg μ u : (i : ℕ) → (Fin i → ℝ) → Fin M → ℝ)
    (hlg : ∀ i k, Measurable fun y => lg i y k) (hμ : ∀ i k, Measurable fun y => μ i y k)
    (hu : ∀ i k, Measurable fun y => u i y k) (D : ℕ) :
    ∫⁻ x : Fin D → ℝ, ∏ i : Fin D, ENNReal.ofReal (Real.exp (mogFeature (realX e) eps
        (List.ofFn (lg i (AutoregDensity.pre x i))) (List.ofFn (μ i (AutoregDensity.pre x i)))
        (List.ofFn (u i (AutoregDensity.pre x i))) (x i))) = 1 := by
  apply AutoregDensity.joint_lintegral
    (fun i y t => ENNReal.ofReal (Real.exp (mogFeature (realX e) eps (List.ofFn (lg i y)) (List.ofFn (μ i y)) (List.ofFn (u i y)) t)))
  · intro i
    exact ENNReal.measurable_ofReal.comp (Real.measurable_exp.comp
      (measurable_mogFeature e hM eps (lg i) (μ i) (u i) (hlg i) (hμ i) (hu i)))
  · intro i y
    have h1 := mog_feature_exec_normalised e hM eps heps (lg i y) (μ i y) (u i y)
    rw [← ofReal_integral_eq_lintegral_ofReal (integrable_of_integral_eq_one h1)
      (Filter.Eventually.of_forall (fun t => (Real.exp_pos _).le)), h1, ENNReal.ofReal_one]

/-- the executed row log-density is the sum of the per-feature conditionals (so `exp` of it is the product above) -/
theorem mogRow_eq_sum {α : Type} (o : XOps α) (eps : α) (F M : ℕ) (out x : List α) :
    mogRow o eps F M out x = sumG o ((List.range F).map (fun f =>
      mogFeature o eps (mogColumn M out f 0 o.zero) (mogColumn M out f 1 o.zero) (mogColumn M out f 2 o.zero) (x.getD f o.zero))) := rfl

/-- the executed density of one conditional is the softmax-weighted sum of the component Gaussian densities -/
theorem mogFeature_exec_density {M : ℕ} (hM : 0 < M) (eps : ℝ) (heps : 0 < eps) (lg μ u : Fin M → ℝ) (x : ℝ) :
    Real.exp (mogFeature (realX e) eps (List.ofFn lg) (List.ofFn μ) (List.ofFn u) x)
      = ∑ k, (Real.exp (lg k) / ∑ j, Real.exp (lg j))
          * gaussianPDFReal (μ k) (MoG.var (mogStd (realX e) eps (u k)) (mogStd_pos e eps heps (u k))) x := by
  have hS : 0 < ∑ j, Real.exp (lg j) :=
    Finset.sum_pos (fun j _ => Real.exp_pos _) ⟨⟨0, hM⟩, Finset.mem_univ _⟩
  rw [mogFeature_closed e hM]
  have hpos : 0 < ∑ k, Real.exp ((lg k - Real.log (∑ j, Real.exp (lg j)))
      - (1/2) * (Real.log (2 * Real.pi) + 2 * Real.log (softplusT (u k) + eps) + ((x - μ k) / (softplusT (u k) + eps))^2)) :=
    Finset.sum_pos (fun j _ => Real.exp_pos _) ⟨⟨0, hM⟩, Finset.mem_univ _⟩
  rw [Real.exp_log hpos]
  apply Finset.sum_congr rfl
  intro k _
  have := MoG.term_eq (fun k => lg k - Real.log (∑ j, Real.exp (lg j))) μ (fun k => mogStd (realX e) eps (u k))
    (fun k => mogStd_pos e eps heps (u k)) x k
  unfold MoG.mogTerm at this
  simp only [mogStd_real] at this ⊢
  rw [this, Real.exp_sub, Real.exp_log hS]

/-- **ancestral sampling step follows the conditional density** (made.py:364-386): drawing component `k` with the
    softmax probability (torch `Categorical`, trusted) and returning `μ_k + ε·σ_k`, `ε ~ N(0,1)`, has law with density
    `exp(mogFeature …)` — the executed conditional `log_prob` — w.r.t. Lebesgue measure -/
theorem mog_sample_follows_density {M : ℕ} (hM : 0 < M) (eps : ℝ) (heps : 0 < eps) (lg μ u : Fin M → ℝ) :
    (∑ k : Fin M, ENNReal.ofReal (Real.exp (lg k) / ∑ j, Real.exp (lg j))
        • (gaussianReal 0 1).map (fun ε => μ k + ε * mogStd (realX e) eps (u k)))
      = volume.withDensity (fun x => ENNReal.ofReal
          (Real.exp (mogFeature (realX e) eps (List.ofFn lg) (List.ofFn μ) (List.ofFn u) x))) := by
  have hS : 0 < ∑ j, Real.exp (lg j) :=
    Finset.sum_pos (fun j _ => Real.exp_pos _) ⟨⟨0, hM⟩, Finset.mem_univ _⟩
  have hmap : ∀ k, (gaussianReal 0 1).map (fun ε => μ k + ε * mogStd (realX e) eps (u k))
      = gaussianReal (μ k) (MoG.var (mogStd (realX e) eps (u k)) (mogStd_pos e eps heps (u k))) := by
    intro k
    set c := mogStd (realX e) eps (u k)
    have h : (fun ε => μ k + ε * c) = (fun y => y + μ k) ∘ (fun ε => ε * c) := by
      funext ε; simp [add_comm]
    rw [h, ← Measure.map_map (measurable_add_const (μ k)) (measurable_mul_const c),
      gaussianReal_map_mul_const, gaussianReal_map_add_const]
    congr 1
    · simp
    · apply NNReal.coe_injective; simp [c]
  simp_rw [hmap, mogFeature_exec_density e hM eps heps]
  ext s hs
  rw [withDensity_apply _ hs]
  simp only [Measure.coe_finsetSum, Measure.coe_smul, Finset.sum_apply, Pi.smul_apply, smul_eq_mul]
  have hterm : ∀ x, ENNReal.ofReal (∑ k, (Real.exp (lg k) / ∑ j, Real.exp (lg j))
        * gaussianPDFReal (μ k) (MoG.var (mogStd (realX e) eps (u k)) (mogStd_pos e eps heps (u k))) x)
      = ∑ k, ENNReal.ofReal (Real.exp (lg k) / ∑ j, Real.exp (lg j))
        * gaussianPDF (μ k) (MoG.var (mogStd (realX e) eps (u k)) (mogStd_pos e eps heps (u k))) x := by
    intro x
    rw [ENNReal.ofReal_sum_of_nonneg]
    · apply Finset.sum_congr rfl
      intro k _
      rw [ENNReal.ofReal_mul (by positivity)]; rfl
    · intro k _
      exact mul_nonneg (by positivity) (gaussianPDFReal_nonneg _ _ _)
  simp_rw [hterm]
  rw [lintegral_finsetSum]
  · apply Finset.sum_congr rfl
    intro k _
    rw [lintegral_const_mul _ (measurable_gaussianPDF _ _),
      gaussianReal_apply _ (MoG.var_ne_zero _ (mogStd_pos e eps heps (u k))) s]
  · intro k _
    exact (measurable_gaussianPDF _ _).const_mul _

/-- the executed sampling step is that map -/
theorem mogSampleStep_exec {M : ℕ} (eps : ℝ) (out : List ℝ) (f k : ℕ) (noise : ℝ) :
    mogSampleStep (realX e) eps M out f k noise
      = (mogColumn M out f 1 0).getD k 0 + noise * mogStd (realX e) eps ((mogColumn M out f 2 0).getD k 0) := by
  simp [mogSampleStep]

/- Full-strength statement "sampling is offered for every context, including none" is FALSE of the code:
   `MixtureOfGaussiansMADE.sample(context=None)` dereferences `None.shape` (made.py:362) — finding F15 (known).
   With a context the model (and the code) returns samples. -/
theorem mogSample_context_partial {α : Type} (o : XOps α) (eps : α) (F M R N : ℕ) (passes : List (List (List α)))
    (comps : List (List ℕ)) (noise : List (List α)) :
    ∃ v, mogSample o eps F M (some R) N passes comps noise = .ok v := ⟨_, rfl⟩

theorem mogSample_no_context_counterexample {α : Type} (o : XOps α) (eps : α) (F M N : ℕ) (passes : List (List (List α)))
    (comps : List (List ℕ)) (noise : List (List α)) :
    mogSample o eps F M none N passes comps noise = .error .attributeError := rfl

/-! ## gaussian_kde_log_eval -/

/-- **the KDE is a normalised density in the query** for every sample set with `N ≥ 1` and every dimension `D`
    (equal-weight mixture of isotropic Gaussians with std `N^(-1/(D+4))`), on the executed definition -/
theorem kde_exec_normalised {N D : ℕ} (hN : 0 < N) (S : Fin N → Fin D → ℝ) :
    ∫ q : Fin D → ℝ, Real.exp (kdeLogEval (realX e) D (List.ofFn fun n => List.ofFn (S n)) (List.ofFn q)) = 1 := by
  simp_rw [kdeLogEval_real e hN]
  have hint : ∀ n : Fin N, Integrable (fun q : Fin D → ℝ =>
      (N : ℝ)⁻¹ * Real.exp (Gaussian.diagNormalLogp (S n) (fun _ => Real.log (kdeStd (realX e) N D)) q)) := by
    intro n
    exact (integrable_of_integral_eq_one (Gaussian.diagNormal_normalised (S n) _)).const_mul _
  rw [integral_finsetSum _ (fun n _ => hint n)]
  simp_rw [integral_const_mul, Gaussian.diagNormal_normalised, mul_one]
  simp only [Finset.sum_const, Finset.card_univ, Fintype.card_fin, nsmul_eq_mul]
  have : (N : ℝ) ≠ 0 := by exact_mod_cast hN.ne'
  field_simp

/-- the bandwidth the code uses: `std = N^(-1/(D+4)) > 0` -/
theorem kdeStd_exec (N D : ℕ) : kdeStd (realX e) N D = Real.exp (-(1 / ((D + 4 : ℕ) : ℝ)) * Real.log N) ∧ 0 < kdeStd (realX e) N D :=
  ⟨kdeStd_real e N D, kdeStd_pos e N D⟩


/-! ## uniform-module priors -/

/-- **MG1Uniform**: the parameter↔noise matrices of the code are mutually inverse and volume preserving, so the
    prior is the push-forward of the box uniform by a measure-preserving linear map -/
theorem mg1_volume : mg1A.det = 1 ∧ mg1A * mg1Ainv = 1 ∧ mg1Ainv * mg1A = 1 := by
  refine ⟨by simp [mg1A, Matrix.det_fin_three], ?_, ?_⟩ <;>
  · ext i j
    fin_cases i <;> fin_cases j <;> simp [mg1A, mg1Ainv, Matrix.mul_apply, Fin.sum_univ_three]

/-- the executed `_to_noise` / `_to_parameters` are those matrices and undo each other -/
theorem mg1_exec (a b c : ℝ) :
    mg1ToNoise (realX e) [a, b, c] = List.ofFn (Matrix.vecMul ![a, b, c] mg1A) ∧
    mg1ToParams (realX e) [a, b, c] = List.ofFn (Matrix.vecMul ![a, b, c] mg1Ainv) ∧
    mg1ToNoise (realX e) (mg1ToParams (realX e) [a, b, c]) = [a, b, c] := by
  refine ⟨?_, ?_, ?_⟩
  · simp [mg1ToNoise, mg1A, List.ofFn_succ]; ring
  · simp [mg1ToParams, mg1Ainv, List.ofFn_succ]
  · simp [mg1ToNoise, mg1ToParams]

/-- **BoxUniform is normalised**, every dimension and every non-degenerate box: the executed log-density is
    `-Σ log(highᵢ - lowᵢ)` inside and the density (0 outside) integrates to one -/
theorem boxUniform_normalised {D : ℕ} (l h : Fin D → ℝ) (hlh : ∀ i, l i < h i) :
    ∫ x : Fin D → ℝ, (if insideBox (realX e) (List.ofFn l) (List.ofFn h) (List.ofFn x) = true
        then Real.exp (boxUniformRow (realX e) (List.ofFn l) (List.ofFn h) (List.ofFn x)) else 0) = 1 := by
  have hfac : ∀ x : Fin D → ℝ, (if insideBox (realX e) (List.ofFn l) (List.ofFn h) (List.ofFn x) = true
        then Real.exp (boxUniformRow (realX e) (List.ofFn l) (List.ofFn h) (List.ofFn x)) else 0)
      = ∏ i, (Set.Ico (l i) (h i)).indicator (fun _ => (h i - l i)⁻¹) (x i) := by
    intro x
    by_cases hin : ∀ i, l i ≤ x i ∧ x i < h i
    · rw [if_pos ((insideBox_real e l h x).mpr hin), boxUniformRow_real e l h x hin, ← Finset.sum_neg_distrib, Real.exp_sum]
      apply Finset.prod_congr rfl
      intro i _
      rw [Set.indicator_of_mem (show x i ∈ Set.Ico (l i) (h i) from hin i), Real.exp_neg,
        Real.exp_log (by linarith [hlh i])]
    · rw [if_neg (fun hc => hin ((insideBox_real e l h x).mp hc))]
      push Not at hin
      obtain ⟨i, hi⟩ := hin
      symm
      apply Finset.prod_eq_zero (Finset.mem_univ i)
      apply Set.indicator_of_notMem
      intro hm; exact absurd hm.2 (not_lt.mpr (hi hm.1))
  simp_rw [hfac]
  rw [integral_fintype_prod_volume_eq_prod (fun i (t : ℝ) => (Set.Ico (l i) (h i)).indicator (fun _ => (h i - l i)⁻¹) t)]
  apply Finset.prod_eq_one
  intro i _
  rw [integral_indicator measurableSet_Ico, setIntegral_const, Real.volume_real_Ico_of_le (hlh i).le, smul_eq_mul]
  exact mul_inv_cancel₀ (by linarith [hlh i])

/-! ## truncated Gaussian prior (LotkaVolterraOscillating) -/

/-- **the code's erf formula is the Gaussian box mass**: with `erf z = 2/√π ∫₀ᶻ e^{-t²} dt`,
    `½(erf((b-μ)/(σ√2)) - erf((a-μ)/(σ√2))) = ∫ₐᵇ N(x; μ, σ²) dx`  (uniform.py:63-70 after fix 7cc288d).
    The executable model evaluates `erf` by a series / continued fraction that is only checked numerically. -/
theorem erf_mass (μ σ a b : ℝ) (hσ : 0 < σ) :
    (1/2) * (erfR ((b - μ) / (σ * Real.sqrt 2)) - erfR ((a - μ) / (σ * Real.sqrt 2)))
      = ∫ x in a..b, gaussianPDFReal μ (sqNN σ) x := by
  have hc : σ * Real.sqrt 2 ≠ 0 := by positivity
  have hg : ∀ u v : ℝ, IntervalIntegrable (fun t : ℝ => Real.exp (-t ^ 2)) volume u v :=
    fun u v => (by fun_prop : Continuous fun t : ℝ => Real.exp (-t ^ 2)).intervalIntegrable u v
  unfold erfR
  rw [← mul_sub, intervalIntegral.integral_interval_sub_left (hg _ _) (hg _ _)]
  have hpdf : ∀ x, gaussianPDFReal μ (sqNN σ) x
      = (Real.sqrt (2 * Real.pi * σ ^ 2))⁻¹ * Real.exp (-(x / (σ * Real.sqrt 2) - μ / (σ * Real.sqrt 2)) ^ 2) := by
    intro x
    unfold gaussianPDFReal
    simp only [sqNN_coe]
    congr 2
    rw [← sub_div, div_pow, mul_pow, Real.sq_sqrt (by norm_num : (0:ℝ) ≤ 2)]
    field_simp
  simp_rw [hpdf]
  rw [intervalIntegral.integral_const_mul,
    intervalIntegral.integral_comp_div_sub (fun t : ℝ => Real.exp (-t ^ 2)) hc (μ / (σ * Real.sqrt 2)), smul_eq_mul]
  have e1 : a / (σ * Real.sqrt 2) - μ / (σ * Real.sqrt 2) = (a - μ) / (σ * Real.sqrt 2) := by ring
  have e2 : b / (σ * Real.sqrt 2) - μ / (σ * Real.sqrt 2) = (b - μ) / (σ * Real.sqrt 2) := by ring
  rw [e1, e2, ← mul_assoc, ← mul_assoc]
  congr 1
  have h2pi : Real.sqrt (2 * Real.pi * σ ^ 2) = Real.sqrt 2 * Real.sqrt Real.pi * σ := by
    rw [Real.sqrt_mul (by positivity), Real.sqrt_sq hσ.le, Real.sqrt_mul (by norm_num)]
  rw [h2pi]
  have : Real.sqrt Real.pi ≠ 0 := by positivity
  have : Real.sqrt 2 ≠ 0 := by positivity
  field_simp

/-- the same mass as a set integral over the box `[a, b)` of the code -/
theorem erf_mass_box (μ σ a b : ℝ) (hσ : 0 < σ) (hab : a ≤ b) :
    (1/2) * (erfR ((b - μ) / (σ * Real.sqrt 2)) - erfR ((a - μ) / (σ * Real.sqrt 2)))
      = gaussMass μ (sqNN σ) a b := by
  rw [erf_mass μ σ a b hσ, gaussMass_eq_interval _ _ hab]

/-- **the truncated-Gaussian prior is normalised** (every dimension, every box, every mean, every σ > 0): with the
    log-normaliser `-Σ log(mass of N(μᵢ, σ²) on [aᵢ, bᵢ))` the EXECUTED `lotkaRow` (normaliser + Gaussian + support
    indicator, uniform.py:72-80 after fix e7d89ee) integrates to one over the box -/
theorem truncGauss_normalised {D : ℕ} (σ : ℝ) (hσ : 0 < σ) (μ a b : Fin D → ℝ) (hab : ∀ i, a i < b i) :
    ∫ x : Fin D → ℝ, (if insideBox (realX e) (List.ofFn a) (List.ofFn b) (List.ofFn x) = true
        then Real.exp (lotkaRow (realX e) (-∑ i, Real.log (gaussMass (μ i) (Gaussian.var (Real.log σ)) (a i) (b i)))
              σ (List.ofFn μ) (List.ofFn a) (List.ofFn b) (List.ofFn x)) else 0) = 1 := by
  set nrm := -∑ i, Real.log (gaussMass (μ i) (Gaussian.var (Real.log σ)) (a i) (b i)) with hnrm
  have hfac : ∀ x : Fin D → ℝ, (if insideBox (realX e) (List.ofFn a) (List.ofFn b) (List.ofFn x) = true
        then Real.exp (lotkaRow (realX e) nrm σ (List.ofFn μ) (List.ofFn a) (List.ofFn b) (List.ofFn x)) else 0)
      = Real.exp nrm * ∏ i, (Set.Ico (a i) (b i)).indicator (gaussianPDFReal (μ i) (Gaussian.var (Real.log σ))) (x i) := by
    intro x
    by_cases hin : insideBox (realX e) (List.ofFn a) (List.ofFn b) (List.ofFn x) = true
    · have hin' := (insideBox_real e a b x).mp hin
      rw [if_pos hin]
      unfold lotkaRow
      simp only [hin, if_true, realX_add, realX_zero, add_zero]
      rw [isoNormalRow_real e σ hσ, Real.exp_add, diagNormal_factor]
      congr 1
      apply Finset.prod_congr rfl
      intro i _
      rw [Set.indicator_of_mem (show x i ∈ Set.Ico (a i) (b i) from hin' i)]
    · rw [if_neg hin]
      have hin' : ¬ ∀ i, a i ≤ x i ∧ x i < b i := fun hc => hin ((insideBox_real e a b x).mpr hc)
      push Not at hin'
      obtain ⟨i, hi⟩ := hin'
      symm
      apply mul_eq_zero_of_right
      apply Finset.prod_eq_zero (Finset.mem_univ i)
      apply Set.indicator_of_notMem
      intro hm; exact absurd hm.2 (not_lt.mpr (hi hm.1))
  simp_rw [hfac]
  rw [integral_const_mul,
    integral_fintype_prod_volume_eq_prod (fun i (t : ℝ) => (Set.Ico (a i) (b i)).indicator (gaussianPDFReal (μ i) (Gaussian.var (Real.log σ))) t)]
  have hm : ∀ i, ∫ t : ℝ, (Set.Ico (a i) (b i)).indicator (gaussianPDFReal (μ i) (Gaussian.var (Real.log σ))) t
      = gaussMass (μ i) (Gaussian.var (Real.log σ)) (a i) (b i) := by
    intro i; rw [integral_indicator measurableSet_Ico]; rfl
  simp_rw [hm]
  rw [hnrm, ← Finset.sum_neg_distrib, Real.exp_sum, ← Finset.prod_mul_distrib]
  apply Finset.prod_eq_one
  intro i _
  have hp := gaussMass_pos (μ i) (Gaussian.var (Real.log σ)) (Gaussian.var_ne_zero _) (hab i)
  rw [Real.exp_neg, Real.exp_log hp]
  exact inv_mul_cancel₀ hp.ne'

/-- the variance used above is the code's `σ²` -/
theorem var_log_sigma (σ : ℝ) (hσ : 0 < σ) : Gaussian.var (Real.log σ) = (sqNN σ) := by
  apply NNReal.coe_injective
  simp only [Gaussian.var_coe, sqNN_coe]
  rw [show 2 * Real.log σ = Real.log σ + Real.log σ by ring, Real.exp_add, Real.exp_log hσ]; ring


/-! ## non-vacuity: the hypotheses are satisfiable by concrete non-trivial data -/

example : ∃ l : Fin 2 → ℝ, (∀ i, |l i| ≤ 20) ∧ l 0 ≠ l 1 :=
  ⟨![3, -7], by intro i; fin_cases i <;> norm_num, by norm_num⟩
/-- the code's `epsilon = 1e-2`, five components -/
example : (0:ℝ) < 1 / 100 ∧ 0 < 5 := by norm_num
/-- the Lotka box `[-5, 2)⁴`, `σ = 1/2` -/
example : (∀ _i : Fin 4, (-5:ℝ) < 2) ∧ (0:ℝ) < 1 / 2 := ⟨fun _ => by norm_num, by norm_num⟩
/-- a non-constant measurable "MADE output" as a function of the prefix -/
example : ∀ (i : ℕ) (k : Fin 3), Measurable fun y : Fin i → ℝ => (k : ℝ) + ∑ j, y j := by
  intro i k; fun_prop
example : ∃ S : Fin 2 → Fin 1 → ℝ, S 0 ≠ S 1 := ⟨fun n _ => n, by intro h; have := congrFun h 0; simp at this⟩

end
end Properties.C05
