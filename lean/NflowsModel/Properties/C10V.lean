import NflowsModel.Properties.C10
import NflowsModel.Lemmas.CachePaths
/-!
# C10 (continued) — the cached and the uncached code paths agree IN VALUE

`Properties/C10.lean` is a state machine over version tags: it proves that a cached result is never STALE.  That the cached path
(`F.linear(x, weight(), bias)` / `F.linear(x − bias, weight_inverse())` with the matrices the cache holds) computes the same VALUES as
`forward_no_cache` / `inverse_no_cache` (two triangular products / two triangular solves, Householder products, …) was an
assumption (external audit, C10 finding 1).  Here it is a theorem about the executed linear-family model over the reals, for every
parameter value: LU, QR, SVD, the 1×1 convolution; for `NaiveLinear` by specification of one Gauss–Jordan elimination — discharged since in `Properties/C11G.lean` — (which also
pins the combined routine `weight_inverse_and_logabsdet` to the separate accessors — the "minus log-det" mutant is excluded);
`current_version_denotes_current_value` composes the version-level theorem with this into agreement in value.  Bitwise agreement in
floats is false (different operation order) and stays with the lock-step histories.
-/
set_option linter.all false
namespace Properties.C10

theorem lu_cached_paths_agree :
    ∀ (p : NF.LF.LUParams ℝ),
      p.udiag.length = p.n →
        0 ≤ p.eps →
          p.bias.length = p.n →
            ∀ (X : List (List ℝ)),
              (∀ x ∈ X, x.length = p.n) →
                NF.CachePaths.ValueTransparent DualSound.realOps (NF.CachePaths.luAcc DualSound.realOps p) X ∧
                  ∃ (W : Matrix (Fin p.n) (Fin p.n) ℝ) (Winv : Matrix (Fin p.n) (Fin p.n) ℝ),
                    NF.LF.luWeight DualSound.realOps p = LinearBridge.ofMat W ∧
                      NF.LF.luWeightInverse DualSound.realOps p = LinearBridge.ofMat Winv ∧
                        Winv * W = 1 ∧
                          W * Winv = 1 ∧
                            NF.LF.luLogabsdet DualSound.realOps p = Real.log |W.det| ∧
                              -NF.LF.luLogabsdet DualSound.realOps p = Real.log |Winv.det| :=
  @NF.CachePaths.lu_cache_paths

theorem qr_cached_paths_agree :
    ∀ (p : NF.LF.QRParams ℝ) (vs : List (Fin p.n → ℝ)),
      p.qs = List.map List.ofFn vs →
        (∀ v ∈ vs, v ⬝ᵥ v ≠ 0) →
          p.logDiag.length = p.n →
            p.bias.length = p.n →
              ∀ (X : List (List ℝ)),
                (∀ x ∈ X, x.length = p.n) →
                  NF.CachePaths.ValueTransparent DualSound.realOps (NF.CachePaths.qrAcc DualSound.realOps p) X ∧
                    ∃ (W : Matrix (Fin p.n) (Fin p.n) ℝ) (Winv : Matrix (Fin p.n) (Fin p.n) ℝ),
                      NF.LF.qrWeight DualSound.realOps p = LinearBridge.ofMat W ∧
                        NF.LF.qrWeightInverse DualSound.realOps p = LinearBridge.ofMat Winv ∧
                          Winv * W = 1 ∧
                            W * Winv = 1 ∧
                              NF.LF.qrLogabsdet DualSound.realOps p = Real.log |W.det| ∧
                                -NF.LF.qrLogabsdet DualSound.realOps p = Real.log |Winv.det| :=
  @NF.CachePaths.qr_cache_paths

theorem svd_cached_paths_agree :
    ∀ (p : NF.LF.SVDParams ℝ) (vs1 vs2 : List (Fin p.n → ℝ)),
      p.qs1 = List.map List.ofFn vs1 →
        p.qs2 = List.map List.ofFn vs2 →
          (∀ v ∈ vs1, v ⬝ᵥ v ≠ 0) →
            (∀ v ∈ vs2, v ⬝ᵥ v ≠ 0) →
              p.udiag.length = p.n →
                0 ≤ p.eps →
                  p.bias.length = p.n →
                    ∀ (X : List (List ℝ)),
                      (∀ x ∈ X, x.length = p.n) →
                        NF.CachePaths.ValueTransparent DualSound.realOps (NF.CachePaths.svdAcc DualSound.realOps p) X ∧
                          ∃ (W : Matrix (Fin p.n) (Fin p.n) ℝ) (Winv : Matrix (Fin p.n) (Fin p.n) ℝ),
                            NF.LF.svdWeight DualSound.realOps p = LinearBridge.ofMat W ∧
                              NF.LF.svdWeightInverse DualSound.realOps p = LinearBridge.ofMat Winv ∧
                                Winv * W = 1 ∧
                                  W * Winv = 1 ∧
                                    NF.LF.svdLogabsdet DualSound.realOps p = Real.log |W.det| ∧
                                      -NF.LF.svdLogabsdet DualSound.realOps p = Real.log |Winv.det| :=
  @NF.CachePaths.svd_cache_paths

theorem conv_cached_forward_agrees :
    ∀ (p : NF.LF.LUParams ℝ),
      p.bias.length = p.n →
        ∀ (perm : List ℕ) (B H W : ℕ) (xs : List ℝ),
          NF.LF.convUnrows DualSound.realOps B p.n H W
              (NF.CachePaths.cachedForward DualSound.realOps (NF.LF.luWeight DualSound.realOps p) p.bias
                (NF.LF.convRows DualSound.realOps B p.n H W (NF.LF.permuteChannels DualSound.realOps B p.n H W perm xs))) =
            (NF.LF.convForward DualSound.realOps p perm B H W xs).1 :=
  @NF.CachePaths.conv_cached_forward

theorem conv_cached_inverse_agrees :
    ∀ (p : NF.LF.LUParams ℝ),
      p.udiag.length = p.n →
        0 ≤ p.eps →
          p.bias.length = p.n →
            ∀ (perm : List ℕ) (B H W : ℕ) (xs : List ℝ),
              NF.LF.permuteChannels DualSound.realOps B p.n H W
                  (List.map (fun (c : ℕ) => List.idxOf c perm) (List.range p.n))
                  (NF.LF.convUnrows DualSound.realOps B p.n H W
                    (NF.CachePaths.cachedInverse DualSound.realOps (NF.LF.luWeightInverse DualSound.realOps p) p.bias
                      (NF.LF.convRows DualSound.realOps B p.n H W xs))) =
                (NF.LF.convInverse DualSound.realOps p perm B H W xs).1 :=
  @NF.CachePaths.conv_cached_inverse

theorem naive_combined_routine_agrees :
    ∀ {α : Type} (o : Ops α) (n : ℕ) (W Winv : List (List α)) (pivs : List α),
      NF.LF.gaussInverse o n W = Except.ok (Winv, pivs) →
        NF.CachePaths.naiveCombinedInv o n W = Except.ok (Winv, NF.LF.naiveLogabsdet o n W) ∧
          pivs = NF.CachePaths.naivePivots o n W :=
  @NF.CachePaths.naive_combined_eq

theorem cache_fill_invariant :
    ∀ {α : Type} (combined : List (List α) × α) (single : List (List α)) (ld : α)
      (cM : Option (List (List α))) (cLd : Option α),
      combined = (single, ld) →
        (∀ (m : List (List α)), cM = Option.some m → m = single) →
          (∀ (l : α), cLd = Option.some l → l = ld) → NF.CachePaths.checkCache combined single ld cM cLd = (single, ld) :=
  @NF.CachePaths.checkCache_eq

theorem current_version_denotes_current_value :
    ∀ {α : Type} (o : Ops α) (neg : α → α) (A : ℕ → NF.CachePaths.Accessors α) (cur : ℕ)
      (X : List (List α)),
      NF.CachePaths.ValueTransparent o (A cur) X →
        ∀ (d d' : Cache.DT),
          NF.CachePaths.denoteFwd o A cur X (Cache.Out.ok cur d cur d') =
              Option.some ((A cur).forwardNoCache X, (A cur).logabsdet) ∧
            NF.CachePaths.denoteInv o neg A cur X (Cache.Out.ok cur d cur d') =
              Option.some ((A cur).inverseNoCache X, neg (A cur).logabsdet) :=
  @NF.CachePaths.denote_current

end Properties.C10
