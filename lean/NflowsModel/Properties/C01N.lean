import NflowsModel.Properties.C01
import NflowsModel.Lemmas.NaiveGauss
/-!
# C01 (continued) — NaiveLinear as a Jacobian

With `Lemmas/NaiveGauss.lean` the last linear layer joins `Properties/C01L.lean`: the executed NaiveLinear passes are affine row maps
with derivative `jac W` (inverse: `jac W⁻¹`), and every entry of the returned log-abs-det vector is `log |det|` of that derivative, for
every `W` with `det W ≠ 0`; the inverse row map no longer assumes a specification of the elimination.
-/
set_option linter.all false
namespace Properties.C01

theorem naive_logdet_is_log_abs_det_fderiv :
    ∀ {n : ℕ} (W : Matrix (Fin n) (Fin n) ℝ),
      W.det ≠ 0 →
        ∀ (b : List ℝ),
          b.length = n →
            LinearJacobian.PassIs n (NaiveGauss.naiveForwardLd DualSound.realOps n (LinearBridge.ofMat W) b)
              (LinearJacobian.naiveRow DualSound.realOps (LinearBridge.ofMat W) b)
              (LinearJacobian.affine W (LinearBridge.vecFn n b)) W :=
  @NaiveGauss.naive_logdet_is_log_abs_det_fderiv

theorem naive_logdet_is_log_abs_det_fderiv_inverse :
    ∀ {n : ℕ} (W : Matrix (Fin n) (Fin n) ℝ),
      W.det ≠ 0 →
        ∀ (b : List ℝ),
          b.length = n →
            LinearJacobian.PassIs n (NaiveGauss.naiveInverseLd DualSound.realOps n (LinearBridge.ofMat W) b)
                (LinearJacobian.naiveInvRow DualSound.realOps n (LinearBridge.ofMat W) b)
                (LinearJacobian.invAffine W (LinearBridge.vecFn n b)) W⁻¹ ∧
              Real.log |(LinearJacobian.jac W⁻¹).det| = -Real.log |(LinearJacobian.jac W).det| :=
  @NaiveGauss.naive_logdet_is_log_abs_det_fderiv_inverse

theorem naive_inverse_row_is_affine :
    ∀ {n : ℕ} (W : Matrix (Fin n) (Fin n) ℝ),
      W.det ≠ 0 →
        ∀ (b : List ℝ),
          b.length = n →
            ∀ (y : Fin n → ℝ),
              LinearJacobian.naiveInvRow DualSound.realOps n (LinearBridge.ofMat W) b (List.ofFn y) =
                List.ofFn (LinearJacobian.invAffine W (LinearBridge.vecFn n b) y) :=
  @NaiveGauss.naive_inverse_row_is_affine

end Properties.C01
