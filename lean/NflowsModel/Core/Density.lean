import NflowsModel.Core.Basic
/-!
# Core/Dist — executable model of the density-returning objects of nflows (C05), Mathlib-free

Generic in `XOps α` (run at `floatX` by the driver, at `realX` in the theorems of `Properties/C05`).
Tensors are flat row-major lists, a batch is a list of rows; shapes are `List Nat`.
Randomness is an input: every sampling function takes the noise tensor the code draws.

Mirrors (current `/repo`, after the `fix:` commits):
* `nflows/distributions/base.py:22-40,124-130`     — `log_prob` row check, `mean` dispatch
* `nflows/distributions/normal.py:11-180`          — Standard / ConditionalDiagonal / Diagonal normal
* `nflows/distributions/discrete.py:10-72`         — ConditionalIndependentBernoulli
* `nflows/nn/nde/made.py:328-388`                  — MixtureOfGaussiansMADE.log_prob / sample (given the MADE output)
* `nflows/distributions/mixture.py:38-42`          — MADEMoG delegation
* `nflows/distributions/uniform.py:8-102`          — BoxUniform, MG1Uniform, LotkaVolterraOscillating
* `nflows/utils/torchutils.py:168-177`             — gaussian_kde_log_eval
-/

namespace NF.Density
variable {α : Type}

/-- error kinds of the distribution interface: the shared enum plus the three extra Python exceptions seen here -/
inductive DErr where
  | base (e : Err) | notImplemented | attributeError | noMean
deriving Repr, DecidableEq, Inhabited

def DErr.name : DErr → String
  | .base e => e.name | .notImplemented => "NotImplementedError" | .attributeError => "AttributeError"
  | .noMean => "NoMeanException"

def valueErr : DErr := .base .valueError
def runtimeErr : DErr := .base .runtime

/-- number of elements of a shape (`np.prod(shape)`) -/
def numel (s : List Nat) : Nat := s.foldl (· * ·) 1

/-- chunk a flat list into rows of length `d` -/
def rowsOf (d : Nat) (n : Nat) (flat : List α) : List (List α) :=
  (List.range n).map (fun i => (flat.drop (i * d)).take d)

/-! ## constants -/

/-- π as the code's `np.pi`: `4·atan 1` (bit-identical to `np.pi` in binary64; `Real.pi` at `realX`) -/
def piG (o : XOps α) : α := o.mul (o.ofRat 4 1) (o.atan o.one)
/-- `np.log(2 * np.pi)` -/
def log2piG (o : XOps α) : α := o.log (o.mul o.two (piG o))
/-- `_log_z = 0.5 * np.prod(shape) * np.log(2 * np.pi)`  (normal.py:18-21, 70-73, 150-153) -/
def logZ (o : XOps α) (D : Nat) : α := o.mul (o.mul (o.ofRat 1 2) (o.ofNat D)) (log2piG o)

/-! ## `Distribution.log_prob` wrapper (base.py:22-40) -/

/-- base.py:34-39: with a context, the number of input rows must equal the number of context rows -/
def baseCheck (B : Nat) (ctxRows : Option Nat) : Except DErr Unit :=
  match ctxRows with
  | some R => if B != R then .error valueErr else .ok ()
  | none => .ok ()

/-- `if inputs.shape[1:] != self._shape: raise ValueError` (normal.py:25, 96, 156; discrete.py:42) -/
def shapeCheck (shape inShape : List Nat) : Except DErr Unit :=
  if inShape != shape then .error valueErr else .ok ()

/-! ## normal distributions -/

/-- one row of `StandardNormal._log_prob` (normal.py:31-33): `-0.5 * sum(x**2) - _log_z` -/
def stdNormalRow (o : XOps α) (D : Nat) (x : List α) : α :=
  o.sub (o.mul (o.ofRat (-1) 2) (sumG o (x.map o.sq))) (logZ o D)

/-- one row of `ConditionalDiagonalNormal._log_prob` / `DiagonalNormal._log_prob` (normal.py:108-114, 168-174):
    `norm = (x - means) * exp(-log_stds)`; `-0.5*sum(norm**2) - sum(log_stds) - _log_z` -/
def diagNormalRow (o : XOps α) (D : Nat) (means logStds x : List α) : α :=
  let norm := zipWith3 (fun xi m ls => o.mul (o.sub xi m) (o.exp (o.neg ls))) x means logStds
  let lp := o.mul (o.ofRat (-1) 2) (sumG o (norm.map o.sq))
  let lp := o.sub lp (sumG o logStds)
  o.sub lp (logZ o D)

/-- `StandardNormal.log_prob` (base.py:22-40 + normal.py:23-33); the context value is ignored -/
def stdNormalLogProb (o : XOps α) (shape inShape : List Nat) (ctxRows : Option Nat) (rows : List (List α)) :
    Except DErr (List α) := do
  baseCheck rows.length ctxRows
  shapeCheck shape inShape
  pure (rows.map (stdNormalRow o (numel shape)))

/-- `DiagonalNormal.log_prob` (normal.py:155-174): parameters `mean_`, `log_std_` of shape `[1, D]` are reshaped to
    `[1, *shape]` and broadcast over the batch; the context is ignored -/
def diagNormalLogProb (o : XOps α) (shape inShape : List Nat) (ctxRows : Option Nat) (mean logStd : List α)
    (rows : List (List α)) : Except DErr (List α) := do
  baseCheck rows.length ctxRows
  shapeCheck shape inShape
  pure (rows.map (diagNormalRow o (numel shape) mean logStd))

/-- `params[..., :split]`, `params[..., split:]` on one flat parameter row whose last dimension is `L`
    (normal.py:90-92): the halves of every chunk of length `L`, concatenated -/
def splitHalves (L : Nat) (flat : List α) : List α × List α :=
  let chunks := rowsOf L (flat.length / L) flat
  (chunks.flatMap (fun c => c.take (L / 2)), chunks.flatMap (fun c => c.drop (L / 2)))

/-- `ConditionalDiagonalNormal._compute_params` (normal.py:75-93) given the context-encoder OUTPUT
    (`pB = params.shape[0]`, `pShape = params.shape[1:]`, rows flat): (means, log_stds) per context row -/
def condNormalParams (shape : List Nat) (ctxRows : Option Nat) (pB : Nat) (pShape : List Nat)
    (params : List (List α)) : Except DErr (List (List α) × List (List α)) :=
  match ctxRows with
  | none => .error valueErr                                         -- "Context can't be None."
  | some R =>
    let L := (pB :: pShape).getLast?.getD 0
    if L % 2 != 0 then .error runtimeErr                            -- last dimension must be even
    else if pB != R then .error runtimeErr                          -- batch dimension inconsistent
    else if numel pShape / 2 != numel shape then .error runtimeErr  -- reshape(params.shape[0], *shape) fails
    else .ok (params.map (fun p => (splitHalves L p).1), params.map (fun p => (splitHalves L p).2))

/-- `ConditionalDiagonalNormal.log_prob` (base.py:22-40 + normal.py:95-114) -/
def condNormalLogProb (o : XOps α) (shape inShape : List Nat) (ctxRows : Option Nat) (pB : Nat) (pShape : List Nat)
    (params rows : List (List α)) : Except DErr (List α) := do
  baseCheck rows.length ctxRows
  shapeCheck shape inShape
  let (means, logStds) ← condNormalParams shape ctxRows pB pShape params
  pure ((List.range rows.length).map (fun i =>
    diagNormalRow o (numel shape) (means.getD i []) (logStds.getD i []) (rows.getD i [])))

/-- sampling map of a diagonal normal (normal.py:116-128): `means, stds` are `repeat_rows`-ed `n` times, so
    flat row `i*n + j` of the noise is paired with context row `i`; result `[R, n, *shape]` flat -/
def normalSampleMap (o : XOps α) (means logStds : List (List α)) (n : Nat) (noise : List (List α)) : List (List α) :=
  (List.range means.length).flatMap (fun i =>
    (List.range n).map (fun j =>
      let stds := (logStds.getD i []).map o.exp
      zipWith3 (fun m s e => o.add m (o.mul s e)) (means.getD i []) stds (noise.getD (i * n + j) [])))

/-- `ConditionalDiagonalNormal.sample` as a function of the noise `torch.randn(R*n, *shape)` -/
def condNormalSample (o : XOps α) (shape : List Nat) (ctxRows : Option Nat) (pB : Nat) (pShape : List Nat)
    (params : List (List α)) (n : Nat) (noise : List (List α)) : Except DErr (List (List α)) := do
  let (means, logStds) ← condNormalParams shape ctxRows pB pShape params
  pure (normalSampleMap o means logStds n noise)

/-- `StandardNormal._sample` (normal.py:35-43): the noise itself, split as `[R, n, *shape]` (same flat order) -/
def stdNormalSample (noise : List (List α)) : List (List α) := noise

/-- `StandardNormal._mean` (normal.py:45-50): zeros of shape `[*shape]` or `[R, *shape]` -/
def stdNormalMean (o : XOps α) (shape : List Nat) (ctxRows : Option Nat) : List (List α) :=
  List.replicate (ctxRows.getD 1) (List.replicate (numel shape) o.zero)

/-- `ConditionalDiagonalNormal._mean` (normal.py:130-132) -/
def condNormalMean (shape : List Nat) (ctxRows : Option Nat) (pB : Nat) (pShape : List Nat)
    (params : List (List α)) : Except DErr (List (List α)) := do
  let (means, _) ← condNormalParams shape ctxRows pB pShape params
  pure means

/-- `DiagonalNormal._mean` (normal.py:179-180, after fix a68e44e): the parameter `mean_` reshaped to `shape` -/
def diagNormalMean (mean : List α) : List α := mean

/-- `DiagonalNormal._sample` (normal.py:176-177) -/
def diagNormalSample : Except DErr (List (List α)) := .error .notImplemented

/-! ## ConditionalIndependentBernoulli (discrete.py) -/

/-- `_compute_params` (discrete.py:28-39) given the encoder output: logits per context row -/
def bernParams (shape : List Nat) (ctxRows : Option Nat) (pB : Nat) (pShape : List Nat)
    (params : List (List α)) : Except DErr (List (List α)) :=
  match ctxRows with
  | none => .error valueErr
  | some R =>
    if pB != R then .error runtimeErr
    else if numel pShape != numel shape then .error runtimeErr      -- logits.reshape(B, *shape) fails
    else .ok params

/-- one row of discrete.py:54-55: `sum(-x * softplus(-l) - (1 - x) * softplus(l))` -/
def bernRow (o : XOps α) (logits x : List α) : α :=
  sumG o (List.zipWith (fun xi l =>
    o.sub (o.mul (o.neg xi) (o.softplus (o.neg l))) (o.mul (o.sub o.one xi) (o.softplus l))) x logits)

def bernLogProb (o : XOps α) (shape inShape : List Nat) (ctxRows : Option Nat) (pB : Nat) (pShape : List Nat)
    (params rows : List (List α)) : Except DErr (List α) := do
  baseCheck rows.length ctxRows
  shapeCheck shape inShape
  let logits ← bernParams shape ctxRows pB pShape params
  pure ((List.range rows.length).map (fun i => bernRow o (logits.getD i []) (rows.getD i [])))

/-- `_mean` (discrete.py:70-72): `sigmoid(logits)` -/
def bernMean (o : XOps α) (shape : List Nat) (ctxRows : Option Nat) (pB : Nat) (pShape : List Nat)
    (params : List (List α)) : Except DErr (List (List α)) := do
  let logits ← bernParams shape ctxRows pB pShape params
  pure (logits.map (fun r => r.map o.sigmoid))

/-- sampling map (discrete.py:58-68): `(noise < repeat_rows(sigmoid(logits), n)).float()` with `noise = torch.rand(R*n, *shape)` -/
def bernSampleMap (o : XOps α) (logits : List (List α)) (n : Nat) (noise : List (List α)) : List (List α) :=
  (List.range logits.length).flatMap (fun i =>
    (List.range n).map (fun j =>
      List.zipWith (fun l u => if o.lt u (o.sigmoid l) then o.one else o.zero) (logits.getD i []) (noise.getD (i * n + j) [])))

def bernSample (o : XOps α) (shape : List Nat) (ctxRows : Option Nat) (pB : Nat) (pShape : List Nat)
    (params : List (List α)) (n : Nat) (noise : List (List α)) : Except DErr (List (List α)) := do
  let logits ← bernParams shape ctxRows pB pShape params
  pure (bernSampleMap o logits n noise)

/-! ## MixtureOfGaussiansMADE (nn/nde/made.py:328-388), given the MADE output -/

/-- `torch.log_softmax(x, dim=-1)`: `x - max - log(sum(exp(x - max)))` -/
def logSoftmaxG (o : XOps α) (xs : List α) : List α :=
  let m := maxG o xs
  let s := o.log (sumG o (xs.map (fun x => o.exp (o.sub x m))))
  xs.map (fun x => o.sub (o.sub x m) s)

/-- `torch.logsumexp(x, dim=-1)`: `log(sum(exp(x - max))) + max` -/
def logSumExpG (o : XOps α) (xs : List α) : α :=
  let m := maxG o xs
  o.add (o.log (sumG o (xs.map (fun x => o.exp (o.sub x m))))) m

/-- `stds = F.softplus(unconstrained_stds) + self.epsilon` (made.py:338, 376) -/
def mogStd (o : XOps α) (eps : α) (u : α) : α := o.add (o.softplus u) eps

/-- one component term of made.py:342-348:
    `log_mix_k - 0.5 * (log(2π) + 2*log(σ_k) + ((x - μ_k)/σ_k)**2)` -/
def mogTermG (o : XOps α) (x : α) (lp m s : α) : α :=
  o.sub lp (o.mul (o.ofRat 1 2)
    (o.add (o.add (log2piG o) (o.mul o.two (o.log s))) (o.sq (o.div (o.sub x m) s))))

/-- one feature's conditional log-density given its `M` (logit, mean, unconstrained std) triples -/
def mogFeature (o : XOps α) (eps : α) (logits means ustds : List α) (x : α) : α :=
  let lp := logSoftmaxG o logits
  let stds := ustds.map (mogStd o eps)
  logSumExpG o (zipWith3 (mogTermG o x) lp means stds)

/-- the `(*inputs.shape, M, 3)` reshape (made.py:330): column `c` (0 logits, 1 means, 2 unconstrained stds) of feature `f`
    from one flat MADE output row of length `F*M*3` -/
def mogColumn (M : Nat) (out : List α) (f c : Nat) (d : α) : List α :=
  (List.range M).map (fun k => out.getD ((f * M + k) * 3 + c) d)

/-- one row of `MixtureOfGaussiansMADE.log_prob`: sum over features (made.py:340-352) -/
def mogRow (o : XOps α) (eps : α) (F M : Nat) (out x : List α) : α :=
  sumG o ((List.range F).map (fun f =>
    mogFeature o eps (mogColumn M out f 0 o.zero) (mogColumn M out f 1 o.zero) (mogColumn M out f 2 o.zero) (x.getD f o.zero)))

/-- `MADEMoG.log_prob` through `Distribution.log_prob` (base.py:22-40, mixture.py:38-39) -/
def mogLogProb (o : XOps α) (eps : α) (F M : Nat) (ctxRows : Option Nat) (outs rows : List (List α)) :
    Except DErr (List α) := do
  baseCheck rows.length ctxRows
  pure ((List.range rows.length).map (fun i => mogRow o eps F M (outs.getD i []) (rows.getD i [])))

/-- one pass of ancestral sampling (made.py:364-386): feature `f` of row `r` is
    `μ_k + noise * σ_k` with `k` the drawn component, parameters from the MADE output of THIS pass -/
def mogSampleStep (o : XOps α) (eps : α) (M : Nat) (out : List α) (f : Nat) (k : Nat) (noise : α) : α :=
  let m := (mogColumn M out f 1 o.zero).getD k o.zero
  let s := mogStd o eps ((mogColumn M out f 2 o.zero).getD k o.zero)
  o.add m (o.mul noise s)

/-- `MixtureOfGaussiansMADE.sample` as a function of the per-pass MADE outputs, drawn components and noise
    (`passes[f][r]` = output row `r` of pass `f`); without a context the code dereferences `None.shape` (made.py:362) -/
def mogSample (o : XOps α) (eps : α) (F M : Nat) (ctxRows : Option Nat) (N : Nat) (passes : List (List (List α)))
    (comps : List (List Nat)) (noise : List (List α)) : Except DErr (List (List α)) :=
  match ctxRows with
  | none => .error .attributeError
  | some _ =>
    .ok ((List.range N).map (fun r => (List.range F).map (fun f =>
      mogSampleStep o eps M ((passes.getD f []).getD r []) f ((comps.getD f []).getD r 0) ((noise.getD f []).getD r o.zero))))

/-! ## gaussian_kde_log_eval (torchutils.py:168-177) -/

/-- `std = N ** (-1 / (D + 4))` -/
def kdeStd (o : XOps α) (N D : Nat) : α :=
  o.exp (o.mul (o.neg (o.div o.one (o.ofNat (D + 4)))) (o.log (o.ofNat N)))

/-- `c_n = -0.5 * sum(a * (a @ (1/std² · I)))`, `a = query - samples[n]` -/
def kdeQuad (o : XOps α) (std : α) (s q : List α) : α :=
  let prec := o.div o.one (o.sq std)
  o.mul (o.ofRat (-1) 2) (sumG o (List.zipWith (fun qi si => let a := o.sub qi si; o.mul a (o.mul a prec)) q s))

/-- `d = -log N - (D/2) log 2π - D log std` -/
def kdeConst (o : XOps α) (N D : Nat) (std : α) : α :=
  o.sub (o.sub (o.neg (o.log (o.ofNat N))) (o.mul (o.div (o.ofNat D) o.two) (log2piG o))) (o.mul (o.ofNat D) (o.log std))

/-- `gaussian_kde_log_eval(samples[N, D], query[D])` -/
def kdeLogEval (o : XOps α) (D : Nat) (samples : List (List α)) (q : List α) : α :=
  let N := samples.length
  let std := kdeStd o N D
  let d := kdeConst o N D std
  logSumExpG o (samples.map (fun s => o.add (kdeQuad o std s q) d))

/-! ## uniform-module priors (uniform.py) -/

/-- one coordinate of `torch.distributions.Uniform.log_prob`: `log(lb*ub) - log(high - low)`,
    `lb = low <= x`, `ub = x < high` -/
def uniformCoord (o : XOps α) (low high x : α) : α :=
  let inside := o.le low x && o.lt x high
  o.sub (o.log (if inside then o.one else o.zero)) (o.log (o.sub high low))

def insideBox (o : XOps α) (low high x : List α) : Bool :=
  (zipWith3 (fun l h xi => if o.le l xi && o.lt xi h then o.one else o.zero) low high x).all (fun b => o.lt o.zero b)

/-- `BoxUniform.log_prob` (uniform.py:8-33, `Independent(Uniform(validate_args=False), 1)`): sum over the event -/
def boxUniformRow (o : XOps α) (low high x : List α) : α :=
  sumG o (zipWith3 (uniformCoord o) low high x)

/-- `MG1Uniform._to_noise`: `parameters @ [[1,-1,0],[0,1,0],[0,0,1]]` (uniform.py:47-49) -/
def mg1ToNoise (o : XOps α) (p : List α) : List α :=
  match p with
  | [a, b, c] => [a, o.sub b a, c]
  | _ => p
/-- `MG1Uniform._to_parameters`: `noise @ [[1,1,0],[0,1,0],[0,0,1]]` (uniform.py:43-45) -/
def mg1ToParams (o : XOps α) (n : List α) : List α :=
  match n with
  | [a, b, c] => [a, o.add a b, c]
  | _ => n

/-- `MG1Uniform.log_prob` (uniform.py:37-38): torch's `Uniform.log_prob` on the noise, PER COORDINATE (batch
    semantics), with torch's argument validation (`low <= v <= high` else ValueError) -/
def mg1LogProb (o : XOps α) (low high : List α) (p : List α) : Except DErr (List α) :=
  let v := mg1ToNoise o p
  let ok := (zipWith3 (fun l h x => if o.le l x && o.le x h then o.one else o.zero) low high v).all (fun b => o.lt o.zero b)
  if !ok then .error valueErr else .ok (zipWith3 (uniformCoord o) low high v)

/-- erf by the all-positive series `2/√π · e^{-x²} Σ 2^k x^{2k+1}/(2k+1)!!` (120 terms), used for |x| < 3 -/
def erfSeries (o : XOps α) (x : α) : α :=
  let x2 := o.mul o.two (o.mul x x)
  let st := (List.range 120).foldl (fun (st : α × α) k =>
    let t := o.div (o.mul st.1 x2) (o.ofNat (2 * k + 3))
    (t, o.add st.2 t)) (x, x)
  o.mul (o.mul (o.div o.two (o.sqrt (piG o))) (o.exp (o.neg (o.mul x x)))) st.2

/-- erfc for x ≥ 3 by the continued fraction `e^{-x²}/√π / (x + (1/2)/(x + 1/(x + (3/2)/(x + …))))`, depth 80 -/
def erfcCF (o : XOps α) (x : α) : α :=
  let f := (List.range 80).foldl (fun f i => o.add x (o.div (o.div (o.ofNat (80 - i)) o.two) f)) x
  o.div (o.div (o.exp (o.neg (o.mul x x))) (o.sqrt (piG o))) f

/-- the executable `erf` (no `erf` in Lean core): series / continued fraction; checked against `torch.erf` by the
    correspondence, NOT tied to the Gaussian integral by a theorem (trusted base) -/
def erfG (o : XOps α) (x : α) : α :=
  let ax := o.abs x
  if o.lt ax (o.ofRat 3 1) then erfSeries o x
  else
    let v := o.sub o.one (erfcCF o ax)
    if o.lt x o.zero then o.neg v else v

/-- `LotkaVolterraOscillating._log_normalizer` (uniform.py:63-70, after fix 7cc288d):
    `-sum(log(0.5*(erf((b-μ)/(σ√2)) - erf((a-μ)/(σ√2)))))` -/
def truncNormaliser (o : XOps α) (sigma : α) (mu low high : List α) : α :=
  let s2 := o.mul sigma (o.sqrt o.two)
  o.neg (sumG o (zipWith3 (fun m a b =>
    o.log (o.mul (o.ofRat 1 2) (o.sub (erfG o (o.div (o.sub b m) s2)) (erfG o (o.div (o.sub a m) s2))))) mu low high))

/-- `MultivariateNormal(loc, σ²I).log_prob`: `-0.5*(D*log 2π + Σ((x-μ)/σ)²) - Σ log σ` -/
def isoNormalRow (o : XOps α) (sigma : α) (mu x : List α) : α :=
  let D := mu.length
  let M := sumG o (List.zipWith (fun xi m => o.sq (o.div (o.sub xi m) sigma)) x mu)
  let hld := sumG o (mu.map (fun _ => o.log sigma))
  o.sub (o.mul (o.ofRat (-1) 2) (o.add (o.mul (o.ofNat D) (log2piG o)) M)) hld

/-- `LotkaVolterraOscillating.log_prob` (uniform.py:72-80, after fix e7d89ee): normaliser + Gaussian + support
    indicator (0 inside the box, -inf outside) -/
def lotkaRow (o : XOps α) (normaliser sigma : α) (mu low high x : List α) : α :=
  let support := if insideBox o low high x then o.zero else o.log o.zero
  o.add (o.add normaliser (isoNormalRow o sigma mu x)) support

end NF.Density
