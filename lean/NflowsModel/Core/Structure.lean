import NflowsModel.Core.Spline
import NflowsModel.Core.Nonlin
/-!
# Core/Structure — executable model of the tensor-level structure around the element-wise transformers

* `elTransform`  — slicing of a per-element parameter vector into the spline / affine parameters, including the
  `1/sqrt(hidden_features)` scaling policy (coupling.py:357-360, 437-439, 528-535; autoregressive.py:307-309,
  386-388, 478-480) and the scale activations (coupling.py:215-246, autoregressive.py:107-127);
* `couplingApply` — coupling.py:21-145 (2-D and image inputs, any numeric mask, both directions);
* `arApply` — autoregressive.py:36-47 forward pass / one pass of the inverse loop;
* `cdfApply` — nonlinearities.py:232-467 (`Piecewise*CDF`: parameters shared across the batch);
* `sumExceptBatch`.
Tensors are flat row-major arrays with shape `[B, C, S]` (`S` = product of the spatial dims, 1 for 2-D inputs).
-/
namespace NF
variable {α : Type}

structure ElCfg where
  container : String := "coupling"   -- "coupling" | "ar" | "cdf"
  kind : String := "rq"              -- rq | quad | lin | cubic | affine | additive
  tails : Bool := false
  K : Nat := 0
  ds : Array Float := #[]            -- tails: [B, mins…]; bounded: [left,right,bottom,top, mins…]  (as `runSpline`)
  hiddenFeatures : Float := 0.0      -- value of `transform_net.hidden_features` (0 = attribute absent)
  hiddenChannels : Float := 0.0      -- value of `transform_net.hidden_channels` (0 = attribute absent)
  act : String := "default"          -- affine coupling: "default" = sigmoid(x+2)+1e-3, "general" = clamp(softplus(x)+1e-3, 0, 3)

/-- number of conditioner outputs per transformed feature (`_transform_dim_multiplier`, `_output_dim_multiplier`) -/
def ElCfg.mult (c : ElCfg) : Nat :=
  match c.kind with
  | "rq" => if c.tails then 3 * c.K - 1 else 3 * c.K + 1
  | "quad" => if c.tails then 2 * c.K - 1 else 2 * c.K + 1
  | "lin" => c.K
  | "cubic" => 2 * c.K + 2
  | "affine" => 2
  | "additive" => 1
  | _ => 0

/-- which of (widths, heights) get divided by sqrt(hidden) -/
def ElCfg.scaling (c : ElCfg) : Float × Bool × Bool :=
  if c.container == "coupling" then
    match c.kind with
    | "quad" | "cubic" => (c.hiddenFeatures, c.hiddenFeatures != 0.0, c.hiddenFeatures != 0.0)
    | "rq" => if c.hiddenFeatures != 0.0 then (c.hiddenFeatures, true, true)
              else if c.hiddenChannels != 0.0 then (c.hiddenChannels, true, true) else (0.0, false, false)
    | _ => (0.0, false, false)
  else if c.container == "ar" then
    match c.kind with
    | "quad" => (c.hiddenFeatures, c.hiddenFeatures != 0.0, false)
    | "cubic" | "rq" => (c.hiddenFeatures, c.hiddenFeatures != 0.0, c.hiddenFeatures != 0.0)
    | _ => (0.0, false, false)
  else (0.0, false, false)

/-- one element: slice `p` (length `mult`) and apply the transformer. Third component: admissible alternatives. -/
def elTransform (o : XOps α) (c : ElCfg) (inverse : Bool) (p : List α) (x : α) : Except Err (α × α × List α) :=
  let K := c.K
  let (hid, sW, sH) := c.scaling
  let sc (b : Bool) (l : List α) : List α := if b then l.map (fun u => o.div u (o.ofFloat (Float.sqrt hid))) else l
  let d (k : Nat) := c.ds.getD k 0.0
  match c.kind with
  | "rq" =>
    let uw := sc sW (p.take K); let uh := sc sH ((p.drop K).take K); let ud := p.drop (2 * K)
    (if c.tails then rqSplineTails o (d 0) (d 1) (d 2) (d 3) (d 4) uw uh ud inverse x
     else rqSpline o { box := ⟨d 0, d 1, d 2, d 3⟩, minW := d 4, minH := d 5, minD := d 6, beta := d 7 } uw uh ud inverse x).map
      (fun (a, b) => (a, b, []))
  | "quad" =>
    let uw := sc sW (p.take K); let uh := sc sH (p.drop K)
    (if c.tails then tailsWrap o (d 0) x (fun box => quadSpline o { box := box, minW := d 1, minH := d 2 } uw uh inverse x)
     else quadSpline o { box := ⟨d 0, d 1, d 2, d 3⟩, minW := d 4, minH := d 5 } uw uh inverse x).map (fun (a, b) => (a, b, []))
  | "lin" =>
    (if c.tails then tailsWrap o (d 0) x (fun box => linSpline o box 1e-6 p inverse x)
     else linSpline o ⟨d 0, d 1, d 2, d 3⟩ 1e-6 p inverse x).map (fun (a, b) => (a, b, []))
  | "cubic" =>
    let uw := sc sW (p.take K); let uh := sc sH ((p.drop K).take K)
    let udl := p.getD (2 * K) o.zero; let udr := p.getD (2 * K + 1) o.zero
    if c.tails then
      let B := o.ofFloat (d 0)
      if o.ge x (o.neg B) && o.le x B then
        cubicSpline o { box := ⟨-(d 0), d 0, -(d 0), d 0⟩, minW := d 1, minH := d 2, eps := d 3, thr := d 4 } uw uh udl udr inverse x
      else .ok (x, o.zero, [])
    else cubicSpline o { box := ⟨d 0, d 1, d 2, d 3⟩, minW := d 4, minH := d 5, eps := d 6, thr := d 7 } uw uh udl udr inverse x
  | "araffine" =>
    -- autoregressive.py:107-127: p = [unconstrained_scale, shift]; scale = softplus(u) + 1e-3
    let scale := o.add (o.softplus (p.getD 0 o.zero)) (o.ofFloat (d 0))
    (scaleShiftT o scale (p.getD 1 o.zero) inverse x).map (fun (a, b) => (a, b, []))
  | _ => .error .other

/-- `torchutils.sum_except_batch` for a `[B, n]`-shaped flat list -/
def sumRows (o : XOps α) (B : Nat) (xs : Array α) : List α :=
  let n := if B == 0 then 0 else xs.size / B
  (List.range B).map (fun b => (List.range n).foldl (fun acc k => o.add acc (xs.getD (b * n + k) o.zero)) o.zero)

structure TResult (α : Type) where
  out : Array α
  ld : List α                 -- per batch row
  err : Option Err := none
  condIn : Array α := #[]     -- what the conditioner is given (coupling: the identity split)
  alts : List (Nat × List α) := []   -- flat output index ↦ admissible alternative values (cubic inverse)

/-- coupling.py:41-52: identity / transform index lists for any numeric mask (`mask <= 0` / `mask > 0`) -/
def identityIdx (o : XOps α) (mask : List α) : List Nat :=
  (List.range mask.length).filter (fun i => o.le (mask.getD i o.zero) o.zero)
def transformIdx (o : XOps α) (mask : List α) : List Nat :=
  (List.range mask.length).filter (fun i => o.gt (mask.getD i o.zero) o.zero)

/-! ## Pure functional form of the tensor loops

The three nested loops `for b in [0:B] for t in [0:n] for s in [0:S]` of the coupling layer and the two nested loops of
the autoregressive / CDF passes are written as lists in ITERATION ORDER; the mutable state of the loops is recovered
from those lists by left folds (`applyUpd`: writes into the output buffer, `ldFold`: left-to-right accumulation of the
log-dets of a row, `firstErr`: first error raised, `altsOf`: the cons-accumulated alternatives).  Theorems about these
definitions: `Lemmas/StructureExec.lean`. -/

/-- flat row-major index into a `[B, C, S]` tensor -/
@[inline] def flatIdx (C S b ch s : Nat) : Nat := (b * C + ch) * S + s

/-- the outcome of one element-wise transformer call: `(output, log|derivative|, admissible alternative outputs)` -/
abbrev ElRes (α : Type) := Except Err (α × α × List α)

/-- iteration order of `for t in [0:n] for s in [0:S]` -/
def rowIter (n S : Nat) : List (Nat × Nat) := (List.range n).flatMap fun t => (List.range S).map fun s => (t, s)

/-- the first error in iteration order (`if err.isNone then err := some e`) -/
def firstErr (rs : List (ElRes α)) : Option Err :=
  rs.findSome? fun r => match r with | .error e => some e | .ok _ => none

/-- left-to-right accumulation of the log-dets of the successful elements of one row, starting from zero
    (`ldRow[b] := ldRow[b] + l`; floating-point addition is not associative, the order is part of the model) -/
def ldFold (o : XOps α) (rs : List (ElRes α)) : α :=
  rs.foldl (fun acc r => match r with | .ok (_, l, _) => o.add acc l | .error _ => acc) o.zero

/-- the log-det of an element outcome (zero where the element raised) -/
def ldOf (o : XOps α) (r : ElRes α) : α := match r with | .ok (_, l, _) => l | .error _ => o.zero

/-- the output of an element outcome in the element-wise passes (zero where the element raised) -/
def outOf (o : XOps α) (r : ElRes α) : α := match r with | .ok (y, _, _) => y | .error _ => o.zero

/-- write the outputs of the successful elements into the buffer (`out := out.set! j y`; out-of-range: no-op) -/
def applyUpd (us : List (Nat × ElRes α)) (a : Array α) : Array α :=
  us.foldl (fun a u => match u.2 with | .ok (y, _, _) => a.set! u.1 y | .error _ => a) a

/-- the alternatives list as the loops build it (`alts := (j, al) :: alts`, hence reversed iteration order) -/
def altsOf (us : List (Nat × ElRes α)) : List (Nat × List α) :=
  (us.filterMap fun u => match u.2 with
    | .ok (_, _, al) => if !al.isEmpty then some (u.1, al) else none
    | .error _ => none).reverse

/-- gather `x[:, idx, ...]` of a `[B, C, S]` tensor into `[B, |idx|, S]` -/
def gatherCh (x : Array α) (B C S : Nat) (idx : List Nat) (dflt : α) : Array α :=
  ((List.range B).flatMap fun b => idx.flatMap fun c => (List.range S).map fun s =>
    x.getD (flatIdx C S b c s) dflt).toArray

/-- parameter vector of the unconditional transform of identity feature `ipos` at spatial position `sp`
    (shared across the batch) -/
def ucSlice (o : XOps α) (m S : Nat) (uparams : Array α) (ipos sp : Nat) : List α :=
  (List.range m).map (fun k => uparams.getD ((ipos * S + sp) * m + k) o.zero)

/-- parameter vector of transformed feature `tpos` of row `b` at spatial position `s`: conditioner output
    `[B, Ft*m, S]` viewed `[B, Ft, m, S]` -/
def condSlice (o : XOps α) (m Ft S : Nat) (params : Array α) (b tpos s : Nat) : List α :=
  (List.range m).map (fun k => params.getD ((b * (Ft * m) + (tpos * m + k)) * S + s) o.zero)

/-- the conditional element-wise transformer at `(b, tpos, s)` applied to the value `xi` -/
def couplingEl (o : XOps α) (c : ElCfg) (Ft S : Nat) (params : Array α) (inverse : Bool) (b tpos s : Nat) (xi : α) :
    ElRes α :=
  if c.kind == "affine" then
    let shift := params.getD ((b * (2 * Ft) + tpos) * S + s) o.zero
    let u := params.getD ((b * (2 * Ft) + (Ft + tpos)) * S + s) o.zero
    let scale := if c.act == "general" then o.clamp o.zero (o.ofNat 3) (o.add (o.softplus u) (o.ofFloat 1e-3))
                 else o.add (o.sigmoid (o.add u o.two)) (o.ofFloat 1e-3)
    (scaleShiftT o scale shift inverse xi).map (fun (a, l) => (a, l, []))
  else if c.kind == "additive" then
    let shift := params.getD ((b * Ft + tpos) * S + s) o.zero
    (scaleShiftT o o.one shift inverse xi).map (fun (a, l) => (a, l, []))
  else
    elTransform o c inverse (condSlice o c.mult Ft S params b tpos s) xi

/-- row `b` of a pass `for t in [0:idx.length] for s in [0:S]` over the channels listed in `idx`:
    `(flat index written, result)` in iteration order; element `(t, s)` applies `el t s` to the value READ from `x` -/
def tRow (o : XOps α) (C S : Nat) (idx : List Nat) (x : Array α) (el : Nat → Nat → α → ElRes α) (b : Nat) :
    List (Nat × ElRes α) :=
  (rowIter idx.length S).map fun (t, s) =>
    let j := flatIdx C S b (idx.getD t 0) s
    (j, el t s (x.getD j o.zero))

/-- row `b` of the unconditional transform of the identity features (coupling.py:92-96, 121-125); the elements read
    the layer INPUT `x`; parameters are shared across the batch -/
def ucRow (o : XOps α) (uc : Option ElCfg) (C S : Nat) (idI : List Nat) (x uparams : Array α) (inverse : Bool)
    (b : Nat) : List (Nat × ElRes α) :=
  match uc with
  | none => []
  | some ucfg => tRow o C S idI x (fun ipos sp => elTransform o ucfg inverse (ucSlice o ucfg.mult S uparams ipos sp)) b

/-- row `b` of the conditional transform of the transform features; the elements read the layer INPUT `x` -/
def condRow (o : XOps α) (c : ElCfg) (C S : Nat) (idT : List Nat) (x params : Array α) (inverse : Bool)
    (b : Nat) : List (Nat × ElRes α) :=
  tRow o C S idT x (fun tpos s => couplingEl o c idT.length S params inverse b tpos s) b

/-- the buffer after the unconditional transform of the identity features (`x` itself when there is none) -/
def couplingUncond (o : XOps α) (mask : List α) (B S : Nat) (x : Array α) (inverse : Bool)
    (uc : Option ElCfg) (uparams : Array α) : Array α :=
  applyUpd ((List.range B).flatMap
    (ucRow o uc mask.length S (identityIdx o mask) x uparams inverse)) x

/-- coupling layer, one direction.  `params` is the conditioner output `[B, Ft*m, S]` (affine: `[B, 2*Ft, S]`
    with shifts first, unconstrained scales second — coupling.py:224-228).  `x : [B, C, S]`.
    Identity features are copied unchanged (coupling.py:104-106); the unconditional transform of the identity features
    runs AFTER the conditioner saw the raw identity split in the forward direction (coupling.py:92-96) and BEFORE the
    conditioner, which is fed the un-transformed values, in the inverse direction (coupling.py:121-125). -/
def couplingApply (o : XOps α) (c : ElCfg) (mask : List α) (B S : Nat) (x params : Array α) (inverse : Bool)
    (uc : Option ElCfg := none) (uparams : Array α := #[]) : TResult α :=
  let C := mask.length
  let idI := identityIdx o mask
  let idT := transformIdx o mask
  let rows : List (List (Nat × ElRes α) × List (Nat × ElRes α)) :=
    (List.range B).map fun b => (ucRow o uc C S idI x uparams inverse b, condRow o c C S idT x params inverse b)
  let ucAll := rows.flatMap (·.1)
  let cAll := rows.flatMap (·.2)
  let out1 := applyUpd ucAll x
  { out := applyUpd cAll out1,
    ld := rows.map (fun r => ldFold o ((r.1 ++ r.2).map (·.2))),   -- sum_except_batch of all per-element log-dets
    err := firstErr ((ucAll ++ cAll).map (·.2)),
    condIn := if inverse then gatherCh out1 B C S idI o.zero else gatherCh x B C S idI o.zero,  -- what the conditioner is given
    alts := altsOf cAll }

/-- a `[B, n]` element-wise pass whose element `(b, i)` has outcome `el b i`: outputs and log-dets (zero where the
    element raised), row sums, first error, alternatives -/
def elemwiseResult (o : XOps α) (B n : Nat) (el : Nat → Nat → ElRes α) : TResult α :=
  let rs : List (Nat × ElRes α) := (List.range B).flatMap fun b => (List.range n).map fun i => (b * n + i, el b i)
  { out := (rs.map fun u => outOf o u.2).toArray,
    ld := sumRows o B (rs.map fun u => ldOf o u.2).toArray,
    err := firstErr (rs.map (·.2)),
    alts := altsOf rs }

/-- element `(b, i)` of an autoregressive pass: parameters `params[b, i, :]` -/
def arEl (o : XOps α) (c : ElCfg) (F : Nat) (x params : Array α) (inverse : Bool) (b i : Nat) : ElRes α :=
  let m := if c.kind == "araffine" then 2 else c.mult
  elTransform o c inverse ((List.range m).map (fun k => params.getD ((b * F + i) * m + k) o.zero))
    (x.getD (b * F + i) o.zero)

/-- one elementwise pass of an autoregressive transform: `x : [B, F]`, `params : [B, F*m]` viewed `[B, F, m]`. -/
def arApply (o : XOps α) (c : ElCfg) (B F : Nat) (x params : Array α) (inverse : Bool) : TResult α :=
  elemwiseResult o B F (arEl o c F x params inverse)

/-- element `(b, i)` of a `Piecewise*CDF`: parameters `params[i, :]`, the same for every row -/
def cdfEl (o : XOps α) (c : ElCfg) (n : Nat) (x params : Array α) (inverse : Bool) (b i : Nat) : ElRes α :=
  elTransform o c inverse ((List.range c.mult).map (fun k => params.getD (i * c.mult + k) o.zero))
    (x.getD (b * n + i) o.zero)

/-- `Piecewise*CDF`: `x : [B, n]` (n = product of `shape`), `params : [n, m]` shared across the batch
    (nonlinearities.py:228-229 `_share_across_batch`). -/
def cdfApply (o : XOps α) (c : ElCfg) (B n : Nat) (x params : Array α) (inverse : Bool) : TResult α :=
  elemwiseResult o B n (cdfEl o c n x params inverse)

/-- element-wise non-linearity over a `[B, n]` batch with summed log-dets (nonlinearities.py, standard.py) -/
def nonlinApply (o : XOps α) (kind : String) (ds : Array Float) (ps : List α) (B : Nat) (x : Array α) (inverse : Bool) : TResult α := Id.run do
  let mut out : Array α := Array.mkEmpty x.size
  let mut lds : Array α := Array.mkEmpty x.size
  let mut err : Option Err := none
  for xi in x do
    match nonlinEl o kind ds ps inverse xi with
    | .ok (y, l) => out := out.push y; lds := lds.push l
    | .error e =>
      if err.isNone then err := some e
      out := out.push o.zero; lds := lds.push o.zero
  return { out := out, ld := sumRows o B lds, err := err }


/-- right-aligned broadcast index: flat row-major index into `shape` ↦ flat index into a tensor of shape `sshape`
    that broadcasts to `shape` (size-1 dims repeat; missing leading dims repeat) -/
def broadcastIdx (shape sshape : List Nat) (flat : Nat) : Nat := Id.run do
  -- multi-index of `flat` in `shape`, least significant dimension first
  let rs := shape.reverse
  let ss := sshape.reverse
  let mut rem := flat
  let mut idx := 0
  let mut stride := 1
  for k in [0:rs.length] do
    let d := rs.getD k 1
    let i := rem % d
    rem := rem / d
    match ss[k]? with
    | some sd =>
      if sd != 1 then
        idx := idx + i * stride
      stride := stride * sd
    | none => pure ()
  return idx

/-- `PointwiseAffineTransform` with tensor-valued scale / shift (standard.py:26-71): `x * scale + shift` broadcast over
    the event shape; log-abs-det = `log|scale|` expanded to the event shape and summed (or `log|s| * numel` for a
    one-element scale), the same for every batch row. -/
def affineTensorApply (o : XOps α) (event sScale sShift : List Nat) (scale shift : Array α) (B : Nat) (x : Array α) (inverse : Bool) : TResult α := Id.run do
  let n := event.foldl (· * ·) 1
  let mut out : Array α := Array.mkEmpty x.size
  for b in [0:B] do
    for i in [0:n] do
      let sc := scale.getD (broadcastIdx event sScale i) o.one
      let sh := shift.getD (broadcastIdx event sShift i) o.zero
      let xi := x.getD (b * n + i) o.zero
      out := out.push (if inverse then o.div (o.sub xi sh) sc else o.add (o.mul xi sc) sh)
  let l : α :=
    if scale.size > 1 then
      (List.range n).foldl (fun acc i => o.add acc (o.log (o.abs (scale.getD (broadcastIdx event sScale i) o.one)))) o.zero
    else o.mul (o.log (o.abs (scale.getD 0 o.one))) (o.ofNat n)
  let l := if inverse then o.neg l else l
  return { out := out, ld := List.replicate B l }

end NF
