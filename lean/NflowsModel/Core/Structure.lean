import NflowsModel.Core.Spline
import NflowsModel.Core.Nonlin
/-!
# Core/Structure — executable model of the tensor-level structure around the element-wise transformers

* `elTransform`  — slicing of a per-element parameter vector into the spline / affine parameters, including the
  `1/sqrt(hidden_features)` scaling policy (coupling.py:357-360, 437-439, 528-535; autoregressive.py:307-309,
  386-388, 478-480) and the scale activations (coupling.py:215-246, autoregressive.py:107-127);
* `couplingApply` — coupling.py:21-145 (2-D and image inputs, any numeric mask, both directions);
* `arApply` — autoregressive.py:36-47 forward pass / one pass of the inverse loop;
* `cdfApply` — nonlinearities.py:232-467 (`Piecewise*CDF`: parameters shared across the batch);
* `sumExceptBatch`.
Tensors are flat row-major arrays with shape `[B, C, S]` (`S` = product of the spatial dims, 1 for 2-D inputs).
-/
namespace NF
variable {α : Type}

structure ElCfg where
  container : String := "coupling"   -- "coupling" | "ar" | "cdf"
  kind : String := "rq"              -- rq | quad | lin | cubic | affine | additive
  tails : Bool := false
  K : Nat := 0
  ds : Array Float := #[]            -- tails: [B, mins…]; bounded: [left,right,bottom,top, mins…]  (as `runSpline`)
  hiddenFeatures : Float := 0.0      -- value of `transform_net.hidden_features` (0 = attribute absent)
  hiddenChannels : Float := 0.0      -- value of `transform_net.hidden_channels` (0 = attribute absent)
  act : String := "default"          -- affine coupling: "default" = sigmoid(x+2)+1e-3, "general" = clamp(softplus(x)+1e-3, 0, 3)

/-- number of conditioner outputs per transformed feature (`_transform_dim_multiplier`, `_output_dim_multiplier`) -/
def ElCfg.mult (c : ElCfg) : Nat :=
  match c.kind with
  | "rq" => if c.tails then 3 * c.K - 1 else 3 * c.K + 1
  | "quad" => if c.tails then 2 * c.K - 1 else 2 * c.K + 1
  | "lin" => c.K
  | "cubic" => 2 * c.K + 2
  | "affine" => 2
  | "additive" => 1
  | _ => 0

/-- which of (widths, heights) get divided by sqrt(hidden) -/
def ElCfg.scaling (c : ElCfg) : Float × Bool × Bool :=
  if c.container == "coupling" then
    match c.kind with
    | "quad" | "cubic" => (c.hiddenFeatures, c.hiddenFeatures != 0.0, c.hiddenFeatures != 0.0)
    | "rq" => if c.hiddenFeatures != 0.0 then (c.hiddenFeatures, true, true)
              else if c.hiddenChannels != 0.0 then (c.hiddenChannels, true, true) else (0.0, false, false)
    | _ => (0.0, false, false)
  else if c.container == "ar" then
    match c.kind with
    | "quad" => (c.hiddenFeatures, c.hiddenFeatures != 0.0, false)
    | "cubic" | "rq" => (c.hiddenFeatures, c.hiddenFeatures != 0.0, c.hiddenFeatures != 0.0)
    | _ => (0.0, false, false)
  else (0.0, false, false)

/-- one element: slice `p` (length `mult`) and apply the transformer. Third component: admissible alternatives. -/
def elTransform (o : XOps α) (c : ElCfg) (inverse : Bool) (p : List α) (x : α) : Except Err (α × α × List α) :=
  let K := c.K
  let (hid, sW, sH) := c.scaling
  let sc (b : Bool) (l : List α) : List α := if b then l.map (fun u => o.div u (o.ofFloat (Float.sqrt hid))) else l
  let d (k : Nat) := c.ds.getD k 0.0
  match c.kind with
  | "rq" =>
    let uw := sc sW (p.take K); let uh := sc sH ((p.drop K).take K); let ud := p.drop (2 * K)
    (if c.tails then rqSplineTails o (d 0) (d 1) (d 2) (d 3) (d 4) uw uh ud inverse x
     else rqSpline o { box := ⟨d 0, d 1, d 2, d 3⟩, minW := d 4, minH := d 5, minD := d 6, beta := d 7 } uw uh ud inverse x).map
      (fun (a, b) => (a, b, []))
  | "quad" =>
    let uw := sc sW (p.take K); let uh := sc sH (p.drop K)
    (if c.tails then tailsWrap o (d 0) x (fun box => quadSpline o { box := box, minW := d 1, minH := d 2 } uw uh inverse x)
     else quadSpline o { box := ⟨d 0, d 1, d 2, d 3⟩, minW := d 4, minH := d 5 } uw uh inverse x).map (fun (a, b) => (a, b, []))
  | "lin" =>
    (if c.tails then tailsWrap o (d 0) x (fun box => linSpline o box 1e-6 p inverse x)
     else linSpline o ⟨d 0, d 1, d 2, d 3⟩ 1e-6 p inverse x).map (fun (a, b) => (a, b, []))
  | "cubic" =>
    let uw := sc sW (p.take K); let uh := sc sH ((p.drop K).take K)
    let udl := p.getD (2 * K) o.zero; let udr := p.getD (2 * K + 1) o.zero
    if c.tails then
      let B := o.ofFloat (d 0)
      if o.ge x (o.neg B) && o.le x B then
        cubicSpline o { box := ⟨-(d 0), d 0, -(d 0), d 0⟩, minW := d 1, minH := d 2, eps := d 3, thr := d 4 } uw uh udl udr inverse x
      else .ok (x, o.zero, [])
    else cubicSpline o { box := ⟨d 0, d 1, d 2, d 3⟩, minW := d 4, minH := d 5, eps := d 6, thr := d 7 } uw uh udl udr inverse x
  | "araffine" =>
    -- autoregressive.py:107-127: p = [unconstrained_scale, shift]; scale = softplus(u) + 1e-3
    let scale := o.add (o.softplus (p.getD 0 o.zero)) (o.ofFloat (d 0))
    (scaleShiftT o scale (p.getD 1 o.zero) inverse x).map (fun (a, b) => (a, b, []))
  | _ => .error .other

/-- `torchutils.sum_except_batch` for a `[B, n]`-shaped flat list -/
def sumRows (o : XOps α) (B : Nat) (xs : Array α) : List α :=
  let n := if B == 0 then 0 else xs.size / B
  (List.range B).map (fun b => (List.range n).foldl (fun acc k => o.add acc (xs.getD (b * n + k) o.zero)) o.zero)

structure TResult (α : Type) where
  out : Array α
  ld : List α                 -- per batch row
  err : Option Err := none
  condIn : Array α := #[]     -- what the conditioner is given (coupling: the identity split)
  alts : List (Nat × List α) := []   -- flat output index ↦ admissible alternative values (cubic inverse)

/-- coupling.py:41-52: identity / transform index lists for any numeric mask (`mask <= 0` / `mask > 0`) -/
def identityIdx (o : XOps α) (mask : List α) : List Nat :=
  (List.range mask.length).filter (fun i => o.le (mask.getD i o.zero) o.zero)
def transformIdx (o : XOps α) (mask : List α) : List Nat :=
  (List.range mask.length).filter (fun i => o.gt (mask.getD i o.zero) o.zero)

/-- gather `x[:, idx, ...]` of a `[B, C, S]` tensor into `[B, |idx|, S]` -/
def gatherCh (x : Array α) (B C S : Nat) (idx : List Nat) (dflt : α) : Array α := Id.run do
  let mut out : Array α := Array.mkEmpty (B * idx.length * S)
  for b in [0:B] do
    for c in idx do
      for s in [0:S] do
        out := out.push (x.getD ((b * C + c) * S + s) dflt)
  return out

/-- coupling layer, one direction.  `params` is the conditioner output `[B, Ft*m, S]` (affine: `[B, 2*Ft, S]`
    with shifts first, unconstrained scales second — coupling.py:224-228).  `x : [B, C, S]`. -/
def couplingApply (o : XOps α) (c : ElCfg) (mask : List α) (B S : Nat) (x params : Array α) (inverse : Bool)
    (uc : Option ElCfg := none) (uparams : Array α := #[]) : TResult α := Id.run do
  let C := mask.length
  let idI := identityIdx o mask
  let idT := transformIdx o mask
  let Ft := idT.length
  let mut out : Array α := x        -- identity features are copied unchanged (coupling.py:104-106)
  let mut ldRow : Array α := (List.replicate B o.zero).toArray   -- sum_except_batch of all per-element log-dets
  let mut err : Option Err := none
  let mut alts : List (Nat × List α) := []
  -- unconditional transform of the identity features (coupling.py:92-96 forward: AFTER the conditioner saw the raw
  -- identity split; coupling.py:121-125 inverse: BEFORE the conditioner, which is fed the un-transformed values)
  match uc with
  | some ucfg =>
    let m := ucfg.mult
    for b in [0:B] do
      for ipos in [0:idI.length] do
        let ch := idI.getD ipos 0
        for sp in [0:S] do
          let xi := x.getD ((b * C + ch) * S + sp) o.zero
          let p := (List.range m).map (fun k => uparams.getD ((ipos * S + sp) * m + k) o.zero)
          match elTransform o ucfg inverse p xi with
          | .ok (y, l, _) =>
            out := out.set! ((b * C + ch) * S + sp) y
            ldRow := ldRow.set! b (o.add (ldRow.getD b o.zero) l)
          | .error e =>
            if err.isNone then err := some e
  | none => pure ()
  -- what the conditioner is given
  let condIn := if inverse then gatherCh out B C S idI o.zero else gatherCh x B C S idI o.zero
  for b in [0:B] do
    for tpos in [0:Ft] do
      let ch := idT.getD tpos 0
      for s in [0:S] do
        let xi := x.getD ((b * C + ch) * S + s) o.zero
        let r : Except Err (α × α × List α) :=
          if c.kind == "affine" then
            let shift := params.getD ((b * (2 * Ft) + tpos) * S + s) o.zero
            let u := params.getD ((b * (2 * Ft) + (Ft + tpos)) * S + s) o.zero
            let scale := if c.act == "general" then o.clamp o.zero (o.ofNat 3) (o.add (o.softplus u) (o.ofFloat 1e-3))
                         else o.add (o.sigmoid (o.add u o.two)) (o.ofFloat 1e-3)
            (scaleShiftT o scale shift inverse xi).map (fun (a, l) => (a, l, []))
          else if c.kind == "additive" then
            let shift := params.getD ((b * Ft + tpos) * S + s) o.zero
            (scaleShiftT o o.one shift inverse xi).map (fun (a, l) => (a, l, []))
          else
            let m := c.mult
            let p := (List.range m).map (fun k => params.getD ((b * (Ft * m) + (tpos * m + k)) * S + s) o.zero)
            elTransform o c inverse p xi
        match r with
        | .ok (y, l, al) =>
          out := out.set! ((b * C + ch) * S + s) y
          ldRow := ldRow.set! b (o.add (ldRow.getD b o.zero) l)
          if !al.isEmpty then alts := ((b * C + ch) * S + s, al) :: alts
        | .error e =>
          if err.isNone then err := some e
  return { out := out, ld := ldRow.toList, err := err, condIn := condIn, alts := alts }

/-- one elementwise pass of an autoregressive transform: `x : [B, F]`, `params : [B, F*m]` viewed `[B, F, m]`. -/
def arApply (o : XOps α) (c : ElCfg) (B F : Nat) (x params : Array α) (inverse : Bool) : TResult α := Id.run do
  let m := if c.kind == "araffine" then 2 else c.mult
  let mut out : Array α := Array.mkEmpty (B * F)
  let mut lds : Array α := Array.mkEmpty (B * F)
  let mut err : Option Err := none
  let mut alts : List (Nat × List α) := []
  for b in [0:B] do
    for i in [0:F] do
      let xi := x.getD (b * F + i) o.zero
      let p := (List.range m).map (fun k => params.getD ((b * F + i) * m + k) o.zero)
      match elTransform o c inverse p xi with
      | .ok (y, l, al) =>
        out := out.push y; lds := lds.push l
        if !al.isEmpty then alts := (b * F + i, al) :: alts
      | .error e =>
        if err.isNone then err := some e
        out := out.push o.zero; lds := lds.push o.zero
  return { out := out, ld := sumRows o B lds, err := err, alts := alts }

/-- `Piecewise*CDF`: `x : [B, n]` (n = product of `shape`), `params : [n, m]` shared across the batch
    (nonlinearities.py:228-229 `_share_across_batch`). -/
def cdfApply (o : XOps α) (c : ElCfg) (B n : Nat) (x params : Array α) (inverse : Bool) : TResult α := Id.run do
  let m := c.mult
  let mut out : Array α := Array.mkEmpty (B * n)
  let mut lds : Array α := Array.mkEmpty (B * n)
  let mut err : Option Err := none
  let mut alts : List (Nat × List α) := []
  for b in [0:B] do
    for i in [0:n] do
      let xi := x.getD (b * n + i) o.zero
      let p := (List.range m).map (fun k => params.getD (i * m + k) o.zero)
      match elTransform o c inverse p xi with
      | .ok (y, l, al) =>
        out := out.push y; lds := lds.push l
        if !al.isEmpty then alts := (b * n + i, al) :: alts
      | .error e =>
        if err.isNone then err := some e
        out := out.push o.zero; lds := lds.push o.zero
  return { out := out, ld := sumRows o B lds, err := err, alts := alts }

/-- element-wise non-linearity over a `[B, n]` batch with summed log-dets (nonlinearities.py, standard.py) -/
def nonlinApply (o : XOps α) (kind : String) (ds : Array Float) (ps : List α) (B : Nat) (x : Array α) (inverse : Bool) : TResult α := Id.run do
  let mut out : Array α := Array.mkEmpty x.size
  let mut lds : Array α := Array.mkEmpty x.size
  let mut err : Option Err := none
  for xi in x do
    match nonlinEl o kind ds ps inverse xi with
    | .ok (y, l) => out := out.push y; lds := lds.push l
    | .error e =>
      if err.isNone then err := some e
      out := out.push o.zero; lds := lds.push o.zero
  return { out := out, ld := sumRows o B lds, err := err }


/-- right-aligned broadcast index: flat row-major index into `shape` ↦ flat index into a tensor of shape `sshape`
    that broadcasts to `shape` (size-1 dims repeat; missing leading dims repeat) -/
def broadcastIdx (shape sshape : List Nat) (flat : Nat) : Nat := Id.run do
  -- multi-index of `flat` in `shape`, least significant dimension first
  let rs := shape.reverse
  let ss := sshape.reverse
  let mut rem := flat
  let mut idx := 0
  let mut stride := 1
  for k in [0:rs.length] do
    let d := rs.getD k 1
    let i := rem % d
    rem := rem / d
    match ss[k]? with
    | some sd =>
      if sd != 1 then
        idx := idx + i * stride
      stride := stride * sd
    | none => pure ()
  return idx

/-- `PointwiseAffineTransform` with tensor-valued scale / shift (standard.py:26-71): `x * scale + shift` broadcast over
    the event shape; log-abs-det = `log|scale|` expanded to the event shape and summed (or `log|s| * numel` for a
    one-element scale), the same for every batch row. -/
def affineTensorApply (o : XOps α) (event sScale sShift : List Nat) (scale shift : Array α) (B : Nat) (x : Array α) (inverse : Bool) : TResult α := Id.run do
  let n := event.foldl (· * ·) 1
  let mut out : Array α := Array.mkEmpty x.size
  for b in [0:B] do
    for i in [0:n] do
      let sc := scale.getD (broadcastIdx event sScale i) o.one
      let sh := shift.getD (broadcastIdx event sShift i) o.zero
      let xi := x.getD (b * n + i) o.zero
      out := out.push (if inverse then o.div (o.sub xi sh) sc else o.add (o.mul xi sc) sh)
  let l : α :=
    if scale.size > 1 then
      (List.range n).foldl (fun acc i => o.add acc (o.log (o.abs (scale.getD (broadcastIdx event sScale i) o.one)))) o.zero
    else o.mul (o.log (o.abs (scale.getD 0 o.one))) (o.ofNat n)
  let l := if inverse then o.neg l else l
  return { out := out, ld := List.replicate B l }

end NF
