import NflowsModel.Core.XOps
/-!
# Core/Basic — error kinds and list helpers shared by the executable model (Mathlib-free)
-/

/-- The small enum every exception of the implementation is mapped to before comparison. -/
inductive Err where
  | outsideDomain | valueError | typeError | indexError | assertion | runtime | inverseNotAvailable | other
deriving Repr, DecidableEq, Inhabited

def Err.name : Err → String
  | .outsideDomain => "InputOutsideDomain" | .valueError => "ValueError" | .typeError => "TypeError"
  | .indexError => "IndexError" | .assertion => "AssertionError" | .runtime => "RuntimeError"
  | .inverseNotAvailable => "InverseNotAvailable" | .other => "other"

namespace NF
variable {α : Type}

/-- Python/torch indexing `xs[i]` with an integer that may be out of range (negative indices are not used by the code we model). -/
def getI (xs : List α) (i : Int) : Except Err α :=
  if i < 0 then .error .indexError else
  match xs[i.toNat]? with
  | some x => .ok x
  | none => .error .indexError

def sumG (o : XOps α) (xs : List α) : α := xs.foldl o.add o.zero

def maxG (o : XOps α) : List α → α
  | [] => o.zero
  | x :: r => r.foldl (fun m y => if o.lt m y then y else m) x

/-- `F.softmax(x, dim=-1)` as torch computes it (shift by the max). -/
def softmaxG (o : XOps α) (xs : List α) : List α :=
  let m := maxG o xs
  let es := xs.map (fun x => o.exp (o.sub x m))
  let s := sumG o es
  es.map (fun e => o.div e s)

/-- `torch.cumsum(x, dim=-1)` (sequential). -/
def cumsumG (o : XOps α) (xs : List α) : List α :=
  (xs.foldl (fun (st : α × List α) x => let a := o.add st.1 x; (a, a :: st.2)) (o.zero, [])).2.reverse

/-- replace the last element -/
def setLast (xs : List α) (v : α) : List α :=
  match xs.reverse with
  | [] => []
  | _ :: r => (v :: r).reverse

def setFirst (xs : List α) (v : α) : List α :=
  match xs with
  | [] => []
  | _ :: r => v :: r

/-- consecutive differences `xs[1:] - xs[:-1]` -/
def diffsG (o : XOps α) : List α → List α
  | a :: b :: r => o.sub b a :: diffsG o (b :: r)
  | _ => []

/-- `torchutils.searchsorted(bin_locations, x, eps)` after the `fix:` commits: the last edge is
    closed on the right by `max(last + eps, nextafter(last))`; result `#{k | x ≥ loc_k} - 1`. -/
def searchsortedG (o : XOps α) (eps : Float) (locs : List α) (x : α) : Int :=
  let locs' := match locs.reverse with
    | [] => []
    | l :: r => ((o.maxA (o.add l (o.ofFloat eps)) (o.nextUp l)) :: r).reverse
  (Int.ofNat (locs'.filter (fun l => o.ge x l)).length) - 1

def zipWith3 (f : α → α → α → α) : List α → List α → List α → List α
  | a :: as, b :: bs, c :: cs => f a b c :: zipWith3 f as bs cs
  | _, _, _ => []

end NF
