
namespace DistShape

/-! C18, HISTORICAL: the design-time spike of the shape contract of Distribution.sample (distributions/base.py), core Lean only.
    `asCoded` is the PRE-fix code (batches joined on dim 0 whatever the context; finding F7, repaired in /repo by commit
    ea12a48); the counterexamples below document that defect.  The model of the CURRENT code, the one the driver runs and
    Properties/C18.lean is about, is `Core/Dist.lean`. -/
inductive Err | typeError | valueError | runtimeError deriving DecidableEq, Repr

/-- the Python values that can arrive as `num_samples` / `batch_size` -/
inductive PyVal | int (n : Int) | bool (b : Bool) | float | none | str deriving DecidableEq, Repr

/-- typechecks.is_positive_int: isinstance(x, int) and x > 0 — note bool ⊂ int in Python -/
def isPositiveInt : PyVal → Option Nat
  | .int n => if n > 0 then some n.toNat else none
  | .bool true => some 1
  | _ => none

abbrev Shape := List Nat
deriving instance DecidableEq for Except

/-- `_sample(n, context)` of every library distribution: [n]++event without context, [R,n]++event with R rows -/
def sample1 (event : Shape) (ctxRows : Option Nat) (n : Nat) : Shape :=
  match ctxRows with
  | none => n :: event
  | some r => r :: n :: event

/-- shapes agree except possibly along `dim` -/
def agreeOff (dim : Nat) (s t : Shape) : Bool :=
  s.length == t.length && (List.range s.length).all (fun i => i == dim || s.getD i 0 == t.getD i 0)

/-- torch.cat(dim) on shapes: all other dims must agree; result sums the sizes along `dim` -/
def catShapes (dim : Nat) : List Shape → Except Err Shape
  | [] => .error .runtimeError
  | s :: rest =>
    if rest.all (agreeOff dim s) then .ok (s.set dim (((s :: rest).map (fun t => t.getD dim 0)).sum))
    else .error .runtimeError

/-- Distribution.sample as coded: batches concatenated on dim `catDim` (the code uses 0) -/
def sampleShape (catDim : Option Nat → Nat) (event : Shape) (ctxRows : Option Nat) (numSamples batchSize : PyVal) : Except Err Shape :=
  match isPositiveInt numSamples with
  | none => .error .typeError
  | some n =>
    match batchSize with
    | .none => .ok (sample1 event ctxRows n)
    | b =>
      match isPositiveInt b with
      | none => .error .typeError
      | some bs =>
        let pieces := List.replicate (n / bs) (sample1 event ctxRows bs) ++ (if n % bs > 0 then [sample1 event ctxRows (n % bs)] else [])
        catShapes (catDim ctxRows) pieces

def asCoded : Option Nat → Nat := fun _ => 0
def repaired : Option Nat → Nat := fun c => match c with | none => 0 | some _ => 1

/-- the documented contract -/
def contract (event : Shape) (ctxRows : Option Nat) (n : Nat) : Shape := sample1 event ctxRows n

-- F7: as coded, batched generation with a context breaks the contract
theorem batched_ctx_counterexample_raises :
    sampleShape asCoded [2] (some 3) (.int 5) (.int 2) = .error .runtimeError := by decide
theorem batched_ctx_counterexample_shape :
    sampleShape asCoded [2] (some 3) (.int 4) (.int 2) = .ok [6, 2, 2] ∧ contract [2] (some 3) 4 = [3, 4, 2] := by decide
-- without context the code is right; with the repair both are
theorem batched_noctx_ok : sampleShape asCoded [2] none (.int 5) (.int 2) = .ok [5, 2] := by decide
theorem batched_ctx_repaired : sampleShape repaired [2] (some 3) (.int 5) (.int 2) = .ok [3, 5, 2] := by decide
theorem rejects_zero : sampleShape asCoded [2] none (.int 0) .none = .error .typeError := by decide
theorem rejects_float : sampleShape asCoded [2] none .float .none = .error .typeError := by decide
theorem accepts_true_as_one : sampleShape asCoded [2] none (.bool true) .none = .ok [1, 2] := by decide

/-! universal statement (no context): any positive n and batch size give exactly n draws -/
theorem agreeOff_head (event : Shape) (a b : Nat) : agreeOff 0 (a :: event) (b :: event) = true := by
  simp [agreeOff, List.all_eq_true]
  intro i hi
  cases i with
  | zero => simp
  | succ j => simp

theorem sum_replicate (q bs : Nat) : (List.replicate q bs).sum = q * bs := by
  induction q with
  | zero => simp
  | succ k ih => simp [List.replicate_succ, ih, Nat.succ_mul, Nat.add_comm]

theorem cat_leading (event : Shape) : ∀ l : List Nat, l ≠ [] →
    catShapes 0 (l.map (fun a => a :: event)) = .ok (l.sum :: event) := by
  intro l hl
  cases l with
  | nil => exact absurd rfl hl
  | cons a t =>
    simp only [List.map_cons, catShapes]
    have hall : (t.map (fun a => a :: event)).all (agreeOff 0 (a :: event)) = true := by
      simp [List.all_eq_true, agreeOff_head]
    rw [if_pos hall]
    simp [List.getD, Function.comp_def]

theorem batched_sample_shape_noctx (event : Shape) (n bs : Nat) (hn : 0 < n) (hb : 0 < bs) :
    sampleShape asCoded event none (.int n) (.int bs) = .ok (n :: event) := by
  have h1 : isPositiveInt (.int (n : Int)) = some n := by simp [isPositiveInt, hn]
  have h2 : isPositiveInt (.int (bs : Int)) = some bs := by simp [isPositiveInt, hb]
  simp only [sampleShape, h1, h2, asCoded, sample1]
  have hp : List.replicate (n / bs) (bs :: event) ++ (if n % bs > 0 then [(n % bs) :: event] else [])
      = (List.replicate (n / bs) bs ++ (if n % bs > 0 then [n % bs] else [])).map (fun a => a :: event) := by
    by_cases h : n % bs > 0 <;> simp [h, List.map_replicate]
  rw [hp, cat_leading]
  · congr 2
    by_cases h : n % bs > 0
    · simp [h, sum_replicate]; have := Nat.div_add_mod n bs; rw [Nat.mul_comm] at this; omega
    · simp [h, sum_replicate]; have := Nat.div_add_mod n bs; rw [Nat.mul_comm] at this; omega
  · by_cases h : n % bs > 0
    · simp [h]
    · have hz : n % bs = 0 := by omega
      have : 0 < n / bs := by
        have := Nat.div_add_mod n bs
        rcases Nat.eq_zero_or_pos (n / bs) with h0 | h0
        · rw [h0, hz] at this; omega
        · exact h0
      simp only [h, if_false, List.append_nil, ne_eq, List.replicate_eq_nil_iff]
      omega


end DistShape
