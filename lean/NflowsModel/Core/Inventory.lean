import NflowsModel.Core.Thin
/-!
# Core/Inventory — executable additions to the state-dict inventory model of C15 (Mathlib-free)

`Thin.Inventory` (Core/Thin.lean) has `Entry`, `persisted`, `reloadSafe`, `afterLoad`.  Here:

* `reloadSafeU inv used` — the checker restricted to the *function-determining* entries (`used[i] = true`);
* `setAt` / `applyHist` — a history of value updates before saving (training steps, data-dependent
  initialisation, running-statistics updates): a list of `(index, new value)`;
* `offendingEntries` — indices the checker rejects (reported by the driver);
* the wire format of an inventory (`decodeInv`).

Mirrors `torch.nn.Module.state_dict` / `load_state_dict` as used by the library: parameters and persistent
buffers travel (nflows/transforms/permutations.py:19-20 `_permutation`, made.py:39-40 `mask`/`degrees`,
coupling.py:44-49 feature index buffers, normalization.py:91-92 running statistics, :157 `initialized`,
nonlinearities.py:143-147 `temperature`, standard.py:35-36 `_shift`/`_scale`); non-persistent buffers
(distributions/normal.py:18-21 `_log_z`) and plain attributes (lu.py:18-20 numpy index arrays, `eps`,
`features`, …) stay whatever the constructor of the receiving instance made them.
-/
namespace Thin
namespace Inventory

/-- checker on the function-determining entries only; a missing flag counts as "used" -/
def reloadSafeU : List Entry → List Bool → Bool
  | [], _ => true
  | e :: r, [] => (persisted e || e.ctorDetermined) && reloadSafeU r []
  | e :: r, u :: us => (!u || persisted e || e.ctorDetermined) && reloadSafeU r us

/-- indices (from `base`) of entries that are used, not persisted and not constructor-determined -/
def offendingFrom (base : Nat) : List Entry → List Bool → List Nat
  | [], _ => []
  | e :: r, [] =>
      if !persisted e && !e.ctorDetermined then base :: offendingFrom (base+1) r [] else offendingFrom (base+1) r []
  | e :: r, u :: us =>
      if u && !persisted e && !e.ctorDetermined then base :: offendingFrom (base+1) r us
      else offendingFrom (base+1) r us

def offendingEntries (inv : List Entry) (used : List Bool) : List Nat := offendingFrom 0 inv used

/-- replace the value at index `i` (no-op when out of range) -/
def setAt {V : Type} : List V → Nat → V → List V
  | [], _, _ => []
  | _ :: r, 0, v => v :: r
  | x :: r, i+1, v => x :: setAt r i v

/-- apply a history of value updates `(index, new value)` in order -/
def applyHist {V : Type} (vals : List V) (h : List (Nat × V)) : List V :=
  h.foldl (fun acc (p : Nat × V) => setAt acc p.1 p.2) vals

def kindOfCode : Int → Kind
  | 0 => .param | 1 => .bufPersistent | 2 => .bufNonPersistent | 3 => .plain | _ => .aliasOfPersisted

/-- wire format: flat list `[kind₀, ctor₀, kind₁, ctor₁, …]` -/
def decodeInv : List Int → List Entry
  | k :: c :: rest => ⟨kindOfCode k, c != 0⟩ :: decodeInv rest
  | _ => []

end Inventory
end Thin
