import NflowsModel.Core.Expr
/-!
# Core/XOps — the primitive operations the executable model is generic in

`Ops α` (Core/Expr) carries what the deep-embedded `Expr` language needs; `XOps α` extends it with the
remaining primitives used by list-level model code (comparison, trigonometric functions, conversion of
Python-side double constants, `nextafter`).  Instances: `floatX` (IEEE binary64, what torch.float64 code is
compared with), `float32X` (binary32), and — in `Real/` — `realX` (Mathlib's ℝ, what theorems talk about).
Mathlib-free.
-/

structure XOps (α : Type) extends Ops α where
  /-- a Python-side `float` constant (always binary64) entering a tensor computation -/
  ofFloat : Float → α
  toFloat : α → Float
  le : α → α → Bool
  tanh : α → α
  atan : α → α
  tan : α → α
  cos : α → α
  sin : α → α
  atan2 : α → α → α
  abs : α → α
  floor : α → α
  /-- `torch.floor(x).long()`: the floor as an integer (saturating `int64` conversion at floats, `⌊x⌋` on ℝ) -/
  floorInt : α → Int
  /-- next representable value towards +∞ (identity on ℝ plus nothing: see `realX`) -/
  nextUp : α → α
  isFinite : α → Bool

namespace XOps
variable {α : Type} (o : XOps α)
@[inline] def zero : α := o.ofRat 0 1
@[inline] def one : α := o.ofRat 1 1
@[inline] def two : α := o.ofRat 2 1
@[inline] def ofNat (n : Nat) : α := o.ofRat n 1
@[inline] def ge (a b : α) : Bool := o.le b a
@[inline] def gt (a b : α) : Bool := o.lt b a
/-- `log1p` with the classical compensation (Lean's `Float` has no `log1p`): exact to rounding. -/
def log1p (x : α) : α :=
  let u := o.add o.one x
  if o.le u o.one && o.le o.one u then x
  else o.div (o.mul (o.log u) x) (o.sub u o.one)
/-- `torch.nn.functional.softplus(x, beta, threshold=20)` -/
def softplusB (beta : α) (x : α) : α :=
  let bx := o.mul beta x
  if o.lt (o.ofRat 20 1) bx then x else o.div (o.log1p (o.exp bx)) beta
def softplus (x : α) : α := o.softplusB o.one x
/-- `torch.sigmoid` -/
def sigmoid (x : α) : α := o.div o.one (o.add o.one (o.exp (o.neg x)))
def sq (x : α) : α := o.mul x x
def minA (a b : α) : α := if o.lt b a then b else a
def maxA (a b : α) : α := if o.lt a b then b else a
def clamp (lo hi x : α) : α := o.minA (o.maxA x lo) hi
def sign (x : α) : α := if o.lt o.zero x then o.one else if o.lt x o.zero then o.neg o.one else o.zero
end XOps

def Float.nextUp' (x : Float) : Float :=
  if x.isNaN || x == (1.0/0.0) then x
  else if x == 0.0 then Float.ofBits 1
  else if x > 0.0 then Float.ofBits (x.toBits + 1) else Float.ofBits (x.toBits - 1)

def Float32.nextUp' (x : Float32) : Float32 :=
  if x.isNaN || x == (1.0/0.0) then x
  else if x == 0.0 then Float32.ofBits 1
  else if x > 0.0 then Float32.ofBits (x.toBits + 1) else Float32.ofBits (x.toBits - 1)

def floatX : XOps Float where
  toOps := floatOps
  ofFloat x := x
  toFloat x := x
  le a b := a <= b
  tanh := Float.tanh; atan := Float.atan; tan := Float.tan; cos := Float.cos; sin := Float.sin
  atan2 := Float.atan2; abs := Float.abs; floor := Float.floor
  floorInt x := (Float.floor x).toInt64.toInt
  nextUp := Float.nextUp'
  isFinite x := x.isFinite

def float32Ops : Ops Float32 where
  ofRat n d := (Float.ofInt n / Float.ofNat d).toFloat32
  add := (· + ·); sub := (· - ·); mul := (· * ·); div := (· / ·); neg := (- ·)
  exp := Float32.exp; log := Float32.log; sqrt := Float32.sqrt
  lt a b := a < b

def float32X : XOps Float32 where
  toOps := float32Ops
  ofFloat x := x.toFloat32
  toFloat x := x.toFloat
  le a b := a <= b
  tanh := Float32.tanh; atan := Float32.atan; tan := Float32.tan; cos := Float32.cos; sin := Float32.sin
  atan2 := Float32.atan2; abs := Float32.abs; floor := Float32.floor
  floorInt x := (Float32.floor x).toFloat.toInt64.toInt
  nextUp := Float32.nextUp'
  isFinite x := x.isFinite
