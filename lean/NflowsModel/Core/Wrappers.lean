import NflowsModel.Core.Basic
/-!
# Core/Wrappers — `CompositeTransform` and `InverseTransform` (executable model, Mathlib-free)

Mirrors `nflows/transforms/base.py:32-60` (composite) and `base.py:215-231` (inverse wrapper).
A transform is a pair of partial functions returning `(outputs, logabsdet)` or raising; the tensor type `T`, the
context type `C` and the log-det type `L` are parameters (the driver runs `T = Item Float`, `L = Float`; the
theorems in `Properties/C08.lean` are about these same definitions at arbitrary `T`, `C`, `L`).
-/
namespace NF.Wrap

/-- how `total_logabsdet` is accumulated: `inputs.new_zeros(batch_size)` and `+=` (base.py:48,51) -/
structure LD (L : Type) where
  zero : L
  add : L → L → L

/-- a transform object: `forward(inputs, context)` / `inverse(inputs, context)` -/
structure Tr (T C L : Type) where
  fwd : T → C → Except Err (T × L)
  inv : T → C → Except Err (T × L)

variable {T C L : Type}

/-- the loop of `_cascade` (base.py:49-52) started from a running value `x` and a running log-det `l` -/
def cascadeFrom (A : LD L) : List (T → C → Except Err (T × L)) → T → L → C → Except Err (T × L)
  | [], x, l, _ => .ok (x, l)
  | f :: fs, x, l, c =>
    match f x c with
    | .error e => .error e
    | .ok (y, ld) => cascadeFrom A fs y (A.add l ld) c

/-- `CompositeTransform._cascade(inputs, funcs, context)` (base.py:45-52) -/
def cascade (A : LD L) (fs : List (T → C → Except Err (T × L))) (x : T) (c : C) : Except Err (T × L) :=
  cascadeFrom A fs x A.zero c

/-- `CompositeTransform(transforms)`: forward = cascade over the parts in the order given (base.py:54-56),
    inverse = cascade over the parts' inverses in reversed order (base.py:58-60) -/
def composite (A : LD L) (ts : List (Tr T C L)) : Tr T C L where
  fwd := cascade A (ts.map (·.fwd))
  inv := cascade A (ts.reverse.map (·.inv))

/-- `InverseTransform(transform)` (base.py:215-231) -/
def inverseTr (t : Tr T C L) : Tr T C L where
  fwd := t.inv
  inv := t.fwd

/-- `Transform` base class (base.py:22-29): a part that only implements `forward` -/
def forwardOnly (f : T → C → Except Err (T × L)) : Tr T C L where
  fwd := f
  inv := fun _ _ => .error .inverseNotAvailable

end NF.Wrap
