import NflowsModel.Core.Thin
/-!
# Core/Store — executable additions to the storage/ownership machine of C13 (Mathlib-free)

`Thin.Store` (Core/Thin.lean) has the version machine (`step`, `run`) and the checker `traceSafe`.  Here:

* `writeCount`, `touched`, `offending` — what the driver reports for one extracted trace (and what the harness
  compares with the `_version` / bitwise snapshot of the real tensors);
* a *valued* machine `runV`: every storage holds a value of an arbitrary type `V` (the bytes of the tensor
  memory) and a write replaces the content of its storage by an arbitrary function of the whole store — the
  skeleton (which storage is written) is all the checker looks at, so its verdict is value-independent;
* the wire format of a trace (`decodeEvs`).

Mirrors (as a machine, not line by line): every in-place torch call of one `forward`/`inverse`/`log_prob`/
`sample`/`sample_and_log_prob`/`transform_to_noise` call — e.g. nflows/transforms/coupling.py:407-409,478-480,
554-559 (`/=` on views of the conditioner output), nflows/transforms/normalization.py:104-109 (running
statistics, training mode only), :213-218 (ActNorm `.data =` one-shot initialisation),
nflows/utils/torchutils.py:134-143 (`searchsorted` writes into its own clone), nflows/transforms/base.py:48-52
(`total_logabsdet +=` on a `new_zeros`), nflows/transforms/splines/*.py (masked assignment into `zeros_like`).
-/
namespace Thin
namespace Store

/-- number of `write s` events in a trace (the `_version` delta the implementation shows for storage `s`) -/
def writeCount (s : Nat) : List Ev → Nat
  | [] => 0
  | .write t :: rest => (if t = s then 1 else 0) + writeCount s rest
  | _ :: rest => writeCount s rest

/-- the owned storages that a trace writes to although they are not whitelisted (in order, with repetition) -/
def offending (owned wl : List Nat) : List Ev → List Nat
  | [] => []
  | .write s :: rest =>
      if owned.contains s && !wl.contains s then s :: offending owned wl rest else offending owned wl rest
  | _ :: rest => offending owned wl rest

/-- storages of `ss` that the trace writes at least once -/
def touched (ss : List Nat) (tr : List Ev) : List Nat := ss.filter (fun s => writeCount s tr != 0)

/-- valued store: storage id ↦ content -/
abbrev StV (V : Type) := Nat → V

/-- one event together with the function that computes the new content of the written storage from the whole
    store (for non-write events the function is ignored) -/
abbrev EvV (V : Type) := Ev × (StV V → V)

def stepV {V : Type} (σ : StV V) : EvV V → StV V
  | (.write s, f) => fun t => if t = s then f σ else σ t
  | _ => σ

def runV {V : Type} (σ : StV V) (tr : List (EvV V)) : StV V := tr.foldl stepV σ

/-- the skeleton of a valued trace: what the tracer extracts and the checker sees -/
def skeleton {V : Type} (tr : List (EvV V)) : List Ev := tr.map Prod.fst

/-- wire format: flat list `[tag₀, s₀, tag₁, s₁, …]`, tag 0 alloc, 1 view, 2 read, 3 write -/
def decodeEvs : List Int → List Ev
  | tag :: s :: rest =>
      (match tag with
        | 0 => Ev.alloc s.toNat
        | 1 => Ev.view s.toNat
        | 2 => Ev.read s.toNat
        | _ => Ev.write s.toNat) :: decodeEvs rest
  | _ => []

end Store
end Thin
