import NflowsModel.Core.Driver
import NflowsModel.Core.Dual
import NflowsModel.Core.Ops.C01
import NflowsModel.Core.Ops.C02
import NflowsModel.Core.Ops.C03
import NflowsModel.Core.Ops.C04
import NflowsModel.Core.Ops.C05
import NflowsModel.Core.Ops.C06
import NflowsModel.Core.Ops.C07
import NflowsModel.Core.Ops.C08
import NflowsModel.Core.Ops.C10
import NflowsModel.Core.Ops.C11
import NflowsModel.Core.Ops.C12
import NflowsModel.Core.Ops.C13
import NflowsModel.Core.Ops.C14
import NflowsModel.Core.Ops.C15
import NflowsModel.Core.Ops.C16
import NflowsModel.Core.Ops.C17
import NflowsModel.Core.Ops.C18
import NflowsModel.Core.Ops.C19
import NflowsModel.Core.Ops.C20
/-! Core/DriverOps — top-level dispatch of the line protocol: per-property handlers first, then the
    precision-generic spline op. -/
namespace NF

def handlers : List (Req → Option Resp) :=
  [handleC01, handleC02, handleC03, handleC04, handleC05, handleC06, handleC07, handleC08, handleC10, handleC11,
   handleC12, handleC13, handleC14, handleC15, handleC16, handleC17, handleC18, handleC19, handleC20]

def dispatchAll (r : Req) : Resp :=
  match handlers.findSome? (fun h => h r) with
  | some x => x
  | none => if r.prec == "f32" then dispatchG float32X r
            else if r.prec == "d64" then dispatchG (dualX floatX) r else dispatchG floatX r

end NF
