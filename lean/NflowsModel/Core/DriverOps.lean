import NflowsModel.Core.Driver
/-! Core/DriverOps — top-level dispatch of the line protocol (precision-generic ops and discrete ops). -/
namespace NF

def dispatchDiscrete (r : Req) : Option Resp := none

def dispatchAll (r : Req) : Resp :=
  match dispatchDiscrete r with
  | some x => x
  | none => if r.prec == "f32" then dispatchG float32X r else dispatchG floatX r

end NF
