import NflowsModel.Core.Basic
/-!
# Core/Reshape — executable model of `SqueezeTransform` (reshape.py:6-68, after the repair) and of `Permutation`
(permutations.py:9-63).  Per batch item tensors are flat row-major arrays.
-/
namespace NF
variable {α : Type}

/-- squeezed coordinates `(channel, row, col)` of input pixel `(c, h, w)` for factor `f` -/
def sqCoord (f c h w : Nat) : Nat × Nat × Nat := ((c * f + h % f) * f + w % f, h / f, w / f)

/-- input pixel `(c, h, w)` of squeezed coordinates `(oc, i, j)` -/
def unsqCoord (f oc i j : Nat) : Nat × Nat × Nat := (oc / (f * f), i * f + (oc / f) % f, j * f + oc % f)

/-- `SqueezeTransform(f).forward` on a `[B, C, H, W]` tensor: ValueError unless `f | H` and `f | W` -/
def squeezeFwd (f B C H W : Nat) (x : Array α) (dflt : α) : Except Err (Array α) :=
  if H % f != 0 || W % f != 0 then .error .valueError else
  let Ho := H / f; let Wo := W / f; let Co := C * f * f
  .ok ((List.range (B * Co * Ho * Wo)).map (fun o =>
    let j := o % Wo; let i := (o / Wo) % Ho; let oc := (o / (Wo * Ho)) % Co; let b := o / (Wo * Ho * Co)
    let (c, h, w) := unsqCoord f oc i j
    x.getD (((b * C + c) * H + h) * W + w) dflt)).toArray

/-- `SqueezeTransform(f).inverse` on a `[B, C, H, W]` tensor: ValueError unless `f² | C` and `C ≥ f²` -/
def squeezeInv (f B C H W : Nat) (y : Array α) (dflt : α) : Except Err (Array α) :=
  if C < f * f || C % (f * f) != 0 then .error .valueError else
  let Ci := C / (f * f); let Hi := H * f; let Wi := W * f
  .ok ((List.range (B * Ci * Hi * Wi)).map (fun o =>
    let w := o % Wi; let h := (o / Wi) % Hi; let c := (o / (Wi * Hi)) % Ci; let b := o / (Wi * Hi * Ci)
    let (oc, i, j) := sqCoord f c h w
    y.getD (((b * C + oc) * H + i) * W + j) dflt)).toArray

/-- `Permutation._permute` on dimension `dim ≥ 1` of a tensor of shape `shape`: `index_select` -/
def permuteDim (shape : List Nat) (dim : Nat) (perm : List Nat) (x : Array α) (dflt : α) : Except Err (Array α) :=
  if dim >= shape.length then .error .valueError else
  if shape.getD dim 0 != perm.length then .error .valueError else
  let inner := (shape.drop (dim + 1)).foldl (· * ·) 1
  let n := shape.getD dim 0
  let total := shape.foldl (· * ·) 1
  .ok ((List.range total).map (fun o =>
    let r := o % inner; let k := (o / inner) % n; let outer := o / (inner * n)
    x.getD ((outer * n + perm.getD k 0) * inner + r) dflt)).toArray

/-- `torch.argsort` of a permutation = its inverse -/
def inversePerm (perm : List Nat) : List Nat :=
  (List.range perm.length).map (fun v => (perm.findIdx (· == v)))

end NF
