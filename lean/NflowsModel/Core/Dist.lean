/-!
# Core/Dist — shape / argument contract of the distribution interface (C18), executable, Mathlib-free

Tensors are represented by their shapes (`List Nat`), Python arguments by `PyVal`.  Every function mirrors a
piece of `/repo` AS IT IS NOW (after the `fix:` commit that joins batches along the draw dimension) and returns
`Except DErr _`, the error kind being the Python exception class the code raises at that point.

Layers
* torch shape primitives (`reshape` with one `-1`, `cat`, broadcasting) and the helpers of
  `nflows/utils/torchutils.py` (`merge_leading_dims`, `split_leading_dim`, `repeat_rows`);
* the generic public interface `Distribution.log_prob / sample / sample_and_log_prob`
  (`nflows/distributions/base.py:22-122`) over the two subclass hooks `_sample`, `_log_prob` (`Hooks`);
* the hooks of the concrete classes (`normal.py`, `discrete.py`, `mixture.py` + `nn/nde/made.py`);
* `Flow` (`nflows/flows/base.py:42-106`) over a base `Dist`, a transform descriptor and an embedding descriptor.

The pre-fix model (`cat` on dim 0 whatever the context) and its counterexamples are kept, as history only, in
`Core/DistShape.lean`.
-/
namespace NF.Dist

/-- exception classes that the interface can raise (the kind is what is compared with the code) -/
inductive DErr where
  | typeError | valueError | runtimeError | notImplemented | attributeError | assertion | indexError
deriving DecidableEq, Repr, Inhabited

def DErr.name : DErr → String
  | .typeError => "TypeError" | .valueError => "ValueError" | .runtimeError => "RuntimeError"
  | .notImplemented => "NotImplementedError" | .attributeError => "AttributeError"
  | .assertion => "AssertionError" | .indexError => "IndexError"

def DErr.ofName : String → DErr
  | "TypeError" => .typeError | "ValueError" => .valueError | "RuntimeError" => .runtimeError
  | "NotImplementedError" => .notImplemented | "AttributeError" => .attributeError
  | "AssertionError" => .assertion | _ => .indexError

instance decEqExcept {ε α : Type} [DecidableEq ε] [DecidableEq α] : DecidableEq (Except ε α) :=
  fun a b => match a, b with
    | .ok x, .ok y => if h : x = y then isTrue (by rw [h]) else isFalse (by intro e; cases e; exact h rfl)
    | .error x, .error y => if h : x = y then isTrue (by rw [h]) else isFalse (by intro e; cases e; exact h rfl)
    | .ok _, .error _ => isFalse (by intro e; cases e)
    | .error _, .ok _ => isFalse (by intro e; cases e)

/-- the Python values that can arrive as `num_samples` / `batch_size` -/
inductive PyVal where
  | int (n : Int) | bool (b : Bool) | float | none | str
deriving DecidableEq, Repr, Inhabited

/-- `typechecks.is_positive_int(x)`: `isinstance(x, int) and x > 0` (typechecks.py:8-16); `bool ⊂ int` in Python -/
def isPositiveInt : PyVal → Bool
  | .int n => decide (0 < n)
  | .bool b => b
  | _ => false

/-- the integer value of a Python `int`/`bool` in arithmetic (`True * 3 == 3`, `5 // True == 5`) -/
def PyVal.toNat : PyVal → Nat
  | .int n => n.toNat
  | .bool b => b.toNat
  | _ => 0

def PyVal.isBool : PyVal → Bool
  | .bool _ => true
  | _ => false

abbrev Shape := List Nat

/-- number of elements -/
def numel : Shape → Nat
  | [] => 1
  | d :: r => d * numel r

/-! ## torch shape primitives -/

/-- `torch.reshape(x, [-1] + rest)`: the `-1` is inferred; ambiguous / impossible inference is a RuntimeError -/
def reshapeInfer0 (x : Shape) (rest : Shape) : Except DErr Shape :=
  let known := numel rest
  if known = 0 then .error .runtimeError
  else if numel x % known ≠ 0 then .error .runtimeError
  else .ok (numel x / known :: rest)

/-- `torch.reshape(x, target)` with all sizes explicit -/
def reshapeTo (x : Shape) (target : Shape) : Except DErr Shape :=
  if numel target = numel x then .ok target else .error .runtimeError

/-- `torchutils.merge_leading_dims(x, num_dims=2)` (torchutils.py:33-42): `[-1] + x.shape[2:]` -/
def mergeLeadingDims2 : Shape → Except DErr Shape
  | a :: b :: rest => reshapeInfer0 (a :: b :: rest) rest
  | _ => .error .valueError

/-- `torchutils.split_leading_dim(x, shape=[a, b])` (torchutils.py:27-30), both sizes explicit -/
def splitLeadingDim2 (x : Shape) (a b : Nat) : Except DErr Shape :=
  match x with
  | [] => .error .indexError
  | _ :: rest => reshapeTo x (a :: b :: rest)

/-- `torchutils.split_leading_dim(x, shape=[-1, n])` (torchutils.py:27-30): `reshape(x, [-1, n] + x.shape[1:])` -/
def splitLeadingDimInfer (x : Shape) (n : Nat) : Except DErr Shape :=
  match x with
  | [] => .error .indexError
  | _ :: rest => reshapeInfer0 x (n :: rest)

/-- `torchutils.repeat_rows(x, num_reps)` (torchutils.py:45-52): type check, `unsqueeze(1).expand(R, n, …)`,
    then `merge_leading_dims(…, 2)` -/
def repeatRows (x : Shape) (numReps : PyVal) : Except DErr Shape :=
  if !isPositiveInt numReps then .error .typeError else
  match x with
  | [] => .error .indexError
  | r :: rest => mergeLeadingDims2 (r :: numReps.toNat :: rest)

/-- shapes agree except possibly along `dim` -/
def agreeOff (dim : Nat) (s t : Shape) : Bool :=
  s.length == t.length && (List.range s.length).all (fun i => i == dim || s.getD i 0 == t.getD i 0)

/-- `torch.cat(pieces, dim)` on shapes: all other dims must agree; the sizes along `dim` add up -/
def catShapes (dim : Nat) : List Shape → Except DErr Shape
  | [] => .error .runtimeError
  | s :: rest =>
    if dim < s.length && rest.all (agreeOff dim s) then
      .ok (s.set dim (((s :: rest).map (fun t => t.getD dim 0)).sum))
    else .error .runtimeError

/-- broadcasting of two shapes, aligned at the right (`a + b` of tensors) -/
def broadcastRev : Shape → Shape → Except DErr Shape
  | [], t => .ok t
  | s, [] => .ok s
  | a :: s, b :: t =>
    if a = b then (broadcastRev s t).map (a :: ·)
    else if a = 1 then (broadcastRev s t).map (b :: ·)
    else if b = 1 then (broadcastRev s t).map (a :: ·)
    else .error .runtimeError

def broadcast (s t : Shape) : Except DErr Shape := (broadcastRev s.reverse t.reverse).map List.reverse

/-! ## the generic public interface (`nflows/distributions/base.py`) -/

/-- the two methods a subclass supplies: `_sample(num_samples, context)` and `_log_prob(inputs, context)`.
    `num_samples` arrives as the Python object the caller passed (already accepted by `is_positive_int`). -/
structure Hooks where
  sampleHook : PyVal → Option Shape → Except DErr Shape
  logProbHook : Shape → Option Shape → Except DErr Shape

/-- `Distribution.log_prob` (base.py:22-40): one row-count comparison, then the hook -/
def Hooks.logProb (h : Hooks) (inputs : Shape) (ctx : Option Shape) : Except DErr Shape :=
  match ctx with
  | none => h.logProbHook inputs none
  | some c =>
    match inputs, c with
    | i :: _, r :: _ => if i ≠ r then .error .valueError else h.logProbHook inputs (some c)
    | _, _ => .error .indexError

/-- the dimension along which batches are joined: `0 if context is None else 1` (base.py:83) -/
def catDim : Option Shape → Nat
  | none => 0
  | some _ => 1

/-- `Distribution.sample` (base.py:45-83): argument validation, one call or
    `num_samples // batch_size` full batches plus a remainder, joined along the draw dimension
    (0 without context, 1 with context) -/
def Hooks.sample (h : Hooks) (num : PyVal) (ctx : Option Shape) (batch : PyVal) : Except DErr Shape :=
  if !isPositiveInt num then .error .typeError else                                   -- base.py:63-64
  match batch with
  | .none => h.sampleHook num ctx                                                      -- base.py:69-70
  | b =>
    if !isPositiveInt b then .error .typeError else                                    -- base.py:73-74
    ((List.replicate (num.toNat / b.toNat) b).mapM (fun k => h.sampleHook k ctx)) >>= fun full =>   -- base.py:76-78
    (if num.toNat % b.toNat > 0
     then (h.sampleHook (.int (num.toNat % b.toNat : Nat)) ctx).map (fun s => [s])    -- base.py:79-80
     else .ok []) >>= fun rest =>
    catShapes (catDim ctx) (full ++ rest)                                              -- base.py:83

/-- `Distribution.sample_and_log_prob` (base.py:88-122), the default that `Flow` overrides -/
def Hooks.sampleAndLogProb (h : Hooks) (num : PyVal) (ctx : Option Shape) : Except DErr (Shape × Shape) := do
  let samples ← h.sample num ctx .none
  match ctx with
  | none =>
    let lp ← h.logProb samples none
    pure (samples, lp)
  | some c =>
    let merged ← mergeLeadingDims2 samples
    let c' ← repeatRows c num
    if merged.head? ≠ c'.head? then .error .assertion else
    let lp ← h.logProb merged (some c')
    let s2 ← splitLeadingDimInfer merged num.toNat
    let lp2 ← splitLeadingDimInfer lp num.toNat
    pure (s2, lp2)

/-- a distribution object: its hooks and its public `sample_and_log_prob` (default or overridden) -/
structure Dist where
  hooks : Hooks
  salp : PyVal → Option Shape → Except DErr (Shape × Shape)

instance : Inhabited Hooks := ⟨⟨fun _ _ => .error .notImplemented, fun _ _ => .error .notImplemented⟩⟩
instance : Inhabited Dist := ⟨⟨default, fun _ _ => .error .notImplemented⟩⟩

def Dist.logProb (d : Dist) := d.hooks.logProb
def Dist.sample (d : Dist) := d.hooks.sample
def Dist.sampleAndLogProb (d : Dist) := d.salp

/-- a plain `Distribution` subclass: the default `sample_and_log_prob` -/
def Hooks.toDist (h : Hooks) : Dist := { hooks := h, salp := h.sampleAndLogProb }

/-! ## concrete classes -/

/-- `StandardNormal` (normal.py:11-50).  `torch.randn(True, …)` is a TypeError: a `bool` is not a size. -/
def stdNormal (event : Shape) : Hooks where
  sampleHook n ctx :=
    match ctx with
    | none => if n.isBool then .error .typeError else .ok (n.toNat :: event)          -- normal.py:36-37
    | some [] => .error .indexError
    | some (r :: _) => splitLeadingDim2 (r * n.toNat :: event) r n.toNat               -- normal.py:40-43
  logProbHook inputs _ :=
    match inputs with
    | [] => .error .indexError
    | rows :: ev => if ev ≠ event then .error .valueError else .ok [rows]              -- normal.py:25-33

/-- `_compute_params` of `ConditionalDiagonalNormal` with the default (identity) context encoder
    (normal.py:75-93): shape of `means` / `log_stds` -/
def cdnParams (event : Shape) : Option Shape → Except DErr Shape
  | none => .error .valueError                                                        -- "Context can't be None."
  | some [] => .error .indexError
  | some (r :: rest) =>
    let last := (r :: rest).getLast?.getD 0
    if last % 2 ≠ 0 then .error .runtimeError
    else reshapeTo (((r :: rest).dropLast) ++ [last / 2]) (r :: event)

/-- `ConditionalDiagonalNormal` (normal.py:53-132), identity encoder -/
def condDiagNormal (event : Shape) : Hooks where
  sampleHook n ctx := do                                                              -- normal.py:116-128
    let means ← cdnParams event ctx
    let _ ← repeatRows means n
    match ctx with
    | some (r :: _) => splitLeadingDim2 (r * n.toNat :: event) r n.toNat
    | _ => .error .indexError
  logProbHook inputs ctx :=                                                           -- normal.py:95-114
    match inputs with
    | [] => .error .indexError
    | rows :: ev =>
      if ev ≠ event then .error .valueError else do
        let means ← cdnParams event ctx
        if means ≠ rows :: ev then .error .assertion else .ok [rows]

/-- `DiagonalNormal` (normal.py:135-180): `_sample` is not implemented -/
def diagNormal (event : Shape) : Hooks where
  sampleHook _ _ := .error .notImplemented                                            -- normal.py:176-177
  logProbHook inputs _ :=
    match inputs with
    | [] => .error .indexError
    | rows :: ev => if ev ≠ event then .error .valueError else .ok [rows]              -- normal.py:155-174

/-- `_compute_params` of `ConditionalIndependentBernoulli`, identity encoder (discrete.py:28-39) -/
def bernParams (event : Shape) : Option Shape → Except DErr Shape
  | none => .error .valueError
  | some [] => .error .indexError
  | some (r :: rest) => reshapeTo (r :: rest) (r :: event)

/-- `ConditionalIndependentBernoulli` (discrete.py:10-72) -/
def condBernoulli (event : Shape) : Hooks where
  sampleHook n ctx := do                                                              -- discrete.py:58-68
    let probs ← bernParams event ctx
    let _ ← repeatRows probs n
    match ctx with
    | some (r :: _) => splitLeadingDim2 (r * n.toNat :: event) r n.toNat
    | _ => .error .indexError
  logProbHook inputs ctx :=                                                           -- discrete.py:41-56
    match inputs with
    | [] => .error .indexError
    | rows :: ev =>
      if ev ≠ event then .error .valueError else do
        let logits ← bernParams event ctx
        if logits ≠ rows :: ev then .error .assertion else .ok [rows]

/-- `MADEMoG(features = D, context_features = C)` (mixture.py:7-44 → nn/nde/made.py:328-388).
    `sample` dereferences `context.shape` unconditionally: without a context it is an AttributeError (finding F15). -/
def madeMoG (D C : Nat) : Hooks where
  sampleHook n ctx :=
    match ctx with
    | none => .error .attributeError                                                  -- made.py:357-362
    | some c => do
      let c' ← repeatRows c n                                                          -- made.py:358
      match c' with
      | [rows, w] =>
        if w ≠ C then .error .runtimeError                                             -- context_layer matmul
        else reshapeInfer0 [rows, D] [n.toNat, D]                                       -- made.py:388 reshape(-1, n, D)
      | _ => .error .runtimeError
  logProbHook inputs ctx :=                                                           -- made.py:328-353
    match inputs with
    | [rows, d] =>
      if d ≠ D then .error .runtimeError else
      match ctx with
      | none => .ok [rows]
      | some [r, w] => if w ≠ C then .error .runtimeError else (broadcast [rows] [r]).map (fun _ => [rows])
      | some _ => .error .runtimeError
    | _ => .error .runtimeError

/-! ## Flow (`nflows/flows/base.py`) -/

/-- the embedding network: `torch.nn.Identity()` or a module whose first layer is `nn.Linear(cin, ·)` and whose
    output width is `cout` (`F.linear(None, …)` is a TypeError) -/
inductive Emb where
  | identity
  | linear (cin cout : Nat)
deriving DecidableEq, Repr

def Emb.apply : Emb → Option Shape → Except DErr (Option Shape)
  | .identity, c => .ok c
  | .linear _ _, none => .error .typeError
  | .linear _ _, some [] => .error .runtimeError
  | .linear cin cout, some (r :: rest) =>
    if (r :: rest).getLast?.getD 0 ≠ cin then .error .runtimeError
    else .ok (some ((r :: rest).dropLast ++ [cout]))

/-- what the transform of a flow does with shapes (forward and inverse alike: `[rows] ++ event ↦ same, [rows]`) -/
inductive Tr where
  /-- the conditioner was built with `context_features = C`: a context `[rows, C]` or `None` is accepted -/
  | ctxAware (C : Nat)
  /-- built without context features: giving a context raises `e`
      (`ResidualNet`: `torch.cat` then a mis-sized matmul → RuntimeError; `MADE`: no `context_layer` → AttributeError) -/
  | noCtx (e : DErr)
deriving DecidableEq, Repr

def Tr.apply (t : Tr) (event : Shape) (x : Shape) (ctx : Option Shape) : Except DErr (Shape × Shape) :=
  match x with
  | [] => .error .runtimeError
  | rows :: ev =>
    if ev ≠ event then .error .runtimeError else
    match ctx, t with
    | none, _ => .ok (x, [rows])
    | some _, .noCtx e => .error e
    | some [r, w], .ctxAware C => if w = C ∧ r = rows then .ok (x, [rows]) else .error .runtimeError
    | some _, .ctxAware _ => .error .runtimeError

/-- `Flow._log_prob` (flows/base.py:42-49) and `Flow._sample` (flows/base.py:51-75); the base distribution is
    always one whose `log_prob` takes a `context` (`_context_used_in_base = True` for every `Distribution`) -/
def flowHooks (tr : Tr) (event : Shape) (base : Dist) (emb : Emb) : Hooks where
  logProbHook inputs ctx := do
    let e ← emb.apply ctx
    let (noise, lad) ← tr.apply event inputs e
    let lp ← base.logProb noise e
    broadcast lp lad
  sampleHook n ctx := do
    let e ← emb.apply ctx
    let noise ← base.sample n e .none
    match e with
    | none =>
      let (s, _) ← tr.apply event noise none
      pure s
    | some ec =>
      let noise' ← mergeLeadingDims2 noise
      let ec' ← repeatRows ec n
      let (s, _) ← tr.apply event noise' (some ec')
      splitLeadingDimInfer s n.toNat

/-- `Flow.sample_and_log_prob` (flows/base.py:77-106): note that the embedding net runs before any validation -/
def flowSalp (tr : Tr) (event : Shape) (base : Dist) (emb : Emb) (num : PyVal) (ctx : Option Shape) :
    Except DErr (Shape × Shape) := do
  let e ← emb.apply ctx
  let (noise, lp) ← base.salp num e
  match e with
  | none =>
    let (s, lad) ← tr.apply event noise none
    let out ← broadcast lp lad
    pure (s, out)
  | some ec =>
    let noise' ← mergeLeadingDims2 noise
    let ec' ← repeatRows ec num
    let (s, lad) ← tr.apply event noise' (some ec')
    let s2 ← splitLeadingDimInfer s num.toNat
    let lad2 ← splitLeadingDimInfer lad num.toNat
    let out ← broadcast lp lad2
    pure (s2, out)

def flow (tr : Tr) (event : Shape) (base : Dist) (emb : Emb) : Dist :=
  { hooks := flowHooks tr event base emb, salp := flowSalp tr event base emb }

/-! ## value level of batched generation -/

/-- the draws of `torch.cat(pieces, dim)` in order, as (index of the piece, position inside the piece),
    for pieces of the given sizes along `dim`; `p` is the index of the first piece -/
def piecesLayout : Nat → List Nat → List (Nat × Nat)
  | _, [] => []
  | p, sz :: rest => (List.range sz).map (fun q => (p, q)) ++ piecesLayout (p + 1) rest

/-- sizes of the batches that `Distribution.sample` generates (base.py:76-80) -/
def batchSizes (n b : Nat) : List Nat := List.replicate (n / b) b ++ (if n % b > 0 then [n % b] else [])

/-- where each of the draws of a batched `sample(n, batch_size=b)` comes from (base.py:76-83) -/
def batchLayout (n b : Nat) : List (Nat × Nat) := piecesLayout 0 (batchSizes n b)

/-! ## the documented contract -/

/-- `sample(n)` is `[n] ++ event`; `sample(n, context)` with `R` context rows is `[R, n] ++ event` -/
def contractSample (event : Shape) (ctxRows : Option Nat) (n : Nat) : Shape :=
  match ctxRows with
  | none => n :: event
  | some r => r :: n :: event

/-- log-probabilities returned by `sample_and_log_prob`: `[n]` / `[R, n]` -/
def contractLogProb (ctxRows : Option Nat) (n : Nat) : Shape :=
  match ctxRows with
  | none => [n]
  | some r => [r, n]

end NF.Dist
