import Lean.Data.Json
import NflowsModel.Core.Spline
/-!
# Core/Driver — line-protocol plumbing (Mathlib-free)

One JSON object per input line:
  {"op": <string>, "p": "f64"|"f32", "i": [ints], "f": [[bit patterns]...], "d": [bit patterns of doubles], "s": [strings]}
one JSON object per output line:
  {"f": [[bit patterns]...], "i": [ints], "s": [strings], "e": null | <error kind>}
Floats never travel as decimal text: `f` holds IEEE bit patterns in the precision `p`, `d` holds binary64
patterns of Python-side constants.
-/
open Lean

namespace NF

class Bits (α : Type) where
  ofBits : Nat → α
  toBits : α → Nat

instance : Bits Float := ⟨fun n => Float.ofBits n.toUInt64, fun x => x.toBits.toNat⟩
instance : Bits Float32 := ⟨fun n => Float32.ofBits n.toUInt32, fun x => x.toBits.toNat⟩

structure Req where
  op : String := ""
  prec : String := "f64"
  ints : Array Int := #[]
  fs : Array (Array Nat) := #[]
  ds : Array Float := #[]
  strs : Array String := #[]
  raw : Json := Json.null

structure Resp where
  fs : List (List Nat) := []
  ints : List Int := []
  strs : List String := []
  err : Option String := none

def Resp.toJson (r : Resp) : Json :=
  Json.mkObj [
    ("f", Json.arr (r.fs.map (fun l => Json.arr (l.map (fun n => Json.num (JsonNumber.fromNat n))).toArray)).toArray),
    ("i", Json.arr (r.ints.map (fun n => Json.num (JsonNumber.fromInt n))).toArray),
    ("s", Json.arr (r.strs.map Json.str).toArray),
    ("e", match r.err with | none => Json.null | some e => Json.str e)]

def jInt (j : Json) : Int := match j.getInt? with | .ok n => n | .error _ => 0
def jNat (j : Json) : Nat := (jInt j).toNat
def jArr (j : Json) : Array Json := match j.getArr? with | .ok a => a | .error _ => #[]

def Req.ofJson (j : Json) : Req :=
  let g (k : String) : Json := (j.getObjVal? k).toOption.getD Json.null
  { op := (g "op").getStr?.toOption.getD ""
    prec := (g "p").getStr?.toOption.getD "f64"
    ints := (jArr (g "i")).map jInt
    fs := (jArr (g "f")).map (fun a => (jArr a).map jNat)
    ds := (jArr (g "d")).map (fun b => Float.ofBits (jNat b).toUInt64)
    strs := (jArr (g "s")).map (fun s => s.getStr?.toOption.getD "")
    raw := j }

def Req.int (r : Req) (k : Nat) : Int := r.ints.getD k 0
def Req.nat (r : Req) (k : Nat) : Nat := (r.ints.getD k 0).toNat
def Req.d (r : Req) (k : Nat) : Float := r.ds.getD k 0.0
def Req.str (r : Req) (k : Nat) : String := r.strs.getD k ""
def Req.flag (r : Req) (k : Nat) : Bool := r.ints.getD k 0 != 0

variable {α : Type} [Bits α]

def Req.fl (r : Req) (k : Nat) : List α := ((r.fs.getD k #[]).map Bits.ofBits).toList
def bitsOf (xs : List α) : List Nat := xs.map Bits.toBits

def errResp (e : Err) : Resp := { err := some e.name }

/-- spline ops.  i = [inverse, tails, K];  s = [family];
    f = [x-list, then per-element parameter rows flattened: uw, uh, ud / udl, udr];
    d = cfg doubles: box(left,right,bottom,top) or [tailBound], minW, minH, minD, beta / eps, thr -/
def runSpline (o : XOps α) (r : Req) : Resp :=
  let fam := r.str 0
  let inverse := r.flag 0
  let tails := r.flag 1
  let xs : List α := r.fl 0
  let n := xs.length
  let row (k : Nat) (i : Nat) : List α :=
    let all : List α := r.fl k
    let m := if n == 0 then 0 else all.length / n
    (all.drop (i * m)).take m
  let results : List (Except Err (α × α × List α)) := (List.range n).map (fun i =>
    let x := xs.getD i o.zero
    if fam == "rq" then
      (if tails then rqSplineTails o (r.d 0) (r.d 1) (r.d 2) (r.d 3) (r.d 4) (row 1 i) (row 2 i) (row 3 i) inverse x
       else rqSpline o { box := ⟨r.d 0, r.d 1, r.d 2, r.d 3⟩, minW := r.d 4, minH := r.d 5, minD := r.d 6, beta := r.d 7 }
              (row 1 i) (row 2 i) (row 3 i) inverse x).map (fun (a, b) => (a, b, []))
    else if fam == "quad" then
      (if tails then tailsWrap o (r.d 0) x (fun box => quadSpline o { box := box, minW := r.d 1, minH := r.d 2 } (row 1 i) (row 2 i) inverse x)
       else quadSpline o { box := ⟨r.d 0, r.d 1, r.d 2, r.d 3⟩, minW := r.d 4, minH := r.d 5 } (row 1 i) (row 2 i) inverse x).map
        (fun (a, b) => (a, b, []))
    else if fam == "lin" then
      (if tails then tailsWrap o (r.d 0) x (fun box => linSpline o box 1e-6 (row 1 i) inverse x)
       else linSpline o ⟨r.d 0, r.d 1, r.d 2, r.d 3⟩ 1e-6 (row 1 i) inverse x).map (fun (a, b) => (a, b, []))
    else if fam == "cubic" then
      let udl := (row 3 i).getD 0 o.zero
      let udr := (row 4 i).getD 0 o.zero
      if tails then
        let B := o.ofFloat (r.d 0)
        if o.ge x (o.neg B) && o.le x B then
          cubicSpline o { box := ⟨-(r.d 0), r.d 0, -(r.d 0), r.d 0⟩, minW := r.d 1, minH := r.d 2, eps := r.d 3, thr := r.d 4 }
            (row 1 i) (row 2 i) udl udr inverse x
        else .ok (x, o.zero, [])
      else cubicSpline o { box := ⟨r.d 0, r.d 1, r.d 2, r.d 3⟩, minW := r.d 4, minH := r.d 5, eps := r.d 6, thr := r.d 7 }
            (row 1 i) (row 2 i) udl udr inverse x
    else .error .other)
  -- per-element outcome: error names in `s` ("" = ok), outputs and log-dets in f[0], f[1], alternatives in f[2+i]
  let outs := results.map (fun x => match x with | .ok (a, _, _) => a | .error _ => o.zero)
  let lds := results.map (fun x => match x with | .ok (_, b, _) => b | .error _ => o.zero)
  let errs := results.map (fun x => match x with | .ok _ => "" | .error e => e.name)
  let alts := results.map (fun x => match x with | .ok (_, _, c) => bitsOf c | .error _ => [])
  { fs := bitsOf outs :: bitsOf lds :: alts, strs := errs }

def dispatchG (o : XOps α) (r : Req) : Resp :=
  match r.op with
  | "spline" => runSpline o r
  | _ => { err := some "bad-op" }

end NF
