
-- Core/Expr.lean (Mathlib-free)
/-! Core/Expr.lean spike: one interpreter, many semantics (Mathlib-free) -/
inductive Expr where
  | var (i : Nat) | lit (num : Int) (den : Nat)
  | add (a b : Expr) | sub (a b : Expr) | mul (a b : Expr) | div (a b : Expr) | neg (a : Expr)
  | exp (a : Expr) | log (a : Expr) | sqrt (a : Expr)
  | ifLt (a b t e : Expr)
deriving Repr, Inhabited

structure Ops (α : Type) where
  ofRat : Int → Nat → α
  add : α → α → α
  sub : α → α → α
  mul : α → α → α
  div : α → α → α
  neg : α → α
  exp : α → α
  log : α → α
  sqrt : α → α
  lt : α → α → Bool

def evalG {α : Type} (o : Ops α) (env : Nat → α) : Expr → α
  | .var i => env i
  | .lit n d => o.ofRat n d
  | .add a b => o.add (evalG o env a) (evalG o env b)
  | .sub a b => o.sub (evalG o env a) (evalG o env b)
  | .mul a b => o.mul (evalG o env a) (evalG o env b)
  | .div a b => o.div (evalG o env a) (evalG o env b)
  | .neg a => o.neg (evalG o env a)
  | .exp a => o.exp (evalG o env a)
  | .log a => o.log (evalG o env a)
  | .sqrt a => o.sqrt (evalG o env a)
  | .ifLt a b t e => if o.lt (evalG o env a) (evalG o env b) then evalG o env t else evalG o env e

def floatOps : Ops Float where
  ofRat n d := Float.ofInt n / Float.ofNat d
  add := (· + ·); sub := (· - ·); mul := (· * ·); div := (· / ·); neg := (- ·)
  exp := Float.exp; log := Float.log; sqrt := Float.sqrt
  lt a b := a < b

/-- forward-mode AD as another `Ops` instance -/
def dualOps {α : Type} (o : Ops α) : Ops (α × α) where
  ofRat n d := (o.ofRat n d, o.ofRat 0 1)
  add a b := (o.add a.1 b.1, o.add a.2 b.2)
  sub a b := (o.sub a.1 b.1, o.sub a.2 b.2)
  mul a b := (o.mul a.1 b.1, o.add (o.mul a.2 b.1) (o.mul a.1 b.2))
  div a b := (o.div a.1 b.1, o.div (o.sub (o.mul a.2 b.1) (o.mul a.1 b.2)) (o.mul b.1 b.1))
  neg a := (o.neg a.1, o.neg a.2)
  exp a := (o.exp a.1, o.mul a.2 (o.exp a.1))
  log a := (o.log a.1, o.div a.2 a.1)
  sqrt a := (o.sqrt a.1, o.div a.2 (o.mul (o.ofRat 2 1) (o.sqrt a.1)))
  lt a b := o.lt a.1 b.1

instance : Add Expr := ⟨.add⟩
instance : Sub Expr := ⟨.sub⟩
instance : Mul Expr := ⟨.mul⟩
instance : Div Expr := ⟨.div⟩
instance : OfNat Expr n := ⟨.lit n 1⟩
namespace Expr
@[simp] theorem add_def (a b : Expr) : a + b = .add a b := rfl
@[simp] theorem sub_def (a b : Expr) : a - b = .sub a b := rfl
@[simp] theorem mul_def (a b : Expr) : a * b = .mul a b := rfl
@[simp] theorem div_def (a b : Expr) : a / b = .div a b := rfl
@[simp] theorem ofNat_def (n : Nat) : (OfNat.ofNat n : Expr) = .lit n 1 := rfl
end Expr

/-- RQ bin, as a term -/
def rqBinE (xk yk w h d0 d1 x : Expr) : Expr :=
  let s := h / w
  let th := (x - xk) / w
  yk + h * (s * (th * th) + d0 * (th * (1 - th))) / (s + (d0 + d1 - 2 * s) * (th * (1 - th)))




