import NflowsModel.Core.Basic
/-!
# Core/Made — executable model of MADE (Mathlib-free)

Mirrors BOTH copies of the implementation:
* `nflows/transforms/made.py`  (`MADE`, used by the masked autoregressive transforms)
* `nflows/nn/nde/made.py`      (`MADE`, `MixtureOfGaussiansMADE`)

The two files have identical `MaskedLinear`, `MaskedFeedforwardBlock`, `MaskedResidualBlock` and constructor
logic; they differ only in `MADE.forward` (transforms: `temps += activation(context_layer(context))` and an
activation after the initial layer for feed-forward blocks; nde: `temps += context_layer(context)` and no such
activation).  The flag `Net.nde` selects the copy.

Two parts:
1. the constructor: degrees, masks, the checks and the exceptions they raise (`build`, `layers`);
2. the forward pass, generic in the scalars `S` (weights) and the values `M` carried by a unit (`forward`).
   The driver runs it with `M = List Nat` (integer path counts, `pathCount`); the theorems of `Properties/C06`
   use the same `forward` with `M` = real-valued functions of the whole input batch.
-/
namespace NF.Made

/-! ## 1. Degrees, masks, constructor -/

/-- `_get_input_degrees` — transforms/made.py:12-14, nn/nde/made.py:14-16: `torch.arange(1, F+1)` -/
def inputDegrees (F : Nat) : List Nat := (List.range F).map (· + 1)

/-- sequential hidden degrees — transforms/made.py:63-66, nn/nde/made.py:65-68:
    `arange(H) % max(1, F-1) + min(1, F-1)`   (for `F ≥ 1`; `F = 0` never gets as far as a usable module) -/
def seqDegrees (F H : Nat) : List Nat :=
  (List.range H).map (fun k => k % max 1 (F - 1) + min 1 (F - 1))

/-- `torchutils.tile(x, n)` — utils/torchutils.py:8-16 (`repeat(n).reshape(n,-1).T.reshape(-1)`):
    every element repeated `n` times consecutively -/
def tile (xs : List Nat) (n : Nat) : List Nat := xs.flatMap (fun x => List.replicate n x)

/-- output degrees — transforms/made.py:46-50, nn/nde/made.py:48-52 -/
def outputDegrees (F m : Nat) : List Nat := tile (inputDegrees F) m

/-- one mask entry — transforms/made.py:51 (`>` for the output layer), :67 (`>=` for hidden layers); nn/nde/made.py:53, :69 -/
def maskEntry (strict : Bool) (dOut dIn : Nat) : Bool :=
  if strict then decide (dOut > dIn) else decide (dOut ≥ dIn)

/-- the `mask` buffer `[out, in]` — `(out_degrees[..., None] > / >= in_degrees).float()` -/
def mask (strict : Bool) (dIn dOut : List Nat) : List (List Bool) :=
  dOut.map (fun o => dIn.map (fun i => maskEntry strict o i))

/-- a block of the network with the degrees of its masked linear layers -/
inductive Block where
  | ff (d : List Nat)          -- MaskedFeedforwardBlock: `linear.degrees`
  | res (d0 d1 : List Nat)     -- MaskedResidualBlock: `linear_layers[0].degrees`, `linear_layers[1].degrees`
deriving Repr, DecidableEq

def Block.outDegrees : Block → List Nat
  | .ff d => d
  | .res _ d1 => d1

def Block.nLinear : Block → Nat
  | .ff _ => 1
  | .res _ _ => 2

/-- what the constructor is called with; `degs` = the random degrees that were drawn (read back from the
    `degrees` buffers of the hidden `MaskedLinear`s, in module order) when `random` -/
structure Arch where
  F : Nat
  H : Nat
  nBlocks : Nat
  mult : Nat
  residual : Bool
  random : Bool
  nde : Bool
  ctx : Nat            -- context features, 0 = `None`
  bn : Bool
  degs : List (List Nat) := []
  /-- the constructor raised, so no drawn degrees could be read back: the model substitutes the smallest
      admissible degree (the exception raised does not depend on the values drawn) -/
  noDraws : Bool := false
deriving Repr

/-- a constructed MADE -/
structure Net where
  F : Nat
  m : Nat                -- `out_features // autoregressive_features` of the final layer
  d0 : List Nat          -- `initial_layer.degrees`
  blocks : List Block
  residual : Bool
  nde : Bool
  hasCtx : Bool
  bn : Bool
deriving Repr

/-- degrees of a hidden `MaskedLinear` number `idx` with `width` units fed by units of degrees `dIn`
    — transforms/made.py:53-66, nn/nde/made.py:55-68.  Random degrees are an input of the model: they must lie in
    `[min(min(in_degrees), F-1), F-1]` (`torch.randint(low, high=F)`); `torch.min` of an empty tensor raises. -/
def hiddenDegrees (a : Arch) (idx : Nat) (dIn : List Nat) (width : Nat) : Except Err (List Nat) :=
  if a.random then
    match dIn.min? with
    | none => .error .runtime
    | some mn =>
      let lo := min mn (a.F - 1)
      let d := if a.noDraws then List.replicate width lo else a.degs.getD idx []
      if d.length == width && d.all (fun v => decide (lo ≤ v) && decide (v + 1 ≤ a.F)) then .ok d
      else .error .assertion      -- drawn degrees outside the modelled range: never raised by the code
  else .ok (seqDegrees a.F width)

/-- the residual-block check — transforms/made.py:172-176, nn/nde/made.py:175-179 -/
def degreesNonDecreasing (dIn dOut : List Nat) : Bool := (dIn.zip dOut).all (fun p => decide (p.2 ≥ p.1))

/-- `MaskedResidualBlock.__init__` for given in-degrees — transforms/made.py:129-176, nn/nde/made.py:132-179 -/
def buildResBlock (F : Nat) (random : Bool) (dIn : List Nat) : Except Err Block :=
  if random then .error .valueError else
  let d0 := seqDegrees F dIn.length
  let d1 := seqDegrees F d0.length
  if degreesNonDecreasing dIn d1 then .ok (.res d0 d1) else .error .runtime

/-- the block loop of `MADE.__init__` — transforms/made.py:243-263, nn/nde/made.py:242-263 -/
def buildBlocks (a : Arch) : Nat → Nat → List Nat → Except Err (List Block)
  | 0, _, _ => .ok []
  | n + 1, idx, prev =>
    if a.residual then
      match buildResBlock a.F a.random prev with
      | .error e => .error e
      | .ok b =>
        match buildBlocks a n (idx + 2) b.outDegrees with
        | .error e => .error e
        | .ok r => .ok (b :: r)
    else
      match hiddenDegrees a idx prev prev.length with
      | .error e => .error e
      | .ok d =>
        match buildBlocks a n (idx + 1) d with
        | .error e => .error e
        | .ok r => .ok (.ff d :: r)

/-- `MADE.__init__` — transforms/made.py:212-272, nn/nde/made.py:213-272 (`MixtureOfGaussiansMADE` calls it
    with `output_multiplier = 3 * num_mixture_components`, nn/nde/made.py:285-315) -/
def build (a : Arch) : Except Err Net :=
  if a.residual && a.random then .error .valueError else
  match hiddenDegrees a 0 (inputDegrees a.F) a.H with
  | .error e => .error e
  | .ok d0 =>
    match buildBlocks a a.nBlocks 1 d0 with
    | .error e => .error e
    | .ok bs =>
      -- final layer: `out_features // autoregressive_features` (ZeroDivisionError), then `tile` (TypeError for n = 0)
      if a.F == 0 then .error .other else
      if a.mult == 0 then .error .typeError else
      .ok { F := a.F, m := (a.F * a.mult) / a.F, d0 := d0, blocks := bs, residual := a.residual,
            nde := a.nde, hasCtx := a.ctx != 0, bn := a.bn }

/-- degrees of the units feeding the final layer -/
def lastDegrees (d0 : List Nat) : List Block → List Nat
  | [] => d0
  | b :: r => lastDegrees b.outDegrees r

/-- every `MaskedLinear` in module order as `(in_degrees, degrees, is_output)` -/
def blockLayers (prev : List Nat) : List Block → List (List Nat × List Nat × Bool)
  | [] => []
  | .ff d :: r => (prev, d, false) :: blockLayers d r
  | .res d0 d1 :: r => (prev, d0, false) :: (d0, d1, false) :: blockLayers d1 r

def layers (n : Net) : List (List Nat × List Nat × Bool) :=
  (inputDegrees n.F, n.d0, false) :: blockLayers n.d0 n.blocks ++
    [(lastDegrees n.d0 n.blocks, outputDegrees n.F n.m, true)]

/-- the checks of the constructor that the autoregressive property rests on, as a decidable predicate on a `Net`:
    every residual block adds vectors of equal width and has non-decreasing degrees -/
def checkBlocks (prev : List Nat) : List Block → Bool
  | [] => true
  | .ff d :: r => checkBlocks d r
  | .res _ d1 :: r => prev.length == d1.length && degreesNonDecreasing prev d1 && checkBlocks d1 r

def Net.valid (n : Net) : Bool := checkBlocks n.d0 n.blocks

/-! ## 2. Forward pass, generic in scalars and values -/

/-- weights live in `S`, the value of a unit in `M` (an `S`-module as far as the code is concerned) -/
structure MOps (S M : Type) where
  zero : M
  add : M → M → M
  smul : S → M → M

/-- the per-unit maps of the network, by position -/
inductive Slot where
  | bn0 | act0 | bn1 | act1 | drop | ctxAct | initAct
deriving Repr, DecidableEq

/-- everything that is not architecture: weights and biases of the `MaskedLinear`s (numbered in module order),
    the context contributions `context_layer(context)` (site 0 = `MADE.context_layer`, site `b+1` = block `b`),
    and the per-unit maps (activation, batch norm, dropout) by site and slot -/
structure Params (S M : Type) where
  W : Nat → Nat → Nat → S
  bias : Nat → Nat → M
  ctx : Nat → Nat → M
  um : Nat → Slot → Nat → M → M

/-- a layer of units, each carrying its degree (the code threads `prev_out_degrees` alongside) -/
abbrev St (M : Type) := List (Nat × M)

variable {S M : Type}

def msum (o : MOps S M) : List M → M
  | [] => o.zero
  | x :: r => o.add x (msum o r)

/-- `MaskedLinear.forward` — transforms/made.py:71-72, nn/nde/made.py:73-74: `F.linear(x, weight * mask, bias)`.
    A masked-out entry contributes `zero` (over the reals `w * 0 * x = 0`; in IEEE arithmetic `0 * inf = NaN`,
    so this is a statement about finite values). -/
def linear (o : MOps S M) (strict : Bool) (dOut : List Nat) (W : Nat → Nat → S) (b : Nat → M) (h : St M) : St M :=
  dOut.mapIdx fun k dk =>
    (dk, o.add (b k) (msum o (h.mapIdx fun i p => if maskEntry strict dk p.1 then o.smul (W k i) p.2 else o.zero)))

def mapUnits (f : Nat → M → M) (h : St M) : St M := h.mapIdx fun k p => (p.1, f k p.2)

def addConst (o : MOps S M) (c : Nat → M) (h : St M) : St M := h.mapIdx fun k p => (p.1, o.add p.2 (c k))

/-- `inputs + temps` of the residual block; the result carries `linear_layers[1].degrees` -/
def residualAdd (o : MOps S M) (h t : St M) : St M := (h.zip t).map fun p => (p.2.1, o.add p.1.2 p.2.2)

/-- `MaskedFeedforwardBlock.forward` (transforms/made.py:115-123, nn/nde/made.py:118-126; the context is ignored)
    and `MaskedResidualBlock.forward` (transforms/made.py:187-202, nn/nde/made.py:190-203).
    `bi` = block number, `li` = number of the block's first `MaskedLinear`. -/
def blockFwd (o : MOps S M) (P : Params S M) (n : Net) (bi li : Nat) : Block → St M → St M
  | .ff d, h =>
    let t := if n.bn then mapUnits (P.um (bi + 1) .bn0) h else h
    let t := linear o false d (P.W li) (P.bias li) t
    let t := mapUnits (P.um (bi + 1) .act0) t
    mapUnits (P.um (bi + 1) .drop) t
  | .res d0 d1, h =>
    let t := if n.bn then mapUnits (P.um (bi + 1) .bn0) h else h
    let t := mapUnits (P.um (bi + 1) .act0) t
    let t := linear o false d0 (P.W li) (P.bias li) t
    let t := if n.hasCtx then addConst o (P.ctx (bi + 1)) t else t
    let t := if n.bn then mapUnits (P.um (bi + 1) .bn1) t else t
    let t := mapUnits (P.um (bi + 1) .act1) t
    let t := mapUnits (P.um (bi + 1) .drop) t
    let t := linear o false d1 (P.W (li + 1)) (P.bias (li + 1)) t
    residualAdd o h t

def blocksFwd (o : MOps S M) (P : Params S M) (n : Net) : Nat → Nat → List Block → St M → St M
  | _, _, [], h => h
  | bi, li, b :: r, h => blocksFwd o P n (bi + 1) (li + b.nLinear) r (blockFwd o P n bi li b h)

def nLinears : List Block → Nat
  | [] => 0
  | b :: r => b.nLinear + nLinears r

/-- `MADE.forward` — transforms/made.py:274-283 (`nde = false`), nn/nde/made.py:274-281 (`nde = true`).
    `x` = the values of the `F` input units. -/
def forward (o : MOps S M) (P : Params S M) (n : Net) (x : List M) : St M :=
  let t := linear o false n.d0 (P.W 0) (P.bias 0) ((inputDegrees n.F).zip x)
  let t := if n.hasCtx then
             (if n.nde then addConst o (P.ctx 0) t
              else addConst o (fun k => P.um 0 .ctxAct k (P.ctx 0 k)) t)
           else t
  let t := if !n.nde && !n.residual then mapUnits (P.um 0 .initAct) t else t
  let t := blocksFwd o P n 0 1 n.blocks t
  linear o true (outputDegrees n.F n.m) (P.W (1 + nLinears n.blocks)) (P.bias (1 + nLinears n.blocks)) t

/-- the outputs of the network, `F * m` units, feature-major / multiplier-minor -/
def outputs (o : MOps S M) (P : Params S M) (n : Net) (x : List M) : List M := (forward o P n x).map Prod.snd

/-! ## 3. The integer instance: path counts

Value of a unit = row vector over the `F` inputs followed by the `C` context inputs; entry `j` = number of
mask-permitted paths from input `j` to the unit, each activation on the path multiplying by `actMul`
(`1` = ReLU on positive pre-activations, `2` = the activation `t ↦ 2 t`).  This is the Jacobian of the real
network with all weights `1`, biases `0`, batch norm and dropout acting as the identity. -/

def natOps (width : Nat) : MOps Nat (List Nat) where
  zero := List.replicate width 0
  add := fun a b => List.zipWith (· + ·) a b
  smul := fun s v => v.map (s * ·)

def unitVec (width j : Nat) : List Nat := (List.range width).map (fun i => if i = j then 1 else 0)

def isAct : Slot → Bool
  | .act0 | .act1 | .ctxAct | .initAct => true
  | _ => false

/-- all weights one, biases zero; a context layer with all weights one adds every context input once -/
def pcParams (F C actMul : Nat) : Params Nat (List Nat) where
  W := fun _ _ _ => 1
  bias := fun _ _ => List.replicate (F + C) 0
  ctx := fun _ _ => (List.range (F + C)).map (fun i => if F ≤ i then 1 else 0)
  um := fun _ s _ v => if isAct s then v.map (actMul * ·) else v

/-- path-count matrix `[F*m, F+C]` -/
def pathCount (n : Net) (C actMul : Nat) : List (List Nat) :=
  outputs (natOps (n.F + C)) (pcParams n.F C actMul) n ((List.range n.F).map (unitVec (n.F + C)))

end NF.Made
