
namespace Thin

/-! Thin models for C13 (storage/ownership traces), C15 (state-dict inventory), C19 (dtype promotion). Core Lean only. -/

namespace Store
/-- one storage-relevant event of a traced call -/
inductive Ev | alloc (s : Nat) | view (s : Nat) | read (s : Nat) | write (s : Nat)
deriving DecidableEq, Repr

/-- abstract store: a version counter per storage id (what `tensor._version` observes) -/
abbrev St := Nat → Nat
def step (σ : St) : Ev → St
  | .write s => fun t => if t = s then σ t + 1 else σ t
  | _ => σ
def run (σ : St) (tr : List Ev) : St := tr.foldl step σ

/-- checker evaluated by Lean on the extracted trace: no write hits an owned storage unless whitelisted -/
def traceSafe (owned : List Nat) (whitelist : List Nat) : List Ev → Bool
  | [] => true
  | .write s :: rest => (!(owned.contains s) || whitelist.contains s) && traceSafe owned whitelist rest
  | _ :: rest => traceSafe owned whitelist rest

theorem step_other (σ : St) (e : Ev) (t : Nat) (h : ∀ s, e = .write s → s ≠ t) : step σ e t = σ t := by
  cases e with
  | write s => have : t ≠ s := fun e' => h s rfl e'.symm
               simp [step, this]
  | _ => rfl

/-- soundness: a safe trace leaves every owned, non-whitelisted storage at its initial version — for all stores -/
theorem traceSafe_sound (owned wl : List Nat) (tr : List Ev) (h : traceSafe owned wl tr = true)
    (σ : St) (t : Nat) (ht : owned.contains t = true) (hw : wl.contains t = false) : run σ tr t = σ t := by
  induction tr generalizing σ with
  | nil => rfl
  | cons e rest ih =>
    simp only [run, List.foldl_cons]
    have hrest : traceSafe owned wl rest = true := by
      cases e <;> simp_all [traceSafe]
    have hstep : step σ e t = σ t := by
      apply step_other
      intro s he hst
      subst he; subst hst
      simp only [traceSafe, Bool.and_eq_true, Bool.or_eq_true, Bool.not_eq_true'] at h
      rcases h.1 with h1 | h1
      · rw [ht] at h1; exact Bool.noConfusion h1
      · rw [hw] at h1; exact Bool.noConfusion h1
    have := ih hrest (step σ e)
    simp only [run] at this
    rw [this, hstep]
end Store

namespace Inventory
inductive Kind | param | bufPersistent | bufNonPersistent | plain | aliasOfPersisted
deriving DecidableEq, Repr
structure Entry where
  kind : Kind
  ctorDetermined : Bool
deriving DecidableEq, Repr

def persisted (e : Entry) : Bool :=
  e.kind == .param || e.kind == .bufPersistent || e.kind == .aliasOfPersisted
def reloadSafe (inv : List Entry) : Bool := inv.all (fun e => persisted e || e.ctorDetermined)

/-- values of all entries of a module; the module's function is some `eval` of them -/
abbrev Vals (V : Type) := List V
/-- after `load_state_dict` into a fresh instance: persisted entries come from the saved model,
    the others keep the fresh instance's values -/
def afterLoad {V : Type} (inv : List Entry) (saved fresh : Vals V) : Vals V :=
  (inv.zip (saved.zip fresh)).map (fun (e, s, f) => if persisted e then s else f)

theorem reload_sound {V : Type} (inv : List Entry) (saved fresh : Vals V)
    (hlen1 : saved.length = inv.length) (hlen2 : fresh.length = inv.length)
    (hsafe : reloadSafe inv = true)
    -- constructor-determined entries agree between any two instances built from the same arguments
    (hctor : ∀ i (h1 : i < inv.length), (inv[i]).ctorDetermined = true → saved[i]'(hlen1 ▸ h1) = fresh[i]'(hlen2 ▸ h1)) :
    afterLoad inv saved fresh = saved := by
  apply List.ext_getElem
  · simp [afterLoad, hlen1, hlen2]
  · intro i h1 h2
    have hi : i < inv.length := by simpa [afterLoad, hlen1, hlen2] using h1
    simp only [afterLoad, List.getElem_map, List.getElem_zip]
    by_cases hp : persisted inv[i] = true
    · simp [hp]
    · have hall := List.all_eq_true.mp hsafe inv[i] (List.getElem_mem hi)
      have hc : inv[i].ctorDetermined = true := by
        cases h : persisted inv[i] <;> simp_all
      simp only [hp]
      exact (hctor i hi hc).symm
end Inventory

namespace Dtype
/-- torch's promotion order restricted to what the library uses -/
inductive DT | bool | int64 | f32 | f64 deriving DecidableEq, Repr
def rank : DT → Nat | .bool => 0 | .int64 => 1 | .f32 => 2 | .f64 => 3
def isFloat : DT → Bool | .f32 => true | .f64 => true | _ => false
def promote (a b : DT) : DT := if rank a ≥ rank b then a else b
/-- a leaf of an op DAG: a dimensioned tensor, or a "weak" leaf (0-dim tensor / Python scalar) which only
    wins across categories (float beats int), never within the float category -/
inductive Leaf | strong (d : DT) | weak (d : DT) deriving DecidableEq, Repr
/-- result dtype of an elementwise op over leaves (torch.result_type, simplified to the cases in the library) -/
def result (ls : List Leaf) : DT :=
  let strongs := ls.filterMap (fun | .strong d => some d | _ => none)
  let weaks := ls.filterMap (fun | .weak d => some d | _ => none)
  let s := strongs.foldl promote .bool
  let w := weaks.foldl promote .bool
  if isFloat s then s else if isFloat w then (if strongs.isEmpty then w else .f32) else promote s w

theorem promote_comm (a b : DT) : promote a b = promote b a := by cases a <;> cases b <;> rfl
theorem promote_assoc (a b c : DT) : promote (promote a b) c = promote a (promote b c) := by
  cases a <;> cases b <;> cases c <;> rfl
theorem promote_idem (a : DT) : promote a a = a := by cases a <;> rfl

theorem foldl_promote_const (d : DT) (l : List DT) (h : ∀ x ∈ l, x = d) (hne : l ≠ []) : l.foldl promote .bool = d := by
  have key : ∀ (l : List DT) (acc : DT), (∀ x ∈ l, x = d) → (acc = .bool ∨ acc = d) → l ≠ [] → l.foldl promote acc = d := by
    intro l
    induction l with
    | nil => intro acc _ _ h; exact absurd rfl h
    | cons x t ih =>
      intro acc hx hacc _
      have hxd : x = d := hx x (List.mem_cons_self)
      subst hxd
      have hstep : promote acc x = x := by
        rcases hacc with h | h
        · subst h; cases x <;> rfl
        · rw [h]; exact promote_idem x
      simp only [List.foldl_cons, hstep]
      by_cases ht : t = []
      · subst ht; rfl
      · exact ih x (fun y hy => hx y (List.mem_cons_of_mem _ hy)) (Or.inr rfl) ht
  exact key l .bool h (Or.inl rfl) hne

/-- dtype clause of C19: if every dimensioned leaf has float dtype `d` (and there is one), the result is `d`,
    whatever weak leaves (Python scalars, 0-dim tensors) take part -/
theorem result_dtype_eq_input (d : DT) (hd : isFloat d = true) (ls : List Leaf)
    (hs : ∀ l ∈ ls, ∀ e, l = .strong e → e = d) (hex : ∃ l ∈ ls, l = .strong d) : result ls = d := by
  unfold result
  have hstr : (ls.filterMap (fun | .strong d => some d | _ => none)).foldl promote .bool = d := by
    apply foldl_promote_const
    · intro x hx
      rw [List.mem_filterMap] at hx
      obtain ⟨l, hl, hlx⟩ := hx
      cases l with
      | strong e => simp at hlx; subst hlx; exact hs _ hl e rfl
      | weak e => simp at hlx
    · obtain ⟨l, hl, rfl⟩ := hex
      intro hnil
      have : d ∈ ls.filterMap (fun | .strong d => some d | _ => none) := by
        rw [List.mem_filterMap]; exact ⟨.strong d, hl, rfl⟩
      rw [hnil] at this; simp at this
  simp only [hstr, hd, if_true]

/-- the F13 pattern: a fresh float32 constant (`.type(torch.Tensor)` mask, strong) meeting float64 data gives
    float64, but a result built ONLY from the fresh constant and a 0-dim float32 attribute stays float32 -/
example : result [.strong .f32, .weak .f32] = .f32 := by decide
example : result [.strong .f64, .strong .f32] = .f64 := by decide
end Dtype


end Thin
