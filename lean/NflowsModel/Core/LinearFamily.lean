import NflowsModel.Core.Basic
/-!
# Core/LinearFamily — executable model of the linear family (C11), Mathlib-free

LU / QR / SVD / naive parameterisations and Householder sequences as `/repo` computes them, generic in the
scalar operations `Ops α` (run at `floatOps` / `float32Ops` by the driver, reasoned about at `realOps`).
Vectors are `List α`, matrices are lists of rows.  Mirrors

* `nflows/transforms/orthogonal.py:40-63` (initial q-vectors), `:66-89` (`_apply_transforms`), `:91-120`
* `nflows/transforms/lu.py:16-29,44-54` (index order, assembly), `:56-93` (passes), `:95-131` (accessors)
* `nflows/transforms/qr.py:37-43` (assembly), `:45-85` (passes), `:87-121` (accessors)
* `nflows/transforms/svd.py:40-46` (diagonal), `:57-98` (passes), `:100-131` (accessors)
* `nflows/transforms/linear.py:151-232` (`NaiveLinear`; `torch.inverse`/`slogdet`/`lu` by specification:
  Gaussian elimination with partial pivoting).
-/

namespace NF.LF
variable {α : Type}

/-! ## scalars, vectors, matrices -/
section basic
variable (o : Ops α)

@[inline] def zero : α := o.ofRat 0 1
@[inline] def one : α := o.ofRat 1 1
@[inline] def two : α := o.ofRat 2 1

/-- `torch.sum` (sequential) -/
def sum (xs : List α) : α := xs.foldl o.add (zero o)
/-- inner product; stops at the shorter argument -/
def dot (xs ys : List α) : α := sum o (List.zipWith o.mul xs ys)
def addV (xs ys : List α) : List α := List.zipWith o.add xs ys
def subV (xs ys : List α) : List α := List.zipWith o.sub xs ys
/-- `M @ x` -/
def matVec (M : List (List α)) (x : List α) : List α := M.map (fun row => dot o row x)
/-- entry `(i, j)`, zero outside -/
def entry (M : List (List α)) (i j : Nat) : α := (M.getD i []).getD j (zero o)
def col (M : List (List α)) (j : Nat) : List α := M.map (fun row => row.getD j (zero o))
/-- `M.t()` of a matrix with `n` columns -/
def transpose (n : Nat) (M : List (List α)) : List (List α) := (List.range n).map (col o M)
/-- `A @ B` where `B` has `n` columns -/
def matMul (n : Nat) (A B : List (List α)) : List (List α) :=
  A.map (fun row => (transpose o n B).map (fun c => dot o row c))
/-- tabulate an `n × n` matrix -/
def tab2 (n : Nat) (f : Nat → Nat → α) : List (List α) := (List.range n).map (fun i => (List.range n).map (f i))
/-- `torch.eye(n, n)` -/
def eye (n : Nat) : List (List α) := tab2 n (fun i j => if i = j then one o else zero o)
/-- `torch.diag(d)` -/
def diagM (d : List α) : List (List α) := tab2 d.length (fun i j => if i = j then d.getD i (zero o) else zero o)
/-- `F.linear(X, W)` on a batch of rows (no bias) -/
def linear0 (W : List (List α)) (X : List (List α)) : List (List α) := X.map (matVec o W)
/-- `F.linear(X, W, b)` -/
def linear (W : List (List α)) (b : List α) (X : List (List α)) : List (List α) :=
  X.map (fun x => addV o (matVec o W x) b)

/-- `F.softplus(x)` (beta 1, threshold 20) with a compensated `log1p` -/
def softplus (x : α) : α :=
  if o.lt (o.ofRat 20 1) x then x
  else
    let e := o.exp x
    let u := o.add (one o) e
    if o.lt u (one o) || o.lt (one o) u then o.div (o.mul (o.log u) e) (o.sub u (one o)) else e
end basic

/-! ## index order of `np.tril_indices(n, -1)` / `np.triu_indices(n, 1)` (row-major) — lu.py:16-18, qr.py:18 -/

def trilIndices (n : Nat) : List (Nat × Nat) :=
  (List.range n).flatMap (fun i => (List.range i).map (fun j => (i, j)))

def triuIndices (n : Nat) : List (Nat × Nat) :=
  (List.range n).flatMap (fun i => ((List.range n).filter (fun j => i < j)).map (fun j => (i, j)))

/-- the value written at `(i, j)` by `M[idx0, idx1] = vals` (`none` = position not written) -/
def lookupIdx (idx : List (Nat × Nat)) (vals : List α) (i j : Nat) : Option α :=
  ((idx.zip vals).find? (fun p => p.1 == (i, j))).map (fun p => p.2)

section assembly
variable (o : Ops α)

/-- `lower` of `LULinear._create_lower_upper` (lu.py:44-48): zeros, strictly-lower entries scattered in
    `tril_indices` order, diagonal overwritten by ones -/
def luLower (n : Nat) (lo : List α) : List (List α) :=
  tab2 n (fun i j => if i = j then one o else (lookupIdx (trilIndices n) lo i j).getD (zero o))

/-- `upper` (lu.py:50-52, qr.py:37-43): strictly-upper entries in `triu_indices` order, diagonal `d` -/
def mkUpper (n : Nat) (up : List α) (d : List α) : List (List α) :=
  tab2 n (fun i j => if i = j then d.getD i (zero o) else (lookupIdx (triuIndices n) up i j).getD (zero o))

/-- `upper_diag` (lu.py:120-121) / `diagonal` (svd.py:40-42): `softplus(u) + eps` -/
def posDiag (eps : α) (u : List α) : List α := u.map (fun x => o.add (softplus o x) eps)

/-- `sum(log(diag))` (lu.py:123-131, svd.py:44-46,125-131) -/
def sumLog (d : List α) : α := sum o (d.map o.log)

/-! ## triangular solves (`torch.linalg.solve_triangular`, one right-hand-side column) -/

def solveLowerUnitAux (acc : List α) : List (List α) → List α → List α
  | row :: rest, bi :: bs => solveLowerUnitAux (acc ++ [o.sub bi (dot o row acc)]) rest bs
  | _, _ => acc

/-- `solve_triangular(L, b, upper=False, unitriangular=True)`: forward substitution; the diagonal and the
    upper part of `L` are not read -/
def solveLowerUnit (L : List (List α)) (b : List α) : List α := solveLowerUnitAux o [] L b

def solveUpperAux (i : Nat) : List (List α) → List α → List α
  | row :: rest, bi :: bs =>
    let xs := solveUpperAux (i + 1) rest bs
    o.div (o.sub bi (dot o (row.drop (i + 1)) xs)) (row.getD i (zero o)) :: xs
  | _, _ => []

/-- `solve_triangular(U, b, upper=True)`: back substitution; the strictly-lower part of `U` is not read -/
def solveUpper (U : List (List α)) (b : List α) : List α := solveUpperAux o 0 U b

/-! ## Householder sequences (orthogonal.py) -/

/-- one step of `_apply_transforms` on one row (orthogonal.py:83-86):
    `outputs - ger(outputs @ q, (2 / |q|²) q)` -/
def hhApply (q x : List α) : List α :=
  let sq := sum o (q.map (fun a => o.mul a a))
  let temp := dot o x q
  let scaled := q.map (fun a => o.mul (o.div (two o) sq) a)
  List.zipWith (fun xi si => o.sub xi (o.mul temp si)) x scaled

/-- `_apply_transforms` on one row: the q-vectors in the given order (orthogonal.py:81-86) -/
def hhSeq (qs : List (List α)) (x : List α) : List α := qs.foldl (fun acc q => hhApply o q acc) x

/-- `HouseholderSequence.forward` on a batch (orthogonal.py:91-92) -/
def hhForward (qs : List (List α)) (X : List (List α)) : List (List α) := X.map (hhSeq o qs)
/-- `HouseholderSequence.inverse`: reversed order (orthogonal.py:94-98) -/
def hhInverse (qs : List (List α)) (X : List (List α)) : List (List α) := X.map (hhSeq o qs.reverse)
/-- `HouseholderSequence.matrix()` = `inverse(eye)` (orthogonal.py:100-120) -/
def hhMatrix (n : Nat) (qs : List (List α)) : List (List α) := hhInverse o qs (eye o n)

/-! ### the constructor's initial q-vectors (orthogonal.py:40-63, after the `fix:` commit) -/

/-- row `k` of `torch.eye(features)[arange(num // 2) % features]` -/
def basisRow (features k : Nat) : List α :=
  (List.range features).map (fun j => if j = k % features then one o else zero o)

/-- `order_index` of the local `tile(a, 0, 2)`: `concat [m * arange(2) + i for i in range(m)]` -/
def orderIndex (m : Nat) : List Nat := (List.range m).flatMap (fun i => [i, m + i])

/-- the local helper `tile(a, 0, 2)`: `index_select(a.repeat(2, 1), 0, order_index)` (empty stays empty) -/
def tile2 (a : List (List α)) : List (List α) :=
  let rep := a ++ a
  (orderIndex a.length).map (fun k => rep.getD k [])

/-- initial `q_vectors` for `num_transforms = num` -/
def hhInitQ (features num : Nat) : List (List α) :=
  let basis := (List.range (num / 2)).map (basisRow o features)
  let qv := tile2 basis
  if num % 2 != 0 then
    qv ++ [(List.range features).map (fun j => if j = (num / 2) % features then one o else zero o)]
  else qv

/-- constructor outcome of `HouseholderSequence(features, num)` for integer arguments (orthogonal.py:26-29) -/
def hhConstruct (features num : Int) : Except Err (List (List α)) :=
  if features ≤ 0 then .error .typeError
  else if num ≤ 0 then .error .typeError
  else .ok (hhInitQ o features.toNat num.toNat)

/-! ## LULinear (lu.py) -/

structure LUParams (α : Type) where
  n : Nat
  lower : List α
  upper : List α
  udiag : List α
  bias : List α
  eps : α

def luL (p : LUParams α) := luLower o p.n p.lower
def luU (p : LUParams α) := mkUpper o p.n p.upper (posDiag o p.eps p.udiag)
/-- `weight()` = `lower @ upper` (lu.py:95-102) -/
def luWeight (p : LUParams α) := matMul o p.n (luL o p) (luU o p)
/-- `weight_inverse()` (lu.py:104-118): two triangular solves of the identity, column by column -/
def luWeightInverse (p : LUParams α) : List (List α) :=
  transpose o p.n ((eye o p.n).map (fun e => solveUpper o (luU o p) (solveLowerUnit o (luL o p) e)))
/-- `logabsdet()` (lu.py:123-131) -/
def luLogabsdet (p : LUParams α) : α := sumLog o (posDiag o p.eps p.udiag)
/-- `forward_no_cache` (lu.py:56-68): `F.linear(F.linear(x, U), L, b)` -/
def luForward (p : LUParams α) (X : List (List α)) := linear o (luL o p) p.bias (linear0 o (luU o p) X)
/-- `inverse_no_cache` (lu.py:70-93) -/
def luInverse (p : LUParams α) (X : List (List α)) : List (List α) :=
  X.map (fun x => solveUpper o (luU o p) (solveLowerUnit o (luL o p) (subV o x p.bias)))

/-! ## OneByOneConvolution (conv.py): a fixed channel permutation, then `LULinear` on every pixel -/

/-- flat index of `[b, c, h, w]` in a contiguous NCHW tensor with `C` channels -/
def nchw (C H W b c h w : Nat) : Nat := ((b * C + c) * H + h) * W + w

/-- `RandomPermutation(dim=1).forward`: `index_select(inputs, 1, perm)` (permutations.py) -/
def permuteChannels (B C H W : Nat) (perm : List Nat) (xs : List α) : List α :=
  (List.range (B * C * H * W)).map (fun k =>
    let w := k % W; let h := (k / W) % H; let c := (k / (W * H)) % C; let b := k / (W * H * C)
    xs.getD (nchw C H W b (perm.getD c 0) h w) (zero o))

/-- `inputs.permute(0, 2, 3, 1).reshape(b * h * w, c)` (conv.py:19-20) -/
def convRows (B C H W : Nat) (xs : List α) : List (List α) :=
  (List.range (B * H * W)).map (fun r =>
    let w := r % W; let h := (r / W) % H; let b := r / (W * H)
    (List.range C).map (fun c => xs.getD (nchw C H W b c h w) (zero o)))

/-- `outputs.reshape(b, h, w, c).permute(0, 3, 1, 2)`, flattened NCHW (conv.py:27) -/
def convUnrows (B C H W : Nat) (rows : List (List α)) : List α :=
  (List.range (B * C * H * W)).map (fun k =>
    let w := k % W; let h := (k / W) % H; let c := (k / (W * H)) % C; let b := k / (W * H * C)
    (rows.getD ((b * H + h) * W + w) []).getD c (zero o))

/-- `sum_except_batch` of the per-pixel log-abs-dets (conv.py:28-30) -/
def convLogabsdet (p : LUParams α) (B H W : Nat) (sign : α → α) : List α :=
  (List.range B).map (fun _ => sum o (List.replicate (H * W) (sign (luLogabsdet o p))))

/-- `OneByOneConvolution.forward` (conv.py:32-38) -/
def convForward (p : LUParams α) (perm : List Nat) (B H W : Nat) (xs : List α) : List α × List α :=
  let rows := convRows o B p.n H W (permuteChannels o B p.n H W perm xs)
  (convUnrows o B p.n H W (luForward o p rows), convLogabsdet o p B H W id)

/-- `OneByOneConvolution.inverse` (conv.py:40-48): LU inverse per pixel, then the inverse permutation -/
def convInverse (p : LUParams α) (perm : List Nat) (B H W : Nat) (xs : List α) : List α × List α :=
  let out := convUnrows o B p.n H W (luInverse o p (convRows o B p.n H W xs))
  let invperm := (List.range p.n).map (fun c => perm.idxOf c)
  (permuteChannels o B p.n H W invperm out, convLogabsdet o p B H W o.neg)

/-! ## QRLinear (qr.py) -/

structure QRParams (α : Type) where
  n : Nat
  upper : List α
  logDiag : List α
  qs : List (List α)
  bias : List α

def qrR (p : QRParams α) := mkUpper o p.n p.upper (p.logDiag.map o.exp)
/-- `weight()` (qr.py:87-96): `orthogonal(upper.t())[0].t()` -/
def qrWeight (p : QRParams α) := transpose o p.n (hhForward o p.qs (transpose o p.n (qrR o p)))
/-- `weight_inverse()` (qr.py:98-110): `orthogonal(solve_triangular(upper, eye))` -/
def qrWeightInverse (p : QRParams α) : List (List α) :=
  let upperInv := transpose o p.n ((eye o p.n).map (solveUpper o (qrR o p)))
  hhForward o p.qs upperInv
/-- `logabsdet()` (qr.py:112-121): `sum(log_upper_diag)` -/
def qrLogabsdet (p : QRParams α) : α := sum o p.logDiag
/-- `forward_no_cache` (qr.py:45-63) -/
def qrForward (p : QRParams α) (X : List (List α)) : List (List α) :=
  (hhForward o p.qs (linear0 o (qrR o p) X)).map (fun y => addV o y p.bias)
/-- `inverse_no_cache` (qr.py:65-85) -/
def qrInverse (p : QRParams α) (X : List (List α)) : List (List α) :=
  (hhInverse o p.qs (X.map (fun x => subV o x p.bias))).map (solveUpper o (qrR o p))

/-! ## SVDLinear (svd.py) -/

structure SVDParams (α : Type) where
  n : Nat
  udiag : List α
  qs1 : List (List α)
  qs2 : List (List α)
  bias : List α
  eps : α

/-- `diagonal` (svd.py:40-42): `eps + softplus(u)` -/
def svdDiag (p : SVDParams α) : List α := p.udiag.map (fun x => o.add p.eps (softplus o x))
/-- `weight()` (svd.py:100-110) -/
def svdWeight (p : SVDParams α) : List (List α) :=
  let w := hhInverse o p.qs2 (diagM o (svdDiag o p))
  transpose o p.n (hhForward o p.qs1 (transpose o p.n w))
/-- `weight_inverse()` (svd.py:112-123) -/
def svdWeightInverse (p : SVDParams α) : List (List α) :=
  let dinv := diagM o ((svdDiag o p).map (fun d => o.div (one o) d))
  let w := hhForward o p.qs1 dinv
  transpose o p.n (hhInverse o p.qs2 (transpose o p.n w))
/-- `logabsdet()` (svd.py:125-131) -/
def svdLogabsdet (p : SVDParams α) : α := sumLog o (svdDiag o p)
/-- `forward_no_cache` (svd.py:57-75) -/
def svdForward (p : SVDParams α) (X : List (List α)) : List (List α) :=
  let d := svdDiag o p
  (hhForward o p.qs1 ((hhForward o p.qs2 X).map (fun y => List.zipWith o.mul y d))).map (fun y => addV o y p.bias)
/-- `inverse_no_cache` (svd.py:77-98) -/
def svdInverse (p : SVDParams α) (X : List (List α)) : List (List α) :=
  let d := svdDiag o p
  hhInverse o p.qs2 ((hhInverse o p.qs1 (X.map (fun x => subV o x p.bias))).map (fun y => List.zipWith o.div y d))

/-! ## NaiveLinear (linear.py:151-232): `torch.inverse`, `torch.slogdet`, `torch.lu`/`lu_solve` by their
    specification, realised as Gauss–Jordan elimination with partial pivoting on `[W | I]` -/

def absA (x : α) : α := if o.lt x (zero o) then o.neg x else x

/-- index (within `rows`) of the row whose entry in column `c` has the largest modulus -/
def argmaxCol (rows : List (List α)) (c : Nat) : Nat :=
  let vals := rows.map (fun r => absA o (r.getD c (zero o)))
  ((vals.zip (List.range vals.length)).foldl
      (fun (best : Option (α × Nat)) p => match best with
        | none => some p
        | some b => if o.lt b.1 p.1 then some p else some b) none).elim 0 (fun b => b.2)

/-- state: processed rows (already reduced), remaining rows, pivots found so far -/
def gaussStep (c : Nat) (st : List (List α) × List (List α) × List α) : List (List α) × List (List α) × List α :=
  let (done, rest, pivs) := st
  match rest with
  | [] => st
  | _ =>
    let k := argmaxCol o rest c
    let prow := rest.getD k []
    let others := rest.eraseIdx k
    let piv := prow.getD c (zero o)
    let nrow := prow.map (fun a => o.div a piv)
    let elim := fun (r : List α) =>
      let f := r.getD c (zero o)
      List.zipWith (fun a b => o.sub a (o.mul f b)) r nrow
    (done.map elim ++ [nrow], others.map elim, pivs ++ [piv])

/-- Gauss–Jordan on the augmented matrix `[W | I]`; returns (`W⁻¹`, pivots).  A zero pivot (singular `W`)
    is reported as `RuntimeError` (torch raises `LinAlgError`, a `RuntimeError`). -/
def gaussInverse (n : Nat) (W : List (List α)) : Except Err (List (List α) × List α) :=
  let aug := (W.zip (eye o n)).map (fun p => p.1 ++ p.2)
  let (done, _, pivs) := (List.range n).foldl (fun st c => gaussStep o c st) ([], aug, [])
  if pivs.any (fun p => !(o.lt p (zero o) || o.lt (zero o) p)) then .error .runtime
  else .ok (done.map (fun r => r.drop n), pivs)

/-- `slogdet(W)[1]` = Σ log |pivot| (also `-inverse_no_cache`'s `sum(log|diag(lu)|)`, linear.py:195-196) -/
def naiveLogabsdet (n : Nat) (W : List (List α)) : α :=
  let aug := (W.zip (eye o n)).map (fun p => p.1 ++ p.2)
  let (_, _, pivs) := (List.range n).foldl (fun st c => gaussStep o c st) ([], aug, [])
  sum o (pivs.map (fun p => o.log (absA o p)))

/-- `forward_no_cache` (linear.py:172-184) -/
def naiveForward (W : List (List α)) (b : List α) (X : List (List α)) := linear o W b X
/-- `inverse_no_cache` (linear.py:186-199): solve `W y = x - b` with `torch.lu` / `torch.lu_solve`, which do
    not raise on a singular matrix (the division by the zero pivot yields non-finite values) -/
def naiveInverse (n : Nat) (W : List (List α)) (b : List α) (X : List (List α)) : List (List α) :=
  let aug := (W.zip (eye o n)).map (fun p => p.1 ++ p.2)
  let (done, _, _) := (List.range n).foldl (fun st c => gaussStep o c st) ([], aug, [])
  linear0 o (done.map (fun r => r.drop n)) (X.map (fun x => subV o x b))

end assembly
end NF.LF
