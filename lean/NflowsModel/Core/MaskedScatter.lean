
namespace MaskedScatter

/-! boolean-mask gather / scatter as the spline tail code does it (rational_quadratic.py:26-63), core Lean only -/
variable {α β γ : Type}

/-- `xs[mask]` -/
def gather : List Bool → List α → List α
  | true :: ms, x :: xs => x :: gather ms xs
  | false :: ms, _ :: xs => gather ms xs
  | _, _ => []

/-- `base[mask] = vals` (vals consumed in order) -/
def scatter : List Bool → List α → List α → List α
  | true :: ms, _ :: bs, v :: vs => v :: scatter ms bs vs
  | true :: ms, b :: bs, [] => b :: scatter ms bs []
  | false :: ms, b :: bs, vs => b :: scatter ms bs vs
  | _, bs, _ => bs

/-- row-wise reference: each element is routed by its own mask bit only -/
def rowwise (f : α → β → γ) (id' : α → γ) : List Bool → List α → List β → List γ
  | m :: ms, x :: xs, p :: ps => (if m then f x p else id' x) :: rowwise f id' ms xs ps
  | _, _, _ => []

/-- the code: outputs = zeros; outputs[~m] = id(inputs[~m]); outputs[m] = f(inputs[m], params[m]) -/
def asCoded (f : α → β → γ) (id' : α → γ) (zero : γ) (m : List Bool) (xs : List α) (ps : List β) : List γ :=
  let out0 := xs.map (fun _ => zero)
  let out1 := scatter (m.map (!·)) out0 ((gather (m.map (!·)) xs).map id')
  scatter m out1 (List.zipWith f (gather m xs) (gather m ps))

theorem masked_scatter_gather (f : α → β → γ) (id' : α → γ) (zero : γ) :
    ∀ (m : List Bool) (xs : List α) (ps : List β), m.length = xs.length → xs.length = ps.length →
      asCoded f id' zero m xs ps = rowwise f id' m xs ps := by
  intro m
  induction m with
  | nil =>
    intro xs ps h1 h2
    cases xs with
    | nil => simp [asCoded, rowwise, scatter, gather]
    | cons x xs => simp at h1
  | cons b ms ih =>
    intro xs ps h1 h2
    cases xs with
    | nil => simp at h1
    | cons x xs =>
      cases ps with
      | nil => simp at h2
      | cons p ps =>
        have ih' := ih xs ps (by simpa using h1) (by simpa using h2)
        cases b <;> simp_all [asCoded, rowwise, scatter, gather]


end MaskedScatter
