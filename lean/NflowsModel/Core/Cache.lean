/-!
# Core/Cache — the weight-cache state machine of `nflows.transforms.linear.Linear` (C10), core Lean only

Mirrors the code that exists in `/repo` NOW, i.e. after the commits
`fix: Linear invalidates its weight cache on load_state_dict and on dtype/device conversion` (overrides of
`_apply` and `_load_from_state_dict`, linear.py:93-101) and
`fix: NaiveLinear.weight_inverse_and_logabsdet builds its identity in the weight's dtype` (linear.py:217-236).
The machine of the code as it was BEFORE these commits (stale after load, dtype error after a cast) is kept
as a documented historical counterexample in `Lemmas/CacheHistorical.lean`.

Abstraction.  The parameters are abstracted to a version number `ver` (every parameter update and every
`load_state_dict` makes a fresh version) and a dtype `dt`.  A tensor is abstracted to the version and dtype
it was computed from plus one bit: has a backward pass already run through (and freed) its autograd graph.
An output is right iff it was computed from the current version in the current dtype.

Not fixed in `/repo` (known finding F11c) and therefore modelled as coded: the cached weight / inverse /
log-abs-det keep the autograd graph they were built with, so a second forward+backward in evaluation mode with
the cache on raises `RuntimeError: Trying to backward through the graph a second time`.
-/
namespace Cache

inductive DT | f32 | f64 deriving DecidableEq, Repr

/-- torch type promotion restricted to the two floating dtypes -/
def DT.promote : DT → DT → DT
  | .f32, .f32 => .f32
  | _, _ => .f64

/-- `generic`: LULinear, QRLinear, SVDLinear, OneByOneConvolution (every cache slot holds a tensor COMPUTED from
    the parameters: lu.py:93-118, qr.py:86-108, svd.py:98-122).
    `naive`: NaiveLinear, whose `weight()` returns the parameter object itself (linear.py:202-206): the cached
    weight is an alias of the live parameter (it follows in-place updates and has no autograd graph of its own);
    its cached inverse and log-abs-det are computed tensors (linear.py:208-243). -/
inductive Kind | generic | naive deriving DecidableEq, Repr

structure Slot where
  ver : Nat              -- parameter version the tensor was computed from
  dt : DT                -- dtype it was computed in
  graphFreed : Bool      -- a backward pass already ran through the cached tensor's graph
deriving DecidableEq, Repr

/-- linear.py:14-28 (`LinearCache`), 34-44 (`Linear.__init__`), `nn.Module.training` -/
structure St where
  training : Bool := true
  usingCache : Bool := false
  cW : Option Slot := none
  cInv : Option Slot := none
  cLd : Option Slot := none
  ver : Nat := 0
  dt : DT := .f32
deriving DecidableEq, Repr

/-- The op alphabet of the property.  `update` is an in-place parameter update (what an optimiser step does:
    `with torch.no_grad(): p.add_(…)`); the property only allows it in training mode, the machine says what the
    code does in either mode.  `useCacheBad` is `use_cache(<non-bool>)`. -/
inductive Op | train | eval | useCache (b : Bool) | useCacheBad | fwd | inv | update | load | cast (d : DT) | fwdBwd
deriving DecidableEq, Repr

/-- What a step returns to the caller.  `ok wv wdt lv ldt`: outputs were computed with the weight (or inverse) of
    parameter version `wv` and have dtype `wdt`; the log-abs-det is that of version `lv` and has dtype `ldt`. -/
inductive Out
  | none
  | ok (wv : Nat) (wdt : DT) (lv : Nat) (ldt : DT)
  | errType        -- TypeError (use_cache with a non-bool, linear.py:104-105)
  | errDtype       -- RuntimeError: dtype mismatch inside F.linear (cached tensor of another dtype than the inputs)
  | errBackward    -- RuntimeError: Trying to backward through the graph a second time
deriving DecidableEq, Repr

/-- a tensor computed now from the current parameters -/
def fresh (s : St) : Slot := ⟨s.ver, s.dt, false⟩

/-- `if slot is None: slot = compute()` (linear.py:55-63, 74-85: the three-way case split there fills exactly
    the slots that are `None`; the combined `weight_and_logabsdet` / `weight_inverse_and_logabsdet` are only a
    cheaper way to compute both) -/
def fill (s : St) (c : Option Slot) : Slot := c.getD (fresh s)

/-- what reading the cached WEIGHT yields: for `naive` the slot is the live parameter object -/
def readW (k : Kind) (s : St) (w : Slot) : Slot :=
  match k with
  | .generic => w
  | .naive => fresh s

/-- a backward pass ran through the cached weight: its graph is freed (the aliased parameter has no graph) -/
def markW (k : Kind) (w : Slot) : Slot :=
  match k with
  | .generic => { w with graphFreed := true }
  | .naive => w

/-- linear.py:25-28 `LinearCache.invalidate` -/
def invalidate (s : St) : St := { s with cW := none, cInv := none, cLd := none }

/-- the cached branch is taken iff `not self.training and self.using_cache` (linear.py:47, 66) -/
def cachedMode (s : St) : Bool := !s.training && s.usingCache

/-- value returned by a cached call reading weight-like slot `w` and log-abs-det slot `l` (linear.py:49-51,
    68-70): `F.linear(inputs, w, …)` raises on a dtype mismatch; `l * outputs.new_ones(…)` promotes -/
def cachedOut (s : St) (w l : Slot) : Out :=
  if w.dt ≠ s.dt then .errDtype else .ok w.ver w.dt l.ver (DT.promote l.dt s.dt)

/-- value returned by `forward_no_cache` / `inverse_no_cache`: recomputed from the current parameters -/
def uncachedOut (s : St) : Out := .ok s.ver s.dt s.ver s.dt

/-- One step of the machine; mirrors linear.py:46-106 for class kind `k`. -/
def step (k : Kind) (s : St) : Op → St × Out
  -- linear.py:87-91  train(True): invalidate, then nn.Module.train
  | .train => ({ invalidate s with training := true }, .none)
  -- linear.py:87-91  eval() = train(False): no invalidation (and no refill)
  | .eval => ({ s with training := false }, .none)
  -- linear.py:103-106
  | .useCache b => ({ s with usingCache := b }, .none)
  | .useCacheBad => (s, .errType)
  -- linear.py:46-63
  | .fwd =>
    if cachedMode s then
      let w := fill s s.cW; let l := fill s s.cLd
      ({ s with cW := some w, cLd := some l }, cachedOut s (readW k s w) l)
    else (s, uncachedOut s)
  -- linear.py:65-85
  | .inv =>
    if cachedMode s then
      let w := fill s s.cInv; let l := fill s s.cLd
      ({ s with cInv := some w, cLd := some l }, cachedOut s w l)
    else (s, uncachedOut s)
  -- in-place parameter update: nothing in linear.py reacts to it (the cache is NOT invalidated)
  | .update => ({ s with ver := s.ver + 1 }, .none)
  -- linear.py:98-101  _load_from_state_dict: invalidate, then copy the loaded values into the parameters
  | .load => ({ invalidate s with ver := s.ver + 1 }, .none)
  -- linear.py:93-96  _apply (called by .double()/.float()/.to()): invalidate, then convert the parameters
  | .cast d => ({ invalidate s with dt := d }, .none)
  -- forward on inputs that require grad, loss = outputs.sum() + logabsdet.sum(), loss.backward()
  | .fwdBwd =>
    if cachedMode s then
      let w := fill s s.cW; let l := fill s s.cLd
      let s' := { s with cW := some w, cLd := some l }
      let rw := readW k s w
      match cachedOut s rw l with
      | .ok wv wdt lv ldt =>
        -- backward runs through the graphs the cached tensors were built with (the aliased parameter has none)
        if rw.graphFreed || l.graphFreed then (s', .errBackward)
        else
          ({ s with cW := some (markW k w), cLd := some { l with graphFreed := true } }, .ok wv wdt lv ldt)
      | o => (s', o)
    else (s, uncachedOut s)

/-- The reference: the same transform "recomputing from the current parameters without the cache".  Its only
    state is the parameters themselves. -/
structure Params where
  ver : Nat
  dt : DT
deriving DecidableEq, Repr

def St.params (s : St) : Params := ⟨s.ver, s.dt⟩

def refStep (p : Params) : Op → Params × Out
  | .train | .eval | .useCache _ => (p, .none)
  | .useCacheBad => (p, .errType)
  | .fwd | .inv | .fwdBwd => (p, .ok p.ver p.dt p.ver p.dt)
  | .update | .load => ({ p with ver := p.ver + 1 }, .none)
  | .cast d => ({ p with dt := d }, .none)

def run {σ : Type} (f : σ → Op → σ × Out) : σ → List Op → List Out
  | _, [] => []
  | s, o :: os => let r := f s o; r.2 :: run f r.1 os

/-- per-step trace (state after the step, observable of the step): what the driver prints -/
def trace (k : Kind) : St → List Op → List (St × Out)
  | _, [] => []
  | s, o :: os => let r := step k s o; r :: trace k r.1 os

/-- hypothesis of the property's alphabet: parameter updates happen in training mode only
    (`tr` = the training flag before the history) -/
def updatesOnlyInTraining (tr : Bool) : List Op → Bool
  | [] => true
  | .train :: os => updatesOnlyInTraining true os
  | .eval :: os => updatesOnlyInTraining false os
  | .update :: os => tr && updatesOnlyInTraining tr os
  | _ :: os => updatesOnlyInTraining tr os

/-- forced hypothesis (known finding F11c): between two invalidations (`train`, `load`, `cast`) at most one
    `fwdBwd` is executed in evaluation mode with the cache on.  `tr`, `uc` = training / using_cache flags before
    the history, `used` = such a backward already happened since the last invalidation. -/
def noRepeatedBackward (tr uc used : Bool) : List Op → Bool
  | [] => true
  | .train :: os => noRepeatedBackward true uc false os
  | .eval :: os => noRepeatedBackward false uc used os
  | .useCache b :: os => noRepeatedBackward tr b used os
  | .load :: os => noRepeatedBackward tr uc false os
  | .cast _ :: os => noRepeatedBackward tr uc false os
  | .fwdBwd :: os =>
    if !tr && uc then (!used && noRepeatedBackward tr uc true os) else noRepeatedBackward tr uc used os
  | _ :: os => noRepeatedBackward tr uc used os

end Cache
