import NflowsModel.Core.Basic
/-!
# Core/Spline — executable model of `nflows/transforms/splines/*.py` (after the `fix:` commits)

Two stages, both single-source for every semantics (`Float`, `Float32`, `ℝ`, dual numbers):
* stage A — list code generic in `XOps α`: softmax, minimum-width floor, cumulative knots, bin search,
  gathering the parameters of the selected bin;
* stage B — the per-bin closed form as a fixed `Expr` term evaluated by `evalG` on the gathered values.

Mirrors: rational_quadratic.py:69-181, quadratic.py:55-165, cubic.py:64-273, linear.py:36-111 and the four
`unconstrained_*` wrappers (linear tails).  Per element: the Python functions are element-wise over the
leading dimensions except for the batch-global domain check (modelled per element; the harness ORs it).
-/

namespace NF
open Expr

/-! ## Stage B: per-bin closed forms as `Expr` terms -/

@[reducible] def v (i : Nat) : Expr := .var i

/-- RQ forward value. env: 0 x, 1 xk, 2 w, 3 yk, 4 h, 5 d0, 6 d1  (s = h/w) -/
def rqFwdE : Expr :=
  let s := v 4 / v 2
  let th := (v 0 - v 1) / v 2
  let tt := th * (1 - th)
  v 3 + (v 4 * (s * (th * th) + v 5 * tt)) / (s + (v 5 + v 6 - 2 * s) * tt)

/-- RQ log-derivative at relative position θ (env 0 θ, 4 h, 2 w, 5 d0, 6 d1) : log dnum − 2 log den -/
def rqLdThetaE : Expr :=
  let s := v 4 / v 2
  let th := v 0
  let tt := th * (1 - th)
  let den := s + (v 5 + v 6 - 2 * s) * tt
  let dnum := (s * s) * (v 6 * (th * th) + 2 * s * tt + v 5 * ((1 - th) * (1 - th)))
  .log dnum - 2 * .log den

/-- RQ forward log-abs-det. env as `rqFwdE`. -/
def rqFwdLdE : Expr :=
  let s := v 4 / v 2
  let th := (v 0 - v 1) / v 2
  let tt := th * (1 - th)
  let den := s + (v 5 + v 6 - 2 * s) * tt
  let dnum := (s * s) * (v 6 * (th * th) + 2 * s * tt + v 5 * ((1 - th) * (1 - th)))
  .log dnum - 2 * .log den

/-- RQ inverse: discriminant. env: 0 y, 1 xk, 2 w, 3 yk, 4 h, 5 d0, 6 d1 -/
def rqDiscE : Expr :=
  let s := v 4 / v 2
  let dl := v 0 - v 3
  let a := dl * (v 5 + v 6 - 2 * s) + v 4 * (s - v 5)
  let b := v 4 * v 5 - dl * (v 5 + v 6 - 2 * s)
  let c := .neg s * dl
  b * b - 4 * a * c

/-- RQ inverse: the root `2c / (-b - sqrt(disc))`. -/
def rqRootE : Expr :=
  let s := v 4 / v 2
  let dl := v 0 - v 3
  let b := v 4 * v 5 - dl * (v 5 + v 6 - 2 * s)
  let c := .neg s * dl
  (2 * c) / (.neg b - .sqrt rqDiscE)

/-- quadratic forward: env 0 x', 1 loc, 2 w, 3 lcdf, 4 hl, 5 hr -/
def quadFwdE : Expr :=
  let al := (v 0 - v 1) / v 2
  let a := (.lit 1 2) * (v 5 - v 4) * v 2
  let b := v 4 * v 2
  a * (al * al) + b * al + v 3
def quadFwdLdE : Expr :=
  let al := (v 0 - v 1) / v 2
  .log (al * (v 5 - v 4) + v 4)
/-- quadratic inverse root α: env 0 y', 1 loc, 2 w, 3 lcdf, 4 hl, 5 hr -/
def quadInvAlphaE : Expr :=
  let a := (.lit 1 2) * (v 5 - v 4) * v 2
  let b := v 4 * v 2
  let c := v 3 - v 0
  (2 * c) / (.neg b - .sqrt (b * b - 4 * a * c))

/-- cubic forward: env 0 x', 1 lcw, 2 a, 3 b, 4 c, 5 d -/
def cubicFwdE : Expr :=
  let sh := v 0 - v 1
  v 2 * (sh * sh * sh) + v 3 * (sh * sh) + v 4 * sh + v 5
def cubicDerivE : Expr :=
  let sh := v 0 - v 1
  3 * v 2 * (sh * sh) + 2 * v 3 * sh + v 4

variable {α : Type}

def envOf (xs : List α) (d : α) : Nat → α := fun i => xs.getD i d

def evalX (o : XOps α) (xs : List α) (e : Expr) : α := evalG o.toOps (envOf xs o.zero) e

/-! ## Stage A -/

structure Box where
  left : Float
  right : Float
  bottom : Float
  top : Float

/-- `m + (1 - m*K) * softmax(u)` — the Python scalar `1 - m*K` is a double. -/
def flooredSoftmax (o : XOps α) (m : Float) (u : List α) : List α :=
  let K := u.length
  let c := o.ofFloat (1 - m * K.toFloat)
  (softmaxG o u).map (fun s => o.add (o.ofFloat m) (o.mul c s))

/-- RQ-style knots on `[lo, hi]`: `(hi-lo)*pad0(cumsum w) + lo`, ends pinned; returns (knots, widths). -/
def rqKnots (o : XOps α) (lo hi : Float) (w : List α) : List α × List α :=
  let cum := o.zero :: cumsumG o w
  let cum := cum.map (fun c => o.add (o.mul (o.ofFloat (hi - lo)) c) (o.ofFloat lo))
  let cum := setLast (setFirst cum (o.ofFloat lo)) (o.ofFloat hi)
  (cum, diffsG o cum)

structure RQCfg where
  box : Box
  minW : Float
  minH : Float
  minD : Float
  beta : Float := 1.0      -- softplus beta (`enable_identity_init` ⇒ log 2 / (1 - minD))
  eps : Float := 1e-6      -- searchsorted eps

/-- `rational_quadratic_spline` on one element. `ud` has `K+1` entries. Returns (output, logabsdet). -/
def rqSpline (o : XOps α) (c : RQCfg) (uw uh ud : List α) (inverse : Bool) (x : α) : Except Err (α × α) := do
  let lower := if inverse then c.box.bottom else c.box.left
  let upper := if inverse then c.box.top else c.box.right
  if o.lt x (o.ofFloat lower) || o.lt (o.ofFloat upper) x then throw .outsideDomain
  let K := uw.length
  if c.minW * K.toFloat > 1.0 then throw .valueError
  if c.minH * K.toFloat > 1.0 then throw .valueError
  let (cw, widths) := rqKnots o c.box.left c.box.right (flooredSoftmax o c.minW uw)
  let derivs := ud.map (fun u => o.add (o.ofFloat c.minD) (o.softplusB (o.ofFloat c.beta) u))
  let (ch, heights) := rqKnots o c.box.bottom c.box.top (flooredSoftmax o c.minH uh)
  let idx := searchsortedG o c.eps (if inverse then ch else cw) x
  let xk ← getI cw idx
  let w ← getI widths idx
  let yk ← getI ch idx
  let h ← getI heights idx
  let d0 ← getI derivs idx
  let d1 ← getI derivs (idx + 1)
  let env := [x, xk, w, yk, h, d0, d1]
  if inverse then
    let disc := evalX o env rqDiscE
    if !(o.ge disc o.zero) then throw .assertion
    let root := evalX o env rqRootE
    let out := o.add (o.mul root w) xk
    let ld := evalX o [root, xk, w, yk, h, d0, d1] rqLdThetaE
    return (out, o.neg ld)
  else
    return (evalX o env rqFwdE, evalX o env rqFwdLdE)

/-- `unconstrained_rational_quadratic_spline` (linear tails) on one element; `ud` has `K-1` entries. -/
def rqSplineTails (o : XOps α) (tailBound : Float) (minW minH minD : Float) (beta : Float)
    (uw uh ud : List α) (inverse : Bool) (x : α) : Except Err (α × α) :=
  let B := o.ofFloat tailBound
  if o.ge x (o.neg B) && o.le x B then
    let cst := o.ofFloat (Float.log (Float.exp (1 - minD) - 1))
    let ud' := cst :: (ud ++ [cst])
    rqSpline o { box := ⟨-tailBound, tailBound, -tailBound, tailBound⟩, minW := minW, minH := minH, minD := minD, beta := beta }
      uw uh ud' inverse x
  else .ok (x, o.zero)

/-! ### quadratic -/

structure QCfg where
  box : Box
  minW : Float
  minH : Float
  eps : Float := 1e-6

def pairMeans (o : XOps α) : List α → List α
  | a :: b :: r => o.div (o.add a b) o.two :: pairMeans o (b :: r)
  | _ => []

def boxLog (b : Box) : Float := Float.log ((b.top - b.bottom) / (b.right - b.left))

/-- `quadratic_spline` on one element; `uh` has `K+1` (bounded) or `K-1` (tails) entries. -/
def quadSpline (o : XOps α) (c : QCfg) (uw uh : List α) (inverse : Bool) (x : α) : Except Err (α × α) := do
  let lower := if inverse then c.box.bottom else c.box.left
  let upper := if inverse then c.box.top else c.box.right
  if o.lt x (o.ofFloat lower) || o.lt (o.ofFloat upper) x then throw .outsideDomain
  let x' := if inverse then o.div (o.sub x (o.ofFloat c.box.bottom)) (o.ofFloat (c.box.top - c.box.bottom))
            else o.div (o.sub x (o.ofFloat c.box.left)) (o.ofFloat (c.box.right - c.box.left))
  let K := uw.length
  if c.minW * K.toFloat > 1.0 then throw .valueError
  if c.minH * K.toFloat > 1.0 then throw .valueError
  let widths := flooredSoftmax o c.minW uw
  let uhe := uh.map (fun u => o.add (o.softplus u) (o.ofFloat 1e-3))
  let half := o.ofFloat 0.5
  let uhe ← (if uhe.length + 1 == K then do
      let w0 ← getI widths 0
      let wl ← getI widths (K - 1)
      let fw := o.mul half w0
      let lw := o.mul half wl
      let u0 ← getI uhe 0
      let ul ← getI uhe (Int.ofNat uhe.length - 1)
      let inner := List.zipWith o.mul (pairMeans o uhe) ((widths.drop 1).take (K - 2))
      let numer := o.add (o.add (o.mul (o.mul half fw) u0) (o.mul (o.mul half lw) ul)) (sumG o inner)
      let cst := o.div numer (o.sub (o.sub o.one (o.mul half fw)) (o.mul half lw))
      pure (cst :: (uhe ++ [cst]))
    else pure uhe)
  let area := sumG o (List.zipWith o.mul (pairMeans o uhe) widths)
  let heights := uhe.map (fun u => o.add (o.ofFloat c.minH) (o.mul (o.ofFloat (1 - c.minH)) (o.div u area)))
  let blc := cumsumG o (List.zipWith o.mul (pairMeans o heights) widths)
  let blc := o.zero :: setLast blc o.one
  let locs := o.zero :: setLast (cumsumG o widths) o.one
  let idx := searchsortedG o c.eps (if inverse then blc else locs) x'
  let loc ← getI locs idx
  let w ← getI widths idx
  let lcdf ← getI blc idx
  let hl ← getI heights idx
  let hr ← getI heights (idx + 1)
  let env := [x', loc, w, lcdf, hl, hr]
  let bl := o.ofFloat (boxLog c.box)
  if inverse then
    let al := evalX o env quadInvAlphaE
    let out := o.clamp o.zero o.one (o.add (o.mul al w) loc)
    let ld := o.neg (o.log (o.add (o.mul al (o.sub hr hl)) hl))
    return (o.add (o.mul out (o.ofFloat (c.box.right - c.box.left))) (o.ofFloat c.box.left), o.sub ld bl)
  else
    let out := o.clamp o.zero o.one (evalX o env quadFwdE)
    let ld := evalX o env quadFwdLdE
    return (o.add (o.mul out (o.ofFloat (c.box.top - c.box.bottom))) (o.ofFloat c.box.bottom), o.add ld bl)

def tailsWrap (o : XOps α) (tailBound : Float) (x : α) (inner : Box → Except Err (α × α)) : Except Err (α × α) :=
  let B := o.ofFloat tailBound
  if o.ge x (o.neg B) && o.le x B then inner ⟨-tailBound, tailBound, -tailBound, tailBound⟩
  else .ok (x, o.zero)

/-! ### linear -/

/-- `torch.linspace(0, 1, K+1)` in the inputs' dtype (after the fix): `i * (1/K)` for the lower half,
    `1 - (K-i) * (1/K)` for the upper half, as ATen computes it. -/
def linspace01 (o : XOps α) (K : Nat) : List α :=
  let step := o.div o.one (o.ofNat K)
  (List.range (K + 1)).map (fun i =>
    if i < (K + 1) / 2 then o.mul (o.ofNat i) step
    else o.sub o.one (o.mul (o.ofNat (K - i)) step))

/-- `linear_spline` on one element. -/
def linSpline (o : XOps α) (box : Box) (eps : Float) (up : List α) (inverse : Bool) (x : α) : Except Err (α × α) := do
  let lower := if inverse then box.bottom else box.left
  let upper := if inverse then box.top else box.right
  if o.lt x (o.ofFloat lower) || o.lt (o.ofFloat upper) x then throw .outsideDomain
  let x' := if inverse then o.div (o.sub x (o.ofFloat box.bottom)) (o.ofFloat (box.top - box.bottom))
            else o.div (o.sub x (o.ofFloat box.left)) (o.ofFloat (box.right - box.left))
  let K := up.length
  let pdf := softmaxG o up
  let cdf := o.zero :: setLast (cumsumG o pdf) o.one
  let bl := o.ofFloat (boxLog box)
  if inverse then
    let idx := searchsortedG o eps cdf x'
    let bnd := linspace01 o K
    -- linear.py (after the fix): the slope of bin k is `pdf_k * num_bins` (what the forward pass uses, not
    -- `diffs(cdf)/diffs(boundaries)`), and the line of the bin is anchored at its right knot
    let slopes := pdf.map (fun p => o.mul p (o.ofNat K))
    let s ← getI slopes idx
    let rc ← getI (cdf.drop 1) idx
    let rb ← getI (bnd.drop 1) idx
    let out := o.clamp o.zero o.one (o.add rb (o.div (o.sub x' rc) s))
    let ld := o.neg (o.log s)
    return (o.add (o.mul out (o.ofFloat (box.right - box.left))) (o.ofFloat box.left), o.sub ld bl)
  else
    let binPos := o.mul x' (o.ofNat K)
    -- `torch.floor(bin_pos).long()` then `bin_idx[bin_idx >= num_bins] = num_bins - 1` (an integer comparison)
    let f := o.floorInt binPos
    let idx : Int := if f ≥ Int.ofNat K then Int.ofNat K - 1 else f
    let al := o.sub binPos (o.ofRat idx 1)
    let p ← getI pdf idx
    let c0 ← getI cdf idx
    let out := o.clamp o.zero o.one (o.add c0 (o.mul al p))
    let ld := o.sub (o.log p) (o.ofFloat (Float.log (1.0 / K.toFloat)))
    return (o.add (o.mul out (o.ofFloat (box.top - box.bottom))) (o.ofFloat box.bottom), o.add ld bl)

/-! ### cubic -/

structure CCfg where
  box : Box
  minW : Float
  minH : Float
  eps : Float := 1e-5         -- root-selection tolerance
  thr : Float := 1e-3         -- quadratic threshold
  seps : Float := 1e-6        -- searchsorted eps

def cbrtG (o : XOps α) (x : α) : α := o.mul (o.sign x) (o.exp (o.div (o.log (o.abs x)) (o.ofFloat 3.0)))

def minPair (o : XOps α) (f : α → α → α) : List α → List α
  | a :: b :: r => f a b :: minPair o f (b :: r)
  | _ => []

/-- the three candidate roots of the trigonometric branch and their in-bin masks; plus the pick -/
structure CubicInvDbg (α : Type) where
  cands : List α := []
  masks : List Bool := []

/-- `cubic_spline` on one element. Returns (output, logabsdet, admissible alternatives for output in
    normalised coordinates when the three-root selection is ambiguous). -/
def cubicSpline (o : XOps α) (c : CCfg) (uw uh : List α) (udl udr : α) (inverse : Bool) (x : α) :
    Except Err (α × α × List α) := do
  let lower := if inverse then c.box.bottom else c.box.left
  let upper := if inverse then c.box.top else c.box.right
  if o.lt x (o.ofFloat lower) || o.lt (o.ofFloat upper) x then throw .outsideDomain
  let K := uw.length
  if c.minW * K.toFloat > 1.0 then throw .valueError
  if c.minH * K.toFloat > 1.0 then throw .valueError
  let x' := if inverse then o.div (o.sub x (o.ofFloat c.box.bottom)) (o.ofFloat (c.box.top - c.box.bottom))
            else o.div (o.sub x (o.ofFloat c.box.left)) (o.ofFloat (c.box.right - c.box.left))
  let widths := flooredSoftmax o c.minW uw
  let cumw := o.zero :: setLast (cumsumG o widths) o.one
  let heights := flooredSoftmax o c.minH uh
  let cumh := o.zero :: setLast (cumsumG o heights) o.one
  let slopes := List.zipWith o.div heights widths
  let ms1 := minPair o (fun a b => o.minA (o.abs a) (o.abs b)) slopes
  -- 0.5 * (w[1:]*s[:-1] + w[:-1]*s[1:]) / (w[:-1] + w[1:])
  let rec ms2f : List α → List α → List α
    | w0 :: w1 :: wr, s0 :: s1 :: sr =>
        o.div (o.mul (o.ofFloat 0.5) (o.add (o.mul w1 s0) (o.mul w0 s1))) (o.add w0 w1) :: ms2f (w1 :: wr) (s1 :: sr)
    | _, _ => []
  let ms := List.zipWith o.minA ms1 (ms2f widths slopes)
  let s0 ← getI slopes 0
  let sl ← getI slopes (Int.ofNat K - 1)
  let three := o.ofNat 3
  let dl := o.mul (o.mul (o.sigmoid udl) three) s0
  let dr := o.mul (o.mul (o.sigmoid udr) three) sl
  let sgn := minPair o (fun a b => o.add (o.sign a) (o.sign b)) slopes
  let derivs := dl :: (List.zipWith o.mul ms sgn ++ [dr])
  let dL := derivs.take K
  let dR := derivs.drop 1
  let aL := (List.range K).map (fun k =>
    let l := dL.getD k o.zero; let r := dR.getD k o.zero; let s := slopes.getD k o.zero; let w := widths.getD k o.one
    o.div (o.sub (o.add l r) (o.mul o.two s)) (o.mul w w))
  let bL := (List.range K).map (fun k =>
    let l := dL.getD k o.zero; let r := dR.getD k o.zero; let s := slopes.getD k o.zero; let w := widths.getD k o.one
    o.div (o.sub (o.sub (o.mul three s) (o.mul o.two l)) r) w)
  let idx := searchsortedG o c.seps (if inverse then cumh else cumw) x'
  let ia ← getI aL idx
  let ib ← getI bL idx
  let ic ← getI dL idx
  let id ← getI cumh idx
  let lcw ← getI cumw idx
  let rcw ← getI cumw (idx + 1)
  let ih ← getI heights idx
  -- NB: the real code gathers `rcw` from the *un-mutated* knots after the searchsorted fix.
  let bl := o.ofFloat (boxLog c.box)
  if inverse then
    let b_ := o.div (o.div ib ia) (o.ofFloat 3.0)
    let c_ := o.div (o.div ic ia) (o.ofFloat 3.0)
    let d_ := o.div (o.sub id x') ia
    let delta1 := o.add (o.neg (o.mul b_ b_)) c_
    let delta2 := o.add (o.neg (o.mul c_ b_)) d_
    let delta3 := o.sub (o.mul b_ d_) (o.mul c_ c_)
    let disc := o.sub (o.mul (o.mul (o.ofFloat 4.0) delta1) delta3) (o.mul delta2 delta2)
    let dep1 := o.add (o.mul (o.mul (o.ofFloat (-2.0)) b_) delta1) delta2
    let dep2 := delta1
    let (out0, alts) :=
      if o.ge disc o.zero then
        let theta := o.div (o.atan2 (o.sqrt disc) (o.neg dep1)) (o.ofFloat 3.0)
        let c1 := o.cos theta
        let c2 := o.sin theta
        let h3 := o.ofFloat (0.5 * Float.sqrt 3.0)
        let r1 := c1
        let r2 := o.sub (o.mul (o.ofFloat (-0.5)) c1) (o.mul h3 c2)
        let r3 := o.add (o.mul (o.ofFloat (-0.5)) c1) (o.mul h3 c2)
        let scale := o.mul o.two (o.sqrt (o.neg dep2))
        let shift := o.add (o.neg b_) lcw
        let rs := [r1, r2, r3].map (fun r => o.add (o.mul r scale) shift)
        -- cubic.py (after the fix): the root with the smallest distance to the bin [lcw, rcw]; ties are admissible alternatives
        let relu := fun (t : α) => if o.lt o.zero t then t else o.zero
        let ds := rs.map (fun r => o.add (relu (o.sub lcw r)) (relu (o.sub r rcw)))
        let dmin := ds.foldl (fun m d => if o.lt d m then d else m) (ds.getD 0 o.zero)
        let good := (rs.zip ds).filter (fun rd => !(o.lt dmin rd.2)) |>.map (·.1)
        match good with
        | [] => (rs.getD 0 o.zero, rs)
        | g :: _ => (g, good)
      else if o.lt disc o.zero then
        let sq := o.sqrt (o.neg disc)
        let p := cbrtG o (o.div (o.add (o.neg dep1) sq) o.two)
        let q := cbrtG o (o.div (o.sub (o.neg dep1) sq) o.two)
        (o.add (o.sub (o.add p q) b_) lcw, [])
      else (o.zero, [])
    let (out1, alts) :=
      -- cubic.py (after the fix): |a| * width^3 < quadratic_threshold * height
      if o.lt (o.mul (o.abs ia) (let bw := o.sub rcw lcw; o.mul (o.mul bw bw) bw)) (o.mul (o.ofFloat c.thr) ih) then
        let a := ib; let b := ic; let cc := o.sub id x'
        -- cubic.py (after the fix): the radicand is clamped at zero (it vanishes at a flat end of the bin)
        let rad := o.maxA (o.sub (o.mul b b) (o.mul (o.mul (o.ofFloat 4.0) a) cc)) o.zero
        let al := o.div (o.mul o.two cc) (o.sub (o.neg b) (o.sqrt rad))
        (o.add al lcw, [])
      else (out0, alts)
    -- cubic.py (after the fix): the root is clamped into its bin before the derivative is evaluated
    let inBin := fun (t : α) => o.minA (o.maxA t lcw) rcw
    let out1 := inBin out1
    let alts := alts.map inBin
    let sh := o.sub out1 lcw
    let ld := o.neg (o.log (o.add (o.add (o.mul (o.mul three ia) (o.mul sh sh)) (o.mul (o.mul o.two ib) sh)) ic))
    let sc := fun (t : α) => o.add (o.mul (o.clamp o.zero o.one t) (o.ofFloat (c.box.right - c.box.left))) (o.ofFloat c.box.left)
    return (sc out1, o.sub ld bl, alts.map sc)
  else
    let env := [x', lcw, ia, ib, ic, id]
    let out := o.clamp o.zero o.one (evalX o env cubicFwdE)
    let ld := o.log (evalX o env cubicDerivE)
    return (o.add (o.mul out (o.ofFloat (c.box.top - c.box.bottom))) (o.ofFloat c.box.bottom), o.add ld bl, [])

end NF
