/-!
# Core/FlowPairing — value-level model of how a flow pairs noise, context rows, samples and densities (C04)

Executable and Mathlib-free.  Tensors are lists of rows (`[rows, …]`) or lists of blocks of rows (`[R, n, …]`);
randomness is an input: the noise tensor that the base distribution produced.  Transforms, log-densities and the
embedding net act row by row (batch independence is property C12), so they appear as functions of one row.

Mirrors
* `nflows/utils/torchutils.py:27-52`  `split_leading_dim`, `merge_leading_dims(·, 2)`, `repeat_rows`;
* `nflows/distributions/base.py:88-122`  `Distribution.sample_and_log_prob`;
* `nflows/flows/base.py:42-49, 51-75, 77-106`  `Flow._log_prob`, `Flow._sample`, `Flow.sample_and_log_prob`.
-/
namespace NF.FlowPairing
variable {Z X C E V : Type}

/-- `repeat_rows(x, n)` (torchutils.py:45-52): every row repeated `n` times consecutively -/
def repeatRows {α : Type} (x : List α) (n : Nat) : List α := x.flatMap (fun r => List.replicate n r)

/-- `merge_leading_dims(x, 2)` (torchutils.py:33-42) on `[R, n, …]`: the blocks one after the other -/
def mergeLeading {α : Type} (x : List (List α)) : List α := x.flatten

/-- `split_leading_dim(x, [-1, n])` (torchutils.py:27-30): block `i`, entry `j` is flat row `i·n + j` -/
def splitLeading {α : Type} (n : Nat) (l : List α) : List (List α) :=
  (List.range (l.length / n)).map (fun i => (l.drop (i * n)).take n)

/-- `Distribution.sample_and_log_prob(n, context)` with a context (base.py:107-122), as a function of the samples
    `S : [R][n]` that `self.sample` returned; `lp x e` is `log_prob` of one row under one context row -/
def distSalp (lp : Z → E → V) (e : List E) (n : Nat) (S : List (List Z)) : List (List Z) × List (List V) :=
  let flat := mergeLeading S                       -- base.py:111
  let e' := repeatRows e n                         -- base.py:112
  let l := List.zipWith lp flat e'                 -- base.py:115
  (splitLeading n flat, splitLeading n l)          -- base.py:119-120

/-- without a context (base.py:107, 115, 122) -/
def distSalp0 (lp0 : Z → V) (S : List Z) : List Z × List V := (S, S.map lp0)

/-- the functions of one row that make up a conditional flow -/
structure FlowFns (Z X C E V : Type) where
  /-- embedding net, one context row -/
  emb : C → E
  /-- `transform.inverse`, value and log-abs-det, of one noise row under one embedded context row -/
  tinv : Z → E → X
  ldInv : Z → E → V
  /-- `transform.forward` -/
  tfwd : X → E → Z
  ld : X → E → V
  /-- base `log_prob` of one noise row under one embedded context row -/
  blp : Z → E → V
  add : V → V → V
  sub : V → V → V

/-- `Flow._sample(n, context)` with a context (flows/base.py:51-75); `N : [R][n]` is the noise returned by
    `self._distribution.sample(n, context=embedded_context)` -/
def flowSample (f : FlowFns Z X C E V) (ctx : List C) (n : Nat) (N : List (List Z)) : List (List X) :=
  let e := ctx.map f.emb                           -- flows/base.py:52
  let flat := mergeLeading N                       -- flows/base.py:64
  let e' := repeatRows e n                         -- flows/base.py:65-67
  splitLeading n (List.zipWith f.tinv flat e')     -- flows/base.py:69, 73

/-- `Flow.sample_and_log_prob(n, context)` with a context (flows/base.py:77-106) -/
def flowSalp (f : FlowFns Z X C E V) (ctx : List C) (n : Nat) (N : List (List Z)) : List (List X) × List (List V) :=
  let e := ctx.map f.emb                                             -- flows/base.py:82
  let (noise, lp) := distSalp f.blp e n N                            -- flows/base.py:84-86
  let flat := mergeLeading noise                                     -- flows/base.py:94
  let e' := repeatRows e n                                           -- flows/base.py:95-97
  let samples := List.zipWith f.tinv flat e'                         -- flows/base.py:99
  let lad := List.zipWith f.ldInv flat e'
  (splitLeading n samples,                                           -- flows/base.py:103
   List.zipWith (List.zipWith f.sub) lp (splitLeading n lad))        -- flows/base.py:104, 106

/-- `Flow.log_prob(inputs, context)` row by row (distributions/base.py:22-40 → flows/base.py:42-49) -/
def flowLogProb (f : FlowFns Z X C E V) (xs : List X) (ctx : List C) : List V :=
  List.zipWith (fun x c => f.add (f.blp (f.tfwd x (f.emb c)) (f.emb c)) (f.ld x (f.emb c))) xs ctx

/-- one row of `Flow.log_prob` -/
def flowLogProb1 (f : FlowFns Z X C E V) (x : X) (c : C) : V :=
  f.add (f.blp (f.tfwd x (f.emb c)) (f.emb c)) (f.ld x (f.emb c))

/-- the unconditional flow (context `None`, identity embedding): functions of one row -/
structure FlowFns0 (Z X V : Type) where
  tinv : Z → X
  ldInv : Z → V
  tfwd : X → Z
  ld : X → V
  blp : Z → V
  add : V → V → V
  sub : V → V → V

/-- `Flow.sample_and_log_prob(n)` without context (flows/base.py:82-90, 99, 106); `N : [n]` -/
def flowSalp0 (f : FlowFns0 Z X V) (N : List Z) : List X × List V :=
  let (noise, lp) := distSalp0 f.blp N
  (noise.map f.tinv, List.zipWith f.sub lp (noise.map f.ldInv))

def flowLogProb0 (f : FlowFns0 Z X V) (x : X) : V := f.add (f.blp (f.tfwd x)) (f.ld x)

/-- `StandardNormal._sample(n, context)` / `ConditionalDiagonalNormal._sample` lay their `R·n` flat draws out
    as `[R, n]` (normal.py:40-43, 124-128): block `i`, draw `j` is flat draw `i·n + j` -/
def baseLayout {α : Type} (n : Nat) (flatDraws : List α) : List (List α) := splitLeading n flatDraws

/-! ## the tagged instance the driver runs: who is paired with whom -/

/-- noise rows are tagged by their flat draw index, context rows by their row index (shifted by `embShift`
    when an embedding net is present); the "transform" just records the pair it was given -/
def tagFns (embShift : Nat) : FlowFns Nat (Nat × Nat) Nat Nat (List Nat) where
  emb c := c + embShift
  tinv z e := (z, e)
  ldInv z e := [z, e]
  tfwd x _ := x.1
  ld x e := [x.1, e]
  blp z e := [z, e]
  add a b := a ++ b
  sub a b := a ++ b

/-- samples `[R][n]` as (noise tag, embedded-context tag) and log-probabilities as
    `[base noise tag, base ctx tag, logabsdet noise tag, logabsdet ctx tag]` -/
def taggedSalp (embShift R n : Nat) : List (List (Nat × Nat)) × List (List (List Nat)) :=
  flowSalp (tagFns embShift) (List.range R) n (baseLayout n (List.range (R * n)))

def taggedSample (embShift R n : Nat) : List (List (Nat × Nat)) :=
  flowSample (tagFns embShift) (List.range R) n (baseLayout n (List.range (R * n)))

/-- the default `Distribution.sample_and_log_prob` on tagged data (a plain conditional distribution) -/
def taggedDistSalp (R n : Nat) : List (List Nat) × List (List (List Nat)) :=
  distSalp (fun z e => [z, e]) (List.range R) n (baseLayout n (List.range (R * n)))

def tagFns0 : FlowFns0 Nat Nat (List Nat) where
  tinv z := z
  ldInv z := [z]
  tfwd x := x
  ld x := [x]
  blp z := [z]
  add a b := a ++ b
  sub a b := a ++ b

def taggedSalp0 (n : Nat) : List Nat × List (List Nat) := flowSalp0 tagFns0 (List.range n)

end NF.FlowPairing
