import NflowsModel.Core.Basic
/-!
# Core/Norm — ActNorm / BatchNorm life-cycle machines (C14), executable and Mathlib-free

Generic in the scalar semantics `o : XOps α`: the driver runs these definitions at `floatX` (IEEE binary64), the
theorems of `Properties/C14` are about the same definitions (for every `o`, and at `NormReal.realX` where real
arithmetic is needed).

* *code* machines `actStep` / `bnStep` mirror `nflows/transforms/normalization.py` line by line;
* *spec* machines `actSpecStep` / `bnSpecStep` are written from the documented behaviour (property C14): the
  ActNorm spec remembers **the one batch it was initialised on** (an `Option`, set once, never overwritten) and
  derives its parameters from it; the BatchNorm spec remembers **the list of training-mode forward batches** and
  derives the running statistics as the fold of the momentum rule over that list.

Batches carry no rectangularity proof: a missing entry reads as `0` (`getD`).  The harness only sends rectangular
batches whose feature/channel count is the constructor's `features` (stated in the assumptions of the check).
-/
namespace NF.Norm
variable {α : Type}

/-- an input tensor, by number of dimensions -/
inductive Batch (α : Type) where
  /-- `[B, F]` : list of rows -/
  | d2 (rows : List (List α))
  /-- `[B, C, H, W]` : per item, per channel, the `H*W` pixels (row-major); `h`,`w` kept for the log-det factor -/
  | d4 (h w : Nat) (imgs : List (List (List α)))
  /-- any other number of dimensions -/
  | bad (dims : Nat)

/-- the operations of a history -/
inductive NOp (α : Type) where
  | train | eval | fwd (b : Batch α) | inv (b : Batch α) | saveLoadFresh

/-- what one step returns: nothing (mode switches, reload), an error kind, or (outputs, log-abs-det per item) -/
abbrev Res (α : Type) := Option (Except Err (Batch α × List α))

namespace Batch
/-- `inputs.dim() in [2, 4]` -/
def valid24 : Batch α → Bool
  | .bad _ => false
  | _ => true
def isD2 : Batch α → Bool
  | .d2 _ => true
  | _ => false
/-- `inputs.shape[0]` -/
def size : Batch α → Nat
  | .d2 rows => rows.length
  | .d4 _ _ imgs => imgs.length
  | .bad _ => 0
/-- all values of feature `j` (2-D: column `j`; 4-D: channel `j` over `B·H·W`, the rows of
    `inputs.permute(0, 2, 3, 1).reshape(-1, C)`, normalization.py:209-211) -/
def col (o : XOps α) : Batch α → Nat → List α
  | .d2 rows, j => rows.map (fun r => r.getD j o.zero)
  | .d4 _ _ imgs, c => imgs.flatMap (fun img => img.getD c [])
  | .bad _, _ => []
/-- apply a per-feature scalar map (broadcast of `view(1,-1)` / `view(1,-1,1,1)`, normalization.py:165-169) -/
def mapCh (o : XOps α) (F : Nat) (f : Nat → α → α) : Batch α → Batch α
  | .d2 rows => .d2 (rows.map (fun r => (List.range F).map (fun j => f j (r.getD j o.zero))))
  | .d4 h w imgs => .d4 h w (imgs.map (fun img => (List.range F).map (fun c => (img.getD c []).map (f c))))
  | .bad d => .bad d
def flat : Batch α → List α
  | .d2 rows => rows.flatten
  | .d4 _ _ imgs => imgs.flatten.flatten
  | .bad _ => []
end Batch

/-! ## statistics -/

/-- `x.mean(0)` of one column -/
def meanL (o : XOps α) (xs : List α) : α := o.div (sumG o xs) (o.ofNat xs.length)
/-- `x.var(0)` of one column (torch default: unbiased, divisor `n - 1`) -/
def varUL (o : XOps α) (xs : List α) : α :=
  let m := meanL o xs
  o.div (sumG o (xs.map (fun x => o.sq (o.sub x m)))) (o.sub (o.ofNat xs.length) o.one)

/-! ## ActNorm (normalization.py:144-218) -/

structure ActSt (α : Type) where
  training : Bool
  /-- the persistent bool buffer `initialized` (normalization.py:157) -/
  initialized : Bool
  logScale : List α
  shift : List α
  /-- ghost: how many times `_initialize` ran -/
  initCount : Nat

/-- `_initialize` for one feature (normalization.py:213-217): `std = x.std(0)`, `mu = (x/std).mean(0)`,
    `log_scale = -log std`, `shift = -mu` -/
def actInitCol (o : XOps α) (xs : List α) : α × α :=
  let std := o.sqrt (varUL o xs)
  (o.neg (o.log std), o.neg (meanL o (xs.map (fun x => o.div x std))))

/-- `_initialize` (normalization.py:206-218): new `(log_scale, shift)` -/
def actInit (o : XOps α) (F : Nat) (b : Batch α) : List α × List α :=
  ((List.range F).map (fun j => (actInitCol o (b.col o j)).1),
   (List.range F).map (fun j => (actInitCol o (b.col o j)).2))

/-- `scale * inputs + shift` with `scale = exp(log_scale)` (normalization.py:161-163,178-179) -/
def actApply (o : XOps α) (F : Nat) (ls sh : List α) (b : Batch α) : Batch α :=
  b.mapCh o F (fun j x => o.add (o.mul (o.exp (ls.getD j o.zero)) x) (sh.getD j o.zero))
/-- `(inputs - shift) / scale` (normalization.py:195-196) -/
def actUnapply (o : XOps α) (F : Nat) (ls sh : List α) (b : Batch α) : Batch α :=
  b.mapCh o F (fun j x => o.div (o.sub x (sh.getD j o.zero)) (o.exp (ls.getD j o.zero)))
/-- log-abs-det (normalization.py:181-187, 198-203): `sum(log_scale)` per item, times `h*w` for images,
    negated for the inverse -/
def actLogdet (o : XOps α) (ls : List α) (b : Batch α) (inverse : Bool) : List α :=
  let s := sumG o ls
  let v := match b with
    | .d4 h w _ => o.mul (o.ofNat (h * w)) s
    | _ => s
  List.replicate b.size (if inverse then o.neg v else v)

/-- the code (normalization.py:171-204) -/
def actStep (o : XOps α) (F : Nat) (s : ActSt α) : NOp α → ActSt α × Res α
  | .train => ({ s with training := true }, none)
  | .eval => ({ s with training := false }, none)
  -- a fresh instance is in training mode; `initialized`, `log_scale`, `shift` travel in the state dict
  | .saveLoadFresh => ({ s with training := true }, none)
  | .fwd b =>
    if !b.valid24 then (s, some (.error .valueError)) else
    let s' : ActSt α :=
      if s.training && !s.initialized then
        { s with initialized := true, logScale := (actInit o F b).1, shift := (actInit o F b).2,
                 initCount := s.initCount + 1 }
      else s
    (s', some (.ok (actApply o F s'.logScale s'.shift b, actLogdet o s'.logScale b false)))
  | .inv b =>
    if !b.valid24 then (s, some (.error .valueError)) else
    (s, some (.ok (actUnapply o F s.logScale s.shift b, actLogdet o s.logScale b true)))

/-- the documented behaviour: the first training-mode forward pass initialises from its batch; nothing else
    ever changes the parameters -/
structure ActSpec (α : Type) where
  training : Bool
  /-- the batch of the one data-dependent initialisation, once it has happened -/
  init : Option (Batch α)
  /-- the parameter values in force until then -/
  logScale0 : List α
  shift0 : List α

def ActSpec.params (o : XOps α) (F : Nat) (sp : ActSpec α) : List α × List α :=
  match sp.init with
  | none => (sp.logScale0, sp.shift0)
  | some b => actInit o F b

def actSpecStep (o : XOps α) (F : Nat) (sp : ActSpec α) : NOp α → ActSpec α × Res α
  | .train => ({ sp with training := true }, none)
  | .eval => ({ sp with training := false }, none)
  | .saveLoadFresh => ({ sp with training := true }, none)
  | .fwd b =>
    if !b.valid24 then (sp, some (.error .valueError)) else
    let sp' : ActSpec α :=
      match sp.init with
      | some _ => sp
      | none => if sp.training then { sp with init := some b } else sp
    (sp', some (.ok (actApply o F (sp'.params o F).1 (sp'.params o F).2 b, actLogdet o (sp'.params o F).1 b false)))
  | .inv b =>
    if !b.valid24 then (sp, some (.error .valueError)) else
    (sp, some (.ok (actUnapply o F (sp.params o F).1 (sp.params o F).2 b, actLogdet o (sp.params o F).1 b true)))

/-! ## BatchNorm (normalization.py:72-141) -/

/-- constructor arguments `eps`, `momentum` (normalization.py:80,85-86) -/
structure BNCfg (α : Type) where
  eps : α
  momentum : α

structure BNSt (α : Type) where
  training : Bool
  runMean : List α
  runVar : List α
  uweight : List α
  bias : List α
  /-- ghost: number of running-statistics updates -/
  updates : Nat

/-- `weight = softplus(unconstrained_weight) + eps` (normalization.py:94-96) -/
def bnWeight (o : XOps α) (cfg : BNCfg α) (uw : List α) (j : Nat) : α :=
  o.add (o.softplus (uw.getD j o.zero)) cfg.eps

/-- the momentum rule `r.mul_(1 - m).add_(s * m)` (normalization.py:106-107) -/
def ema (o : XOps α) (m r s : α) : α := o.add (o.mul r (o.sub o.one m)) (o.mul s m)
def emaVec (o : XOps α) (m : α) (F : Nat) (r st : List α) : List α :=
  (List.range F).map (fun j => ema o m (r.getD j o.zero) (st.getD j o.zero))

def colMeans (o : XOps α) (F : Nat) (rows : List (List α)) : List α :=
  (List.range F).map (fun j => meanL o ((Batch.d2 rows).col o j))
/-- `inputs.var(0)`: UNBIASED (normalization.py:105) -/
def colVars (o : XOps α) (F : Nat) (rows : List (List α)) : List α :=
  (List.range F).map (fun j => varUL o ((Batch.d2 rows).col o j))

/-- `weight * ((inputs - mean) / sqrt(var + eps)) + bias` (normalization.py:111-113) -/
def bnNormalise (o : XOps α) (cfg : BNCfg α) (F : Nat) (mean var uw bias : List α) (rows : List (List α)) :
    List (List α) :=
  rows.map (fun r => (List.range F).map (fun j =>
    o.add (o.mul (bnWeight o cfg uw j)
                 (o.div (o.sub (r.getD j o.zero) (mean.getD j o.zero))
                        (o.sqrt (o.add (var.getD j o.zero) cfg.eps))))
          (bias.getD j o.zero)))

/-- `sqrt(running_var + eps) * ((inputs - bias) / weight) + running_mean` (normalization.py:130-134) -/
def bnDenormalise (o : XOps α) (cfg : BNCfg α) (F : Nat) (mean var uw bias : List α) (rows : List (List α)) :
    List (List α) :=
  rows.map (fun r => (List.range F).map (fun j =>
    o.add (o.mul (o.sqrt (o.add (var.getD j o.zero) cfg.eps))
                 (o.div (o.sub (r.getD j o.zero) (bias.getD j o.zero)) (bnWeight o cfg uw j)))
          (mean.getD j o.zero)))

/-- `sum(log weight - 0.5 log(var + eps))` per item (normalization.py:115-116), and its inverse-direction form
    `sum(-log weight + 0.5 log(var + eps))` (normalization.py:136-139) -/
def bnLogdet (o : XOps α) (cfg : BNCfg α) (F : Nat) (var uw : List α) (B : Nat) (inverse : Bool) : List α :=
  let half := o.ofRat 1 2
  let term (j : Nat) : α :=
    let lw := o.log (bnWeight o cfg uw j)
    let lv := o.mul half (o.log (o.add (var.getD j o.zero) cfg.eps))
    if inverse then o.add (o.neg lw) lv else o.sub lw lv
  List.replicate B (sumG o ((List.range F).map term))

/-- the code (normalization.py:98-141) -/
def bnStep (o : XOps α) (cfg : BNCfg α) (F : Nat) (s : BNSt α) : NOp α → BNSt α × Res α
  | .train => ({ s with training := true }, none)
  | .eval => ({ s with training := false }, none)
  -- fresh instance (same constructor arguments) in training mode; buffers and parameters travel in the state dict
  | .saveLoadFresh => ({ s with training := true }, none)
  | .fwd b =>
    match b with
    | .d2 rows =>
      if s.training then
        let mean := colMeans o F rows
        let var := colVars o F rows
        ({ s with runMean := emaVec o cfg.momentum F s.runMean mean,
                  runVar := emaVec o cfg.momentum F s.runVar var,
                  updates := s.updates + 1 },
         some (.ok (.d2 (bnNormalise o cfg F mean var s.uweight s.bias rows),
                    bnLogdet o cfg F var s.uweight rows.length false)))
      else
        (s, some (.ok (.d2 (bnNormalise o cfg F s.runMean s.runVar s.uweight s.bias rows),
                       bnLogdet o cfg F s.runVar s.uweight rows.length false)))
    | _ => (s, some (.error .valueError))
  | .inv b =>
    if s.training then (s, some (.error .inverseNotAvailable)) else
    match b with
    | .d2 rows =>
      (s, some (.ok (.d2 (bnDenormalise o cfg F s.runMean s.runVar s.uweight s.bias rows),
                     bnLogdet o cfg F s.runVar s.uweight rows.length true)))
    | _ => (s, some (.error .valueError))

/-- the documented behaviour: the running statistics are the momentum rule folded over exactly the training-mode
    forward batches, in order; evaluation mode uses them; the inverse exists only there -/
structure BNSpec (α : Type) where
  training : Bool
  /-- every batch that went through `forward` in training mode, oldest first -/
  seen : List (List (List α))
  runMean0 : List α
  runVar0 : List α
  uweight : List α
  bias : List α

def BNSpec.runMean (o : XOps α) (cfg : BNCfg α) (F : Nat) (sp : BNSpec α) : List α :=
  sp.seen.foldl (fun r rows => emaVec o cfg.momentum F r (colMeans o F rows)) sp.runMean0
def BNSpec.runVar (o : XOps α) (cfg : BNCfg α) (F : Nat) (sp : BNSpec α) : List α :=
  sp.seen.foldl (fun r rows => emaVec o cfg.momentum F r (colVars o F rows)) sp.runVar0

def bnSpecStep (o : XOps α) (cfg : BNCfg α) (F : Nat) (sp : BNSpec α) : NOp α → BNSpec α × Res α
  | .train => ({ sp with training := true }, none)
  | .eval => ({ sp with training := false }, none)
  | .saveLoadFresh => ({ sp with training := true }, none)
  | .fwd b =>
    match b with
    | .d2 rows =>
      if sp.training then
        ({ sp with seen := sp.seen ++ [rows] },
         some (.ok (.d2 (bnNormalise o cfg F (colMeans o F rows) (colVars o F rows) sp.uweight sp.bias rows),
                    bnLogdet o cfg F (colVars o F rows) sp.uweight rows.length false)))
      else
        (sp, some (.ok (.d2 (bnNormalise o cfg F (sp.runMean o cfg F) (sp.runVar o cfg F) sp.uweight sp.bias rows),
                        bnLogdet o cfg F (sp.runVar o cfg F) sp.uweight rows.length false)))
    | _ => (sp, some (.error .valueError))
  | .inv b =>
    if sp.training then (sp, some (.error .inverseNotAvailable)) else
    match b with
    | .d2 rows =>
      (sp, some (.ok (.d2 (bnDenormalise o cfg F (sp.runMean o cfg F) (sp.runVar o cfg F) sp.uweight sp.bias rows),
                      bnLogdet o cfg F (sp.runVar o cfg F) sp.uweight rows.length true)))
    | _ => (sp, some (.error .valueError))

/-! ## running a history -/

/-- run a machine over a history: final state and the list of per-step results -/
def runM {σ ρ ω : Type} (step : σ → ω → σ × ρ) : σ → List ω → σ × List ρ
  | s, [] => (s, [])
  | s, op :: ops => ((runM step (step s op).1 ops).1, (step s op).2 :: (runM step (step s op).1 ops).2)

/-- the same, keeping the state after every step (what the driver reports) -/
def traceM {σ ρ ω : Type} (step : σ → ω → σ × ρ) : σ → List ω → List (σ × ρ)
  | _, [] => []
  | s, op :: ops => step s op :: traceM step (step s op).1 ops

/-! ## history-level vocabulary of the property statement -/

/-- the batch of the first training-mode `forward` of a history that is accepted (2-D or 4-D input), given the mode
    `m` the history starts in -/
def firstTrainFwd : Bool → List (NOp α) → Option (Batch α)
  | _, [] => none
  | _, .train :: r => firstTrainFwd true r
  | _, .eval :: r => firstTrainFwd false r
  | _, .saveLoadFresh :: r => firstTrainFwd true r
  | m, .fwd b :: r => if m && b.valid24 then some b else firstTrainFwd m r
  | m, .inv _ :: r => firstTrainFwd m r

/-- the batches that go through an accepted (2-D) `forward` in training mode, in order -/
def trainBatches : Bool → List (NOp α) → List (List (List α))
  | _, [] => []
  | _, .train :: r => trainBatches true r
  | _, .eval :: r => trainBatches false r
  | _, .saveLoadFresh :: r => trainBatches true r
  | m, .fwd b :: r =>
    match b with
    | .d2 rows => if m then rows :: trainBatches m r else trainBatches m r
    | _ => trainBatches m r
  | m, .inv _ :: r => trainBatches m r

/-- a newly constructed / not yet initialised ActNorm seen as a spec state -/
def ActSt.toSpec (s : ActSt α) : ActSpec α :=
  { training := s.training, init := none, logScale0 := s.logScale, shift0 := s.shift }
def BNSt.toSpec (s : BNSt α) : BNSpec α :=
  { training := s.training, seen := [], runMean0 := s.runMean, runVar0 := s.runVar, uweight := s.uweight, bias := s.bias }

/-- simulation relations used by the refinement theorems -/
def actRel (o : XOps α) (F : Nat) (c : ActSt α) (sp : ActSpec α) : Prop :=
  c.training = sp.training ∧ c.initialized = sp.init.isSome ∧ c.logScale = (sp.params o F).1 ∧
  c.shift = (sp.params o F).2 ∧ c.initCount = (if sp.init.isSome then 1 else 0)
def bnRel (o : XOps α) (cfg : BNCfg α) (F : Nat) (c : BNSt α) (sp : BNSpec α) : Prop :=
  c.training = sp.training ∧ c.runMean = sp.runMean o cfg F ∧ c.runVar = sp.runVar o cfg F ∧
  c.uweight = sp.uweight ∧ c.bias = sp.bias ∧ c.updates = sp.seen.length

end NF.Norm
