import NflowsModel.Core.Driver
/-!
# Core/Dual — forward-mode AD as another scalar semantics (C16)

`dualX o : XOps (α × α)` extends `dualOps` (Core/Expr, proved sound on `Expr` by `evalDual_sound`) to the remaining
primitives of `XOps`; every model function can therefore be run on (value, tangent) pairs and returns the
directional derivative along the seeded direction.  Comparisons, `floor` and `nextUp` act on the value component.
Transport: one dual number is one 128-bit integer (value bits + 2^64 · tangent bits), precision tag "d64".
-/
namespace NF

def dualX {α : Type} (o : XOps α) : XOps (α × α) where
  toOps := dualOps o.toOps
  ofFloat x := (o.ofFloat x, o.zero)
  toFloat a := o.toFloat a.1
  le a b := o.le a.1 b.1
  tanh a := let t := o.tanh a.1; (t, o.mul a.2 (o.sub o.one (o.mul t t)))
  atan a := (o.atan a.1, o.div a.2 (o.add o.one (o.mul a.1 a.1)))
  tan a := let t := o.tan a.1; (t, o.mul a.2 (o.add o.one (o.mul t t)))
  cos a := (o.cos a.1, o.neg (o.mul a.2 (o.sin a.1)))
  sin a := (o.sin a.1, o.mul a.2 (o.cos a.1))
  atan2 y x := (o.atan2 y.1 x.1,
    o.div (o.sub (o.mul x.1 y.2) (o.mul y.1 x.2)) (o.add (o.mul x.1 x.1) (o.mul y.1 y.1)))
  abs a := (o.abs a.1, o.mul (o.sign a.1) a.2)
  floor a := (o.floor a.1, o.zero)
  floorInt a := o.floorInt a.1
  nextUp a := (o.nextUp a.1, a.2)
  isFinite a := o.isFinite a.1 && o.isFinite a.2

instance : Bits (Float × Float) where
  ofBits n := (Float.ofBits (n % 18446744073709551616).toUInt64, Float.ofBits (n / 18446744073709551616).toUInt64)
  toBits x := x.1.toBits.toNat + 18446744073709551616 * x.2.toBits.toNat

end NF
