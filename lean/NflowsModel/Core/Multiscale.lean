import NflowsModel.Core.Wrappers
/-!
# Core/Multiscale — `MultiscaleCompositeTransform` (executable model, Mathlib-free)

Mirrors `nflows/transforms/base.py:63-212`.  One batch item is an `Item`: its shape (WITHOUT the batch dimension,
like the shapes `add_transform` is given) and its row-major data.  The batch is a list of items evaluated
independently (`split_dim ≥ 1`, so no operation of the wrapper ever mixes batch rows).  Dimension `split_dim` of the
batched tensor is dimension `d = split_dim - 1` of the item.
-/
namespace NF.Wrap

structure Item (α : Type) where
  shape : List Nat
  data : List α

/-- number of elements of a shape (`np.prod(shape)`, base.py:188) -/
def prod : List Nat → Nat
  | [] => 1
  | n :: r => n * prod r

variable {α : Type}

/-- walk over `m` consecutive blocks of `blk` elements; from each block the first `k` elements go to the first
    result, the rest to the second.  This is what `torch.chunk(·, 2, dim)` does to the row-major data of a
    tensor: `m` = product of the dimensions before `dim`, `blk = n·inner`, `k = ⌈n/2⌉·inner`. -/
def splitBlocks (blk k : Nat) : Nat → List α → List α × List α
  | 0, _ => ([], [])
  | m + 1, l =>
    let r := splitBlocks blk k m (l.drop blk)
    ((l.take blk).take k ++ r.1, (l.take blk).drop k ++ r.2)

/-- the converse walk: `torch.cat([a, b], dim)` on row-major data (`ka`, `kb` = block sizes of `a` and `b`) -/
def mergeBlocks (ka kb : Nat) : Nat → List α → List α → List α
  | 0, _, _ => []
  | m + 1, a, b => a.take ka ++ (b.take kb ++ mergeBlocks ka kb m (a.drop ka) (b.drop kb))

/-- `outputs, hiddens = torch.chunk(y, chunks=2, dim=split_dim)` on one item (base.py:155-157).
    torch's chunk size is `⌈n/2⌉`; for `n = 1` only ONE chunk comes back and the tuple unpacking raises
    `ValueError`; for `n = 0` two empty chunks come back. -/
def chunk2 (d : Nat) (y : Item α) : Except Err (Item α × Item α) :=
  match y.shape[d]? with
  | none => .error .indexError
  | some n =>
    if n = 1 then .error .valueError
    else
      let c := (n + 1) / 2
      let inner := prod (y.shape.drop (d + 1))
      let outer := prod (y.shape.take d)
      let r := splitBlocks (n * inner) (c * inner) outer y.data
      .ok (⟨y.shape.set d c, r.1⟩, ⟨y.shape.set d (n - c), r.2⟩)

/-- `torch.cat([a, b], dim=split_dim)` on one item (base.py:206): all other dimensions must agree -/
def cat2 (d : Nat) (a b : Item α) : Except Err (Item α) :=
  match a.shape[d]?, b.shape[d]? with
  | some na, some nb =>
    if a.shape.take d = b.shape.take d ∧ a.shape.drop (d + 1) = b.shape.drop (d + 1) then
      let inner := prod (a.shape.drop (d + 1))
      let outer := prod (a.shape.take d)
      .ok ⟨a.shape.set d (na + nb), mergeBlocks (na * inner) (nb * inner) outer a.data b.data⟩
    else .error .runtime
  | _, _ => .error .indexError

/-- the ROUTING of the wrapper on row-major data, stages leaving the data alone: the list of segments emitted by
    `k` stages when the split dimension has size `n` (`outer`/`inner` = product of the dimensions before/after it).
    Every stage but the last emits the first chunk and passes the second one on (base.py:153-163). -/
def routeSegs (outer inner : Nat) : Nat → Nat → List α → List (List α)
  | 0, _, _ => []
  | 1, _, l => [l]
  | k + 2, n, l =>
    let s := splitBlocks (n * inner) ((n + 1) / 2 * inner) outer l
    s.1 :: routeSegs outer inner (k + 1) (n / 2) s.2

/-- `[g₁, g₂ ∘ g₁, g₃ ∘ g₂ ∘ g₁, …]`: what the coordinates emitted after stage 1, 2, 3, … have gone through -/
def prefixMaps : List (α → α) → List (α → α)
  | [] => []
  | g :: gs => g :: (prefixMaps gs).map (fun f => f ∘ g)

/-- the object state of a `MultiscaleCompositeTransform` (base.py:85-89) -/
structure MS (α C L : Type) where
  numTransforms : Int
  splitDim : Nat
  transforms : List (Tr (Item α) C L)
  outputShapes : List (List Nat)

/-- what was passed as `split_dim` (Python is untyped): an `int`, or anything that is not an `int`
    (`float`, `str`, `None`; `bool` is not modelled) -/
inductive PyArg where
  | int (v : Int)
  | other
deriving Repr, DecidableEq

variable {C L : Type}

/-- `__init__(num_transforms, split_dim)` (base.py:75-89): `TypeError` unless `split_dim` is a positive int;
    `num_transforms` is not checked. -/
def MS.new (numT : Int) (sd : PyArg) : Except Err (MS α C L) :=
  match sd with
  | .int v => if v > 0 then .ok ⟨numT, v.toNat, [], []⟩ else .error .typeError
  | .other => .error .typeError

/-- `add_transform(transform, transform_output_shape)` (base.py:91-137): returns the new state and the returned
    value (the hidden shape, or `None` for the last transform). -/
def MS.addTransform (m : MS α C L) (t : Tr (Item α) C L) (shape : List Nat) :
    Except Err (MS α C L × Option (List Nat)) :=
  if ¬ ((m.transforms.length : Int) ≤ m.numTransforms) then .error .assertion          -- base.py:102
  else if (m.transforms.length : Int) = m.numTransforms then .error .runtime            -- base.py:104-109
  else if m.splitDim - 1 ≥ shape.length then .error .valueError                         -- base.py:111-112
  else
    let n := shape.getD (m.splitDim - 1) 0
    if n < 2 then .error .valueError                                                    -- base.py:114-117
    else
      let ts := m.transforms ++ [t]                                                     -- base.py:119
      if (ts.length : Int) ≠ m.numTransforms then                                       -- base.py:121-130
        .ok ({ m with transforms := ts,
                      outputShapes := m.outputShapes ++ [shape.set (m.splitDim - 1) ((n + 1) / 2)] },
             some (shape.set (m.splitDim - 1) (n / 2)))
      else                                                                              -- base.py:131-137
        .ok ({ m with transforms := ts, outputShapes := m.outputShapes ++ [shape] }, none)

/-- the generator `cascade()` together with the consuming loop (base.py:150-170): `acc` is `all_outputs`
    (already flattened per item), `l` is `total_logabsdet`.  `shs` are the recorded `_output_shapes` still ahead. -/
def fwdStages (A : LD L) (d : Nat) :
    List (Tr (Item α) C L) → List (List Nat) → Item α → List α → L → C → Except Err (List α × L)
  | [], _, _, _, _, _ => .error .indexError                          -- `self._transforms[-1]` of an empty list
  | [t], _, h, acc, l, c =>                                          -- base.py:161-163
    match t.fwd h c with
    | .error e => .error e
    | .ok (y, ld) => .ok (acc ++ y.data, A.add l ld)
  | t :: t' :: ts, shs, h, acc, l, c =>                              -- base.py:153-159
    match t.fwd h c with
    | .error e => .error e
    | .ok (y, ld) =>
      match chunk2 d y with
      | .error e => .error e
      | .ok (o, h') =>
        if shs.head? ≠ some o.shape then .error .assertion           -- base.py:158
        else fwdStages A d (t' :: ts) shs.tail h' (acc ++ o.data) (A.add l ld) c

/-- `forward(inputs, context)` on one item (base.py:139-173).  The result is flat: shape `[D]`. -/
def MS.forward (A : LD L) (m : MS α C L) (x : Item α) (c : C) : Except Err (Item α × L) :=
  if m.splitDim ≥ x.shape.length + 1 then .error .valueError                            -- base.py:140-141
  else if m.numTransforms ≠ (m.transforms.length : Int) then .error .runtime            -- base.py:142-146
  else
    match fwdStages A (m.splitDim - 1) m.transforms m.outputShapes x [] A.zero c with
    | .error e => .error e
    | .ok (flat, ld) => .ok (⟨[flat.length], flat⟩, ld)

/-- `inputs[:, split_indices[i] : split_indices[i+1]].view(-1, *shape)` for all recorded shapes, in order
    (base.py:188-194).  Python slicing clips, so columns beyond the total are ignored; a slice that comes out too
    short cannot be viewed (`RuntimeError`). -/
def splitFlat : List (List Nat) → List α → Except Err (List (Item α))
  | [], _ => .ok []
  | s :: ss, l =>
    if (l.take (prod s)).length ≠ prod s then .error .runtime
    else
      match splitFlat ss (l.drop (prod s)) with
      | .error e => .error e
      | .ok r => .ok (⟨s, l.take (prod s)⟩ :: r)

/-- the backward loop (base.py:186, 195-210) written from the first stage: the stages behind are undone first
    (their log-dets are accumulated first), then `cat([input_chunk, hiddens])` and this stage's inverse. -/
def invStages (A : LD L) (d : Nat) :
    List (Tr (Item α) C L) → List (Item α) → C → Except Err (Item α × L)
  | [], _, _ => .error .indexError                                   -- `rev_inv_transforms[0]` of an empty list
  | [t], s :: _, c =>                                                -- base.py:200-201
    match t.inv s c with
    | .error e => .error e
    | .ok (h, ld) => .ok (h, A.add A.zero ld)
  | t :: t' :: ts, s :: ss, c =>                                     -- base.py:203-208
    match invStages A d (t' :: ts) ss c with
    | .error e => .error e
    | .ok (h, l) =>
      match cat2 d s h with
      | .error e => .error e
      | .ok z =>
        match t.inv z c with
        | .error e => .error e
        | .ok (h', ld) => .ok (h', A.add l ld)
  | _ :: _, [], _ => .error .indexError                              -- unreachable: both lists grow together

/-- `inverse(inputs, context)` on one item (base.py:175-212) -/
def MS.inverse (A : LD L) (m : MS α C L) (y : Item α) (c : C) : Except Err (Item α × L) :=
  if y.shape.length + 1 ≠ 2 then .error .valueError                                     -- base.py:176-177
  else if m.numTransforms ≠ (m.transforms.length : Int) then .error .runtime            -- base.py:178-182
  else
    match splitFlat m.outputShapes y.data with
    | .error e => .error e
    | .ok slices => invStages A (m.splitDim - 1) m.transforms slices c

/-- the wrapper as a transform object -/
def MS.tr (A : LD L) (m : MS α C L) : Tr (Item α) C L where
  fwd := m.forward A
  inv := m.inverse A

/-- the documented way of building: `add_transform` once per stage, each declared shape being the hidden shape
    the previous call returned (class docstring, base.py:91-101).  Returns the state after every call. -/
def addChain (m : MS α C L) : List (Tr (Item α) C L) → Option (List Nat) → Except Err (MS α C L)
  | [], _ => .ok m
  | _ :: _, none => .error .typeError       -- the previous call returned `None`: `len(None)`
  | t :: ts, some shape =>
    match m.addTransform t shape with
    | .error e => .error e
    | .ok (m', hid) => addChain m' ts hid

def MS.build (numT : Int) (sd : PyArg) (ts : List (Tr (Item α) C L)) (shape : List Nat) : Except Err (MS α C L) :=
  match (MS.new numT sd : Except Err (MS α C L)) with
  | .error e => .error e
  | .ok m => addChain m ts (some shape)

end NF.Wrap
