import NflowsModel.Core.Basic
/-!
# Core/Nonlin — executable model of the element-wise transforms of `nflows/transforms/nonlinearities.py`
and `standard.py` (after the `fix:` commits).  Generic in `XOps α`.  Each function returns, for one element,
`(output, log-abs-derivative)`; the batch-global domain checks of the code are modelled per element.
-/
namespace NF
variable {α : Type}

/-- nonlinearities.py:18-33 -/
def expT (o : XOps α) (inverse : Bool) (x : α) : Except Err (α × α) :=
  if inverse then
    if o.le x o.zero then .error .outsideDomain
    else let y := o.log x; .ok (y, o.neg y)
  else .ok (o.exp x, x)

/-- nonlinearities.py:38-54 -/
def tanhT (o : XOps α) (inverse : Bool) (x : α) : Except Err (α × α) :=
  if inverse then
    if o.le x (o.neg o.one) || o.ge x o.one then .error .outsideDomain
    else
      let y := o.mul (o.ofFloat 0.5) (o.log (o.div (o.add o.one x) (o.sub o.one x)))
      .ok (y, o.neg (o.log (o.sub o.one (o.mul x x))))
  else
    -- after the fix: 2 * (log 2 - x - softplus(-2x)), finite where tanh(x) rounds to one
    .ok (o.tanh x, o.mul (o.ofFloat 2.0) (o.sub (o.sub (o.ofFloat (Float.log 2.0)) x) (o.softplus (o.mul (o.ofFloat (-2.0)) x))))

/-- nonlinearities.py:53-118; `cut`, `invCut`, `alpha`, `beta` are the numpy doubles the constructor computes -/
def logTanhT (o : XOps α) (cut invCut alpha beta : Float) (inverse : Bool) (x : α) : Except Err (α × α) :=
  let a := o.ofFloat alpha
  let b := o.ofFloat beta
  if inverse then
    let ic := o.ofFloat invCut
    if o.gt x ic then
      .ok (o.div (o.exp (o.div x a)) b, o.add (o.ofFloat (-(Float.log (alpha * beta)))) (o.div x a))
    else if o.lt x (o.neg ic) then
      .ok (o.div (o.neg (o.exp (o.div (o.neg x) a))) b, o.sub (o.ofFloat (-(Float.log (alpha * beta)))) (o.div x a))
    else
      .ok (o.mul (o.ofFloat 0.5) (o.log (o.div (o.add o.one x) (o.sub o.one x))),
           o.neg (o.log (o.sub o.one (o.mul x x))))
  else
    let c := o.ofFloat cut
    if o.gt x c then .ok (o.mul a (o.log (o.mul b x)), o.log (o.div a x))
    else if o.lt x (o.neg c) then .ok (o.mul a (o.neg (o.log (o.mul (o.neg b) x))), o.log (o.div (o.neg a) x))
    else
      let y := o.tanh x
      .ok (y, o.log (o.sub o.one (o.mul y y)))

/-- the constants `LogTanh.__init__` derives from `cut_point` (nonlinearities.py:66-73), in binary64 like numpy:
    `(inv_cut_point, alpha, beta)` with alpha = (1 - tanh(tanh c)) / c and beta = exp((tanh c - alpha log c) / alpha) -/
def logTanhConsts (cut : Float) : Float × Float × Float :=
  let invCut := Float.tanh cut
  let alpha := (1 - Float.tanh (Float.tanh cut)) / cut
  let beta := Float.exp ((Float.tanh cut - alpha * Float.log cut) / alpha)
  (invCut, alpha, beta)

/-- nonlinearities.py:121-140; `logSlope` is the attribute `log_negative_slope` as the code holds it -/
def leakyReluT (o : XOps α) (slope : Float) (logSlope : α) (inverse : Bool) (x : α) : Except Err (α × α) :=
  let s := if inverse then o.ofFloat (1.0 / slope) else o.ofFloat slope
  let y := if o.lt x o.zero then o.mul s x else x
  let m := if o.lt x o.zero then o.one else o.zero
  let ld := o.mul logSlope m
  .ok (y, if inverse then o.neg ld else ld)

/-- nonlinearities.py:143-175; `T` is the temperature tensor's value, `eps` the clamp -/
def sigmoidT (o : XOps α) (T : α) (eps : Float) (inverse : Bool) (x : α) : Except Err (α × α) :=
  if inverse then
    if o.lt x o.zero || o.gt x o.one then .error .outsideDomain
    else
      let xc := o.clamp (o.ofFloat eps) (o.ofFloat (1 - eps)) x
      let y := o.mul (o.div o.one T) (o.sub (o.log xc) (o.log1p (o.neg xc)))
      let ld := o.sub (o.sub (o.log T) (o.softplus (o.neg (o.mul T y)))) (o.softplus (o.mul T y))
      .ok (y, o.neg ld)
  else
    let z := o.mul T x
    .ok (o.sigmoid z, o.sub (o.sub (o.log T) (o.softplus (o.neg z))) (o.softplus z))

/-- nonlinearities.py:200-219 -/
def cauchyT (o : XOps α) (inverse : Bool) (x : α) : Except Err (α × α) :=
  let pi : Float := 3.141592653589793
  if inverse then
    if o.lt x o.zero || o.gt x o.one then .error .outsideDomain
    else
      let y := o.tan (o.mul (o.ofFloat pi) (o.sub x (o.ofFloat 0.5)))
      .ok (y, o.neg (o.sub (o.ofFloat (-(Float.log pi))) (o.log (o.add o.one (o.mul y y)))))
  else
    .ok (o.add (o.mul (o.ofFloat (1 / pi)) (o.atan x)) (o.ofFloat 0.5),
         o.sub (o.ofFloat (-(Float.log pi))) (o.log (o.add o.one (o.mul x x))))

/-- standard.py:26-71 (one element; scale ≠ 0 is checked by the constructor) -/
def affineT (o : XOps α) (scale shift : α) (inverse : Bool) (x : α) : Except Err (α × α) :=
  let l := o.log (o.abs scale)
  if inverse then .ok (o.div (o.sub x shift) scale, o.neg l)
  else .ok (o.add (o.mul x scale) shift, l)

/-- coupling.py:224-246 / autoregressive.py:107-127: affine with a positive scale given directly -/
def scaleShiftT (o : XOps α) (scale shift : α) (inverse : Bool) (x : α) : Except Err (α × α) :=
  let l := o.log scale
  if inverse then .ok (o.div (o.sub x shift) scale, o.neg l)
  else .ok (o.add (o.mul x scale) shift, l)

/-- nonlinearities.py:183-197 (after the fix): gate = sigmoid(context value) -/
def gluT (o : XOps α) (ctx : α) (inverse : Bool) (x : α) : Except Err (α × α) :=
  let g := o.sigmoid ctx
  if inverse then .ok (o.div x g, o.neg (o.log g)) else .ok (o.mul x g, o.log g)

/-- dispatch by class name; `ds` doubles, `ps` element-precision parameters -/
def nonlinEl (o : XOps α) (kind : String) (ds : Array Float) (ps : List α) (inverse : Bool) (x : α) : Except Err (α × α) :=
  let d (k : Nat) := ds.getD k 0.0
  let p (k : Nat) := ps.getD k o.zero
  match kind with
  | "Exp" => expT o inverse x
  | "Tanh" => tanhT o inverse x
  | "LogTanh" => let c := logTanhConsts (d 0); logTanhT o (d 0) c.1 c.2.1 c.2.2 inverse x
  | "LeakyReLU" => leakyReluT o (d 0) (p 0) inverse x
  | "Sigmoid" => sigmoidT o (p 0) (d 0) inverse x
  | "Logit" => sigmoidT o (p 0) (d 0) (!inverse) x
  | "CauchyCDF" => cauchyT o inverse x
  | "CauchyCDFInverse" => cauchyT o (!inverse) x
  | "Affine" => affineT o (p 0) (p 1) inverse x
  | "Identity" => .ok (x, o.zero)
  | _ => .error .other

end NF
