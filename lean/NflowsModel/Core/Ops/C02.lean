import NflowsModel.Core.Driver
import NflowsModel.Core.Reshape
/-! Core/Ops/C02 — driver operations `squeeze` and `permute` (exact index maps; used by C02, C01, C08 correspondences).

`squeeze`: i = [inverse, f, B, C, H, W], f = [x]  →  f = [y] or e = ValueError.
`permute`: i = [inverse, dim, nshape, shape…, perm…], f = [x] → f = [y] or e = ValueError. -/
namespace NF
variable {α : Type} [Bits α]

def runC02 (o : XOps α) (r : Req) : Option Resp :=
  match r.op with
  | "squeeze" =>
    let x : Array α := (r.fl 0 : List α).toArray
    let res := if r.flag 0 then squeezeInv (r.nat 1) (r.nat 2) (r.nat 3) (r.nat 4) (r.nat 5) x o.zero
               else squeezeFwd (r.nat 1) (r.nat 2) (r.nat 3) (r.nat 4) (r.nat 5) x o.zero
    some (match res with | .ok y => { fs := [bitsOf y.toList] } | .error e => { err := some e.name })
  | "permute" =>
    let x : Array α := (r.fl 0 : List α).toArray
    let ns := r.nat 2
    let ints := r.ints.toList.map Int.toNat
    let shape := (ints.drop 3).take ns
    let perm := ints.drop (3 + ns)
    let p := if r.flag 0 then inversePerm perm else perm
    some (match permuteDim shape (r.nat 1) p x o.zero with | .ok y => { fs := [bitsOf y.toList] } | .error e => { err := some e.name })
  | _ => none

def handleC02 (r : Req) : Option Resp :=
  if r.prec == "f32" then runC02 float32X r else runC02 floatX r

end NF
