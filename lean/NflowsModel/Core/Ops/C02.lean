import NflowsModel.Core.Driver
/-! Core/Ops/C02 — driver operations used by the C02 correspondence (executable model, Mathlib-free). -/
namespace NF

/-- handler for the ops of this property; `none` = not one of mine -/
def handleC02 (_r : Req) : Option Resp := none

end NF
