import NflowsModel.Core.Driver
/-! Core/Ops/C05 — driver operations used by the C05 correspondence (executable model, Mathlib-free). -/
namespace NF

/-- handler for the ops of this property; `none` = not one of mine -/
def handleC05 (_r : Req) : Option Resp := none

end NF
