import NflowsModel.Core.Driver
import NflowsModel.Core.Density
/-! Core/Ops/C05 — driver operations used by the C05 correspondence (executable model, Mathlib-free).

Ops (`s[0]` = class name where applicable; floats in `f` are bit patterns in precision `p`; `d` doubles):
* `c05.logprob` — header ints `[ctxRows|-1, #shape, shape…, #inShape, inShape…, B]` (+ `[pB, #pShape, pShape…]` for the
  conditional classes); `f = [x, …parameters]`.  MoG: `i=[ctx,B,F,M] d=[eps] f=[x, outs]`; BoxUniform `i=[B,D] f=[x,low,high]`;
  MG1Uniform `i=[B] f=[x,low,high]`; Lotka `i=[B,D] f=[x,mu,low,high,[sigma]]` (answers `[logps, [normaliser]]`).
* `c05.mean`, `c05.sample` — same headers without `inShape/B`, `sample` has `n` after `ctx`; noise travels in `f`.
* `c05.kde` `i=[N,D,Q] f=[samples,queries]`; `c05.erf` `f=[xs]`; `c05.consts` `i=[D]` → `[π, log 2π, _log_z(D)]`.
-/
namespace NF
open NF.Density

namespace C05
variable {α : Type} [Bits α]

def optNat (i : Int) : Option Nat := if i < 0 then none else some i.toNat

/-- read `count, items…` from an int stream -/
def takeList (xs : List Int) : List Nat × List Int :=
  match xs with
  | [] => ([], [])
  | c :: r => ((r.take c.toNat).map Int.toNat, r.drop c.toNat)

def takeNat (xs : List Int) : Nat × List Int :=
  match xs with
  | [] => (0, [])
  | c :: r => (c.toNat, r)

def okRows (rows : List (List α)) : Resp := { fs := rows.map bitsOf }
def ofExcept1 (x : Except DErr (List α)) : Resp :=
  match x with
  | .ok v => { fs := [bitsOf v] }
  | .error e => { err := some e.name }
def ofExceptRows (x : Except DErr (List (List α))) : Resp :=
  match x with
  | .ok v => { fs := [bitsOf v.flatten] }
  | .error e => { err := some e.name }

def logprob (o : XOps α) (r : Req) : Resp :=
  let cls := r.str 0
  let x : List α := r.fl 0
  if cls == "MoG" then
    let B := r.nat 1; let F := r.nat 2; let M := r.nat 3
    ofExcept1 (mogLogProb o (o.ofFloat (r.d 0)) F M (optNat (r.int 0)) (rowsOf (F * M * 3) B (r.fl 1)) (rowsOf F B x))
  else if cls == "BoxUniform" then
    let B := r.nat 0; let D := r.nat 1
    { fs := [bitsOf ((rowsOf D B x).map (boxUniformRow o (r.fl 1) (r.fl 2)))] }
  else if cls == "MG1Uniform" then
    let B := r.nat 0
    let res := (rowsOf 3 B x).map (mg1LogProb o (r.fl 1) (r.fl 2))
    match res.find? (fun y => match y with | .error _ => true | .ok _ => false) with
    | some (.error e) => { err := some e.name }
    | _ => { fs := [bitsOf (res.flatMap (fun y => match y with | .ok v => v | .error _ => []))] }
  else if cls == "Lotka" then
    let B := r.nat 0; let D := r.nat 1
    let mu : List α := r.fl 1; let low : List α := r.fl 2; let high : List α := r.fl 3
    let sigma : α := (r.fl 4 : List α).getD 0 o.one
    let nrm := truncNormaliser o sigma mu low high
    { fs := [bitsOf ((rowsOf D B x).map (lotkaRow o nrm sigma mu low high)), bitsOf [nrm]] }
  else
    let ctx := optNat (r.int 0)
    let (shape, rest) := takeList (r.ints.toList.drop 1)
    let (inShape, rest) := takeList rest
    let (B, rest) := takeNat rest
    let rows := rowsOf (numel inShape) B x
    if cls == "StandardNormal" then ofExcept1 (stdNormalLogProb o shape inShape ctx rows)
    else if cls == "DiagonalNormal" then ofExcept1 (diagNormalLogProb o shape inShape ctx (r.fl 1) (r.fl 2) rows)
    else
      let (pB, rest) := takeNat rest
      let (pShape, _) := takeList rest
      let params := rowsOf (numel pShape) pB (r.fl 1 : List α)
      if cls == "ConditionalDiagonalNormal" then ofExcept1 (condNormalLogProb o shape inShape ctx pB pShape params rows)
      else if cls == "ConditionalIndependentBernoulli" then ofExcept1 (bernLogProb o shape inShape ctx pB pShape params rows)
      else { err := some "bad-class" }

def mean (o : XOps α) (r : Req) : Resp :=
  let cls := r.str 0
  if cls == "MoG" then { err := some DErr.noMean.name }
  else
    let ctx := optNat (r.int 0)
    let (shape, rest) := takeList (r.ints.toList.drop 1)
    if cls == "StandardNormal" then { fs := [bitsOf (stdNormalMean o shape ctx).flatten] }
    else if cls == "DiagonalNormal" then { fs := [bitsOf (diagNormalMean (r.fl 0 : List α))] }
    else
      let (pB, rest) := takeNat rest
      let (pShape, _) := takeList rest
      let params := rowsOf (numel pShape) pB (r.fl 0 : List α)
      if cls == "ConditionalDiagonalNormal" then ofExceptRows (condNormalMean shape ctx pB pShape params)
      else if cls == "ConditionalIndependentBernoulli" then ofExceptRows (bernMean o shape ctx pB pShape params)
      else { err := some "bad-class" }

def sample (o : XOps α) (r : Req) : Resp :=
  let cls := r.str 0
  let ctx := optNat (r.int 0)
  if cls == "MoG" then
    let N := r.nat 1; let F := r.nat 2; let M := r.nat 3
    let comps := rowsOf N F ((r.ints.toList.drop 4).map Int.toNat)
    let passes := (rowsOf (N * (F * M * 3)) F (r.fl 0 : List α)).map (rowsOf (F * M * 3) N)
    ofExceptRows (mogSample o (o.ofFloat (r.d 0)) F M ctx N passes comps (rowsOf N F (r.fl 1)))
  else if cls == "DiagonalNormal" then ofExceptRows (diagNormalSample (α := α))
  else
    let n := r.nat 1
    let (shape, rest) := takeList (r.ints.toList.drop 2)
    let D := numel shape
    if cls == "StandardNormal" then
      let noise : List α := r.fl 0
      { fs := [bitsOf (stdNormalSample (rowsOf D (noise.length / (if D == 0 then 1 else D)) noise)).flatten] }
    else
      let (pB, rest) := takeNat rest
      let (pShape, _) := takeList rest
      let params := rowsOf (numel pShape) pB (r.fl 0 : List α)
      let noise := rowsOf D (pB * n) (r.fl 1 : List α)
      if cls == "ConditionalDiagonalNormal" then ofExceptRows (condNormalSample o shape ctx pB pShape params n noise)
      else if cls == "ConditionalIndependentBernoulli" then ofExceptRows (bernSample o shape ctx pB pShape params n noise)
      else { err := some "bad-class" }

def kde (o : XOps α) (r : Req) : Resp :=
  let N := r.nat 0; let D := r.nat 1; let Q := r.nat 2
  let S := rowsOf D N (r.fl 0 : List α)
  { fs := [bitsOf ((rowsOf D Q (r.fl 1 : List α)).map (kdeLogEval o D S))] }

def handle (o : XOps α) (r : Req) : Option Resp :=
  match r.op with
  | "c05.logprob" => some (logprob o r)
  | "c05.mean" => some (mean o r)
  | "c05.sample" => some (sample o r)
  | "c05.kde" => some (kde o r)
  | "c05.erf" => some { fs := [bitsOf ((r.fl 0 : List α).map (erfG o))] }
  | "c05.consts" => some { fs := [bitsOf [piG o, log2piG o, logZ o (r.nat 0)]] }
  | _ => none

end C05

/-- handler for the ops of this property; `none` = not one of mine -/
def handleC05 (r : Req) : Option Resp :=
  if r.prec == "f32" then C05.handle float32X r else C05.handle floatX r

end NF
