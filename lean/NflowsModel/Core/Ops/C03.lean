import NflowsModel.Core.Driver
/-! Core/Ops/C03 — driver operations used by the C03 correspondence (executable model, Mathlib-free). -/
namespace NF

/-- handler for the ops of this property; `none` = not one of mine -/
def handleC03 (_r : Req) : Option Resp := none

end NF
