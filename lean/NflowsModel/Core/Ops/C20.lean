import NflowsModel.Core.Driver
/-! Core/Ops/C20 — driver operations used by the C20 correspondence (executable model, Mathlib-free). -/
namespace NF

/-- handler for the ops of this property; `none` = not one of mine -/
def handleC20 (_r : Req) : Option Resp := none

end NF
