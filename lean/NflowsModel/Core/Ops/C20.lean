import NflowsModel.Core.Driver
import NflowsModel.Core.TorchUtils
/-! Core/Ops/C20 — driver operations used by the C20 correspondence (executable model, Mathlib-free).

Requests (besides the common fields of `Req`):
* `c20.tile` / `c20.repeat_rows` / `c20.merge` / `c20.sum` : `"shape":[nat]`, `"data":[int]`, `"n":PyVal`
* `c20.split` : `"shape"`, `"data"`, `"sh":[int]`
  → `f[0]` = result shape, `i` = result data, `e` = error kind
* `c20.pred` : `"v":PyVal` → `i` = [is_bool, is_int, is_positive_int, is_nonnegative_int, is_power_of_two]
* `c20.mask` : `s=[kind]`, `i=[features, even]` → `i` = mask ; `c20.randmask` : `i=[features]` → `i=[count]`
* `c20.searchsorted` : `p`, `i=[rowLen]`, `f=[locs (rows concatenated), inputs]`, `d=[eps]`
  → `i` = indices, `f[0]` = the caller's `bin_locations` buffer after the calls
* `c20.cbrt` : `p`, `f=[xs]` → `f[0]` ; `c20.temp` : `p`, `f=[[max, bound]]` → `i=[isTensor]`, `f[0]=[value]`
* `c20.logabsdet` : `i=[n]`, `"data":[int]` (row-major) → `i=[det]`, `f[0]=[log|det| as binary64]`
* `c20.kde` : `p`, `i=[N, D]`, `f=[samples flat, query]`, `d=[std, dconst]` → `f[0]=[value]`
PyVal JSON: `{"t":"int","v":k}` | `{"t":"bool","v":0|1}` | `{"t":"float"}` | `{"t":"none"}` | `{"t":"str"}` | `{"t":"other"}`.
-/
open Lean
namespace NF
open TU

def jField (j : Json) (k : String) : Json := (j.getObjVal? k).toOption.getD Json.null

def pyValOfJson (j : Json) : PyVal :=
  match (jField j "t").getStr?.toOption.getD "" with
  | "int" => .int (jInt (jField j "v"))
  | "bool" => .bool (jInt (jField j "v") != 0)
  | "float" => .float
  | "none" => .none
  | "str" => .str
  | _ => .other

def tensorOfReq (r : Req) : T Int :=
  ⟨((jArr (jField r.raw "shape")).map jNat).toList, ((jArr (jField r.raw "data")).map jInt).toList⟩

def tensorResp (x : Except Err (T Int)) : Resp :=
  match x with
  | .ok t => { fs := [t.shape], ints := t.data }
  | .error e => errResp e

def chunk20 {β : Type} (m : Nat) (xs : List β) : List (List β) :=
  if m == 0 then [] else (List.range (xs.length / m)).map (fun i => (xs.drop (i * m)).take m)

def runSearch {α : Type} [Bits α] (o : XOps α) (r : Req) : Resp :=
  let m := r.nat 0
  let rows : List (List α) := chunk20 m (r.fl 0)
  let xs : List α := r.fl 1
  let outs := (rows.zip xs).map (fun (row, x) => searchsorted o (r.d 0) row x)
  { ints := outs.map (·.result), fs := [bitsOf (outs.map (·.callerAfter)).flatten] }

def runCbrt {α : Type} [Bits α] (o : XOps α) (r : Req) : Resp :=
  { fs := [bitsOf ((r.fl 0 : List α).map (cbrtG o))] }

def runTemp {α : Type} [Bits α] (o : XOps α) (r : Req) : Resp :=
  let a : List α := r.fl 0
  let (isT, v) := getTemperature o (a.getD 0 o.zero) (a.getD 1 o.zero)
  { ints := [if isT then 1 else 0], fs := [bitsOf [v]] }

def runKde {α : Type} [Bits α] (o : XOps α) (r : Req) : Resp :=
  let d := r.nat 1
  let samples : List (List α) := chunk20 d (r.fl 0)
  { fs := [bitsOf [kdeLogEval o (r.d 0) (r.d 1) samples (r.fl 1)]] }

def byPrec (r : Req) (f64 : XOps Float → Req → Resp) (f32 : XOps Float32 → Req → Resp) : Resp :=
  if r.prec == "f32" then f32 float32X r else f64 floatX r

/-- handler for the ops of this property; `none` = not one of mine -/
def handleC20 (r : Req) : Option Resp :=
  match r.op with
  | "c20.tile" => some (tensorResp (tile (tensorOfReq r) (pyValOfJson (jField r.raw "n"))))
  | "c20.repeat_rows" => some (tensorResp (repeatRows (tensorOfReq r) (pyValOfJson (jField r.raw "n"))))
  | "c20.merge" => some (tensorResp (mergeLeading (tensorOfReq r) (pyValOfJson (jField r.raw "n"))))
  | "c20.sum" => some (tensorResp (sumExceptBatch (tensorOfReq r) (pyValOfJson (jField r.raw "n"))))
  | "c20.split" => some (tensorResp (splitLeading (tensorOfReq r) ((jArr (jField r.raw "sh")).map jInt).toList))
  | "c20.pred" =>
    let v := pyValOfJson (jField r.raw "v")
    let b (x : Bool) : Int := if x then 1 else 0
    some { ints := [b (isBool v), b (isInt v), b (isPositiveInt v), b (isNonnegInt v), b (isPowerOfTwo v)] }
  | "c20.mask" =>
    some (match maskOp (r.str 0) (r.int 0) (r.flag 1) with
      | .ok m => { ints := m.map Int.ofNat }
      | .error e => errResp e)
  | "c20.randmask" =>
    some (match randomMaskCount (r.int 0) with
      | .ok c => { ints := [Int.ofNat c] }
      | .error e => errResp e)
  | "c20.searchsorted" => some (byPrec r runSearch runSearch)
  | "c20.cbrt" => some (byPrec r runCbrt runCbrt)
  | "c20.temp" => some (byPrec r runTemp runTemp)
  | "c20.kde" => some (byPrec r runKde runKde)
  | "c20.logabsdet" =>
    let n := r.nat 0
    let m : List (List Int) := chunk20 n ((jArr (jField r.raw "data")).map jInt).toList
    some { ints := [detL n m], fs := [[(logabsdetF n m).toBits.toNat]] }
  | _ => none

end NF
