import NflowsModel.Core.Driver
/-! Core/Ops/C16 — driver operations used by the C16 correspondence (executable model, Mathlib-free). -/
namespace NF

/-- handler for the ops of this property; `none` = not one of mine -/
def handleC16 (_r : Req) : Option Resp := none

end NF
