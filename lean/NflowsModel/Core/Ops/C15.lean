import NflowsModel.Core.Driver
/-! Core/Ops/C15 — driver operations used by the C15 correspondence (executable model, Mathlib-free). -/
namespace NF

/-- handler for the ops of this property; `none` = not one of mine -/
def handleC15 (_r : Req) : Option Resp := none

end NF
