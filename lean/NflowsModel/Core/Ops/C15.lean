import NflowsModel.Core.Driver
import NflowsModel.Core.Inventory
/-! Core/Ops/C15 — driver operations used by the C15 correspondence (executable model, Mathlib-free).

`c15_inv`: one extracted inventory with the value ids of two instances.
  request  `i` = flat entries `[kind, ctorDetermined, …]` (kind 0 param, 1 persistent buffer, 2 non-persistent buffer,
           3 plain attribute, 4 alias of a persisted tensor — `Inventory.decodeInv`),
           `used` = 0/1 per entry, `saved` / `fresh` = value ids per entry (equal id ⇔ bitwise equal value),
           `hist` = flat `[index, value id, …]` updates applied to `saved` before saving
  response `i` = `[reloadSafeU inv used, reloadSafe inv]` followed by `afterLoad inv (applyHist saved hist) fresh`,
           `f` = `[offendingEntries inv used]`
The definitions executed are the ones `Properties.C15` is about. -/
namespace NF
open Thin Thin.Inventory

def intsOf (j : Lean.Json) (k : String) : List Int :=
  ((jArr ((j.getObjVal? k).toOption.getD Lean.Json.null)).map jInt).toList

def pairsOf : List Int → List (Nat × Int)
  | a :: b :: rest => (a.toNat, b) :: pairsOf rest
  | _ => []

/-- handler for the ops of this property; `none` = not one of mine -/
def handleC15 (r : Req) : Option Resp :=
  match r.op with
  | "c15_inv" =>
    let inv := decodeInv r.ints.toList
    let used := (intsOf r.raw "used").map (fun x => x != 0)
    let saved := intsOf r.raw "saved"
    let fresh := intsOf r.raw "fresh"
    let hist := pairsOf (intsOf r.raw "hist")
    let b (x : Bool) : Int := if x then 1 else 0
    some { ints := b (reloadSafeU inv used) :: b (reloadSafe inv) :: afterLoad inv (applyHist saved hist) fresh,
           fs := [offendingEntries inv used] }
  | _ => none

end NF
