import NflowsModel.Core.Driver
import NflowsModel.Core.FlowPairing
/-! Core/Ops/C04 — driver operations used by the C04 correspondence (executable model, Mathlib-free).

op `c04_pair`, i = [R, n, embShift, mode]: run the value-level model of Core/FlowPairing on TAGGED data
(noise rows tagged by flat draw index, context rows by row index + embShift) and report who was paired with whom.
  mode 0  Flow.sample_and_log_prob(n, context of R rows)
  mode 1  Flow.sample(n, context of R rows)
  mode 2  Distribution.sample_and_log_prob(n, context of R rows)   (the default implementation)
  mode 3  Flow.sample_and_log_prob(n) without context
answer: i = [number of blocks, length of every block (or -1 if ragged)],
        f[0] = samples, row-major over (block, draw): noise tag, context tag (mode 2, 3: noise tag only)
        f[1] = log-probabilities, row-major: the tags every term was computed from. -/
namespace NF
open NF.FlowPairing

def c04Dims {α : Type} (x : List (List α)) : List Int :=
  let lens := x.map List.length
  let l0 := lens.headD 0
  [Int.ofNat x.length, if lens.all (· == l0) then Int.ofNat l0 else -1]

def runC04Pair (r : Req) : Resp :=
  let R := r.nat 0
  let n := r.nat 1
  let sh := r.nat 2
  match r.nat 3 with
  | 0 =>
    let (s, l) := taggedSalp sh R n
    { ints := c04Dims s ++ c04Dims l,
      fs := [s.flatten.flatMap (fun p => [p.1, p.2]), l.flatten.flatten] }
  | 1 =>
    let s := taggedSample sh R n
    { ints := c04Dims s, fs := [s.flatten.flatMap (fun p => [p.1, p.2]), []] }
  | 2 =>
    let (s, l) := taggedDistSalp R n
    { ints := c04Dims s ++ c04Dims l, fs := [s.flatten, l.flatten.flatten] }
  | _ =>
    let (s, l) := taggedSalp0 n
    { ints := [Int.ofNat s.length, Int.ofNat l.length], fs := [s, l.flatten] }

/-- handler for the ops of this property; `none` = not one of mine -/
def handleC04 (r : Req) : Option Resp :=
  if r.op == "c04_pair" then some (runC04Pair r) else none

end NF
