import NflowsModel.Core.Driver
/-! Core/Ops/C04 — driver operations used by the C04 correspondence (executable model, Mathlib-free). -/
namespace NF

/-- handler for the ops of this property; `none` = not one of mine -/
def handleC04 (_r : Req) : Option Resp := none

end NF
