import NflowsModel.Core.Driver
/-! Core/Ops/C06 — driver operations used by the C06 correspondence (executable model, Mathlib-free). -/
namespace NF

/-- handler for the ops of this property; `none` = not one of mine -/
def handleC06 (_r : Req) : Option Resp := none

end NF
