import NflowsModel.Core.Driver
import NflowsModel.Core.Made
/-! Core/Ops/C06 — driver operations used by the C06 correspondence (executable model, Mathlib-free).

`made`          i = [F, H, blocks, mult, residual, random, nde, C, bn, actMul, wantMasks, wantPaths, noDraws, degs…]
                (`degs` = the drawn degrees of the hidden `MaskedLinear`s, `H` numbers per layer, module order)
                → e = exception kind of the constructor | null,
                  i = [L, (nOut, nIn, degrees[nOut], mask[nOut*nIn]) × L,  rows, cols, pathCount[rows*cols]]
`made_resblock` i = [F, random, in_degrees…]   (a `MaskedResidualBlock` built directly)
                → e | i = [2, (nOut, nIn, degrees, mask) × 2]
-/
namespace NF
open NF.Made

def chunk06 (n : Nat) (xs : List Nat) : Nat → List (List Nat)
  | 0 => []
  | k + 1 => xs.take n :: chunk06 n (xs.drop n) k

def encLayer (l : List Nat × List Nat × Bool) : List Int :=
  let (dIn, dOut, strict) := l
  [Int.ofNat dOut.length, Int.ofNat dIn.length] ++ dOut.map Int.ofNat ++
    ((mask strict dIn dOut).flatMap (fun row => row.map (fun b => if b then (1 : Int) else 0)))

def encLayers (ls : List (List Nat × List Nat × Bool)) : List Int :=
  Int.ofNat ls.length :: ls.flatMap encLayer

def encMatrix (rows cols : Nat) (mx : List (List Nat)) : List Int :=
  [Int.ofNat rows, Int.ofNat cols] ++ mx.flatMap (fun r => r.map Int.ofNat)

def runMade (r : Req) : Resp :=
  let tail := (r.ints.toList.drop 13).map Int.toNat
  let H := r.nat 1
  let nB := r.nat 2
  let a : Arch := { F := r.nat 0, H := H, nBlocks := nB, mult := r.nat 3, residual := r.flag 4, random := r.flag 5,
                    nde := r.flag 6, ctx := r.nat 7, bn := r.flag 8, degs := chunk06 H tail (1 + 2 * nB), noDraws := r.flag 12 }
  match build a with
  | .error e => errResp e
  | .ok n =>
    let ms := if r.flag 10 then encLayers (layers n) else [0]
    let ps := if r.flag 11 then encMatrix (n.F * n.m) (n.F + a.ctx) (pathCount n a.ctx (r.nat 9)) else [0, 0]
    { ints := ms ++ ps ++ [if n.valid then 1 else 0] }

def runResBlock (r : Req) : Resp :=
  let dIn := (r.ints.toList.drop 2).map Int.toNat
  match buildResBlock (r.nat 0) (r.flag 1) dIn with
  | .error e => errResp e
  | .ok b => { ints := encLayers (blockLayers dIn [b]) }

/-- handler for the ops of this property; `none` = not one of mine -/
def handleC06 (r : Req) : Option Resp :=
  match r.op with
  | "made" => some (runMade r)
  | "made_resblock" => some (runResBlock r)
  | _ => none

end NF
