import NflowsModel.Core.Driver
/-! Core/Ops/C13 — driver operations used by the C13 correspondence (executable model, Mathlib-free). -/
namespace NF

/-- handler for the ops of this property; `none` = not one of mine -/
def handleC13 (_r : Req) : Option Resp := none

end NF
