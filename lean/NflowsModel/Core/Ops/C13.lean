import NflowsModel.Core.Driver
import NflowsModel.Core.Store
/-! Core/Ops/C13 — driver operations used by the C13 correspondence (executable model, Mathlib-free).

`c13_trace`: one extracted trace (or the concatenation of the traces of a call sequence).
  request  `i` = flat events `[tag, storage, …]` (tag 0 alloc, 1 view, 2 read, 3 write — `Store.decodeEvs`),
           `owned` = storage ids owned at call entry, `wl` = whitelisted storage ids
  response `i` = `[traceSafe]` followed by `writeCount s` for every `s` in `owned` (same order),
           `f` = `[offending owned wl tr, touched owned tr]`
The definitions executed are the ones `Properties.C13` is about (`Thin.Store.traceSafe`, `writeCount`, `offending`). -/
namespace NF
open Thin Thin.Store

def natsOf (j : Lean.Json) (k : String) : List Nat :=
  ((jArr ((j.getObjVal? k).toOption.getD Lean.Json.null)).map jNat).toList

/-- handler for the ops of this property; `none` = not one of mine -/
def handleC13 (r : Req) : Option Resp :=
  match r.op with
  | "c13_trace" =>
    let tr := decodeEvs r.ints.toList
    let owned := natsOf r.raw "owned"
    let wl := natsOf r.raw "wl"
    let safe : Int := if traceSafe owned wl tr then 1 else 0
    some { ints := safe :: owned.map (fun s => Int.ofNat (writeCount s tr)),
           fs := [offending owned wl tr, touched owned tr] }
  | _ => none

end NF
