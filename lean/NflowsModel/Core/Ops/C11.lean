import NflowsModel.Core.Driver
import NflowsModel.Core.LinearFamily
/-! Core/Ops/C11 — driver operations used by the C11 correspondence (executable model, Mathlib-free).

ops (all matrices travel flattened row-major; `p` selects the precision):
* `c11/indices`  i=[n]                      → i=[#tril, rows…, cols…, #triu, rows…, cols…]
* `c11/hh_init`  i=[features, num]          → e | i=[rows, cols], f=[q flat], s=[finite?]
* `c11/hh`       i=[n, K, N] f=[q, X]       → f=[forward, inverse, matrix]
* `c11/lu`       i=[n, N] f=[lo, up, ud, b, X] d=[eps] → f=[W, W⁻¹, [ld], fwd, inv, L, U]
* `c11/qr`       i=[n, K, N] f=[up, logd, q, b, X]     → f=[W, W⁻¹, [ld], fwd, inv]
* `c11/svd`      i=[n, K, N] f=[ud, q1, q2, b, X] d=[eps] → f=[W, W⁻¹, [ld], fwd, inv]
* `c11/conv`     i=[C, B, H, W, perm…] f=[lo, up, ud, b, X(NCHW)] d=[eps] → f=[fwd, fwd_ld, inv, inv_ld, W]
* `c11/naive`    i=[n, N] f=[W, b, X]       → e | f=[W, W⁻¹, [ld], fwd, inv]
* `c11/ctor`     s=[class] i=[features, num] → e | i=[parameter sizes…]
-/
namespace NF
open LF

def chunk {α : Type} (m : Nat) (xs : List α) : List (List α) :=
  if m = 0 then [] else (List.range (xs.length / m)).map (fun i => (xs.drop (i * m)).take m)

section
variable {α : Type} [Bits α]

def flatBits (M : List (List α)) : List Nat := bitsOf M.flatten

/-- rows of a batch / matrix with `n` columns; a batch with `n = 0` columns cannot occur (constructor refuses) -/
def rowsOf (n : Nat) (xs : List α) : List (List α) := chunk n xs

def c11Run (x : XOps α) (r : Req) : Option Resp :=
  let o := x.toOps
  match r.op with
  | "c11/indices" =>
    let n := r.nat 0
    let lo := trilIndices n
    let up := triuIndices n
    some { ints := [Int.ofNat lo.length] ++ lo.map (fun p => Int.ofNat p.1) ++ lo.map (fun p => Int.ofNat p.2)
                  ++ [Int.ofNat up.length] ++ up.map (fun p => Int.ofNat p.1) ++ up.map (fun p => Int.ofNat p.2) }
  | "c11/hh_init" =>
    match (hhConstruct o (r.int 0) (r.int 1) : Except Err (List (List α))) with
    | .error e => some (errResp e)
    | .ok q =>
      let n := (r.int 0).toNat
      -- "usable": forward/inverse/matrix on fresh parameters are finite
      let m := hhMatrix o n q
      let f := hhForward o q (eye o n)
      let fin := (m.flatten ++ f.flatten).all x.isFinite
      some { ints := [Int.ofNat q.length, Int.ofNat n], fs := [flatBits q, flatBits m],
             strs := [if fin then "finite" else "non-finite"] }
  | "c11/hh" =>
    let n := r.nat 0
    let q : List (List α) := rowsOf n (r.fl 0)
    let X : List (List α) := rowsOf n (r.fl 1)
    some { fs := [flatBits (hhForward o q X), flatBits (hhInverse o q X), flatBits (hhMatrix o n q)] }
  | "c11/lu" =>
    let n := r.nat 0
    let p : LUParams α := { n := n, lower := r.fl 0, upper := r.fl 1, udiag := r.fl 2, bias := r.fl 3, eps := x.ofFloat (r.d 0) }
    let X : List (List α) := rowsOf n (r.fl 4)
    some { fs := [flatBits (luWeight o p), flatBits (luWeightInverse o p), bitsOf [luLogabsdet o p],
                  flatBits (luForward o p X), flatBits (luInverse o p X), flatBits (luL o p), flatBits (luU o p)] }
  | "c11/conv" =>
    -- i = [C, B, H, W, perm…]
    let n := r.nat 0
    let p : LUParams α := { n := n, lower := r.fl 0, upper := r.fl 1, udiag := r.fl 2, bias := r.fl 3, eps := x.ofFloat (r.d 0) }
    let perm := (r.ints.toList.drop 4).map Int.toNat
    let xs : List α := r.fl 4
    let f := convForward o p perm (r.nat 1) (r.nat 2) (r.nat 3) xs
    let g := convInverse o p perm (r.nat 1) (r.nat 2) (r.nat 3) xs
    some { fs := [bitsOf f.1, bitsOf f.2, bitsOf g.1, bitsOf g.2, flatBits (luWeight o p)] }
  | "c11/qr" =>
    let n := r.nat 0
    let p : QRParams α := { n := n, upper := r.fl 0, logDiag := r.fl 1, qs := rowsOf n (r.fl 2), bias := r.fl 3 }
    let X : List (List α) := rowsOf n (r.fl 4)
    some { fs := [flatBits (qrWeight o p), flatBits (qrWeightInverse o p), bitsOf [qrLogabsdet o p],
                  flatBits (qrForward o p X), flatBits (qrInverse o p X)] }
  | "c11/svd" =>
    let n := r.nat 0
    let p : SVDParams α := { n := n, udiag := r.fl 0, qs1 := rowsOf n (r.fl 1), qs2 := rowsOf n (r.fl 2), bias := r.fl 3, eps := x.ofFloat (r.d 0) }
    let X : List (List α) := rowsOf n (r.fl 4)
    some { fs := [flatBits (svdWeight o p), flatBits (svdWeightInverse o p), bitsOf [svdLogabsdet o p],
                  flatBits (svdForward o p X), flatBits (svdInverse o p X)] }
  | "c11/naive" =>
    let n := r.nat 0
    let W : List (List α) := rowsOf n (r.fl 0)
    let b : List α := r.fl 1
    let X : List (List α) := rowsOf n (r.fl 2)
    let fwd := naiveForward o W b X
    let ld := naiveLogabsdet o n W
    let inv := naiveInverse o n W b X
    match gaussInverse o n W with
    | .ok (wi, _) => some { fs := [flatBits W, flatBits wi, bitsOf [ld], flatBits fwd, flatBits inv] }
    | .error e => some { fs := [flatBits W, [], bitsOf [ld], flatBits fwd, flatBits inv], err := some e.name }
  | "c11/ctor" =>
    -- constructor contracts for integer arguments: Linear (linear.py:34-36), HouseholderSequence
    -- (orthogonal.py:26-29), SVDLinear's `assert num_householder % 2 == 0` (svd.py:19, after Linear.__init__)
    let cls := r.str 0
    let f := r.int 0
    let k := r.int 1
    let tri := ((f - 1) * f / 2)
    if cls == "HouseholderSequence" then
      if f ≤ 0 || k ≤ 0 then some (errResp .typeError) else some { ints := [k * f] }
    else if f ≤ 0 then some (errResp .typeError)
    else if cls == "LULinear" then some { ints := [f, tri, tri, f] }
    else if cls == "NaiveLinear" then some { ints := [f, f * f] }
    else if cls == "QRLinear" then
      if k ≤ 0 then some (errResp .typeError) else some { ints := [f, tri, f, k * f] }
    else if cls == "SVDLinear" then
      if k % 2 != 0 then some (errResp .assertion)
      else if k ≤ 0 then some (errResp .typeError) else some { ints := [f, f, k * f, k * f] }
    else some { err := some "bad-class" }
  | _ => none

end

/-- handler for the ops of this property; `none` = not one of mine -/
def handleC11 (r : Req) : Option Resp :=
  if !r.op.startsWith "c11/" then none
  else if r.prec == "f32" then c11Run float32X r else c11Run floatX r

end NF
