import NflowsModel.Core.Driver
/-! Core/Ops/C11 — driver operations used by the C11 correspondence (executable model, Mathlib-free). -/
namespace NF

/-- handler for the ops of this property; `none` = not one of mine -/
def handleC11 (_r : Req) : Option Resp := none

end NF
