import NflowsModel.Core.Driver
/-! Core/Ops/C01 — driver operations used by the C01 correspondence (executable model, Mathlib-free). -/
namespace NF

/-- handler for the ops of this property; `none` = not one of mine -/
def handleC01 (_r : Req) : Option Resp := none

end NF
