import NflowsModel.Core.Driver
import NflowsModel.Core.Structure
import NflowsModel.Core.Dual
/-! Core/Ops/C01 — driver operations for transform-level correspondences (C01, C02, C07, C12, C16, C17, C19):
`nonlin`, `cdf`, `coupling`, `ar`.

Common encoding.  s = [kind, container, act];  i = [inverse, tails, K, B, n_or_F_or_S];
d = cfg doubles as for `spline` followed (after a NaN-free separator is not needed) by hiddenFeatures, hiddenChannels
given in `i[5]`, `i[6]` as integers;  f = [x, params, (mask | extra element-precision parameters)].
Response: f = [outputs, per-row log-abs-dets, conditioner input (coupling)], s = [error kind or ""],
i = flat indices that have alternatives, followed in f by one list per such index. -/
namespace NF
variable {α : Type} [Bits α]

def cfgOf (r : Req) : ElCfg :=
  { container := r.str 1, kind := r.str 0, tails := r.flag 1, K := r.nat 2, ds := r.ds,
    hiddenFeatures := (r.nat 5).toFloat, hiddenChannels := (r.nat 6).toFloat, act := r.str 2 }

def respOf (t : TResult α) : Resp :=
  { fs := [bitsOf t.out.toList, bitsOf t.ld, bitsOf t.condIn.toList] ++ t.alts.map (fun a => bitsOf a.2),
    ints := t.alts.map (fun a => Int.ofNat a.1),
    strs := [match t.err with | none => "" | some e => e.name] }

def runC01 (o : XOps α) (r : Req) : Option Resp :=
  let inverse := r.flag 0
  let B := r.nat 3
  let x : Array α := (r.fl 0 : List α).toArray
  let params : Array α := (r.fl 1 : List α).toArray
  match r.op with
  | "nonlin" => some (respOf (nonlinApply o (r.str 0) r.ds (r.fl 1) B x inverse))
  | "logtanh_consts" =>
    let c := logTanhConsts (r.d 0)
    some { fs := [[c.1.toBits.toNat, c.2.1.toBits.toNat, c.2.2.toBits.toNat]] }
  | "cdf" => some (respOf (cdfApply o (cfgOf r) B (r.nat 4) x params inverse))
  | "coupling" =>
    -- optional unconditional transform of the identity features: s[3] = its family ("" = none), f[3] = its parameters
    let uc : Option ElCfg := if r.str 3 == "" then none else
      some { (cfgOf r) with container := "cdf", kind := r.str 3, hiddenFeatures := 0.0, hiddenChannels := 0.0 }
    some (respOf (couplingApply o (cfgOf r) (r.fl 2) B (r.nat 4) x params inverse uc (r.fl 3 : List α).toArray))
  | "affine_t" =>
    -- i = [inverse, _, _, B, nEvent, nScaleDims, nShiftDims, event…, scaleShape…, shiftShape…]; f = [x, scale, shift]
    let ne := r.nat 4; let ns := r.nat 5; let nh := r.nat 6
    let ints := r.ints.toList.map Int.toNat
    let ev := (ints.drop 7).take ne
    let ss := (ints.drop (7 + ne)).take ns
    let sh := (ints.drop (7 + ne + ns)).take nh
    some (respOf (affineTensorApply o ev ss sh params (r.fl 2 : List α).toArray B x inverse))
  | "ar" => some (respOf (arApply o (cfgOf r) B (r.nat 4) x params inverse))
  | _ => none

def handleC01 (r : Req) : Option Resp :=
  if r.prec == "f32" then runC01 float32X r
  else if r.prec == "d64" then runC01 (dualX floatX) r
  else runC01 floatX r

end NF
