import NflowsModel.Core.Driver
/-! Core/Ops/C08 — driver operations used by the C08 correspondence (executable model, Mathlib-free). -/
namespace NF

/-- handler for the ops of this property; `none` = not one of mine -/
def handleC08 (_r : Req) : Option Resp := none

end NF
