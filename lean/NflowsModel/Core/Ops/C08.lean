import NflowsModel.Core.Driver
import NflowsModel.Core.Multiscale
/-! Core/Ops/C08 — driver operations used by the C08 correspondence (executable model, Mathlib-free).

A request carries a NESTING of wrappers as a tree (`"tree"` in the raw JSON); the leaves are a small family of atoms
whose arithmetic is exact in binary64 (dyadic affine maps, position-dependent integer shifts, permutations).  The
tree is turned into a transform object with the combinators of `Core/Wrappers` and `Core/Multiscale` — the
definitions the theorems of `Properties/C08` are about — and evaluated on every batch item. -/
open Lean
namespace NF
open NF.Wrap

namespace C08

/-- a nesting of wrappers over atoms -/
inductive Node where
  /-- `PointwiseAffineTransform(shift=s, scale=sg·2^e)` (standard.py:24-68) -/
  | aff (e : Int) (sg : Int) (s : Int)
  /-- harness test double: `y_i = x_i + m·(i+1) + cm·context`, declared log-det `t` (inverse: `-t`);
      `noinv`: only `forward` is implemented (base.py:28-29) -/
  | tag (m : Int) (t : Int) (cm : Int) (noinv : Bool)
  /-- `Permutation(p, dim)` / `ReversePermutation(features, dim)` (permutations.py:9-45) -/
  | perm (dim : Nat) (p : List Nat)
  | comp (cs : List Node)
  | inv (c : Node)
  /-- `MultiscaleCompositeTransform(n, sd)` followed by `add_transform(c_k, shape_k)` for every `k` -/
  | ms (n : Int) (sd : PyArg) (cs : List Node) (shapes : List (List Nat))

abbrev FT := Tr (Item Float) Float Float

def fA : LD Float := ⟨0.0, fun a b => a + b⟩

/-- standard.py:54-68 with a scalar `scale`: `log|scale| · numel` -/
def affTr (e sg s : Int) : FT :=
  let scale : Float := (Float.ofInt sg) * Float.scaleB 1.0 e
  let shift : Float := Float.ofInt s
  let ld (x : Item Float) : Float := Float.log (Float.abs scale) * Float.ofNat (prod x.shape)
  { fwd := fun x _ => .ok (⟨x.shape, x.data.map (fun v => v * scale + shift)⟩, ld x)
    inv := fun x _ => .ok (⟨x.shape, x.data.map (fun v => (v - shift) / scale)⟩, -(ld x)) }

def tagTr (m t cm : Int) (noinv : Bool) : FT :=
  let f (sgn : Float) (x : Item Float) (c : Float) : Item Float :=
    ⟨x.shape, (x.data.zipIdx).map (fun (v, i) => v + sgn * (Float.ofInt m * Float.ofNat (i + 1) + Float.ofInt cm * c))⟩
  { fwd := fun x c => .ok (f 1.0 x c, Float.ofInt t)
    inv := fun x c => if noinv then .error .inverseNotAvailable else .ok (f (-1.0) x c, -(Float.ofInt t)) }

/-- `torch.index_select(inputs, dim, permutation)` on one item (`d = dim - 1`) -/
def indexSelect (d : Nat) (p : List Nat) (x : Item Float) : Item Float :=
  let n := x.shape.getD d 0
  let inner := prod (x.shape.drop (d + 1))
  let outer := prod (x.shape.take d)
  ⟨x.shape.set d p.length,
   (List.range outer).flatMap (fun o => p.flatMap (fun j => (x.data.drop (o * n * inner + j * inner)).take inner))⟩

/-- permutations.py:24-37 -/
def permApply (dim : Nat) (p : List Nat) (x : Item Float) : Except Err (Item Float × Float) :=
  if dim ≥ x.shape.length + 1 then .error .valueError
  else if x.shape.getD (dim - 1) 0 ≠ p.length then .error .valueError
  else .ok (indexSelect (dim - 1) p x, 0.0)

/-- `torch.argsort` of a permutation -/
def argsortPerm (p : List Nat) : List Nat := (List.range p.length).map (fun i => p.idxOf i)

def permTr (dim : Nat) (p : List Nat) : FT :=
  { fwd := fun x _ => permApply dim p x
    inv := fun x _ => permApply dim (argsortPerm p) x }

/-- the `add_transform` calls in order; collects the returned values -/
def addAll (m : MS Float Float Float) : List FT → List (List Nat) → List (Option (List Nat)) →
    Except Err (MS Float Float Float × List (Option (List Nat)))
  | t :: ts, s :: ss, rets =>
    match m.addTransform t s with
    | .error e => .error e
    | .ok (m', r) => addAll m' ts ss (rets ++ [r])
  | _, _, rets => .ok (m, rets)

mutual
/-- construct the transform object a tree denotes (construction can raise) -/
def build : Node → Except Err FT
  | .aff e sg s => .ok (affTr e sg s)
  | .tag m t cm noinv => .ok (tagTr m t cm noinv)
  | .perm dim p => .ok (permTr dim p)
  | .comp cs =>
    match buildList cs with
    | .error e => .error e
    | .ok ts => .ok (composite fA ts)
  | .inv c =>
    match build c with
    | .error e => .error e
    | .ok t => .ok (inverseTr t)
  | .ms n sd cs shapes =>
    match buildList cs with
    | .error e => .error e
    | .ok ts =>
      match (MS.new n sd : Except Err (MS Float Float Float)) with
      | .error e => .error e
      | .ok m =>
        match addAll m ts shapes [] with
        | .error e => .error e
        | .ok (m', _) => .ok (m'.tr fA)
def buildList : List Node → Except Err (List FT)
  | [] => .ok []
  | c :: cs =>
    match build c with
    | .error e => .error e
    | .ok t =>
      match buildList cs with
      | .error e => .error e
      | .ok ts => .ok (t :: ts)
end

/-! ### JSON -/
def jget (j : Json) (k : String) : Json := (j.getObjVal? k).toOption.getD Json.null
def jNats (j : Json) : List Nat := (jArr j).toList.map jNat

partial def parseNode (j : Json) : Option Node :=
  match (jget j "k").getStr?.toOption with
  | some "aff" => some (.aff (jInt (jget j "e")) (jInt (jget j "sg")) (jInt (jget j "s")))
  | some "tag" => some (.tag (jInt (jget j "m")) (jInt (jget j "t")) (jInt (jget j "cm")) (jInt (jget j "noinv") != 0))
  | some "perm" => some (.perm (jNat (jget j "dim")) (jNats (jget j "p")))
  | some "comp" => ((jArr (jget j "c")).toList.mapM parseNode).map .comp
  | some "inv" => (parseNode (jget j "c")).map .inv
  | some "ms" =>
    let sd : PyArg := match (jget j "sd").getInt? with | .ok v => .int v | .error _ => .other
    ((jArr (jget j "c")).toList.mapM parseNode).map
      (fun cs => .ms (jInt (jget j "n")) sd cs ((jArr (jget j "shapes")).toList.map jNats))
  | _ => none

def shapeStr (s : List Nat) : String := ",".intercalate (s.map toString)

/-- `c08_eval`: raw.tree, raw.dir ∈ {fwd, inv}, raw.shape = item shape, f = one row of bit patterns per batch item,
    d = one context value per item.  Answer: i = output item shape, f = output rows ++ [log-dets]. -/
def runEval (r : Req) : Resp :=
  match parseNode (jget r.raw "tree") with
  | none => { err := some "bad-tree" }
  | some node =>
    match build node with
    | .error e => { err := some e.name, strs := ["build"] }
    | .ok t =>
      let shape := jNats (jget r.raw "shape")
      let inverse := (jget r.raw "dir").getStr?.toOption == some "inv"
      let items : List (Item Float) := (List.range r.fs.size).map (fun k => ⟨shape, r.fl k⟩)
      let results := items.zipIdx.map (fun (x, k) => (if inverse then t.inv else t.fwd) x (r.d k))
      match results.findSome? (fun x => match x with | .error e => some e | .ok _ => none) with
      | some e => { err := some e.name, strs := ["call"] }
      | none =>
        let oks := results.filterMap (fun x => match x with | .ok v => some v | .error _ => none)
        let oshape := match oks.head? with | some (y, _) => y.shape | none => []
        { fs := oks.map (fun (y, _) => bitsOf y.data) ++ [bitsOf (oks.map (·.2))],
          ints := oshape.map Int.ofNat }

/-- `c08_build`: a top-level `ms` tree; answer s = returned value of every `add_transform` call ("None" or the
    shape), then "|", then the recorded `_output_shapes`. -/
def runBuild (r : Req) : Resp :=
  match parseNode (jget r.raw "tree") with
  | some (.ms n sd cs shapes) =>
    match buildList cs with
    | .error e => { err := some e.name }
    | .ok ts =>
      match (MS.new n sd : Except Err (MS Float Float Float)) with
      | .error e => { err := some e.name }
      | .ok m =>
        match addAll m ts shapes [] with
        | .error e => { err := some e.name }
        | .ok (m', rets) =>
          { strs := rets.map (fun x => match x with | none => "None" | some s => shapeStr s) ++ ["|"] ++
                    m'.outputShapes.map shapeStr }
  | _ => { err := some "bad-tree" }

end C08

/-- handler for the ops of this property; `none` = not one of mine -/
def handleC08 (r : Req) : Option Resp :=
  match r.op with
  | "c08_eval" => some (C08.runEval r)
  | "c08_build" => some (C08.runBuild r)
  | _ => none

end NF
