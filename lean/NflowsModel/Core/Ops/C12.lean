import NflowsModel.Core.Driver
/-! Core/Ops/C12 — driver operations used by the C12 correspondence (executable model, Mathlib-free). -/
namespace NF

/-- handler for the ops of this property; `none` = not one of mine -/
def handleC12 (_r : Req) : Option Resp := none

end NF
