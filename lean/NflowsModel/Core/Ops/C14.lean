import NflowsModel.Core.Driver
/-! Core/Ops/C14 — driver operations used by the C14 correspondence (executable model, Mathlib-free). -/
namespace NF

/-- handler for the ops of this property; `none` = not one of mine -/
def handleC14 (_r : Req) : Option Resp := none

end NF
