import NflowsModel.Core.Driver
import NflowsModel.Core.Norm
/-! Core/Ops/C14 — driver operations used by the C14 correspondence (executable model, Mathlib-free).

op `c14_hist`: run one history through the ActNorm / BatchNorm *code* machine of `Core/Norm` at `floatX`.

request:  s = [layer]  ("actnorm" | "batchnorm");  i = [features, training0, initialized0];
          f = [log_scale0 | running_mean0, shift0 | running_var0, unconstrained_weight, bias]  (bit patterns);
          d = [eps, momentum]  (BatchNorm constructor arguments);
          "hist" = [{"k":"train"|"eval"|"reload"} | {"k":"fwd"|"inv","shape":[..],"x":[bit patterns, row-major]}]
response: per step `t`:  s[t] = "" (returned a value) | "-" (no return value) | error kind;
          f[4t] = outputs (row-major), f[4t+1] = log-abs-det, f[4t+2], f[4t+3] = state vectors after the step
          (log_scale, shift | running_mean, running_var);
          i[3t..3t+2] = training, initialized (BatchNorm: 0), ghost counter (initialisations | statistics updates). -/
open Lean
namespace NF
open NF.Norm

def c14Batch (j : Json) : Batch Float :=
  let g (k : String) : Json := (j.getObjVal? k).toOption.getD Json.null
  let shape : List Nat := ((jArr (g "shape")).map jNat).toList
  let xs : List Float := (jArr (g "x")).toList.map (fun b => (Bits.ofBits (jNat b) : Float))
  let chunk (n : Nat) (k : Nat) (ys : List Float) : List (List Float) :=
    (List.range k).map (fun i => (ys.drop (i * n)).take n)
  match shape with
  | [b, f] => .d2 (chunk f b xs)
  | [b, c, h, w] => .d4 h w ((chunk (c * h * w) b xs).map (chunk (h * w) c))
  | _ => .bad shape.length

def c14Op (j : Json) : NOp Float :=
  let k := ((j.getObjVal? "k").toOption.getD Json.null).getStr?.toOption.getD ""
  if k == "train" then .train else if k == "eval" then .eval else if k == "reload" then .saveLoadFresh
  else if k == "fwd" then .fwd (c14Batch j) else .inv (c14Batch j)

def c14Res (r : Res Float) : String × List Nat × List Nat :=
  match r with
  | none => ("-", [], [])
  | some (.error e) => (e.name, [], [])
  | some (.ok (out, ld)) => ("", bitsOf out.flat, bitsOf ld)

def runC14 (r : Req) : Resp :=
  let hist : List (NOp Float) := ((jArr ((r.raw.getObjVal? "hist").toOption.getD Json.null)).map c14Op).toList
  let F := r.nat 0
  if r.str 0 == "actnorm" then
    let s0 : ActSt Float := { training := r.flag 1, initialized := r.flag 2, logScale := r.fl 0, shift := r.fl 1, initCount := 0 }
    let tr := traceM (actStep floatX F) s0 hist
    { strs := tr.map (fun x => (c14Res x.2).1)
      fs := tr.flatMap (fun x => [(c14Res x.2).2.1, (c14Res x.2).2.2, bitsOf x.1.logScale, bitsOf x.1.shift])
      ints := tr.flatMap (fun x => [if x.1.training then 1 else 0, if x.1.initialized then 1 else 0, Int.ofNat x.1.initCount]) }
  else if r.str 0 == "batchnorm" then
    let cfg : BNCfg Float := { eps := r.d 0, momentum := r.d 1 }
    let s0 : BNSt Float := { training := r.flag 1, runMean := r.fl 0, runVar := r.fl 1, uweight := r.fl 2, bias := r.fl 3, updates := 0 }
    let tr := traceM (bnStep floatX cfg F) s0 hist
    { strs := tr.map (fun x => (c14Res x.2).1)
      fs := tr.flatMap (fun x => [(c14Res x.2).2.1, (c14Res x.2).2.2, bitsOf x.1.runMean, bitsOf x.1.runVar])
      ints := tr.flatMap (fun x => [if x.1.training then 1 else 0, 0, Int.ofNat x.1.updates]) }
  else { err := some "bad-layer" }

/-- handler for the ops of this property; `none` = not one of mine -/
def handleC14 (r : Req) : Option Resp :=
  if r.op == "c14_hist" then some (runC14 r) else none

end NF
