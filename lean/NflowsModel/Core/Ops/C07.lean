import NflowsModel.Core.Driver
/-! Core/Ops/C07 — driver operations used by the C07 correspondence (executable model, Mathlib-free). -/
namespace NF

/-- handler for the ops of this property; `none` = not one of mine -/
def handleC07 (_r : Req) : Option Resp := none

end NF
