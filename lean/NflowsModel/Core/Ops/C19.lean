import NflowsModel.Core.Driver
/-! Core/Ops/C19 — driver operations used by the C19 correspondence (executable model, Mathlib-free). -/
namespace NF

/-- handler for the ops of this property; `none` = not one of mine -/
def handleC19 (_r : Req) : Option Resp := none

end NF
