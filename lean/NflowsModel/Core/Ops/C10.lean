import NflowsModel.Core.Driver
/-! Core/Ops/C10 — driver operations used by the C10 correspondence (executable model, Mathlib-free). -/
namespace NF

/-- handler for the ops of this property; `none` = not one of mine -/
def handleC10 (_r : Req) : Option Resp := none

end NF
