import NflowsModel.Core.Driver
import NflowsModel.Core.Cache
/-! Core/Ops/C10 — driver operations used by the C10 correspondence (executable model, Mathlib-free).

op `cache_hist`:  s = [kind ("generic" | "naive"), op₁, op₂, …]   i = [training₀, usingCache₀, dtype₀ (0 = f32, 1 = f64)]
  op strings: train | eval | use_cache:1 | use_cache:0 | use_cache:bad | fwd | inv | update | load | cast:f32 | cast:f64 | fwdBwd
answer: per step 12 ints
  [training, usingCache, weightIsNone, inverseIsNone, logabsdetIsNone,   -- white-box state AFTER the step
   outWv, outWdt, outLv, outLdt,                                         -- versions/dtypes the outputs were computed from (-1 if none)
   ver, dt,                                                              -- current parameter version / dtype AFTER the step
   verBefore]                                                            -- parameter version the step was called on
followed by 2 ints: [updatesOnlyInTraining, noRepeatedBackward] of the whole history (the theorem's hypotheses),
and per step one string: "-" (returns nothing) | "ok" | "TypeError" | "RuntimeError:dtype" | "RuntimeError:backward".
The functions executed are `Cache.step` / `Cache.trace`, the ones `Properties.C10` is about. -/
namespace NF
open Cache

def parseOp (s : String) : Option Op :=
  match s with
  | "train" => some .train
  | "eval" => some .eval
  | "use_cache:1" => some (.useCache true)
  | "use_cache:0" => some (.useCache false)
  | "use_cache:bad" => some .useCacheBad
  | "fwd" => some .fwd
  | "inv" => some .inv
  | "update" => some .update
  | "load" => some .load
  | "cast:f32" => some (.cast .f32)
  | "cast:f64" => some (.cast .f64)
  | "fwdBwd" => some .fwdBwd
  | _ => none

def dtCode : DT → Int | .f32 => 0 | .f64 => 1
def bInt (b : Bool) : Int := if b then 1 else 0

def outName : Out → String
  | .none => "-" | .ok .. => "ok" | .errType => "TypeError" | .errDtype => "RuntimeError:dtype"
  | .errBackward => "RuntimeError:backward"

def outInts : Out → List Int
  | .ok wv wdt lv ldt => [Int.ofNat wv, dtCode wdt, Int.ofNat lv, dtCode ldt]
  | _ => [-1, -1, -1, -1]

def runCacheHist (r : Req) : Resp :=
  let kind? : Option Kind := match r.str 0 with | "generic" => some .generic | "naive" => some .naive | _ => none
  let ops := (r.strs.toList.drop 1).map parseOp
  match kind? with
  | none => { err := some "bad-kind" }
  | some k =>
    if ops.any Option.isNone then { err := some "bad-op-string" } else
    let hist := ops.filterMap id
    let s0 : St := { training := r.flag 0, usingCache := r.flag 1, dt := if r.flag 2 then .f64 else .f32 }
    let tr := trace k s0 hist
    -- version before each step = version after the previous one
    let versBefore := s0.ver :: tr.map (fun x => x.1.ver)
    let rows := (tr.zip versBefore).map (fun (x, vb) =>
      [bInt x.1.training, bInt x.1.usingCache, bInt x.1.cW.isNone, bInt x.1.cInv.isNone, bInt x.1.cLd.isNone]
        ++ outInts x.2 ++ [Int.ofNat x.1.ver, dtCode x.1.dt, Int.ofNat vb])
    -- the two hypotheses of `Properties.C10.cache_transparent_partial`, evaluated on this history
    let hyp := [bInt (updatesOnlyInTraining s0.training hist), bInt (noRepeatedBackward s0.training s0.usingCache false hist)]
    { ints := rows.flatten ++ hyp, strs := tr.map (fun x => outName x.2) }

/-- handler for the ops of this property; `none` = not one of mine -/
def handleC10 (r : Req) : Option Resp :=
  match r.op with
  | "cache_hist" => some (runCacheHist r)
  | _ => none

end NF
