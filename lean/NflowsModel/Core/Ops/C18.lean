import NflowsModel.Core.Driver
import NflowsModel.Core.Dist
/-! Core/Ops/C18 — driver operations used by the C18 correspondence (executable model, Mathlib-free).

op `c18`: evaluate one public call of the distribution interface on shapes.
  {"op":"c18","call":"sample"|"log_prob"|"sample_and_log_prob",
   "cls": CLASS, "n": PYVAL, "b": PYVAL, "ctx": null | [dims], "inputs": [dims]}
  CLASS = {"k":"StandardNormal"|"ConditionalDiagonalNormal"|"DiagonalNormal"|"ConditionalIndependentBernoulli","event":[dims]}
        | {"k":"MADEMoG","D":features,"C":context_features}
        | {"k":"Flow","event":[dims],"tr":{"k":"ctxAware","C":c} | {"k":"noCtx","e":"RuntimeError"|"AttributeError"},
           "emb": null | [cin, cout], "base": CLASS}
  PYVAL = {"t":"int","v":k} | {"t":"bool","v":0|1} | {"t":"float"} | {"t":"none"} | {"t":"str"}
answer: "f" = list of result shapes (one for sample / log_prob, two for sample_and_log_prob), "e" = exception class. -/
open Lean
namespace NF
open NF.Dist

def c18Field (j : Json) (k : String) : Json := (j.getObjVal? k).toOption.getD Json.null
def c18Str (j : Json) (k : String) : String := (c18Field j k).getStr?.toOption.getD ""
def c18Shape (j : Json) : Shape := ((jArr j).map jNat).toList

def c18PyVal (j : Json) : PyVal :=
  match c18Str j "t" with
  | "int" => .int (jInt (c18Field j "v"))
  | "bool" => .bool (jInt (c18Field j "v") != 0)
  | "float" => .float
  | "none" => .none
  | _ => .str

partial def c18Dist (j : Json) : Dist :=
  let ev := c18Shape (c18Field j "event")
  match c18Str j "k" with
  | "StandardNormal" => (stdNormal ev).toDist
  | "ConditionalDiagonalNormal" => (condDiagNormal ev).toDist
  | "DiagonalNormal" => (diagNormal ev).toDist
  | "ConditionalIndependentBernoulli" => (condBernoulli ev).toDist
  | "MADEMoG" => (madeMoG (jNat (c18Field j "D")) (jNat (c18Field j "C"))).toDist
  | _ =>
    let trj := c18Field j "tr"
    let tr : Tr := if c18Str trj "k" == "ctxAware" then .ctxAware (jNat (c18Field trj "C"))
                   else .noCtx (DErr.ofName (c18Str trj "e"))
    let embj := c18Field j "emb"
    let emb : Emb := match jArr embj with
      | #[a, b] => .linear (jNat a) (jNat b)
      | _ => .identity
    flow tr ev (c18Dist (c18Field j "base")) emb

def c18Ctx (j : Json) : Option Shape := if j.isNull then none else some (c18Shape j)

def runC18 (r : Req) : Resp :=
  let j := r.raw
  let d := c18Dist (c18Field j "cls")
  let ctx := c18Ctx (c18Field j "ctx")
  let n := c18PyVal (c18Field j "n")
  let b := c18PyVal (c18Field j "b")
  match c18Str j "call" with
  | "sample" =>
    match d.sample n ctx b with
    | .ok s => { fs := [s] }
    | .error e => { err := some e.name }
  | "log_prob" =>
    match d.logProb (c18Shape (c18Field j "inputs")) ctx with
    | .ok s => { fs := [s] }
    | .error e => { err := some e.name }
  | "sample_and_log_prob" =>
    match d.sampleAndLogProb n ctx with
    | .ok (s, l) => { fs := [s, l] }
    | .error e => { err := some e.name }
  | _ => { err := some "bad-call" }

/-- handler for the ops of this property; `none` = not one of mine -/
def handleC18 (r : Req) : Option Resp :=
  if r.op == "c18" then some (runC18 r)
  else if r.op == "c18_batch" then
    -- i = [n, b]: origin (piece, position) of every draw of a batched sample, flattened
    some { ints := (batchLayout (r.nat 0) (r.nat 1)).flatMap (fun pq => [Int.ofNat pq.1, Int.ofNat pq.2]) }
  else none

end NF
