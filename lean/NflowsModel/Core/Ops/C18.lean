import NflowsModel.Core.Driver
/-! Core/Ops/C18 — driver operations used by the C18 correspondence (executable model, Mathlib-free). -/
namespace NF

/-- handler for the ops of this property; `none` = not one of mine -/
def handleC18 (_r : Req) : Option Resp := none

end NF
