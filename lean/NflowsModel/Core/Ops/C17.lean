import NflowsModel.Core.Driver
/-! Core/Ops/C17 — driver operations used by the C17 correspondence (executable model, Mathlib-free). -/
namespace NF

/-- handler for the ops of this property; `none` = not one of mine -/
def handleC17 (_r : Req) : Option Resp := none

end NF
