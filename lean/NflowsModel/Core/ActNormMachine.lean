
namespace ActNormMachine

/-! C14: ActNorm life-cycle as a state machine; code-machine refines spec-machine (core Lean only).
    Data is abstract: `Params` are whatever `init batch` computes; `apply`/`unapply` are the affine maps. -/
variable {Batch Params Out : Type}

inductive Op (Batch : Type) | train | eval | fwd (b : Batch) | inv (b : Batch) | saveLoadFresh
structure St (Params : Type) where
  training : Bool
  initialized : Bool
  params : Params
  initCount : Nat            -- ghost: how many times the data-dependent init ran

/-- the code (normalization.py:171-218): init iff training ∧ ¬initialized, only in forward -/
def stepCode (initF : Batch → Params) (s : St Params) : Op Batch → St Params
  | .train => { s with training := true }
  | .eval => { s with training := false }
  | .fwd b => if s.training && !s.initialized then { s with initialized := true, params := initF b, initCount := s.initCount + 1 } else s
  | .inv _ => s
  | .saveLoadFresh => { s with training := true }   -- fresh instance is in training mode; flag + params travel in the state dict

/-- the documented behaviour: the first training-mode forward initialises, nothing else ever does -/
structure Spec (Params : Type) where
  training : Bool
  done : Bool
  params : Params
  count : Nat
def stepSpec (initF : Batch → Params) (s : Spec Params) : Op Batch → Spec Params
  | .train => { s with training := true }
  | .eval => { s with training := false }
  | .fwd b => if s.done then s else if s.training then { s with done := true, params := initF b, count := 1 } else s
  | .inv _ => s
  | .saveLoadFresh => { s with training := true }

def rel (c : St Params) (s : Spec Params) : Prop :=
  c.training = s.training ∧ c.initialized = s.done ∧ c.params = s.params ∧ c.initCount = s.count ∧ (s.done = false → s.count = 0)

theorem refine_step (initF : Batch → Params) (c : St Params) (s : Spec Params) (o : Op Batch) (h : rel c s) :
    rel (stepCode initF c o) (stepSpec initF s o) := by
  obtain ⟨h1, h2, h3, h4, h5⟩ := h
  cases o with
  | train => exact ⟨rfl, h2, h3, h4, h5⟩
  | eval => exact ⟨rfl, h2, h3, h4, h5⟩
  | inv b => exact ⟨h1, h2, h3, h4, h5⟩
  | saveLoadFresh => exact ⟨rfl, h2, h3, h4, h5⟩
  | fwd b =>
    simp only [stepCode, stepSpec]
    cases hd : s.done <;> cases ht : s.training <;> simp_all [rel]

theorem refine_run (initF : Batch → Params) (ops : List (Op Batch)) (c : St Params) (s : Spec Params) (h : rel c s) :
    rel (ops.foldl (stepCode initF) c) (ops.foldl (stepSpec initF) s) := by
  induction ops generalizing c s with
  | nil => exact h
  | cons o os ih => exact ih _ _ (refine_step initF c s o h)

/-- consequence: over every history the data-dependent initialisation runs at most once -/
theorem spec_count_le_one (initF : Batch → Params) (ops : List (Op Batch)) (s : Spec Params) (h : s.count ≤ 1) (h' : s.done = false → s.count = 0) :
    (ops.foldl (stepSpec initF) s).count ≤ 1 := by
  induction ops generalizing s with
  | nil => exact h
  | cons o os ih =>
    apply ih
    · cases o <;> simp only [stepSpec] <;> try exact h
      split <;> try exact h
      split <;> simp_all
    · cases o <;> simp only [stepSpec] <;> try exact h'
      split <;> try exact h'
      split <;> simp_all

theorem init_at_most_once (initF : Batch → Params) (p0 : Params) (ops : List (Op Batch)) :
    (ops.foldl (stepCode initF) ⟨true, false, p0, 0⟩).initCount ≤ 1 := by
  have hr : rel (⟨true, false, p0, 0⟩ : St Params) (⟨true, false, p0, 0⟩ : Spec Params) := ⟨rfl, rfl, rfl, rfl, fun _ => rfl⟩
  have := refine_run initF ops _ _ hr
  rw [this.2.2.2.1]
  exact spec_count_le_one initF ops _ (by simp) (fun _ => rfl)


end ActNormMachine
