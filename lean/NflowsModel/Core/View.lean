
-- Core/View.lean (Mathlib-free, executable)
/-! strided views, Mathlib-free -/
structure View (α : Type) where
  data : Array α
  offset : Nat
  shape : List Nat
  strides : List Nat

namespace View
variable {α : Type} [Inhabited α]

def dot : List Nat → List Nat → Nat
  | i :: is, s :: ss => i * s + dot is ss
  | _, _ => 0

def rowMajor : List Nat → List Nat
  | [] => []
  | _ :: rest => rest.foldl (· * ·) 1 :: rowMajor rest

def get (v : View α) (idx : List Nat) : α := v.data[v.offset + dot idx v.strides]!

def ofArray (data : Array α) (shape : List Nat) : View α := ⟨data, 0, shape, rowMajor shape⟩
/-- reshape of a *contiguous* view -/
def reshape (v : View α) (shape : List Nat) : View α := { v with shape := shape, strides := rowMajor shape }
def permute (v : View α) (perm : List Nat) : View α :=
  { v with shape := perm.map (fun p => v.shape.getD p 0), strides := perm.map (fun p => v.strides.getD p 0) }
end View

