import NflowsModel.Core.Basic
/-!
# Core/TorchUtils — executable model of `nflows/utils/torchutils.py` and `nflows/utils/typechecks.py`
(Mathlib-free; linked into the driver).  Models the code as it is in `/repo` now (after the `fix:` commits
6ce8c16 / 25877ca searchsorted, a69477f sum_except_batch, 8b73dff merge_leading_dims, 3e70b12 KDE dtype), including
its error behaviour.

A tensor is `(shape, flat row-major data)`: that is what `torch.reshape` preserves, so every reshape of
the code is the identity on `data` and a (checked) change of `shape`.
-/

namespace NF.TU

/-! ## typechecks.py -/

/-- the Python values that can reach the predicates (`other` = any non-int object: tensor, numpy int, list …) -/
inductive PyVal where
  | int (n : Int) | bool (b : Bool) | float | none | str | other
deriving DecidableEq, Repr, Inhabited

/-- typechecks.py:4-5 `isinstance(x, bool)` -/
def isBool : PyVal → Bool | .bool _ => true | _ => false
/-- typechecks.py:8-9 `isinstance(x, int)`; `bool` is a subclass of `int` -/
def isInt : PyVal → Bool | .int _ => true | .bool _ => true | _ => false
/-- the integer value of an `int` instance (`True == 1`, `False == 0`) -/
def asInt : PyVal → Option Int | .int n => some n | .bool b => some (if b then 1 else 0) | _ => none
/-- typechecks.py:12-13 `is_int(x) and x > 0` -/
def isPositiveInt (v : PyVal) : Bool := match asInt v with | some n => decide (0 < n) | none => false
/-- typechecks.py:16-17 `is_int(x) and x >= 0` -/
def isNonnegInt (v : PyVal) : Bool := match asInt v with | some n => decide (0 ≤ n) | none => false
/-- typechecks.py:20-24 `not n & (n - 1)` if `is_positive_int(n)` else `False` (Python ints are unbounded: `Nat` land) -/
def isPowerOfTwo (v : PyVal) : Bool :=
  match asInt v with
  | some n => if 0 < n then (n.toNat &&& (n.toNat - 1)) == 0 else false
  | none => false

/-- the natural number a (validated) count argument denotes -/
def natOf (v : PyVal) : Nat := ((asInt v).getD 0).toNat

/-! ## tensors as (shape, flat data) -/

structure T (α : Type) where
  shape : List Nat
  data : List α
deriving Repr, DecidableEq

def prodL : List Nat → Nat
  | [] => 1
  | a :: t => a * prodL t

variable {α : Type}

def T.numel (x : T α) : Nat := prodL x.shape
/-- well-formed: as many data entries as the shape says -/
def T.WF (x : T α) : Prop := x.data.length = prodL x.shape

/-- `at::infer_size` (what `torch.reshape` does with a requested shape that may contain one `-1`);
    every failure is a `RuntimeError`. -/
def inferSize (numel : Nat) (sh : List Int) : Except Err (List Nat) :=
  if (sh.filter (· == -1)).length > 1 then .error .runtime            -- "only one dimension can be inferred"
  else if sh.any (· < -1) then .error .runtime                        -- "invalid shape dimension"
  else
    let newsize := prodL ((sh.filter (· != -1)).map Int.toNat)
    let hasInfer := sh.any (· == -1)
    if numel == newsize || (hasInfer && decide (0 < newsize) && numel % newsize == 0) then
      if hasInfer then
        if newsize == 0 then .error .runtime                           -- "cannot reshape tensor of 0 elements … unspecified dimension"
        else .ok (sh.map (fun d => if d == -1 then numel / newsize else d.toNat))
      else .ok (sh.map Int.toNat)
    else .error .runtime                                               -- "shape … is invalid for input of size"

/-- `torch.reshape(x, sh)`: flat row-major data unchanged -/
def reshape (x : T α) (sh : List Int) : Except Err (T α) :=
  match inferSize x.numel sh with
  | .ok s => .ok ⟨s, x.data⟩
  | .error e => .error e

/-- `d.reshape(rows, cols)` as a list of rows -/
def chunkRows (rows cols : Nat) (d : List α) : List (List α) :=
  (List.range rows).map (fun r => (d.drop (r * cols)).take cols)

/-- `m.transpose(1, 0)` of a list of rows with `cols` columns -/
def transposeRows (m : List (List α)) (cols : Nat) : List (List α) :=
  (List.range cols).map (fun i => m.filterMap (fun row => row[i]?))

/-- `v.repeat(n)` of a 1-D tensor: `n` copies one after the other -/
def repeatFlat (n : Nat) (d : List α) : List α := (List.replicate n d).flatten

/-- torchutils.py:11-15 on the flat data: reshape(-1) · repeat(n) · reshape(n,-1) · transpose(1,0) · reshape(-1) -/
def tileL (d : List α) (n : Nat) : List α :=
  let rep := repeatFlat n d                   -- x_.repeat(n)
  let rows := chunkRows n d.length rep        -- .reshape(n, -1)
  let tr := transposeRows rows d.length       -- .transpose(1, 0)
  tr.flatten                                  -- .reshape(-1)

/-- torchutils.py:8-16 `tile(x, n)` -/
def tile (x : T α) (n : PyVal) : Except Err (T α) :=
  if !isPositiveInt n then .error .typeError                 -- :9-10
  else match n with
    | .int k => .ok ⟨[x.data.length * k.toNat], tileL x.data k.toNat⟩
    | _ => .error .typeError                                 -- `x_.repeat(True)`: torch rejects a bool repeat count (TypeError)

/-- torchutils.py:36-47 `merge_leading_dims(x, num_dims)` (after commit 8b73dff: the merged size is computed explicitly,
    `int(np.prod(x.shape[:num_dims]))`, so no `-1` has to be inferred) -/
def mergeLeading (x : T α) (k : PyVal) : Except Err (T α) :=
  if !isPositiveInt k then .error .typeError                 -- :38-39
  else if natOf k > x.shape.length then .error .valueError   -- :40-43
  else reshape x ((prodL (x.shape.take (natOf k)) :: x.shape.drop (natOf k)).map Int.ofNat)   -- :45-47

/-- torchutils.py:30-33 `split_leading_dim(x, shape)` -/
def splitLeading (x : T α) (sh : List Int) : Except Err (T α) :=
  reshape x (sh ++ (x.shape.drop 1).map Int.ofNat)

/-- rows of a tensor whose first dimension is `s0` (the rest flattened) -/
def rowsOf (s0 : Nat) (rest : List Nat) (d : List α) : List (List α) := chunkRows s0 (prodL rest) d

/-- torchutils.py:51-58 `repeat_rows(x, num_reps)`: unsqueeze(1) · expand(s0, n, *rest) · merge_leading_dims(2) -/
def repeatRows (x : T α) (n : PyVal) : Except Err (T α) :=
  if !isPositiveInt n then .error .typeError                 -- :53-54
  else match x.shape with
    | [] => .error .indexError                               -- `x.unsqueeze(1)` of a 0-dim tensor
    | s0 :: rest =>
      let ex := (rowsOf s0 rest x.data).map (fun row => List.replicate (natOf n) row)   -- [s0, n] blocks
      mergeLeading ⟨s0 :: natOf n :: rest, ex.flatten.flatten⟩ (.int 2)

/-- torchutils.py:19-27 `sum_except_batch(x, num_batch_dims)` (after commit a69477f: when `reduce_dims` is empty, i.e.
    `num_batch_dims ≥ ndim`, `x` itself is returned instead of `torch.sum(x, dim=[])`, which would reduce everything). -/
def sumExceptBatch (x : T Int) (k : PyVal) : Except Err (T Int) :=
  if !isNonnegInt k then .error .typeError                   -- :21-22
  else
    let reduceDims := List.range' (natOf k) (x.shape.length - natOf k)   -- :23
    if reduceDims.isEmpty then .ok x                          -- :24-26 nothing but batch dimensions
    else
      let b := prodL (x.shape.take (natOf k))
      let r := prodL (x.shape.drop (natOf k))
      .ok ⟨x.shape.take (natOf k), (chunkRows b r x.data).map List.sum⟩   -- :27

/-! ## searchsorted with an explicit argument buffer (torchutils.py:139-147) -/

/-- the value written to the last bin edge (:144-146) -/
def bumpedLast (o : XOps α) (eps : Float) (l : α) : α := o.maxA (o.add l (o.ofFloat eps)) (o.nextUp l)

/-- outcome of one call: the returned indices and the caller's `bin_locations` buffer afterwards -/
structure SearchOut (α : Type) where
  result : Int
  callerAfter : List α

/-- `searchsorted` as a two-buffer program.  `doClone = true` is the code in `/repo` (:140 `bin_locations.clone()`):
    the write of :144 goes to the private copy.  `doClone = false` is the code before commit 6ce8c16 (F12): the
    write goes to the caller's tensor. -/
def searchsortedM (o : XOps α) (doClone : Bool) (eps : Float) (locs : List α) (x : α) : SearchOut α :=
  let written := match locs.reverse with
    | [] => []
    | l :: r => (bumpedLast o eps l :: r).reverse
  let caller := if doClone then locs else written
  ⟨Int.ofNat (written.filter (fun l => o.ge x l)).length - 1, caller⟩

/-- the model of the current code -/
def searchsorted (o : XOps α) (eps : Float) (locs : List α) (x : α) : SearchOut α := searchsortedM o true eps locs x

/-! ## cbrt, get_temperature -/

/-- torchutils.py:150-152 `sign(x) * exp(log(abs(x)) / 3.0)` -/
def cbrtG (o : XOps α) (x : α) : α := o.mul (o.sign x) (o.exp (o.div (o.log (o.abs x)) (o.ofRat 3 1)))

/-- torchutils.py:155-170.  `min(t, 1)` is Python's builtin: it returns the int `1` iff `1 < t`, else the tensor `t`.
    Result: (is a tensor, value). -/
def getTemperature (o : XOps α) (maxv bound : α) : Bool × α :=
  let t := o.mul (o.neg (o.div o.one maxv)) (o.sub (o.log1p (o.neg bound)) (o.log bound))
  if o.lt o.one t then (false, o.one) else (true, t)

/-! ## masks (torchutils.py:94-136) as lists of 0/1 -/

/-- :116 / :131 -/
def midpoint (n : Nat) : Nat := if n % 2 == 0 then n / 2 else n / 2 + 1

/-- :102-105 `mask[start::2] += 1` -/
def alternatingMask (n : Nat) (even : Bool) : List Nat :=
  let start := if even then 0 else 1
  (List.range n).map (fun i => if start ≤ i && (i - start) % 2 == 0 then 1 else 0)

/-- :115-118 `mask[:midpoint] += 1` -/
def midSplitMask (n : Nat) : List Nat := (List.range n).map (fun i => if i < midpoint n then 1 else 0)

/-- :129-136 `mask[indices] += 1` for the drawn `indices` (index_put without accumulation) -/
def randomMaskOf (n : Nat) (idxs : List Nat) : List Nat := (List.range n).map (fun i => if idxs.contains i then 1 else 0)

/-- features as a Python int: negative → `torch.zeros` raises; 0 → `torch.multinomial` raises for the random mask -/
def maskOp (kind : String) (features : Int) (even : Bool) : Except Err (List Nat) :=
  if features < 0 then .error .runtime
  else if kind == "alternating" then .ok (alternatingMask features.toNat even)
  else if kind == "midsplit" then .ok (midSplitMask features.toNat)
  else .error .other

/-- number of ones `create_random_binary_mask(features)` must have, or its error -/
def randomMaskCount (features : Int) : Except Err Nat :=
  if features ≤ 0 then .error .runtime else .ok (midpoint features.toNat)

/-! ## logabsdet (torchutils.py:64-68): `slogdet` by specification — exact integer determinant, then `log |det|` -/

def removeAt (l : List α) (j : Nat) : List α := l.take j ++ l.drop (j + 1)

/-- Laplace expansion along the first row -/
def detL : (n : Nat) → List (List Int) → Int
  | 0, _ => 1
  | n + 1, m =>
    match m with
    | [] => 0
    | row :: rest =>
      (List.range (n + 1)).foldl (fun acc j =>
        acc + (if j % 2 == 0 then 1 else -1) * row.getD j 0 * detL n (rest.map (fun r => removeAt r j))) 0

def logabsdetF (n : Nat) (m : List (List Int)) : Float := Float.log (Float.ofInt (detL n m).natAbs)

/-! ## gaussian_kde_log_eval (torchutils.py:173-182), element type generic (after commit 3e70b12 `torch.eye(D)` has the
    dtype of the samples, so the same formula runs in float32 and float64).
    `std`, `dconst` are the Python-side doubles of :175 and :180. -/
def kdeLogEval (o : XOps α) (std dconst : Float) (samples : List (List α)) (q : List α) : α :=
  let p := o.ofFloat (1.0 / (std * std))                                  -- :176 diagonal of `precision`
  let cs := samples.map (fun s =>
    let a := List.zipWith o.sub q s                                       -- :177
    let b := a.map (fun v => o.mul v p)                                   -- :178 (diagonal matmul)
    let c := o.mul (o.ofFloat (-0.5)) (sumG o (List.zipWith o.mul a b))   -- :179
    o.add c (o.ofFloat dconst))                                           -- :181
  let m := maxG o cs
  o.add m (o.log (sumG o (cs.map (fun c => o.exp (o.sub c m)))))          -- :182 logsumexp

end NF.TU
