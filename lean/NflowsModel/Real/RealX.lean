import NflowsModel.Core.Basic
import NflowsModel.Lemmas.DualSound
import Mathlib.Analysis.SpecialFunctions.Trigonometric.Arctan
import Mathlib.Analysis.SpecialFunctions.Complex.Arg
import Mathlib.Algebra.BigOperators.Group.List.Basic
/-!
# Real/RealX — the real-number instance of `XOps`

`realX emb : XOps ℝ` extends `DualSound.realOps` with the remaining primitives, so that every list-level model
function of `Core/` (generic in `XOps α`, executed by the driver at `floatX`) can be instantiated at ℝ and be the
subject of a theorem.  `emb : Float → ℝ` interprets Python-side double constants; theorems quantify over it (model
functions that matter take their constants as `α` values).  Each field gets a `rfl` simp lemma — proofs never unfold
the record.
-/
open DualSound

namespace NF
noncomputable section

open Classical in
def realX (emb : Float → ℝ) : XOps ℝ where
  toOps := realOps
  ofFloat := emb
  toFloat := fun _ => 0
  le a b := decide (a ≤ b)
  tanh := Real.tanh
  atan := Real.arctan
  tan := Real.tan
  cos := Real.cos
  sin := Real.sin
  atan2 y x := Complex.arg ⟨x, y⟩
  abs x := |x|
  floor x := (⌊x⌋ : ℝ)
  floorInt x := ⌊x⌋
  nextUp := id
  isFinite _ := true

variable (e : Float → ℝ)

@[simp] theorem realX_add (a b : ℝ) : (realX e).add a b = a + b := rfl
@[simp] theorem realX_sub (a b : ℝ) : (realX e).sub a b = a - b := rfl
@[simp] theorem realX_mul (a b : ℝ) : (realX e).mul a b = a * b := rfl
@[simp] theorem realX_div (a b : ℝ) : (realX e).div a b = a / b := rfl
@[simp] theorem realX_neg (a : ℝ) : (realX e).neg a = -a := rfl
@[simp] theorem realX_exp (a : ℝ) : (realX e).exp a = Real.exp a := rfl
@[simp] theorem realX_log (a : ℝ) : (realX e).log a = Real.log a := rfl
@[simp] theorem realX_sqrt (a : ℝ) : (realX e).sqrt a = Real.sqrt a := rfl
@[simp] theorem realX_atan (a : ℝ) : (realX e).atan a = Real.arctan a := rfl
@[simp] theorem realX_abs (a : ℝ) : (realX e).abs a = |a| := rfl
@[simp] theorem realX_ofRat (n : Int) (d : Nat) : (realX e).ofRat n d = (n : ℝ) / (d : ℝ) := rfl
@[simp] theorem realX_lt (a b : ℝ) : (realX e).lt a b = decide (a < b) := rfl
@[simp] theorem realX_le (a b : ℝ) : (realX e).le a b = decide (a ≤ b) := rfl
@[simp] theorem realX_ofFloat (x : Float) : (realX e).ofFloat x = e x := rfl

@[simp] theorem realX_zero : (realX e).zero = 0 := by simp [XOps.zero]
@[simp] theorem realX_one : (realX e).one = 1 := by simp [XOps.one]
@[simp] theorem realX_two : (realX e).two = 2 := by simp [XOps.two]
@[simp] theorem realX_ofNat (n : Nat) : (realX e).ofNat n = (n : ℝ) := by simp [XOps.ofNat]
@[simp] theorem realX_sq (a : ℝ) : (realX e).sq a = a ^ 2 := by simp [XOps.sq, pow_two]

/-- the compensated `log1p` of `XOps` is `log (1 + x)` on ℝ (no domain condition: both sides agree even where `log` is junk) -/
@[simp] theorem realX_log1p (x : ℝ) : (realX e).log1p x = Real.log (1 + x) := by
  unfold XOps.log1p
  simp only [realX_add, realX_one, realX_le, realX_sub, realX_mul, realX_div, realX_log]
  by_cases h : x = 0
  · subst h; simp
  · have h1 : ¬ ((1:ℝ) + x ≤ 1 ∧ 1 ≤ 1 + x) := by
      rintro ⟨h1, h2⟩; exact h (by linarith)
    have : (decide ((1:ℝ) + x ≤ 1) && decide ((1:ℝ) ≤ 1 + x)) = false := by
      simpa using h1
    rw [this]; simp only [Bool.false_eq_true, if_false]
    have : (1:ℝ) + x - 1 = x := by ring
    rw [this]; field_simp

/-- `F.softplus` with its threshold, on ℝ: the identity above 20, `log (1 + exp x)` otherwise -/
theorem realX_softplus (x : ℝ) : (realX e).softplus x = if 20 < x then x else Real.log (1 + Real.exp x) := by
  unfold XOps.softplus XOps.softplusB
  simp only [realX_one, realX_mul, one_mul, realX_lt, realX_ofRat, realX_div, realX_log1p, realX_exp, div_one]
  norm_num

theorem realX_sigmoid (x : ℝ) : (realX e).sigmoid x = 1 / (1 + Real.exp (-x)) := by
  simp [XOps.sigmoid]

theorem sumG_real (l : List ℝ) : sumG (realX e) l = l.sum := by
  unfold sumG
  rw [List.sum_eq_foldl]
  simp only [realX_zero]
  rfl

end
end NF
