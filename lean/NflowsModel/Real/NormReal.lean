import NflowsModel.Core.Norm
import NflowsModel.Lemmas.DualSound
import NflowsModel.Lemmas.ActNormInit
import NflowsModel.Lemmas.NormMachine
import Mathlib.Algebra.BigOperators.Fin
import Mathlib.Analysis.SpecialFunctions.Trigonometric.Arctan
import Mathlib.Analysis.SpecialFunctions.Complex.Arg
import Mathlib.Algebra.BigOperators.Intervals
import Mathlib.Tactic
/-!
# Real/NormReal — the C14 machines of `Core/Norm` at the real-number semantics

`realX : XOps ℝ` extends `DualSound.realOps` (the instance `evalR` is built on) with the remaining primitives, so
`actStep realX`, `bnStep realX` are literally the functions the driver runs at `floatX`, evaluated over ℝ.
Bridge lemmas relate their list statistics to the `Finset` forms of `Lemmas/ActNormInit`.
-/
open DualSound NF NF.Norm

namespace NormReal

noncomputable section

/-- the real number denoted by an IEEE binary64 bit pattern (finite patterns; inf/NaN patterns get a junk value) -/
def bitsToReal (n : ℕ) : ℝ :=
  let e : ℕ := (n / 2 ^ 52) % 2 ^ 11
  let m : ℕ := n % 2 ^ 52
  let mag : ℝ := if e = 0 then (m : ℝ) * (2 : ℝ) ^ (-1074 : ℤ) else (((2 ^ 52 + m : ℕ) : ℝ)) * (2 : ℝ) ^ ((e : ℤ) - 1075)
  if n / 2 ^ 63 = 1 then -mag else mag

/-- real-number semantics of the primitive operations (`nextUp` is the identity: ℝ has no next value; a Python
    double constant is read through its exact rational value) -/
def realX : XOps ℝ where
  toOps := realOps
  ofFloat x := bitsToReal x.toBits.toNat
  toFloat _ := 0
  le a b := decide (a ≤ b)
  tanh := Real.tanh
  atan := Real.arctan
  tan := Real.tan
  cos := Real.cos
  sin := Real.sin
  atan2 y x := Complex.arg ⟨x, y⟩
  abs x := |x|
  floor x := (⌊x⌋ : ℤ)
  floorInt x := ⌊x⌋
  nextUp x := x
  isFinite _ := true

@[simp] theorem realX_add (a b : ℝ) : realX.add a b = a + b := rfl
@[simp] theorem realX_sub (a b : ℝ) : realX.sub a b = a - b := rfl
@[simp] theorem realX_mul (a b : ℝ) : realX.mul a b = a * b := rfl
@[simp] theorem realX_div (a b : ℝ) : realX.div a b = a / b := rfl
@[simp] theorem realX_neg (a : ℝ) : realX.neg a = -a := rfl
@[simp] theorem realX_exp (a : ℝ) : realX.exp a = Real.exp a := rfl
@[simp] theorem realX_log (a : ℝ) : realX.log a = Real.log a := rfl
@[simp] theorem realX_sqrt (a : ℝ) : realX.sqrt a = Real.sqrt a := rfl
@[simp] theorem realX_ofRat (n : ℤ) (d : ℕ) : realX.ofRat n d = (n : ℝ) / (d : ℝ) := rfl
@[simp] theorem realX_zero : XOps.zero realX = 0 := by simp [XOps.zero]
@[simp] theorem realX_one : XOps.one realX = 1 := by simp [XOps.one]
@[simp] theorem realX_ofNat (n : ℕ) : XOps.ofNat realX n = (n : ℝ) := by simp [XOps.ofNat]
@[simp] theorem realX_sq (a : ℝ) : XOps.sq realX a = a ^ 2 := by simp [XOps.sq, pow_two]

theorem foldl_add (xs : List ℝ) (a : ℝ) : xs.foldl (fun x y => x + y) a = a + xs.sum := by
  induction xs generalizing a with
  | nil => simp
  | cons x r ih => simp [List.foldl_cons, ih, add_assoc]

@[simp] theorem sumG_real (xs : List ℝ) : sumG realX xs = xs.sum := by
  unfold sumG
  have : (realX.add : ℝ → ℝ → ℝ) = fun x y => x + y := rfl
  rw [this, realX_zero, foldl_add, zero_add]

theorem meanL_real (xs : List ℝ) : meanL realX xs = xs.sum / xs.length := by simp [meanL]
theorem varUL_real (xs : List ℝ) :
    varUL realX xs = (xs.map (fun x => (x - xs.sum / xs.length) ^ 2)).sum / ((xs.length : ℝ) - 1) := by
  simp [varUL, meanL_real]

/-! ### list statistics = `Finset` statistics of `Lemmas/ActNormInit` -/

theorem meanL_ofFn {n : ℕ} (f : Fin n → ℝ) : meanL realX (List.ofFn f) = ActNormInit.mean f := by
  simp [meanL_real, ActNormInit.mean, List.sum_ofFn]

theorem varUL_ofFn {n : ℕ} (f : Fin n → ℝ) : varUL realX (List.ofFn f) = ActNormInit.varU f := by
  have hm := meanL_ofFn f
  rw [meanL_real] at hm
  rw [varUL_real, hm, List.map_ofFn, List.sum_ofFn]
  simp [ActNormInit.varU]

theorem actInitCol_ofFn {n : ℕ} (f : Fin n → ℝ) :
    actInitCol realX (List.ofFn f) =
      (- Real.log (ActNormInit.stdU f), - ActNormInit.mean (fun i => f i / ActNormInit.stdU f)) := by
  simp only [actInitCol, varUL_ofFn, List.map_ofFn, realX_sqrt, realX_neg, realX_log, ActNormInit.stdU]
  rw [show ((fun x => realX.div x (Real.sqrt (ActNormInit.varU f))) ∘ f) = fun i => f i / Real.sqrt (ActNormInit.varU f) from rfl,
    meanL_ofFn]

/-- the initialising batch, one feature: the column the executed `_initialize` + affine map produce has mean 0 and
    unbiased variance 1 -/
theorem actInitCol_normalises (xs : List ℝ) (hB : 2 ≤ xs.length) (hv : 0 < varUL realX xs) :
    let p := actInitCol realX xs
    let ys := xs.map (fun x => realX.add (realX.mul (realX.exp p.1) x) p.2)
    meanL realX ys = 0 ∧ varUL realX ys = 1 := by
  obtain ⟨n, f, rfl⟩ : ∃ n, ∃ f : Fin n → ℝ, xs = List.ofFn f := ⟨xs.length, fun i => xs.get i, (List.ofFn_get xs).symm⟩
  simp only [List.length_ofFn] at hB
  rw [varUL_ofFn] at hv
  have key : (List.ofFn f).map (fun x => realX.add (realX.mul (realX.exp (actInitCol realX (List.ofFn f)).1) x)
      (actInitCol realX (List.ofFn f)).2) = List.ofFn (ActNormInit.actnormInitOut f) := by
    rw [actInitCol_ofFn, List.map_ofFn]
    rfl
  simp only [key, meanL_ofFn, varUL_ofFn]
  exact ActNormInit.actnorm_init_normalises f hB hv

/-! ### the momentum rule in closed form -/

/-- scalar momentum recurrence over a list of statistics -/
def emaFold (m r0 : ℝ) (ss : List ℝ) : ℝ := ss.foldl (fun r s => r * (1 - m) + s * m) r0

theorem ema_real (m r s : ℝ) : ema realX m r s = r * (1 - m) + s * m := by simp [ema]

theorem emaFold_closed (m : ℝ) (ss : List ℝ) (r0 : ℝ) :
    emaFold m r0 ss = (1 - m) ^ ss.length * r0 +
      ∑ i ∈ Finset.range ss.length, m * (1 - m) ^ (ss.length - 1 - i) * ss.getD i 0 := by
  induction ss generalizing r0 with
  | nil => simp [emaFold]
  | cons s ss ih =>
    have h := ih (r0 * (1 - m) + s * m)
    simp only [emaFold, List.foldl_cons] at h ⊢
    rw [h, List.length_cons, Finset.sum_range_succ']
    have hs : ∀ i ∈ Finset.range ss.length,
        m * (1 - m) ^ (ss.length + 1 - 1 - (i + 1)) * (s :: ss).getD (i + 1) 0 =
          m * (1 - m) ^ (ss.length - 1 - i) * ss.getD i 0 := by
      intro i _
      rw [show ss.length + 1 - 1 - (i + 1) = ss.length - 1 - i by omega]
      simp
    rw [Finset.sum_congr rfl hs]
    simp only [List.getD_cons_zero, Nat.add_sub_cancel, Nat.sub_zero]
    ring

/-- the vector fold of the executed machine, component `j`, in closed form -/
theorem foldl_emaVec_closed (m : ℝ) (F : ℕ) (stat : List (List ℝ) → List ℝ) (bs : List (List (List ℝ)))
    (r0 : List ℝ) {j : ℕ} (h : j < F) :
    (bs.foldl (fun r rows => emaVec realX m F r (stat rows)) r0).getD j 0 =
      (1 - m) ^ bs.length * r0.getD j 0 +
        ∑ i ∈ Finset.range bs.length, m * (1 - m) ^ (bs.length - 1 - i) * (stat (bs.getD i [])).getD j 0 := by
  have h1 := foldl_emaVec_getD realX m F stat bs r0 h
  simp only [realX_zero] at h1
  have h2 : (fun r s => ema realX m r s) = fun r s => r * (1 - m) + s * m := by funext r s; exact ema_real m r s
  rw [h1, h2]
  have h3 := emaFold_closed m (bs.map (fun rows => (stat rows).getD j 0)) (r0.getD j 0)
  simp only [emaFold, List.length_map] at h3
  rw [h3]
  congr 1
  apply Finset.sum_congr rfl
  intro i hi
  have hi' : i < bs.length := Finset.mem_range.mp hi
  congr 1
  simp [List.getD_eq_getElem?_getD, hi']

end
end NormReal
