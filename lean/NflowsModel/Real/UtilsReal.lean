import NflowsModel.Core.XOps
import NflowsModel.Lemmas.DualSound
import Mathlib.Analysis.SpecialFunctions.Trigonometric.Arctan
import Mathlib.Analysis.SpecialFunctions.Trigonometric.DerivHyp
/-!
# Real/UtilsReal — the real-number instance `realX` of the primitive-operation record `XOps`

`floatX` / `float32X` (Core/XOps) are what the driver executes; `realX emb` is the same record over Mathlib's `ℝ`,
so list-level model code that is generic in `XOps α` (`searchsortedG`, `cbrtG`, `getTemperature`, …) can be
instantiated at `ℝ` and theorems stated about literally the definitions the driver runs.
`emb : Float → ℝ` is the (uninterpreted) real value of a Python-side double constant such as `eps`; theorems
carry their assumptions about it explicitly (`0 < emb eps`).  `nextUp` is the identity on `ℝ` (there is no next
real number): the `nextafter` branch of `searchsorted` is a floating-point device that the real twin never needs.
-/
open DualSound

noncomputable section
open Classical in
def realX (emb : Float → ℝ) : XOps ℝ where
  toOps := realOps
  ofFloat := emb
  toFloat := fun _ => 0
  le a b := decide (a ≤ b)
  tanh := Real.tanh; atan := Real.arctan; tan := Real.tan; cos := Real.cos; sin := Real.sin
  atan2 y x := Real.arctan (y / x)
  abs x := |x|
  floor x := (⌊x⌋ : ℝ)
  floorInt x := ⌊x⌋
  nextUp x := x
  isFinite _ := true

namespace RealX
variable (emb : Float → ℝ)
@[simp] theorem add_eq (a b : ℝ) : (realX emb).add a b = a + b := rfl
@[simp] theorem sub_eq (a b : ℝ) : (realX emb).sub a b = a - b := rfl
@[simp] theorem mul_eq (a b : ℝ) : (realX emb).mul a b = a * b := rfl
@[simp] theorem div_eq (a b : ℝ) : (realX emb).div a b = a / b := rfl
@[simp] theorem neg_eq (a : ℝ) : (realX emb).neg a = -a := rfl
@[simp] theorem exp_eq (a : ℝ) : (realX emb).exp a = Real.exp a := rfl
@[simp] theorem log_eq (a : ℝ) : (realX emb).log a = Real.log a := rfl
@[simp] theorem abs_eq (a : ℝ) : (realX emb).abs a = |a| := rfl
@[simp] theorem ofRat_eq (n : Int) (d : Nat) : (realX emb).ofRat n d = (n : ℝ) / (d : ℝ) := rfl
@[simp] theorem ofFloat_eq (x : Float) : (realX emb).ofFloat x = emb x := rfl
@[simp] theorem nextUp_eq (a : ℝ) : (realX emb).nextUp a = a := rfl
@[simp] theorem lt_eq (a b : ℝ) : (realX emb).lt a b = decide (a < b) := rfl
@[simp] theorem le_eq (a b : ℝ) : (realX emb).le a b = decide (a ≤ b) := rfl
@[simp] theorem ge_eq (a b : ℝ) : (realX emb).ge a b = decide (b ≤ a) := rfl
@[simp] theorem zero_eq : (realX emb).zero = 0 := by simp [XOps.zero]
@[simp] theorem one_eq : (realX emb).one = 1 := by simp [XOps.one]

theorem maxA_eq (a b : ℝ) : (realX emb).maxA a b = max a b := by
  unfold XOps.maxA
  by_cases h : a < b
  · simp [h, max_eq_right h.le]
  · simp [h, max_eq_left (not_lt.mp h)]

theorem sign_eq (x : ℝ) : (realX emb).sign x = (SignType.sign x : ℝ) := by
  unfold XOps.sign
  rcases lt_trichotomy x 0 with h | h | h
  · have h' : ¬ (0 : ℝ) < x := not_lt.mpr h.le
    simp [h, h', sign_neg h]
  · subst h; simp
  · simp [h, sign_pos h]

/-- the compensated `log1p` of `XOps` is `log (1 + x)` over the reals -/
theorem log1p_eq (x : ℝ) : (realX emb).log1p x = Real.log (1 + x) := by
  unfold XOps.log1p
  by_cases h : (1 : ℝ) + x = 1
  · have hx : x = 0 := by linarith
    subst hx; simp
  · have hx : x ≠ 0 := fun hx => h (by rw [hx, add_zero])
    have hne : ¬ ((1 : ℝ) + x ≤ 1 ∧ 1 ≤ 1 + x) := fun ⟨h1, h2⟩ => h (le_antisymm h1 h2)
    have : (1 : ℝ) + x - 1 = x := by ring
    simp only [add_eq, one_eq, le_eq, Bool.and_eq_true, decide_eq_true_eq, hne, if_false, div_eq, mul_eq, log_eq, sub_eq, this]
    field_simp

theorem sigmoid_eq (z : ℝ) : (realX emb).sigmoid z = 1 / (1 + Real.exp (-z)) := by
  simp [XOps.sigmoid]

end RealX
end
