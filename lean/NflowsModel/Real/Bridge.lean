import NflowsModel.Core.Spline
import NflowsModel.Lemmas.DualSound
import NflowsModel.Lemmas.RQ
import NflowsModel.Lemmas.Quad
import NflowsModel.Lemmas.Cubic
/-!
# Real/Bridge — the `Expr` terms the driver executes ARE the real functions the theorems are about

For each per-bin closed form `fooE : Expr` of `Core/Spline` we prove
`evalR env fooE = <shallow real definition used in the calculus lemmas>`; both sides are the same closed
form, so these are `simp`/`ring` one-liners.  `evalR = evalG realOps` is literally the interpreter the
driver runs at `floatOps`.
-/
open DualSound NF

namespace Bridge

/-- environment of `rqFwdE`: 0 x, 1 xk, 2 w, 3 yk, 4 h, 5 d0, 6 d1 -/
def rqEnv (x xk w yk h d0 d1 : ℝ) : Nat → ℝ := envOf [x, xk, w, yk, h, d0, d1] 0

@[simp] theorem rqEnv0 (x xk w yk h d0 d1 : ℝ) : rqEnv x xk w yk h d0 d1 0 = x := rfl
@[simp] theorem rqEnv1 (x xk w yk h d0 d1 : ℝ) : rqEnv x xk w yk h d0 d1 1 = xk := rfl
@[simp] theorem rqEnv2 (x xk w yk h d0 d1 : ℝ) : rqEnv x xk w yk h d0 d1 2 = w := rfl
@[simp] theorem rqEnv3 (x xk w yk h d0 d1 : ℝ) : rqEnv x xk w yk h d0 d1 3 = yk := rfl
@[simp] theorem rqEnv4 (x xk w yk h d0 d1 : ℝ) : rqEnv x xk w yk h d0 d1 4 = h := rfl
@[simp] theorem rqEnv5 (x xk w yk h d0 d1 : ℝ) : rqEnv x xk w yk h d0 d1 5 = d0 := rfl
@[simp] theorem rqEnv6 (x xk w yk h d0 d1 : ℝ) : rqEnv x xk w yk h d0 d1 6 = d1 := rfl

/-- the executed RQ forward term is `yk + RQ.g (h/w) d0 d1 h ((x-xk)/w)` -/
theorem rqFwdE_eq (x xk w yk h d0 d1 : ℝ) :
    evalR (rqEnv x xk w yk h d0 d1) rqFwdE = yk + RQ.g (h / w) d0 d1 h ((x - xk) / w) := by
  simp [rqFwdE, RQ.g, NF.v]
  ring

/-- the executed RQ forward log-det term is `log dnum − 2 log den` at θ = (x-xk)/w -/
theorem rqFwdLdE_eq (x xk w yk h d0 d1 : ℝ) :
    evalR (rqEnv x xk w yk h d0 d1) rqFwdLdE =
      Real.log (RQ.dnum (h / w) d0 d1 ((x - xk) / w)) - 2 * Real.log (RQ.den (h / w) d0 d1 ((x - xk) / w)) := by
  simp [rqFwdLdE, RQ.dnum, RQ.den, NF.v]
  ring_nf

/-- the executed RQ inverse root is the `2c/(-b-√(b²-4ac))` of `RQ.inverse_correct` with Δ = y - yk -/
theorem rqRootE_eq (y xk w yk h d0 d1 : ℝ) :
    evalR (rqEnv y xk w yk h d0 d1) rqRootE =
      (let a := RQ.qa (h / w) d0 d1 h (y - yk); let b := RQ.qb (h / w) d0 d1 h (y - yk); let c := RQ.qc (h / w) (y - yk)
       2 * c / (-b - Real.sqrt (b ^ 2 - 4 * a * c))) := by
  simp [rqRootE, rqDiscE, RQ.qa, RQ.qb, RQ.qc, NF.v]
  ring_nf

/-- quadratic: env 0 x', 1 loc, 2 w, 3 lcdf, 4 hl, 5 hr -/
def qEnv (x loc w c hl hr : ℝ) : Nat → ℝ := envOf [x, loc, w, c, hl, hr] 0

theorem quadFwdE_eq (x loc w c hl hr : ℝ) :
    evalR (qEnv x loc w c hl hr) quadFwdE = Quad.cdf hl hr w c ((x - loc) / w) := by
  simp [quadFwdE, Quad.cdf, qEnv, envOf, NF.v]
  ring

theorem quadFwdLdE_eq (x loc w c hl hr : ℝ) :
    evalR (qEnv x loc w c hl hr) quadFwdLdE = Real.log (Quad.pdf hl hr ((x - loc) / w)) := by
  simp [quadFwdLdE, Quad.pdf, qEnv, envOf, NF.v]

/-- cubic: env 0 x', 1 lcw, 2 a, 3 b, 4 c, 5 d with a = (d0+d1-2s)/w², b = (3s-2d0-d1)/w, c = d0 -/
def cEnv (x lcw a b c d : ℝ) : Nat → ℝ := envOf [x, lcw, a, b, c, d] 0

theorem cubicFwdE_eq (x lcw s d0 d1 w d : ℝ) :
    evalR (cEnv x lcw ((d0 + d1 - 2*s)/w^2) ((3*s - 2*d0 - d1)/w) d0 d) cubicFwdE = Cubic.poly s d0 d1 w (x - lcw) + d := by
  simp [cubicFwdE, Cubic.poly, cEnv, envOf, NF.v]
  ring

theorem cubicDerivE_eq (x lcw s d0 d1 w d : ℝ) (hw : w ≠ 0) :
    evalR (cEnv x lcw ((d0 + d1 - 2*s)/w^2) ((3*s - 2*d0 - d1)/w) d0 d) cubicDerivE = Cubic.dpoly s d0 d1 ((x - lcw) / w) := by
  simp [cubicDerivE, Cubic.dpoly, cEnv, envOf, NF.v]
  field_simp

end Bridge

namespace Bridge
open DualSound NF

/-- the executed quadratic-spline inverse root is the stable root `2c/(-b-√(b²-4ac))` with
    `a = ½(hr-hl)w`, `b = hl·w`, `c = lcdf - y` (quadratic.py, after the repair) -/
theorem quadInvAlphaE_eq (y loc w c hl hr : ℝ) :
    evalR (qEnv y loc w c hl hr) quadInvAlphaE =
      (let a := (1/2 : ℝ) * (hr - hl) * w; let b := hl * w; let c' := c - y
       2 * c' / (-b - Real.sqrt (b ^ 2 - 4 * a * c'))) := by
  simp [quadInvAlphaE, qEnv, envOf, NF.v]
  ring_nf

end Bridge
